import PallasVerif.Proofs.FlatBits
import PallasVerif.Proofs.FlatTotal
import PallasVerif.Proofs.FlatEnc
/-!
  Decoder refinement (`Props/C01`): if the bits at the decoder's cursor (`Dec.rem`) start with the
  specified encoding of a value, the decoder call returns exactly that value and advances the
  cursor by exactly the length of the encoding (`Reads`).
-/
namespace PallasVerif.Flat
open BitVec

/-- the bits not yet consumed -/
def Dec.rem (d : Dec) : List Bool := (bitsOf d.buf).drop d.cursor

/-- call result `r` (made in state `d`) is `Ok(a)` and consumed exactly `k` bits -/
def Reads {α : Type} (d : Dec) (r : Res α) (a : α) (k : Nat) : Prop :=
  ∃ d', r = .ok a d' ∧ d'.buf = d.buf ∧ d'.used < 8 ∧ d'.cursor = d.cursor + k

theorem Dec.rem_advance {d d' : Dec} {k : Nat} (hb : d'.buf = d.buf) (hc : d'.cursor = d.cursor + k) :
    d'.rem = d.rem.drop k := by
  simp [Dec.rem, hb, hc, List.drop_drop]

theorem Dec.rem_length (d : Dec) : d.rem.length = 8 * d.buf.length - d.cursor := by
  simp [Dec.rem]

theorem Dec.pos_lt {d : Dec} (h : 0 < d.rem.length) : d.pos < d.buf.length := by
  rw [Dec.rem_length] at h
  simp only [Dec.cursor] at h
  omega

theorem Dec.rem_split (d : Dec) (hp : d.pos < d.buf.length) (hu : d.used ≤ 8) :
    d.rem = (byteBits d.buf[d.pos]).drop d.used ++ bitsOf (d.buf.drop (d.pos + 1)) := by
  unfold Dec.rem Dec.cursor
  rw [← List.drop_drop, bitsOf_drop, List.drop_eq_getElem_cons hp, bitsOf_cons,
    List.drop_append_of_le_length (by simpa using hu)]

theorem drop_byteBits (u : Nat) (hu : u < 8) (b : Byte) :
    (byteBits b).drop u = b.getMsbD u :: (byteBits b).drop (u + 1) := by
  rcases eight_cases hu with rfl | rfl | rfl | rfl | rfl | rfl | rfl | rfl <;> simp [byteBits]

/-! ### `bit` -/

theorem Dec.bit_reads (d : Dec) (hu : d.used < 8) (b : Bool) (rest : List Bool) (h : d.rem = b :: rest) :
    Reads d d.bit b 1 := by
  have hp : d.pos < d.buf.length := Dec.pos_lt (by rw [h]; simp)
  have hs := Dec.rem_split d hp (by omega)
  rw [h, drop_byteBits _ hu] at hs
  have hb : b = d.buf[d.pos].getMsbD d.used := (List.cons.inj hs).1
  refine ⟨d.incBit, ?_, ?_, ?_, ?_⟩
  · unfold Dec.bit
    have h1 : ¬ d.pos ≥ d.buf.length := by omega
    have h2 : ¬ d.used ≥ 8 := by omega
    simp only [h1, if_false, List.getElem?_eq_getElem hp, h2, and_bit_ne_zero _ hu, hb]
  · unfold Dec.incBit; split <;> rfl
  · unfold Dec.incBit; split <;> simp <;> omega
  · unfold Dec.incBit Dec.cursor; split <;> simp <;> omega

/-! ### `bits8`, `u8` -/

theorem Dec.bits8_reads (d : Dec) (hu : d.used < 8) (n : Nat) (hn1 : 1 ≤ n) (hn : n ≤ 8)
    (l rest : List Bool) (hl : l.length = n) (h : d.rem = l ++ rest) :
    ∃ x, Reads d (d.bits8 n) x n ∧ byteBits x = List.replicate (8 - n) false ++ l := by
  have hlen : n ≤ d.rem.length := by rw [h]; simp [hl]
  have hp : d.pos < d.buf.length := Dec.pos_lt (by omega)
  have hrl := Dec.rem_length d
  simp only [Dec.cursor] at hrl
  have hs := Dec.rem_split d hp (by omega)
  have he : d.ensureBits n = true := by
    simp only [Dec.ensureBits, decide_eq_true_eq]; omega
  have hl' : l = d.rem.take n := by rw [h, ← hl]; simp
  have hdrop : ∀ x : Byte, Reads d (Res.ok x (d.dropBits n)) x n := by
    intro x
    refine ⟨_, rfl, rfl, ?_, ?_⟩
    · simp only [Dec.dropBits]; omega
    · simp only [Dec.dropBits, Dec.cursor]; omega
  unfold Dec.bits8
  have c1 : ¬ n > 8 := by omega
  have c2 : ¬ n = 0 := by omega
  have c3 : ¬ d.used > 8 := by omega
  have c4 : ¬ (d.used ≥ 8 ∨ 8 - n ≥ 8) := by omega
  simp only [c1, if_false, c2, he, not_true_eq_false, c3, List.getElem?_eq_getElem hp, c4]
  by_cases hn2 : n > 8 - d.used
  · have hp1 : d.pos + 1 < d.buf.length := by omega
    have c5 : ¬ (8 - d.used + (8 - n) ≥ 8) := by omega
    simp only [hn2, if_true, List.getElem?_eq_getElem hp1, c5, if_false]
    refine ⟨_, hdrop _, ?_⟩
    have ht : ∀ t : List Bool, List.take n ((List.drop d.used (byteBits d.buf[d.pos]) ++ byteBits d.buf[d.pos + 1]) ++ t)
        = List.take n (List.drop d.used (byteBits d.buf[d.pos]) ++ byteBits d.buf[d.pos + 1]) :=
      fun t => List.take_append_of_le_length (by simp; omega)
    rw [bits8_val_two d.used n hu hn hn2, hl', hs, List.drop_eq_getElem_cons hp1, bitsOf_cons,
      ← List.append_assoc, ht]
  · simp only [hn2, if_false]
    refine ⟨_, hdrop _, ?_⟩
    have ht : ∀ t : List Bool, List.take n (List.drop d.used (byteBits d.buf[d.pos]) ++ t)
        = List.take n (List.drop d.used (byteBits d.buf[d.pos])) :=
      fun t => List.take_append_of_le_length (by simp; omega)
    rw [bits8_val_one d.used n hu hn1 (by omega), hl', hs, ht]

theorem Dec.u8_reads (d : Dec) (hu : d.used < 8) (g : Byte) (rest : List Bool)
    (h : d.rem = byteBits g ++ rest) : Reads d d.u8 g 8 := by
  obtain ⟨x, hr, hx⟩ := Dec.bits8_reads d hu 8 (by omega) (by omega) (byteBits g) rest rfl h
  have : x = g := byteBits_inj (by simpa using hx)
  rw [this] at hr
  exact hr

/-! ### `filler` -/

theorem Dec.fillerLoop_reads (k : Nat) (fuel : Nat) (d : Dec) (hu : d.used < 8) (rest : List Bool)
    (h : d.rem = List.replicate k false ++ true :: rest) (hf : k < fuel) :
    Reads d (Dec.fillerLoop fuel d) () (k + 1) := by
  induction k generalizing fuel d with
  | zero =>
    obtain ⟨d', hb, h1, h2, h3⟩ := Dec.bit_reads d hu true rest (by simpa using h)
    cases fuel with
    | zero => omega
    | succ f =>
      refine ⟨d', ?_, h1, h2, by omega⟩
      simp [Dec.fillerLoop, Dec.zero, hb]
  | succ k ih =>
    obtain ⟨d', hb, h1, h2, h3⟩ := Dec.bit_reads d hu false (List.replicate k false ++ true :: rest)
      (by simpa [List.replicate_succ] using h)
    cases fuel with
    | zero => omega
    | succ f =>
      have hr : d'.rem = List.replicate k false ++ true :: rest := by
        rw [Dec.rem_advance h1 h3, h]; simp [List.replicate_succ]
      obtain ⟨d'', hb', h1', h2', h3'⟩ := ih f d' h2 hr (by omega)
      refine ⟨d'', ?_, by rw [h1', h1], h2', by omega⟩
      simp [Dec.fillerLoop, Dec.zero, hb, hb']

theorem Dec.filler_reads (k : Nat) (d : Dec) (hu : d.used < 8) (rest : List Bool)
    (h : d.rem = List.replicate k false ++ true :: rest) : Reads d d.filler () (k + 1) := by
  apply Dec.fillerLoop_reads k _ d hu rest h
  have := Dec.rem_length d
  rw [h] at this
  simp [Dec.cursor] at this
  omega

/-! ### `word`, `integer`, `char` -/

theorem group_facts : ∀ k : Fin 128,
    ((BitVec.ofNat 8 k.val &&& 127#8).toNat = k.val ∧ (BitVec.ofNat 8 k.val &&& 128#8) = 0#8) ∧
    (((BitVec.ofNat 8 k.val ||| 128#8) &&& 127#8).toNat = k.val ∧ ((BitVec.ofNat 8 k.val ||| 128#8) &&& 128#8) ≠ 0#8) := by
  decide

theorem and127 (w : Nat) : w &&& 127 = w % 128 := Nat.and_two_pow_sub_one_eq_mod w 7

theorem word_split (w shl : Nat) : w <<< shl = (w % 128) <<< shl ||| (w >>> 7) <<< (shl + 7) := by
  have h1 : w = (w >>> 7) <<< 7 ||| w % 128 := by
    rw [← Nat.shiftLeft_add_eq_or_of_lt (Nat.mod_lt _ (by decide)), Nat.shiftRight_eq_div_pow, Nat.shiftLeft_eq]
    have := Nat.div_add_mod w 128
    simp only [show (2:Nat)^7 = 128 by rfl]
    omega
  conv => lhs; rw [h1]
  rw [Nat.shiftLeft_or_distrib, ← Nat.shiftLeft_add, Nat.or_comm, Nat.add_comm 7 shl]

theorem Dec.wordLoop_step (fuel : Nat) (d : Dec) (fw shl : Nat) (g : Byte) (d' : Dec) (k : Nat)
    (hg : d.bits8 8 = .ok g d') (h7 : (g &&& 127#8).toNat = k) (hs : shl < 64)
    (hfit : k <<< shl < 2 ^ 64) :
    Dec.wordLoop (fuel + 1) d fw shl =
      if (g &&& 128#8) ≠ 0#8 then Dec.wordLoop fuel d' (fw ||| k <<< shl) (shl + 7)
      else .ok (fw ||| k <<< shl) d' := by
  have e1 : shl % 2 ^ 32 = shl := Nat.mod_eq_of_lt (by omega)
  have e2 : (k <<< shl) % 2 ^ 64 = k <<< shl := Nat.mod_eq_of_lt hfit
  have c1 : ¬ shl ≥ 64 := by omega
  have c2 : ¬ shl + 7 ≥ 2 ^ 64 := by omega
  rw [Dec.wordLoop]
  simp only [hg, h7, e1, e2, c1, if_false, Nat.shiftLeft_shiftRight, ne_eq, not_true_eq_false, c2]

theorem shl_mono {a b : Nat} (h : a ≤ b) (s : Nat) : a <<< s ≤ b <<< s := by
  rw [Nat.shiftLeft_eq, Nat.shiftLeft_eq]; exact Nat.mul_le_mul_right _ h

theorem Dec.wordLoop_reads (f : Nat) (fuel : Nat) (d : Dec) (w fw shl : Nat) (rest : List Bool)
    (hu : d.used < 8) (hw : w < 128 ^ (f + 1)) (hs : shl < 64) (hfit : w <<< shl < 2 ^ 64)
    (h : d.rem = bitsOf (wordBytes (f + 1) w) ++ rest) (hf : (wordBytes (f + 1) w).length ≤ fuel) :
    Reads d (Dec.wordLoop fuel d fw shl) (fw ||| w <<< shl) (8 * (wordBytes (f + 1) w).length) := by
  induction f generalizing fuel d w fw shl with
  | zero =>
    have h0 : w >>> 7 = 0 := by rw [Nat.shiftRight_eq_div_pow]; exact Nat.div_eq_of_lt (by simpa using hw)
    have hw128 : w < 128 := by simpa using hw
    have hwb : wordBytes 1 w = [BitVec.ofNat 8 w] := by
      simp only [wordBytes, h0, if_true, and127, Nat.mod_eq_of_lt hw128]
    rw [hwb] at h hf ⊢
    obtain ⟨d', hb, h1, h2, h3⟩ := Dec.u8_reads d hu (BitVec.ofNat 8 w) rest
      (by simpa only [bitsOf_cons, bitsOf_nil, List.append_nil] using h)
    have gf := (group_facts ⟨w, hw128⟩).1
    cases fuel with
    | zero => simp at hf
    | succ fu =>
      refine ⟨d', ?_, h1, h2, by simpa using h3⟩
      rw [Dec.wordLoop_step fu d fw shl _ d' w hb gf.1 hs hfit]
      simp [gf.2]
  | succ n ih =>
    have hk128 : w % 128 < 128 := Nat.mod_lt _ (by decide)
    have hkfit : (w % 128) <<< shl < 2 ^ 64 := Nat.lt_of_le_of_lt (shl_mono (Nat.mod_le _ _) shl) hfit
    by_cases h0 : w >>> 7 = 0
    · have hw128 : w < 128 := by
        have h0' := h0
        rw [Nat.shiftRight_eq_div_pow] at h0'
        have := Nat.div_add_mod w 128
        simp only [show (2:Nat)^7 = 128 by rfl] at h0'
        omega
      have hwb : wordBytes (n + 1 + 1) w = [BitVec.ofNat 8 w] := by
        simp only [wordBytes, h0, if_true, and127, Nat.mod_eq_of_lt hw128]
      rw [hwb] at h hf ⊢
      obtain ⟨d', hb, h1, h2, h3⟩ := Dec.u8_reads d hu (BitVec.ofNat 8 w) rest
        (by simpa only [bitsOf_cons, bitsOf_nil, List.append_nil] using h)
      have gf := (group_facts ⟨w, hw128⟩).1
      cases fuel with
      | zero => simp at hf
      | succ fu =>
        refine ⟨d', ?_, h1, h2, by simpa using h3⟩
        rw [Dec.wordLoop_step fu d fw shl _ d' w hb gf.1 hs hfit]
        simp [gf.2]
    · have hwb : wordBytes (n + 1 + 1) w = (BitVec.ofNat 8 (w % 128) ||| 128#8) :: wordBytes (n + 1) (w >>> 7) := by
        rw [wordBytes]; simp only [h0, if_false, and127]
      rw [hwb] at h hf ⊢
      obtain ⟨d', hb, h1, h2, h3⟩ := Dec.u8_reads d hu (BitVec.ofNat 8 (w % 128) ||| 128#8)
        (bitsOf (wordBytes (n + 1) (w >>> 7)) ++ rest)
        (by simpa only [bitsOf_cons, List.append_assoc] using h)
      have gf := (group_facts ⟨w % 128, hk128⟩).2
      have hr : d'.rem = bitsOf (wordBytes (n + 1) (w >>> 7)) ++ rest := by
        rw [Dec.rem_advance h1 h3, h]
        simp only [bitsOf_cons, List.append_assoc]
        exact List.drop_left' (byteBits_length _)
      -- the remaining groups are non-zero, so the next shift still fits
      have hfit' : (w >>> 7) <<< (shl + 7) < 2 ^ 64 := by
        have : (w >>> 7) <<< (shl + 7) ≤ w <<< shl := by
          rw [word_split w shl]; exact Nat.right_le_or
        omega
      have hs' : shl + 7 < 64 := by
        have h1 : 1 ≤ w >>> 7 := by omega
        have := shl_mono h1 (shl + 7)
        rw [Nat.one_shiftLeft] at this
        have hlt : 2 ^ (shl + 7) < 2 ^ 64 := by omega
        exact (Nat.pow_lt_pow_iff_right (by decide)).mp hlt
      cases fuel with
      | zero => simp at hf
      | succ fu =>
        obtain ⟨d'', hb', h1', h2', h3'⟩ := ih fu d' (w >>> 7) (fw ||| (w % 128) <<< shl) (shl + 7) h2 (shr7_lt hw)
          hs' hfit' hr (by simpa using hf)
        refine ⟨d'', ?_, by rw [h1', h1], h2', by simp only [List.length_cons]; omega⟩
        rw [Dec.wordLoop_step fu d fw shl _ d' (w % 128) hb gf.1 hs hkfit]
        simp only [gf.2, ne_eq, not_false_eq_true, if_true]
        rw [hb', word_split w shl, Nat.or_assoc]

theorem Dec.word_reads (d : Dec) (hu : d.used < 8) (w : Nat) (hw : w < 2 ^ 64) (rest : List Bool)
    (h : d.rem = bitsOf (wordBytes 10 w) ++ rest) :
    Reads d d.word w (8 * (wordBytes 10 w).length) := by
  have hl := Dec.rem_length d
  rw [h] at hl
  simp only [List.length_append, bitsOf_length, Dec.cursor] at hl
  have hlen : (wordBytes (9 + 1) w).length ≤ d.buf.length - d.pos + 1 := by
    show (wordBytes 10 w).length ≤ _
    omega
  have := Dec.wordLoop_reads 9 (d.buf.length - d.pos + 1) d w 0 0 rest hu
    (Nat.lt_of_lt_of_le hw (by decide)) (by omega) (by simpa using hw) h hlen
  simpa [Dec.word] using this

theorem zigzag_lt (i : Int) (h1 : -(2 ^ 63) ≤ i) (h2 : i < 2 ^ 63) : zigzag i < 2 ^ 64 := by
  unfold zigzag; split <;> omega

theorem unzigzag_zigzag (i : Int) : unzigzag (zigzag i) = i := by
  unfold zigzag unzigzag
  split <;> split <;> omega

theorem Dec.integer_reads (d : Dec) (hu : d.used < 8) (i : Int) (h1 : -(2 ^ 63) ≤ i) (h2 : i < 2 ^ 63)
    (rest : List Bool) (h : d.rem = bitsOf (wordBytes 10 (zigzag i)) ++ rest) :
    Reads d d.integer i (8 * (wordBytes 10 (zigzag i)).length) := by
  obtain ⟨d', hb, hr⟩ := Dec.word_reads d hu (zigzag i) (zigzag_lt i h1 h2) rest h
  exact ⟨d', by simp [Dec.integer, hb, unzigzag_zigzag], hr⟩

theorem Dec.char_reads (d : Dec) (hu : d.used < 8) (c : Nat) (hc : validScalar c = true)
    (rest : List Bool) (h : d.rem = bitsOf (wordBytes 10 c) ++ rest) :
    Reads d d.char c (8 * (wordBytes 10 c).length) := by
  have hc32 : c < 2 ^ 32 := by
    simp only [validScalar, Bool.decide_or, Bool.decide_and, Bool.or_eq_true, Bool.and_eq_true,
      decide_eq_true_eq] at hc
    omega
  obtain ⟨d', hb, hr⟩ := Dec.word_reads d hu c (by omega) rest h
  refine ⟨d', ?_, hr⟩
  simp [Dec.char, hb, Nat.mod_eq_of_lt hc32, hc]

/-! ### `byte_array`, `bytes`, `utf8` -/

theorem blkChunks_fuel (f g : Nat) (arr : List Byte) (hf : arr.length ≤ f) (hg : arr.length ≤ g) :
    Enc.blkChunks f arr = Enc.blkChunks g arr := by
  induction f generalizing g arr with
  | zero =>
    have : arr = [] := List.eq_nil_of_length_eq_zero (by omega)
    subst this
    cases g <;> simp [Enc.blkChunks]
  | succ f ih =>
    cases g with
    | zero =>
      have : arr = [] := List.eq_nil_of_length_eq_zero (by omega)
      subst this
      simp [Enc.blkChunks]
    | succ g =>
      cases arr with
      | nil => simp [Enc.blkChunks]
      | cons a arr =>
        simp only [Enc.blkChunks, List.isEmpty_cons, Bool.false_eq_true, if_false]
        rw [ih g _ (by simp at hf ⊢; omega) (by simp at hg ⊢; omega)]

theorem blk_nil : Enc.blk [] = [0#8] := rfl

theorem blk_cons (bs : List Byte) (h : bs ≠ []) :
    Enc.blk bs = BitVec.ofNat 8 (min 255 bs.length) :: (bs.take 255 ++ Enc.blk (bs.drop 255)) := by
  cases bs with
  | nil => exact absurd rfl h
  | cons a bs =>
    simp only [Enc.blk, List.length_cons, Enc.blkChunks, List.isEmpty_cons, Bool.false_eq_true, if_false,
      List.cons_append, List.append_assoc]
    rw [blkChunks_fuel bs.length ((a :: bs).drop 255).length _ (by simp <;> omega) (Nat.le_refl _)]

theorem Dec.blkLoop_reads (n : Nat) : ∀ (bs : List Byte) (d : Dec) (acc : List Byte) (fuel : Nat) (tl : List Byte)
    (L : Byte) (T : List Byte), bs.length ≤ n → Enc.blk bs = L :: T → d.buf.drop d.pos = T ++ tl →
    bs.length < fuel →
    Dec.blkLoop fuel d L.toNat acc = .ok (acc ++ bs) { d with pos := d.pos + T.length } := by
  induction n with
  | zero =>
    intro bs d acc fuel tl L T hn hb hd hf
    have : bs = [] := List.eq_nil_of_length_eq_zero (by omega)
    subst this
    rw [blk_nil] at hb
    obtain ⟨rfl, rfl⟩ := List.cons.inj hb
    cases fuel with
    | zero => simp at hf
    | succ fu => simp [Dec.blkLoop]
  | succ n ih =>
    intro bs d acc fuel tl L T hn hb hd hf
    by_cases hbs : bs = []
    · subst hbs
      rw [blk_nil] at hb
      obtain ⟨rfl, rfl⟩ := List.cons.inj hb
      cases fuel with
      | zero => simp at hf
      | succ fu => simp [Dec.blkLoop]
    · rw [blk_cons bs hbs] at hb
      obtain ⟨hL, hT⟩ := List.cons.inj hb
      have hpos : 0 < bs.length := List.length_pos_iff.mpr hbs
      have hm : L.toNat = min 255 bs.length := by
        rw [← hL, toNat_ofNat]; exact Nat.mod_eq_of_lt (by omega)
      -- the next block header
      cases hnext : Enc.blk (bs.drop 255) with
      | nil => simp [Enc.blk] at hnext
      | cons L' T' =>
        rw [hnext] at hT
        have htake : (bs.take 255).length = L.toNat := by rw [hm]; simp
        have hdlen := congrArg List.length hd
        rw [← hT] at hd hdlen
        simp only [List.length_drop, List.length_append, List.length_cons] at hdlen
        cases fuel with
        | zero => omega
        | succ fu =>
          have c1 : ¬ L.toNat = 0 := by omega
          have c2 : d.ensureBytes (L.toNat + 1) = true := by
            simp only [Dec.ensureBytes, decide_eq_true_eq]; omega
          have c3 : ¬ d.pos + L.toNat > d.buf.length := by omega
          have hget : d.buf[d.pos + L.toNat]? = some L' := by
            rw [← List.getElem?_drop, hd, List.append_assoc, List.getElem?_append_right (by omega)]
            simp [htake]
          have hacc : List.take L.toNat (List.drop d.pos d.buf) = bs.take 255 := by
            rw [hd, List.append_assoc, List.take_append_of_le_length (by omega), List.take_of_length_le (by omega)]
          have hd' : d.buf.drop (d.pos + L.toNat + 1) = T' ++ tl := by
            rw [← List.drop_drop, ← List.drop_drop, hd, List.append_assoc, List.drop_left' htake]
            rfl
          rw [Dec.blkLoop]
          simp only [c1, if_false, c2, not_true_eq_false, c3, hget, hacc]
          rw [ih (bs.drop 255) _ _ fu tl L' T' (by simp; omega) hnext hd' (by simp; omega)]
          simp only [List.append_assoc, List.take_append_drop, ← hT, List.length_append, List.length_cons, htake]
          have : d.pos + L.toNat + 1 + T'.length = d.pos + (L.toNat + (T'.length + 1)) := by omega
          rw [this]

theorem blk_length (n : Nat) : ∀ bs : List Byte, bs.length ≤ n → bs.length + 1 ≤ (Enc.blk bs).length := by
  induction n with
  | zero =>
    intro bs h
    have : bs = [] := List.eq_nil_of_length_eq_zero (by omega)
    subst this; simp [blk_nil]
  | succ n ih =>
    intro bs h
    by_cases hbs : bs = []
    · subst hbs; simp [blk_nil]
    · have hpos : 0 < bs.length := List.length_pos_iff.mpr hbs
      have := ih (bs.drop 255) (by simp; omega)
      rw [blk_cons bs hbs]
      simp only [List.length_cons, List.length_append, List.length_take, List.length_drop] at this ⊢
      omega

theorem Dec.byteArray_reads (d : Dec) (hu : d.used = 0) (bs : List Byte) (rest : List Bool)
    (h : d.rem = bitsOf (Enc.blk bs) ++ rest) :
    Reads d d.byteArray bs (8 * (Enc.blk bs).length) := by
  have hr : d.rem = bitsOf (d.buf.drop d.pos) := by
    simp only [Dec.rem, Dec.cursor, hu, Nat.add_zero, bitsOf_drop]
  rw [hr] at h
  obtain ⟨zs, hz, _⟩ := bitsOf_prefix _ _ _ h
  cases hblk : Enc.blk bs with
  | nil => simp [Enc.blk] at hblk
  | cons L T =>
    rw [hblk] at hz
    have hlen := congrArg List.length hz
    simp only [List.length_drop, List.length_append, List.length_cons] at hlen
    have hbl := blk_length bs.length bs (Nat.le_refl _)
    rw [hblk] at hbl
    simp only [List.length_cons] at hbl
    have hp : d.pos < d.buf.length := by omega
    have hget : d.buf[d.pos]? = some L := by
      rw [← Nat.add_zero d.pos, ← List.getElem?_drop, hz]; rfl
    have hd' : d.buf.drop (d.pos + 1) = T ++ zs := by
      rw [← List.drop_drop, hz]; rfl
    have c1 : ¬ d.used ≠ 0 := by omega
    have c2 : d.ensureBytes 1 = true := by
      simp only [Dec.ensureBytes, decide_eq_true_eq]; omega
    refine ⟨{ d with pos := d.pos + 1 + T.length }, ?_, rfl, by simp [hu], ?_⟩
    · unfold Dec.byteArray
      simp only [c1, if_false, c2, not_true_eq_false, hget]
      have := Dec.blkLoop_reads bs.length bs { d with pos := d.pos + 1 } [] (d.buf.length - d.pos + 1) zs L T
        (Nat.le_refl _) hblk hd' (by omega)
      simpa using this
    · simp only [Dec.cursor, List.length_cons]; omega

theorem Dec.bytes_reads (d : Dec) (hu : d.used < 8) (bs : List Byte) (rest : List Bool)
    (h : d.rem = fillerBits d.used ++ (bitsOf (Enc.blk bs) ++ rest)) :
    Reads d d.bytes bs (8 - d.used + 8 * (Enc.blk bs).length) := by
  obtain ⟨d', hb, h1, h2, h3⟩ := Dec.filler_reads (7 - d.used) d hu (bitsOf (Enc.blk bs) ++ rest)
    (by simpa [fillerBits] using h)
  have hu' : d'.used = 0 := by simp only [Dec.cursor] at h3; omega
  have hr : d'.rem = bitsOf (Enc.blk bs) ++ rest := by
    rw [Dec.rem_advance h1 h3, h]
    exact List.drop_left' (by simp [fillerBits] <;> omega)
  obtain ⟨d'', hb', h1', h2', h3'⟩ := Dec.byteArray_reads d' hu' bs rest hr
  refine ⟨d'', ?_, by rw [h1', h1], h2', by omega⟩
  simp [Dec.bytes, hb, hb']

theorem Dec.utf8_reads (d : Dec) (hu : d.used < 8) (bs : List Byte) (hv : validUtf8 bs = true) (rest : List Bool)
    (h : d.rem = fillerBits d.used ++ (bitsOf (Enc.blk bs) ++ rest)) :
    Reads d d.utf8 bs (8 - d.used + 8 * (Enc.blk bs).length) := by
  obtain ⟨d', hb, hr⟩ := Dec.bytes_reads d hu bs rest h
  exact ⟨d', by simp [Dec.utf8, hb, hv], hr⟩

/-! ### `decode_list_with` -/

theorem listBits_length_pos {α : Type} (spec : α → List Bool) (items : List α) :
    0 < (listBits spec items).length := by
  cases items <;> simp [listBits]

theorem Dec.listLoop_reads {α : Type} (elem : Dec → Res α) (spec : α → List Bool) (items : List α)
    (helem : ∀ a ∈ items, ∀ (d : Dec) (rest : List Bool), d.used < 8 → d.rem = spec a ++ rest →
      Reads d (elem d) a (spec a).length)
    (d : Dec) (acc : List α) (fuel : Nat) (rest : List Bool) (hu : d.used < 8)
    (h : d.rem = listBits spec items ++ rest) (hf : (listBits spec items).length ≤ fuel) :
    Reads d (Dec.listLoop elem fuel d acc) (acc ++ items) (listBits spec items).length := by
  induction items generalizing d acc fuel with
  | nil =>
    obtain ⟨d', hb, h1, h2, h3⟩ := Dec.bit_reads d hu false rest (by simpa [listBits] using h)
    cases fuel with
    | zero => simp [listBits] at hf
    | succ fu =>
      refine ⟨d', ?_, h1, h2, by simpa [listBits] using h3⟩
      simp [Dec.listLoop, hb]
  | cons a items ih =>
    obtain ⟨d', hb, h1, h2, h3⟩ := Dec.bit_reads d hu true (spec a ++ (listBits spec items ++ rest))
      (by simpa [listBits] using h)
    have hr : d'.rem = spec a ++ (listBits spec items ++ rest) := by
      rw [Dec.rem_advance h1 h3, h]; simp [listBits]
    obtain ⟨d'', hb', h1', h2', h3'⟩ := helem a (by simp) d' _ h2 hr
    have hr' : d''.rem = listBits spec items ++ rest := by
      rw [Dec.rem_advance h1' h3', hr]; exact List.drop_left' rfl
    cases fuel with
    | zero => simp [listBits] at hf
    | succ fu =>
      have hf' : (listBits spec items).length ≤ fu := by
        simp only [listBits, List.length_cons, List.length_append] at hf; omega
      obtain ⟨d3, hb3, h13, h23, h33⟩ := ih (fun a ha => helem a (by simp [ha])) d'' (acc ++ [a]) fu h2' hr' hf'
      refine ⟨d3, ?_, by rw [h13, h1', h1], h23, ?_⟩
      · simp [Dec.listLoop, hb, hb', hb3]
      · simp only [listBits, List.length_cons, List.length_append]; omega

theorem Dec.list_reads {α : Type} (elem : Dec → Res α) (spec : α → List Bool) (items : List α)
    (helem : ∀ a ∈ items, ∀ (d : Dec) (rest : List Bool), d.used < 8 → d.rem = spec a ++ rest →
      Reads d (elem d) a (spec a).length)
    (d : Dec) (rest : List Bool) (hu : d.used < 8) (h : d.rem = listBits spec items ++ rest) :
    Reads d (Dec.list elem d) items (listBits spec items).length := by
  have hl := Dec.rem_length d
  rw [h] at hl
  simp only [List.length_append, Dec.cursor] at hl
  have := Dec.listLoop_reads elem spec items helem d [] (8 * (d.buf.length - d.pos) + 1) rest hu h (by omega)
  simpa [Dec.list] using this

theorem Dec.bools_reads (d : Dec) (hu : d.used < 8) (l : List Bool) (rest : List Bool)
    (h : d.rem = boolsBits l ++ rest) : Reads d (Dec.list Dec.bool d) l (boolsBits l).length := by
  apply Dec.list_reads Dec.bool (fun b => [b]) l _ d rest hu h
  intro b _ d rest hu h
  exact Dec.bit_reads d hu b rest h

theorem Dec.string_reads (d : Dec) (hu : d.used < 8) (cs : List Nat) (hcs : ∀ c ∈ cs, validScalar c = true)
    (rest : List Bool) (h : d.rem = stringBits cs ++ rest) :
    Reads d d.string cs (stringBits cs).length := by
  apply Dec.list_reads Dec.char (fun c => bitsOf (wordBytes 10 c)) cs _ d rest hu h
  intro c hc d rest hu h
  simpa using Dec.char_reads d hu c (hcs c hc) rest h

end PallasVerif.Flat
