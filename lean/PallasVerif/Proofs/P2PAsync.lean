import PallasVerif.Proofs.P2PSync
import PallasVerif.Model.P2PDomain
/-! C28, wider domain: `Sent` confirmations, arrivals at the responder, replies and deliveries may be
    delayed arbitrarily, as long as (a) no step queues a `Send` of protocol X for a connection that
    still has an unconfirmed `Send` of X (the complement is the known finding) and (b) a reply of
    protocol X is not delivered before the `Sent` of the pending X request. -/
namespace PallasVerif.P2P

/-! ### more algebra of the specification tables -/

theorem advClient_append (v : Wire) (a b : List Msg) :
    advClient v (a ++ b) = (advClient v a).bind (fun v' => advClient v' b) := by
  induction a generalizing v with
  | nil => rfl
  | cons m ms ih =>
    simp only [List.cons_append, advClient]
    cases clientStep v m with
    | none => rfl
    | some v1 => exact ih v1

/-- a server move commutes with a queue of client moves enabled before it -/
theorem adv_commute_server {m : Msg} : ∀ (a : List Msg) {w w' W2 : Wire}, serverStep w m = some w' → advClient w a = some W2 →
    ∃ W2', serverStep W2 m = some W2' ∧ advClient w' a = some W2' := by
  intro a
  induction a with
  | nil => intro w w' W2 h1 h2; simp only [advClient, Option.some.injEq] at h2; subst h2; exact ⟨w', h1, rfl⟩
  | cons m1 a ih =>
    intro w w' W2 h1 h2
    unfold advClient at h2
    cases hc : clientStep w m1 with
    | none => simp only [hc] at h2; cases h2
    | some w1 =>
      simp only [hc] at h2
      obtain ⟨v3, hc3, hs3⟩ := client_server_commute hc h1
      obtain ⟨W2', hw, ha⟩ := ih hs3 h2
      exact ⟨W2', hw, by simp only [advClient, hc3, ha]⟩

/-- a server move enabled *after* a client move of another protocol was already enabled before it -/
theorem server_before_client {v v1 x : Wire} {m1 m : Msg} (h1 : clientStep v m1 = some v1) (h2 : serverStep v1 m = some x)
    (hne : m1.proto ≠ m.proto) : ∃ v', serverStep v m = some v' ∧ clientStep v' m1 = some x := by
  cases m1 <;> cases m <;>
    first
      | exact absurd rfl hne
      | (simp only [clientStep] at h1; simp only [serverStep] at h2
         obtain ⟨a, ha, rfl⟩ := map_some h1
         obtain ⟨b, hb, rfl⟩ := map_some h2
         dsimp only at ha hb
         cases hsv : serverStep v _ with
         | none => simp only [serverStep, hb, Option.map_some] at hsv; cases hsv
         | some v' =>
           refine ⟨v', rfl, ?_⟩
           simp only [serverStep, hb, Option.map_some, Option.some.injEq] at hsv
           subst hsv
           simp only [clientStep, ha, Option.map_some])

theorem server_before_queue {m : Msg} : ∀ (u : List Msg) {v V1 x : Wire}, advClient v u = some V1 → serverStep V1 m = some x →
    (∀ m', m' ∈ u → m'.proto ≠ m.proto) → ∃ v', serverStep v m = some v' ∧ advClient v' u = some x := by
  intro u
  induction u with
  | nil => intro v V1 x h1 h2 _; simp only [advClient, Option.some.injEq] at h1; subst h1; exact ⟨x, h2, rfl⟩
  | cons m1 u ih =>
    intro v V1 x h1 h2 hne
    unfold advClient at h1
    cases hc : clientStep v m1 with
    | none => simp only [hc] at h1; cases h1
    | some v1 =>
      simp only [hc] at h1
      obtain ⟨v1', hs1, ha1⟩ := ih h1 h2 (fun m' hm' => hne m' (List.mem_cons_of_mem _ hm'))
      obtain ⟨v', hs, hc'⟩ := server_before_client hc hs1 (hne m1 (List.mem_cons_self ..))
      exact ⟨v', hs, by simp only [advClient, hc', ha1]⟩

/-- the same for a batch of server moves -/
theorem servers_before_queue : ∀ (ms : List Msg) {u : List Msg} {v V1 x : Wire}, advClient v u = some V1 →
    advServer V1 ms = some x → (∀ m, m ∈ ms → ∀ m', m' ∈ u → m'.proto ≠ m.proto) →
    ∃ v', advServer v ms = some v' ∧ advClient v' u = some x := by
  intro ms
  induction ms with
  | nil => intro u v V1 x h1 h2 _; simp only [advServer, Option.some.injEq] at h2; subst h2; exact ⟨v, rfl, h1⟩
  | cons m ms ih =>
    intro u v V1 x h1 h2 hne
    unfold advServer at h2
    cases hs : serverStep V1 m with
    | none => simp only [hs] at h2; cases h2
    | some V1a =>
      simp only [hs] at h2
      obtain ⟨va, hsa, haa⟩ := server_before_queue u h1 hs (hne m (List.mem_cons_self ..))
      obtain ⟨v', hs', ha'⟩ := ih haa h2 (fun m2 hm2 => hne m2 (List.mem_cons_of_mem _ hm2))
      exact ⟨v', by simp only [advServer, hsa, hs'], ha'⟩

theorem client_after_queue : ∀ (u : List Msg) {v V1 : Wire} {m : Msg}, advClient v u = some V1 →
    (clientStep v m).isSome = true → (∀ m', m' ∈ u → m'.proto ≠ m.proto) → (clientStep V1 m).isSome = true := by
  intro u
  induction u with
  | nil => intro v V1 m h1 h2 _; simp only [advClient, Option.some.injEq] at h1; subst h1; exact h2
  | cons m1 u ih =>
    intro v V1 m h1 h2 hne
    unfold advClient at h1
    cases hc : clientStep v m1 with
    | none => simp only [hc] at h1; cases h1
    | some v1 =>
      simp only [hc] at h1
      exact ih h1 (client_client_indep hc (hne m1 (List.mem_cons_self ..)) h2) (fun m' hm' => hne m' (List.mem_cons_of_mem _ hm'))

/-! ### the link invariant with messages in flight in every direction -/

structure GLink (st : Peer) (l : Link) : Prop where
  ex : ∃ V1 V2, advClient (viewOf st) l.unconfirmed = some V1 ∧ advServer V1 l.toInit = some V2 ∧
    advClient l.w l.toResp = some V2
  emittable : ∀ m, m ∈ l.unconfirmed → Emittable m
  dist : Distinct l.unconfirmed
  ps : (∃ m, m ∈ l.unconfirmed ∧ m.proto = .ps) → st.ps = .idle none

theorem GLink.congr {st st' : Peer} {l : Link} (g : GLink st l) (hv : viewOf st' = viewOf st) (hp : st'.ps = st.ps) :
    GLink st' l :=
  ⟨by rw [hv]; exact g.ex, g.emittable, g.dist, by rw [hp]; exact g.ps⟩

/-- one more `Send` queued -/
theorem GLink.emit {st : Peer} {l : Link} {m : Msg} (g : GLink st l) (hp : Permits st m)
    (hne : ∀ m', m' ∈ l.unconfirmed → m'.proto ≠ m.proto) :
    GLink st { l with unconfirmed := l.unconfirmed ++ [m], toResp := l.toResp ++ [m] } := by
  obtain ⟨V1, V2, h1, h2, h3⟩ := g.ex
  have hc := client_after_queue l.unconfirmed h1 hp.2.1 hne
  cases hc1 : clientStep V1 m with
  | none => rw [hc1] at hc; cases hc
  | some V1' =>
    obtain ⟨V2', hw, ha⟩ := adv_commute l.toInit hc1 h2
    refine ⟨⟨V1', V2', ?_, ha, ?_⟩, ?_, ?_, ?_⟩
    · show advClient (viewOf st) (l.unconfirmed ++ [m]) = some V1'
      rw [advClient_append, h1]; simp only [Option.bind, advClient, hc1]
    · show advClient l.w (l.toResp ++ [m]) = some V2'
      rw [advClient_append, h3]; simp only [Option.bind, advClient, hw]
    · intro m' hm'
      rcases List.mem_append.mp hm' with h | h
      · exact g.emittable m' h
      · rw [List.mem_singleton] at h; rw [h]; exact hp.1
    · show Distinct (l.unconfirmed ++ [m])
      exact List.pairwise_append.mpr ⟨g.dist, List.pairwise_singleton _ _,
        fun a ha b hb => by rw [List.mem_singleton] at hb; rw [hb]; exact hne a ha⟩
    · intro ⟨m', hm', hps⟩
      rcases List.mem_append.mp hm' with h | h
      · exact g.ps ⟨m', h, hps⟩
      · rw [List.mem_singleton] at h; rw [h] at hps; exact hp.2.2.2 hps

theorem GLink.emitAll : ∀ (ms : List Msg) {st : Peer} {l : Link}, GLink st l → (∀ m, m ∈ ms → Permits st m) → Distinct ms →
    (∀ m, m ∈ ms → ∀ m', m' ∈ l.unconfirmed → m'.proto ≠ m.proto) →
    GLink st { l with unconfirmed := l.unconfirmed ++ ms, toResp := l.toResp ++ ms } := by
  intro ms
  induction ms with
  | nil => intro st l g _ _ _; simpa using g
  | cons m ms ih =>
    intro st l g hp hd hne
    obtain ⟨hhead, htail⟩ := List.pairwise_cons.mp hd
    have g1 := g.emit (hp m (List.mem_cons_self ..)) (hne m (List.mem_cons_self ..))
    have := ih g1 (fun m' hm' => hp m' (List.mem_cons_of_mem _ hm')) htail (by
      intro m2 hm2 m' hm'
      rcases List.mem_append.mp hm' with h | h
      · exact hne m2 (List.mem_cons_of_mem _ hm2) m' h
      · rw [List.mem_singleton] at h; rw [h]; exact hhead m2 hm2)
    simpa [List.append_assoc] using this

theorem applyMsg_ps_other {st : Peer} {m : Msg} (h : m.proto ≠ .ps) : (st.applyMsg m).ps = st.ps := by
  cases m with
  | ps a => exact absurd rfl h
  | hs a => simp only [Peer.applyMsg]; split <;> rfl
  | ka a => simp only [Peer.applyMsg]; split <;> rfl
  | cs a => simp only [Peer.applyMsg]; split <;> rfl
  | bf a => simp only [Peer.applyMsg]; split <;> rfl
  | tx a => simp only [Peer.applyMsg]; split <;> rfl
  | ln a => simp only [Peer.applyMsg]; split <;> rfl
  | lf a => simp only [Peer.applyMsg]; split <;> rfl

/-- the oldest unconfirmed `Send` is confirmed -/
theorem GLink.confirm {st : Peer} {l : Link} {m : Msg} {u : List Msg} (g : GLink st l) (hu : l.unconfirmed = m :: u) :
    GLink (st.applyMsg m) { l with unconfirmed := u } := by
  obtain ⟨V1, V2, h1, h2, h3⟩ := g.ex
  rw [hu] at h1
  unfold advClient at h1
  have hmem : m ∈ l.unconfirmed := by rw [hu]; exact List.mem_cons_self ..
  have hdist := g.dist; rw [hu] at hdist
  obtain ⟨hhead, htail⟩ := List.pairwise_cons.mp hdist
  cases hc : clientStep (viewOf st) m with
  | none => simp only [hc] at h1; cases h1
  | some v1 =>
    simp only [hc] at h1
    have hps : m.proto = .ps → st.ps ≠ .done := fun hp => by rw [g.ps ⟨m, hmem, hp⟩]; exact fun e => by cases e
    have hview := applyMsg_view_client (g.emittable m hmem) hps hc
    refine ⟨⟨V1, V2, by rw [hview]; exact h1, h2, h3⟩, ?_, htail, ?_⟩
    · intro m' hm'; exact g.emittable m' (by rw [hu]; exact List.mem_cons_of_mem _ hm')
    · intro ⟨m', hm', hp'⟩
      have hne : m.proto ≠ .ps := fun e => hhead m' hm' (e.trans hp'.symm)
      rw [applyMsg_ps_other hne]
      exact g.ps ⟨m', by rw [hu]; exact List.mem_cons_of_mem _ hm', hp'⟩

/-- the oldest message on the wire reaches the responder: permitted, no violation observed -/
theorem GLink.arrive {st : Peer} {l : Link} {m : Msg} {a : List Msg} (g : GLink st l) (ha : l.toResp = m :: a) :
    ∃ w', clientStep l.w m = some w' ∧ ∀ c, GLink st { l with toResp := a, w := w', cookie := c } := by
  obtain ⟨V1, V2, h1, h2, h3⟩ := g.ex
  rw [ha] at h3
  unfold advClient at h3
  cases hc : clientStep l.w m with
  | none => simp only [hc] at h3; cases h3
  | some w' =>
    simp only [hc] at h3
    exact ⟨w', rfl, fun c => ⟨⟨V1, V2, h1, h2, h3⟩, g.emittable, g.dist, g.ps⟩⟩

/-- the responder emits a permitted reply -/
theorem GLink.reply {st : Peer} {l : Link} {m : Msg} {w' : Wire} (g : GLink st l) (hs : serverStep l.w m = some w') :
    GLink st { l with w := w', toInit := l.toInit ++ [m] } := by
  obtain ⟨V1, V2, h1, h2, h3⟩ := g.ex
  obtain ⟨V2', hs2, ha2⟩ := adv_commute_server l.toResp hs h3
  refine ⟨⟨V1, V2', h1, ?_, ha2⟩, g.emittable, g.dist, g.ps⟩
  show advServer V1 (l.toInit ++ [m]) = some V2'
  rw [advServer_append, h2]; simp only [Option.bind, advServer, hs2]


/-- a batch of replies is delivered (none of them on a protocol with an unconfirmed request) -/
theorem GLink.deliver {st : Peer} {l : Link} {ms rest : List Msg} (g : GLink st l) (hq : l.toInit = ms ++ rest)
    (hdom : ∀ m, m ∈ ms → ∀ m', m' ∈ l.unconfirmed → m'.proto ≠ m.proto) :
    ∃ v', advServer (viewOf st) ms = some v' ∧
      ∀ st', viewOf st' = v' → ((∃ m, m ∈ l.unconfirmed ∧ m.proto = .ps) → st'.ps = .idle none) →
        GLink st' { l with toInit := rest } := by
  obtain ⟨V1, V2, h1, h2, h3⟩ := g.ex
  rw [hq, advServer_append] at h2
  cases hb : advServer V1 ms with
  | none => rw [hb] at h2; cases h2
  | some V1b =>
    rw [hb] at h2
    obtain ⟨v', hs, ha⟩ := servers_before_queue ms h1 hb hdom
    exact ⟨v', hs, fun st' hv hps => ⟨⟨V1b, V2, by rw [hv]; exact ha, h2, h3⟩, g.emittable, g.dist, hps⟩⟩

theorem ProtoEq.symm {a b : Peer} (h : ProtoEq a b) : ProtoEq b a :=
  ⟨h.hs.symm, h.ka.symm, h.ps.symm, h.bf.symm, h.cs.symm, h.tx.symm, h.ln.symm, h.lf.symm⟩

/-! peer-sharing state `Idle(Empty)` survives inbound messages of the other protocols -/

theorem discoveryInbound_ps_keep (s : St) (st : Peer) (h : st.ps = .idle none) : (discoveryInbound s st).2.ps = .idle none := by
  unfold discoveryInbound; split
  · split
    · rename_i peers hps; rw [h] at hps; cases hps
    · exact h
  · exact h

theorem handshakeInbound_ps (p : Nat) (st : Peer) : (handshakeInbound p st).1.ps = st.ps := by
  unfold handshakeInbound; split
  · split <;> rfl
  · rfl

theorem chainsyncInbound_ps (p : Nat) (st : Peer) : (chainsyncInbound p st).1.ps = st.ps := by
  unfold chainsyncInbound; split
  · rfl
  · split
    · rfl
    · split <;> rfl

theorem leiosnotifyInbound_ps (p : Nat) (st : Peer) : (leiosnotifyInbound p st).1.ps = st.ps := by
  unfold leiosnotifyInbound; split <;> rfl

theorem leiosfetchInbound_ps (p : Nat) (st : Peer) : (leiosfetchInbound p st).1.ps = st.ps := by
  unfold leiosfetchInbound; split <;> rfl

theorem inboundMsg_ps {s f : St} {p : Nat} {m : Msg} {st : Peer} (hp : s.peers p = some st) (hps : st.ps = .idle none)
    (hm : m.proto ≠ .ps) (h : inboundMsg s p m = some f) : ∃ st', f.peers p = some st' ∧ st'.ps = .idle none := by
  unfold inboundMsg at h
  simp only [hp] at h
  cases hc : categorize s p (st.applyMsg m) with
  | none => simp only [hc] at h; cases h
  | some r =>
    obtain ⟨s1, st1⟩ := r
    simp only [hc, Option.some.injEq] at h
    subst h
    obtain ⟨hpq, _, _⟩ := categorize_proto hc
    refine ⟨(leiosfetchInbound p (leiosnotifyInbound p (chainsyncInbound p
        (discoveryInbound s1 (handshakeInbound p st1).1).2).1).1).1, by simp [setPeer], ?_⟩
    rw [leiosfetchInbound_ps, leiosnotifyInbound_ps, chainsyncInbound_ps]
    apply discoveryInbound_ps_keep
    rw [handshakeInbound_ps, hpq.ps, applyMsg_ps_other hm]; exact hps

theorem inboundAll_ps : ∀ (ms : List Msg) {s f : St} {p : Nat} {st : Peer}, s.peers p = some st → st.ps = .idle none →
    (∀ m, m ∈ ms → m.proto ≠ .ps) → inboundAll s p ms = some f → ∃ st', f.peers p = some st' ∧ st'.ps = .idle none := by
  intro ms
  induction ms with
  | nil => intro s f p st hp hps _ h; simp only [inboundAll, Option.some.injEq] at h; subst h; exact ⟨st, hp, hps⟩
  | cons m ms ih =>
    intro s f p st hp hps hne h
    unfold inboundAll at h
    cases h1 : inboundMsg s p m with
    | none => simp only [h1] at h; cases h
    | some s1 =>
      simp only [h1] at h
      obtain ⟨st1, hp1, hps1⟩ := inboundMsg_ps hp hps (hne m (List.mem_cons_self ..)) h1
      exact ih hp1 hps1 (fun m' hm' => hne m' (List.mem_cons_of_mem _ hm')) h

/-! ### the system invariant and the domain -/

structure GenInv (y : Sys) : Prop where
  up : ∀ p l, y.links p = .up l → ∃ st, y.st.peers p = some st ∧ GLink st l
  notUp : ∀ p, (∀ l, y.links p ≠ .up l) → ∀ st, y.st.peers p = some st → viewOf st = {}
  pend : ∀ p, y.links p = .pending → y.st.peers p ≠ none
  obs : y.observed = []

/-- no `Send` of `outs` is of a protocol that still has an unconfirmed `Send` on its connection -/
def EmitOK (y : Sys) (outs : List Out) : Prop :=
  ∀ p l, y.links p = .up l → ∀ m, m ∈ sendsTo p outs → ∀ m', m' ∈ l.unconfirmed → m'.proto ≠ m.proto

def FeedOK (y : Sys) (e : Ev) : Prop := ∀ f, step y.st e = some f → EmitOK y f.out

/-- the two side conditions of the wider domain, per schedule step -/
def StepOK (y : Sys) : Sched → Prop
  | .ev e => (SStep.cmd e).ok ∧ FeedOK y e
  | .connect p => FeedOK { y with links := setLink y.links p (.up {}) } (.connected p)
  | .fail p => FeedOK y (.error p)
  | .deliver p n => ∀ l, y.links p = .up l → ∀ m, m ∈ l.toInit.take (n + 1) → ∀ m', m' ∈ l.unconfirmed → m'.proto ≠ m.proto
  | _ => True

def InDomain : Sys → List Sched → Prop
  | _, [] => True
  | y, a :: as => StepOK y a ∧ ∀ y1, sysStep y a = some y1 → InDomain y1 as

theorem feed_gen {y : Sys} {f : St} (hs : GenInv y) (cf : CmdFacts y.st f) (hok : EmitOK y f.out) :
    GenInv { y with st := f, links := absorb y.links f.out } := by
  refine ⟨?_, ?_, ?_, hs.obs⟩
  · intro p l1 h1
    have h1' : absorb y.links f.out p = .up l1 := h1
    cases hl : y.links p with
    | up l =>
      rw [absorb_up f.out y.links p l hl] at h1'
      have := LinkSt.up.inj h1'; subst this
      obtain ⟨st0, hst0, g0⟩ := hs.up p l hl
      obtain ⟨st, hst, hpe⟩ := cf.fwd p st0 hst0
      obtain ⟨hperm, hdist⟩ := cf.chain p st0 hst0
      have g1 : GLink st l := g0.congr hpe.view hpe.ps
      exact ⟨st, hst, g1.emitAll _ (fun m hm => hpe.symm.permits (hperm m hm)) hdist (hok p l hl)⟩
    | pending => rw [absorb_pending f.out y.links p hl] at h1'; cases h1'
    | down =>
      rcases absorb_down f.out y.links p hl with hh | ⟨hh, _⟩ <;> (rw [hh] at h1'; cases h1')
  · intro p hnu st hst
    have hst' : f.peers p = some st := hst
    have hnu0 : ∀ l, y.links p ≠ .up l := fun l hl => hnu _ (absorb_up f.out y.links p l hl)
    cases h0 : y.st.peers p with
    | none => exact cf.new p st hst' h0
    | some st0 =>
      obtain ⟨st1, hst1, hpe⟩ := cf.fwd p st0 h0
      rw [hst'] at hst1; cases hst1
      rw [hpe.view]; exact hs.notUp p hnu0 st0 h0
  · intro p hp
    have hp' : absorb y.links f.out p = .pending := hp
    show f.peers p ≠ none
    cases hl : y.links p with
    | up l => rw [absorb_up f.out y.links p l hl] at hp'; cases hp'
    | pending =>
      cases h0 : y.st.peers p with
      | none => exact absurd h0 (hs.pend p hl)
      | some st0 =>
        obtain ⟨st1, hst1, _⟩ := cf.fwd p st0 h0
        rw [hst1]; exact Option.some_ne_none _
    | down =>
      rcases absorb_down f.out y.links p hl with hh | ⟨_, hm⟩
      · rw [hh] at hp'; cases hp'
      · exact cf.conn p hm

theorem feed_gen' {y y' : Sys} {e : Ev} (hs : GenInv y) (cf : ∀ f, step y.st e = some f → CmdFacts y.st f)
    (hok : FeedOK y e) (h : feed y e = some y') : GenInv y' := by
  unfold feed at h
  cases hst : step y.st e with
  | none => simp only [hst] at h; cases h
  | some f =>
    simp only [hst, Option.some.injEq] at h
    subst h
    exact feed_gen hs (cf f hst) (hok f hst)

theorem genInv_setLink {y : Sys} {p : Nat} {f : St} {lp : LinkSt} (hs : GenInv y)
    (hfr : ∀ q, q ≠ p → f.peers q = y.st.peers q)
    (hup : ∀ l, lp = .up l → ∃ st, f.peers p = some st ∧ GLink st l)
    (hnu : (∀ l, lp ≠ .up l) → ∀ st, f.peers p = some st → viewOf st = {})
    (hpe : lp = .pending → f.peers p ≠ none) (obs : List Observed) (hobs : obs = []) :
    GenInv { st := f, links := setLink y.links p lp, observed := obs } := by
  refine ⟨?_, ?_, ?_, hobs⟩
  · intro q l hq
    have hq' : setLink y.links p lp q = .up l := hq
    by_cases e : q = p
    · subst e; rw [setLink_same] at hq'; exact hup l hq'
    · rw [setLink_other _ _ e] at hq'
      obtain ⟨st, hst, lok⟩ := hs.up q l hq'
      exact ⟨st, (hfr q e).trans hst, lok⟩
  · intro q hq st hst
    have hst' : f.peers q = some st := hst
    by_cases e : q = p
    · subst e
      exact hnu (fun l hl => hq l (by show setLink y.links q lp q = _; rw [setLink_same]; exact hl)) st hst'
    · refine hs.notUp q (fun l hl => hq l ?_) st ((hfr q e) ▸ hst')
      show setLink y.links p lp q = _
      rw [setLink_other _ _ e]; exact hl
  · intro q hq
    have hq' : setLink y.links p lp q = .pending := hq
    show f.peers q ≠ none
    by_cases e : q = p
    · subst e; rw [setLink_same] at hq'; exact hpe hq'
    · rw [setLink_other _ _ e] at hq'
      rw [hfr q e]; exact hs.pend q hq'


/-- feeding an event that queues nothing and touches only the record of `p` leaves the links alone -/
theorem feed_quiet {y0 y' : Sys} {e : Ev}
    (hq : ∀ f, step y0.st e = some f → (∀ q m, Out.send q m ∉ f.out) ∧ (∀ q, Out.connect q ∉ f.out))
    (h : feed y0 e = some y') : ∃ f, step y0.st e = some f ∧ y' = { y0 with st := f } := by
  unfold feed at h
  cases hst : step y0.st e with
  | none => simp only [hst] at h; cases h
  | some f =>
    simp only [hst, Option.some.injEq] at h
    obtain ⟨h1, h2⟩ := hq f hst
    rw [absorb_silent f.out y0.links h1 h2] at h
    exact ⟨f, rfl, h.symm⟩

theorem gen_step {y y' : Sys} {a : Sched} (hs : GenInv y) (hok : StepOK y a) (h : sysStep y a = some y') : GenInv y' := by
  cases a with
  | ev e =>
    simp only [sysStep] at h
    by_cases hc : isCommand e = true
    · simp only [hc, if_true] at h
      exact feed_gen' hs (fun f hf => cmd_facts hc hok.1 hf) hok.2 h
    · simp only [hc] at h; cases h; exact hs
  | connect p =>
    simp only [sysStep] at h
    cases hl : y.links p with
    | pending =>
      simp only [hl] at h
      have hnu : ∀ l, y.links p ≠ .up l := fun l hh => by rw [hl] at hh; cases hh
      have hs0 : GenInv { y with links := setLink y.links p (.up {}) } :=
        genInv_setLink (f := y.st) hs (fun _ _ => rfl)
          (fun l hh => by
            have := LinkSt.up.inj hh; subst this
            cases hp : y.st.peers p with
            | none => exact absurd hp (hs.pend p hl)
            | some st =>
              refine ⟨st, rfl, ⟨viewOf st, viewOf st, rfl, rfl, ?_⟩, fun m hm => (nomatch hm), List.Pairwise.nil,
                fun ⟨m, hm, _⟩ => (nomatch hm)⟩
              show advClient {} [] = some (viewOf st)
              rw [hs.notUp p hnu st hp]; rfl)
          (fun hh => absurd rfl (hh {})) (fun hh => by cases hh) y.observed hs.obs
      exact feed_gen' hs0 (fun f hf => connected_facts hf) hok h
    | down => simp only [hl] at h; cases h; exact hs
    | up l => simp only [hl] at h; cases h; exact hs
  | confirm p =>
    simp only [sysStep] at h
    cases hl : y.links p with
    | up l =>
      simp only [hl] at h
      cases hu : l.unconfirmed with
      | nil => simp only [hu] at h; cases h; exact hs
      | cons m u =>
        simp only [hu] at h
        obtain ⟨st, hst, g⟩ := hs.up p l hl
        obtain ⟨f, hf, hy'⟩ := feed_quiet (y0 := { y with links := setLink y.links p (.up { l with unconfirmed := u }) })
          (fun f hf => by
            rw [step_sent] at hf; cases hf
            exact ⟨fun q m' hh => (by rw [outboundMsg_out] at hh; cases hh), fun q hh => (by rw [outboundMsg_out] at hh; cases hh)⟩) h
        subst hy'
        rw [step_sent] at hf; cases hf
        exact genInv_setLink hs (fun q hq => outboundMsg_other { y.st with out := [] } m hq)
          (fun l' hh => by
            have := LinkSt.up.inj hh; subst this
            exact ⟨st.applyMsg m, outboundMsg_peer (s := { y.st with out := [] }) m hst, g.confirm hu⟩)
          (fun hh => absurd rfl (hh _)) (fun hh => by cases hh) y.observed hs.obs
    | down => simp only [hl] at h; cases h; exact hs
    | pending => simp only [hl] at h; cases h; exact hs
  | arrive p =>
    simp only [sysStep] at h
    cases hl : y.links p with
    | up l =>
      simp only [hl] at h
      cases ha : l.toResp with
      | nil => simp only [ha] at h; cases h; exact hs
      | cons m a =>
        simp only [ha] at h
        obtain ⟨st, hst, g⟩ := hs.up p l hl
        obtain ⟨w', hw, hg⟩ := g.arrive ha
        simp only [hw, Option.some.injEq] at h
        subst h
        exact genInv_setLink (f := y.st) hs (fun _ _ => rfl)
          (fun l' hh => by
            have := LinkSt.up.inj hh; subst this
            exact ⟨st, hst, hg _⟩)
          (fun hh => absurd rfl (hh _)) (fun hh => by cases hh) y.observed hs.obs
    | down => simp only [hl] at h; cases h; exact hs
    | pending => simp only [hl] at h; cases h; exact hs
  | reply p x k =>
    simp only [sysStep] at h
    cases hl : y.links p with
    | up l =>
      simp only [hl] at h
      cases hch : replyChoices l.w l.cookie x with
      | nil => simp only [hch] at h; cases h; exact hs
      | cons c cs =>
        simp only [hch] at h
        cases hsv : serverStep l.w ((c :: cs).getD (k % (cs.length + 1)) c) with
        | none => simp only [hsv] at h; cases h; exact hs
        | some w' =>
          simp only [hsv, Option.some.injEq] at h
          subst h
          obtain ⟨st, hst, g⟩ := hs.up p l hl
          exact genInv_setLink (f := y.st) hs (fun _ _ => rfl)
            (fun l' hh => by
              have := LinkSt.up.inj hh; subst this
              exact ⟨st, hst, g.reply hsv⟩)
            (fun hh => absurd rfl (hh _)) (fun hh => by cases hh) y.observed hs.obs
    | down => simp only [hl] at h; cases h; exact hs
    | pending => simp only [hl] at h; cases h; exact hs
  | deliver p n =>
    simp only [sysStep] at h
    cases hl : y.links p with
    | up l =>
      simp only [hl] at h
      cases hti : l.toInit with
      | nil => simp only [hti] at h; cases h; exact hs
      | cons m0 ms0 =>
        simp only [hti] at h
        obtain ⟨st, hst, g⟩ := hs.up p l hl
        have hdom := hok l hl
        rw [hti] at hdom
        have hsplit : l.toInit = (m0 :: ms0).take (n + 1) ++ (m0 :: ms0).drop (n + 1) := by
          rw [hti]; exact (List.take_append_drop _ _).symm
        obtain ⟨v', hv', hg⟩ := g.deliver hsplit hdom
        obtain ⟨f, hf, hy'⟩ := feed_quiet
          (y0 := { y with links := setLink y.links p (.up { l with toInit := (m0 :: ms0).drop (n + 1) }) })
          (fun f hf => by
            rw [step_recv] at hf
            obtain ⟨_, _, hsil⟩ := inboundAll_recv (s := { y.st with out := [] }) _ hst hv' hf
            exact ⟨fun q m hh => (nomatch hsil.nosend q m hh), fun q hh => (nomatch hsil.noconn q hh)⟩) h
        subst hy'
        rw [step_recv] at hf
        obtain ⟨⟨st', hst', hview⟩, hfr, _⟩ := inboundAll_recv (s := { y.st with out := [] }) _ hst hv' hf
        exact genInv_setLink hs hfr
          (fun l' hh => by
            have := LinkSt.up.inj hh; subst this
            refine ⟨st', hst', hg st' hview ?_⟩
            intro ⟨mu, hmu, hps⟩
            have hps0 := g.ps ⟨mu, hmu, hps⟩
            obtain ⟨st'', hst'', hps''⟩ := inboundAll_ps (s := { y.st with out := [] }) _ hst hps0
              (fun m hm e => hdom m hm mu hmu (hps.trans e.symm)) hf
            rw [hst'] at hst''; cases hst''; exact hps'')
          (fun hh => absurd rfl (hh _)) (fun hh => by cases hh) y.observed hs.obs
    | down => simp only [hl] at h; cases h; exact hs
    | pending => simp only [hl] at h; cases h; exact hs
  | drop p =>
    simp only [sysStep] at h
    have key : feed { y with links := setLink y.links p .down } (.disconnected p) = some y' → GenInv y' := by
      intro h'
      obtain ⟨hout, hfr0, hview⟩ := onDisconnected_facts { y.st with out := [] } p
      obtain ⟨f, hf, hy'⟩ := feed_quiet (y0 := { y with links := setLink y.links p .down })
        (fun f hf => by
          rw [step_disconnected] at hf; cases hf
          exact ⟨fun q m hh => (by rw [hout] at hh; cases hh), fun q hh => (by rw [hout] at hh; cases hh)⟩) h'
      subst hy'
      rw [step_disconnected] at hf; cases hf
      exact genInv_setLink hs hfr0 (fun l hh => by cases hh) (fun _ st hst => hview st hst) (fun hh => by cases hh)
        y.observed hs.obs
    cases hl : y.links p with
    | down => simp only [hl] at h; cases h; exact hs
    | pending => simp only [hl] at h; exact key h
    | up l => simp only [hl] at h; exact key h
  | fail p =>
    simp only [sysStep] at h
    cases hl : y.links p with
    | down => simp only [hl] at h; cases h; exact hs
    | pending => simp only [hl] at h; exact feed_gen' hs (fun f hf => error_facts hf) hok h
    | up l => simp only [hl] at h; exact feed_gen' hs (fun f hf => error_facts hf) hok h

theorem gen_init (cfg : Cfg) : GenInv (Sys.init cfg) :=
  ⟨fun p l h => (by cases h), fun p _ st h => (by cases h), fun p h => (by cases h), rfl⟩

theorem gen_run : ∀ (sched : List Sched) {y y' : Sys}, GenInv y → InDomain y sched → sysRun y sched = some y' → GenInv y' := by
  intro sched
  induction sched with
  | nil => intro y y' hs _ h; simp only [sysRun, Option.some.injEq] at h; subst h; exact hs
  | cons a as ih =>
    intro y y' hs hd h
    unfold sysRun at h
    cases h1 : sysStep y a with
    | none => simp only [h1] at h; cases h
    | some y1 =>
      simp only [h1] at h
      exact ih (gen_step hs hd.1 h1) (hd.2 y1 h1) h


/-! ### a computable domain check (for examples and for classifying schedules) -/

theorem emitOKb_sound {y : Sys} {outs : List Out} (h : emitOKb y outs = true) : EmitOK y outs := by
  intro p l hl m hm m' hm'
  have hmem := mem_sendsTo.mp hm
  unfold emitOKb at h
  rw [List.all_eq_true] at h
  have := h _ hmem
  simp only [hl, protoFree, List.all_eq_true, decide_eq_true_eq] at this
  exact this m' hm'

theorem feedOKb_sound {y : Sys} {e : Ev} (h : feedOKb y e = true) : FeedOK y e := by
  intro f hf
  unfold feedOKb at h
  rw [hf] at h
  exact emitOKb_sound h

theorem stepOKb_sound {y : Sys} {a : Sched} (h : stepOKb y a = true) : StepOK y a := by
  cases a with
  | ev e =>
    simp only [stepOKb, Bool.and_eq_true] at h
    refine ⟨?_, feedOKb_sound h.2⟩
    cases e <;> simp only [SStep.ok] <;> first | trivial | (simpa [ordOKb] using h.1)
  | connect p => exact feedOKb_sound h
  | fail p => exact feedOKb_sound h
  | deliver p n =>
    intro l hl m hm m' hm'
    simp only [stepOKb, hl, List.all_eq_true, protoFree, decide_eq_true_eq] at h
    exact h m hm m' hm'
  | confirm p => trivial
  | arrive p => trivial
  | reply p x k => trivial
  | drop p => trivial

theorem inDomainB_sound : ∀ (sched : List Sched) (y : Sys), inDomainB y sched = true → InDomain y sched := by
  intro sched
  induction sched with
  | nil => intro y _; trivial
  | cons a as ih =>
    intro y h
    simp only [inDomainB, Bool.and_eq_true] at h
    refine ⟨stepOKb_sound h.1, ?_⟩
    intro y1 h1
    have := h.2
    rw [h1] at this
    exact ih y1 this

end PallasVerif.P2P
