import Mathlib.Analysis.Complex.Exponential
import PallasVerif.Model.Decimal
import PallasVerif.Proofs.Decimal
/-! Rational-number reading of `Decimal` (C17): `val x = data / 10^prec : ℚ`, truncation toward zero
    on `ℚ`, and the cast lemmas used by `Props/C17Real.lean`. (The Mathlib module is the one the
    C15/C16 proofs already load; it provides `ℚ`, floors and the field tactics.) -/
namespace PallasVerif.Proofs.Decimal
open PallasVerif.Decimal


/-- the exact rational a `Decimal` denotes -/
def val (x : Dec) : ℚ := (x.data : ℚ) / (10 : ℚ) ^ x.prec

theorem mult_cast (p : Nat) : ((mult p : Int) : ℚ) = (10 : ℚ) ^ p := by simp [mult]
theorem pow_pos' (p : Nat) : (0 : ℚ) < (10 : ℚ) ^ p := by positivity
theorem P_cast : ((P : Int) : ℚ) = (10 : ℚ) ^ 34 := by norm_num [P]

/-- truncation toward zero of a rational -/
def truncQ (q : ℚ) : ℤ := if 0 ≤ q then ⌊q⌋ else ⌈q⌉

theorem truncQ_neg (q : ℚ) : truncQ (-q) = - truncQ q := by
  unfold truncQ
  rcases lt_trichotomy q 0 with h | h | h
  · have h1 : 0 ≤ -q := by linarith
    have h2 : ¬ 0 ≤ q := by linarith
    rw [if_pos h1, if_neg h2, Int.floor_neg]
  · subst h; simp
  · have h1 : ¬ 0 ≤ -q := by linarith
    have h2 : 0 ≤ q := by linarith
    rw [if_neg h1, if_pos h2, Int.ceil_neg]

theorem truncQ_div_nat (a b : Nat) : truncQ ((a : ℚ) / (b : ℚ)) = (a : Int).tdiv (b : Int) := by
  have h0 : (0 : ℚ) ≤ (a : ℚ) / (b : ℚ) := by positivity
  unfold truncQ
  rw [if_pos h0, ← Int.ofNat_tdiv]
  exact_mod_cast Rat.floor_natCast_div_natCast a b

/-- truncation toward zero of a quotient of integers is `Int.tdiv` (what dashu's `/` computes) -/
theorem truncQ_div (n d : Int) (_hd : d ≠ 0) : truncQ ((n : ℚ) / (d : ℚ)) = n.tdiv d := by
  obtain ⟨a, rfl | rfl⟩ := Int.eq_nat_or_neg n <;> obtain ⟨b, rfl | rfl⟩ := Int.eq_nat_or_neg d
  · rw [Int.cast_natCast, Int.cast_natCast]; exact truncQ_div_nat a b
  · rw [Int.cast_neg, Int.cast_natCast, Int.cast_natCast, div_neg, truncQ_neg, Int.tdiv_neg, truncQ_div_nat]
  · rw [Int.cast_neg, Int.cast_natCast, Int.cast_natCast, neg_div, truncQ_neg, Int.neg_tdiv, truncQ_div_nat]
  · rw [Int.cast_neg, Int.cast_neg, Int.cast_natCast, Int.cast_natCast, neg_div_neg_eq, Int.neg_tdiv_neg,
      truncQ_div_nat]

/-- integral results: `data = 10^prec · k` denotes the integer `k` -/
theorem val_of_integral (x : Dec) (k : Int) (h : x.data = mult x.prec * k) : val x = (k : ℚ) := by
  have hp := pow_pos' x.prec
  simp only [val, h]; push_cast; rw [mult_cast]; field_simp


end PallasVerif.Proofs.Decimal
