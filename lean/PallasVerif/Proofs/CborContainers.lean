import PallasVerif.Proofs.CborWrappers
/-!
  Sequence-shaped wrappers: `MaybeIndefArray`, `KeyValuePairs`, `Vec`, `Set`, `OrderPreservingProperties`,
  `ZeroOrOneArray`, and the tag / byte-string wrappers `TagWrap`, `CborWrap`, plus `EmptyMap`.
-/
namespace PallasVerif.Wrappers
open PallasVerif.Cbor PallasVerif.Minicbor

/-- what a sequence decoder needs from its element codec: round trip, and no encoding starts with
    the break byte (true of every CBOR data item) -/
structure ElemOK {α : Type} (c : Codec α) (wf : α → Prop) : Prop where
  rt : RTon c wf
  nonbreak : ∀ a, wf a → ∃ b t, c.enc a = b :: t ∧ b ≠ 0xff

theorem concatMap_append {α : Type} (f : α → Bytes) (xs ys : List α) :
    concatMap f (xs ++ ys) = concatMap f xs ++ concatMap f ys := by
  induction xs with
  | nil => rfl
  | cons x xs ih => simp [concatMap, ih]

theorem concatMap_length_ge {α : Type} (c : Codec α) (wf : α → Prop) (h : ElemOK c wf) (xs : List α)
    (hx : ∀ x ∈ xs, wf x) : xs.length ≤ (concatMap c.enc xs).length := by
  induction xs with
  | nil => simp [concatMap]
  | cons x xs ih =>
    obtain ⟨b, t, e, _⟩ := h.nonbreak x (hx x (by simp))
    have := ih (fun y hy => hx y (by simp [hy]))
    simp only [concatMap, List.length_cons, List.length_append, e]; omega

theorem repeatN_enc {α : Type} (c : Codec α) (wf : α → Prop) (h : RTon c wf) (xs : List α)
    (hx : ∀ x ∈ xs, wf x) (r : Bytes) :
    repeatN c.dec xs.length (concatMap c.enc xs ++ r) = .ok xs r := by
  induction xs with
  | nil => simp [repeatN, concatMap]
  | cons x xs ih =>
    have h1 := h x (hx x (by simp)) (concatMap c.enc xs ++ r)
    have h2 := ih (fun y hy => hx y (by simp [hy]))
    simp only [List.length_cons, repeatN, concatMap, List.append_assoc, h1, Res.andThen_ok, h2, Res.map_ok]

theorem untilBreak_enc {α : Type} (c : Codec α) (wf : α → Prop) (h : ElemOK c wf) (xs : List α)
    (hx : ∀ x ∈ xs, wf x) (r : Bytes) (fuel : Nat) (hf : xs.length + 1 ≤ fuel) :
    untilBreak c.dec fuel (concatMap c.enc xs ++ 0xff :: r) = .ok xs r := by
  induction xs generalizing fuel with
  | nil =>
    cases fuel with
    | zero => omega
    | succ f => simp [untilBreak, concatMap]
  | cons x xs ih =>
    cases fuel with
    | zero => omega
    | succ f =>
      obtain ⟨b, t, e, hne⟩ := h.nonbreak x (hx x (by simp))
      have h1 := h.rt x (hx x (by simp)) (concatMap c.enc xs ++ 0xff :: r)
      have h2 := ih (fun y hy => hx y (by simp [hy])) f (by simp at hf; omega)
      have henc : concatMap c.enc (x :: xs) ++ 0xff :: r = b :: (t ++ (concatMap c.enc xs ++ 0xff :: r)) := by
        simp [concatMap, e]
      rw [henc]
      simp only [untilBreak, hne, if_false]
      have h1' : c.dec (b :: (t ++ (concatMap c.enc xs ++ 0xff :: r))) = .ok x (concatMap c.enc xs ++ 0xff :: r) := by
        rw [← h1, e]; simp
      simp only [h1', Res.andThen_ok, h2, Res.map_ok]

theorem repeatN_inv {α : Type} (c : Codec α) (hc : Pres c) (n : Nat) (cur : Bytes) (xs : List α) (r : Bytes)
    (h : repeatN c.dec n cur = .ok xs r) : concatMap c.enc xs ++ r = cur ∧ xs.length = n := by
  induction n generalizing cur xs with
  | zero => simp only [repeatN, Res.ok.injEq] at h; obtain ⟨rfl, rfl⟩ := h; simp [concatMap]
  | succ n ih =>
    simp only [repeatN] at h
    obtain ⟨a, r1, e1, e2⟩ := Res.andThen_eq_ok h
    obtain ⟨ys, e3, rfl⟩ := Res.map_eq_ok e2
    obtain ⟨h1, h2⟩ := ih r1 ys e3
    have := hc cur a r1 e1
    exact ⟨by simp [concatMap, List.append_assoc, h1, this], by simp [h2]⟩

theorem untilBreak_inv {α : Type} (c : Codec α) (hc : Pres c) (fuel : Nat) (cur : Bytes) (xs : List α) (r : Bytes)
    (h : untilBreak c.dec fuel cur = .ok xs r) : concatMap c.enc xs ++ 0xff :: r = cur := by
  induction fuel generalizing cur xs with
  | zero => simp [untilBreak] at h
  | succ f ih =>
    cases cur with
    | nil => simp [untilBreak] at h
    | cons b t =>
      simp only [untilBreak] at h
      split at h
      · rename_i hb; simp only [Res.ok.injEq] at h; obtain ⟨rfl, rfl⟩ := h; simp [concatMap, hb]
      · obtain ⟨a, r1, e1, e2⟩ := Res.andThen_eq_ok h
        obtain ⟨ys, e3, rfl⟩ := Res.map_eq_ok e2
        have h1 := ih r1 ys e3
        have := hc (b :: t) a r1 e1
        simp [concatMap, List.append_assoc, h1, this]

/-! ## heads of sequences -/

theorem seqHead_indef (m : Nat) (hm : m < 8) (t : Bytes) : seqHead m (initByte m 31 :: t) = .ok none t := by
  simp [seqHead, initByte_major m 31 hm (by omega), initByte_info m 31 hm (by omega)]

theorem seqHead_inv (m : Nat) (hm : m < 8) (b : UInt8) (t : Bytes) (len : Option Nat) (r : Bytes)
    (h : seqHead m (b :: t) = .ok len r) :
    (len = none ∧ b = initByte m 31 ∧ r = t) ∨
    (∃ n, len = some n ∧ b.toNat / 32 = m ∧ b.toNat % 32 ≤ 27 ∧ unsigned (b.toNat % 32) t = .ok n r) := by
  simp only [seqHead] at h
  by_cases hmaj : major b ≠ m
  · rw [if_pos hmaj] at h; cases h
  · rw [if_neg hmaj] at h
    have hmaj' : b.toNat / 32 = m := by
      have : major b = m := by omega
      exact this
    have hinfo : info b = b.toNat % 32 := rfl
    rw [hinfo] at h
    by_cases hinf : b.toNat % 32 = 31
    · rw [if_pos hinf] at h
      simp only [Res.ok.injEq] at h
      left
      refine ⟨h.1.symm, ?_, h.2.symm⟩
      have hb := UInt8.toNat_lt b
      have : b.toNat = m * 32 + 31 := by omega
      rw [byte_eq_of_toNat b _ this]; rfl
    · rw [if_neg hinf] at h
      obtain ⟨n, e, hn⟩ := Res.map_eq_ok h
      right
      refine ⟨n, hn.symm, hmaj', ?_, e⟩
      have hlt : b.toNat % 32 < 32 := Nat.mod_lt _ (by omega)
      unfold unsigned at e
      by_cases h27 : b.toNat % 32 ≤ 27
      · exact h27
      · have h1 : ¬ b.toNat % 32 < 24 := by omega
        have h2 : ¬ b.toNat % 32 = 24 := by omega
        have h3 : ¬ b.toNat % 32 = 25 := by omega
        have h4 : ¬ b.toNat % 32 = 26 := by omega
        have h5 : ¬ b.toNat % 32 = 27 := by omega
        simp [h1, h2, h3, h4, h5] at e

theorem typeOf_arrayIndef (cur : Bytes) : typeOf cur (initByte 4 31) = .ok .arrayIndef := by
  have : (initByte 4 31).toNat = 159 := rfl
  type_of_ifs
theorem typeOf_mapIndef (cur : Bytes) : typeOf cur (initByte 5 31) = .ok .mapIndef := by
  have : (initByte 5 31).toNat = 191 := rfl
  type_of_ifs

/-- the datatype reported for a byte that `array()` / `map()` accepted -/
theorem datatype_of_array_none (b : UInt8) (t r : Bytes) (h : seqHead 4 (b :: t) = .ok none r) :
    datatype (b :: t) = .ok .arrayIndef := by
  rcases seqHead_inv 4 (by omega) b t none r h with ⟨_, rfl, _⟩ | ⟨n, hn, _⟩
  · simp only [datatype]; exact typeOf_arrayIndef _
  · cases hn
theorem datatype_of_array_some (b : UInt8) (t r : Bytes) (n : Nat) (h : seqHead 4 (b :: t) = .ok (some n) r) :
    datatype (b :: t) = .ok .array := by
  rcases seqHead_inv 4 (by omega) b t (some n) r h with ⟨hn, _, _⟩ | ⟨_, _, h1, h2, _⟩
  · cases hn
  · have hb := UInt8.toNat_lt b
    simp only [datatype]; exact typeOf_array _ _ (by omega) (by omega)
theorem datatype_of_map_none (b : UInt8) (t r : Bytes) (h : seqHead 5 (b :: t) = .ok none r) :
    datatype (b :: t) = .ok .mapIndef := by
  rcases seqHead_inv 5 (by omega) b t none r h with ⟨_, rfl, _⟩ | ⟨n, hn, _⟩
  · simp only [datatype]; exact typeOf_mapIndef _
  · cases hn
theorem datatype_of_map_some (b : UInt8) (t r : Bytes) (n : Nat) (h : seqHead 5 (b :: t) = .ok (some n) r) :
    datatype (b :: t) = .ok .map := by
  rcases seqHead_inv 5 (by omega) b t (some n) r h with ⟨hn, _, _⟩ | ⟨_, _, h1, h2, _⟩
  · cases hn
  · have hb := UInt8.toNat_lt b
    simp only [datatype]; exact typeOf_map _ _ (by omega) (by omega)

/-- an input's sequence head (major `m`) is the shortest encoding of its length, or it is not a
    definite sequence head at all -/
def minimalSeqHead (m : Nat) (bs : Bytes) : Bool :=
  match seqHead m bs with
  | .ok (some n) r => bs == encHead m n ++ r
  | _ => true

/-! ## `MaybeIndefArray` -/

def MaybeIndef.wfWith {α : Type} (wf : α → Prop) (v : MaybeIndef α) : Prop :=
  (∀ x ∈ v.items, wf x) ∧ v.items.length < 2 ^ 64

theorem vec_enc_def {α : Type} (c : Codec α) (wf : α → Prop) (h : RTon c wf) (xs : List α)
    (hx : ∀ x ∈ xs, wf x) (hl : xs.length < 2 ^ 64) (r : Bytes) :
    vec c.dec (encVec c.enc xs ++ r) = .ok xs r := by
  simp only [vec, encVec, List.append_assoc, array_enc _ _ hl, Res.andThen_ok, iterCollect,
    repeatN_enc c wf h xs hx r]

theorem vec_enc_indef {α : Type} (c : Codec α) (wf : α → Prop) (h : ElemOK c wf) (xs : List α)
    (hx : ∀ x ∈ xs, wf x) (r : Bytes) :
    vec c.dec (encBeginArray ++ concatMap c.enc xs ++ encEnd ++ r) = .ok xs r := by
  have hlen := concatMap_length_ge c wf h xs hx
  have e : encBeginArray ++ concatMap c.enc xs ++ encEnd ++ r = initByte 4 31 :: (concatMap c.enc xs ++ 0xff :: r) := by
    simp [encBeginArray, encEnd, initByte]
  rw [e]
  simp only [vec, array, seqHead_indef 4 (by omega), Res.andThen_ok, iterCollect]
  exact untilBreak_enc c wf h xs hx r _ (by simp; omega)

/-- **`MaybeIndefArray` round-trips** (both forms) -/
theorem maybeIndef_rt {α : Type} (c : Codec α) (wf : α → Prop) (h : ElemOK c wf) :
    RTon (cMaybeIndef c) (MaybeIndef.wfWith wf) := by
  intro v ⟨hx, hl⟩ r
  cases v with
  | defn xs =>
    simp only [MaybeIndef.items] at hx hl
    have hd : datatype (encVec c.enc xs ++ r) = .ok .array := by
      simp only [encVec, List.append_assoc]; exact datatype_encHead_array _ _
    simp [cMaybeIndef, MaybeIndef.enc, MaybeIndef.dec, hd, vec_enc_def c wf h.rt xs hx hl r]
  | indef xs =>
    simp only [MaybeIndef.items] at hx hl
    have e : encBeginArray ++ concatMap c.enc xs ++ encEnd ++ r = initByte 4 31 :: (concatMap c.enc xs ++ 0xff :: r) := by
      simp [encBeginArray, encEnd, initByte]
    have hd : datatype (initByte 4 31 :: (concatMap c.enc xs ++ 0xff :: r)) = .ok .arrayIndef := by
      simp only [datatype]; exact typeOf_arrayIndef _
    have hv := vec_enc_indef c wf h xs hx r
    rw [e] at hv
    simp only [cMaybeIndef, MaybeIndef.enc]
    rw [e]
    simp [MaybeIndef.dec, hd, hv]

/-- what `vec` accepted, spelled out -/
theorem vec_inv {α : Type} (c : Codec α) (hc : Pres c) (bs : Bytes) (xs : List α) (r : Bytes)
    (h : vec c.dec bs = .ok xs r) :
    (datatype bs = .ok .arrayIndef ∧ encBeginArray ++ concatMap c.enc xs ++ encEnd ++ r = bs) ∨
    (datatype bs = .ok .array ∧ ∃ r1, array bs = .ok (some xs.length) r1 ∧ concatMap c.enc xs ++ r = r1) := by
  simp only [vec] at h
  obtain ⟨len, r1, e1, e2⟩ := Res.andThen_eq_ok h
  cases bs with
  | nil => simp [array, seqHead] at e1
  | cons b t =>
    cases len with
    | none =>
      left
      rcases seqHead_inv 4 (by omega) b t none r1 e1 with ⟨_, hb, hr⟩ | ⟨n, hn, _⟩
      · refine ⟨datatype_of_array_none b t r1 e1, ?_⟩
        simp only [iterCollect] at e2
        have := untilBreak_inv c hc _ _ _ _ e2
        subst hr hb
        simp [encBeginArray, encEnd, initByte, ← this]
      · cases hn
    | some n =>
      right
      simp only [iterCollect] at e2
      obtain ⟨h1, h2⟩ := repeatN_inv c hc n r1 xs r e2
      exact ⟨datatype_of_array_some b t r1 n e1, r1, by rw [h2]; exact e1, h1⟩

/-- **`MaybeIndefArray` keeps the indefinite form byte for byte** -/
theorem maybeIndef_pres_indef {α : Type} (c : Codec α) (hc : Pres c) (bs : Bytes) (xs : List α) (r : Bytes)
    (h : (cMaybeIndef c).dec bs = .ok (.indef xs) r) : (cMaybeIndef c).enc (.indef xs) ++ r = bs := by
  simp only [cMaybeIndef, MaybeIndef.dec] at h
  cases hT : datatype bs with
  | error e => simp [hT] at h
  | ok ty =>
    simp only [hT] at h
    split at h
    · obtain ⟨ys, _, hv⟩ := Res.map_eq_ok h; cases hv
    · split at h
      · obtain ⟨ys, e, hv⟩ := Res.map_eq_ok h
        cases hv
        rcases vec_inv c hc bs xs r e with ⟨_, h2⟩ | ⟨h1, _⟩
        · simpa [cMaybeIndef, MaybeIndef.enc] using h2
        · simp_all
      · cases h

/-- **`MaybeIndefArray` keeps a definite array byte for byte when its length head is minimal** -/
theorem maybeIndef_pres_partial {α : Type} (c : Codec α) (hc : Pres c) (bs : Bytes) (v : MaybeIndef α) (r : Bytes)
    (hmin : minimalSeqHead 4 bs = true) (h : (cMaybeIndef c).dec bs = .ok v r) : (cMaybeIndef c).enc v ++ r = bs := by
  cases v with
  | indef xs => exact maybeIndef_pres_indef c hc bs xs r h
  | defn xs =>
    simp only [cMaybeIndef, MaybeIndef.dec] at h
    cases hT : datatype bs with
    | error e => simp [hT] at h
    | ok ty =>
      simp only [hT] at h
      split at h
      · obtain ⟨ys, e, hv⟩ := Res.map_eq_ok h
        cases hv
        rcases vec_inv c hc bs xs r e with ⟨h1, _⟩ | ⟨_, r1, h2, h3⟩
        · simp_all
        · simp only [minimalSeqHead, array] at hmin h2
          rw [h2] at hmin
          have := eq_of_beq hmin
          rw [this, ← h3]
          simp [cMaybeIndef, MaybeIndef.enc, encVec, encArrayHead]
      · split at h
        · obtain ⟨ys, _, hv⟩ := Res.map_eq_ok h; cases hv
        · cases h

/-! ## `KeyValuePairs` -/

/-- key and value one after the other: the element of a map iteration -/
def cEntry {κ ν : Type} (k : Codec κ) (v : Codec ν) : Codec (κ × ν) :=
  ⟨fun p => k.enc p.1 ++ v.enc p.2, pairOf k.dec v.dec⟩

theorem entry_ok {κ ν : Type} (k : Codec κ) (v : Codec ν) (wk : κ → Prop) (wv : ν → Prop)
    (hk : ElemOK k wk) (hv : RTon v wv) : ElemOK (cEntry k v) (fun p => wk p.1 ∧ wv p.2) := by
  constructor
  · intro p ⟨h1, h2⟩ r
    simp [cEntry, pairOf, List.append_assoc, hk.rt p.1 h1, hv p.2 h2]
  · intro p ⟨h1, _⟩
    obtain ⟨b, t, e, hne⟩ := hk.nonbreak p.1 h1
    exact ⟨b, t ++ v.enc p.2, by simp [cEntry, e], hne⟩

theorem entry_pres {κ ν : Type} (k : Codec κ) (v : Codec ν) (hk : Pres k) (hv : Pres v) : Pres (cEntry k v) := by
  intro bs p r h
  simp only [cEntry, pairOf] at h
  obtain ⟨a, r1, e1, e2⟩ := Res.andThen_eq_ok h
  obtain ⟨b, e3, rfl⟩ := Res.map_eq_ok e2
  have h1 := hk bs a r1 e1
  have h2 := hv r1 b r e3
  simp [cEntry, List.append_assoc, h2, h1]

theorem encPairs_eq {κ ν : Type} (k : Codec κ) (v : Codec ν) (xs : List (κ × ν)) :
    encPairs k.enc v.enc xs = concatMap (cEntry k v).enc xs := rfl

def KVP.wfWith {κ ν : Type} (wk : κ → Prop) (wv : ν → Prop) (m : KVP κ ν) : Prop :=
  (∀ p ∈ m.items, wk p.1 ∧ wv p.2) ∧ m.items.length < 2 ^ 64

/-- **`KeyValuePairs` round-trips** (both forms, entries in wire order, duplicates kept) -/
theorem kvp_rt {κ ν : Type} (k : Codec κ) (v : Codec ν) (wk : κ → Prop) (wv : ν → Prop)
    (hk : ElemOK k wk) (hv : RTon v wv) : RTon (cKVP k v) (KVP.wfWith wk wv) := by
  have he := entry_ok k v wk wv hk hv
  intro m ⟨hx, hl⟩ r
  cases m with
  | defn xs =>
    simp only [KVP.items] at hx hl
    have hd : datatype (encMapHead xs.length ++ (encPairs k.enc v.enc xs ++ r)) = .ok .map := datatype_encHead_map _ _
    have hm : mapIter k.dec v.dec (encMapHead xs.length ++ (encPairs k.enc v.enc xs ++ r)) = .ok xs r := by
      simp only [mapIter, map_enc _ _ hl, Res.andThen_ok, iterCollect, encPairs_eq]
      exact repeatN_enc (cEntry k v) _ he.rt xs hx r
    simp [cKVP, KVP.enc, KVP.dec, List.append_assoc, hd, hm]
  | indef xs =>
    simp only [KVP.items] at hx hl
    have hlen := concatMap_length_ge (cEntry k v) _ he xs hx
    have e : encBeginMap ++ encPairs k.enc v.enc xs ++ encEnd ++ r
        = initByte 5 31 :: (concatMap (cEntry k v).enc xs ++ 0xff :: r) := by
      simp [encBeginMap, encEnd, initByte, encPairs_eq]
    have hd : datatype (initByte 5 31 :: (concatMap (cEntry k v).enc xs ++ 0xff :: r)) = .ok .mapIndef := by
      simp only [datatype]; exact typeOf_mapIndef _
    have hm : mapIter k.dec v.dec (initByte 5 31 :: (concatMap (cEntry k v).enc xs ++ 0xff :: r)) = .ok xs r := by
      simp only [mapIter, Minicbor.map, seqHead_indef 5 (by omega), Res.andThen_ok, iterCollect]
      exact untilBreak_enc (cEntry k v) _ he xs hx r _ (by simp; omega)
    simp only [cKVP, KVP.enc]
    rw [e]
    simp [KVP.dec, hd, hm]

/-- **`KeyValuePairs` keeps the indefinite form byte for byte, and a definite map whose length head is
    minimal** -/
theorem kvp_pres_partial {κ ν : Type} (k : Codec κ) (v : Codec ν) (hk : Pres k) (hv : Pres v)
    (bs : Bytes) (m : KVP κ ν) (r : Bytes) (hmin : minimalSeqHead 5 bs = true)
    (h : (cKVP k v).dec bs = .ok m r) : (cKVP k v).enc m ++ r = bs := by
  have he := entry_pres k v hk hv
  simp only [cKVP, KVP.dec] at h
  cases hT : datatype bs with
  | error e => simp [hT] at h
  | ok ty =>
    simp only [hT] at h
    obtain ⟨items, r', e1, e2⟩ := Res.andThen_eq_ok h
    simp only [mapIter] at e1
    obtain ⟨len, r1, e3, e4⟩ := Res.andThen_eq_ok e1
    cases bs with
    | nil => simp [Minicbor.map, seqHead] at e3
    | cons b t =>
      cases len with
      | none =>
        have hdt := datatype_of_map_none b t r1 e3
        rw [hT] at hdt
        simp only [Except.ok.injEq] at hdt
        subst hdt
        simp only [show ¬ (DType.mapIndef = DType.map) by decide, if_false, if_true, Res.ok.injEq] at e2
        obtain ⟨rfl, rfl⟩ := e2
        rcases seqHead_inv 5 (by omega) b t none r1 e3 with ⟨_, hb, hr⟩ | ⟨n, hn, _⟩
        · simp only [iterCollect] at e4
          have := untilBreak_inv (cEntry k v) he _ _ _ _ e4
          subst hr hb
          simp [cKVP, KVP.enc, encBeginMap, encEnd, initByte, encPairs_eq, ← this]
        · cases hn
      | some n =>
        have hdt := datatype_of_map_some b t r1 n e3
        rw [hT] at hdt
        simp only [Except.ok.injEq] at hdt
        subst hdt
        simp only [if_true, Res.ok.injEq] at e2
        obtain ⟨rfl, rfl⟩ := e2
        simp only [iterCollect] at e4
        obtain ⟨h1, h2⟩ := repeatN_inv (cEntry k v) he n r1 items r' e4
        simp only [minimalSeqHead, Minicbor.map] at hmin e3
        rw [e3] at hmin
        have := eq_of_beq hmin
        rw [this, ← h1, ← h2]
        simp [cKVP, KVP.enc, encMapHead, encPairs_eq]

/-! ## the remaining wrappers: round trips -/

/-- `TagWrap<I, T>` -/
theorem tagwrap_rt {α : Type} (tg : Nat) (htg : tg < 2 ^ 64) (i : Codec α) (wf : α → Prop) (hi : RTon i wf) :
    RTon (cTagWrap tg i) wf := by
  intro a ha r
  simp [cTagWrap, TagWrap.enc, TagWrap.dec, List.append_assoc, tag_enc tg _ htg, hi a ha r]

/-- `CborWrap<T>`: the inner encoding travels as a byte string under tag 24 -/
theorem cborwrap_rt {α : Type} (t : Codec α) (wf : α → Prop) (ht : RTon t wf) :
    RTon (cCborWrap t) (fun a => wf a ∧ (t.enc a).length < 2 ^ 64) := by
  intro a ⟨ha, hl⟩ r
  have h1 := ht a ha []
  simp only [List.append_nil] at h1
  simp [cCborWrap, CborWrap.enc, CborWrap.dec, List.append_assoc, tag_enc 24 _ (by omega), bytes_enc _ _ hl, h1]

/-- `ZeroOrOneArray<T>` -/
theorem zeroOrOne_rt {α : Type} (t : Codec α) (wf : α → Prop) (ht : RTon t wf) :
    RTon (cZeroOrOne t) (fun o => ∀ a, o = some a → wf a) := by
  intro o ho r
  cases o with
  | none => simp [cZeroOrOne, ZeroOrOne.enc, ZeroOrOne.dec, array_enc 0 r (by omega)]
  | some a =>
    simp [cZeroOrOne, ZeroOrOne.enc, ZeroOrOne.dec, List.append_assoc, array_enc 1 _ (by omega), ht a (ho a rfl) r]

/-- `Vec<T>` -/
theorem vec_rt {α : Type} (c : Codec α) (wf : α → Prop) (h : RTon c wf) :
    RTon (cVec c) (fun xs => (∀ x ∈ xs, wf x) ∧ xs.length < 2 ^ 64) := by
  intro xs ⟨hx, hl⟩ r
  exact vec_enc_def c wf h xs hx hl r

/-- `Set<T>` / `NonEmptySet<T>`: always written with tag 258 -/
theorem set_rt {α : Type} (c : Codec α) (wf : α → Prop) (h : RTon c wf) :
    RTon (cSet c) (fun xs => (∀ x ∈ xs, wf x) ∧ xs.length < 2 ^ 64) := by
  intro xs ⟨hx, hl⟩ r
  have hd : datatype (encTag tagSet ++ (encVec c.enc xs ++ r)) = .ok .tag := datatype_encHead_tag _ _
  simp [cSet, Set.enc, Set.dec, List.append_assoc, hd, tag_enc tagSet _ (by simp [tagSet]), vec_enc_def c wf h xs hx hl r]

/-- `OrderPreservingProperties<P>` -/
theorem opp_rt {α : Type} (p : Codec α) (wf : α → Prop) (h : RTon p wf) :
    RTon (cOPP p) (fun xs => (∀ x ∈ xs, wf x) ∧ xs.length < 2 ^ 64) := by
  intro xs ⟨hx, hl⟩ r
  simp [cOPP, OPP.enc, OPP.dec, List.append_assoc, map_enc _ _ hl, repeatN_enc p wf h xs hx r]

/-- `EmptyMap` -/
theorem emptyMap_rt : RTon cEmptyMap (fun _ => True) := by
  intro u _ r
  have hb : (initByte 5 0).toNat = 160 := rfl
  have e : cEmptyMap.enc u ++ r = initByte 5 0 :: r := by
    simp [cEmptyMap, EmptyMap.enc, encMapHead, encHead, minHead, Head.encode]
  rw [e]
  have hm : Minicbor.map (initByte 5 0 :: r) = .ok (some 0) r := by
    simp [Minicbor.map, seqHead, major, info, hb, unsigned]
  simp only [cEmptyMap, EmptyMap.dec, skip, List.length_cons, skipLoop]
  rw [if_neg (by simp)]
  simp only [skipArm, hb]
  repeat (first | rw [if_pos (by omega)] | rw [if_neg (by omega)])
  simp [hm, skipDef, satMul, skipAfter, popZeros, skipLoop]

/-! ## `codec_by_datatype!` -/

/-- the arm list is searched in order: the first arm whose datatype set contains `t` decodes -/
theorem byDatatypeArms_select {γ : Type} (arms : List (Arm γ)) (t : DType) (k : Nat) (a : Arm γ)
    (hk : arms[k]? = some a) (hsel : a.types t = true)
    (hfirst : ∀ j, j < k → ∀ b, arms[j]? = some b → b.types t = false) :
    byDatatypeArms arms t = a.dec := by
  induction arms generalizing k with
  | nil => simp at hk
  | cons x xs ih =>
    cases k with
    | zero =>
      simp only [List.getElem?_cons_zero, Option.some.injEq] at hk
      subst hk
      simp [byDatatypeArms, hsel]
    | succ k =>
      have hx : x.types t = false := hfirst 0 (by omega) x (by simp)
      simp only [byDatatypeArms, hx]
      simp only [List.getElem?_cons_succ] at hk
      exact ih k hk (fun j hj b hb => hfirst (j + 1) (by omega) b (by simpa using hb))

/-- no arm matches: the macro's `_ => Err(message)` -/
theorem byDatatypeArms_none {γ : Type} (arms : List (Arm γ)) (t : DType) (h : ∀ b ∈ arms, b.types t = false) (cur : Bytes) :
    byDatatypeArms arms t cur = .err .msg := by
  induction arms with
  | nil => rfl
  | cons x xs ih =>
    simp only [byDatatypeArms, h x (by simp)]
    exact ih (fun b hb => h b (by simp [hb]))

/-- **`codec_by_datatype!` dispatch**: an input whose datatype is in the set of arm `k`, and in no
    earlier arm's set, and is not claimed by the many-field (`Array`) variant, is decoded by arm `k` -/
theorem byDatatype_single {γ : Type} (many : Option (P γ)) (arms : List (Arm γ)) (cur : Bytes) (t : DType)
    (k : Nat) (a : Arm γ) (hdt : datatype cur = .ok t) (hmany : many.isSome = true → t ≠ .array)
    (hk : arms[k]? = some a) (hsel : a.types t = true)
    (hfirst : ∀ j, j < k → ∀ b, arms[j]? = some b → b.types t = false) :
    byDatatype many arms cur = a.dec cur := by
  simp only [byDatatype, hdt]
  cases many with
  | none => simp [byDatatypeArms_select arms t k a hk hsel hfirst]
  | some m =>
    have : t ≠ .array := hmany rfl
    simp [this, byDatatypeArms_select arms t k a hk hsel hfirst]

/-- a definite array head goes to the many-field variant, whatever the other arms say -/
theorem byDatatype_many {γ : Type} (m : P γ) (arms : List (Arm γ)) (cur : Bytes) (hdt : datatype cur = .ok .array) :
    byDatatype (some m) arms cur = (array cur).andThen fun _ r => m r := by
  simp [byDatatype, hdt]

/-! ## the transparent wrappers `Bytes`, `Int` and the numeric wrappers -/

/-- `i8()..i64()` / `int()` on `Encoder::int` of a negative number `-1 - n` -/
theorem neg_head (n : Nat) (r : Bytes) (hn : n < 2 ^ 64) :
    ∃ b t, encHead 1 n ++ r = b :: t ∧ ¬ b.toNat ≤ 0x1b ∧ (0x20 ≤ b.toNat ∧ b.toNat ≤ 0x3b) ∧
      unsigned (b.toNat - 0x20) t = .ok n r := by
  have hai := minHead_ai_le 1 n
  have hb := initByte_toNat 1 (minHead 1 n).ai (by omega) (by omega)
  refine ⟨initByte 1 (minHead 1 n).ai, (minHead 1 n).arg ++ r, by simp [encHead_eq], by omega, by omega, ?_⟩
  have : (initByte 1 (minHead 1 n).ai).toNat - 0x20 = (minHead 1 n).ai := by omega
  rw [this]; exact unsigned_minHead 1 n r hn

theorem pos_head (n : Nat) (r : Bytes) (hn : n < 2 ^ 64) :
    ∃ b t, encHead 0 n ++ r = b :: t ∧ b.toNat ≤ 0x1b ∧ unsigned b.toNat t = .ok n r := by
  have hai := minHead_ai_le 0 n
  have hb := initByte_toNat 0 (minHead 0 n).ai (by omega) (by omega)
  refine ⟨initByte 0 (minHead 0 n).ai, (minHead 0 n).arg ++ r, by simp [encHead_eq], by omega, ?_⟩
  have : (initByte 0 (minHead 0 n).ai).toNat = (minHead 0 n).ai := by omega
  rw [this]; exact unsigned_minHead 0 n r hn

/-- `int()` reads back what `Encoder::int` wrote, over the whole 65-bit range -/
theorem int_enc (i : Int) (r : Bytes) (hlo : -(2 ^ 64 : Int) ≤ i) (hhi : i < 2 ^ 64) :
    Minicbor.int (encInt i ++ r) = .ok i r := by
  unfold encInt
  split
  · rename_i h0
    obtain ⟨b, t, e, hb, hu⟩ := pos_head i.toNat r (by omega)
    rw [e]; simp only [Minicbor.int]; rw [if_pos hb, hu]
    simp [Int.toNat_of_nonneg h0]
  · rename_i h0
    obtain ⟨b, t, e, hb1, hb2, hu⟩ := neg_head (-1 - i).toNat r (by omega)
    rw [e]; simp only [Minicbor.int]; rw [if_neg hb1, if_pos hb2, hu]
    simp only [Res.map_ok, Res.ok.injEq, and_true]
    have : ((-1 - i).toNat : Int) = -1 - i := Int.toNat_of_nonneg (by omega)
    simp only [Int.ofNat_eq_coe]; omega

/-- `i64()` reads back what `Encoder::i64` wrote -/
theorem i64_enc (i : Int) (r : Bytes) (hlo : -(2 ^ 63 : Int) ≤ i) (hhi : i < 2 ^ 63) :
    Minicbor.i64 (encInt i ++ r) = .ok i r := by
  unfold encInt
  split
  · rename_i h0
    obtain ⟨b, t, e, hb, hu⟩ := pos_head i.toNat r (by omega)
    rw [e]; simp only [Minicbor.i64, sintN]; rw [if_pos hb, hu]
    have hlt : i.toNat < 2 ^ (64 - 1) := by simp only [show (64 - 1 : Nat) = 63 by rfl]; omega
    simp [hlt, Int.toNat_of_nonneg h0]
  · rename_i h0
    obtain ⟨b, t, e, hb1, hb2, hu⟩ := neg_head (-1 - i).toNat r (by omega)
    rw [e]; simp only [Minicbor.i64, sintN]; rw [if_neg hb1, if_pos hb2, hu]
    have hlt : (-1 - i).toNat < 2 ^ (64 - 1) := by simp only [show (64 - 1 : Nat) = 63 by rfl]; omega
    simp only [Res.andThen_ok, hlt, if_true, Res.ok.injEq, and_true]
    have : ((-1 - i).toNat : Int) = -1 - i := Int.toNat_of_nonneg (by omega)
    simp only [Int.ofNat_eq_coe]; omega

theorem bytes_rt : RTon cBytes (fun b => b.length < 2 ^ 64) := fun b hb r => bytes_enc b r hb
theorem int_rt : RTon cInt (fun i => -(2 ^ 64 : Int) ≤ i ∧ i < 2 ^ 64) := fun i ⟨h1, h2⟩ r => int_enc i r h1 h2
theorem u64_rt : RTon cU64 (fun n => n < 2 ^ 64) := fun n hn r => u64_enc n r hn

/-- `PositiveCoin` values built by the checked constructor round-trip -/
theorem positiveCoin_rt : RTon cPositiveCoin (fun n => n ≠ 0 ∧ n < 2 ^ 64) := by
  intro n ⟨h0, hn⟩ r
  simp [cPositiveCoin, PositiveCoin.dec, PositiveCoin.enc, u64_enc n r hn, h0]

/-- `NonZeroInt` values built by the checked constructor round-trip -/
theorem nonZeroInt_rt : RTon cNonZeroInt (fun i => i ≠ 0 ∧ -(2 ^ 63 : Int) ≤ i ∧ i < 2 ^ 63) := by
  intro i ⟨h0, h1, h2⟩ r
  simp [cNonZeroInt, NonZeroInt.dec, NonZeroInt.enc, i64_enc i r h1 h2, h0]

/-! ## a concrete `codec_by_datatype!` enum -/

def Thing.wf : Thing → Prop
  | .coin a => a.wf
  | .flag _ => True
  | .blob b => b.length < 2 ^ 64
  | .multi a n => a.wf ∧ Nullable.wfWith (fun x => x < 2 ^ 64) n

theorem typeOf_bool (cur : Bytes) (b : Bool) : typeOf cur (if b then 0xf5 else 0xf4) = .ok .bool := by
  cases b
  · have : (0xf4 : UInt8).toNat = 0xf4 := rfl
    simp only [Bool.false_eq_true, if_false]; type_of_ifs
  · have : (0xf5 : UInt8).toNat = 0xf5 := rfl
    simp only [if_true]; type_of_ifs

/-- the datatype of an `AnyUInt` encoding is one of the four unsigned types -/
theorem anyuint_datatype (a : AnyUInt) (hw : a.wf) (r : Bytes) :
    ∃ ty, datatype (AnyUInt.enc a ++ r) = .ok ty ∧ (ty = .u8 ∨ ty = .u16 ∨ ty = .u32 ∨ ty = .u64) := by
  cases a with
  | majorByte x =>
    simp only [AnyUInt.wf] at hw
    refine ⟨.u8, ?_, Or.inl rfl⟩
    simp only [AnyUInt.enc, be, List.cons_append, List.nil_append, datatype]
    exact typeOf_u8 _ _ (by rw [toNat_ofNat_lt _ (by omega)]; omega)
  | u8 x => exact ⟨.u8, by simp only [AnyUInt.enc, List.cons_append, datatype]; exact typeOf_u8 _ (24 : UInt8) (by decide), Or.inl rfl⟩
  | u16 x => exact ⟨.u16, by simp only [AnyUInt.enc, List.cons_append, datatype]; exact typeOf_u16 _ (25 : UInt8) rfl, Or.inr (Or.inl rfl)⟩
  | u32 x => exact ⟨.u32, by simp only [AnyUInt.enc, List.cons_append, datatype]; exact typeOf_u32 _ (26 : UInt8) rfl, Or.inr (Or.inr (Or.inl rfl))⟩
  | u64 x => exact ⟨.u64, by simp only [AnyUInt.enc, List.cons_append, datatype]; exact typeOf_u64 _ (27 : UInt8) rfl, Or.inr (Or.inr (Or.inr rfl))⟩

theorem u64_notNullish : NotNullish cU64 (fun x => x < 2 ^ 64) := by
  intro n hn r
  have hai := minHead_ai_le 0 n
  have hb := initByte_toNat 0 (minHead 0 n).ai (by omega) (by omega)
  have hd : datatype (cU64.enc n ++ r) = typeOf (cU64.enc n ++ r) (initByte 0 (minHead 0 n).ai) := by
    simp [cU64, encUInt, encHead_eq, datatype]
  rcases typeOf_uint_cases (cU64.enc n ++ r) (initByte 0 (minHead 0 n).ai) (by omega) with ⟨_, e⟩ | ⟨_, e⟩ | ⟨_, e⟩ | ⟨_, e⟩
  · exact ⟨_, hd.trans e, by decide, by decide⟩
  · exact ⟨_, hd.trans e, by decide, by decide⟩
  · exact ⟨_, hd.trans e, by decide, by decide⟩
  · exact ⟨_, hd.trans e, by decide, by decide⟩

/-- **an enum generated by `codec_by_datatype!` round-trips** (its variants' datatypes are disjoint):
    `Thing { Coin(AnyUInt) | Flag(bool) | Blob(Bytes) | Multi(AnyUInt, Nullable<u64>) }` -/
theorem thing_rt : RTon ⟨Thing.enc, Thing.dec⟩ Thing.wf := by
  intro t hw r
  show Thing.dec (Thing.enc t ++ r) = .ok t r
  cases t with
  | coin a =>
    obtain ⟨ty, hty, hcases⟩ := anyuint_datatype a hw r
    have hdec : AnyUInt.dec (AnyUInt.enc a ++ r) = .ok a r := anyuint_rt a hw r
    have hsel : (ty == .u8 || ty == .u16 || ty == .u32 || ty == .u64) = true := by
      rcases hcases with rfl | rfl | rfl | rfl <;> rfl
    have hna : ty ≠ .array := by rcases hcases with rfl | rfl | rfl | rfl <;> decide
    simp only [Thing.dec, Thing.enc, byDatatype, hty, hna, if_false, byDatatypeArms, hsel, if_true, hdec, Res.map_ok]
  | flag b =>
    have hty : datatype (encBool b ++ r) = .ok .bool := by
      simp only [encBool, List.cons_append, List.nil_append, datatype]; exact typeOf_bool _ b
    have hd : Minicbor.bool (encBool b ++ r) = .ok b r := by cases b <;> simp [encBool, Minicbor.bool]
    simp [Thing.dec, Thing.enc, byDatatype, hty, byDatatypeArms, hd]
  | blob b =>
    simp only [Thing.wf] at hw
    have hai := minHead_ai_le 2 b.length
    have hb := initByte_toNat 2 (minHead 2 b.length).ai (by omega) (by omega)
    have hty : datatype (encBytes b ++ r) = .ok .bytes := by
      simp only [encBytes, encHead_eq, List.cons_append, List.append_assoc, datatype]
      exact typeOf_bytes _ _ (by omega) (by omega)
    simp [Thing.dec, Thing.enc, byDatatype, hty, byDatatypeArms, bytes_enc b r hw]
  | multi a n =>
    obtain ⟨ha, hn⟩ := hw
    have hty : datatype (encArrayHead 2 ++ (AnyUInt.enc a ++ (Nullable.enc cU64 n ++ r))) = .ok .array := datatype_encHead_array _ _
    have h1 : AnyUInt.dec (AnyUInt.enc a ++ (Nullable.enc cU64 n ++ r)) = .ok a (Nullable.enc cU64 n ++ r) := anyuint_rt a ha _
    have h2 : Nullable.dec cU64 (Nullable.enc cU64 n ++ r) = .ok n r :=
      nullable_rt cU64 (fun x => x < 2 ^ 64) (fun x hx r => u64_enc x r hx) u64_notNullish n hn r
    simp [Thing.dec, Thing.enc, byDatatype, List.append_assoc, hty, array_enc 2 _ (by omega), h1, h2]

end PallasVerif.Wrappers
