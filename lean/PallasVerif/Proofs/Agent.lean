import PallasVerif.Model.Agent
import PallasVerif.Proofs.Fsm
/-!
  Generic lemmas about `Agent` vs `Fsm.Spec`: the decidable table-level conformance predicate
  `AgentTable` and its lifting to every history of calls (`run_refines`). Used by Props/C23.
-/
namespace PallasVerif.Agent
open PallasVerif.Fsm

def peer : Agency → Agency
  | .client => .server
  | .server => .client
  | .nobody => .nobody

/-- what the specification prescribes for an event, for the role of agent `a` (the agent only
    contributes which messages each of its receiving methods has an arm for) -/
def specStep (sp : Spec) (a : Agent) (s : String) : Ev → String × Bool
  | .rawSend m => (s, decide (sp.agency s = a.role) && (sp.step s m).isSome)
  | .rawRecv m => (s, decide (sp.agency s = peer a.role) && (sp.step s m).isSome)
  | .send st =>
    match (if sp.agency s = a.role then sp.step s st.msg else none) with
    | some n => (n, true)
    | none => (s, false)
  | .recv f m ok =>
    if (a.methodGuard f s).isSome then (s, false) else
    match (if sp.agency s = peer a.role then sp.step s m else none), a.handles f m with
    | some n, some st => if st.cond ∧ !ok then (s, false) else (n, true)
    | _, _ => (s, false)

def specRun (sp : Spec) (a : Agent) : String → List Ev → String × List Bool
  | s, [] => (s, [])
  | s, e :: es => let r := specStep sp a s e; let r' := specRun sp a r.1 es; (r'.1, r.2 :: r'.2)

/-- events that talk about this agent's vocabulary -/
def Ev.wf (a : Agent) : Ev → Prop
  | .rawSend m => m ∈ a.msgs
  | .rawRecv m => m ∈ a.msgs
  | .send st => st ∈ a.sends
  | .recv _ m _ => m ∈ a.msgs

/-- vocabulary, agency and the two acceptance tables -/
def AgentTableA (a : Agent) (sp : Spec) : Prop :=
  (∀ s ∈ a.states, s ∈ sp.stateNames) ∧ (∀ s ∈ sp.stateNames, s ∈ a.states) ∧
  (∀ m ∈ a.msgs, m ∈ sp.msgs) ∧ (∀ m ∈ sp.msgs, m ∈ a.msgs) ∧
  a.init = sp.init ∧ a.role ≠ .nobody ∧
  -- has_agency
  (∀ s ∈ a.states, sp.agency s ≠ .nobody → (a.hasAgency s = true ↔ sp.agency s = a.role)) ∧
  -- send_message accepts exactly what the role may send
  (∀ s ∈ a.states, ∀ m ∈ a.msgs,
    (a.sendMessage s m).toBool = (decide (sp.agency s = a.role) && (sp.step s m).isSome)) ∧
  -- recv_message accepts exactly what the peer may send
  (∀ s ∈ a.states, ∀ m ∈ a.msgs,
    (a.recvMessage s m).toBool = (decide (sp.agency s = peer a.role) && (sp.step s m).isSome))

/-- the state assignments of the methods -/
def AgentTableB (a : Agent) (sp : Spec) : Prop :=
  -- every state assignment after an accepted send / receive is the prescribed one
  (∀ st ∈ a.sends, st.msg ∈ a.msgs ∧ ∀ s ∈ a.states, (a.sendMessage s st.msg).toBool = true →
    sp.step s st.msg = some (st.next.getD s) ∧ st.guardOk s = true) ∧
  (∀ st ∈ a.recvs, ∀ s ∈ a.states, ∀ m ∈ a.msgs, (st.msg = m ∨ st.msg = "*") → st.guardOk s = true →
    (a.recvMessage s m).toBool = true → sp.step s m = some (st.next.getD s)) ∧
  -- every exchange of the specification has a method that performs it
  (∀ r ∈ sp.trans, (sp.agency r.st = a.role → ∃ st ∈ a.sends, st.msg = r.msg ∧ st.guardOk r.st = true) ∧
                   (sp.agency r.st = peer a.role → ∃ st ∈ a.recvs, (st.msg = r.msg ∨ st.msg = "*") ∧ st.guardOk r.st = true)) ∧
  (∀ r ∈ sp.trans, r.next ∈ sp.stateNames)

instance (a : Agent) (sp : Spec) : Decidable (AgentTableA a sp) := by unfold AgentTableA; infer_instance
instance (a : Agent) (sp : Spec) : Decidable (AgentTableB a sp) := by unfold AgentTableB; infer_instance

/-- Everything compared between an extracted agent and the specification (bounded quantifiers only). -/
def AgentTable (a : Agent) (sp : Spec) : Prop := AgentTableA a sp ∧ AgentTableB a sp

instance (a : Agent) (sp : Spec) : Decidable (AgentTable a sp) := by unfold AgentTable; infer_instance

namespace AgentTable
variable {a : Agent} {sp : Spec}
theorem states_sup (h : AgentTable a sp) : ∀ s ∈ sp.stateNames, s ∈ a.states := h.1.2.1
theorem send_iff (h : AgentTable a sp) : ∀ s ∈ a.states, ∀ m ∈ a.msgs,
    (a.sendMessage s m).toBool = (decide (sp.agency s = a.role) && (sp.step s m).isSome) := h.1.2.2.2.2.2.2.2.1
theorem recv_iff (h : AgentTable a sp) : ∀ s ∈ a.states, ∀ m ∈ a.msgs,
    (a.recvMessage s m).toBool = (decide (sp.agency s = peer a.role) && (sp.step s m).isSome) := h.1.2.2.2.2.2.2.2.2
theorem send_sound (h : AgentTable a sp) : ∀ st ∈ a.sends, st.msg ∈ a.msgs ∧ ∀ s ∈ a.states,
    (a.sendMessage s st.msg).toBool = true → sp.step s st.msg = some (st.next.getD s) ∧
      st.guardOk s = true := h.2.1
theorem recv_sound (h : AgentTable a sp) : ∀ st ∈ a.recvs, ∀ s ∈ a.states, ∀ m ∈ a.msgs, (st.msg = m ∨ st.msg = "*") →
    st.guardOk s = true →
    (a.recvMessage s m).toBool = true → sp.step s m = some (st.next.getD s) := h.2.2.1
theorem next_mem (h : AgentTable a sp) : ∀ r ∈ sp.trans, r.next ∈ sp.stateNames := h.2.2.2.2
end AgentTable

theorem toBool_ok {ε α} (x : Except ε α) : x.toBool = true ↔ ∃ v, x = .ok v := by
  cases x <;> simp [Except.toBool]

theorem step_mem_states {a : Agent} {sp : Spec} (ht : AgentTable a sp) {s m n : String}
    (h : sp.step s m = some n) : n ∈ a.states := by
  obtain ⟨r, hr, _, _, hn⟩ := Spec.step_some h
  exact ht.states_sup _ (hn ▸ ht.next_mem r hr)

/-- one event: the agent does what the specification prescribes, and stays inside its states -/
theorem step_refines {a : Agent} {sp : Spec} (ht : AgentTable a sp) (s : String) (hs : s ∈ a.states)
    (e : Ev) (he : e.wf a) : a.step s e = specStep sp a s e ∧ (a.step s e).1 ∈ a.states := by
  cases e with
  | rawSend m => exact ⟨by simp [Agent.step, specStep, ht.send_iff s hs m he], hs⟩
  | rawRecv m => exact ⟨by simp [Agent.step, specStep, ht.recv_iff s hs m he], hs⟩
  | send st =>
    obtain ⟨hm, hsound⟩ := ht.send_sound st he
    have hiff := ht.send_iff s hs st.msg hm
    cases hsend : a.sendMessage s st.msg with
    | error e =>
      have hb : (a.sendMessage s st.msg).toBool = false := by simp [hsend, Except.toBool]
      rw [hb] at hiff
      have hnone : (if sp.agency s = a.role then sp.step s st.msg else none) = none := by
        by_cases hag : sp.agency s = a.role
        · simp [hag] at hiff ⊢; cases hq : sp.step s st.msg <;> simp_all
        · simp [hag]
      have hcs : ∃ e', a.callSend s st = .error e' := by
        simp only [Agent.callSend, hsend]; split <;> exact ⟨_, rfl⟩
      obtain ⟨e', hcs⟩ := hcs
      exact ⟨by simp [Agent.step, hcs, specStep, hnone], by simpa [Agent.step, hcs] using hs⟩
    | ok u =>
      have hb : (a.sendMessage s st.msg).toBool = true := by simp [hsend, Except.toBool]
      obtain ⟨hstep, hguard⟩ := hsound s hs hb
      rw [hb] at hiff
      have hag : sp.agency s = a.role := by
        by_cases hag : sp.agency s = a.role
        · exact hag
        · simp [hag] at hiff
      refine ⟨by simp [Agent.step, Agent.callSend, hsend, specStep, hag, hstep, hguard], ?_⟩
      simp only [Agent.step, Agent.callSend, hsend, hguard, Bool.not_true, Bool.false_eq_true, if_false]
      exact step_mem_states ht hstep
  | recv f m ok =>
    have hiff := ht.recv_iff s hs m he
    cases hg : a.methodGuard f s with
    | some e =>
      exact ⟨by simp [Agent.step, Agent.callRecv, hg, specStep], by simpa [Agent.step, Agent.callRecv, hg] using hs⟩
    | none =>
    have hgnone : a.recvs.find? (fun st => st.method = f ∧ !st.guardOk s) = none := by
      simpa [Agent.methodGuard] using hg
    cases hrecv : a.recvMessage s m with
    | error e =>
      have hb : (a.recvMessage s m).toBool = false := by simp [hrecv, Except.toBool]
      rw [hb] at hiff
      have hnone : (if sp.agency s = peer a.role then sp.step s m else none) = none := by
        by_cases hag : sp.agency s = peer a.role
        · simp [hag] at hiff ⊢; cases hq : sp.step s m <;> simp_all
        · simp [hag]
      exact ⟨by simp [Agent.step, Agent.callRecv, hg, hrecv, specStep, hnone], by simpa [Agent.step, Agent.callRecv, hg, hrecv] using hs⟩
    | ok u =>
      have hb : (a.recvMessage s m).toBool = true := by simp [hrecv, Except.toBool]
      rw [hb] at hiff
      have hag : sp.agency s = peer a.role := by
        by_cases hag : sp.agency s = peer a.role
        · exact hag
        · simp [hag] at hiff
      cases hh : a.handles f m with
      | none =>
        refine ⟨?_, by simpa [Agent.step, Agent.callRecv, hg, hrecv, hh] using hs⟩
        simp only [Agent.step, Agent.callRecv, hg, hrecv, hh, specStep]
        split <;> simp_all
      | some st =>
        have hh' : a.recvs.find? (fun st => st.method = f ∧ (st.msg = m ∨ st.msg = "*")) = some st := hh
        have hmem := List.mem_of_find?_eq_some hh'
        have hprop := List.find?_some hh'
        simp at hprop
        have hgok : st.guardOk s = true := by
          have := List.find?_eq_none.mp hgnone st hmem
          simpa [hprop.1] using this
        have hstep := ht.recv_sound st hmem s hs m he hprop.2 hgok hb
        by_cases hc : st.cond ∧ !ok
        · refine ⟨?_, by simpa [Agent.step, Agent.callRecv, hg, hrecv, hh, hc] using hs⟩
          simp [Agent.step, Agent.callRecv, hg, hrecv, specStep, hh, hag, hstep, hc]
        · refine ⟨?_, ?_⟩
          · have hc' : ¬ (st.cond = true ∧ ok = false) := by simpa using hc
            simp [Agent.step, Agent.callRecv, hg, hrecv, specStep, hh, hag, hstep, hc']
          · simp only [Agent.step, Agent.callRecv, hg, hrecv, hh, hc]
            exact step_mem_states ht hstep

/-- every history of calls (any length): same verdicts, same state as the specification prescribes -/
theorem run_refines {a : Agent} {sp : Spec} (ht : AgentTable a sp) :
    ∀ (es : List Ev) (s : String), s ∈ a.states → (∀ e ∈ es, e.wf a) → a.run s es = specRun sp a s es := by
  intro es
  induction es with
  | nil => intro s _ _; rfl
  | cons e es ih =>
    intro s hs hwf
    have he := hwf e (List.mem_cons_self ..)
    obtain ⟨h1, h2⟩ := step_refines ht s hs e he
    have := ih (a.step s e).1 h2 (fun e' h => hwf e' (List.mem_cons_of_mem _ h))
    simp only [Agent.run, specRun]
    rw [this, h1]

/-- a refused event leaves the state where it was -/
theorem refused_leaves_state (a : Agent) (s : String) (e : Ev) (h : (a.step s e).2 = false) :
    (a.step s e).1 = s := by
  cases e with
  | rawSend m => rfl
  | rawRecv m => rfl
  | send st =>
    simp only [Agent.step] at h ⊢
    cases hc : a.callSend s st <;> simp_all
  | recv f m ok =>
    simp only [Agent.step] at h ⊢
    cases hc : a.callRecv s f m ok <;> simp_all

end PallasVerif.Agent
