import PallasVerif.Model.Reassembly
import PallasVerif.Proofs.Keepalive
/-! Helper lemmas for C21: a small calculus for the position-passing parsers of `Model/Reassembly.lean`
    (`Parses p a e`: `p` reads exactly the bytes `e` as `a` whatever follows, and reports end-of-input on
    every proper prefix of `e`), closed under `P.bind`; the CBOR head primitives satisfy it for the
    shortest-form heads minicbor's encoder writes; hence the block-fetch codec does. -/
namespace PallasVerif.Proofs.Codec
open PallasVerif.Reassembly

def Parses {α : Type} (p : P α) (a : α) (e : Bytes) : Prop :=
  (∀ r, p (e ++ r) = .ok a e.length) ∧ (∀ q, q <+: e → q ≠ e → p q = .eoi)

theorem parses_pure {α : Type} (a : α) : Parses (P.pure a) a [] := by
  refine ⟨fun r => rfl, ?_⟩
  intro q hq hne
  exact absurd (List.prefix_nil.1 hq) hne

theorem prefix_append_cases {q a b : Bytes} (h : q <+: a ++ b) :
    (q <+: a ∧ q ≠ a) ∨ ∃ q', q = a ++ q' ∧ q' <+: b := by
  obtain ⟨t, ht⟩ := h
  rcases List.append_eq_append_iff.1 ht with ⟨a', h1, h2⟩ | ⟨c', h1, h2⟩
  · -- a = q ++ a'
    by_cases ha : a' = []
    · subst ha
      exact Or.inr ⟨[], by simpa using h1.symm, List.nil_prefix⟩
    · refine Or.inl ⟨⟨a', h1.symm⟩, ?_⟩
      intro e; apply ha
      have := congrArg List.length h1
      simp only [List.length_append, e] at this
      exact List.eq_nil_of_length_eq_zero (by omega)
  · exact Or.inr ⟨c', h1, ⟨t, h2.symm⟩⟩

theorem prefix_length_lt {q e : Bytes} (h : q <+: e) (hne : q ≠ e) : q.length < e.length := by
  obtain ⟨t, ht⟩ := h
  have hl := congrArg List.length ht
  simp only [List.length_append] at hl
  by_cases htn : t = []
  · subst htn; exact absurd (by simpa using ht) hne
  · have := List.length_pos_iff.2 htn; omega

theorem parses_bind {α β : Type} {p : P α} {f : α → P β} {a : α} {b : β} {ea eb : Bytes}
    (h1 : Parses p a ea) (h2 : Parses (f a) b eb) : Parses (P.bind p f) b (ea ++ eb) := by
  refine ⟨?_, ?_⟩
  · intro r
    have e1 := h1.1 (eb ++ r)
    have e2 := h2.1 r
    simp only [P.bind, List.append_assoc, e1, List.drop_left' rfl, e2, List.length_append]
  · intro q hq hne
    rcases prefix_append_cases hq with ⟨hp, hpn⟩ | ⟨q', rfl, hq'⟩
    · simp only [P.bind, h1.2 q hp hpn]
    · have hq'n : q' ≠ eb := fun e => hne (by rw [e])
      simp only [P.bind, h1.1 q', List.drop_left' rfl, h2.2 q' hq' hq'n]

/-! ## heads -/

open PallasVerif.Proofs.Keepalive (u8n)

theorem first_byte (major ai : Nat) (hm : major < 8) (ha : ai < 32) :
    (UInt8.ofNat (major * 32 + ai)).toNat / 32 = major ∧
    (UInt8.ofNat (major * 32 + ai)).toNat % 32 = ai := by
  rw [u8n]; omega

theorem headArg_short (ai : Nat) (t : Bytes)
    (h : (ai = 24 ∧ t.length < 1) ∨ (ai = 25 ∧ t.length < 2) ∨ (ai = 26 ∧ t.length < 4) ∨
      (ai = 27 ∧ t.length < 8)) : headArg ai t = none := by
  rcases h with ⟨rfl, h⟩ | ⟨rfl, h⟩ | ⟨rfl, h⟩ | ⟨rfl, h⟩
  · rcases t with _ | ⟨a, t⟩ <;> simp [headArg] at h ⊢
  · rcases t with _ | ⟨a, _ | ⟨b, t⟩⟩ <;> simp [headArg] at h ⊢ <;> omega
  · rcases t with _ | ⟨a, _ | ⟨b, _ | ⟨c, _ | ⟨d, t⟩⟩⟩⟩ <;> simp [headArg] at h ⊢ <;> omega
  · rcases t with _ | ⟨a, _ | ⟨b, _ | ⟨c, _ | ⟨d, _ | ⟨e, _ | ⟨f, _ | ⟨g, _ | ⟨i, t⟩⟩⟩⟩⟩⟩⟩⟩ <;>
      simp [headArg] at h ⊢ <;> omega

/-- any primitive that, on a head byte of major type `major` with additional information `< 28`,
    asks for more when the argument bytes are incomplete and returns `a` when the argument is `n`,
    parses the shortest-form head of `n` that minicbor's encoder writes -/
theorem parses_of_head_shape {α : Type} (g : P α) (a : α) (major : Nat) (n : Nat)
    (hnil : g [] = .eoi)
    (hshape : ∀ ai, ai < 28 → ∀ rest,
      (headArg ai rest = none → g (UInt8.ofNat (major * 32 + ai) :: rest) = .eoi) ∧
      (∀ used, headArg ai rest = some (n, used) →
        g (UInt8.ofNat (major * 32 + ai) :: rest) = .ok a (1 + used)))
    (hn : n < 18446744073709551616) : Parses g a (encHead major n) := by
  unfold encHead
  have pfx_of : ∀ (ai : Nat) (args : Bytes), ai < 28 →
      (∀ t, t <+: args → t ≠ args → headArg ai t = none) →
      ∀ q, q <+: UInt8.ofNat (major * 32 + ai) :: args → q ≠ UInt8.ofNat (major * 32 + ai) :: args →
        g q = .eoi := by
    intro ai args hai hnone q hq hne
    rcases List.prefix_cons_iff.1 hq with rfl | ⟨t, rfl, ht⟩
    · exact hnil
    · have htn : t ≠ args := fun e => hne (by rw [e])
      exact (hshape ai hai t).1 (hnone t ht htn)
  by_cases h1 : n < 24
  · simp only [h1, if_true]
    refine ⟨?_, ?_⟩
    · intro r
      have ha : headArg n r = some (n, 0) := by simp [headArg, h1]
      simpa using (hshape n (by omega) r).2 0 ha
    · exact pfx_of n [] (by omega) (fun t ht htn => absurd (List.prefix_nil.1 ht) htn)
  · by_cases h2 : n < 256
    · simp only [h1, h2, if_true, if_false]
      refine ⟨?_, ?_⟩
      · intro r
        have d : n % 256 = n := by omega
        have ha : headArg 24 (UInt8.ofNat n :: r) = some (n, 1) := by simp [headArg, u8n, d]
        simpa using (hshape 24 (by omega) _).2 1 ha
      · apply pfx_of 24 _ (by omega)
        intro t ht htn
        exact headArg_short 24 t (Or.inl ⟨rfl, by simpa using prefix_length_lt ht htn⟩)
    · by_cases h3 : n < 65536
      · simp only [h1, h2, h3, if_true, if_false]
        refine ⟨?_, ?_⟩
        · intro r
          have d : n / 256 % 256 * 256 + n % 256 = n := by omega
          have ha : headArg 25 (UInt8.ofNat (n / 256) :: UInt8.ofNat n :: r) = some (n, 2) := by
            simp [headArg, u8n, d]
          simpa using (hshape 25 (by omega) _).2 2 ha
        · apply pfx_of 25 _ (by omega)
          intro t ht htn
          exact headArg_short 25 t (Or.inr (Or.inl ⟨rfl, by simpa using prefix_length_lt ht htn⟩))
      · by_cases h4 : n < 4294967296
        · simp only [h1, h2, h3, h4, if_true, if_false]
          refine ⟨?_, ?_⟩
          · intro r
            have d : ((n / 16777216 % 256 * 256 + n / 65536 % 256) * 256 + n / 256 % 256) * 256 +
                n % 256 = n := by omega
            have ha : headArg 26 (UInt8.ofNat (n / 16777216) :: UInt8.ofNat (n / 65536) ::
                UInt8.ofNat (n / 256) :: UInt8.ofNat n :: r) = some (n, 4) := by
              simp [headArg, u8n, d]
            simpa using (hshape 26 (by omega) _).2 4 ha
          · apply pfx_of 26 _ (by omega)
            intro t ht htn
            exact headArg_short 26 t
              (Or.inr (Or.inr (Or.inl ⟨rfl, by simpa using prefix_length_lt ht htn⟩)))
        · simp only [h1, h2, h3, h4, if_false]
          refine ⟨?_, ?_⟩
          · intro r
            have d : ((((((n / 72057594037927936 % 256 * 256 + n / 281474976710656 % 256) * 256 +
                n / 1099511627776 % 256) * 256 + n / 4294967296 % 256) * 256 +
                n / 16777216 % 256) * 256 + n / 65536 % 256) * 256 + n / 256 % 256) * 256 +
                n % 256 = n := by omega
            have ha : headArg 27 (UInt8.ofNat (n / 72057594037927936) ::
                UInt8.ofNat (n / 281474976710656) :: UInt8.ofNat (n / 1099511627776) ::
                UInt8.ofNat (n / 4294967296) :: UInt8.ofNat (n / 16777216) :: UInt8.ofNat (n / 65536) ::
                UInt8.ofNat (n / 256) :: UInt8.ofNat n :: r) = some (n, 8) := by
              simp [headArg, u8n, d]
            simpa using (hshape 27 (by omega) _).2 8 ha
          · apply pfx_of 27 _ (by omega)
            intro t ht htn
            exact headArg_short 27 t
              (Or.inr (Or.inr (Or.inr ⟨rfl, by simpa using prefix_length_lt ht htn⟩)))

theorem parses_primHead (major : Nat) (hm : major < 8) (n : Nat) (hn : n < 18446744073709551616) :
    Parses (primHead major) n (encHead major n) := by
  apply parses_of_head_shape (primHead major) n major n rfl _ hn
  intro ai hai rest
  obtain ⟨f1, f2⟩ := first_byte major ai hm (by omega)
  have : ¬ ai ≥ 28 := by omega
  constructor
  · intro h0
    simp only [primHead, f1, f2, ne_eq, not_true_eq_false, if_false, this, h0]
  · intro used h0
    simp only [primHead, f1, f2, ne_eq, not_true_eq_false, if_false, this, h0]

theorem parses_primArray (k : Nat) (hk : k < 18446744073709551616) :
    Parses primArray (some k) (encHead 4 k) := by
  apply parses_of_head_shape primArray (some k) 4 k rfl _ hk
  intro ai hai rest
  obtain ⟨f1, f2⟩ := first_byte 4 ai (by decide) (by omega)
  have a : ¬ ai = 31 := by omega
  have b : ¬ ai ≥ 28 := by omega
  constructor
  · intro h0
    simp only [primArray, f1, f2, ne_eq, not_true_eq_false, if_false, a, b, h0]
  · intro used h0
    simp only [primArray, f1, f2, ne_eq, not_true_eq_false, if_false, a, b, h0]

theorem parses_primU8 (n : Nat) (hn : n < 256) : Parses primU8 n (encHead 0 n) := by
  apply parses_of_head_shape primU8 n 0 n rfl _ (by omega)
  intro ai hai rest
  obtain ⟨f1, f2⟩ := first_byte 0 ai (by decide) (by omega)
  have b : ¬ ai ≥ 28 := by omega
  constructor
  · intro h0
    simp only [primU8, f1, f2, ne_eq, not_true_eq_false, if_false, b, h0]
  · intro used h0
    simp only [primU8, f1, f2, ne_eq, not_true_eq_false, if_false, b, h0, hn, if_true]

/-- a one-byte encoding -/
theorem parses_byte {α : Type} (g : P α) (a : α) (b : UInt8) (hnil : g [] = .eoi)
    (h : ∀ r, g (b :: r) = .ok a 1) : Parses g a [b] := by
  refine ⟨fun r => by simpa using h r, ?_⟩
  intro q hq hne
  rcases List.prefix_cons_iff.1 hq with rfl | ⟨t, rfl, ht⟩
  · exact hnil
  · exact absurd (by rw [List.prefix_nil.1 ht]) hne

theorem parses_take (body : Bytes) :
    Parses (fun bs => if bs.length < body.length then Prim.eoi else .ok (bs.take body.length) body.length)
      body body := by
  refine ⟨?_, ?_⟩
  · intro r
    have : ¬ (body ++ r).length < body.length := by simp [List.length_append]
    simp only [this, if_false, List.take_left' rfl]
  · intro q hq hne
    have := prefix_length_lt hq hne
    simp only [this, if_true]

theorem parses_primBytes (body : Bytes) (h : body.length < 18446744073709551616) :
    Parses primBytes body (encHead 2 body.length ++ body) :=
  parses_bind (parses_primHead 2 (by decide) body.length h) (parses_take body)

/-! ## Point and block-fetch -/

def WFPt : Pt → Prop
  | .origin => True
  | .specific slot hash => slot < 18446744073709551616 ∧ hash.length < 18446744073709551616

def WFMsg : BFMsg → Prop
  | .requestRange p1 p2 => WFPt p1 ∧ WFPt p2
  | .block body => body.length < 18446744073709551616
  | _ => True

theorem parses_pPoint (p : Pt) (h : WFPt p) : Parses pPoint p (ptEnc p) := by
  cases p with
  | origin =>
    have h0 : Parses primArray (some 0) [0x80] :=
      parses_byte primArray (some 0) 0x80 rfl (by intro r; simp [primArray, headArg])
    have e : ptEnc .origin = [0x80] ++ [] := rfl
    rw [e]; unfold pPoint
    exact parses_bind h0 (parses_pure _)
  | specific slot hash =>
    obtain ⟨hs, hh⟩ := h
    have h2 : Parses primArray (some 2) [0x82] :=
      parses_byte primArray (some 2) 0x82 rfl (by intro r; simp [primArray, headArg])
    have e : ptEnc (.specific slot hash) =
        [0x82] ++ (encHead 0 slot ++ ((encHead 2 hash.length ++ hash) ++ [])) := by simp [ptEnc]
    rw [e]; unfold pPoint
    exact parses_bind h2 (parses_bind (parses_primHead 0 (by decide) slot hs)
      (parses_bind (parses_primBytes hash hh) (parses_pure _)))

theorem parses_label (l : UInt8) (hl : l.toNat < 24) :
    Parses primU16 (UInt16.ofNat l.toNat) [l] := by
  apply parses_byte primU16 _ l rfl
  intro r
  have a : ¬ l.toNat / 32 ≠ 0 := by omega
  have b : ¬ l.toNat % 32 ≥ 28 := by omega
  have c : l.toNat % 32 = l.toNat := by omega
  have d : l.toNat < 65536 := by omega
  have e : l.toNat < 28 := by omega
  simp [primU16, a, c, headArg, hl, d, e]

/-- dispatch on a one-byte label -/
theorem parses_dispatch {β : Type} (k : UInt16) (l : UInt8) (hk : UInt16.ofNat l.toNat = k)
    (hl : l.toNat < 24) {g : UInt16 → P β} {b : β} {eb : Bytes} (h : Parses (g k) b eb) :
    Parses (P.bind primU16 g) b ([l] ++ eb) :=
  parses_bind (by rw [← hk]; exact parses_label l hl) h

theorem parses_arr (b : UInt8) (k : Nat) (hb : b.toNat = 128 + k) (hk : k < 24) :
    Parses primArray (some k) [b] := by
  apply parses_byte primArray _ b rfl
  intro r
  have a : ¬ b.toNat / 32 ≠ 4 := by omega
  have e : b.toNat % 32 = k := by omega
  have c : ¬ k = 31 := by omega
  have d : ¬ 28 ≤ k := by omega
  simp [primArray, a, e, headArg, hk, c, d]

/-- the block-fetch decoder reads exactly an encoded message and asks for more on every proper prefix -/
theorem parses_blockfetch (m : BFMsg) (h : WFMsg m) : Parses pBlockFetch m (bfEnc m) := by
  cases m with
  | requestRange p1 p2 =>
    obtain ⟨w1, w2⟩ := h
    have e : bfEnc (.requestRange p1 p2) = [0x83] ++ ([0x00] ++ (ptEnc p1 ++ (ptEnc p2 ++ []))) := by
      simp [bfEnc]
    rw [e]; unfold pBlockFetch
    refine parses_bind (parses_arr 0x83 3 (by decide) (by decide)) ?_
    refine parses_dispatch 0 0x00 (by decide) (by decide) ?_
    simp only [if_true]
    exact parses_bind (parses_pPoint p1 w1) (parses_bind (parses_pPoint p2 w2) (parses_pure _))
  | block body =>
    have htag : Parses primTag 24 [0xd8, 0x18] := by
      have := parses_primHead 6 (by decide) 24 (by decide)
      simpa [encHead, primTag] using this
    have e : bfEnc (.block body) =
        [0x82] ++ ([0x04] ++ ([0xd8, 0x18] ++ ((encHead 2 body.length ++ body) ++ []))) := by
      simp [bfEnc]
    rw [e]; unfold pBlockFetch
    refine parses_bind (parses_arr 0x82 2 (by decide) (by decide)) ?_
    refine parses_dispatch 4 0x04 (by decide) (by decide) ?_
    have n0 : ¬ (4 : UInt16) = 0 := by decide
    have n1 : ¬ (4 : UInt16) = 1 := by decide
    have n2 : ¬ (4 : UInt16) = 2 := by decide
    have n3 : ¬ (4 : UInt16) = 3 := by decide
    simp only [n0, n1, n2, n3, if_false, if_true]
    exact parses_bind htag (parses_bind (parses_primBytes body h) (parses_pure _))
  | clientDone =>
    have e : bfEnc .clientDone = [0x81] ++ ([0x01] ++ []) := rfl
    rw [e]; unfold pBlockFetch
    refine parses_bind (parses_arr 0x81 1 (by decide) (by decide)) ?_
    refine parses_dispatch 1 0x01 (by decide) (by decide) ?_
    have n0 : ¬ (1 : UInt16) = 0 := by decide
    simp only [n0, if_false, if_true]
    exact parses_pure _
  | startBatch =>
    have e : bfEnc .startBatch = [0x81] ++ ([0x02] ++ []) := rfl
    rw [e]; unfold pBlockFetch
    refine parses_bind (parses_arr 0x81 1 (by decide) (by decide)) ?_
    refine parses_dispatch 2 0x02 (by decide) (by decide) ?_
    have n0 : ¬ (2 : UInt16) = 0 := by decide
    have n1 : ¬ (2 : UInt16) = 1 := by decide
    simp only [n0, n1, if_false, if_true]
    exact parses_pure _
  | noBlocks =>
    have e : bfEnc .noBlocks = [0x81] ++ ([0x03] ++ []) := rfl
    rw [e]; unfold pBlockFetch
    refine parses_bind (parses_arr 0x81 1 (by decide) (by decide)) ?_
    refine parses_dispatch 3 0x03 (by decide) (by decide) ?_
    have n0 : ¬ (3 : UInt16) = 0 := by decide
    have n1 : ¬ (3 : UInt16) = 1 := by decide
    have n2 : ¬ (3 : UInt16) = 2 := by decide
    simp only [n0, n1, n2, if_false, if_true]
    exact parses_pure _
  | batchDone =>
    have e : bfEnc .batchDone = [0x81] ++ ([0x05] ++ []) := rfl
    rw [e]; unfold pBlockFetch
    refine parses_bind (parses_arr 0x81 1 (by decide) (by decide)) ?_
    refine parses_dispatch 5 0x05 (by decide) (by decide) ?_
    have n0 : ¬ (5 : UInt16) = 0 := by decide
    have n1 : ¬ (5 : UInt16) = 1 := by decide
    have n2 : ¬ (5 : UInt16) = 2 := by decide
    have n3 : ¬ (5 : UInt16) = 3 := by decide
    have n4 : ¬ (5 : UInt16) = 4 := by decide
    simp only [n0, n1, n2, n3, n4, if_false, if_true]
    exact parses_pure _

/-! ## chain-sync -/

def WFTip (t : Tip) : Prop := WFPt t.point ∧ t.blockNo < 18446744073709551616

/-- what `HeaderContent` values can be sent and received: the Byron prefix is present exactly for
    variant 0 (the encoder fails without it and drops it otherwise) -/
def WFHdr (h : Header) : Prop :=
  h.variant < 256 ∧ h.cbor.length < 18446744073709551616 ∧
  (h.variant = 0 → ∃ a b, h.byronPrefix = some (a, b) ∧ a < 256 ∧ b < 18446744073709551616) ∧
  (h.variant ≠ 0 → h.byronPrefix = none)

def WFCS : CSMsg → Prop
  | .rollForward c t => WFHdr c ∧ WFTip t
  | .rollBackward p t => WFPt p ∧ WFTip t
  | .findIntersect ps => ps.length < 18446744073709551616 ∧ ∀ p ∈ ps, WFPt p
  | .intersectFound p t => WFPt p ∧ WFTip t
  | .intersectNotFound t => WFTip t
  | _ => True

theorem parses_pTip (t : Tip) (h : WFTip t) : Parses pTip t (tipEnc t) := by
  obtain ⟨hp, hn⟩ := h
  have e : tipEnc t = [0x82] ++ (ptEnc t.point ++ (encHead 0 t.blockNo ++ [])) := by simp [tipEnc]
  rw [e]; unfold pTip
  exact parses_bind (parses_arr 0x82 2 (by decide) (by decide))
    (parses_bind (parses_pPoint t.point hp)
      (parses_bind (parses_primHead 0 (by decide) t.blockNo hn) (parses_pure _)))

theorem parses_pPrefix (a b : Nat) (ha : a < 256) (hb : b < 18446744073709551616) :
    Parses pPrefix (a, b) ([0x82] ++ (encHead 0 a ++ (encHead 0 b ++ []))) := by
  unfold pPrefix
  refine parses_bind (parses_arr 0x82 2 (by decide) (by decide)) ?_
  simp only [if_true]
  exact parses_bind (parses_primU8 a ha)
    (parses_bind (parses_primHead 0 (by decide) b hb) (parses_pure _))

theorem tag24 : Parses primTag 24 [0xd8, 0x18] := by
  have := parses_primHead 6 (by decide) 24 (by decide)
  simpa [encHead, primTag] using this

theorem parses_pHeader (h : Header) (hw : WFHdr h) : Parses pHeader h (hdrEnc h) := by
  obtain ⟨variant, pre, cbor⟩ := h
  obtain ⟨hv, hc, h0, hn0⟩ := hw
  simp only at hv hc h0 hn0
  by_cases hz : variant = 0
  · subst hz
    obtain ⟨a, b, hp, ha, hb⟩ := h0 rfl
    subst hp
    have e : hdrEnc ⟨0, some (a, b), cbor⟩ =
        [0x82] ++ (encHead 0 0 ++ ([0x82] ++ (([0x82] ++ (encHead 0 a ++ (encHead 0 b ++ []))) ++
          ([0xd8, 0x18] ++ ((encHead 2 cbor.length ++ cbor) ++ []))))) := by
      simp [hdrEnc]
    rw [e]; unfold pHeader
    refine parses_bind (parses_arr 0x82 2 (by decide) (by decide)) ?_
    refine parses_bind (parses_primU8 0 (by decide)) ?_
    simp only [if_true]
    exact parses_bind (parses_arr 0x82 2 (by decide) (by decide))
      (parses_bind (parses_pPrefix a b ha hb)
        (parses_bind tag24 (parses_bind (parses_primBytes cbor hc) (parses_pure _))))
  · have hp : pre = none := hn0 hz
    subst hp
    have e : hdrEnc ⟨variant, none, cbor⟩ =
        [0x82] ++ (encHead 0 variant ++ ([0xd8, 0x18] ++ ((encHead 2 cbor.length ++ cbor) ++ []))) := by
      simp [hdrEnc, hz]
    rw [e]; unfold pHeader
    refine parses_bind (parses_arr 0x82 2 (by decide) (by decide)) ?_
    refine parses_bind (parses_primU8 variant hv) ?_
    simp only [hz, if_false]
    exact parses_bind tag24 (parses_bind (parses_primBytes cbor hc) (parses_pure _))

theorem parses_pRepeat {α : Type} (p : P α) (e : α → Bytes) :
    ∀ xs : List α, (∀ x ∈ xs, Parses p x (e x)) →
      Parses (pRepeat p xs.length) xs ((xs.map e).flatten) := by
  intro xs
  induction xs with
  | nil => intro _; exact parses_pure _
  | cons x xs ih =>
    intro h
    have hx := h x (List.mem_cons_self ..)
    have hxs := ih fun y hy => h y (List.mem_cons_of_mem _ hy)
    have e1 : ((x :: xs).map e).flatten = e x ++ ((xs.map e).flatten ++ []) := by simp
    rw [e1]
    simp only [List.length_cons, pRepeat]
    exact parses_bind hx (parses_bind hxs (parses_pure _))

theorem parses_pVec {α : Type} (p : P α) (e : α → Bytes) (xs : List α)
    (hl : xs.length < 18446744073709551616) (h : ∀ x ∈ xs, Parses p x (e x)) :
    Parses (pVec p) xs (encHead 4 xs.length ++ (xs.map e).flatten) := by
  have key : ∀ fuel : Nat, Parses (P.bind primArray fun n =>
      match n with
      | some k => pRepeat p k
      | none => pUntilBreak p fuel) xs (encHead 4 xs.length ++ (xs.map e).flatten) := by
    intro fuel
    exact parses_bind (parses_primArray xs.length hl) (parses_pRepeat p e xs h)
  refine ⟨?_, ?_⟩
  · intro r
    unfold pVec
    exact (key _).1 r
  · intro q hq hne
    unfold pVec
    exact (key _).2 q hq hne

/-- the chain-sync decoder reads exactly an encoded message and asks for more on every proper prefix -/
theorem parses_chainsync (m : CSMsg) (h : WFCS m) : Parses pChainSync m (csEnc m) := by
  have n10 : ¬ (1 : UInt16) = 0 := by decide
  have n20 : ¬ (2 : UInt16) = 0 := by decide
  have n21 : ¬ (2 : UInt16) = 1 := by decide
  have n30 : ¬ (3 : UInt16) = 0 := by decide
  have n31 : ¬ (3 : UInt16) = 1 := by decide
  have n32 : ¬ (3 : UInt16) = 2 := by decide
  have n40 : ¬ (4 : UInt16) = 0 := by decide
  have n41 : ¬ (4 : UInt16) = 1 := by decide
  have n42 : ¬ (4 : UInt16) = 2 := by decide
  have n43 : ¬ (4 : UInt16) = 3 := by decide
  have n50 : ¬ (5 : UInt16) = 0 := by decide
  have n51 : ¬ (5 : UInt16) = 1 := by decide
  have n52 : ¬ (5 : UInt16) = 2 := by decide
  have n53 : ¬ (5 : UInt16) = 3 := by decide
  have n54 : ¬ (5 : UInt16) = 4 := by decide
  have n60 : ¬ (6 : UInt16) = 0 := by decide
  have n61 : ¬ (6 : UInt16) = 1 := by decide
  have n62 : ¬ (6 : UInt16) = 2 := by decide
  have n63 : ¬ (6 : UInt16) = 3 := by decide
  have n64 : ¬ (6 : UInt16) = 4 := by decide
  have n65 : ¬ (6 : UInt16) = 5 := by decide
  have n70 : ¬ (7 : UInt16) = 0 := by decide
  have n71 : ¬ (7 : UInt16) = 1 := by decide
  have n72 : ¬ (7 : UInt16) = 2 := by decide
  have n73 : ¬ (7 : UInt16) = 3 := by decide
  have n74 : ¬ (7 : UInt16) = 4 := by decide
  have n75 : ¬ (7 : UInt16) = 5 := by decide
  have n76 : ¬ (7 : UInt16) = 6 := by decide
  cases m with
  | requestNext =>
    have e : csEnc .requestNext = [0x81] ++ ([0x00] ++ []) := rfl
    rw [e]; unfold pChainSync
    refine parses_bind (parses_arr 0x81 1 (by decide) (by decide)) ?_
    refine parses_dispatch 0 0x00 (by decide) (by decide) ?_
    simp only [if_true]
    exact parses_pure _
  | awaitReply =>
    have e : csEnc .awaitReply = [0x81] ++ ([0x01] ++ []) := rfl
    rw [e]; unfold pChainSync
    refine parses_bind (parses_arr 0x81 1 (by decide) (by decide)) ?_
    refine parses_dispatch 1 0x01 (by decide) (by decide) ?_
    simp only [n10, if_false, if_true]
    exact parses_pure _
  | rollForward c t =>
    obtain ⟨hc, ht⟩ := h
    have e : csEnc (.rollForward c t) = [0x83] ++ ([0x02] ++ (hdrEnc c ++ (tipEnc t ++ []))) := by
      simp [csEnc]
    rw [e]; unfold pChainSync
    refine parses_bind (parses_arr 0x83 3 (by decide) (by decide)) ?_
    refine parses_dispatch 2 0x02 (by decide) (by decide) ?_
    simp only [n20, n21, if_false, if_true]
    exact parses_bind (parses_pHeader c hc) (parses_bind (parses_pTip t ht) (parses_pure _))
  | rollBackward p t =>
    obtain ⟨hp, ht⟩ := h
    have e : csEnc (.rollBackward p t) = [0x83] ++ ([0x03] ++ (ptEnc p ++ (tipEnc t ++ []))) := by
      simp [csEnc]
    rw [e]; unfold pChainSync
    refine parses_bind (parses_arr 0x83 3 (by decide) (by decide)) ?_
    refine parses_dispatch 3 0x03 (by decide) (by decide) ?_
    simp only [n30, n31, n32, if_false, if_true]
    exact parses_bind (parses_pPoint p hp) (parses_bind (parses_pTip t ht) (parses_pure _))
  | findIntersect ps =>
    obtain ⟨hl, hps⟩ := h
    have e : csEnc (.findIntersect ps) =
        [0x82] ++ ([0x04] ++ ((encHead 4 ps.length ++ (ps.map ptEnc).flatten) ++ [])) := by
      simp [csEnc]
    rw [e]; unfold pChainSync
    refine parses_bind (parses_arr 0x82 2 (by decide) (by decide)) ?_
    refine parses_dispatch 4 0x04 (by decide) (by decide) ?_
    simp only [n40, n41, n42, n43, if_false, if_true]
    exact parses_bind (parses_pVec pPoint ptEnc ps hl fun p hp => parses_pPoint p (hps p hp))
      (parses_pure _)
  | intersectFound p t =>
    obtain ⟨hp, ht⟩ := h
    have e : csEnc (.intersectFound p t) = [0x83] ++ ([0x05] ++ (ptEnc p ++ (tipEnc t ++ []))) := by
      simp [csEnc]
    rw [e]; unfold pChainSync
    refine parses_bind (parses_arr 0x83 3 (by decide) (by decide)) ?_
    refine parses_dispatch 5 0x05 (by decide) (by decide) ?_
    simp only [n50, n51, n52, n53, n54, if_false, if_true]
    exact parses_bind (parses_pPoint p hp) (parses_bind (parses_pTip t ht) (parses_pure _))
  | intersectNotFound t =>
    have e : csEnc (.intersectNotFound t) = [0x82] ++ ([0x06] ++ (tipEnc t ++ [])) := by
      simp [csEnc]
    rw [e]; unfold pChainSync
    refine parses_bind (parses_arr 0x82 2 (by decide) (by decide)) ?_
    refine parses_dispatch 6 0x06 (by decide) (by decide) ?_
    simp only [n60, n61, n62, n63, n64, n65, if_false, if_true]
    exact parses_bind (parses_pTip t h) (parses_pure _)
  | done =>
    have e : csEnc .done = [0x81] ++ ([0x07] ++ []) := rfl
    rw [e]; unfold pChainSync
    refine parses_bind (parses_arr 0x81 1 (by decide) (by decide)) ?_
    refine parses_dispatch 7 0x07 (by decide) (by decide) ?_
    simp only [n70, n71, n72, n73, n74, n75, n76, if_false, if_true]
    exact parses_pure _

end PallasVerif.Proofs.Codec
