import PallasVerif.Proofs.DecTotal
import PallasVerif.Model.Byron
/-!
C09, model side of the Byron address decoders (`Model/Byron.lean`): the derived field loops of
`ByronAddress` and `AddressPayload` carry fuel; they never exhaust it (`byronAddress_nd`,
`addressPayload_nd`), so `ByronAddress::from_bytes` / `decode` as modelled are total with the
implementation's outcome classes only.
-/
namespace PallasVerif.Byron
open PallasVerif.Cbor PallasVerif.Minicbor PallasVerif.Wrappers

theorem shorter {cur r c : Bytes} (hne : c ≠ []) (h : cur = c ++ r) : r.length + 1 ≤ cur.length := by
  have := congrArg List.length h
  simp only [List.length_append] at this
  have : 0 < c.length := List.length_pos_iff.mpr hne
  omega

theorem fieldsDef_nd {α β : Type} (p0 : P α) (p1 : P β) (c0 : Consumes p0) (c1 : Consumes p1) (n0 : NoDiverge p0) (n1 : NoDiverge p1) :
    ∀ (fuel i len : Nat) (a : Option α) (b : Option β) (cur : Bytes), cur.length + 1 ≤ fuel →
      fieldsDef p0 p1 fuel i len a b cur ≠ .err .diverge := by
  intro fuel
  induction fuel with
  | zero => intro i len a b cur hf; omega
  | succ f ih =>
    intro i len a b cur hf h
    simp only [fieldsDef] at h
    split at h
    · cases h
    · split at h
      · rcases Res.andThen_eq_err h with e | ⟨x, r, e1, e⟩
        · exact n0 _ e
        · obtain ⟨c, hne, hc⟩ := c0 _ _ _ e1
          exact ih _ _ _ _ r (by have := shorter hne hc; omega) e
      · split at h
        · rcases Res.andThen_eq_err h with e | ⟨x, r, e1, e⟩
          · exact n1 _ e
          · obtain ⟨c, hne, hc⟩ := c1 _ _ _ e1
            exact ih _ _ _ _ r (by have := shorter hne hc; omega) e
        · rcases Res.andThen_eq_err h with e | ⟨x, r, e1, e⟩
          · exact skip_nd _ e
          · obtain ⟨c, hne, hc⟩ := skip_consumes _ _ _ e1
            exact ih _ _ _ _ r (by have := shorter hne hc; omega) e

theorem fieldsIndef_nd {α β : Type} (p0 : P α) (p1 : P β) (c0 : Consumes p0) (c1 : Consumes p1) (n0 : NoDiverge p0) (n1 : NoDiverge p1) :
    ∀ (fuel i : Nat) (a : Option α) (b : Option β) (cur : Bytes), cur.length + 1 ≤ fuel →
      fieldsIndef p0 p1 fuel i a b cur ≠ .err .diverge := by
  intro fuel
  induction fuel with
  | zero => intro i a b cur hf; omega
  | succ f ih =>
    intro i a b cur hf h
    simp only [fieldsIndef] at h
    split at h
    · rename_i e he; simp only [Res.err.injEq] at h; exact datatype_err_ne_diverge he h
    · split at h
      · exact skip_nd _ (Res.map_eq_err h)
      · split at h
        · rcases Res.andThen_eq_err h with e | ⟨x, r, e1, e⟩
          · exact n0 _ e
          · obtain ⟨c, hne, hc⟩ := c0 _ _ _ e1
            exact ih _ _ _ r (by have := shorter hne hc; omega) e
        · split at h
          · rcases Res.andThen_eq_err h with e | ⟨x, r, e1, e⟩
            · exact n1 _ e
            · obtain ⟨c, hne, hc⟩ := c1 _ _ _ e1
              exact ih _ _ _ r (by have := shorter hne hc; omega) e
          · rcases Res.andThen_eq_err h with e | ⟨x, r, e1, e⟩
            · exact skip_nd _ e
            · obtain ⟨c, hne, hc⟩ := skip_consumes _ _ _ e1
              exact ih _ _ _ r (by have := shorter hne hc; omega) e

theorem structArray2_nd {α β : Type} (p0 : P α) (p1 : P β) (c0 : Consumes p0) (c1 : Consumes p1) (n0 : NoDiverge p0) (n1 : NoDiverge p1) :
    NoDiverge (structArray2 p0 p1) := by
  intro cur h
  unfold structArray2 at h
  rcases Res.andThen_eq_err h with e | ⟨len, r, _, e⟩
  · exact seqHead_nd 4 cur e
  · simp only at e
    rcases Res.andThen_eq_err e with e' | ⟨ab, r', _, e'⟩
    · cases len with
      | some n => exact fieldsDef_nd p0 p1 c0 c1 n0 n1 _ _ _ _ _ r (Nat.le_refl _) e'
      | none => exact fieldsIndef_nd p0 p1 c0 c1 n0 n1 _ _ _ _ r (Nat.le_refl _) e'
    · split at e' <;> cases e'

theorem fields3Def_nd {α β γ : Type} (p0 : P α) (p1 : P β) (p2 : P γ) (c0 : Consumes p0) (c1 : Consumes p1) (c2 : Consumes p2)
    (n0 : NoDiverge p0) (n1 : NoDiverge p1) (n2 : NoDiverge p2) :
    ∀ (fuel i len : Nat) (a : Option α) (b : Option β) (c : Option γ) (cur : Bytes), cur.length + 1 ≤ fuel →
      fields3Def p0 p1 p2 fuel i len a b c cur ≠ .err .diverge := by
  intro fuel
  induction fuel with
  | zero => intro i len a b c cur hf; omega
  | succ f ih =>
    intro i len a b c cur hf h
    simp only [fields3Def] at h
    split at h
    · cases h
    · split at h
      · rcases Res.andThen_eq_err h with e | ⟨x, r, e1, e⟩
        · exact n0 _ e
        · obtain ⟨cc, hne, hc⟩ := c0 _ _ _ e1
          exact ih _ _ _ _ _ r (by have := shorter hne hc; omega) e
      · split at h
        · rcases Res.andThen_eq_err h with e | ⟨x, r, e1, e⟩
          · exact n1 _ e
          · obtain ⟨cc, hne, hc⟩ := c1 _ _ _ e1
            exact ih _ _ _ _ _ r (by have := shorter hne hc; omega) e
        · split at h
          · rcases Res.andThen_eq_err h with e | ⟨x, r, e1, e⟩
            · exact n2 _ e
            · obtain ⟨cc, hne, hc⟩ := c2 _ _ _ e1
              exact ih _ _ _ _ _ r (by have := shorter hne hc; omega) e
          · rcases Res.andThen_eq_err h with e | ⟨x, r, e1, e⟩
            · exact skip_nd _ e
            · obtain ⟨cc, hne, hc⟩ := skip_consumes _ _ _ e1
              exact ih _ _ _ _ _ r (by have := shorter hne hc; omega) e

theorem fields3Indef_nd {α β γ : Type} (p0 : P α) (p1 : P β) (p2 : P γ) (c0 : Consumes p0) (c1 : Consumes p1) (c2 : Consumes p2)
    (n0 : NoDiverge p0) (n1 : NoDiverge p1) (n2 : NoDiverge p2) :
    ∀ (fuel i : Nat) (a : Option α) (b : Option β) (c : Option γ) (cur : Bytes), cur.length + 1 ≤ fuel →
      fields3Indef p0 p1 p2 fuel i a b c cur ≠ .err .diverge := by
  intro fuel
  induction fuel with
  | zero => intro i a b c cur hf; omega
  | succ f ih =>
    intro i a b c cur hf h
    simp only [fields3Indef] at h
    split at h
    · rename_i e he; simp only [Res.err.injEq] at h; exact datatype_err_ne_diverge he h
    · split at h
      · exact skip_nd _ (Res.map_eq_err h)
      · split at h
        · rcases Res.andThen_eq_err h with e | ⟨x, r, e1, e⟩
          · exact n0 _ e
          · obtain ⟨cc, hne, hc⟩ := c0 _ _ _ e1
            exact ih _ _ _ _ r (by have := shorter hne hc; omega) e
        · split at h
          · rcases Res.andThen_eq_err h with e | ⟨x, r, e1, e⟩
            · exact n1 _ e
            · obtain ⟨cc, hne, hc⟩ := c1 _ _ _ e1
              exact ih _ _ _ _ r (by have := shorter hne hc; omega) e
          · split at h
            · rcases Res.andThen_eq_err h with e | ⟨x, r, e1, e⟩
              · exact n2 _ e
              · obtain ⟨cc, hne, hc⟩ := c2 _ _ _ e1
                exact ih _ _ _ _ r (by have := shorter hne hc; omega) e
            · rcases Res.andThen_eq_err h with e | ⟨x, r, e1, e⟩
              · exact skip_nd _ e
              · obtain ⟨cc, hne, hc⟩ := skip_consumes _ _ _ e1
                exact ih _ _ _ _ r (by have := shorter hne hc; omega) e

theorem structArray3_nd {α β γ : Type} (p0 : P α) (p1 : P β) (p2 : P γ) (c0 : Consumes p0) (c1 : Consumes p1) (c2 : Consumes p2)
    (n0 : NoDiverge p0) (n1 : NoDiverge p1) (n2 : NoDiverge p2) : NoDiverge (structArray3 p0 p1 p2) := by
  intro cur h
  unfold structArray3 at h
  rcases Res.andThen_eq_err h with e | ⟨len, r, _, e⟩
  · exact seqHead_nd 4 cur e
  · simp only at e
    rcases Res.andThen_eq_err e with e' | ⟨abc, r', _, e'⟩
    · cases len with
      | some n => exact fields3Def_nd p0 p1 p2 c0 c1 c2 n0 n1 n2 _ _ _ _ _ _ r (Nat.le_refl _) e'
      | none => exact fields3Indef_nd p0 p1 p2 c0 c1 c2 n0 n1 n2 _ _ _ _ _ r (Nat.le_refl _) e'
    · split at e' <;> cases e'

/-! ### the concrete field decoders -/

theorem tagWrapBytes_consumes : Consumes (TagWrap.dec cBytes) :=
  Consumes.andThen tag_consumes fun _ => bytes_consumes.suffix

theorem tagWrapBytes_nd : NoDiverge (TagWrap.dec cBytes) := nd_andThen tag_nd fun _ => bytes_nd

/-- `ByronAddress`'s CBOR decoder never exhausts the fuel of its field loop -/
theorem byronAddress_nd : NoDiverge ByronAddress.dec := by
  intro cur h
  unfold ByronAddress.dec at h
  exact structArray2_nd _ _ tagWrapBytes_consumes (uintN_consumes 32) tagWrapBytes_nd (uintN_nd 32) cur (Res.map_eq_err h)

theorem hash28_consumes : Consumes hash28 := by
  intro cur a rest h
  unfold hash28 at h
  obtain ⟨b, r, e1, e2⟩ := Res.andThen_eq_ok h
  split at e2
  · simp only [Res.ok.injEq] at e2; obtain ⟨rfl, rfl⟩ := e2; exact bytes_consumes _ _ _ e1
  · cases e2

theorem hash28_nd : NoDiverge hash28 := by
  intro cur h
  unfold hash28 at h
  rcases Res.andThen_eq_err h with e | ⟨b, r, _, e⟩
  · exact bytes_nd _ e
  · split at e <;> cases e

theorem addrDistr_nd : NoDiverge AddrDistr.dec := by
  intro cur h
  unfold AddrDistr.dec at h
  rcases Res.andThen_eq_err h with e | ⟨len, r, _, e⟩
  · exact seqHead_nd 4 cur e
  · rcases Res.andThen_eq_err e with e' | ⟨v, r', _, e'⟩
    · exact uintN_nd 32 _ e'
    · split at e'
      · exact hash28_nd _ (Res.map_eq_err e')
      · split at e' <;> cases e'

theorem addrAttr_nd : NoDiverge AddrAttr.dec := by
  intro cur h
  unfold AddrAttr.dec at h
  rcases Res.andThen_eq_err h with e | ⟨key, r, _, e⟩
  · exact uintN_nd 8 _ e
  · split at e
    · exact addrDistr_nd _ (Res.map_eq_err e)
    · split at e
      · exact bytes_nd _ (Res.map_eq_err e)
      · split at e
        · exact bytes_nd _ (Res.map_eq_err e)
        · cases e

theorem oppAttr_consumes : Consumes (OPP.dec cAddrAttr) := by
  intro cur a rest h
  unfold OPP.dec at h
  obtain ⟨len, r, e1, e2⟩ := Res.andThen_eq_ok h
  obtain ⟨c1, hne, h1⟩ := seqHead_consumes 5 _ _ _ e1
  have hs : Suffix cAddrAttr.dec := by
    intro cur a rest h
    simp only [cAddrAttr, AddrAttr.dec] at h
    obtain ⟨key, r, e1, e2⟩ := Res.andThen_eq_ok h
    obtain ⟨c1, _, h1⟩ := uintN_consumes 8 _ _ _ e1
    have : ∃ c2, r = c2 ++ rest := by
      split at e2
      · obtain ⟨d, e3, _⟩ := Res.map_eq_ok e2
        simp only [AddrDistr.dec] at e3
        obtain ⟨l, r1, f1, f2⟩ := Res.andThen_eq_ok e3
        obtain ⟨v, r2, f3, f4⟩ := Res.andThen_eq_ok f2
        obtain ⟨d1, _, g1⟩ := seqHead_consumes 4 _ _ _ f1
        obtain ⟨d2, _, g2⟩ := uintN_consumes 32 _ _ _ f3
        split at f4
        · obtain ⟨hh, f5, _⟩ := Res.map_eq_ok f4
          obtain ⟨d3, _, g3⟩ := hash28_consumes _ _ _ f5
          exact ⟨d1 ++ d2 ++ d3, by rw [g1, g2, g3]; simp⟩
        · split at f4
          · simp only [Res.ok.injEq] at f4; exact ⟨d1 ++ d2, by rw [g1, g2, f4.2]; simp⟩
          · cases f4
      · split at e2
        · obtain ⟨b, e3, _⟩ := Res.map_eq_ok e2; obtain ⟨c, _, hc⟩ := bytes_consumes _ _ _ e3; exact ⟨c, hc⟩
        · split at e2
          · obtain ⟨b, e3, _⟩ := Res.map_eq_ok e2; obtain ⟨c, _, hc⟩ := bytes_consumes _ _ _ e3; exact ⟨c, hc⟩
          · cases e2
    obtain ⟨c2, h2⟩ := this
    exact ⟨c1 ++ c2, by rw [h1, h2, List.append_assoc]⟩
  obtain ⟨c2, h2⟩ := repeatN_suffix _ hs _ _ _ _ e2
  exact ⟨c1 ++ c2, by simp [hne], by rw [h1, h2, List.append_assoc]⟩

/-- `AddressPayload`'s decoder (root hash, attribute map, address type) never exhausts its fuel -/
theorem addressPayload_nd : NoDiverge AddressPayload.dec := by
  intro cur h
  unfold AddressPayload.dec at h
  exact structArray3_nd _ _ _ hash28_consumes oppAttr_consumes (uintN_consumes 32) hash28_nd (opp_nd cAddrAttr addrAttr_nd) (uintN_nd 32)
    cur (Res.map_eq_err h)

end PallasVerif.Byron
