import PallasVerif.Proofs.NetFuel
import PallasVerif.Model.NetMsg
/-!
Every decoder that sits under an indefinite array / map in the message codecs consumes at least one
byte when it succeeds (`Progress`), so the element loops (`decBreak`) of the model never exhaust
their fuel (`Props/C09.vec_*_never_out_of_fuel`).
-/
namespace PallasVerif.NetCodec
open PallasVerif.Cbor

/-- a decoder never returns more input than it was given -/
def NoGrow {α : Type} (d : Dec α) : Prop := ∀ bs a r, d bs = .ok a r → r.length ≤ bs.length

theorem Progress.noGrow {α : Type} {d : Dec α} (h : Progress d) : NoGrow d :=
  fun bs a r hr => Nat.le_of_lt (h bs a r hr)

theorem noGrow_bind {α β : Type} {d : Dec α} {f : α → Dec β} (hd : NoGrow d) (hf : ∀ a, NoGrow (f a)) :
    NoGrow (fun bs => (d bs).bind fun a r => f a r) := by
  intro bs b r h
  obtain ⟨a, r1, h1, h2⟩ := Res.bind_eq_ok h
  have := hd _ _ _ h1
  have := hf a _ _ _ h2
  omega

theorem progress_bind {α β : Type} {d : Dec α} {f : α → Dec β} (hd : Progress d) (hf : ∀ a, NoGrow (f a)) :
    Progress (fun bs => (d bs).bind fun a r => f a r) := by
  intro bs b r h
  obtain ⟨a, r1, h1, h2⟩ := Res.bind_eq_ok h
  have := hd _ _ _ h1
  have := hf a _ _ _ h2
  omega

theorem noGrow_ok {α : Type} (a : α) : NoGrow (fun bs => Res.ok a bs) := by
  intro bs b r h; simp only [Res.ok.injEq] at h; rw [← h.2]; exact Nat.le_refl _

theorem noGrow_err {α : Type} : NoGrow (fun _ => (Res.err : Res α)) := by intro bs b r h; simp at h

theorem progress_uMax (m : Nat) : Progress (uMax m) := by
  intro bs a r h
  unfold uMax at h
  obtain ⟨v, r1, h1, h2⟩ := Res.bind_eq_ok h
  split at h2
  · simp only [Res.ok.injEq] at h2; rw [← h2.2]; exact progress_u64 _ _ _ h1
  · simp at h2

theorem progress_bool : Progress NetCodec.bool := by
  intro bs a r h
  cases bs with
  | nil => simp [NetCodec.bool] at h
  | cons b rest =>
    simp only [NetCodec.bool] at h
    split at h
    · simp only [Res.ok.injEq] at h; rw [← h.2]; simp
    · split at h
      · simp only [Res.ok.injEq] at h; rw [← h.2]; simp
      · exact absurd h (mismatch_ne_ok _ _ _ _)

theorem progress_defStr (m : Nat) : Progress (defStr m) := by
  intro bs a r h
  cases bs with
  | nil => simp [defStr] at h
  | cons b rest => have := defStr_le h; simp only [List.length_cons]; omega

theorem progress_bytes : Progress bytes := progress_defStr 2

theorem progress_str : Progress str := by
  intro bs a r h
  unfold str at h
  obtain ⟨s, r1, h1, h2⟩ := Res.bind_eq_ok h
  split at h2
  · simp only [Res.ok.injEq] at h2; rw [← h2.2]; exact progress_defStr 3 _ _ _ h1
  · simp at h2

theorem progress_container (m : Nat) : Progress (container m) := by
  intro bs a r h
  cases bs with
  | nil => simp [container] at h
  | cons b rest => have := container_le h; simp only [List.length_cons]; omega

theorem progress_array : Progress array := progress_container 4

theorem progress_tag : Progress tag := by
  intro bs a r h
  cases bs with
  | nil => simp [tag] at h
  | cons b rest =>
    simp only [tag] at h
    split at h
    · exact absurd h (mismatch_ne_ok _ _ _ _)
    · have := unsignedArg_le (by simp) h; simp only [List.length_cons]; omega

theorem progress_labelled : Progress NetMsg.labelled :=
  progress_bind progress_array fun _ => (progress_uMax _).noGrow

theorem noGrow_decN {α : Type} {d : Dec α} (hd : NoGrow d) : ∀ n, NoGrow (decN d n)
  | 0 => by intro bs a r h; simp only [decN, Res.ok.injEq] at h; rw [← h.2]; exact Nat.le_refl _
  | n + 1 => by
    intro bs a r h
    simp only [decN] at h
    obtain ⟨x, r1, h1, h2⟩ := Res.bind_eq_ok h
    obtain ⟨xs, r2, h3, h4⟩ := Res.bind_eq_ok h2
    simp only [Res.ok.injEq] at h4
    have := hd _ _ _ h1
    have := noGrow_decN hd n _ _ _ h3
    rw [← h4.2]; omega

theorem noGrow_decBreak {α : Type} {d : Dec α} (hd : NoGrow d) : ∀ fuel, NoGrow (decBreak d fuel)
  | 0 => by intro bs a r h; simp [decBreak] at h
  | fuel + 1 => by
    intro bs a r h
    cases bs with
    | nil => simp [decBreak] at h
    | cons b rest =>
      simp only [decBreak] at h
      split at h
      · simp only [Res.ok.injEq] at h; rw [← h.2]; simp
      · obtain ⟨x, r1, h1, h2⟩ := Res.bind_eq_ok h
        obtain ⟨xs, r2, h3, h4⟩ := Res.bind_eq_ok h2
        simp only [Res.ok.injEq] at h4
        have := hd _ _ _ h1
        have := noGrow_decBreak hd fuel _ _ _ h3
        rw [← h4.2]; omega

theorem progress_vec {α : Type} {d : Dec α} (hd : NoGrow d) : Progress (vec d) := by
  intro bs a r h
  unfold vec at h
  obtain ⟨len, r1, h1, h2⟩ := Res.bind_eq_ok h
  have := progress_array _ _ _ h1
  cases len with
  | some n => have := noGrow_decN hd n _ _ _ h2; omega
  | none => have := noGrow_decBreak hd _ _ _ _ h2; omega

/-! ### the element decoders of the message codecs -/

open PallasVerif.NetMsg

theorem progress_point : Progress Point.dec := by
  intro bs a r h
  unfold Point.dec at h
  obtain ⟨size, r1, h1, h2⟩ := Res.bind_eq_ok h
  have := progress_array _ _ _ h1
  split at h2
  · simp only [Res.ok.injEq] at h2; rw [← h2.2]; exact this
  · obtain ⟨s, r2, h3, h4⟩ := Res.bind_eq_ok h2
    obtain ⟨hh, r3, h5, h6⟩ := Res.bind_eq_ok h4
    simp only [Res.ok.injEq] at h6
    have := progress_u64 _ _ _ h3
    have := progress_bytes _ _ _ h5
    rw [← h6.2]; omega
  · simp at h2

theorem progress_eraTxId : Progress EraTxId.dec :=
  progress_bind progress_array fun _ => noGrow_bind (progress_uMax _).noGrow fun _ =>
    noGrow_bind progress_bytes.noGrow fun _ => noGrow_ok _

theorem progress_eraTx : Progress EraTx.dec := by
  refine progress_bind progress_array fun _ => noGrow_bind (progress_uMax _).noGrow fun _ =>
    noGrow_bind progress_tag.noGrow fun tg => ?_
  intro bs a r h
  split at h
  · simp at h
  · exact (noGrow_bind progress_bytes.noGrow fun _ => noGrow_ok _) bs a r h

theorem progress_txIdAndSize : Progress TxIdAndSize.dec :=
  progress_bind progress_array fun _ => noGrow_bind progress_eraTxId.noGrow fun _ =>
    noGrow_bind (progress_uMax _).noGrow fun _ => noGrow_ok _

theorem progress_peerAddress (portMax : Nat) : Progress (PeerAddress.dec portMax) := by
  refine progress_bind progress_labelled fun label => ?_
  intro bs a r h
  split at h
  · exact (noGrow_bind (progress_uMax _).noGrow fun _ => noGrow_bind (progress_uMax _).noGrow fun _ => noGrow_ok _) bs a r h
  · exact (noGrow_bind (progress_uMax _).noGrow fun _ => noGrow_bind (progress_uMax _).noGrow fun _ =>
      noGrow_bind (progress_uMax _).noGrow fun _ => noGrow_bind (progress_uMax _).noGrow fun _ =>
      noGrow_bind (progress_uMax _).noGrow fun _ => noGrow_ok _) bs a r h
  · simp at h

theorem progress_dmqPayload : Progress DmqPayload.dec :=
  progress_bind progress_array fun _ => noGrow_bind progress_bytes.noGrow fun _ =>
    noGrow_bind progress_u64.noGrow fun _ => noGrow_bind (progress_uMax _).noGrow fun _ => noGrow_ok _

theorem progress_dmqOpCert : Progress DmqOpCert.dec :=
  progress_bind progress_array fun _ => noGrow_bind progress_bytes.noGrow fun _ =>
    noGrow_bind progress_u64.noGrow fun _ => noGrow_bind progress_u64.noGrow fun _ =>
    noGrow_bind progress_bytes.noGrow fun _ => noGrow_ok _

theorem progress_dmqMsg : Progress DmqMsg.dec :=
  progress_bind progress_array fun _ => noGrow_bind progress_bytes.noGrow fun _ =>
    noGrow_bind progress_dmqPayload.noGrow fun _ => noGrow_bind progress_bytes.noGrow fun _ =>
    noGrow_bind progress_dmqOpCert.noGrow fun _ => noGrow_bind progress_bytes.noGrow fun _ => noGrow_ok _

theorem progress_pair {α β : Type} {da : Dec α} {db : Dec β} (ha : Progress da) (hb : NoGrow db) : Progress (pair da db) :=
  progress_bind ha fun _ => noGrow_bind hb fun _ => noGrow_ok _

end PallasVerif.NetCodec
