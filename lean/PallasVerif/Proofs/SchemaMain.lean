import PallasVerif.Proofs.SchemaByType
/-! The generic theorem: induction on the fuel, one node lemma per case. -/
namespace PallasVerif.Schema
open PallasVerif.Cbor

/-- the schema holds no `KeepRaw` (at some fuel of the static check) -/
def NR (env : Env) (s : Schema) : Prop := ∃ fn, noRaw env fn s = true

/-- every hand-modelled leaf codec of the environment satisfies the contract -/
def CustomsGood (env : Env) : Prop :=
  ∀ (i : Nat) (c : Custom), env.customs[i]? = some c → Good c.enc c.dec c.kinds False

theorem subset_mem {a b : List Ty} (h : subset a b = true) : ∀ t, t ∈ a → t ∈ b := by
  intro t ht
  simp only [subset, List.all_eq_true, List.contains_eq_mem, decide_eq_true_eq] at h
  exact h t ht

theorem NR_sub1 {env : Env} {s s' : Schema} (h : ∀ fn, noRaw env (fn + 1) s = noRaw env fn s') : NR env s → NR env s' := by
  rintro ⟨fn, hn⟩
  cases fn with
  | zero => simp [noRaw] at hn
  | succ fn => exact ⟨fn, by rw [← h fn]; exact hn⟩

theorem NR_all {env : Env} {α} {s : Schema} {l : List α} {g : α → Schema}
    (h : ∀ fn, noRaw env (fn + 1) s = l.all (fun a => noRaw env fn (g a))) : NR env s → ∀ a, a ∈ l → NR env (g a) := by
  rintro ⟨fn, hn⟩ a ha
  cases fn with
  | zero => simp [noRaw] at hn
  | succ fn =>
    rw [h fn, List.all_eq_true] at hn
    exact ⟨fn, hn a ha⟩

theorem enc_dec_good (env : Env) (hv : env.valid = true) (hc : CustomsGood env) :
    ∀ f s fo, ok env fo s = true → Good (enc env f s) (dec env f s) (kinds env s) (NR env s) := by
  intro f
  induction f with
  | zero => intro s fo _ v it _ he; simp [enc] at he
  | succ f ih =>
    intro s fo hok
    cases fo with
    | zero => simp [ok] at hok
    | succ fo =>
      cases s with
      | uint b =>
        simp only [ok, Bool.or_eq_true, beq_iff_eq] at hok
        exact good_uint b _ (by omega)
      | sint b =>
        simp only [ok, Bool.or_eq_true, beq_iff_eq] at hok
        exact good_sint b _ (by omega)
      | int => exact good_int _
      | nzint => exact good_nzint _
      | posCoin => exact good_posCoin _
      | bytes => exact good_bytes _
      | hash n => exact good_hash n _
      | text => exact good_text _
      | bool => exact good_bool _
      | vec s =>
        simp only [ok] at hok
        exact (good_vec (ih s fo hok)).mono (fun _ h => h) (NR_sub1 (fun _ => rfl))
      | tuple fs =>
        simp only [ok, Bool.and_eq_true, decide_eq_true_eq, List.all_eq_true] at hok
        exact (good_tuple (e := enc env f) (d := dec env f) (K := kinds env) (nr := NR env) fs hok.1
          (fun s hs => ih s fo (hok.2 s hs))).mono (fun _ h => h) (NR_all (g := id) (fun _ => rfl))
      | btmap k x =>
        simp only [ok, Bool.and_eq_true] at hok
        exact (good_btmap (ih k fo hok.1.1) ⟨fo, hok.2⟩ (ih x fo hok.1.2)).mono (fun _ h => h)
          (fun h => by
            obtain ⟨fn, hn⟩ := h
            cases fn with
            | zero => simp [noRaw] at hn
            | succ fn => simp only [noRaw, Bool.and_eq_true] at hn; exact ⟨fn, hn.2⟩)
      | opt s =>
        simp only [ok, Bool.and_eq_true, Bool.not_eq_true', List.contains_eq_mem, decide_eq_false_iff_not] at hok
        exact (good_opt (ih s fo hok.1) hok.2).mono (fun _ h => h) (NR_sub1 (fun _ => rfl))
      | struct l t fs =>
        simp only [ok, Bool.and_eq_true, List.all_eq_true] at hok
        obtain ⟨⟨hi, hfs⟩, ht⟩ := hok
        refine (good_struct (e := enc env f) (d := dec env f) (K := kinds env) (nr := NR env) l t fs ?_ hi
          (fun p hp => ih p.2 fo (hfs p hp))).mono (fun _ h => h) (NR_all (g := fun (p : Nat × Schema) => p.2) (fun _ => rfl))
        intro n hn; subst hn; simpa using ht
      | enumFlat vs =>
        simp only [ok, Bool.and_eq_true, List.all_eq_true, decide_eq_true_eq] at hok
        refine (good_enumFlat (e := enc env f) (d := dec env f) (K := kinds env) (nr := NR env) vs hok.1
          (fun v hv => ⟨(hok.2 v hv).1.1, (hok.2 v hv).1.2, fun p hp => ih p.2 fo ((hok.2 v hv).2 p hp)⟩)).mono
          (fun _ h => h) ?_
        rintro ⟨fn, hn⟩ v hv p hp
        cases fn with
        | zero => simp [noRaw] at hn
        | succ fn =>
          simp only [noRaw, List.all_eq_true] at hn
          exact ⟨fn, hn v hv p hp⟩
      | enumIdx vs =>
        simp only [ok, Bool.and_eq_true, List.all_eq_true, decide_eq_true_eq] at hok
        exact good_enumIdx vs _ hok.1 hok.2
      | byType alts many =>
        simp only [ok, Bool.and_eq_true, List.all_eq_true] at hok
        obtain ⟨⟨⟨_, halts⟩, hdisj⟩, hmany⟩ := hok
        refine (good_byType (e := enc env f) (d := dec env f) (K := kinds env) (nr := NR env) alts many
          (fun a ha => ⟨ih a.2.2 fo (halts a ha).1, subset_mem (halts a ha).2⟩) hdisj ?_).mono (fun _ h => h) ?_
        · intro mp ms hm
          subst hm
          simp only [Bool.and_eq_true, List.all_eq_true, decide_eq_true_eq, Bool.not_eq_true',
            List.contains_eq_mem, decide_eq_false_iff_not] at hmany
          exact ⟨hmany.1.2, fun s hs => ih s fo (hmany.1.1 s hs), hmany.2⟩
        · rintro ⟨fn, hn⟩
          cases fn with
          | zero => simp [noRaw] at hn
          | succ fn =>
            simp only [noRaw, Bool.and_eq_true, List.all_eq_true] at hn
            refine ⟨fun a ha => ⟨fn, hn.1 a ha⟩, ?_⟩
            intro mp ms hm s hs
            subst hm
            simp only [List.all_eq_true] at hn
            exact ⟨fn, hn.2 s hs⟩
      | sumFixed b vs =>
        simp only [ok, Bool.and_eq_true, Bool.or_eq_true, beq_iff_eq, List.all_eq_true, decide_eq_true_eq] at hok
        refine (good_sumFixed (e := enc env f) (d := dec env f) (K := kinds env) (nr := NR env) b vs hok.1.1 hok.1.2
          (fun v hv => ⟨(hok.2 v hv).1.1, (hok.2 v hv).1.2, fun s hs => ih s fo ((hok.2 v hv).2 s hs)⟩)).mono
          (fun _ h => h) ?_
        rintro ⟨fn, hn⟩ v hv s hs
        cases fn with
        | zero => simp [noRaw] at hn
        | succ fn =>
          simp only [noRaw, List.all_eq_true] at hn
          exact ⟨fn, hn v hv s hs⟩
      | sumOther b vs o =>
        simp only [ok, Bool.and_eq_true, Bool.or_eq_true, beq_iff_eq, List.all_eq_true, decide_eq_true_eq] at hok
        obtain ⟨⟨⟨⟨hb, hd⟩, hvs⟩, hol⟩, hos⟩ := hok
        refine (good_sumOther (e := enc env f) (d := dec env f) (K := kinds env) (nr := NR env) b vs o hb hd
          (fun v hv => ⟨(hvs v hv).1.1, (hvs v hv).1.2, fun s hs => ih s fo ((hvs v hv).2 s hs)⟩) hol
          (fun s hs => ih s fo (hos s hs))).mono (fun _ h => h) ?_
        rintro ⟨fn, hn⟩
        cases fn with
        | zero => simp [noRaw] at hn
        | succ fn =>
          simp only [noRaw, Bool.and_eq_true, List.all_eq_true] at hn
          exact ⟨fun v hv s hs => ⟨fn, hn.1 v hv s hs⟩, fun s hs => ⟨fn, hn.2 s hs⟩⟩
      | keepRaw s =>
        simp only [ok] at hok
        refine (good_keepRaw (ih s fo hok)).mono (fun _ h => h) ?_
        rintro ⟨fn, hn⟩
        cases fn <;> simp [noRaw] at hn
      | nullable s =>
        simp only [ok, Bool.and_eq_true, Bool.not_eq_true', List.contains_eq_mem, decide_eq_false_iff_not] at hok
        exact (good_nullable (ih s fo hok.1.1) hok.1.2 hok.2).mono (fun _ h => h) (NR_sub1 (fun _ => rfl))
      | set s =>
        simp only [ok] at hok
        exact (good_set (ih s fo hok)).mono (fun _ h => h) (NR_sub1 (fun _ => rfl))
      | maybeIndef s =>
        simp only [ok] at hok
        exact (good_maybeIndef (ih s fo hok)).mono (fun _ h => h) (NR_sub1 (fun _ => rfl))
      | kvPairs k x =>
        simp only [ok, Bool.and_eq_true] at hok
        refine (good_kvPairs (ih k fo hok.1) (ih x fo hok.2)).mono (fun _ h => h) ?_
        rintro ⟨fn, hn⟩
        cases fn with
        | zero => simp [noRaw] at hn
        | succ fn => simp only [noRaw, Bool.and_eq_true] at hn; exact ⟨⟨fn, hn.1⟩, ⟨fn, hn.2⟩⟩
      | cborWrap s =>
        simp only [ok] at hok
        exact (good_cborWrap (ih s fo hok)).mono (fun _ h => h) (NR_sub1 (fun _ => rfl))
      | tagWrap t s =>
        simp only [ok, Bool.and_eq_true] at hok
        exact (good_tagWrap t (ih s fo hok.2)).mono (fun _ h => h) (NR_sub1 (fun _ => rfl))
      | emptyMap => exact good_emptyMap _
      | zeroOrOne s =>
        simp only [ok] at hok
        exact (good_zeroOrOne (ih s fo hok)).mono (fun _ h => h) (NR_sub1 (fun _ => rfl))
      | any => exact good_any _
      | ref i =>
        simp only [ok, decide_eq_true_eq] at hok
        have hget : env.types[i]? = some env.types[i] := List.getElem?_eq_getElem hok
        have hmem : env.types[i] ∈ env.types := List.getElem_mem hok
        simp only [Env.valid, List.all_eq_true, Bool.and_eq_true, Bool.or_eq_true, Bool.not_eq_true'] at hv
        obtain ⟨⟨h1, h2⟩, h3⟩ := hv _ hmem
        have hg := ih env.types[i].schema okFuel h1
        have e1 : enc env (f + 1) (.ref i) = enc env f env.types[i].schema := by
          funext v; simp [enc, hget]
        have e2 : dec env (f + 1) (.ref i) = dec env f env.types[i].schema := by
          funext v; simp [dec, hget]
        rw [e1, e2]
        refine hg.mono ?_ ?_
        · simp only [kinds, hget]; exact subset_mem h2
        · rintro ⟨fn, hn⟩
          cases fn with
          | zero => simp [noRaw] at hn
          | succ fn =>
            simp only [noRaw, hget] at hn
            rcases h3 with h3 | h3
            · rw [hn] at h3; cases h3
            · exact ⟨okFuel, h3⟩
      | custom i =>
        simp only [ok, decide_eq_true_eq] at hok
        have hget : env.customs[i]? = some env.customs[i] := List.getElem?_eq_getElem hok
        have hg := hc i _ hget
        have e1 : enc env (f + 1) (.custom i) = env.customs[i].enc := by
          funext v; simp [enc, hget]
        have e2 : dec env (f + 1) (.custom i) = env.customs[i].dec := by
          funext v; simp [dec, hget]
        rw [e1, e2]
        refine hg.mono ?_ ?_
        · simp only [kinds, hget]; exact fun _ h => h
        · rintro ⟨fn, hn⟩
          cases fn <;> simp [noRaw] at hn

end PallasVerif.Schema
