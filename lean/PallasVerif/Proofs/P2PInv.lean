import PallasVerif.Proofs.P2PPromo
/-! Every step of the initiator model preserves the promotion invariant, never emits `Connect`
    for a peer that was banned before the step, and only panics on `error_count` overflow. -/
namespace PallasVerif.P2P

/-- same promotion configuration and sets -/
structure Core (s s' : St) : Prop where
  cfg : s'.cfg = s.cfg
  cold : s'.cold = s.cold
  warm : s'.warm = s.warm
  hot : s'.hot = s.hot
  banned : s'.banned = s.banned

theorem Core.refl (s : St) : Core s s := ⟨rfl, rfl, rfl, rfl, rfl⟩

theorem Core.trans {a b c : St} (h1 : Core a b) (h2 : Core b c) : Core a c :=
  ⟨h2.cfg.trans h1.cfg, h2.cold.trans h1.cold, h2.warm.trans h1.warm, h2.hot.trans h1.hot,
   h2.banned.trans h1.banned⟩

theorem SetsOK.congr {s f : St} (h : SetsOK s) (c : Core s f) : SetsOK f := by
  obtain ⟨h1, h2, h3, h4, h5⟩ := c
  constructor <;> simp only [h1, h2, h3, h4, h5]
  · exact h.ndC
  · exact h.ndW
  · exact h.ndH
  · exact h.ndB
  · exact h.dCW
  · exact h.dCH
  · exact h.dCB
  · exact h.dWH
  · exact h.dWB
  · exact h.dHB
  · exact h.limW
  · exact h.limH
  · exact h.limT

/-- re-attach the detached peer after a primitive promotion operation -/
theorem attach {s0 s1 f : St} {p : Nat} {st0 st1 st2 : Peer}
    (hinv : Inv s0) (hprim : Prim s0 p st0 s1 st1) (h0 : p ∈ s0.banned → ¬ WH st0.tag)
    (htag : st2.tag = st1.tag) (hcore : Core s1 f) (hpeers : f.peers = setPeer s1.peers p st2) :
    Inv f := by
  refine ⟨(hprim.sets hinv.sets).congr hcore, ?_⟩
  intro q st hq hb
  rw [hcore.banned] at hb
  rw [hpeers, hprim.peers] at hq
  unfold setPeer at hq
  by_cases e : q = p
  · subst e
    simp only [if_true, Option.some.injEq] at hq
    subst hq
    rw [htag]
    exact hprim.tag hinv.sets h0 hb
  · simp only [e, if_false] at hq
    rcases hprim.bnew q hb with h | h
    · exact hinv.tags q st hq h
    · exact absurd h e

/-- replace the record of a tracked peer by one whose tag is not "more connected" -/
theorem setPeer_inv {s f : St} {p : Nat} {st st' : Peer} (hinv : Inv s) (hp : s.peers p = some st)
    (ht : WH st'.tag → WH st.tag) (hcore : Core s f) (hpeers : f.peers = setPeer s.peers p st') :
    Inv f :=
  attach (st0 := st') (st1 := st') hinv (Prim.rfl' s p st')
    (fun hb hw => hinv.tags p st hp hb (ht hw)) rfl hcore hpeers

/-! ### frame facts of the sub-behaviours -/

theorem applyMsg_tag (st : Peer) (m : Msg) : (st.applyMsg m).tag = st.tag := by
  cases m <;> simp only [Peer.applyMsg] <;> split <;> rfl

theorem connectionHk_tag (p : Nat) (st : Peer) : (connectionHk p st).1.tag = st.tag := by
  unfold connectionHk
  cases hn : needsConnection st
  · simp only [Bool.false_eq_true, if_false]; split <;> rfl
  · simp only [if_true]; split <;> rfl

theorem needsConnection_WH {st : Peer} (h : needsConnection st = true) : WH st.tag := by
  unfold needsConnection at h
  unfold WH
  cases hc : st.conn <;> cases ht : st.tag <;> simp [hc, ht] at h ⊢

theorem connectionHk_connect {p q : Nat} {st : Peer} (h : Out.connect q ∈ (connectionHk p st).2) :
    q = p ∧ needsConnection st = true := by
  unfold connectionHk at h
  cases hn : needsConnection st
  · simp only [hn, Bool.false_eq_true, if_false] at h
    split at h <;> simp at h
  · simp only [hn, if_true] at h
    split at h <;> simp at h <;> exact ⟨h, rfl⟩

theorem handshakeInbound_tag (p : Nat) (st : Peer) : (handshakeInbound p st).1.tag = st.tag := by
  unfold handshakeInbound; split
  · split <;> rfl
  · rfl

theorem handshakeInbound_noconn (p q : Nat) (st : Peer) : Out.connect q ∉ (handshakeInbound p st).2 := by
  unfold handshakeInbound; split
  · split <;> simp
  · simp

theorem keepaliveHk_noconn (t p q : Nat) (st : Peer) : Out.connect q ∉ keepaliveHk t p st := by
  unfold keepaliveHk; split
  · split <;> simp
  · simp

theorem discoveryHk_some (s : St) (p : Nat) (st : Peer) :
    ∃ o, discoveryHk s p st = some o ∧ ∀ q, Out.connect q ∉ o := by
  unfold discoveryHk
  by_cases h1 : s.discovered.length < s.hwm
  · simp only [h1, if_true]
    by_cases h2 : discoveryAvailable st = true
    · simp only [h2, if_true]
      rw [usub_some (Nat.le_of_lt h1)]
      exact ⟨_, rfl, by simp⟩
    · simp only [h2]; exact ⟨_, rfl, by simp⟩
  · simp only [h1, if_false]; exact ⟨_, rfl, by simp⟩

theorem discoveryInbound_core (s : St) (st : Peer) : Core s (discoveryInbound s st).1 := by
  unfold discoveryInbound; split
  · split
    · exact ⟨rfl, rfl, rfl, rfl, rfl⟩
    · exact Core.refl s
  · exact Core.refl s

theorem discoveryInbound_peers (s : St) (st : Peer) : (discoveryInbound s st).1.peers = s.peers := by
  unfold discoveryInbound; split
  · split <;> rfl
  · rfl

theorem discoveryInbound_out (s : St) (st : Peer) : (discoveryInbound s st).1.out = s.out := by
  unfold discoveryInbound; split
  · split <;> rfl
  · rfl

theorem discoveryInbound_tag (s : St) (st : Peer) : (discoveryInbound s st).2.tag = st.tag := by
  unfold discoveryInbound; split
  · split <;> rfl
  · rfl

theorem blockfetchHk_core (s : St) (p : Nat) (st : Peer) : Core s (blockfetchHk s p st).1 := by
  unfold blockfetchHk; split
  · exact Core.refl s
  · split
    · exact ⟨rfl, rfl, rfl, rfl, rfl⟩
    · exact Core.refl s

theorem blockfetchHk_peers (s : St) (p : Nat) (st : Peer) : (blockfetchHk s p st).1.peers = s.peers := by
  unfold blockfetchHk; split
  · rfl
  · split <;> rfl

theorem blockfetchHk_out (s : St) (p : Nat) (st : Peer) : (blockfetchHk s p st).1.out = s.out := by
  unfold blockfetchHk; split
  · rfl
  · split <;> rfl

theorem blockfetchHk_noconn (s : St) (p q : Nat) (st : Peer) : Out.connect q ∉ (blockfetchHk s p st).2 := by
  unfold blockfetchHk; split
  · simp
  · split <;> simp

theorem blockfetchInbound_noconn (p q : Nat) (st : Peer) : Out.connect q ∉ blockfetchInbound p st := by
  unfold blockfetchInbound; split <;> simp

theorem chainsyncHk_noconn (s : St) (p q : Nat) (st : Peer) : Out.connect q ∉ chainsyncHk s p st := by
  unfold chainsyncHk; split <;> simp

theorem chainsyncTagged_noconn (p q : Nat) (st : Peer) : Out.connect q ∉ chainsyncTagged p st := by
  unfold chainsyncTagged; split <;> simp

theorem chainsyncInbound_tag (p : Nat) (st : Peer) : (chainsyncInbound p st).1.tag = st.tag := by
  unfold chainsyncInbound; split
  · rfl
  · split
    · rfl
    · split <;> rfl

theorem chainsyncInbound_noconn (p q : Nat) (st : Peer) : Out.connect q ∉ (chainsyncInbound p st).2 := by
  unfold chainsyncInbound; split
  · simp
  · split
    · simp
    · split <;> simp

theorem leiosnotifyHk_noconn (p q : Nat) (st : Peer) : Out.connect q ∉ leiosnotifyHk p st := by
  unfold leiosnotifyHk; split <;> simp

theorem leiosnotifyInbound_tag (p : Nat) (st : Peer) : (leiosnotifyInbound p st).1.tag = st.tag := by
  unfold leiosnotifyInbound; split <;> rfl

theorem leiosnotifyInbound_noconn (p q : Nat) (st : Peer) : Out.connect q ∉ (leiosnotifyInbound p st).2 := by
  unfold leiosnotifyInbound; split <;> simp

theorem leiosfetchHk_core (s : St) (p : Nat) (st : Peer) : Core s (leiosfetchHk s p st).1 := by
  unfold leiosfetchHk; split
  · split
    · exact ⟨rfl, rfl, rfl, rfl, rfl⟩
    · exact Core.refl s
  · exact Core.refl s

theorem leiosfetchHk_peers (s : St) (p : Nat) (st : Peer) : (leiosfetchHk s p st).1.peers = s.peers := by
  unfold leiosfetchHk; split
  · split <;> rfl
  · rfl

theorem leiosfetchHk_out (s : St) (p : Nat) (st : Peer) : (leiosfetchHk s p st).1.out = s.out := by
  unfold leiosfetchHk; split
  · split <;> rfl
  · rfl

theorem leiosfetchHk_noconn (s : St) (p q : Nat) (st : Peer) : Out.connect q ∉ (leiosfetchHk s p st).2 := by
  unfold leiosfetchHk; split
  · split <;> simp
  · simp

theorem leiosfetchInbound_tag (p : Nat) (st : Peer) : (leiosfetchInbound p st).1.tag = st.tag := by
  unfold leiosfetchInbound; split <;> rfl

theorem leiosfetchInbound_noconn (p q : Nat) (st : Peer) : Out.connect q ∉ (leiosfetchInbound p st).2 := by
  unfold leiosfetchInbound; split <;> simp

theorem connectionErrored_noconn (p q : Nat) (st : Peer) : Out.connect q ∉ connectionErrored p st := by
  unfold connectionErrored; split <;> simp

theorem proposeHandshake_noconn (p q : Nat) (st : Peer) : Out.connect q ∉ proposeHandshake p st := by
  unfold proposeHandshake; split <;> simp

/-! ### the step invariant -/

/-- `b0` = the peers that were in `banned_peers` when the current event started -/
structure Good (b0 : List Nat) (s : St) : Prop where
  inv : Inv s
  bsub : ∀ q, q ∈ b0 → q ∈ s.banned
  noconn : ∀ q, Out.connect q ∈ s.out → q ∉ b0

theorem hkPeer_good {b0 : List Nat} {s : St} (p : Nat) (g : Good b0 s) :
    ∃ f, hkPeer s p = some f ∧ Good b0 f := by
  unfold hkPeer
  cases hp : s.peers p with
  | none => exact ⟨s, rfl, g⟩
  | some st =>
    obtain ⟨s1, st1, hc, hprim⟩ := categorize_prim s p st g.inv.sets
    simp only [hc]
    obtain ⟨o3, hd, hd'⟩ := discoveryHk_some s1 p (connectionHk p st1).1
    simp only [hd]
    refine ⟨_, rfl, ?_, ?_, ?_⟩
    · refine attach (st2 := (connectionHk p st1).1) g.inv hprim (fun hb => g.inv.tags p st hp hb)
        (connectionHk_tag p st1) ?_ ?_
      · exact (blockfetchHk_core s1 p _).trans ((leiosfetchHk_core _ p _).trans ⟨rfl, rfl, rfl, rfl, rfl⟩)
      · simp only [leiosfetchHk_peers, blockfetchHk_peers]
    · intro q hq
      have := hprim.bmono q (g.bsub q hq)
      simpa only [(leiosfetchHk_core _ p _).banned, (blockfetchHk_core s1 p _).banned] using this
    · intro q hq hb
      simp only [leiosfetchHk_out, blockfetchHk_out, hprim.out, List.mem_append] at hq
      rcases hq with ((((((h | h) | h) | h) | h) | h) | h) | h
      · exact g.noconn q h hb
      · obtain ⟨e, hn⟩ := connectionHk_connect h
        subst e
        have hb1 : q ∈ s1.banned := hprim.bmono q (g.bsub q hb)
        exact hprim.tag g.inv.sets (fun hb' => g.inv.tags q st hp hb') hb1 (needsConnection_WH hn)
      · exact keepaliveHk_noconn _ _ _ _ h
      · exact hd' q h
      · exact blockfetchHk_noconn _ _ _ _ h
      · exact chainsyncHk_noconn _ _ _ _ h
      · exact leiosnotifyHk_noconn _ _ _ h
      · exact leiosfetchHk_noconn _ _ _ _ h


theorem hkAll_good {b0 : List Nat} (ord : List Nat) {s : St} (g : Good b0 s) :
    ∃ f, hkAll s ord = some f ∧ Good b0 f := by
  induction ord generalizing s with
  | nil => exact ⟨s, rfl, g⟩
  | cons p ps ih =>
    obtain ⟨f1, h1, g1⟩ := hkPeer_good p g
    simp only [hkAll, h1]
    exact ih g1

theorem onDiscovered_good {b0 : List Nat} {s : St} (p : Nat) (g : Good b0 s) :
    ∃ f, onDiscovered s p = some f ∧ Good b0 f := by
  unfold onDiscovered
  have hd : ¬ WH ({} : Peer).tag := by intro h; rcases h with e | e <;> simp at e
  obtain ⟨s1, st1, h1, hprim, ht⟩ := onPeerDiscovered_prim s p {} g.inv.sets
  simp only [h1]
  refine ⟨_, rfl, ?_, ?_, ?_⟩
  · exact attach (st2 := st1) g.inv hprim (fun _ => hd) rfl ⟨rfl, rfl, rfl, rfl, rfl⟩ rfl
  · intro q hq; exact hprim.bmono q (g.bsub q hq)
  · intro q hq; rw [show ({ s1 with peers := setPeer s1.peers p st1 } : St).out = s1.out from rfl, hprim.out] at hq
    exact g.noconn q hq

theorem discAll_good {b0 : List Nat} (sel : List Nat) {s : St} (g : Good b0 s) :
    ∃ f, discAll s sel = some f ∧ Good b0 f := by
  induction sel generalizing s with
  | nil => exact ⟨s, rfl, g⟩
  | cons q qs ih =>
    unfold discAll
    by_cases ht : (s.peers q).isSome = true
    · simp only [ht, if_true]; exact ih g
    · obtain ⟨f1, h1, g1⟩ := onDiscovered_good q g
      simp only [ht, h1]
      exact ih g1

theorem moveDiscovered_good {b0 : List Nat} {s : St} (taken : List Nat) (g : Good b0 s) :
    ∃ f, moveDiscovered s taken = some f ∧ Good b0 f := by
  unfold moveDiscovered
  have ht : s.total ≤ s.cfg.maxPeers := g.inv.sets.limT
  rw [usub_some ht]
  dsimp only
  by_cases hz : s.cfg.maxPeers - s.total = 0
  · simp only [hz, if_true]; exact ⟨s, rfl, g⟩
  · simp only [hz, if_false]
    apply discAll_good
    exact ⟨⟨g.inv.sets.congr ⟨rfl, rfl, rfl, rfl, rfl⟩, g.inv.tags⟩, g.bsub, g.noconn⟩

theorem housekeeping_good {b0 : List Nat} {s : St} (ord taken : List Nat) (g : Good b0 s) :
    ∃ f, housekeeping s ord taken = some f ∧ Good b0 f := by
  unfold housekeeping
  obtain ⟨f1, h1, g1⟩ := hkAll_good ord g
  simp only [h1]
  exact moveDiscovered_good taken g1

theorem inboundMsg_good {b0 : List Nat} {s : St} (p : Nat) (m : Msg) (g : Good b0 s) :
    ∃ f, inboundMsg s p m = some f ∧ Good b0 f := by
  unfold inboundMsg
  cases hp : s.peers p with
  | none => exact ⟨s, rfl, g⟩
  | some st =>
    obtain ⟨s1, st1, hc, hprim⟩ := categorize_prim s p (st.applyMsg m) g.inv.sets
    simp only [hc]
    refine ⟨_, rfl, ?_, ?_, ?_⟩
    · refine attach (st2 := (leiosfetchInbound p (leiosnotifyInbound p (chainsyncInbound p
          (discoveryInbound s1 (handshakeInbound p st1).1).2).1).1).1) g.inv hprim
        (fun hb => by rw [applyMsg_tag]; exact g.inv.tags p st hp hb) ?_
        ((discoveryInbound_core s1 _).trans ⟨rfl, rfl, rfl, rfl, rfl⟩) ?_
      · rw [leiosfetchInbound_tag, leiosnotifyInbound_tag, chainsyncInbound_tag, discoveryInbound_tag,
          handshakeInbound_tag]
      · simp only [discoveryInbound_peers]
    · intro q hq
      have := hprim.bmono q (g.bsub q hq)
      simpa only [(discoveryInbound_core s1 _).banned] using this
    · intro q hq hb
      simp only [discoveryInbound_out, hprim.out, List.mem_append] at hq
      rcases hq with ((((h | h) | h) | h) | h) | h
      · exact g.noconn q h hb
      · exact handshakeInbound_noconn _ _ _ h
      · exact blockfetchInbound_noconn _ _ _ h
      · exact chainsyncInbound_noconn _ _ _ h
      · exact leiosnotifyInbound_noconn _ _ _ h
      · exact leiosfetchInbound_noconn _ _ _ h

theorem inboundAll_good {b0 : List Nat} (p : Nat) (ms : List Msg) {s : St} (g : Good b0 s) :
    ∃ f, inboundAll s p ms = some f ∧ Good b0 f := by
  induction ms generalizing s with
  | nil => exact ⟨s, rfl, g⟩
  | cons m ms ih =>
    obtain ⟨f1, h1, g1⟩ := inboundMsg_good p m g
    simp only [inboundAll, h1]
    exact ih g1

theorem outboundMsg_good {b0 : List Nat} {s : St} (p : Nat) (m : Msg) (g : Good b0 s) :
    Good b0 (outboundMsg s p m) := by
  unfold outboundMsg
  cases hp : s.peers p with
  | none => exact g
  | some st =>
    exact ⟨setPeer_inv g.inv hp (by rw [applyMsg_tag]; exact id) ⟨rfl, rfl, rfl, rfl, rfl⟩ rfl, g.bsub, g.noconn⟩

theorem onConnected_good {b0 : List Nat} {s : St} (p : Nat) (g : Good b0 s) : Good b0 (onConnected s p) := by
  unfold onConnected
  cases hp : s.peers p with
  | none => exact g
  | some st =>
    refine ⟨setPeer_inv (st' := { st with conn := .connected }) g.inv hp id ⟨rfl, rfl, rfl, rfl, rfl⟩ rfl, g.bsub, ?_⟩
    intro q hq
    simp only [List.mem_append] at hq
    rcases hq with h | h
    · exact g.noconn q h
    · exact absurd h (proposeHandshake_noconn _ _ _)

theorem onDisconnected_good {b0 : List Nat} {s : St} (p : Nat) (g : Good b0 s) : Good b0 (onDisconnected s p) := by
  unfold onDisconnected
  cases hp : s.peers p with
  | none => exact g
  | some st =>
    refine ⟨setPeer_inv (st' := st.reset) (f := { leiosfetchPurge s p with peers := setPeer (leiosfetchPurge s p).peers p st.reset })
      g.inv hp ?_ ⟨rfl, rfl, rfl, rfl, rfl⟩ rfl, g.bsub, g.noconn⟩
    intro h; rcases h with e | e <;> simp [Peer.reset] at e

theorem onErrored_good {b0 : List Nat} {s : St} (p : Nat) (g : Good b0 s)
    (hc : ∀ st, s.peers p = some st → st.errorCount + 1 < u32Bound) :
    ∃ f, onErrored s p = some f ∧ Good b0 f := by
  unfold onErrored
  cases hp : s.peers p with
  | none => exact ⟨s, rfl, g⟩
  | some st =>
    simp only [hc st hp, if_true]
    refine ⟨_, rfl, setPeer_inv (st' := { st with conn := .errored, errorCount := st.errorCount + 1 })
      (f := { leiosfetchPurge s p with
                peers := setPeer (leiosfetchPurge s p).peers p { st with conn := .errored, errorCount := st.errorCount + 1 },
                out := (leiosfetchPurge s p).out ++ connectionErrored p { st with conn := .errored, errorCount := st.errorCount + 1 } })
      g.inv hp id ⟨rfl, rfl, rfl, rfl, rfl⟩ rfl, g.bsub, ?_⟩
    intro q hq
    simp only [List.mem_append] at hq
    rcases hq with h | h
    · exact g.noconn q h
    · exact absurd h (connectionErrored_noconn _ _ _)

theorem onTagged_good {b0 : List Nat} {s : St} (p : Nat) (f : Peer → Peer)
    (hf : ∀ st, WH (f st).tag → WH st.tag) (g : Good b0 s) : Good b0 (onTagged s p f) := by
  unfold onTagged
  cases hp : s.peers p with
  | none => exact g
  | some st =>
    dsimp only
    by_cases hb : (f st).tag = .banned ∧ p ∉ s.banned
    · simp only [hb, and_self, if_true]
      have hprim := prim_banPeer s p (f st)
      refine ⟨attach (st2 := (banPeer s p (f st)).2) g.inv hprim
          (fun hb' hw => g.inv.tags p st hp hb' (hf st hw)) rfl ⟨rfl, rfl, rfl, rfl, rfl⟩ rfl, ?_, ?_⟩
      · intro q hq; exact hprim.bmono q (g.bsub q hq)
      · intro q hq
        simp only [List.mem_append] at hq
        rcases hq with h | h
        · exact g.noconn q h
        · exact absurd h (chainsyncTagged_noconn _ _ _)
    · simp only [hb, if_false]
      refine ⟨setPeer_inv (st' := f st) g.inv hp (hf st) ⟨rfl, rfl, rfl, rfl, rfl⟩ rfl, g.bsub, ?_⟩
      intro q hq
      simp only [List.mem_append] at hq
      rcases hq with h | h
      · exact g.noconn q h
      · exact absurd h (chainsyncTagged_noconn _ _ _)

/-- recording a ban for an untracked peer -/
theorem banUntracked_good {b0 : List Nat} {s : St} (p : Nat) (hp : s.peers p = none) (g : Good b0 s) :
    Good b0 (banPeer s p {}).1 := by
  have hprim := prim_banPeer s p {}
  refine ⟨⟨hprim.sets g.inv.sets, ?_⟩, fun q hq => hprim.bmono q (g.bsub q hq), g.noconn⟩
  intro q st hq hb
  rcases hprim.bnew q hb with h | h
  · exact g.inv.tags q st hq h
  · subst h
    rw [show (banPeer s q {}).1.peers = s.peers from rfl, hp] at hq
    cases hq

/-- errors counted so far stay below the `u32` bound for this event -/
def ErrRoom (s : St) (e : Ev) : Prop :=
  ∀ p st, e = .error p → s.peers p = some st → st.errorCount + 1 < u32Bound

theorem good_reset {s : St} (h : Inv s) : Good s.banned { s with out := [] } :=
  ⟨⟨h.sets.congr ⟨rfl, rfl, rfl, rfl, rfl⟩, h.tags⟩, fun _ hq => hq, fun _ hq => by simp at hq⟩

/-- the step theorem: no panic (except `error_count` overflow), invariant kept, bans monotone,
    no `Connect` for a peer that was banned when the event arrived -/
theorem step_good {s : St} (e : Ev) (h : Inv s) (hr : ErrRoom s e) :
    ∃ f, step s e = some f ∧ Good s.banned f := by
  have g := good_reset h
  unfold step
  cases e with
  | includePeer p =>
    dsimp only
    by_cases ht : (s.peers p).isSome = true
    · simp only [ht, if_true]; exact ⟨_, rfl, g⟩
    · simp only [ht]; exact onDiscovered_good p g
  | housekeeping ord taken => exact housekeeping_good ord taken g
  | idle ord taken => exact housekeeping_good ord taken g
  | startSync => exact ⟨_, rfl, ⟨⟨g.inv.sets.congr ⟨rfl, rfl, rfl, rfl, rfl⟩, g.inv.tags⟩, g.bsub, g.noconn⟩⟩
  | continueSync p => exact ⟨_, rfl, onTagged_good p _ (fun _ hw => hw) g⟩
  | requestBlocks r => exact ⟨_, rfl, ⟨⟨g.inv.sets.congr ⟨rfl, rfl, rfl, rfl, rfl⟩, g.inv.tags⟩, g.bsub, g.noconn⟩⟩
  | sendTx => exact ⟨_, rfl, g⟩
  | fetchEb p eb => exact ⟨_, rfl, ⟨⟨g.inv.sets.congr ⟨rfl, rfl, rfl, rfl, rfl⟩, g.inv.tags⟩, g.bsub, g.noconn⟩⟩
  | fetchEbTxs p eb => exact ⟨_, rfl, ⟨⟨g.inv.sets.congr ⟨rfl, rfl, rfl, rfl, rfl⟩, g.inv.tags⟩, g.bsub, g.noconn⟩⟩
  | banPeer p =>
    dsimp only
    refine ⟨_, rfl, onTagged_good p _ (fun _ hw => by rcases hw with e | e <;> simp at e) ?_⟩
    by_cases ht : (s.peers p).isSome = true
    · simp only [ht, if_true]; exact g
    · simp only [ht]
      have hn : s.peers p = none := by
        cases hq : s.peers p with
        | none => rfl
        | some st => rw [hq] at ht; simp at ht
      exact banUntracked_good p hn g
  | demotePeer p => exact ⟨_, rfl, onTagged_good p _ (fun _ hw => by rcases hw with e | e <;> simp at e) g⟩
  | connected p => exact ⟨_, rfl, onConnected_good p g⟩
  | disconnected p => exact ⟨_, rfl, onDisconnected_good p g⟩
  | recv p ms => exact inboundAll_good p ms g
  | sent p m => exact ⟨_, rfl, outboundMsg_good p m g⟩
  | error p => exact onErrored_good p g (fun st hst => hr p st rfl hst)

end PallasVerif.P2P
