import PallasVerif.Proofs.SchemaMain
import PallasVerif.Model.SchemaHand
/-! The hand-modelled leaf codecs satisfy the generic contract. -/
namespace PallasVerif.Schema
open PallasVerif.Cbor

mutual
theorem strip_of_rawFree : ∀ (v : Value), v.rawFree = true → v.strip = v
  | .nat _, _ => by simp [Value.strip]
  | .int _, _ => by simp [Value.strip]
  | .bytes _, _ => by simp [Value.strip]
  | .text _, _ => by simp [Value.strip]
  | .bool _, _ => by simp [Value.strip]
  | .unit, _ => by simp [Value.strip]
  | .none, _ => by simp [Value.strip]
  | .any _, _ => by simp [Value.strip]
  | .list vs, h => by
    simp only [Value.rawFree] at h
    simp [Value.strip, stripList_of_rawFree vs h]
  | .some v, h => by
    simp only [Value.rawFree] at h
    simp [Value.strip, strip_of_rawFree v h]
  | .variant p vs, h => by
    simp only [Value.rawFree] at h
    simp [Value.strip, stripList_of_rawFree vs h]
  | .raw r v, h => by
    simp only [Value.rawFree, Bool.and_eq_true, Option.isNone_iff_eq_none] at h
    obtain ⟨rfl, hv⟩ := h
    simp [Value.strip, strip_of_rawFree v hv]
theorem stripList_of_rawFree : ∀ (vs : List Value), rawFreeList vs = true → stripList vs = vs
  | [], _ => by simp [stripList]
  | x :: xs, h => by
    simp only [rawFreeList, Bool.and_eq_true] at h
    simp [stripList, strip_of_rawFree x h.1, stripList_of_rawFree xs h.2]
end

namespace Hand

theorem cmLookup_unknown (k : Nat) (hk : k < 3) : ∀ (unk : List Value), unk.all cmUnknownKey = true → cmLookup k unk = .none := by
  intro unk
  induction unk with
  | nil => intro _; rfl
  | cons x r ih =>
    intro h
    simp only [List.all_cons, Bool.and_eq_true] at h
    have hx := h.1
    unfold cmUnknownKey at hx
    split at hx
    · rename_i k' cm
      simp only [decide_eq_true_eq] at hx
      have hne : ¬ k' = k := by omega
      simp [cmLookup, hne, ih h.2]
    · simp at hx

theorem filter_unknown (unk : List Value) (h : unk.all cmUnknownKey = true) : unk.filter cmUnknownKey = unk := by
  rw [List.filter_eq_self]
  simpa [List.all_eq_true] using h

theorem isOptVal_cases {a : Value} (h : isOptVal a = true) : a = .none ∨ ∃ x, a = .some x := by
  cases a <;> simp [isOptVal] at h
  · exact Or.inl rfl
  · exact Or.inr ⟨_, rfl⟩

theorem cmSplit_combine (v m : Value) (h : cmCombine v = some m) : cmSplit m = some v := by
  unfold cmCombine at h
  split at h
  · rename_i a b c unk
    split at h
    · rename_i hc
      simp only [Bool.and_eq_true] at hc
      obtain ⟨⟨⟨ha, hb⟩, hcc⟩, hu⟩ := hc
      simp only [Option.some.injEq] at h
      subst h
      have l0 := cmLookup_unknown 0 (by omega) unk hu
      have l1 := cmLookup_unknown 1 (by omega) unk hu
      have l2 := cmLookup_unknown 2 (by omega) unk hu
      have hf := filter_unknown unk hu
      rcases isOptVal_cases ha with rfl | ⟨x, rfl⟩ <;>
      rcases isOptVal_cases hb with rfl | ⟨y, rfl⟩ <;>
      rcases isOptVal_cases hcc with rfl | ⟨z, rfl⟩ <;>
      simp [cmSplit, cmEntry, cmLookup, l0, l1, l2, cmUnknownKey, hf]
    · simp at h
  · simp at h

theorem costModels_good : Good encCostModels decCostModels [.map] False := by
  intro v it hr he
  unfold encCostModels at he
  cases hc : cmCombine v with
  | none => simp [hc] at he
  | some m =>
    simp only [hc] at he
    split at he
    · rename_i hm
      have hg := good_btmap (nrk := True) (nrv := True) (good_uint 64 True (by simp)) trivial
        (good_vec (good_sint 64 True (by simp)))
      obtain ⟨w, t, m', dd, _, nn⟩ := hg m it hm he
      have hmm := nn trivial
      subst hmm
      refine ⟨w, t, v, ?_, strip_of_rawFree v hr, fun f => f.elim⟩
      simp [decCostModels, dd, cmSplit_combine v m' hc]
    · simp at he

theorem customs_good (cs : List Custom) (h : cs = customs) :
    ∀ (i : Nat) (c : Custom), cs[i]? = some c → Good c.enc c.dec c.kinds False := by
  subst h
  intro i c hi
  cases i with
  | zero =>
    simp [customs] at hi
    subst hi
    exact costModels_good
  | succ i => simp [customs] at hi

end Hand
end PallasVerif.Schema
