import PallasVerif.Proofs.SchemaSums
/-! `codec_by_datatype!` -/
namespace PallasVerif.Schema
open PallasVerif.Cbor

theorem findAltByPos_mem : ∀ (alts : List (Nat × List Ty × Schema)) pos s,
    findAltByPos pos alts = some s → ∃ tys, (pos, tys, s) ∈ alts := by
  intro alts
  induction alts with
  | nil => intro pos s h; simp [findAltByPos] at h
  | cons a r ih =>
    intro pos s h
    obtain ⟨p, tys, s'⟩ := a
    simp only [findAltByPos] at h
    split at h
    · rename_i hp
      simp only [Option.some.injEq] at h
      subst hp; subst h
      exact ⟨tys, by simp⟩
    · obtain ⟨tys', hm⟩ := ih pos s h
      exact ⟨tys', by simp [hm]⟩

theorem findAltByTy_first : ∀ (alts : List (Nat × List Ty × Schema)) p tys s t,
    altsDisjoint alts = true → (p, tys, s) ∈ alts → t ∈ tys → findAltByTy t alts = some (p, s) := by
  intro alts
  induction alts with
  | nil => intro p tys s t _ hm _; simp at hm
  | cons a r ih =>
    intro p tys s t hd hm ht
    obtain ⟨p', tys', s'⟩ := a
    simp only [altsDisjoint, Bool.and_eq_true, List.all_eq_true] at hd
    simp only [List.mem_cons] at hm
    simp only [findAltByTy]
    rcases hm with heq | hmem
    · simp only [Prod.mk.injEq] at heq
      obtain ⟨rfl, rfl, rfl⟩ := heq
      simp [ht]
    · have hdis := hd.1 (p, tys, s) hmem
      simp only [disjoint, List.all_eq_true, Bool.not_eq_true', List.contains_eq_mem, decide_eq_false_iff_not] at hdis
      have hnot : ¬ t ∈ tys' := fun h => hdis t h ht
      simp only [List.contains_eq_mem, hnot, decide_false]
      exact ih p tys s t hd.2 hmem ht

theorem byType_one {e : Schema → Value → Option Item} {d : Schema → Item → Option Value}
    {K : Schema → List Ty} {nr : Schema → Prop} (alts : List (Nat × List Ty × Schema))
    (halt : ∀ a, a ∈ alts → Good (e a.2.2) (d a.2.2) (K a.2.2) (nr a.2.2) ∧ (∀ t, t ∈ K a.2.2 → t ∈ a.2.1))
    (hdisj : altsDisjoint alts = true) (pos : Nat) (s : Schema) (x : Value) (it : Item)
    (hf : findAltByPos pos alts = some s) (hr : x.rawFree = true) (he : e s x = some it) :
    it.wf = true ∧ (∃ tys, (pos, tys, s) ∈ alts ∧ typeOf it ∈ tys) ∧
      ∃ x', decByTypeOne d alts it = some (.variant pos [x']) ∧ x'.strip = x ∧ (nr s → x' = x) := by
  obtain ⟨tys, hm⟩ := findAltByPos_mem alts pos s hf
  obtain ⟨hg, hsub⟩ := halt (pos, tys, s) hm
  simp only at hg hsub
  obtain ⟨w, t, x', dd, ss, nn⟩ := hg x it hr he
  have ht := hsub _ t
  have hfind := findAltByTy_first alts pos tys s (typeOf it) hdisj hm ht
  exact ⟨w, ⟨tys, hm, ht⟩, x', by simp [decByTypeOne, hfind, dd], ss, nn⟩

theorem good_byType {e : Schema → Value → Option Item} {d : Schema → Item → Option Value}
    {K : Schema → List Ty} {nr : Schema → Prop} (alts : List (Nat × List Ty × Schema)) (many : Option (Nat × List Schema))
    (halt : ∀ a, a ∈ alts → Good (e a.2.2) (d a.2.2) (K a.2.2) (nr a.2.2) ∧ (∀ t, t ∈ K a.2.2 → t ∈ a.2.1))
    (hdisj : altsDisjoint alts = true)
    (hmany : ∀ mp ms, many = some (mp, ms) →
      ms.length < 2 ^ 64 ∧ (∀ s, s ∈ ms → Good (e s) (d s) (K s) (nr s)) ∧ ∀ a, a ∈ alts → Ty.array ∉ a.2.1) :
    Good (encByType e alts many) (decByType d alts many) (byTypeKinds alts many)
      ((∀ a, a ∈ alts → nr a.2.2) ∧ (∀ mp ms, many = some (mp, ms) → ∀ s, s ∈ ms → nr s)) := by
  intro v it hr he
  cases v <;> simp only [encByType] at he <;> try (simp at he; done)
  case variant pos fields =>
    simp only [Value.rawFree] at hr
    cases many with
    | none =>
      simp only at he
      cases hf : findAltByPos pos alts with
      | none => simp [hf] at he
      | some s =>
        simp only [hf] at he
        cases fields with
        | nil => simp at he
        | cons x r =>
          cases r with
          | cons _ _ => simp at he
          | nil =>
            simp only at he
            have hrx : x.rawFree = true := by simpa [rawFreeList] using hr
            obtain ⟨w, ⟨tys, hm, ht⟩, x', dd, ss, nn⟩ := byType_one alts halt hdisj pos s x it hf hrx he
            refine ⟨w, ?_, .variant pos [x'], by simpa [decByType] using dd, by simp [Value.strip, stripList, ss],
              fun hn => by rw [nn (hn.1 (pos, tys, s) hm)]⟩
            simp only [byTypeKinds, List.mem_append, List.mem_flatMap]
            exact Or.inr ⟨(pos, tys, s), hm, ht⟩
    | some q =>
      obtain ⟨mp, ms⟩ := q
      obtain ⟨hlen, hgm, hnoarr⟩ := hmany mp ms rfl
      simp only at he
      split at he
      · rename_i hp
        subst hp
        simp only [Option.map_eq_some_iff] at he
        obtain ⟨xs, hz, rfl⟩ := he
        obtain ⟨w, l, vs', dd, ss, nn⟩ := zipOpt_good ms hgm fields xs hr hz
        refine ⟨mkArray_wf xs (by omega) w, by simp [byTypeKinds, mkArray_typeOf], .variant mp vs', ?_,
          by simp [Value.strip, ss], fun hn => by rw [nn (hn.2 mp ms rfl)]⟩
        simp [decByType, mkArray_typeOf]
        simp [mkArray, dd]
      · cases hf : findAltByPos pos alts with
        | none => simp [hf] at he
        | some s =>
          simp only [hf] at he
          cases fields with
          | nil => simp at he
          | cons x r =>
            cases r with
            | cons _ _ => simp at he
            | nil =>
              simp only at he
              have hrx : x.rawFree = true := by simpa [rawFreeList] using hr
              obtain ⟨w, ⟨tys, hm, ht⟩, x', dd, ss, nn⟩ := byType_one alts halt hdisj pos s x it hf hrx he
              have hne : typeOf it ≠ .array := fun harr => hnoarr (pos, tys, s) hm (harr ▸ ht)
              refine ⟨w, ?_, .variant pos [x'], by simpa [decByType, hne] using dd, by simp [Value.strip, stripList, ss],
                fun hn => by rw [nn (hn.1 (pos, tys, s) hm)]⟩
              simp only [byTypeKinds, List.mem_append, List.mem_flatMap]
              exact Or.inr ⟨(pos, tys, s), hm, ht⟩

end PallasVerif.Schema
