import PallasVerif.Proofs.NetSkipStep
/-!
`Decoder::skip` is exact on **every** well-formed item whose text strings are UTF-8 — indefinite
arrays and maps at any depth included (`skip_exact`).

The loop state (`nrounds`, `irounds`, stack of `Option<u64>`) is related to the *real* nesting of
what remains to be read: a stack of frames `D xs` (a definite container or the top level: the items
`xs` are still to come) / `I xs` (an indefinite container: `xs`, then a break). minicbor's
bookkeeping is deliberately sloppy — inside an indefinite container it may under-count the items
of the definite containers it is in, because the enclosing indefinite frame absorbs any number of
items until its break. The invariant (`InvN`) therefore compares, group by group (a group = the
definite frames between two indefinite ones), the number of items the state still expects (`t`)
with the number really pending (`c`): `t ≤ c` for every group that has an indefinite frame below
it, `t = c` for the bottom group. Each round of the loop preserves it (`done_step`, `open_def`,
`open_indef`, the break case), and when nothing is pending the state is the terminal one.
-/
namespace PallasVerif.NetCodec
open PallasVerif.Cbor

/-! ### what remains to be read -/

inductive Frame where
  | D (xs : List Item)
  | I (xs : List Item)

def flat : List Frame → Bytes
  | [] => []
  | .D xs :: K => Cbor.encodeList xs ++ flat K
  | .I xs :: K => Cbor.encodeList xs ++ 0xff :: flat K

/-- items pending in the definite frames above the topmost indefinite frame -/
def kHd : List Frame → Nat
  | [] => 0
  | .D xs :: K => xs.length + kHd K
  | .I _ :: _ => 0

/-- the same for each lower group, top first (one entry per indefinite frame) -/
def kTl : List Frame → List Nat
  | [] => []
  | .D _ :: K => kTl K
  | .I _ :: K => kHd K :: kTl K

/-- items the stack still expects in its top group (entries are "after the child in progress") -/
def gHd : List (Option Nat) → Nat
  | [] => 0
  | some k :: v => k + gHd v
  | none :: _ => 0

def gTl : List (Option Nat) → List Nat
  | [] => []
  | some _ :: v => gTl v
  | none :: v => gHd v :: gTl v

/-- the top entry, if it is a count, stands for one more item (the one being read) -/
def topBump : List (Option Nat) → Nat
  | some _ :: _ => 1
  | _ => 0

def AgreeL : Nat → List Nat → Nat → List Nat → Prop
  | c, [], t, [] => t = c
  | c, c' :: cr, t, t' :: tr => t ≤ c ∧ AgreeL c' cr t' tr
  | _, [], _, _ :: _ => False
  | _, _ :: _, _, [] => False

/-- the invariant, on the group counts `c0 :: cr` of the frames -/
def InvN (c0 : Nat) (cr : List Nat) (nr ir : Nat) (st : List (Option Nat)) : Prop :=
  if nr = 0 ∧ ir = 0 then AgreeL c0 cr (gHd st + topBump st) (gTl st)
  else st = [] ∧ AgreeL c0 cr nr (List.replicate ir 0)

theorem gHd_replicate (n : Nat) : gHd (List.replicate n none) = 0 := by
  cases n <;> simp [List.replicate, gHd]

theorem gTl_replicate (n : Nat) : gTl (List.replicate n none) = List.replicate n 0 := by
  induction n with
  | zero => rfl
  | succ n ih => simp [List.replicate, gTl, gHd_replicate, ih]

/-- end of a round in stack mode -/
def bTail (st : List (Option Nat)) : Option (List (Option Nat)) :=
  match popZeros st with
  | some n :: st' => some (some (n - 1) :: st')
  | none :: st' => some (none :: st')
  | [] => none

theorem skipTail_B (st : List (Option Nat)) : skipTail 0 0 st = (bTail st).map fun s => (0, 0, s) := by
  unfold skipTail bTail
  simp only [and_self, if_true]
  split <;> simp_all

theorem bTail_spec : ∀ st : List (Option Nat),
    (bTail st = none ∧ gHd st = 0 ∧ gTl st = []) ∨
    (∃ st1, bTail st = some st1 ∧ gHd st1 + topBump st1 = gHd st ∧ gTl st1 = gTl st)
  | [] => Or.inl ⟨rfl, rfl, rfl⟩
  | none :: r => Or.inr ⟨none :: r, by simp [bTail, popZeros], by simp [gHd, topBump], rfl⟩
  | some 0 :: r => by
    have h : bTail (some 0 :: r) = bTail r := by simp [bTail, popZeros]
    rcases bTail_spec r with ⟨h1, h2, h3⟩ | ⟨st1, h1, h2, h3⟩
    · exact Or.inl ⟨by rw [h, h1], by simp [gHd, h2], by simp [gTl, h3]⟩
    · exact Or.inr ⟨st1, by rw [h, h1], by simp [gHd, h2], by simp [gTl, h3]⟩
  | some (n + 1) :: r => Or.inr ⟨some n :: r, by simp [bTail, popZeros], by simp [gHd, topBump]; omega, rfl⟩

/-- `c0'` = the top group count once the item being read is done: one less in a definite frame,
    still 0 in an indefinite one -/
def After (c0 c0' : Nat) : Prop := c0 = c0' + 1 ∨ (c0 = 0 ∧ c0' = 0)

theorem agree_dec {c0 c0' t : Nat} {cr tr : List Nat} (ha : After c0 c0') (h : AgreeL c0 cr t tr) (ht : 1 ≤ t) :
    AgreeL c0' cr (t - 1) tr := by
  cases cr <;> cases tr <;> simp only [AgreeL] at h ⊢
  · rcases ha with ha | ha <;> omega
  · rcases ha with ha | ha
    · exact ⟨by omega, h.2⟩
    · exact ⟨by omega, h.2⟩

/-! ### an item is complete -/

theorem done_step {c0 c0' : Nat} {cr : List Nat} {nr ir : Nat} {st : List (Option Nat)} (ha : After c0 c0')
    (h : InvN c0 cr nr ir st) :
    (skipTail nr ir st = none ∧ c0' = 0 ∧ cr = []) ∨
    (∃ nr' ir' st', skipTail nr ir st = some (nr', ir', st') ∧ InvN c0' cr nr' ir' st') := by
  unfold InvN at h
  by_cases hm : nr = 0 ∧ ir = 0
  · simp only [hm, and_self, if_true] at h
    obtain ⟨rfl, rfl⟩ := hm
    rw [skipTail_B]
    cases st with
    | nil =>
      simp only [gHd, topBump, gTl] at h
      cases cr <;> simp only [AgreeL] at h
      left
      refine ⟨by simp [bTail, popZeros], ?_, rfl⟩
      rcases ha with ha | ha <;> omega
    | cons e st0 =>
      cases e with
      | none =>
        right
        refine ⟨0, 0, none :: st0, by simp [bTail, popZeros], ?_⟩
        simp only [InvN, and_self, if_true, gHd, topBump, gTl] at h ⊢
        cases cr <;> simp only [AgreeL] at h ⊢
        exact ⟨by omega, h.2⟩
      | some k =>
        simp only [gHd, topBump, gTl] at h
        have hdec := agree_dec ha h (by omega)
        cases k with
        | succ k =>
          right
          refine ⟨0, 0, some k :: st0, by simp [bTail, popZeros], ?_⟩
          simp only [InvN, and_self, if_true, gHd, topBump, gTl]
          have e : k + 1 + gHd st0 + 1 - 1 = k + gHd st0 + 1 := by omega
          rw [e] at hdec; exact hdec
        | zero =>
          have hb : bTail (some 0 :: st0) = bTail st0 := by simp [bTail, popZeros]
          have e : 0 + gHd st0 + 1 - 1 = gHd st0 := by omega
          rw [e] at hdec
          rcases bTail_spec st0 with ⟨h1, h2, h3⟩ | ⟨st1, h1, h2, h3⟩
          · left
            rw [h2, h3] at hdec
            cases cr <;> simp only [AgreeL] at hdec
            exact ⟨by rw [hb, h1]; rfl, by omega, rfl⟩
          · right
            refine ⟨0, 0, st1, by rw [hb, h1]; rfl, ?_⟩
            simp only [InvN, and_self, if_true, h2, h3]
            exact hdec
  · simp only [hm, if_false] at h
    obtain ⟨rfl, h⟩ := h
    right
    refine ⟨nr - 1, ir, [], by simp [skipTail, hm], ?_⟩
    unfold InvN
    by_cases hm' : nr - 1 = 0 ∧ ir = 0
    · simp only [hm', and_self, if_true, gHd, topBump, gTl]
      obtain ⟨h1, rfl⟩ := hm'
      simp only [List.replicate] at h
      cases cr <;> simp only [AgreeL] at h ⊢
      rcases ha with ha | ha <;> omega
    · simp only [hm', if_false, true_and]
      by_cases h1 : 1 ≤ nr
      · exact agree_dec ha h h1
      · have : nr = 0 := by omega
        subst this
        cases cr <;> cases hr : List.replicate ir 0 <;> rw [hr] at h <;> simp only [AgreeL] at h ⊢
        · rcases ha with ha | ha <;> omega
        · exact ⟨by omega, h.2⟩

/-! ### a definite container with `n ≥ 1` items opens -/

theorem open_def {c0 c0' : Nat} {cr : List Nat} {nr ir : Nat} {st : List (Option Nat)} (n : Nat) (hn : 1 ≤ n)
    (ha : After c0 c0') (h : InvN c0 cr nr ir st) (hsat : c0 + n ≤ U64MAX) :
    ∃ nr' ir' st', skipTail (skipOpen (some n) nr ir st).1 (skipOpen (some n) nr ir st).2.1 (skipOpen (some n) nr ir st).2.2 =
      some (nr', ir', st') ∧ InvN (n + c0') cr nr' ir' st' := by
  obtain ⟨n, rfl⟩ : ∃ k, n = k + 1 := ⟨n - 1, by omega⟩
  unfold InvN at h
  by_cases hm : nr = 0 ∧ ir = 0
  · simp only [hm, and_self, if_true] at h
    obtain ⟨rfl, rfl⟩ := hm
    refine ⟨0, 0, some n :: st, by simp [skipOpen, skipTail_B, bTail, popZeros], ?_⟩
    simp only [InvN, and_self, if_true, gHd, topBump, gTl]
    cases st with
    | nil =>
      simp only [gHd, topBump, gTl] at h ⊢
      cases cr <;> simp only [AgreeL] at h ⊢
      rcases ha with ha | ha <;> omega
    | cons e st0 =>
      cases e with
      | none =>
        simp only [gHd, topBump, gTl] at h ⊢
        cases cr <;> simp only [AgreeL] at h ⊢
        exact ⟨by omega, h.2⟩
      | some k =>
        simp only [gHd, topBump, gTl] at h ⊢
        cases cr <;> cases hg : gTl st0 <;> rw [hg] at h <;> simp only [AgreeL] at h ⊢
        · rcases ha with ha | ha <;> omega
        · rcases ha with ha | ha
          · exact ⟨by omega, h.2⟩
          · omega
  · simp only [hm, if_false] at h
    obtain ⟨rfl, h⟩ := h
    have hle : nr ≤ c0 := by
      cases cr <;> cases hr : List.replicate ir 0 <;> rw [hr] at h <;> simp only [AgreeL] at h <;> omega
    have hsat' : satAdd nr (n + 1) = nr + (n + 1) := by unfold satAdd; rw [if_neg (by omega)]
    refine ⟨nr + (n + 1) - 1, ir, [], by simp [skipOpen, hm, hsat', skipTail], ?_⟩
    unfold InvN
    have hm' : ¬ (nr + (n + 1) - 1 = 0 ∧ ir = 0) := by omega
    simp only [hm', if_false, true_and]
    cases cr <;> cases hr : List.replicate ir 0 <;> rw [hr] at h <;> simp only [AgreeL] at h ⊢
    · have : ir = 0 := by cases ir <;> simp_all [List.replicate]
      rcases ha with ha | ha <;> omega
    · rcases ha with ha | ha
      · exact ⟨by omega, h.2⟩
      · exact ⟨by omega, h.2⟩

/-! ### an indefinite container opens -/

theorem open_indef {c0 c0' : Nat} {cr : List Nat} {nr ir : Nat} {st : List (Option Nat)}
    (ha : After c0 c0') (h : InvN c0 cr nr ir st) (hsat : ir + 1 ≤ U64MAX) :
    ∃ nr' ir' st', skipTail (skipOpen none nr ir st).1 (skipOpen none nr ir st).2.1 (skipOpen none nr ir st).2.2 =
      some (nr', ir', st') ∧ InvN 0 (c0' :: cr) nr' ir' st' := by
  unfold InvN at h
  by_cases hm : nr = 0 ∧ ir = 0
  · simp only [hm, and_self, if_true] at h
    obtain ⟨rfl, rfl⟩ := hm
    refine ⟨0, 0, none :: st, by simp [skipOpen, skipTail_B, bTail, popZeros], ?_⟩
    simp only [InvN, and_self, if_true, gHd, topBump, gTl, AgreeL, Nat.le_refl, true_and, Nat.add_zero]
    cases st with
    | nil =>
      simp only [gHd, topBump, gTl] at h ⊢
      cases cr <;> simp only [AgreeL] at h ⊢
      rcases ha with ha | ha <;> omega
    | cons e st0 =>
      cases e with
      | none =>
        simp only [gHd, topBump, gTl] at h ⊢
        cases cr <;> simp only [AgreeL] at h ⊢
        exact ⟨by omega, h.2⟩
      | some k =>
        simp only [gHd, topBump, gTl] at h ⊢
        cases cr <;> cases hg : gTl st0 <;> rw [hg] at h <;> simp only [AgreeL] at h ⊢
        · rcases ha with ha | ha <;> omega
        · rcases ha with ha | ha
          · exact ⟨by omega, h.2⟩
          · omega
  · simp only [hm, if_false] at h
    obtain ⟨rfl, h⟩ := h
    by_cases h2 : nr < 2
    · have hsat' : satAdd ir 1 = ir + 1 := by unfold satAdd; rw [if_neg (by omega)]
      refine ⟨nr - 1, ir + 1, [], by simp [skipOpen, hm, h2, hsat', skipTail], ?_⟩
      unfold InvN
      have hm' : ¬ (nr - 1 = 0 ∧ ir + 1 = 0) := by omega
      simp only [hm', if_false, true_and, List.replicate, AgreeL]
      refine ⟨by omega, ?_⟩
      cases cr <;> cases hr : List.replicate ir 0 <;> rw [hr] at h <;> simp only [AgreeL] at h ⊢
      · have : ir = 0 := by cases ir <;> simp_all [List.replicate]
        rcases ha with ha | ha <;> omega
      · exact ⟨by omega, h.2⟩
    · refine ⟨0, 0, none :: some (nr - 1) :: (List.replicate ir none ++ []), ?_, ?_⟩
      · simp [skipOpen, hm, h2, skipTail_B, bTail, popZeros]
      · simp only [InvN, and_self, if_true, gHd, topBump, gTl, List.append_nil, gHd_replicate, gTl_replicate, AgreeL,
          Nat.le_refl, true_and, Nat.add_zero]
        have h1 : 1 ≤ nr := by omega
        exact agree_dec ha h h1

/-! ### the frames and the weight that decreases -/

mutual
/-- text strings are UTF-8 everywhere (`skip` validates them) -/
def utf8Ok : Item → Bool
  | .atom _ => true
  | .str h bs => decide (h.major ≠ 3) || utf8Valid bs
  | .strIndef m cs => chunkTextOk m cs
  | .seq _ xs => utf8OkList xs
  | .seqIndef _ xs => utf8OkList xs
  | .tag _ i => utf8Ok i
def utf8OkList : List Item → Bool
  | [] => true
  | x :: xs => utf8Ok x && utf8OkList xs
end

def frameItems : Frame → List Item
  | .D xs => xs
  | .I xs => xs

def framesOk : List Frame → Bool
  | [] => true
  | f :: K => Cbor.wfList (frameItems f) && utf8OkList (frameItems f) && framesOk K

def weight : List Frame → Nat
  | [] => 0
  | f :: K => 2 * headsList (frameItems f) + 1 + weight K

theorem flat_nil_of_done : ∀ K : List Frame, kHd K = 0 → kTl K = [] → flat K = []
  | [], _, _ => rfl
  | .D xs :: K, h1, h2 => by
    simp only [kHd, kTl] at h1 h2
    have : xs = [] := List.eq_nil_of_length_eq_zero (by omega)
    subst this
    simp [flat, Cbor.encodeList, flat_nil_of_done K (by omega) h2]
  | .I _ :: K, _, h2 => by simp [kTl] at h2

theorem kHd_le_weight : ∀ K : List Frame, kHd K + (kTl K).length ≤ weight K
  | [] => by simp [kHd, kTl, weight]
  | .D xs :: K => by
    have := kHd_le_weight K
    have := length_le_headsList xs
    simp only [kHd, kTl, weight, frameItems]; omega
  | .I xs :: K => by
    have := kHd_le_weight K
    simp only [kHd, kTl, weight, frameItems, List.length_cons]; omega

theorem agree_len {c t : Nat} {cr tr : List Nat} (h : AgreeL c cr t tr) : cr.length = tr.length := by
  induction cr generalizing c t tr with
  | nil => cases tr <;> simp_all [AgreeL]
  | cons c' cr ih =>
    cases tr with
    | nil => simp [AgreeL] at h
    | cons t' tr => simp only [AgreeL] at h; simp [ih h.2]

theorem inv_ir_le {c0 : Nat} {cr : List Nat} {nr ir : Nat} {st : List (Option Nat)} (h : InvN c0 cr nr ir st) : ir ≤ cr.length := by
  unfold InvN at h
  split at h
  · omega
  · have := agree_len h.2; simp at this; omega

theorem inv_nr_le {c0 : Nat} {cr : List Nat} {nr ir : Nat} {st : List (Option Nat)} (h : InvN c0 cr nr ir st) : nr ≤ c0 := by
  unfold InvN at h
  split at h
  · omega
  · obtain ⟨_, h⟩ := h
    cases cr <;> cases hr : List.replicate ir 0 <;> rw [hr] at h <;> simp only [AgreeL] at h <;> omega

/-- the state is not terminal while something is pending -/
theorem inv_busy {c0 : Nat} {cr : List Nat} {nr ir : Nat} {st : List (Option Nat)} (h : InvN c0 cr nr ir st)
    (hp : 1 ≤ c0 ∨ cr ≠ []) : Busy nr ir st := by
  intro ⟨h1, h2, h3⟩
  subst h1 h2
  have : st = [] := by cases st <;> simp_all
  subst this
  simp only [InvN, and_self, if_true, gHd, topBump, gTl] at h
  cases cr <;> simp only [AgreeL] at h
  rcases hp with hp | hp
  · omega
  · exact hp rfl

/-! ### one item at the head of the input -/

theorem item_step (x : Item) (hwx : x.wf = true) (htx : utf8Ok x = true) (f nr ir : Nat) (st : List (Option Nat))
    (rest r : Bytes) (c0 c0' : Nat) (cr : List Nat) (ha : After c0 c0') (hinv : InvN c0 cr nr ir st) (hbusy : Busy nr ir st)
    (hsat : c0 + heads x ≤ U64MAX) (hsat2 : cr.length + 1 ≤ U64MAX)
    (kDone : ∀ nr' ir' st', InvN c0' cr nr' ir' st' → skipLoop f nr' ir' st' rest = .ok () r)
    (kDoneT : c0' = 0 → cr = [] → rest = r)
    (kTag : ∀ h i, x = .tag h i → skipLoop f nr ir st (i.encode ++ rest) = .ok () r)
    (kDef : ∀ h ys, x = .seq h ys → 1 ≤ ys.length → ∀ nr' ir' st', InvN (ys.length + c0') cr nr' ir' st' →
      skipLoop f nr' ir' st' (Cbor.encodeList ys ++ rest) = .ok () r)
    (kIndef : ∀ m ys, x = .seqIndef m ys → ∀ nr' ir' st', InvN 0 (c0' :: cr) nr' ir' st' →
      skipLoop f nr' ir' st' (Cbor.encodeList ys ++ 0xff :: rest) = .ok () r) :
    skipLoop (f + 1) nr ir st (x.encode ++ rest) = .ok () r := by
  have fin : nextS f nr ir st rest = .ok () r := by
    unfold nextS
    rcases done_step ha hinv with ⟨h1, h2, h3⟩ | ⟨nr', ir', st', h1, h2⟩
    · rw [h1]; simp only []; rw [kDoneT h2 h3]
    · rw [h1]; exact kDone _ _ _ h2
  cases x with
  | atom h => rw [step_atom h hwx f nr ir st rest hbusy]; exact fin
  | str h bs =>
    simp only [utf8Ok, Bool.or_eq_true, decide_eq_true_eq] at htx
    rw [step_str h bs hwx htx f nr ir st rest hbusy]; exact fin
  | strIndef m cs =>
    simp only [utf8Ok] at htx
    rw [step_strIndef m cs hwx htx f nr ir st rest hbusy]; exact fin
  | tag h i => rw [step_tag h i hwx f nr ir st rest hbusy]; exact kTag h i rfl
  | seq h ys =>
    have hl := length_le_headsList ys
    simp only [heads] at hsat
    rw [step_seq h ys hwx (by omega) f nr ir st rest hbusy]
    cases hys : ys.length with
    | zero =>
      have : ys = [] := List.eq_nil_of_length_eq_zero hys
      subst this
      simp only [skipOpen, Cbor.encodeList, List.nil_append]
      exact fin
    | succ k =>
      obtain ⟨nr', ir', st', h1, h2⟩ := open_def (k + 1) (by omega) ha hinv (by omega)
      unfold nextS
      rw [h1]
      exact kDef h ys rfl (by omega) _ _ _ (by rw [hys]; exact h2)
  | seqIndef m ys =>
    have hm : m = 4 ∨ m = 5 := by
      simp only [Item.wf, Bool.and_eq_true, Bool.or_eq_true, decide_eq_true_eq] at hwx
      exact hwx.1.1
    rw [step_seqIndef m ys hm f nr ir st rest hbusy]
    have := inv_ir_le hinv
    obtain ⟨nr', ir', st', h1, h2⟩ := open_indef ha hinv (by omega)
    unfold nextS
    rw [h1]
    exact kIndef m ys rfl _ _ _ h2

/-! ### the loop on a stack of frames -/

theorem heads_children_le (x : Item) : ∀ h ys, x = .seq h ys → headsList ys + 1 = heads x := by
  intro h ys e; subst e; simp [heads]; omega

/-- the frame on top, of either kind -/
def mkF (d : Bool) (xs : List Item) : Frame := if d then .D xs else .I xs

/-- the statement proved by induction on the weight -/
def SkipsAll (n : Nat) : Prop :=
  ∀ (K : List Frame) (nr ir : Nat) (st : List (Option Nat)) (r : Bytes) (fuel : Nat),
    weight K = n → framesOk K = true → InvN (kHd K) (kTl K) nr ir st → weight K < U64MAX → (flat K ++ r).length < fuel →
    skipLoop fuel nr ir st (flat K ++ r) = .ok () r

theorem flat_mkF (d : Bool) (x : Item) (xs : List Item) (K0 : List Frame) (r : Bytes) :
    flat (mkF d (x :: xs) :: K0) ++ r = x.encode ++ (flat (mkF d xs :: K0) ++ r) := by
  cases d <;> simp [mkF, flat, Cbor.encodeList]

theorem kTl_mkF (d : Bool) (xs ys : List Item) (K0 : List Frame) : kTl (mkF d xs :: K0) = kTl (mkF d ys :: K0) := by
  cases d <;> simp [mkF, kTl]

theorem after_mkF (d : Bool) (x : Item) (xs : List Item) (K0 : List Frame) :
    After (kHd (mkF d (x :: xs) :: K0)) (kHd (mkF d xs :: K0)) := by
  cases d
  · right; simp [mkF, kHd]
  · left; simp [mkF, kHd]; omega

theorem pending_mkF (d : Bool) (x : Item) (xs : List Item) (K0 : List Frame) :
    1 ≤ kHd (mkF d (x :: xs) :: K0) ∨ kTl (mkF d (x :: xs) :: K0) ≠ [] := by
  cases d
  · right; simp [mkF, kTl]
  · left; simp [mkF, kHd]; omega

theorem weight_mkF (d : Bool) (xs : List Item) (K0 : List Frame) : weight (mkF d xs :: K0) = 2 * headsList xs + 1 + weight K0 := by
  cases d <;> simp [mkF, weight, frameItems]

theorem framesOk_mkF (d : Bool) (xs : List Item) (K0 : List Frame) :
    framesOk (mkF d xs :: K0) = (Cbor.wfList xs && utf8OkList xs && framesOk K0) := by
  cases d <;> simp [mkF, framesOk, frameItems]

theorem kHd_mkF_le (d : Bool) (xs : List Item) (K0 : List Frame) : kHd (mkF d xs :: K0) ≤ xs.length + kHd K0 := by
  cases d <;> simp [mkF, kHd]

theorem kHd_same_len (d : Bool) (xs ys : List Item) (K0 : List Frame) (h : xs.length = ys.length) :
    kHd (mkF d xs :: K0) = kHd (mkF d ys :: K0) := by
  cases d <;> simp [mkF, kHd, h]

/-- an item at the head of the top frame -/
theorem top_item (n : Nat) (ih : ∀ m, m < n → SkipsAll m) (d : Bool) (x : Item) (xs : List Item) (K0 : List Frame)
    (nr ir : Nat) (st : List (Option Nat)) (r : Bytes) (fuel : Nat)
    (hn : weight (mkF d (x :: xs) :: K0) = n) (hok : framesOk (mkF d (x :: xs) :: K0) = true)
    (hinv : InvN (kHd (mkF d (x :: xs) :: K0)) (kTl (mkF d (x :: xs) :: K0)) nr ir st)
    (hw : weight (mkF d (x :: xs) :: K0) < U64MAX) (hf : (flat (mkF d (x :: xs) :: K0) ++ r).length < fuel) :
    skipLoop fuel nr ir st (flat (mkF d (x :: xs) :: K0) ++ r) = .ok () r := by
  rw [framesOk_mkF] at hok
  simp only [Cbor.wfList, utf8OkList, Bool.and_eq_true] at hok
  obtain ⟨⟨⟨hwx, hwxs⟩, htx, htxs⟩, hok0⟩ := hok
  have hkw := kHd_le_weight K0
  have hlx := length_le_headsList xs
  have hpx := heads_pos x
  rw [weight_mkF] at hn hw
  simp only [headsList] at hn hw
  have hkx := kHd_mkF_le d (x :: xs) K0
  simp only [List.length_cons] at hkx
  cases fuel with
  | zero => omega
  | succ f =>
    rw [flat_mkF] at hf ⊢
    have hlen := heads_le_length x
    simp only [List.length_append] at hf
    have hcr : kTl (mkF d (x :: xs) :: K0) = kTl (mkF d xs :: K0) := kTl_mkF d _ _ K0
    have hcrlen : (kTl (mkF d xs :: K0)).length ≤ (kTl K0).length + 1 := by cases d <;> simp [mkF, kTl]
    rw [hcr] at hinv
    have hbusy : Busy nr ir st := inv_busy hinv (by have := pending_mkF d x xs K0; rw [hcr] at this; exact this)
    refine item_step x hwx htx f nr ir st (flat (mkF d xs :: K0) ++ r) r _ (kHd (mkF d xs :: K0)) _ (after_mkF d x xs K0) hinv hbusy
      (by omega) (by omega) ?_ ?_ ?_ ?_ ?_
    · -- the item is complete
      intro nr' ir' st' h'
      have hwK : weight (mkF d xs :: K0) = 2 * headsList xs + 1 + weight K0 := weight_mkF d xs K0
      exact ih (weight (mkF d xs :: K0)) (by omega) (mkF d xs :: K0) nr' ir' st' r f rfl
        (by rw [framesOk_mkF]; simp [hwxs, htxs, hok0]) h' (by omega) (by simp only [List.length_append]; omega)
    · intro h1 h2
      rw [flat_nil_of_done (mkF d xs :: K0) h1 h2]; rfl
    · -- a tag: its content takes the place of the tagged item
      intro h i e
      subst e
      simp only [Item.wf, Bool.and_eq_true, decide_eq_true_eq] at hwx
      simp only [utf8Ok] at htx
      simp only [heads] at hn hw hpx hlen
      have hflat := flat_mkF d i xs K0 r
      rw [← hflat]
      have hinv' : InvN (kHd (mkF d (i :: xs) :: K0)) (kTl (mkF d (i :: xs) :: K0)) nr ir st := by
        rw [kTl_mkF d (i :: xs) xs K0, kHd_same_len d (i :: xs) (Item.tag h i :: xs) K0 (by simp)]; exact hinv
      have hwK : weight (mkF d (i :: xs) :: K0) = 2 * (heads i + headsList xs) + 1 + weight K0 := by
        rw [weight_mkF]; simp only [headsList]
      have hhd := Head.encode_length_pos h
      exact ih (weight (mkF d (i :: xs) :: K0)) (by omega) (mkF d (i :: xs) :: K0) nr ir st r f rfl
        (by rw [framesOk_mkF]; simp [Cbor.wfList, utf8OkList, hwx.2, htx, hwxs, htxs, hok0]) hinv' (by omega)
        (by rw [hflat]; simp only [List.length_append, Item.encode] at hf ⊢; omega)
    · -- a definite container: its items form a new frame on top
      intro h ys e hy1 nr' ir' st' h'
      subst e
      simp only [Item.wf, Bool.and_eq_true, decide_eq_true_eq] at hwx
      simp only [utf8Ok] at htx
      simp only [heads] at hn hw hpx hlen
      have hflat : flat (Frame.D ys :: mkF d xs :: K0) ++ r = Cbor.encodeList ys ++ (flat (mkF d xs :: K0) ++ r) := by
        simp [flat]
      rw [← hflat]
      have hwK : weight (Frame.D ys :: mkF d xs :: K0) = 2 * headsList ys + 1 + (2 * headsList xs + 1 + weight K0) := by
        rw [← weight_mkF d xs K0]; rfl
      have hokK : framesOk (Frame.D ys :: mkF d xs :: K0) = true := by
        have : framesOk (Frame.D ys :: mkF d xs :: K0) = (Cbor.wfList ys && utf8OkList ys && framesOk (mkF d xs :: K0)) := rfl
        rw [this, framesOk_mkF]; simp [hwx.2, htx, hwxs, htxs, hok0]
      have hhd := Head.encode_length_pos h
      exact ih (weight (Frame.D ys :: mkF d xs :: K0)) (by omega) (Frame.D ys :: mkF d xs :: K0) nr' ir' st' r f rfl hokK
        (by simpa [kHd, kTl] using h') (by omega)
        (by rw [hflat]; simp only [List.length_append, Item.encode] at hf ⊢; omega)
    · -- an indefinite container: a new indefinite frame on top
      intro m ys e nr' ir' st' h'
      subst e
      simp only [Item.wf, Bool.and_eq_true, decide_eq_true_eq] at hwx
      simp only [utf8Ok] at htx
      simp only [heads] at hn hw hpx hlen
      have hflat : flat (Frame.I ys :: mkF d xs :: K0) ++ r = Cbor.encodeList ys ++ 0xff :: (flat (mkF d xs :: K0) ++ r) := by
        simp [flat]
      rw [← hflat]
      have hwK : weight (Frame.I ys :: mkF d xs :: K0) = 2 * headsList ys + 1 + (2 * headsList xs + 1 + weight K0) := by
        rw [← weight_mkF d xs K0]; rfl
      have hokK : framesOk (Frame.I ys :: mkF d xs :: K0) = true := by
        have : framesOk (Frame.I ys :: mkF d xs :: K0) = (Cbor.wfList ys && utf8OkList ys && framesOk (mkF d xs :: K0)) := rfl
        rw [this, framesOk_mkF]; simp [hwx.2, htx, hwxs, htxs, hok0]
      exact ih (weight (Frame.I ys :: mkF d xs :: K0)) (by omega) (Frame.I ys :: mkF d xs :: K0) nr' ir' st' r f rfl hokK
        (by simpa [kHd, kTl] using h') (by omega)
        (by rw [hflat]; simp only [List.length_append, List.length_cons, Item.encode] at hf ⊢; omega)

theorem skipLoop_frames : ∀ n, SkipsAll n := by
  intro n
  induction n using Nat.strongRecOn with
  | _ n ih =>
    intro K nr ir st r fuel hn hok hinv hw hf
    cases K with
    | nil =>
      -- nothing pending: the state is the terminal one
      have hterm : nr = 0 ∧ ir = 0 ∧ st = [] := by
        unfold InvN at hinv
        simp only [kHd, kTl] at hinv
        split at hinv
        · rename_i hm
          refine ⟨hm.1, hm.2, ?_⟩
          cases st with
          | nil => rfl
          | cons e st0 =>
            cases e with
            | none => simp [gTl, AgreeL] at hinv
            | some k => cases hg : gTl (some k :: st0) <;> rw [hg] at hinv <;> simp [AgreeL, topBump] at hinv
        · rename_i hm
          obtain ⟨_, h⟩ := hinv
          cases hr : List.replicate ir 0 <;> rw [hr] at h <;> simp only [AgreeL] at h
          have : ir = 0 := by cases ir <;> simp_all [List.replicate]
          exact absurd ⟨h, this⟩ hm
      obtain ⟨rfl, rfl, rfl⟩ := hterm
      cases fuel with
      | zero => omega
      | succ f => simp [skipLoop, flat]
    | cons F K0 =>
      have hok0 : framesOk K0 = true := by simp only [framesOk, Bool.and_eq_true] at hok; exact hok.2
      cases F with
      | D xs =>
        cases xs with
        | nil =>
          -- an exhausted definite frame produces no bytes
          have : flat (Frame.D [] :: K0) = flat K0 := by simp [flat, Cbor.encodeList]
          rw [this] at hf ⊢
          simp only [weight, frameItems, headsList] at hn hw
          exact ih (weight K0) (by omega) K0 nr ir st r fuel rfl hok0 (by simpa [kHd, kTl] using hinv) (by omega) hf
        | cons x xs => exact top_item n ih true x xs K0 nr ir st r fuel hn hok hinv hw hf
      | I xs =>
        cases xs with
        | cons x xs => exact top_item n ih false x xs K0 nr ir st r fuel hn hok hinv hw hf
        | nil =>
          -- the break that closes the indefinite frame on top
          have hflat : flat (Frame.I [] :: K0) ++ r = 0xff :: (flat K0 ++ r) := by simp [flat, Cbor.encodeList]
          rw [hflat] at hf ⊢
          simp only [weight, frameItems, headsList] at hn hw
          simp only [kHd, kTl] at hinv
          have hbusy : Busy nr ir st := inv_busy hinv (Or.inr (by simp))
          cases fuel with
          | zero => omega
          | succ f =>
            simp only [List.length_cons] at hf
            rw [step_break f nr ir st _ hbusy]
            have cont : ∀ nr' ir' st', InvN (kHd K0) (kTl K0) nr' ir' st' → skipLoop f nr' ir' st' (flat K0 ++ r) = .ok () r :=
              fun nr' ir' st' h' => ih (weight K0) (by omega) K0 nr' ir' st' r f rfl hok0 h' (by omega) (by omega)
            unfold InvN at hinv
            by_cases hm : nr = 0 ∧ ir = 0
            · simp only [hm, and_self, if_true] at hinv ⊢
              obtain ⟨rfl, rfl⟩ := hm
              cases st with
              | nil => simp [gTl, AgreeL] at hinv
              | cons e st0 =>
                cases e with
                | some k => simp only [gHd, topBump, gTl] at hinv; cases hg : gTl st0 <;> rw [hg] at hinv <;> simp only [AgreeL] at hinv; omega
                | none =>
                  simp only [gHd, topBump, gTl, AgreeL] at hinv
                  simp only [popNone]
                  unfold nextS
                  rw [skipTail_B]
                  rcases bTail_spec st0 with ⟨h1, h2, h3⟩ | ⟨st1, h1, h2, h3⟩
                  · rw [h1]
                    rw [h2, h3] at hinv
                    cases hk : kTl K0 <;> rw [hk] at hinv <;> simp only [AgreeL] at hinv
                    · simp only [Option.map_none]
                      rw [flat_nil_of_done K0 (by omega) hk]; rfl
                    · exact absurd hinv.2 (by simp)
                  · rw [h1]
                    simp only [Option.map_some]
                    exact cont 0 0 st1 (by simp only [InvN, and_self, if_true, h2, h3]; exact hinv.2)
            · simp only [hm, if_false] at hinv ⊢
              obtain ⟨rfl, hinv⟩ := hinv
              cases ir with
              | zero => simp [List.replicate, AgreeL] at hinv
              | succ ir' =>
                simp only [List.replicate, AgreeL] at hinv
                obtain ⟨hnr, hrest⟩ := hinv
                have : nr = 0 := by omega
                subst this
                simp only [Nat.add_sub_cancel]
                unfold nextS
                cases ir' with
                | zero =>
                  simp only [List.replicate] at hrest
                  cases hk : kTl K0 <;> rw [hk] at hrest <;> simp only [AgreeL] at hrest
                  have : skipTail 0 0 [] = none := by simp [skipTail_B, bTail, popZeros]
                  rw [this]
                  simp only []
                  rw [flat_nil_of_done K0 (by omega) hk]; rfl
                | succ ir'' =>
                  have : skipTail 0 (ir'' + 1) [] = some (0, ir'' + 1, []) := by simp [skipTail]
                  rw [this]
                  exact cont 0 (ir'' + 1) [] (by unfold InvN; simp only [Nat.add_eq_zero_iff, Nat.one_ne_zero, and_false, if_false, true_and]; exact hrest)

/-- **`Decoder::skip` is exact** on every well-formed item with UTF-8 text (shorter than `2^62`
    bytes, as any slice is): it consumes the item — indefinite arrays and maps at any depth
    included — and nothing else, whatever follows. -/
theorem skip_exact (i : Item) (hw : i.wf = true) (ht : utf8Ok i = true) (hlen : i.encode.length < 2 ^ 62) : SkipExact i.encode := by
  intro r
  have hl := heads_le_length i
  have := skipLoop_frames (weight [Frame.D [i]]) [Frame.D [i]] 1 0 [] r ((i.encode ++ r).length + 1) rfl
    (by simp [framesOk, frameItems, Cbor.wfList, utf8OkList, hw, ht])
    (by simp [InvN, kHd, kTl, AgreeL])
    (by simp only [weight, frameItems, headsList]; unfold U64MAX; omega)
    (by simp [flat, Cbor.encodeList])
  simpa [skip, flat, Cbor.encodeList] using this

end PallasVerif.NetCodec
