import PallasVerif.Model.P2PResponder
/-! The responder model only panics on counter overflow, and every counter is bounded by the number
    of events handled so far. -/
namespace PallasVerif.P2P

structure RBound (n : Nat) (s : RSt) : Prop where
  perIp : ∀ h, s.perIp h ≤ n
  active : s.active ≤ n
  err : ∀ p st, s.peers p = some st → st.errorCount ≤ n

theorem RBound.mono {n m : Nat} {s : RSt} (h : RBound n s) (hnm : n ≤ m) : RBound m s :=
  ⟨fun k => Nat.le_trans (h.perIp k) hnm, Nat.le_trans h.active hnm,
   fun p st hp => Nat.le_trans (h.err p st hp) hnm⟩

theorem rApplyMsg_err (st : RPeer) (m : Msg) : (st.applyMsg m).errorCount = st.errorCount := by
  cases m <;> simp only [RPeer.applyMsg] <;> split <;> rfl

theorem rHandshakeInbound_err (s : RSt) (p : Nat) (st : RPeer) :
    (rHandshakeInbound s p st).1.errorCount = st.errorCount := by
  unfold rHandshakeInbound
  split
  · split
    · split <;> rfl
    · rfl
  · rfl

theorem setRPeer_err {n : Nat} {f : Nat → Option RPeer} {p : Nat} {st' : RPeer}
    (h : ∀ q st, f q = some st → st.errorCount ≤ n) (he : st'.errorCount ≤ n) :
    ∀ q st, setRPeer f p st' q = some st → st.errorCount ≤ n := by
  intro q st hq
  unfold setRPeer at hq
  by_cases e : q = p
  · simp only [e, if_true, Option.some.injEq] at hq; subst hq; exact he
  · simp only [e, if_false] at hq; exact h q st hq

theorem RBound.congr {n : Nat} {s f : RSt} (b : RBound n s) (h1 : f.perIp = s.perIp) (h2 : f.active = s.active)
    (h3 : f.peers = s.peers) : RBound n f :=
  ⟨fun k => by rw [h1]; exact b.perIp k, by rw [h2]; exact b.active, fun p st hp => by rw [h3] at hp; exact b.err p st hp⟩

theorem RBound.set {n : Nat} {s f : RSt} {p : Nat} {st' : RPeer} (b : RBound n s) (h1 : f.perIp = s.perIp)
    (h2 : f.active = s.active) (h3 : f.peers = setRPeer s.peers p st') (he : st'.errorCount ≤ n) : RBound n f :=
  ⟨fun k => by rw [h1]; exact b.perIp k, by rw [h2]; exact b.active,
   fun q st hq => by rw [h3] at hq; exact setRPeer_err b.err he q st hq⟩

theorem rInboundMsg_bound {n : Nat} {s : RSt} (p : Nat) (m : Msg) (b : RBound n s) :
    RBound n (rInboundMsg s p m) := by
  unfold rInboundMsg
  split
  · exact b
  · rename_i st hp
    have he : (st.applyMsg m).errorCount ≤ n := by rw [rApplyMsg_err]; exact b.err p st hp
    dsimp only
    split
    · exact ⟨b.perIp, b.active, setRPeer_err b.err he⟩
    · split
      · exact ⟨b.perIp, b.active, setRPeer_err b.err (by rw [rHandshakeInbound_err]; exact he)⟩
      all_goals exact ⟨b.perIp, b.active, setRPeer_err b.err he⟩

theorem rInboundAll_bound {n : Nat} (p : Nat) (ms : List Msg) {s : RSt} (b : RBound n s) :
    RBound n (ms.foldl (fun s m => rInboundMsg s p m) s) := by
  induction ms generalizing s with
  | nil => exact b
  | cons m ms ih => exact ih (rInboundMsg_bound p m b)

theorem rHkPeer_bound {n : Nat} {s : RSt} (p : Nat) (b : RBound n s) : RBound n (rHkPeer s p) := by
  unfold rHkPeer
  split
  · exact b
  · unfold rConnHk
    split
    · exact ⟨b.perIp, b.active, b.err⟩
    · split
      · exact ⟨b.perIp, b.active, b.err⟩
      · exact ⟨b.perIp, b.active, b.err⟩

theorem rHkAll_bound {n : Nat} (ord : List Nat) {s : RSt} (b : RBound n s) : RBound n (rHkAll s ord) := by
  induction ord generalizing s with
  | nil => exact b
  | cons p ps ih => exact ih (rHkPeer_bound p b)

theorem setCount_le {n : Nat} {f : Nat → Nat} {h c : Nat} (hf : ∀ k, f k ≤ n) (hc : c ≤ n) :
    ∀ k, setCount f h c k ≤ n := by
  intro k; unfold setCount; split
  · exact hc
  · exact hf k

/-- one event: defined when the history so far is short enough, and the bound grows by one -/
theorem rStep_bound {n : Nat} {s : RSt} (e : REv) (b : RBound n s) (hn : n + 1 < u32Bound) :
    ∃ f, rStep s e = some f ∧ RBound (n + 1) f := by
  have b0 : RBound n { s with out := [] } := ⟨b.perIp, b.active, b.err⟩
  have hu : u32Bound ≤ usizeBound := by decide
  unfold rStep
  cases e with
  | housekeeping ord => exact ⟨_, rfl, (rHkAll_bound ord b0).mono (Nat.le_succ n)⟩
  | idle ord => exact ⟨_, rfl, (rHkAll_bound ord b0).mono (Nat.le_succ n)⟩
  | provide p ms =>
    refine ⟨_, rfl, RBound.mono ?_ (Nat.le_succ n)⟩
    exact b.congr rfl rfl rfl
  | banPeer p =>
    refine ⟨_, rfl, RBound.mono ?_ (Nat.le_succ n)⟩
    exact b.congr rfl rfl rfl
  | disconnectPeer p =>
    refine ⟨_, rfl, RBound.mono ?_ (Nat.le_succ n)⟩
    exact b.congr rfl rfl rfl
  | connected p =>
    dsimp only
    unfold rOnConnected rConnVisitConnected
    dsimp only
    have h0 : ∀ q st, setRPeer s.peers p { conn := .connected } q = some st → st.errorCount ≤ n + 1 :=
      setRPeer_err (fun q st hq => Nat.le_trans (b.err q st hq) (Nat.le_succ n)) (Nat.zero_le _)
    have hpi := b.perIp (hostOf p)
    have hac := b.active
    have hpi' : ∀ k, setCount s.perIp (hostOf p) (s.perIp (hostOf p) + 1) k ≤ n + 1 :=
      setCount_le (fun k => Nat.le_trans (b.perIp k) (Nat.le_succ n)) (Nat.succ_le_succ hpi)
    by_cases c1 : p ∈ s.banned
    · simp only [c1, if_true]
      exact ⟨_, rfl, fun k => Nat.le_trans (b.perIp k) (Nat.le_succ n), Nat.le_trans hac (Nat.le_succ n), h0⟩
    · have c2 : s.perIp (hostOf p) + 1 < usizeBound := by omega
      simp only [c1, if_false, c2, if_true]
      by_cases c3 : s.perIp (hostOf p) + 1 > s.maxPerIp
      · simp only [c3, if_true]
        exact ⟨_, rfl, hpi', Nat.le_trans hac (Nat.le_succ n), h0⟩
      · simp only [c3, if_false]
        by_cases c4 : p ∈ s.accepted
        · simp only [c4, if_true]
          exact ⟨_, rfl, hpi', Nat.le_trans hac (Nat.le_succ n), h0⟩
        · have c5 : s.active + 1 < usizeBound := by omega
          simp only [c4, if_false, c5, if_true]
          exact ⟨_, rfl, hpi', Nat.succ_le_succ hac, h0⟩
  | disconnected p =>
    refine ⟨_, rfl, ?_⟩
    unfold rOnDisconnected
    have hdel : ∀ (f : Nat → Option RPeer), (∀ q st, f q = some st → st.errorCount ≤ n) →
        ∀ q st, delRPeer f p q = some st → st.errorCount ≤ n + 1 := by
      intro f hf q st hq
      unfold delRPeer at hq
      split at hq
      · cases hq
      · exact Nat.le_trans (hf q st hq) (Nat.le_succ n)
    split
    · exact ⟨fun k => Nat.le_trans (b.perIp k) (Nat.le_succ n), Nat.le_trans b.active (Nat.le_succ n), hdel _ b.err⟩
    · unfold rConnVisitDisconnected
      dsimp only
      have hpi' : ∀ k, setCount s.perIp (hostOf p) (s.perIp (hostOf p) - 1) k ≤ n + 1 :=
        setCount_le (fun k => Nat.le_trans (b.perIp k) (Nat.le_succ n))
          (Nat.le_trans (Nat.sub_le _ _) (Nat.le_trans (b.perIp _) (Nat.le_succ n)))
      split
      · exact ⟨hpi', Nat.le_trans (Nat.sub_le _ _) (Nat.le_trans b.active (Nat.le_succ n)), hdel _ b.err⟩
      · exact ⟨hpi', Nat.le_trans b.active (Nat.le_succ n), hdel _ b.err⟩
  | recv p ms => exact ⟨_, rfl, (rInboundAll_bound p ms b0).mono (Nat.le_succ n)⟩
  | sent p m =>
    refine ⟨_, rfl, ?_⟩
    unfold rOutboundMsg
    split
    · exact b0.mono (Nat.le_succ n)
    · rename_i st hp
      refine RBound.mono ?_ (Nat.le_succ n)
      exact b.set (p := p) (st' := st.applyMsg m) rfl rfl rfl (by rw [rApplyMsg_err]; exact b.err p st hp)
  | error p =>
    dsimp only
    unfold rOnErrored
    split
    · exact ⟨_, rfl, b0.mono (Nat.le_succ n)⟩
    · rename_i st hp
      have he := b.err p st hp
      have c : st.errorCount + 1 < u32Bound := by omega
      simp only [c, if_true]
      exact ⟨_, rfl, fun k => Nat.le_trans (b.perIp k) (Nat.le_succ n), Nat.le_trans b.active (Nat.le_succ n),
        setRPeer_err (fun q st' hq => Nat.le_trans (b.err q st' hq) (Nat.le_succ n)) (Nat.succ_le_succ he)⟩

theorem rRun_total : ∀ (h : List REv) (s : RSt) (n : Nat), RBound n s → n + h.length < u32Bound →
    ∃ f, rRun s h = some f ∧ RBound (n + h.length) f := by
  intro h
  induction h with
  | nil => intro s n b _; exact ⟨s, rfl, b⟩
  | cons e es ih =>
    intro s n b hl
    simp only [List.length_cons] at hl
    obtain ⟨f1, h1, b1⟩ := rStep_bound e b (by omega)
    obtain ⟨f, h2, b2⟩ := ih f1 (n + 1) b1 (by omega)
    refine ⟨f, ?_, ?_⟩
    · simp only [rRun, h1, h2]
    · simp only [List.length_cons]; rw [show n + (es.length + 1) = n + 1 + es.length by omega]; exact b2

theorem rInit_bound (s : RSt) (hp : s.perIp = fun _ => 0) (ha : s.active = 0) (hq : s.peers = fun _ => none) :
    RBound 0 s := by
  refine ⟨?_, ?_, ?_⟩
  · intro h; rw [hp]; exact Nat.le_refl 0
  · rw [ha]; exact Nat.le_refl 0
  · intro p st h; rw [hq] at h; cases h

end PallasVerif.P2P
