import PallasVerif.Model.Cbor
/-!
  Bijection between well-formed CBOR byte strings and concrete syntax trees:

  * `parse_encode`   : `i.wf → size i ≤ fuel → parse fuel (i.encode ++ r) = some (i, r)`
  * `encode_parse`   : `parse fuel bs = some (i, r) → bs = i.encode ++ r ∧ i.wf`
  * `parseItem_encode`, `parseItem_sound` — the same for the fuel-free entry point.
-/
namespace PallasVerif.Cbor

/-! ## heads -/

theorem toNat_ofNat_lt (n : Nat) (h : n < 256) : (UInt8.ofNat n).toNat = n := by
  simp [UInt8.toNat_ofNat']; omega

theorem ofNat_eq_of_mod (n : Nat) (b : UInt8) (h : n % 256 = b.toNat) : UInt8.ofNat n = b := by
  apply UInt8.toNat_inj.mp
  simp [UInt8.toNat_ofNat']; omega

theorem initByte_toNat (m ai : Nat) (hm : m < 8) (hai : ai < 32) : (initByte m ai).toNat = m * 32 + ai := by
  unfold initByte; exact toNat_ofNat_lt _ (by omega)

theorem initByte_ne_break (m ai : Nat) (hm : m < 8) (hai : ai < 32) (hne : ¬ (m = 7 ∧ ai = 31)) :
    initByte m ai ≠ 0xff := by
  intro e
  have := congrArg UInt8.toNat e
  rw [initByte_toNat m ai hm hai] at this
  simp at this; omega

theorem initByte_of_byte (b : UInt8) : initByte (b.toNat / 32) (b.toNat % 32) = b := by
  unfold initByte
  have := UInt8.toNat_lt b
  exact ofNat_eq_of_mod _ _ (by omega)

theorem argLen_some_lt (ai n : Nat) (h : argLen ai = some n) : ai < 32 := by
  unfold argLen at h
  repeat' split at h
  all_goals first | omega | simp at h

theorem Head.wf_iff (h : Head) : h.wf = true ↔ h.major < 8 ∧ h.ai < 32 ∧ argLen h.ai = some h.arg.length := by
  simp [Head.wf, and_assoc]

theorem decodeHead_encode (h : Head) (r : Bytes) (hw : h.wf = true) :
    decodeHead (h.encode ++ r) = some (h, r) := by
  obtain ⟨m, ai, arg⟩ := h
  rw [Head.wf_iff] at hw
  obtain ⟨hm, hai, hl⟩ := hw
  simp only at hm hai hl
  have hb := initByte_toNat m ai hm hai
  have h1 : (m * 32 + ai) % 32 = ai := by omega
  have h2 : (m * 32 + ai) / 32 = m := by omega
  simp only [Head.encode, List.cons_append, decodeHead, hb, h1, h2, hl]
  simp

theorem decodeHead_sound (bs : Bytes) (h : Head) (r : Bytes) (hd : decodeHead bs = some (h, r)) :
    bs = h.encode ++ r ∧ h.wf = true := by
  cases bs with
  | nil => simp [decodeHead] at hd
  | cons b rest =>
    simp only [decodeHead] at hd
    split at hd
    · simp at hd
    · rename_i n hn
      split at hd
      · simp at hd
      · rename_i hlen
        simp only [Option.some.injEq, Prod.mk.injEq] at hd
        obtain ⟨rfl, rfl⟩ := hd
        have hb := UInt8.toNat_lt b
        have hai := argLen_some_lt _ _ hn
        constructor
        · simp only [Head.encode, List.cons_append, List.take_append_drop, initByte_of_byte]
        · rw [Head.wf_iff]
          have : min n rest.length = n := by omega
          refine ⟨by simp only; omega, hai, ?_⟩
          simp [hn, this]

theorem Head.encode_length_pos (h : Head) : 1 ≤ h.encode.length := by simp [Head.encode]

/-! ## sizes (fuel needed) -/

mutual
def size : Item → Nat
  | .atom _ => 1
  | .str _ _ => 1
  | .strIndef _ cs => cs.length + 2
  | .seq _ xs => 1 + sizes xs
  | .seqIndef _ xs => 2 + sizes xs
  | .tag _ i => 1 + size i
def sizes : List Item → Nat
  | [] => 0
  | x :: xs => 1 + size x + sizes xs
end

/-! ## encode then parse -/

theorem parseChunks_encode (m : Nat) (cs : List (Head × Bytes)) (fuel : Nat) (r : Bytes)
    (hw : chunksWf m cs = true) (hf : cs.length + 1 ≤ fuel) :
    parseChunks fuel m (encodeChunks cs ++ 0xff :: r) = some (cs, r) := by
  induction cs generalizing fuel with
  | nil =>
    cases fuel with
    | zero => omega
    | succ f => simp [encodeChunks, parseChunks]
  | cons c cs ih =>
    obtain ⟨h, bs⟩ := c
    cases fuel with
    | zero => omega
    | succ f =>
      simp only [chunksWf, chunkWf, Bool.and_eq_true, decide_eq_true_eq] at hw
      obtain ⟨⟨⟨⟨hwf, hm⟩, hai⟩, hlen⟩, hrest⟩ := hw
      have hwf' := (Head.wf_iff h).mp hwf
      have hdec := decodeHead_encode h (bs ++ (encodeChunks cs ++ 0xff :: r)) hwf
      have hne : initByte h.major h.ai ≠ 0xff := initByte_ne_break _ _ hwf'.1 hwf'.2.1 (by omega)
      have henc : encodeChunks ((h, bs) :: cs) ++ 0xff :: r
          = initByte h.major h.ai :: (h.arg ++ (bs ++ (encodeChunks cs ++ 0xff :: r))) := by
        simp [encodeChunks, Head.encode, List.append_assoc]
      rw [henc]
      simp only [parseChunks, hne, if_false]
      have hdec' : decodeHead (initByte h.major h.ai :: (h.arg ++ (bs ++ (encodeChunks cs ++ 0xff :: r))))
          = some (h, bs ++ (encodeChunks cs ++ 0xff :: r)) := by
        simpa [Head.encode] using hdec
      rw [hdec']
      have hcond : ¬ (h.major ≠ m ∨ h.ai = 31 ∨ (bs ++ (encodeChunks cs ++ 0xff :: r)).length < h.val) := by
        simp [hm, hai, ← hlen]
      simp only [hcond, if_false]
      have hdrop : (bs ++ (encodeChunks cs ++ 0xff :: r)).drop h.val = encodeChunks cs ++ 0xff :: r := by
        rw [← hlen]; simp
      have htake : (bs ++ (encodeChunks cs ++ 0xff :: r)).take h.val = bs := by
        rw [← hlen]; simp
      rw [hdrop, htake, ih f hrest (by simp at hf; omega)]

/-- the first byte of a well-formed item is never the break code -/
theorem first_byte_ne_break (i : Item) (hw : i.wf = true) :
    ∃ b rest, i.encode = b :: rest ∧ b ≠ 0xff := by
  cases i with
  | atom h =>
    simp only [Item.wf, Bool.and_eq_true, decide_eq_true_eq] at hw
    have hh := (Head.wf_iff h).mp hw.1.1
    exact ⟨_, _, rfl, initByte_ne_break _ _ hh.1 hh.2.1 (by omega)⟩
  | str h bs =>
    simp only [Item.wf, Bool.and_eq_true, decide_eq_true_eq] at hw
    have hh := (Head.wf_iff h).mp hw.1.1.1
    exact ⟨_, _, rfl, initByte_ne_break _ _ hh.1 hh.2.1 (by omega)⟩
  | strIndef m cs =>
    simp only [Item.wf, Bool.and_eq_true, Bool.or_eq_true, decide_eq_true_eq] at hw
    exact ⟨_, _, rfl, initByte_ne_break _ _ (by omega) (by omega) (by omega)⟩
  | seq h xs =>
    simp only [Item.wf, Bool.and_eq_true, decide_eq_true_eq] at hw
    have hh := (Head.wf_iff h).mp hw.1.1.1.1
    exact ⟨_, _, rfl, initByte_ne_break _ _ hh.1 hh.2.1 (by omega)⟩
  | seqIndef m xs =>
    simp only [Item.wf, Bool.and_eq_true, Bool.or_eq_true, decide_eq_true_eq] at hw
    exact ⟨_, _, rfl, initByte_ne_break _ _ (by omega) (by omega) (by omega)⟩
  | tag h i =>
    simp only [Item.wf, Bool.and_eq_true, decide_eq_true_eq] at hw
    have hh := (Head.wf_iff h).mp hw.1.1.1
    exact ⟨_, _, rfl, initByte_ne_break _ _ hh.1 hh.2.1 (by omega)⟩


mutual
theorem parse_encode : ∀ (i : Item) (fuel : Nat) (r : Bytes), i.wf = true → size i ≤ fuel →
    parse fuel (i.encode ++ r) = some (i, r)
  | .atom h, fuel, r, hw, hf => by
    cases fuel with
    | zero => simp [size] at hf
    | succ f =>
      simp only [Item.wf, Bool.and_eq_true, Bool.or_eq_true, decide_eq_true_eq] at hw
      obtain ⟨⟨hwf, hm⟩, hai⟩ := hw
      have hm' : h.major = 0 ∨ h.major = 1 ∨ h.major = 7 := by omega
      simp only [Item.encode, parse, decodeHead_encode h r hwf, hm', if_true, hai, if_false]
  | .str h bs, fuel, r, hw, hf => by
    cases fuel with
    | zero => simp [size] at hf
    | succ f =>
      simp only [Item.wf, Bool.and_eq_true, Bool.or_eq_true, decide_eq_true_eq] at hw
      obtain ⟨⟨⟨hwf, hm⟩, hai⟩, hlen⟩ := hw
      have h1 : ¬ (h.major = 0 ∨ h.major = 1 ∨ h.major = 7) := by omega
      have hd := decodeHead_encode h (bs ++ r) hwf
      simp only [Item.encode, List.append_assoc, parse, hd, h1, hm, if_true, if_false, hai]
      simp [← hlen]
  | .strIndef m cs, fuel, r, hw, hf => by
    cases fuel with
    | zero => simp [size] at hf
    | succ f =>
      simp only [Item.wf, Bool.and_eq_true, Bool.or_eq_true, decide_eq_true_eq] at hw
      obtain ⟨hm, hcs⟩ := hw
      have hwf : (⟨m, 31, []⟩ : Head).wf = true := by
        rw [Head.wf_iff]; exact ⟨by simp only; omega, by simp, by simp [argLen]⟩
      have hd := decodeHead_encode ⟨m, 31, []⟩ (encodeChunks cs ++ 0xff :: r) hwf
      have h1 : ¬ (m = 0 ∨ m = 1 ∨ m = 7) := by omega
      have henc : (Item.strIndef m cs).encode ++ r = (⟨m, 31, []⟩ : Head).encode ++ (encodeChunks cs ++ 0xff :: r) := by
        simp [Item.encode, Head.encode, List.append_assoc]
      rw [henc]
      simp only [parse, hd, h1, hm, if_true, if_false]
      rw [parseChunks_encode m cs f r hcs (by simp [size] at hf; omega)]
  | .seq h xs, fuel, r, hw, hf => by
    cases fuel with
    | zero => simp [size] at hf
    | succ f =>
      simp only [Item.wf, Bool.and_eq_true, Bool.or_eq_true, decide_eq_true_eq] at hw
      obtain ⟨⟨⟨⟨hwf, hm⟩, hai⟩, hlen⟩, hxs⟩ := hw
      have h1 : ¬ (h.major = 0 ∨ h.major = 1 ∨ h.major = 7) := by omega
      have h2 : ¬ (h.major = 2 ∨ h.major = 3) := by omega
      have hd := decodeHead_encode h (encodeList xs ++ r) hwf
      have hs : sizes xs ≤ f := by simp [size] at hf; omega
      have hn := parseN_encode xs f r hxs hs
      simp only [Item.encode, List.append_assoc, parse, hd, h1, h2, hm, if_true, if_false, hai, ← hlen, hn]
  | .seqIndef m xs, fuel, r, hw, hf => by
    cases fuel with
    | zero => simp [size] at hf
    | succ f =>
      simp only [Item.wf, Bool.and_eq_true, Bool.or_eq_true, decide_eq_true_eq] at hw
      obtain ⟨⟨hm, heven⟩, hxs⟩ := hw
      have hwf : (⟨m, 31, []⟩ : Head).wf = true := by
        rw [Head.wf_iff]; exact ⟨by simp only; omega, by simp, by simp [argLen]⟩
      have hd := decodeHead_encode ⟨m, 31, []⟩ (encodeList xs ++ 0xff :: r) hwf
      have h1 : ¬ (m = 0 ∨ m = 1 ∨ m = 7) := by omega
      have h2 : ¬ (m = 2 ∨ m = 3) := by omega
      have henc : (Item.seqIndef m xs).encode ++ r = (⟨m, 31, []⟩ : Head).encode ++ (encodeList xs ++ 0xff :: r) := by
        simp [Item.encode, Head.encode, List.append_assoc]
      rw [henc]
      have hb := parseBreak_encode xs f r hxs (by simp [size] at hf; omega)
      have h3 : ¬ (m = 5 ∧ xs.length % 2 ≠ 0) := by omega
      simp only [parse, hd, h1, h2, hm, if_true, if_false, hb, h3]
  | .tag h i, fuel, r, hw, hf => by
    cases fuel with
    | zero => simp [size] at hf
    | succ f =>
      simp only [Item.wf, Bool.and_eq_true, decide_eq_true_eq] at hw
      obtain ⟨⟨⟨hwf, hm⟩, hai⟩, hi⟩ := hw
      have h1 : ¬ (h.major = 0 ∨ h.major = 1 ∨ h.major = 7) := by omega
      have h2 : ¬ (h.major = 2 ∨ h.major = 3) := by omega
      have h3 : ¬ (h.major = 4 ∨ h.major = 5) := by omega
      have hd := decodeHead_encode h (i.encode ++ r) hwf
      have hp := parse_encode i f r hi (by simp [size] at hf; omega)
      simp only [Item.encode, List.append_assoc, parse, hd, h1, h2, h3, if_false, hai, hp]
theorem parseN_encode : ∀ (xs : List Item) (fuel : Nat) (r : Bytes), wfList xs = true → sizes xs ≤ fuel →
    parseN fuel xs.length (encodeList xs ++ r) = some (xs, r)
  | [], fuel, r, _, _ => by cases fuel <;> simp [encodeList, parseN]
  | x :: xs, fuel, r, hw, hf => by
    cases fuel with
    | zero => simp [sizes] at hf
    | succ f =>
      simp only [wfList, Bool.and_eq_true] at hw
      have e1 := parse_encode x f (encodeList xs ++ r) hw.1 (by simp [sizes] at hf; omega)
      have e2 := parseN_encode xs f r hw.2 (by simp [sizes] at hf; omega)
      simp only [encodeList, List.length_cons, parseN, List.append_assoc, e1, e2]
theorem parseBreak_encode : ∀ (xs : List Item) (fuel : Nat) (r : Bytes), wfList xs = true → sizes xs + 1 ≤ fuel →
    parseBreak fuel (encodeList xs ++ 0xff :: r) = some (xs, r)
  | [], fuel, r, _, hf => by
    cases fuel with
    | zero => omega
    | succ f => simp [encodeList, parseBreak]
  | x :: xs, fuel, r, hw, hf => by
    cases fuel with
    | zero => omega
    | succ f =>
      simp only [wfList, Bool.and_eq_true] at hw
      obtain ⟨b, rest, hb, hne⟩ := first_byte_ne_break x hw.1
      have e1 := parse_encode x f (encodeList xs ++ 0xff :: r) hw.1 (by simp [sizes] at hf; omega)
      have e2 := parseBreak_encode xs f r hw.2 (by simp [sizes] at hf; omega)
      have henc : encodeList (x :: xs) ++ 0xff :: r = b :: (rest ++ (encodeList xs ++ 0xff :: r)) := by
        simp [encodeList, hb, List.append_assoc]
      rw [henc]
      have e1' : parse f (b :: (rest ++ (encodeList xs ++ 0xff :: r))) = some (x, encodeList xs ++ 0xff :: r) := by
        rw [← e1, hb]; simp
      simp only [parseBreak, hne, if_false, e1', e2]
end


/-! ## parse then encode -/

theorem parseChunks_sound : ∀ (fuel m : Nat) (bs : Bytes) (cs : List (Head × Bytes)) (r : Bytes),
    parseChunks fuel m bs = some (cs, r) → bs = encodeChunks cs ++ 0xff :: r ∧ chunksWf m cs = true := by
  intro fuel
  induction fuel with
  | zero => intro m bs cs r h; simp [parseChunks] at h
  | succ f ih =>
    intro m bs cs r h
    cases bs with
    | nil => simp [parseChunks] at h
    | cons b rest =>
      simp only [parseChunks] at h
      split at h
      · rename_i hb
        simp only [Option.some.injEq, Prod.mk.injEq] at h
        obtain ⟨rfl, rfl⟩ := h
        simp [encodeChunks, chunksWf, hb]
      · split at h
        · simp at h
        · rename_i hd r0 hdec
          split at h
          · simp at h
          · rename_i hcond
            split at h
            · simp at h
            · rename_i cs' r' hrec
              simp only [Option.some.injEq, Prod.mk.injEq] at h
              obtain ⟨rfl, rfl⟩ := h
              obtain ⟨e1, w1⟩ := decodeHead_sound _ _ _ hdec
              obtain ⟨e2, w2⟩ := ih _ _ _ _ hrec
              have hlen : (r0.take hd.val).length = hd.val := by
                simp only [List.length_take]; omega
              constructor
              · rw [e1]
                simp only [encodeChunks, List.append_assoc, List.append_cancel_left_eq]
                rw [← e2]; simp
              · simp only [chunksWf, chunkWf, w1, w2, Bool.and_true, Bool.true_and, hlen,
                  decide_true, Bool.and_eq_true, decide_eq_true_eq]
                omega

theorem parse_sound_all (fuel : Nat) :
    (∀ bs i r, parse fuel bs = some (i, r) → bs = i.encode ++ r ∧ i.wf = true) ∧
    (∀ n bs xs r, parseN fuel n bs = some (xs, r) → bs = encodeList xs ++ r ∧ wfList xs = true ∧ xs.length = n) ∧
    (∀ bs xs r, parseBreak fuel bs = some (xs, r) → bs = encodeList xs ++ 0xff :: r ∧ wfList xs = true) := by
  induction fuel with
  | zero =>
    refine ⟨?_, ?_, ?_⟩
    · intro bs i r h; simp [parse] at h
    · intro n bs xs r h
      cases n with
      | zero => simp [parseN] at h; obtain ⟨rfl, rfl⟩ := h; simp [encodeList, wfList]
      | succ n => simp [parseN] at h
    · intro bs xs r h; simp [parseBreak] at h
  | succ f ih =>
    obtain ⟨ihP, ihN, ihB⟩ := ih
    refine ⟨?_, ?_, ?_⟩
    · intro bs i r h
      simp only [parse] at h
      split at h
      · simp at h
      · rename_i hd rest hdec
        obtain ⟨e1, w1⟩ := decodeHead_sound _ _ _ hdec
        have hmaj := ((Head.wf_iff hd).mp w1).1
        split at h
        · -- atom
          rename_i hm
          split at h
          · simp at h
          · rename_i hai
            simp only [Option.some.injEq, Prod.mk.injEq] at h
            obtain ⟨rfl, rfl⟩ := h
            refine ⟨by simpa [Item.encode] using e1, ?_⟩
            simp only [Item.wf, w1, Bool.true_and, Bool.and_eq_true, Bool.or_eq_true, decide_eq_true_eq]
            exact ⟨by omega, hai⟩
        · split at h
          · -- strings
            rename_i hm
            split at h
            · rename_i hai
              split at h
              · simp at h
              · rename_i cs r' hc
                simp only [Option.some.injEq, Prod.mk.injEq] at h
                obtain ⟨rfl, rfl⟩ := h
                obtain ⟨e2, w2⟩ := parseChunks_sound _ _ _ _ _ hc
                constructor
                · rw [e1, e2]
                  have : hd.arg = [] := by
                    have := ((Head.wf_iff hd).mp w1).2.2
                    rw [hai] at this; simp [argLen] at this; exact List.eq_nil_of_length_eq_zero this.symm
                  simp [Item.encode, Head.encode, hai, this]
                · simp only [Item.wf, w2, Bool.and_true, Bool.or_eq_true, decide_eq_true_eq]; exact hm
            · split at h
              · simp at h
              · rename_i hai hlen
                simp only [Option.some.injEq, Prod.mk.injEq] at h
                obtain ⟨rfl, rfl⟩ := h
                constructor
                · rw [e1]; simp [Item.encode]
                · have : (rest.take hd.val).length = hd.val := by simp only [List.length_take]; omega
                  simp only [Item.wf, w1, Bool.true_and, this, decide_true, Bool.and_true, Bool.and_eq_true,
                    Bool.or_eq_true, decide_eq_true_eq]
                  exact ⟨hm, hai⟩
          · split at h
            · -- arrays / maps
              rename_i hm
              split at h
              · rename_i hai
                split at h
                · simp at h
                · rename_i xs r' hb
                  split at h
                  · simp at h
                  · rename_i hodd
                    simp only [Option.some.injEq, Prod.mk.injEq] at h
                    obtain ⟨rfl, rfl⟩ := h
                    obtain ⟨e2, w2⟩ := ihB _ _ _ hb
                    constructor
                    · rw [e1, e2]
                      have : hd.arg = [] := by
                        have := ((Head.wf_iff hd).mp w1).2.2
                        rw [hai] at this; simp [argLen] at this; exact List.eq_nil_of_length_eq_zero this.symm
                      simp [Item.encode, Head.encode, hai, this]
                    · simp only [Item.wf, w2, Bool.and_true, Bool.and_eq_true, Bool.or_eq_true, decide_eq_true_eq]
                      exact ⟨hm, by omega⟩
              · rename_i hai
                split at h
                · simp at h
                · rename_i xs r' hn
                  simp only [Option.some.injEq, Prod.mk.injEq] at h
                  obtain ⟨rfl, rfl⟩ := h
                  obtain ⟨e2, w2, l2⟩ := ihN _ _ _ _ hn
                  constructor
                  · rw [e1, e2]; simp [Item.encode]
                  · simp only [Item.wf, w1, w2, l2, Bool.true_and, Bool.and_true, decide_true, Bool.and_eq_true,
                      Bool.or_eq_true, decide_eq_true_eq]
                    exact ⟨hm, hai⟩
            · -- tag
              rename_i hm4 hm2 hm0
              split at h
              · simp at h
              · rename_i hai
                split at h
                · simp at h
                · rename_i i' r' hp
                  simp only [Option.some.injEq, Prod.mk.injEq] at h
                  obtain ⟨rfl, rfl⟩ := h
                  obtain ⟨e2, w2⟩ := ihP _ _ _ hp
                  constructor
                  · rw [e1, e2]; simp [Item.encode]
                  · simp only [Item.wf, w1, w2, Bool.true_and, Bool.and_true, Bool.and_eq_true, decide_eq_true_eq]
                    exact ⟨by omega, hai⟩
    · intro n bs xs r h
      cases n with
      | zero => simp [parseN] at h; obtain ⟨rfl, rfl⟩ := h; simp [encodeList, wfList]
      | succ n =>
        simp only [parseN] at h
        split at h
        · simp at h
        · rename_i x r1 hp
          split at h
          · simp at h
          · rename_i xs' r2 hn
            simp only [Option.some.injEq, Prod.mk.injEq] at h
            obtain ⟨rfl, rfl⟩ := h
            obtain ⟨e1, w1⟩ := ihP _ _ _ hp
            obtain ⟨e2, w2, l2⟩ := ihN _ _ _ _ hn
            refine ⟨?_, ?_, ?_⟩
            · rw [e1, e2]; simp [encodeList]
            · simp [wfList, w1, w2]
            · simp [l2]
    · intro bs xs r h
      cases bs with
      | nil => simp [parseBreak] at h
      | cons b rest =>
        simp only [parseBreak] at h
        split at h
        · rename_i hb
          simp only [Option.some.injEq, Prod.mk.injEq] at h
          obtain ⟨rfl, rfl⟩ := h
          simp [encodeList, wfList, hb]
        · split at h
          · simp at h
          · rename_i x r1 hp
            split at h
            · simp at h
            · rename_i xs' r2 hb
              simp only [Option.some.injEq, Prod.mk.injEq] at h
              obtain ⟨rfl, rfl⟩ := h
              obtain ⟨e1, w1⟩ := ihP _ _ _ hp
              obtain ⟨e2, w2⟩ := ihB _ _ _ hb
              refine ⟨?_, ?_⟩
              · rw [e1, e2]; simp [encodeList]
              · simp [wfList, w1, w2]

/-- **parse ∘ encode** direction of the bijection: whatever the strict parser accepts is the
    encoding of the well-formed tree it returns, followed by the remaining bytes. -/
theorem encode_parse (fuel : Nat) (bs : Bytes) (i : Item) (r : Bytes)
    (h : parse fuel bs = some (i, r)) : bs = i.encode ++ r ∧ i.wf = true :=
  (parse_sound_all fuel).1 bs i r h

/-! ## fuel adequacy -/

theorem encodeChunks_length (cs : List (Head × Bytes)) : cs.length ≤ (encodeChunks cs).length := by
  induction cs with
  | nil => simp [encodeChunks]
  | cons c cs ih =>
    obtain ⟨h, bs⟩ := c
    have := Head.encode_length_pos h
    simp only [encodeChunks, List.length_append, List.length_cons]; omega

mutual
theorem size_le : ∀ (i : Item), size i + 1 ≤ 2 * i.encode.length
  | .atom h => by have := Head.encode_length_pos h; simp [size, Item.encode]; omega
  | .str h bs => by have := Head.encode_length_pos h; simp [size, Item.encode]; omega
  | .strIndef m cs => by have := encodeChunks_length cs; simp [size, Item.encode]; omega
  | .seq h xs => by
    have := Head.encode_length_pos h; have := sizes_le xs; simp [size, Item.encode]; omega
  | .seqIndef m xs => by have := sizes_le xs; simp [size, Item.encode]; omega
  | .tag h i => by
    have := Head.encode_length_pos h; have := size_le i; simp [size, Item.encode]; omega
theorem sizes_le : ∀ (xs : List Item), sizes xs ≤ 2 * (encodeList xs).length
  | [] => by simp [sizes]
  | x :: xs => by have := size_le x; have := sizes_le xs; simp [sizes, encodeList]; omega
end

/-- **encode then parse**: the strict parser recovers exactly the tree and the rest. -/
theorem parseItem_encode (i : Item) (r : Bytes) (hw : i.wf = true) :
    parseItem (i.encode ++ r) = some (i, r) := by
  unfold parseItem fuelFor
  apply parse_encode i _ r hw
  have := size_le i
  simp only [List.length_append]; omega

/-- **parse then encode**: an accepted input is `encode` of the returned well-formed tree. -/
theorem parseItem_sound (bs : Bytes) (i : Item) (r : Bytes) (h : parseItem bs = some (i, r)) :
    bs = i.encode ++ r ∧ i.wf = true := encode_parse _ bs i r h

/-- the encoding of a well-formed tree is exactly one data item -/
theorem isSingleItem_encode (i : Item) (hw : i.wf = true) : isSingleItem i.encode = true := by
  have := parseItem_encode i [] hw
  simp only [List.append_nil] at this
  simp [isSingleItem, this]

/-- a byte string is a single item iff it is the encoding of a well-formed tree -/
theorem isSingleItem_iff (bs : Bytes) : isSingleItem bs = true ↔ ∃ i : Item, i.wf = true ∧ bs = i.encode := by
  constructor
  · intro h
    unfold isSingleItem at h
    split at h
    · rename_i i hp
      obtain ⟨e, w⟩ := parseItem_sound _ _ _ hp
      exact ⟨i, w, by simpa using e⟩
    · simp at h
  · rintro ⟨i, w, rfl⟩; exact isSingleItem_encode i w

/-- the span of the first item is its encoding (no re-encoding involved) -/
theorem firstSpan_eq (bs : Bytes) (i : Item) (r : Bytes) (h : parseItem bs = some (i, r)) :
    firstSpan bs = some i.encode := by
  obtain ⟨e, _⟩ := parseItem_sound _ _ _ h
  simp only [firstSpan, h]
  subst e
  simp


/-! ## minimal heads (what a canonical encoder emits) -/

theorem be_length (w n : Nat) : (be w n).length = w := by
  induction w with
  | zero => rfl
  | succ w ih => simp [be, ih]

theorem ofBe_be (w n : Nat) : ofBe (be w n) = n % 256 ^ w := by
  induction w with
  | zero => simp [be, ofBe, Nat.mod_one]
  | succ w ih =>
    simp only [be, ofBe, be_length, ih, UInt8.toNat_ofNat']
    rw [Nat.mod_pow_succ (b := 256), Nat.mul_comm]
    have : (2:Nat)^8 = 256 := by decide
    rw [this]; omega

theorem minHead_wf (m n : Nat) (hm : m < 8) (hn : n < 2 ^ 64) : (minHead m n).wf = true := by
  unfold minHead
  rw [Head.wf_iff]
  split
  · exact ⟨hm, by simp only; omega, by simp [argLen]; omega⟩
  · split
    · exact ⟨hm, by simp, by simp [argLen, be_length]⟩
    · split
      · exact ⟨hm, by simp, by simp [argLen, be_length]⟩
      · split
        · exact ⟨hm, by simp, by simp [argLen, be_length]⟩
        · exact ⟨hm, by simp, by simp [argLen, be_length]⟩

theorem minHead_val (m n : Nat) (hn : n < 2 ^ 64) : (minHead m n).val = n := by
  unfold minHead Head.val
  split
  · simp [*]
  · split
    · simp [ofBe_be]; omega
    · split
      · simp [ofBe_be]; omega
      · split
        · simp [ofBe_be]; omega
        · simp [ofBe_be]; omega

theorem minHead_major (m n : Nat) : (minHead m n).major = m := by
  unfold minHead; repeat' split
  all_goals rfl

end PallasVerif.Cbor
