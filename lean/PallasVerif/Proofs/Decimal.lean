import PallasVerif.Model.Decimal
/-! Helper lemmas for C17 (`Props/C17.lean`) and the fixed-point layers of C15/C16: truncating
    division facts in the shape `omega` can use (`m * q` as an atom), `scale` = floor division,
    the two-step `div` = one truncating division. Core Lean only. -/
namespace PallasVerif.Proofs.Decimal
open PallasVerif.Decimal

theorem P_pos : 0 < P := by decide
theorem P_eq : P = ((10 ^ 34 : Nat) : Int) := by decide
theorem mult_pos (p : Nat) : 0 < mult p := Int.pow_pos (by decide)
theorem mult_default : mult defaultPrec = P := by decide

/-- truncating division: decomposition and the sign/size of the remainder -/
theorem tdm (a m : Int) (hm : 0 < m) :
    a = m * a.tdiv m + a.tmod m ∧ (0 ≤ a → 0 ≤ a.tmod m ∧ a.tmod m < m) ∧
    (a ≤ 0 → -m < a.tmod m ∧ a.tmod m ≤ 0) := by
  refine ⟨(Int.mul_tdiv_add_tmod a m).symm, fun h => ⟨Int.tmod_nonneg m h, Int.tmod_lt_of_pos a hm⟩,
    fun h => ?_⟩
  have h1 : (-a).tmod m = -(a.tmod m) := Int.neg_tmod a m
  have h2 := Int.tmod_nonneg m (show 0 ≤ -a by omega)
  have h3 := Int.tmod_lt_of_pos (-a) hm
  omega

/-- the truncated quotient has the sign of the dividend -/
theorem tdm_sign (a m : Int) (hm : 0 < m) :
    (0 ≤ a → 0 ≤ m * a.tdiv m) ∧ (a ≤ 0 → m * a.tdiv m ≤ 0) := by
  constructor
  · intro h
    exact Int.mul_nonneg (by omega) (Int.tdiv_nonneg h (by omega))
  · intro h
    have h1 : (-a).tdiv m = -(a.tdiv m) := Int.neg_tdiv a m
    have h2 := Int.mul_nonneg (show 0 ≤ m by omega) (Int.tdiv_nonneg (show 0 ≤ -a by omega) (show 0 ≤ m by omega))
    rw [h1, Int.mul_neg] at h2
    omega

/-- `scale` is floor division by `10^34` (`Int./` rounds toward −∞ for a positive divisor) -/
theorem scale_eq_ediv (z : Int) : scale z = z / P := by
  have hP := P_pos
  obtain ⟨h1, h2, h3⟩ := tdm z P hP
  symm
  unfold scale
  simp only
  split
  · rename_i h
    have := h3 (by omega)
    apply (Int.ediv_emod_unique hP).mpr ?_ |>.1
    exact z.tmod P + P
    constructor
    · rw [Int.mul_sub]; omega
    · omega
  · rename_i h
    apply (Int.ediv_emod_unique hP).mpr ?_ |>.1
    exact z.tmod P
    by_cases hz : 0 ≤ z
    · have := h2 hz; omega
    · have := h3 (by omega); omega

theorem scale_bounds (z : Int) : scale z * P ≤ z ∧ z < (scale z + 1) * P := by
  rw [scale_eq_ediv]
  have hP := P_pos
  have h1 := Int.emod_add_mul_ediv z P
  have h2 := Int.emod_nonneg z (show P ≠ 0 by omega)
  have h3 := Int.emod_lt_of_pos z hP
  rw [Int.add_mul, Int.one_mul, Int.mul_comm]
  omega

theorem div_nat (x y p : Nat) (hy : 0 < y) : (x / y) * p + ((x % y) * p) / y = (x * p) / y := by
  have h : x * p = y * ((x / y) * p) + (x % y) * p := by
    rw [← Nat.mul_assoc, ← Nat.add_mul, Nat.div_add_mod]
  rw [h, Nat.mul_add_div hy]

theorem div_int_nat (x y p : Nat) (hy : 0 < y) :
    (x : Int).tdiv y * p + ((x : Int).tmod y * p).tdiv y = ((x : Int) * p).tdiv y := by
  simp only [← Int.ofNat_tdiv, ← Int.ofNat_tmod, ← Int.natCast_mul, ← Int.natCast_add]
  exact congrArg _ (div_nat x y p hy)

/-- the two-step quotient equals the one-step one: the partial remainder carries the sign of the
    dividend, so both truncations go the same way -/
theorem div_core (x y : Int) (p : Nat) (hy : y ≠ 0) :
    x.tdiv y * p + (x.tmod y * p).tdiv y = (x * p).tdiv y := by
  obtain ⟨n, rfl | rfl⟩ := Int.eq_nat_or_neg x <;> obtain ⟨m, rfl | rfl⟩ := Int.eq_nat_or_neg y
  all_goals
    have hm : 0 < m := by omega
    have := div_int_nat n m p hm
    (try simp only [Int.neg_tdiv, Int.tdiv_neg, Int.neg_tmod, Int.tmod_neg, Int.neg_mul, Int.neg_neg])
    omega

theorem div_eq_tdiv (x y : Int) (hy : y ≠ 0) : div x y = some ((x * P).tdiv y) := by
  unfold div
  simp only [hy, if_false, Option.some.injEq]
  rw [P_eq]; exact div_core x y _ hy

theorem div_zero (x : Int) : div x 0 = none := by simp [div]

end PallasVerif.Proofs.Decimal
