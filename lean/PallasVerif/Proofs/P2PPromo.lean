import PallasVerif.Proofs.P2PSets
/-! Invariant of the promotion bookkeeping (C27) and its preservation by the primitive
    operations of `promotion.rs`. -/
namespace PallasVerif.P2P

/-- the four sets are duplicate free, pairwise disjoint and within the configured limits -/
structure SetsOK (s : St) : Prop where
  ndC : s.cold.Nodup
  ndW : s.warm.Nodup
  ndH : s.hot.Nodup
  ndB : s.banned.Nodup
  dCW : ∀ x, x ∈ s.cold → x ∉ s.warm
  dCH : ∀ x, x ∈ s.cold → x ∉ s.hot
  dCB : ∀ x, x ∈ s.cold → x ∉ s.banned
  dWH : ∀ x, x ∈ s.warm → x ∉ s.hot
  dWB : ∀ x, x ∈ s.warm → x ∉ s.banned
  dHB : ∀ x, x ∈ s.hot → x ∉ s.banned
  limW : s.warm.length ≤ s.cfg.maxWarm
  limH : s.hot.length ≤ s.cfg.maxHot
  limT : s.cold.length + s.warm.length + s.hot.length ≤ s.cfg.maxPeers

/-- a tag under which `needs_connection` can answer yes -/
def WH (t : Tag) : Prop := t = .warm ∨ t = .hot

/-- a peer recorded in `banned_peers` never carries the Warm/Hot tag -/
def TagOK (s : St) : Prop := ∀ p st, s.peers p = some st → p ∈ s.banned → ¬ WH st.tag

structure Inv (s : St) : Prop where
  sets : SetsOK s
  tags : TagOK s

/-- what a primitive promotion operation on the detached peer `p` guarantees -/
structure Prim (s : St) (p : Nat) (st : Peer) (s' : St) (st' : Peer) : Prop where
  sets : SetsOK s → SetsOK s'
  cfg : s'.cfg = s.cfg
  peers : s'.peers = s.peers
  out : s'.out = s.out
  bmono : ∀ q, q ∈ s.banned → q ∈ s'.banned
  bnew : ∀ q, q ∈ s'.banned → q ∈ s.banned ∨ q = p
  tag : SetsOK s → (p ∈ s.banned → ¬ WH st.tag) → (p ∈ s'.banned → ¬ WH st'.tag)

theorem Prim.rfl' (s : St) (p : Nat) (st : Peer) : Prim s p st s st :=
  ⟨id, rfl, rfl, rfl, fun _ h => h, fun _ h => Or.inl h, fun _ h => h⟩

theorem prim_banPeer (s : St) (p : Nat) (st : Peer) :
    Prim s p st (banPeer s p st).1 (banPeer s p st).2 := by
  refine ⟨?_, rfl, rfl, rfl, ?_, ?_, ?_⟩
  · intro h
    have l1 := length_sremove_le p s.cold
    have l2 := length_sremove_le p s.warm
    have l3 := length_sremove_le p s.hot
    have := h.limW; have := h.limH; have := h.limT
    constructor <;> simp only [banPeer]
    · exact nodup_sremove h.ndC
    · exact nodup_sremove h.ndW
    · exact nodup_sremove h.ndH
    · exact nodup_sinsert h.ndB
    · intro x hx hy; exact h.dCW x (mem_sremove.mp hx).1 (mem_sremove.mp hy).1
    · intro x hx hy; exact h.dCH x (mem_sremove.mp hx).1 (mem_sremove.mp hy).1
    · intro x hx hy
      rcases mem_sinsert.mp hy with e | e
      · exact (mem_sremove.mp hx).2 e
      · exact h.dCB x (mem_sremove.mp hx).1 e
    · intro x hx hy; exact h.dWH x (mem_sremove.mp hx).1 (mem_sremove.mp hy).1
    · intro x hx hy
      rcases mem_sinsert.mp hy with e | e
      · exact (mem_sremove.mp hx).2 e
      · exact h.dWB x (mem_sremove.mp hx).1 e
    · intro x hx hy
      rcases mem_sinsert.mp hy with e | e
      · exact (mem_sremove.mp hx).2 e
      · exact h.dHB x (mem_sremove.mp hx).1 e
    · omega
    · omega
    · omega
  · intro q hq; exact mem_sinsert.mpr (Or.inr hq)
  · intro q hq
    rcases mem_sinsert.mp hq with e | e
    · exact Or.inr e
    · exact Or.inl e
  · intro _ _ _ hw
    rcases hw with e | e <;> simp [banPeer] at e

theorem prim_promoteCold (s : St) (p : Nat) (st : Peer) (hw : s.warm.length < s.cfg.maxWarm) :
    Prim s p st (promoteCold s p st).1 (promoteCold s p st).2 := by
  unfold promoteCold
  by_cases hp : p ∈ s.cold
  · simp only [hp, if_true]
    refine ⟨?_, rfl, rfl, rfl, fun _ h => h, fun _ h => Or.inl h, ?_⟩
    · intro h
      have l1 := length_sremove_mem h.ndC hp
      have l2 := length_sinsert_le p s.warm
      have := h.limW; have := h.limH; have := h.limT
      constructor <;> dsimp only
      · exact nodup_sremove h.ndC
      · exact nodup_sinsert h.ndW
      · exact h.ndH
      · exact h.ndB
      · intro x hx hy
        rcases mem_sinsert.mp hy with e | e
        · exact (mem_sremove.mp hx).2 e
        · exact h.dCW x (mem_sremove.mp hx).1 e
      · intro x hx hy; exact h.dCH x (mem_sremove.mp hx).1 hy
      · intro x hx hy; exact h.dCB x (mem_sremove.mp hx).1 hy
      · intro x hx hy
        rcases mem_sinsert.mp hx with e | e
        · subst e; exact h.dCH x hp hy
        · exact h.dWH x e hy
      · intro x hx hy
        rcases mem_sinsert.mp hx with e | e
        · subst e; exact h.dCB x hp hy
        · exact h.dWB x e hy
      · exact h.dHB
      · omega
      · omega
      · omega
    · intro h _ hb; exact absurd hb (h.dCB p hp)
  · simp only [hp, if_false]; exact Prim.rfl' s p st

theorem prim_promoteWarm (s : St) (p : Nat) (st : Peer) (hh : s.hot.length < s.cfg.maxHot) :
    Prim s p st (promoteWarm s p st).1 (promoteWarm s p st).2 := by
  unfold promoteWarm
  by_cases hp : p ∈ s.warm
  · simp only [hp, if_true]
    refine ⟨?_, rfl, rfl, rfl, fun _ h => h, fun _ h => Or.inl h, ?_⟩
    · intro h
      have l1 := length_sremove_mem h.ndW hp
      have l1' := length_sremove_le p s.warm
      have l2 := length_sinsert_le p s.hot
      have := h.limW; have := h.limH; have := h.limT
      constructor <;> dsimp only
      · exact h.ndC
      · exact nodup_sremove h.ndW
      · exact nodup_sinsert h.ndH
      · exact h.ndB
      · intro x hx hy; exact h.dCW x hx (mem_sremove.mp hy).1
      · intro x hx hy
        rcases mem_sinsert.mp hy with e | e
        · subst e; exact h.dCW x hx hp
        · exact h.dCH x hx e
      · exact h.dCB
      · intro x hx hy
        rcases mem_sinsert.mp hy with e | e
        · exact (mem_sremove.mp hx).2 e
        · exact h.dWH x (mem_sremove.mp hx).1 e
      · intro x hx hy; exact h.dWB x (mem_sremove.mp hx).1 hy
      · intro x hx hy
        rcases mem_sinsert.mp hx with e | e
        · subst e; exact h.dWB x hp hy
        · exact h.dHB x e hy
      · omega
      · omega
      · omega
    · intro h _ hb; exact absurd hb (h.dWB p hp)
  · simp only [hp, if_false]; exact Prim.rfl' s p st

/-- `categorize_peer` never underflows on a state within its limits, and is a `Prim` -/
theorem categorize_prim (s : St) (p : Nat) (st : Peer) (h : SetsOK s) :
    ∃ s' st', categorize s p st = some (s', st') ∧ Prim s p st s' st' := by
  unfold categorize
  by_cases c1 : st.violation = true ∧ p ∉ s.banned
  · rw [if_pos c1]; exact ⟨_, _, rfl, prim_banPeer s p st⟩
  · rw [if_neg c1]
    by_cases c2 : st.errorCount > s.cfg.maxErr ∧ p ∉ s.banned
    · rw [if_pos c2]; exact ⟨_, _, rfl, prim_banPeer s p st⟩
    · rw [if_neg c2, usub_some h.limW]
      dsimp only
      by_cases c3 : s.cfg.maxWarm - s.warm.length > 0 ∧ p ∈ s.cold
      · rw [if_pos c3]; exact ⟨_, _, rfl, prim_promoteCold s p st (by omega)⟩
      · rw [if_neg c3, usub_some h.limH]
        dsimp only
        by_cases c4 : s.cfg.maxHot - s.hot.length > 0 ∧ p ∈ s.warm ∧ st.isInitialized = true
        · rw [if_pos c4]; exact ⟨_, _, rfl, prim_promoteWarm s p st (by omega)⟩
        · rw [if_neg c4]; exact ⟨_, _, rfl, Prim.rfl' s p st⟩

/-- `on_peer_discovered` likewise; the fresh record never ends Warm/Hot -/
theorem onPeerDiscovered_prim (s : St) (p : Nat) (st : Peer) (h : SetsOK s) :
    ∃ s' st', onPeerDiscovered s p st = some (s', st') ∧ Prim s p st s' st' ∧
      (¬ WH st.tag → ¬ WH st'.tag) := by
  unfold onPeerDiscovered
  by_cases c1 : p ∈ s.banned
  · rw [if_pos c1]
    refine ⟨_, _, rfl, ⟨id, rfl, rfl, rfl, fun _ h => h, fun _ h => Or.inl h, ?_⟩, ?_⟩
    · intro _ _ _ hw; rcases hw with e | e <;> simp at e
    · intro _ hw; rcases hw with e | e <;> simp at e
  · rw [if_neg c1]
    by_cases c2 : p ∈ s.warm ∨ p ∈ s.hot
    · rw [if_pos c2]; exact ⟨_, _, rfl, Prim.rfl' s p st, id⟩
    · rw [if_neg c2]
      have ht : s.total ≤ s.cfg.maxPeers := h.limT
      rw [usub_some ht]
      dsimp only
      by_cases c3 : s.cfg.maxPeers - s.total > 0
      · rw [if_pos c3]
        refine ⟨_, _, rfl, ⟨?_, rfl, rfl, rfl, fun _ h => h, fun _ h => Or.inl h, ?_⟩, ?_⟩
        · intro _
          have l := length_sinsert_le p s.cold
          have := h.limW; have := h.limH
          have ht' : s.cold.length + s.warm.length + s.hot.length < s.cfg.maxPeers := by
            unfold St.total at c3; omega
          constructor <;> dsimp only
          · exact nodup_sinsert h.ndC
          · exact h.ndW
          · exact h.ndH
          · exact h.ndB
          · intro x hx hy
            rcases mem_sinsert.mp hx with e | e
            · subst e; exact c2 (Or.inl hy)
            · exact h.dCW x e hy
          · intro x hx hy
            rcases mem_sinsert.mp hx with e | e
            · subst e; exact c2 (Or.inr hy)
            · exact h.dCH x e hy
          · intro x hx hy
            rcases mem_sinsert.mp hx with e | e
            · subst e; exact c1 hy
            · exact h.dCB x e hy
          · exact h.dWH
          · exact h.dWB
          · exact h.dHB
          · omega
          · omega
          · omega
        · intro _ _ _ hw; rcases hw with e | e <;> simp at e
        · intro _ hw; rcases hw with e | e <;> simp at e
      · rw [if_neg c3]; exact ⟨_, _, rfl, Prim.rfl' s p st, id⟩

end PallasVerif.P2P
