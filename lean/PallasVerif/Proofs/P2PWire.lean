import PallasVerif.Model.P2PNet
/-! Algebra of the specification tables: client and server moves of one protocol exclude each
    other (agency), moves of different protocols commute. -/
namespace PallasVerif.P2P

theorem map_some {α β : Type} {f : α → β} {o : Option α} {b : β} (h : o.map f = some b) :
    ∃ a, o = some a ∧ f a = b := by
  cases o with
  | none => cases h
  | some a => exact ⟨a, rfl, by simpa using h⟩

theorem hs_agency {s : SHs} {m m' : HsMsg} {a b : SHs} (h1 : cHs s m = some a) (h2 : sHs s m' = some b) : False := by
  cases s <;> cases m <;> cases m' <;> simp [cHs, sHs] at h1 h2
theorem ka_agency {s : SKa} {m m' : KaMsg} {a b : SKa} (h1 : cKa s m = some a) (h2 : sKa s m' = some b) : False := by
  cases s <;> cases m <;> cases m' <;> simp [cKa, sKa] at h1 h2
theorem ps_agency {s : SPs} {m m' : PsMsg} {a b : SPs} (h1 : cPs s m = some a) (h2 : sPs s m' = some b) : False := by
  cases s <;> cases m <;> cases m' <;> simp [cPs, sPs] at h1 h2
theorem bf_agency {s : SBf} {m m' : BfMsg} {a b : SBf} (h1 : cBf s m = some a) (h2 : sBf s m' = some b) : False := by
  cases s <;> cases m <;> cases m' <;> simp [cBf, sBf] at h1 h2
theorem cs_agency {s : SCs} {m m' : CsMsg} {a b : SCs} (h1 : cCs s m = some a) (h2 : sCs s m' = some b) : False := by
  cases s <;> cases m <;> cases m' <;> simp [cCs, sCs] at h1 h2
theorem tx_agency {s : STx} {m m' : TxMsg} {a b : STx} (h1 : cTx s m = some a) (h2 : sTx s m' = some b) : False := by
  cases s <;> cases m <;> cases m' <;> simp [cTx, sTx] at h1 h2
theorem ln_agency {s : SLn} {m m' : LnMsg} {a b : SLn} (h1 : cLn s m = some a) (h2 : sLn s m' = some b) : False := by
  cases s <;> cases m <;> cases m' <;> simp [cLn, sLn] at h1 h2
theorem lf_agency {s : SLf} {m m' : LfMsg} {a b : SLf} (h1 : cLf s m = some a) (h2 : sLf s m' = some b) : False := by
  cases s <;> cases m <;> cases m' <;> simp [cLf, sLf] at h1 h2

/-- a client move and a server move enabled in the same view commute (they belong to different
    protocols: one protocol never gives both sides agency) -/
theorem client_server_commute {v v1 v2 : Wire} {m m' : Msg}
    (h1 : clientStep v m = some v1) (h2 : serverStep v m' = some v2) :
    ∃ v3, clientStep v2 m = some v3 ∧ serverStep v1 m' = some v3 := by
  cases m <;> cases m' <;>
    (simp only [clientStep] at h1; simp only [serverStep] at h2
     obtain ⟨x, hx, rfl⟩ := map_some h1
     obtain ⟨y, hy, rfl⟩ := map_some h2
     first
       | exact (hs_agency hx hy).elim
       | exact (ka_agency hx hy).elim
       | exact (cs_agency hx hy).elim
       | exact (ps_agency hx hy).elim
       | exact (bf_agency hx hy).elim
       | exact (tx_agency hx hy).elim
       | exact (ln_agency hx hy).elim
       | exact (lf_agency hx hy).elim
       | (simp only [clientStep, serverStep, hx, hy, Option.map_some]; exact ⟨_, rfl, rfl⟩))

/-- the same along a queue of server moves -/
theorem adv_commute {m : Msg} : ∀ (q : List Msg) {v v1 w : Wire}, clientStep v m = some v1 → advServer v q = some w →
    ∃ w', clientStep w m = some w' ∧ advServer v1 q = some w' := by
  intro q
  induction q with
  | nil => intro v v1 w h1 h2; simp only [advServer, Option.some.injEq] at h2; subst h2; exact ⟨v1, h1, rfl⟩
  | cons m' q ih =>
    intro v v1 w h1 h2
    unfold advServer at h2
    cases hs : serverStep v m' with
    | none => simp only [hs] at h2; cases h2
    | some v2 =>
      simp only [hs] at h2
      obtain ⟨v3, hc, hs'⟩ := client_server_commute h1 hs
      obtain ⟨w', hw, ha⟩ := ih hc h2
      exact ⟨w', hw, by simp only [advServer, hs', ha]⟩

/-- client moves of different protocols do not disable each other -/
theorem client_client_indep {v v1 : Wire} {m1 m : Msg} (h1 : clientStep v m1 = some v1) (hne : m1.proto ≠ m.proto)
    (hm : (clientStep v m).isSome = true) : (clientStep v1 m).isSome = true := by
  cases m1 <;> cases m <;>
    first
      | exact absurd rfl hne
      | (simp only [clientStep] at h1
         obtain ⟨x, hx, rfl⟩ := map_some h1
         simp only [clientStep, Option.isSome_map] at hm ⊢
         exact hm)

theorem advClient_of_distinct : ∀ (ms : List Msg) (v : Wire), (∀ m, m ∈ ms → (clientStep v m).isSome = true) →
    ms.Pairwise (fun a b => a.proto ≠ b.proto) → (advClient v ms).isSome = true := by
  intro ms
  induction ms with
  | nil => intro v _ _; rfl
  | cons m ms ih =>
    intro v hall hp
    have hm := hall m (List.mem_cons_self ..)
    cases hc : clientStep v m with
    | none => rw [hc] at hm; cases hm
    | some v1 =>
      simp only [advClient, hc]
      obtain ⟨hhead, htail⟩ := List.pairwise_cons.mp hp
      exact ih v1 (fun m' hm' => client_client_indep hc (hhead m' hm') (hall m' (List.mem_cons_of_mem _ hm'))) htail

end PallasVerif.P2P
