import PallasVerif.Model.Traverse
import PallasVerif.Model.TxView
import PallasVerif.Proofs.Cbor
/-! Helper lemmas for C30 / C05: every part that `TxView.viewBlockItem` returns (header, bodies,
    witness sets, auxiliary data values, Byron payloads) is a contiguous slice of the block bytes. -/
namespace PallasVerif.Traverse.Slices
open PallasVerif.Cbor PallasVerif.Traverse PallasVerif.TxView

/-- `a` occurs as a contiguous slice of `b` -/
def Slice (a b : Bytes) : Prop := ∃ pre post, b = pre ++ a ++ post

theorem Slice.refl (a : Bytes) : Slice a a := ⟨[], [], by simp⟩
theorem Slice.trans {a b c : Bytes} (h1 : Slice a b) (h2 : Slice b c) : Slice a c := by
  obtain ⟨p1, q1, rfl⟩ := h1
  obtain ⟨p2, q2, rfl⟩ := h2
  exact ⟨p2 ++ p1, q1 ++ q2, by simp [List.append_assoc]⟩

theorem slice_encodeList (xs : List Item) (x : Item) (h : x ∈ xs) : Slice x.encode (encodeList xs) := by
  induction xs with
  | nil => cases h
  | cons y ys ih =>
    rcases List.mem_cons.mp h with e | h
    · subst e; exact ⟨[], encodeList ys, by simp [encodeList]⟩
    · obtain ⟨p, q, e⟩ := ih h
      exact ⟨y.encode ++ p, q, by simp [encodeList, e, List.append_assoc]⟩

/-- a direct child of an array or map node is a slice of the node's bytes -/
theorem slice_child (top : Item) (x : Item)
    (h : (∃ xs, top.arrayItems? = some xs ∧ x ∈ xs) ∨
         (∃ es, top.mapEntries? = some es ∧ ∃ p ∈ es, x = p.1 ∨ x = p.2)) :
    Slice x.encode top.encode := by
  have key : ∀ (ys : List Item), x ∈ ys → ∀ (pre post : Bytes), Slice x.encode (pre ++ encodeList ys ++ post) := by
    intro ys hx pre post
    obtain ⟨p, q, e⟩ := slice_encodeList ys x hx
    exact ⟨pre ++ p, q ++ post, by simp [e, List.append_assoc]⟩
  have pair_mem : ∀ (ys : List Item) (p : Item × Item), p ∈ pairUp ys → p.1 ∈ ys ∧ p.2 ∈ ys := by
    intro ys
    induction ys using pairUp.induct with
    | case1 k v rest ih =>
      intro p hp
      simp only [pairUp, List.mem_cons] at hp
      rcases hp with e | hp
      · subst e; simp
      · have := ih p hp; simp [this.1, this.2]
    | case2 ys hne =>
      intro p hp
      have : pairUp ys = [] := by
        match ys, hne with
        | [], _ => rfl
        | [_], _ => rfl
        | a :: b :: r, hne => exact absurd rfl (hne a b r)
      rw [this] at hp; cases hp
  cases top with
  | seq hd ys =>
    have hx : x ∈ ys := by
      rcases h with ⟨xs, ha, hx⟩ | ⟨es, hm, p, hp, hx⟩
      · simp only [Item.arrayItems?] at ha; split at ha <;> cases ha; exact hx
      · simp only [Item.mapEntries?] at hm; split at hm <;> cases hm
        have := pair_mem ys p hp
        rcases hx with e | e <;> subst e <;> simp [this.1, this.2]
    have := key ys hx hd.encode []
    simpa [Item.encode] using this
  | seqIndef m ys =>
    have hx : x ∈ ys := by
      rcases h with ⟨xs, ha, hx⟩ | ⟨es, hm, p, hp, hx⟩
      · simp only [Item.arrayItems?] at ha; split at ha <;> cases ha; exact hx
      · simp only [Item.mapEntries?] at hm; split at hm <;> cases hm
        have := pair_mem ys p hp
        rcases hx with e | e <;> subst e <;> simp [this.1, this.2]
    have := key ys hx [initByte m 31] [0xff]
    simpa [Item.encode] using this
  | atom _ => rcases h with ⟨xs, ha, _⟩ | ⟨es, hm, _⟩ <;> simp [Item.arrayItems?, Item.mapEntries?] at *
  | str _ _ => rcases h with ⟨xs, ha, _⟩ | ⟨es, hm, _⟩ <;> simp [Item.arrayItems?, Item.mapEntries?] at *
  | strIndef _ _ => rcases h with ⟨xs, ha, _⟩ | ⟨es, hm, _⟩ <;> simp [Item.arrayItems?, Item.mapEntries?] at *
  | tag _ _ => rcases h with ⟨xs, ha, _⟩ | ⟨es, hm, _⟩ <;> simp [Item.arrayItems?, Item.mapEntries?] at *

end PallasVerif.Traverse.Slices

namespace PallasVerif.Traverse.Slices
open PallasVerif.Cbor PallasVerif.Traverse PallasVerif.TxView

theorem slice_arr {top x : Item} {xs : List Item} (ha : top.arrayItems? = some xs) (hx : x ∈ xs) :
    Slice x.encode top.encode := slice_child top x (Or.inl ⟨xs, ha, hx⟩)

theorem auxEntries_mem : ∀ (es : List (Item × Item)) (aw : List (Nat × Item)), auxEntries? es = some aw →
    ∀ p ∈ aw, ∃ q ∈ es, p.2 = q.2
  | [], aw, h => by simp [auxEntries?] at h; subst h; simp
  | (k, v) :: rest, aw, h => by
    simp only [auxEntries?] at h
    split at h
    · rename_i n r hk hr
      cases h
      intro p hp
      rcases List.mem_cons.mp hp with e | hp
      · exact ⟨(k, v), by simp, by rw [e]⟩
      · obtain ⟨q, hq, e⟩ := auxEntries_mem rest r hr p hp
        exact ⟨q, List.mem_cons_of_mem _ hq, e⟩
    · cases h

theorem wfList_mem : ∀ (xs : List Item) (x : Item), wfList xs = true → x ∈ xs → x.wf = true
  | y :: ys, x, h, hx => by
    simp only [wfList, Bool.and_eq_true] at h
    rcases List.mem_cons.mp hx with e | hx
    · rw [e]; exact h.1
    · exact wfList_mem ys x h.2 hx

/-- the elements of a well-formed array node are well-formed -/
theorem wf_of_arrayItems {top : Item} {xs : List Item} (w : top.wf = true) (ha : top.arrayItems? = some xs)
    (x : Item) (hx : x ∈ xs) : x.wf = true := by
  cases top with
  | seq hd ys =>
    simp only [Item.arrayItems?] at ha; split at ha
    · cases ha; simp only [Item.wf, Bool.and_eq_true] at w; exact wfList_mem _ x w.2 hx
    · cases ha
  | seqIndef m ys =>
    simp only [Item.arrayItems?] at ha; split at ha
    · cases ha; simp only [Item.wf, Bool.and_eq_true] at w; exact wfList_mem _ x w.2 hx
    · cases ha
  | atom _ => simp [Item.arrayItems?] at ha
  | str _ _ => simp [Item.arrayItems?] at ha
  | strIndef _ _ => simp [Item.arrayItems?] at ha
  | tag _ _ => simp [Item.arrayItems?] at ha

/-- every part `viewBlockItem` returns is a contiguous slice of the block's bytes -/
theorem view_parts_are_slices (top : Item) (v : BlockView) (h : viewBlockItem top = some v) :
    Slice v.header.encode top.encode ∧ (∀ b ∈ v.bodies, Slice b.encode top.encode) ∧
    (∀ w ∈ v.wits, Slice w.encode top.encode) ∧ (∀ p ∈ v.auxWire, Slice p.2.encode top.encode) ∧
    (∀ p ∈ v.payloads, Slice p.encode top.encode) ∧ (top.wf = true → v.header.wf = true) := by
  unfold viewBlockItem at h
  split at h
  case h_2 => cases h
  case h_1 t inner htop =>
    have hin : Slice inner.encode top.encode := slice_arr htop (by simp)
    split at h
    case h_2 => cases h
    case h_1 tag parts ht hparts =>
      split at h
      · -- epoch boundary
        split at h
        case h_2 => cases h
        case h_1 header rest =>
          cases h
          exact ⟨(slice_arr hparts (by simp)).trans hin, by simp, by simp, by simp, by simp,
            fun w => wf_of_arrayItems (wf_of_arrayItems w htop inner (by simp)) hparts _ (by simp)⟩
      · split at h
        · -- byron main
          split at h
          case h_2 => cases h
          case h_1 header body rest =>
            split at h
            case h_2 => cases h
            case h_1 txp rest2 hbody =>
              split at h
              case h_2 => cases h
              case h_1 ps hps =>
                cases h
                have hb : Slice body.encode top.encode := (slice_arr hparts (by simp)).trans hin
                have ht : Slice txp.encode top.encode := (slice_arr hbody (by simp)).trans hb
                exact ⟨(slice_arr hparts (by simp)).trans hin, by simp, by simp, by simp,
                  fun p hp => (slice_arr hps hp).trans ht,
                  fun w => wf_of_arrayItems (wf_of_arrayItems w htop inner (by simp)) hparts _ (by simp)⟩
        · -- post-Byron
          split at h
          case h_2 => cases h
          case h_1 header bodies wits aux rest =>
            have hh : Slice header.encode top.encode := (slice_arr hparts (by simp)).trans hin
            have hbs : Slice bodies.encode top.encode := (slice_arr hparts (by simp)).trans hin
            have hws : Slice wits.encode top.encode := (slice_arr hparts (by simp)).trans hin
            have hax : Slice aux.encode top.encode := (slice_arr hparts (by simp)).trans hin
            split at h
            case h_2 => cases h
            case h_1 bs ws es hb hw he =>
              have hauxmem : ∀ aw, auxEntries? es = some aw → ∀ p ∈ aw, Slice p.2.encode top.encode := by
                intro aw haw p hp
                obtain ⟨q, hq, e⟩ := auxEntries_mem es aw haw p hp
                rw [e]
                exact (slice_child aux q.2 (Or.inr ⟨es, he, q, hq, Or.inr rfl⟩)).trans hax
              split at h
              case h_2 => cases h
              case h_1 aw haw =>
                split at h
                · cases h
                  exact ⟨hh, fun b hb' => (slice_arr hb hb').trans hbs, fun w hw' => (slice_arr hw hw').trans hws,
                    hauxmem aw haw, by simp,
                    fun w => wf_of_arrayItems (wf_of_arrayItems w htop inner (by simp)) hparts _ (by simp)⟩
                · split at h
                  case h_2 => cases h
                  case h_1 xs hxs =>
                    split at h
                    case h_2 => cases h
                    case h_1 ns hns =>
                      cases h
                      exact ⟨hh, fun b hb' => (slice_arr hb hb').trans hbs, fun w hw' => (slice_arr hw hw').trans hws,
                        hauxmem aw haw, by simp,
                        fun w => wf_of_arrayItems (wf_of_arrayItems w htop inner (by simp)) hparts _ (by simp)⟩
                · cases h

end PallasVerif.Traverse.Slices
