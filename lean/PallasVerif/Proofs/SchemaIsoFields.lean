import PallasVerif.Proofs.SchemaIsoSums
/-! Iso lemmas for the minicbor-derive field layouts (array with gaps / truncation, map) and flat enums. -/
namespace PallasVerif.Schema
open PallasVerif.Cbor

theorem all_null_replicate : ∀ (l : List Item), l.all isNullItem = true → l = List.replicate l.length mkNull := by
  intro l
  induction l with
  | nil => intro _; rfl
  | cons x r ih =>
    intro h
    simp only [List.all_cons, Bool.and_eq_true] at h
    rw [List.length_cons, List.replicate_succ, ← ih h.2, ← isNullItem_elim h.1]

theorem decArr_nil_inv {d : Schema → Item → Option Value} {pos : Nat} {xs : List Item} {vs : List Value}
    (h : decArr d pos [] xs = some vs) : vs = [] := by
  simp only [decArr] at h
  split at h
  · simp only [Option.some.injEq] at h; exact h.symm
  · simp at h

theorem decArr_cons_inv {d : Schema → Item → Option Value} {pos idx : Nat} {s : Schema} {fs : List (Nat × Schema)}
    {xs : List Item} {vs : List Value} (h : decArr d pos ((idx, s) :: fs) xs = some vs) :
    utf8OkList (xs.take (idx - pos)) = true ∧
    ((∃ it rest v vs', xs.drop (idx - pos) = it :: rest ∧ d s it = some v ∧ decArr d (idx + 1) fs rest = some vs' ∧ vs = v :: vs') ∨
     (xs.drop (idx - pos) = [] ∧ s.isOpt = true ∧ ∃ vs', decArr d (idx + 1) fs [] = some vs' ∧ vs = Value.none :: vs')) := by
  simp only [decArr] at h
  split at h
  · rename_i hu
    refine ⟨hu, ?_⟩
    split at h
    · rename_i it rest hdrop
      cases h1 : d s it with
      | none => simp [h1] at h
      | some v =>
        cases h2 : decArr d (idx + 1) fs rest with
        | none => simp [h1, h2] at h
        | some ws =>
          simp only [h1, h2, Option.some.injEq] at h
          exact Or.inl ⟨it, rest, v, ws, hdrop, h1, h2, h.symm⟩
    · rename_i hdrop
      split at h
      · rename_i ho
        simp only [Option.map_eq_some_iff] at h
        obtain ⟨ws, hws, rfl⟩ := h
        exact Or.inr ⟨hdrop, ho, ws, hws, rfl⟩
      · simp at h
  · simp at h

theorem decArr_cons_length (d : Schema → Item → Option Value) : ∀ (fs : List (Nat × Schema)) pos xs vs,
    decArr d pos fs xs = some vs → vs.length = fs.length := by
  intro fs
  induction fs with
  | nil => intro pos xs vs h; rw [decArr_nil_inv h]; rfl
  | cons q fs ih =>
    intro pos xs vs h
    obtain ⟨idx, s⟩ := q
    obtain ⟨_, hcase⟩ := decArr_cons_inv h
    rcases hcase with ⟨it, rest, v, ws, _, _, h2, rfl⟩ | ⟨_, _, ws, h2, rfl⟩
    · simp [ih (idx + 1) rest ws h2]
    · simp [ih (idx + 1) [] ws h2]

theorem arrFields_iso {e : Schema → Value → Option Item} {d : Schema → Item → Option Value} {c : Schema → Item → Bool}
    (trunc : Bool) :
    ∀ (fs : List (Nat × Schema)), (∀ p, p ∈ fs → ∀ x, c p.2 x = true → Iso (e p.2) (d p.2) x) →
    ∀ pos xs vs, canonArrFields c d trunc pos fs xs = true → decArr d pos fs xs = some vs →
      encArr e trunc pos fs vs = some xs := by
  intro fs
  induction fs with
  | nil =>
    intro _ pos xs vs hcn hd
    simp only [canonArrFields, List.isEmpty_iff] at hcn
    subst hcn
    rw [decArr_nil_inv hd]
    rfl
  | cons q fs ih =>
    intro hc pos xs vs hcn hd
    obtain ⟨idx, s⟩ := q
    have hlen := decArr_cons_length d _ pos xs vs hd
    cases vs with
    | nil => simp at hlen
    | cons v vs' =>
      simp only [canonArrFields, hd] at hcn
      by_cases hnil : (trunc && allNil ((idx, s) :: fs) (v :: vs')) = true
      · simp only [hnil, if_true, List.isEmpty_iff] at hcn
        subst hcn
        simp only [encArr, hnil, if_true]
      · simp only [hnil, Bool.false_eq_true, if_false, Bool.and_eq_true, decide_eq_true_eq] at hcn
        obtain ⟨⟨⟨hpos, htl⟩, hnull⟩, hrest⟩ := hcn
        obtain ⟨_, hcase⟩ := decArr_cons_inv hd
        rcases hcase with ⟨it, rest, w, ws, hdrop, h1, h2, hvs⟩ | ⟨hdrop, _, _, _, _⟩
        · simp only [List.cons.injEq] at hvs
          obtain ⟨rfl, rfl⟩ := hvs
          simp only [hdrop, Bool.and_eq_true] at hrest
          have he1 := hc (idx, s) (by simp) it hrest.1 v h1
          have he2 := ih (fun p hp => hc p (by simp [hp])) (idx + 1) rest vs' hrest.2 h2
          have hlt : ¬ idx < pos := by omega
          have hxs : xs = List.replicate (idx - pos) mkNull ++ it :: rest := by
            have := all_null_replicate _ hnull
            rw [htl] at this
            rw [← this, ← hdrop, List.take_append_drop]
          have hnil' : (trunc && allNil ((idx, s) :: fs) (v :: vs')) = false := by
            cases hq : (trunc && allNil ((idx, s) :: fs) (v :: vs')) with
            | false => rfl
            | true => exact absurd hq hnil
          simp only [encArr, hnil', Bool.false_eq_true, if_false, hlt, he1, he2]
          rw [hxs]
        · simp [hdrop] at hrest

theorem isKey_elim {idx : Nat} {k : Item} (h : isKey idx k = true) : k = mkUInt idx ∧ idx < 2 ^ 64 := by
  cases k <;> simp [isKey] at h
  case atom hd =>
    obtain ⟨⟨hm, hv⟩, hmin⟩ := h
    obtain ⟨e, hl⟩ := headMin_elim hmin
    rw [hm, hv] at e
    exact ⟨by simp [mkUInt, ← e], by omega⟩

theorem resOf_allOpt_none : ∀ (fs : List (Nat × Schema)), fs.all (fun p => p.2.isOpt) = true →
    resOf fs (List.replicate fs.length Value.none) = [] := by
  intro fs
  induction fs with
  | nil => intro _; rfl
  | cons q fs ih =>
    intro h
    obtain ⟨idx, s⟩ := q
    simp only [List.all_cons, Bool.and_eq_true] at h
    simp [List.replicate_succ, resOf, isNilField, h.1, ih h.2]

theorem encMapFields_allOpt_none (e : Schema → Value → Option Item) : ∀ (fs : List (Nat × Schema)),
    fs.all (fun p => p.2.isOpt) = true → encMapFields e fs (List.replicate fs.length Value.none) = some [] := by
  intro fs
  induction fs with
  | nil => intro _; rfl
  | cons q fs ih =>
    intro h
    obtain ⟨idx, s⟩ := q
    simp only [List.all_cons, Bool.and_eq_true] at h
    simp [List.replicate_succ, encMapFields, isNilField, h.1, ih h.2]

theorem mapFields_shape {e : Schema → Value → Option Item} {d : Schema → Item → Option Value} {c : Schema → Item → Bool}
    (FS : List (Nat × Schema)) :
    ∀ (fs : List (Nat × Schema)), (∀ p, p ∈ fs → ∀ x, c p.2 x = true → Iso (e p.2) (d p.2) x) →
    ∀ (es : List (Item × Item)) (res : List (Nat × Value)),
      (∀ p, p ∈ fs → findField (p.1 : Int) FS = some p ∧ p.1 < 2 ^ 63) →
      canonMapFields c d fs es = true → decMapEntries d FS es = some res →
      ∃ vs', vs'.length = fs.length ∧ res = resOf fs vs' ∧ encMapFields e fs vs' = some es := by
  intro fs
  induction fs with
  | nil =>
    intro _ es res _ hcn hd
    cases es with
    | nil => simp [decMapEntries] at hd; subst hd; exact ⟨[], rfl, rfl, rfl⟩
    | cons _ _ => simp [canonMapFields] at hcn
  | cons q fs ih =>
    intro hc es res hf hcn hd
    obtain ⟨idx, s⟩ := q
    cases es with
    | nil =>
      simp only [canonMapFields] at hcn
      simp [decMapEntries] at hd
      subst hd
      exact ⟨List.replicate (fs.length + 1) Value.none, by simp, (resOf_allOpt_none _ hcn).symm,
        encMapFields_allOpt_none e _ hcn⟩
    | cons kv es' =>
      obtain ⟨k, v⟩ := kv
      simp only [canonMapFields] at hcn
      split at hcn
      · rename_i hkey
        obtain ⟨rfl, hidx64⟩ := isKey_elim hkey
        simp only [Bool.and_eq_true] at hcn
        obtain ⟨⟨hcv, hnn⟩, hrest⟩ := hcn
        obtain ⟨hfind, hidx⟩ := hf (idx, s) (by simp)
        simp only at hfind hidx
        simp only [decMapEntries, mkUInt_int idx hidx64, intInBits_nat idx hidx, if_true, hfind] at hd
        cases h1 : d s v with
        | none => simp [h1] at hd
        | some x =>
          cases h2 : decMapEntries d FS es' with
          | none => simp [h1, h2] at hd
          | some r' =>
            simp only [h1, h2, Option.some.injEq] at hd
            subst hd
            obtain ⟨vs'', hl, hr, he⟩ := ih (fun p hp => hc p (by simp [hp])) es' r' (fun p hp => hf p (by simp [hp])) hrest h2
            simp only [h1, Bool.not_eq_true'] at hnn
            refine ⟨x :: vs'', by simp [hl], by simp [resOf, hnn, hr], ?_⟩
            simp only [encMapFields, hnn, Bool.false_eq_true, if_false, hc (idx, s) (by simp) v hcv x h1, he]
      · simp only [Bool.and_eq_true] at hcn
        obtain ⟨vs'', hl, hr, he⟩ := ih (fun p hp => hc p (by simp [hp])) ((k, v) :: es') res (fun p hp => hf p (by simp [hp])) hcn.2 hd
        have hn : isNilField s Value.none = true := by simp [isNilField, hcn.1]
        exact ⟨Value.none :: vs'', by simp [hl], by simp [resOf, hn, hr], by simp only [encMapFields, hn, if_true, he]⟩

theorem flatten_pairUp_even : ∀ (n : Nat) (xs : List Item), xs.length ≤ n → xs.length % 2 = 0 → flattenPairs (pairUp xs) = xs := by
  intro n
  induction n with
  | zero =>
    intro xs hl _
    cases xs with
    | nil => rfl
    | cons _ _ => simp at hl
  | succ n ih =>
    intro xs hl he
    match xs, he with
    | [], _ => rfl
    | [_], he => simp at he
    | k :: v :: r, he =>
      simp only [List.length_cons] at he hl
      simp [pairUp, flattenPairs, ih r (by omega) (by omega)]

theorem iso_struct {e : Schema → Value → Option Item} {d : Schema → Item → Option Value} {c : Schema → Item → Bool}
    (l : Layout) (t : Option Nat) (fs : List (Nat × Schema))
    (hc : ∀ p, p ∈ fs → ∀ x, c p.2 x = true → Iso (e p.2) (d p.2) x)
    (hi : increasingFrom 0 fs = true) (it : Item) (h : canonStruct c d l t fs it = true) :
    Iso (encStruct e l t fs) (decStruct d l t fs) it := by
  -- peel the optional tag
  have key : ∀ body : Item, canonBody c d l fs body = true →
      ∀ v, decStruct d l none fs body = some v → encStruct e l none fs v = some body := by
    intro body hb v hd
    cases l with
    | array =>
      cases body <;> simp only [canonBody] at hb <;> try (simp at hb; done)
      case seq hd2 xs =>
        simp only [Bool.and_eq_true, beq_iff_eq, decide_eq_true_eq] at hb
        obtain ⟨⟨rfl, hl⟩, hcn⟩ := hb
        simp only [decStruct, unwrapTag, Item.arrayItems?, minHead_major, if_true] at hd
        cases hm : decArr d 0 fs xs with
        | none => simp [hm] at hd
        | some vs =>
          simp only [hm, Option.map_some, Option.some.injEq] at hd
          subst hd
          simp [encStruct, arrFields_iso true fs hc 0 xs vs hcn hm, wrapTag, mkArray]
    | map =>
      cases body <;> simp only [canonBody] at hb <;> try (simp at hb; done)
      case seq hd2 xs =>
        simp only [Bool.and_eq_true, beq_iff_eq, decide_eq_true_eq] at hb
        obtain ⟨⟨⟨rfl, hl⟩, hev⟩, hcn⟩ := hb
        simp only [decStruct, unwrapTag, Item.mapEntries?, minHead_major, if_true] at hd
        have h54 : ¬ (5 = 4) := by decide
        cases hm : decMapEntries d fs (pairUp xs) with
        | none => simp [hm] at hd
        | some res =>
          simp only [hm] at hd
          obtain ⟨vs', hl', hr, he⟩ := mapFields_shape fs fs hc (pairUp xs) res
            (fun p hp => ⟨findField_increasing fs 0 hi p hp, (increasing_bounds fs 0 hi p hp).2⟩) hcn hm
          have hcol := collect_resOf fs 0 vs' [] hi hl' (fun q hq => by simp at hq)
          simp only [List.nil_append, ← hr] at hcol
          simp only [hcol, Option.map_some, Option.some.injEq] at hd
          subst hd
          simp [encStruct, he, wrapTag, mkMapFlat, flatten_pairUp_even xs.length xs (Nat.le_refl _) hev]
  cases t with
  | none =>
    simp only [canonStruct, canonOptTag] at h
    exact key it h
  | some n =>
    simp only [canonStruct, canonOptTag] at h
    obtain ⟨body, rfl, hn, hb⟩ := canonTag_elim h
    intro v hd
    have hv : (minHead 6 n).val = n := minHead_val 6 n hn
    have hd' : decStruct d l none fs body = some v := by
      simpa [decStruct, unwrapTag, mkTag, hv] using hd
    have := key body hb v hd'
    cases v <;> simp only [encStruct] at this ⊢ <;> try (simp at this; done)
    case list vs =>
      cases l <;> simp only [Option.map_eq_some_iff, wrapTag] at this ⊢
      · obtain ⟨a, ha, hab⟩ := this
        exact ⟨a, ha, by rw [hab]⟩
      · obtain ⟨a, ha, hab⟩ := this
        exact ⟨a, ha, by rw [hab]⟩

theorem iso_enumFlat {e : Schema → Value → Option Item} {d : Schema → Item → Option Value} {c : Schema → Item → Bool}
    (vs : List (Nat × List (Nat × Schema)))
    (hc : ∀ v, v ∈ vs → ∀ p, p ∈ v.2 → ∀ x, c p.2 x = true → Iso (e p.2) (d p.2) x) (it : Item)
    (h : canonEnumFlat c d vs it = true) : Iso (encEnumFlat e vs) (decEnumFlat d vs) it := by
  cases it <;> simp only [canonEnumFlat] at h <;> try (simp at h; done)
  case seq hd ys =>
    cases ys with
    | nil => simp [canonEnumFlat] at h
    | cons x xs =>
      simp only [Bool.and_eq_true, beq_iff_eq, decide_eq_true_eq] at h
      obtain ⟨⟨⟨rfl, hl⟩, hx⟩, hz⟩ := h
      obtain ⟨n, hn, rfl, _⟩ := canonUInt_elim hx
      intro v hdv
      simp only [decEnumFlat, minHead_major, if_true, mkUInt_int n hn] at hdv
      split at hdv
      · cases hf : findVariant (n : Int) 0 vs with
        | none => simp [hf] at hdv
        | some q =>
          obtain ⟨pos, fs⟩ := q
          simp only [hf] at hdv
          split at hdv
          · simp at hdv
          · simp only [Option.map_eq_some_iff] at hdv
            obtain ⟨ws, hws, rfl⟩ := hdv
            obtain ⟨m, hm, _, hg⟩ := findVariant_some vs 0 pos n fs hf
            have : m = n := by omega
            subst this
            simp only [Nat.sub_zero] at hg
            simp only [mkUInt_int m hn, hf] at hz
            simp [encEnumFlat, hg, arrFields_iso false fs (hc (m, fs) (List.mem_of_getElem? hg)) 0 xs ws hz hws, mkArray]
      · simp at hdv

end PallasVerif.Schema
