import PallasVerif.Model.Byron
import PallasVerif.Proofs.CborContainers
import PallasVerif.Proofs.SkipParse
/-!
  CRC-32 facts (register stays below 2^32, every step is injective, hence two messages that differ in
  exactly one byte have different checksums) and the `ByronAddress` codec round trip.
-/
namespace PallasVerif.Byron
open PallasVerif.Cbor PallasVerif.Minicbor PallasVerif.Wrappers

/-! ## xor on `Nat` -/

theorem xor_cancel_right {a b p : Nat} (h : a ^^^ p = b ^^^ p) : a = b := by
  have ha : a = (a ^^^ p) ^^^ p := by rw [Nat.xor_assoc, Nat.xor_self, Nat.xor_zero]
  have hb : b = (b ^^^ p) ^^^ p := by rw [Nat.xor_assoc, Nat.xor_self, Nat.xor_zero]
  rw [ha, hb, h]

theorem xor_cancel_left {a b p : Nat} (h : p ^^^ a = p ^^^ b) : a = b := by
  rw [Nat.xor_comm p a, Nat.xor_comm p b] at h; exact xor_cancel_right h

theorem crcPoly_lt : crcPoly < 2 ^ 32 := by decide
theorem crcPoly_bit31 : crcPoly.testBit 31 = true := by decide

/-! ## the register -/

theorem crcStep_lt {c : Nat} (h : c < 2 ^ 32) : crcStep c < 2 ^ 32 := by
  unfold crcStep
  split
  · exact Nat.xor_lt_two_pow (by omega) crcPoly_lt
  · omega

/-- an odd state lands in the upper half, an even one in the lower half -/
theorem crcStep_odd_ge {c : Nat} (h : c < 2 ^ 32) (ho : c % 2 = 1) : crcStep c ≥ 2 ^ 31 := by
  unfold crcStep
  rw [if_pos ho]
  apply Nat.ge_two_pow_of_testBit
  rw [Nat.testBit_xor, Nat.testBit_lt_two_pow (by omega : c / 2 < 2 ^ 31), crcPoly_bit31]
  rfl

theorem crcStep_even_lt {c : Nat} (h : c < 2 ^ 32) (he : ¬ c % 2 = 1) : crcStep c < 2 ^ 31 := by
  unfold crcStep
  rw [if_neg he]; omega

theorem crcStep_inj {c1 c2 : Nat} (h1 : c1 < 2 ^ 32) (h2 : c2 < 2 ^ 32) (h : crcStep c1 = crcStep c2) : c1 = c2 := by
  by_cases o1 : c1 % 2 = 1 <;> by_cases o2 : c2 % 2 = 1
  · have e : c1 / 2 = c2 / 2 := by
      unfold crcStep at h; rw [if_pos o1, if_pos o2] at h; exact xor_cancel_right h
    omega
  · have := crcStep_odd_ge h1 o1; have := crcStep_even_lt h2 o2; omega
  · have := crcStep_even_lt h1 o1; have := crcStep_odd_ge h2 o2; omega
  · unfold crcStep at h; rw [if_neg o1, if_neg o2] at h; omega

theorem crcStep8_lt {c : Nat} (h : c < 2 ^ 32) : crcStep8 c < 2 ^ 32 := by
  unfold crcStep8
  exact crcStep_lt (crcStep_lt (crcStep_lt (crcStep_lt (crcStep_lt (crcStep_lt (crcStep_lt (crcStep_lt h)))))))

theorem crcStep8_inj {c1 c2 : Nat} (h1 : c1 < 2 ^ 32) (h2 : c2 < 2 ^ 32) (h : crcStep8 c1 = crcStep8 c2) : c1 = c2 := by
  unfold crcStep8 at h
  have a1 := crcStep_lt h1; have a2 := crcStep_lt h2
  have b1 := crcStep_lt a1; have b2 := crcStep_lt a2
  have d1 := crcStep_lt b1; have d2 := crcStep_lt b2
  have e1 := crcStep_lt d1; have e2 := crcStep_lt d2
  have f1 := crcStep_lt e1; have f2 := crcStep_lt e2
  have g1 := crcStep_lt f1; have g2 := crcStep_lt f2
  have i1 := crcStep_lt g1; have i2 := crcStep_lt g2
  exact crcStep_inj h1 h2 (crcStep_inj a1 a2 (crcStep_inj b1 b2 (crcStep_inj d1 d2 (crcStep_inj e1 e2
    (crcStep_inj f1 f2 (crcStep_inj g1 g2 (crcStep_inj i1 i2 h)))))))

theorem byte_lt_2_32 (b : UInt8) : b.toNat < 2 ^ 32 := by have := UInt8.toNat_lt b; omega

theorem crcByte_lt {c : Nat} (h : c < 2 ^ 32) (b : UInt8) : crcByte c b < 2 ^ 32 :=
  crcStep8_lt (Nat.xor_lt_two_pow h (byte_lt_2_32 b))

theorem crcByte_inj_state {c1 c2 : Nat} (h1 : c1 < 2 ^ 32) (h2 : c2 < 2 ^ 32) (b : UInt8)
    (h : crcByte c1 b = crcByte c2 b) : c1 = c2 :=
  xor_cancel_right (crcStep8_inj (Nat.xor_lt_two_pow h1 (byte_lt_2_32 b)) (Nat.xor_lt_two_pow h2 (byte_lt_2_32 b)) h)

theorem crcByte_inj_byte {c : Nat} (hc : c < 2 ^ 32) (b1 b2 : UInt8) (h : crcByte c b1 = crcByte c b2) : b1 = b2 := by
  have := xor_cancel_left (crcStep8_inj (Nat.xor_lt_two_pow hc (byte_lt_2_32 b1)) (Nat.xor_lt_two_pow hc (byte_lt_2_32 b2)) h)
  exact UInt8.toNat_inj.mp this

theorem crcRun_cons (c : Nat) (b : UInt8) (t : Bytes) : crcRun c (b :: t) = crcRun (crcByte c b) t := rfl

theorem crcRun_lt {c : Nat} (h : c < 2 ^ 32) (bs : Bytes) : crcRun c bs < 2 ^ 32 := by
  induction bs generalizing c with
  | nil => exact h
  | cons b t ih => rw [crcRun_cons]; exact ih (crcByte_lt h b)

theorem crcRun_inj_state {c1 c2 : Nat} (h1 : c1 < 2 ^ 32) (h2 : c2 < 2 ^ 32) (bs : Bytes)
    (h : crcRun c1 bs = crcRun c2 bs) : c1 = c2 := by
  induction bs generalizing c1 c2 with
  | nil => exact h
  | cons b t ih =>
    rw [crcRun_cons, crcRun_cons] at h
    exact crcByte_inj_state h1 h2 b (ih (crcByte_lt h1 b) (crcByte_lt h2 b) h)

theorem crcMask_lt : crcMask < 2 ^ 32 := by decide

theorem crc32_lt (bs : Bytes) : crc32 bs < 2 ^ 32 :=
  Nat.xor_lt_two_pow (crcRun_lt crcMask_lt bs) crcMask_lt

/-- replacing exactly one byte by a different one changes the register, whatever the start state -/
theorem crcRun_set_ne {c : Nat} (hc : c < 2 ^ 32) (bs : Bytes) (j : Nat) (hj : j < bs.length) (b' : UInt8)
    (hne : b' ≠ bs[j]) : crcRun c (bs.set j b') ≠ crcRun c bs := by
  induction bs generalizing c j with
  | nil => simp at hj
  | cons b t ih =>
    cases j with
    | zero =>
      simp only [List.set_cons_zero, crcRun_cons]
      intro h
      have := crcRun_inj_state (crcByte_lt hc b') (crcByte_lt hc b) t h
      exact hne (by simpa using crcByte_inj_byte hc b' b this)
    | succ j =>
      simp only [List.set_cons_succ, crcRun_cons]
      exact ih (crcByte_lt hc b) j (by simpa using hj) (by simpa using hne)

/-- **CRC-32 detects every corruption confined to one byte** -/
theorem crc32_set_ne (bs : Bytes) (j : Nat) (hj : j < bs.length) (b' : UInt8) (hne : b' ≠ bs[j]) :
    crc32 (bs.set j b') ≠ crc32 bs := by
  intro h
  exact crcRun_set_ne crcMask_lt bs j hj b' hne (xor_cancel_right h)

/-- flip bit `i % 8` of byte `i / 8` -/
def flipBit (bs : Bytes) (i : Nat) : Bytes :=
  bs.set (i / 8) (UInt8.ofNat ((bs.getD (i / 8) 0).toNat ^^^ 2 ^ (i % 8)))

theorem flipped_byte_ne (b : UInt8) (k : Nat) (hk : k < 8) : UInt8.ofNat (b.toNat ^^^ 2 ^ k) ≠ b := by
  intro h
  have hb := UInt8.toNat_lt b
  have hp : 2 ^ k < 2 ^ 8 := Nat.pow_lt_pow_right (by omega) hk
  have hlt : b.toNat ^^^ 2 ^ k < 2 ^ 8 := Nat.xor_lt_two_pow (by omega) hp
  have := congrArg UInt8.toNat h
  rw [toNat_ofNat_lt _ (by omega)] at this
  have h0 : 2 ^ k = 0 := by
    have e : b.toNat ^^^ 2 ^ k = b.toNat ^^^ 0 := by rw [Nat.xor_zero]; exact this
    exact xor_cancel_left e
  have : 0 < 2 ^ k := Nat.pow_pos (by omega)
  omega

/-- **every single-bit corruption of a message changes its CRC-32** (any length, any bit) -/
theorem crc32_flipBit_ne (bs : Bytes) (i : Nat) (hi : i < 8 * bs.length) : crc32 (flipBit bs i) ≠ crc32 bs := by
  have hj : i / 8 < bs.length := by omega
  unfold flipBit
  apply crc32_set_ne bs (i / 8) hj
  have e : bs.getD (i / 8) 0 = bs[i / 8] := by simp [List.getD, hj]
  rw [e]
  exact flipped_byte_ne _ _ (Nat.mod_lt _ (by omega))

theorem flipBit_length (bs : Bytes) (i : Nat) : (flipBit bs i).length = bs.length := by simp [flipBit]

/-! ## the `ByronAddress` codec -/

theorem byronAddress_dec_enc (a : ByronAddress) (r : Bytes) (hp : a.payload.length < 2 ^ 64) (hc : a.crc < 2 ^ 32) :
    ByronAddress.dec (a.enc ++ r) = .ok a r := by
  have h0 : TagWrap.dec cBytes (TagWrap.enc 24 cBytes a.payload ++ (encUInt a.crc ++ r)) = .ok a.payload (encUInt a.crc ++ r) := by
    simp [TagWrap.dec, TagWrap.enc, cBytes, List.append_assoc, tag_enc 24 _ (by omega), bytes_enc _ _ hp]
  have h1 : Minicbor.u32 (encUInt a.crc ++ r) = .ok a.crc r := uintN_enc 32 a.crc r (by omega) hc
  have hlen : 3 ≤ (TagWrap.enc 24 cBytes a.payload ++ (encUInt a.crc ++ r)).length := by
    simp only [TagWrap.enc, encTag, cBytes, encBytes, encUInt, encHead_eq, List.length_append, List.length_cons]
    omega
  simp only [ByronAddress.dec, ByronAddress.enc, structArray2, List.append_assoc, array_enc 2 _ (by omega), Res.andThen_ok]
  generalize hfuel : (TagWrap.enc 24 cBytes a.payload ++ (encUInt a.crc ++ r)).length = L at hlen
  obtain ⟨f, rfl⟩ : ∃ f, L = f + 3 := ⟨L - 3, by omega⟩
  simp [fieldsDef, h0, h1]

/-! ## `AddressPayload` -/

def AddrDistr.wf : AddrDistr → Prop
  | .singleKey h => h.length = 28
  | .bootstrapEra => True

def AddrAttr.wf : AddrAttr → Prop
  | .addrDistr d => d.wf
  | .derivationPath b => b.length < 2 ^ 64
  | .networkTag b => b.length < 2 ^ 64

def AddressPayload.wf (p : AddressPayload) : Prop :=
  p.root.length = 28 ∧ (∀ a ∈ p.attributes, a.wf) ∧ p.attributes.length < 2 ^ 64 ∧ p.addrtype < 2 ^ 32

theorem hash28_enc (h r : Bytes) (hl : h.length = 28) : hash28 (encBytes h ++ r) = .ok h r := by
  simp [hash28, bytes_enc h r (by omega), hl]

theorem addrDistr_rt (d : AddrDistr) (hw : d.wf) (r : Bytes) : AddrDistr.dec (d.enc ++ r) = .ok d r := by
  cases d with
  | singleKey h =>
    simp only [AddrDistr.wf] at hw
    simp [AddrDistr.dec, AddrDistr.enc, List.append_assoc, array_enc 2 _ (by omega),
      show Minicbor.u32 (encUInt 0 ++ (encBytes h ++ r)) = .ok 0 (encBytes h ++ r) from uintN_enc 32 0 _ (by omega) (by omega),
      hash28_enc h r hw]
  | bootstrapEra =>
    simp [AddrDistr.dec, AddrDistr.enc, List.append_assoc, array_enc 1 _ (by omega),
      show Minicbor.u32 (encUInt 1 ++ r) = .ok 1 r from uintN_enc 32 1 _ (by omega) (by omega)]

theorem addrAttr_rt : RTon cAddrAttr AddrAttr.wf := by
  intro a hw r
  cases a with
  | addrDistr d =>
    simp [cAddrAttr, AddrAttr.dec, AddrAttr.enc, List.append_assoc,
      show Minicbor.u8 (encUInt 0 ++ (d.enc ++ r)) = .ok 0 (d.enc ++ r) from uintN_enc 8 0 _ (by omega) (by omega),
      addrDistr_rt d hw r]
  | derivationPath b =>
    simp only [AddrAttr.wf] at hw
    simp [cAddrAttr, AddrAttr.dec, AddrAttr.enc, List.append_assoc,
      show Minicbor.u8 (encUInt 1 ++ (encBytes b ++ r)) = .ok 1 (encBytes b ++ r) from uintN_enc 8 1 _ (by omega) (by omega),
      bytes_enc b r hw]
  | networkTag b =>
    simp only [AddrAttr.wf] at hw
    simp [cAddrAttr, AddrAttr.dec, AddrAttr.enc, List.append_assoc,
      show Minicbor.u8 (encUInt 2 ++ (encBytes b ++ r)) = .ok 2 (encBytes b ++ r) from uintN_enc 8 2 _ (by omega) (by omega),
      bytes_enc b r hw]

/-- **an `AddressPayload` decodes back from its encoding** (all address types, any attribute list) -/
theorem addressPayload_rt (p : AddressPayload) (hw : p.wf) (r : Bytes) : AddressPayload.dec (p.enc ++ r) = .ok p r := by
  obtain ⟨h1, h2, h3, h4⟩ := hw
  have e0 : hash28 (encBytes p.root ++ (OPP.enc cAddrAttr p.attributes ++ (encUInt p.addrtype ++ r)))
      = .ok p.root (OPP.enc cAddrAttr p.attributes ++ (encUInt p.addrtype ++ r)) := hash28_enc _ _ h1
  have e1 : OPP.dec cAddrAttr (OPP.enc cAddrAttr p.attributes ++ (encUInt p.addrtype ++ r))
      = .ok p.attributes (encUInt p.addrtype ++ r) := opp_rt cAddrAttr AddrAttr.wf addrAttr_rt p.attributes ⟨h2, h3⟩ _
  have e2 : Minicbor.u32 (encUInt p.addrtype ++ r) = .ok p.addrtype r := uintN_enc 32 _ r (by omega) h4
  have hlen : 3 ≤ (encBytes p.root ++ (OPP.enc cAddrAttr p.attributes ++ (encUInt p.addrtype ++ r))).length := by
    simp only [encBytes, OPP.enc, encMapHead, encUInt, encHead_eq, List.length_append, List.length_cons]
    omega
  simp only [AddressPayload.dec, AddressPayload.enc, structArray3, List.append_assoc, array_enc 3 _ (by omega), Res.andThen_ok]
  generalize (encBytes p.root ++ (OPP.enc cAddrAttr p.attributes ++ (encUInt p.addrtype ++ r))).length = L at hlen
  obtain ⟨f, rfl⟩ : ∃ f, L = f + 3 := ⟨L - 3, by omega⟩
  simp [fields3Def, e0, e1, e2]

/-- `decode(from_decoded(p)) = p` -/
theorem decode_fromDecoded (p : AddressPayload) (hw : p.wf) : (fromDecoded p).decode = .ok p := by
  have := addressPayload_rt p hw []
  simp only [List.append_nil] at this
  simp [ByronAddress.decode, fromDecoded, ofPayloadBytes, decodeTop, this]

/-! ## every accepted encoding of the address: any head width for the array, the tag, the byte string
    and the checksum -/

/-- a well-formed definite head of major type `m` -/
def headOk (h : Head) (m : Nat) : Prop := h.wf = true ∧ h.major = m ∧ h.ai ≠ 31

theorem tag_head (h : Head) (rest : Bytes) (hh : headOk h 6) : tag (h.encode ++ rest) = .ok h.val rest := by
  obtain ⟨hw, hm, hai⟩ := hh
  obtain ⟨hu, _, h27⟩ := unsigned_head h rest hw hai
  have hmaj := initByte_major h.major h.ai (by omega) (by omega)
  have hinf := initByte_info h.major h.ai (by omega) (by omega)
  simp only [Head.encode, List.cons_append, tag, hmaj, hinf]
  rw [if_neg (by omega)]; exact hu

theorem bytes_head (h : Head) (bs rest : Bytes) (hh : headOk h 2) (hl : h.val = bs.length) :
    Minicbor.bytes (h.encode ++ (bs ++ rest)) = .ok bs rest := by
  obtain ⟨hw, hm, hai⟩ := hh
  obtain ⟨hu, _, h27⟩ := unsigned_head h (bs ++ rest) hw hai
  have hmaj := initByte_major h.major h.ai (by omega) (by omega)
  have hinf := initByte_info h.major h.ai (by omega) (by omega)
  simp only [Head.encode, List.cons_append, Minicbor.bytes, hmaj, hinf]
  rw [if_neg (by omega), hu]
  simp [hl, readSlice_append]

/-- `u8()..u64()` on an unsigned head of any width: the value if it fits, `overflow` otherwise -/
theorem uintN_head (bits : Nat) (h : Head) (rest : Bytes) (hh : headOk h 0) :
    uintN bits (h.encode ++ rest) = if h.val < 2 ^ bits then .ok h.val rest else .err .overflow := by
  obtain ⟨hw, hm, hai⟩ := hh
  obtain ⟨hu, _, h27⟩ := unsigned_head h rest hw hai
  have hb := initByte_toNat h.major h.ai (by omega) (by omega)
  simp only [Head.encode, List.cons_append, uintN, hb]
  rw [if_pos (by omega)]
  have : h.major * 32 + h.ai = h.ai := by omega
  rw [this, hu]; rfl

/-- the address bytes written with arbitrary (well-formed, definite) heads -/
def encWith (ha ht hb hc : Head) (payload : Bytes) : Bytes :=
  ha.encode ++ (ht.encode ++ (hb.encode ++ (payload ++ hc.encode)))

theorem byronAddress_dec_encWith (ha ht hb hc : Head) (payload r : Bytes)
    (h1 : headOk ha 4) (h1v : ha.val = 2) (h2 : headOk ht 6) (h3 : headOk hb 2) (h3v : hb.val = payload.length)
    (h4 : headOk hc 0) :
    ByronAddress.dec (encWith ha ht hb hc payload ++ r) =
      if hc.val < 2 ^ 32 then .ok ⟨payload, hc.val⟩ r else .err .overflow := by
  have e0 : TagWrap.dec cBytes (ht.encode ++ (hb.encode ++ (payload ++ (hc.encode ++ r)))) = .ok payload (hc.encode ++ r) := by
    simp [TagWrap.dec, cBytes, tag_head ht _ h2, bytes_head hb payload _ h3 h3v]
  have e1 := uintN_head 32 hc r h4
  have ea : array (ha.encode ++ (ht.encode ++ (hb.encode ++ (payload ++ (hc.encode ++ r))))) =
      .ok (some 2) (ht.encode ++ (hb.encode ++ (payload ++ (hc.encode ++ r)))) := by
    have := seqHead_head 4 ha (ht.encode ++ (hb.encode ++ (payload ++ (hc.encode ++ r)))) h1.1 h1.2.2 h1.2.1
    rw [h1v] at this
    simpa [array, Head.encode] using this
  have hlen : 3 ≤ (ht.encode ++ (hb.encode ++ (payload ++ (hc.encode ++ r)))).length := by
    have := Head.encode_length_pos ht; have := Head.encode_length_pos hb; have := Head.encode_length_pos hc
    simp only [List.length_append]; omega
  simp only [ByronAddress.dec, encWith, List.append_assoc, structArray2, ea, Res.andThen_ok]
  generalize hL : (ht.encode ++ (hb.encode ++ (payload ++ (hc.encode ++ r)))).length = L at hlen
  obtain ⟨f, rfl⟩ : ∃ f, L = f + 3 := ⟨L - 3, by omega⟩
  simp only [fieldsDef, Nat.zero_add, e0, Res.andThen_ok]
  simp only [show ¬ (0 ≥ 2) by omega, if_false, if_true, show ¬ (0 + 1 ≥ 2) by omega, show ¬ ((0 : Nat) + 1 = 0) by omega,
    show (0 + 1 = 1) by omega, Minicbor.u32, e1]
  by_cases hv : hc.val < 2 ^ 32
  · simp [hv, fieldsDef]
  · simp [hv]

end PallasVerif.Byron