import PallasVerif.Proofs.SchemaBlock
import PallasVerif.Model.SchemaCanon
/-!
  Chain half of C06 at model level, for every schema: a canonical item (`Model/SchemaCanon.lean`)
  that the typed decoder accepts is re-encoded to exactly itself.
  `Iso e d it` is the statement for one (encoder, decoder) pair at one item; one lemma per node,
  `canon_iso` by induction on the fuel (`Proofs/SchemaIsoMain.lean`).
-/
namespace PallasVerif.Schema
open PallasVerif.Cbor

def Iso (e : Value → Option Item) (d : Item → Option Value) (it : Item) : Prop :=
  ∀ v, d it = some v → e v = some it

theorem headMin_elim {h : Head} (hm : headMin h = true) : h = minHead h.major h.val ∧ h.val < 2 ^ 64 := by
  simp only [headMin, Bool.and_eq_true, beq_iff_eq, decide_eq_true_eq] at hm
  exact hm

/-! ## atoms and strings -/

theorem canonUInt_elim {it : Item} (h : canonUInt it = true) : ∃ n, n < 2 ^ 64 ∧ it = mkUInt n ∧ it.uint? = some n := by
  cases it <;> simp [canonUInt] at h
  case atom hd =>
    obtain ⟨hm, hmin⟩ := h
    obtain ⟨e, hv⟩ := headMin_elim hmin
    refine ⟨hd.val, hv, ?_, by simp [Item.uint?, hm]⟩
    rw [hm] at e
    simp [mkUInt, ← e]

theorem iso_uint (b : Nat) (it : Item) (h : canonUInt it = true) : Iso (encUInt b) (decUInt b) it := by
  obtain ⟨n, hn, rfl, hu⟩ := canonUInt_elim h
  intro v hd
  simp only [decUInt, hu] at hd
  split at hd
  · rename_i hb
    simp only [Option.some.injEq] at hd; subst hd
    simp [encUInt, hb]
  · simp at hd

theorem iso_posCoin (it : Item) (h : canonUInt it = true) : Iso encPosCoin decPosCoin it := by
  obtain ⟨n, hn, rfl, hu⟩ := canonUInt_elim h
  intro v hd
  simp only [decPosCoin, hu] at hd
  split at hd
  · rename_i hb
    simp only [Option.some.injEq] at hd; subst hd
    simp [encPosCoin, hb]
  · simp at hd

theorem canonInt_elim {it : Item} (h : canonInt it = true) :
    ∃ i : Int, -(2 ^ 64 : Int) ≤ i ∧ i < (2 ^ 64 : Int) ∧ it = mkInt i ∧ it.int? = some i := by
  cases it <;> simp [canonInt] at h
  case atom hd =>
    obtain ⟨hm, hmin⟩ := h
    obtain ⟨e, hv⟩ := headMin_elim hmin
    rcases hm with hm | hm
    · refine ⟨(hd.val : Int), by omega, by omega, ?_, by simp [Item.int?, hm]⟩
      rw [hm] at e
      simp [mkInt, ← e]
    · refine ⟨-1 - (hd.val : Int), by omega, by omega, ?_, by simp [Item.int?, hm]⟩
      rw [hm] at e
      have hneg : ¬ (0 ≤ -1 - (hd.val : Int)) := by omega
      have hval : (-1 - (-1 - (hd.val : Int))).toNat = hd.val := by omega
      simp only [mkInt, hneg, if_false, hval, ← e]

theorem iso_sint (b : Nat) (it : Item) (h : canonInt it = true) : Iso (encSInt b) (decSInt b) it := by
  obtain ⟨i, _, _, rfl, hu⟩ := canonInt_elim h
  intro v hd
  simp only [decSInt, hu] at hd
  split at hd
  · rename_i hb
    simp only [Option.some.injEq] at hd; subst hd
    simp [encSInt, hb]
  · simp at hd

theorem iso_int (it : Item) (h : canonInt it = true) : Iso encInt decInt it := by
  obtain ⟨i, h1, h2, rfl, hu⟩ := canonInt_elim h
  intro v hd
  simp only [decInt, hu, Option.some.injEq] at hd
  subst hd
  have h1' : (-18446744073709551616 : Int) ≤ i := by omega
  have h2' : i < (18446744073709551616 : Int) := by omega
  simp [encInt, h1', h2']

theorem iso_nzint (it : Item) (h : canonInt it = true) : Iso encNzInt decNzInt it := by
  obtain ⟨i, _, _, rfl, hu⟩ := canonInt_elim h
  intro v hd
  simp only [decNzInt, hu] at hd
  split at hd
  · rename_i hb
    simp only [Option.some.injEq] at hd; subst hd
    simp only [Bool.and_eq_true, decide_eq_true_eq] at hb
    simp [encNzInt, hb.1, hb.2]
  · simp at hd

theorem canonStr_elim {m : Nat} {it : Item} (h : canonStr m it = true) :
    ∃ hd bs, it = .str hd bs ∧ hd.major = m ∧ hd = minHead m bs.length ∧ bs.length < 2 ^ 64 := by
  cases it <;> simp [canonStr] at h
  case str hd bs =>
    obtain ⟨⟨hm, hmin⟩, hl⟩ := h
    obtain ⟨e, hv⟩ := headMin_elim hmin
    exact ⟨hd, bs, rfl, hm, by rw [hm, ← hl] at e; exact e, by omega⟩

theorem iso_bytes (it : Item) (h : canonStr 2 it = true) : Iso encBytes decBytes it := by
  obtain ⟨hd, bs, rfl, hm, e, hl⟩ := canonStr_elim h
  intro v hdv
  simp only [decBytes, hm, if_true, Option.some.injEq] at hdv
  subst hdv
  simp [encBytes, hl, mkBytes, ← e]

theorem iso_hash (n : Nat) (it : Item) (h : canonStr 2 it = true) : Iso (encHash n) (decHash n) it := by
  obtain ⟨hd, bs, rfl, hm, e, hl⟩ := canonStr_elim h
  intro v hdv
  simp only [decHash, hm, true_and] at hdv
  split at hdv
  · rename_i hn
    simp only [Option.some.injEq] at hdv
    subst hdv
    subst hn
    simp [encHash, hl, mkBytes, ← e]
  · simp at hdv

theorem iso_text (it : Item) (h : canonStr 3 it = true) : Iso encText decText it := by
  obtain ⟨hd, bs, rfl, hm, e, hl⟩ := canonStr_elim h
  intro v hdv
  simp only [decText, hm, true_and] at hdv
  split at hdv
  · rename_i hu
    simp only [Option.some.injEq] at hdv
    subst hdv
    simp [encText, hu, hl, mkText, ← e]
  · simp at hdv

theorem iso_bool (it : Item) (h : canonBool it = true) : Iso encBool decBool it := by
  cases it <;> simp [canonBool] at h
  case atom hd =>
    intro v hdv
    rcases h with rfl | rfl
    · simp [decBool] at hdv; subst hdv; rfl
    · simp [decBool] at hdv; subst hdv; rfl

theorem isNullItem_elim {it : Item} (h : isNullItem it = true) : it = mkNull := by
  cases it <;> simp [isNullItem] at h
  case atom hd => subst h; rfl

theorem isUndefItem_elim {it : Item} (h : isUndefItem it = true) : it = mkUndefined := by
  cases it <;> simp [isUndefItem] at h
  case atom hd => subst h; rfl

/-! ## lists -/

theorem mapOpt_iso {e : Value → Option Item} {d : Item → Option Value} :
    ∀ (xs : List Item) (vs : List Value), (∀ x, x ∈ xs → Iso e d x) → mapOpt d xs = some vs →
      vs.length = xs.length ∧ mapOpt e vs = some xs := by
  intro xs
  induction xs with
  | nil => intro vs _ h; simp [mapOpt] at h; subst h; exact ⟨rfl, rfl⟩
  | cons y ys ih =>
    intro vs hi h
    simp only [mapOpt] at h
    cases h1 : d y with
    | none => simp [h1] at h
    | some w =>
      cases h2 : mapOpt d ys with
      | none => simp [h1, h2] at h
      | some ws =>
        simp only [h1, h2, Option.some.injEq] at h
        subst h
        obtain ⟨l, e'⟩ := ih ws (fun x hx => hi x (by simp [hx])) h2
        exact ⟨by simp [l], by simp only [mapOpt, hi y (by simp) w h1, e']⟩

theorem zipOpt_iso {e : Schema → Value → Option Item} {d : Schema → Item → Option Value} {c : Schema → Item → Bool} :
    ∀ (fs : List Schema), (∀ s, s ∈ fs → ∀ x, c s x = true → Iso (e s) (d s) x) →
    ∀ (xs : List Item) (vs : List Value), zipAll c fs xs = true → zipOpt d fs xs = some vs →
      zipOpt e fs vs = some xs := by
  intro fs
  induction fs with
  | nil =>
    intro _ xs vs _ h
    cases xs with
    | nil => simp [zipOpt] at h; subst h; rfl
    | cons _ _ => simp [zipOpt] at h
  | cons s fs ih =>
    intro hc xs vs hz h
    cases xs with
    | nil => simp [zipOpt] at h
    | cons x xs =>
      simp only [zipAll, Bool.and_eq_true] at hz
      simp only [zipOpt] at h
      cases h1 : d s x with
      | none => simp [h1] at h
      | some w =>
        cases h2 : zipOpt d fs xs with
        | none => simp [h1, h2] at h
        | some ws =>
          simp only [h1, h2, Option.some.injEq] at h
          subst h
          simp only [zipOpt, hc s (by simp) x hz.1 w h1, ih (fun t ht => hc t (by simp [ht])) xs ws hz.2 h2]

theorem all_iso {e : Value → Option Item} {d : Item → Option Value} {c : Item → Bool} (hc : ∀ x, c x = true → Iso e d x)
    {xs : List Item} (h : xs.all c = true) : ∀ x, x ∈ xs → Iso e d x := by
  intro x hx
  rw [List.all_eq_true] at h
  exact hc x (h x hx)

theorem canonArr_elim {c : Item → Bool} {it : Item} (h : canonArr c it = true) :
    ∃ xs, it = mkArray xs ∧ xs.length < 2 ^ 64 ∧ xs.all c = true := by
  cases it <;> simp only [canonArr] at h <;> try (simp at h; done)
  case seq hd xs =>
    simp only [Bool.and_eq_true, beq_iff_eq, decide_eq_true_eq] at h
    obtain ⟨⟨e, hl⟩, ha⟩ := h
    exact ⟨xs, by simp [mkArray, e], hl, ha⟩

theorem iso_vec {e : Value → Option Item} {d : Item → Option Value} {c : Item → Bool} (hc : ∀ x, c x = true → Iso e d x)
    (it : Item) (h : canonArr c it = true) : Iso (encVec e) (decVec d) it := by
  obtain ⟨xs, rfl, hl, ha⟩ := canonArr_elim h
  intro v hd
  simp only [decVec, decVecItems, mkArray_items] at hd
  cases hm : mapOpt d xs with
  | none => simp [hm] at hd
  | some vs =>
    simp only [hm, Option.map_some, Option.some.injEq] at hd
    subst hd
    obtain ⟨l, e'⟩ := mapOpt_iso xs vs (all_iso hc ha) hm
    simp [encVec, l, hl, e']

theorem iso_tuple {e : Schema → Value → Option Item} {d : Schema → Item → Option Value} {c : Schema → Item → Bool}
    (fs : List Schema) (hc : ∀ s, s ∈ fs → ∀ x, c s x = true → Iso (e s) (d s) x) (it : Item) (h : canonTuple c fs it = true) :
    Iso (encTuple e fs) (decTuple d fs) it := by
  cases it <;> simp only [canonTuple] at h <;> try (simp at h; done)
  case seq hd xs =>
    simp only [Bool.and_eq_true, beq_iff_eq, decide_eq_true_eq] at h
    obtain ⟨⟨e1, hl⟩, hz⟩ := h
    intro v hdv
    simp only [decTuple] at hdv
    split at hdv
    · cases hm : zipOpt d fs xs with
      | none => simp [hm] at hdv
      | some vs =>
        simp only [hm, Option.map_some, Option.some.injEq] at hdv
        subst hdv
        simp [encTuple, zipOpt_iso fs hc xs vs hz hm, mkArray, e1]
    · simp at hdv

/-! ## wrappers -/

theorem iso_opt {e : Value → Option Item} {d : Item → Option Value} (it : Item)
    (h : isNullItem it = true ∨ (typeOf it ≠ .null ∧ Iso e d it)) : Iso (encOpt e) (decOpt d) it := by
  intro v hd
  rcases h with h | ⟨hn, hi⟩
  · have := isNullItem_elim h
    subst this
    simp [decOpt, typeOf, mkNull] at hd
    subst hd
    rfl
  · simp only [decOpt, hn, if_false, Option.map_eq_some_iff] at hd
    obtain ⟨w, hw, rfl⟩ := hd
    simpa [encOpt] using hi w hw

theorem iso_nullable {e : Value → Option Item} {d : Item → Option Value} (it : Item)
    (h : isNullItem it = true ∨ isUndefItem it = true ∨ (typeOf it ≠ .null ∧ typeOf it ≠ .undefined ∧ Iso e d it)) :
    Iso (encNullable e) (decNullable d) it := by
  intro v hd
  rcases h with h | h | ⟨hn, hu, hi⟩
  · have := isNullItem_elim h
    subst this
    simp [decNullable, typeOf, mkNull] at hd
    subst hd
    rfl
  · have := isUndefItem_elim h
    subst this
    simp [decNullable, typeOf, mkUndefined] at hd
    subst hd
    rfl
  · simp only [decNullable, hn, hu, if_false, Option.map_eq_some_iff] at hd
    obtain ⟨w, hw, rfl⟩ := hd
    simpa [encNullable] using hi w hw

theorem canonTag_elim {t : Nat} {c : Item → Bool} {it : Item} (h : canonTag t c it = true) :
    ∃ inner, it = mkTag t inner ∧ t < 2 ^ 64 ∧ c inner = true := by
  cases it <;> simp only [canonTag] at h <;> try (simp at h; done)
  case tag hd inner =>
    simp only [Bool.and_eq_true, beq_iff_eq, decide_eq_true_eq] at h
    exact ⟨inner, by simp [mkTag, h.1.1], h.1.2, h.2⟩

theorem iso_tagWrap {e : Value → Option Item} {d : Item → Option Value} {c : Item → Bool} (hc : ∀ x, c x = true → Iso e d x)
    (t : Nat) (it : Item) (h : canonTag t c it = true) : Iso (fun v => encTagWrap e t v) (decTagWrap d) it := by
  obtain ⟨inner, rfl, ht, hci⟩ := canonTag_elim h
  intro v hd
  simp only [decTagWrap, mkTag] at hd
  simp [encTagWrap, ht, hc inner hci v hd]

theorem iso_set {e : Value → Option Item} {d : Item → Option Value} {c : Item → Bool} (hc : ∀ x, c x = true → Iso e d x)
    (it : Item) (h : canonTag 258 (canonArr c) it = true) : Iso (encSet e) (decSet d) it := by
  obtain ⟨inner, rfl, _, hci⟩ := canonTag_elim h
  intro v hd
  have hv : (minHead 6 258).val = 258 := minHead_val 6 258 (by decide)
  simp only [decSet, mkTag_typeOf, if_true] at hd
  simp only [mkTag, hv, if_true] at hd
  simp [encSet, iso_vec hc inner hci v hd]

theorem iso_keepRaw (e : Value → Option Item) (d : Item → Option Value) (it : Item) : Iso (encKeepRaw e) (decKeepRaw d) it := by
  intro v hd
  obtain ⟨y, rfl⟩ := decKeepRaw_some hd
  rfl

theorem iso_any (it : Item) (h : it.wf = true) : Iso encAny (fun it => some (Value.any it)) it := by
  intro v hd
  simp only [Option.some.injEq] at hd
  subst hd
  simp [encAny, h]

theorem iso_emptyMap (it : Item) (h : canonEmptyMap it = true) : Iso encEmptyMap decEmptyMap it := by
  intro v hd
  cases it <;> simp only [canonEmptyMap] at h <;> try (simp at h; done)
  case seq hd2 xs =>
    cases xs with
    | cons _ _ => simp at h
    | nil =>
      simp only [beq_iff_eq] at h
      subst h
      simp only [decEmptyMap] at hd
      split at hd
      · simp only [Option.some.injEq] at hd
        subst hd
        rfl
      · simp at hd

theorem iso_zeroOrOne {e : Value → Option Item} {d : Item → Option Value} {c : Item → Bool} (hc : ∀ x, c x = true → Iso e d x)
    (it : Item) (h : canonZeroOrOne c it = true) : Iso (encZeroOrOne e) (decZeroOrOne d) it := by
  cases it <;> simp only [canonZeroOrOne] at h <;> try (simp at h; done)
  case seq hd xs =>
    intro v hdv
    match xs, h with
    | [], h =>
      simp only [canonZeroOrOne, beq_iff_eq] at h
      subst h
      simp [decZeroOrOne, minHead_major] at hdv
      subst hdv
      rfl
    | [x], h =>
      simp only [canonZeroOrOne, Bool.and_eq_true, beq_iff_eq] at h
      obtain ⟨rfl, hx⟩ := h
      simp only [decZeroOrOne, minHead_major, if_true, Option.map_eq_some_iff] at hdv
      obtain ⟨w, hw, rfl⟩ := hdv
      simp [encZeroOrOne, hc x hx w hw, mkArray]
    | _ :: _ :: _, h => simp [canonZeroOrOne] at h

theorem iso_maybeIndef {e : Value → Option Item} {d : Item → Option Value} {c : Item → Bool} (hc : ∀ x, c x = true → Iso e d x)
    (it : Item) (h : canonMaybeIndef c it = true) : Iso (encMaybeIndef e) (decMaybeIndef d) it := by
  cases it <;> simp only [canonMaybeIndef] at h <;> try (simp at h; done)
  case seq hd xs =>
    have h' : canonArr c (.seq hd xs) = true := by simpa [canonArr] using h
    obtain ⟨ys, hy, hl, ha⟩ := canonArr_elim h'
    rw [hy]
    intro v hdv
    simp only [decMaybeIndef, mkArray_typeOf, if_true, Option.map_eq_some_iff] at hdv
    obtain ⟨w, hw, rfl⟩ := hdv
    have := iso_vec hc (mkArray ys) (by rw [← hy]; exact h') w hw
    simpa [encMaybeIndef] using this
  case seqIndef m xs =>
    simp only [Bool.and_eq_true, decide_eq_true_eq] at h
    obtain ⟨rfl, ha⟩ := h
    intro v hdv
    have ht : typeOf (Item.seqIndef 4 xs) = .arrayIndef := by simp [typeOf]
    have ht2 : ¬ (Ty.arrayIndef = Ty.array) := by decide
    simp only [decMaybeIndef, ht, ht2, if_false, if_true, decVec, decVecItems, Item.arrayItems?] at hdv
    cases hm : mapOpt d xs with
    | none => simp [hm] at hdv
    | some vs =>
      simp only [hm, Option.map_some, Option.some.injEq] at hdv
      subst hdv
      obtain ⟨l, e'⟩ := mapOpt_iso xs vs (all_iso hc ha) hm
      simp [encMaybeIndef, e']

theorem iso_cborWrap {e : Value → Option Item} {d : Item → Option Value} {c : Item → Bool} (hc : ∀ x, c x = true → Iso e d x)
    (it : Item) (h : canonCborWrap c it = true) : Iso (encCborWrap e) (decCborWrap d) it := by
  cases it <;> simp only [canonCborWrap] at h <;> try (simp at h; done)
  case tag hd inner =>
    cases inner <;> simp only [canonCborWrap] at h <;> try (simp at h; done)
    case str h2 bs =>
      simp only [Bool.and_eq_true, beq_iff_eq, decide_eq_true_eq] at h
      obtain ⟨⟨⟨⟨rfl, hm⟩, hmin⟩, hl⟩, hp⟩ := h
      obtain ⟨e2, hv⟩ := headMin_elim hmin
      cases hpi : parseItem bs with
      | none => simp [hpi] at hp
      | some q =>
        obtain ⟨x, r⟩ := q
        cases r with
        | cons _ _ => simp [hpi] at hp
        | nil =>
          simp only [hpi] at hp
          obtain ⟨hb, _⟩ := parseItem_sound bs x [] hpi
          simp only [List.append_nil] at hb
          intro v hdv
          simp only [decCborWrap, hm, if_true, hpi] at hdv
          have hx := hc x hp v hdv
          have hlen : bs.length < 18446744073709551616 := by omega
          rw [hm, ← hl] at e2
          simp [encCborWrap, hx, hlen, mkTag, mkBytes, ← hb, ← e2]

end PallasVerif.Schema
