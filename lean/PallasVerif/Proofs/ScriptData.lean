import PallasVerif.Model.ScriptData
import PallasVerif.Proofs.Cbor
import PallasVerif.Proofs.PlutusDataCodec
/-!
  Lemmas for C08: BTreeMap invariant of `LanguageViews`, the order `canonical_order` produces,
  canonical CBOR key order of the written keys, well-formedness of the written item, and the
  location of witness-set fields inside the original bytes.
-/
namespace PallasVerif.ScriptData
open PallasVerif.Cbor PallasVerif.PlutusData
set_option linter.unusedSimpArgs false

/-! ## BTreeMap invariant -/

theorem keysAsc_cons (a : Nat) (r : List Nat) : keysAsc (a :: r) = true ↔ (∀ b ∈ r.head?, a < b) ∧ keysAsc r = true := by
  cases r with
  | nil => simp [keysAsc]
  | cons b r => simp [keysAsc]

theorem keysAsc_tail {a : Nat} {r : List Nat} (h : keysAsc (a :: r) = true) : keysAsc r = true :=
  ((keysAsc_cons a r).1 h).2

/-- in an ascending list every later element is larger than the head -/
theorem keysAsc_head_lt : ∀ (a : Nat) (r : List Nat), keysAsc (a :: r) = true → ∀ b ∈ r, a < b
  | a, [], _ => by simp
  | a, b :: r, h => by
    simp only [keysAsc, Bool.and_eq_true, decide_eq_true_eq] at h
    intro c hc
    rcases List.mem_cons.mp hc with rfl | hc
    · exact h.1
    · exact Nat.lt_trans h.1 (keysAsc_head_lt b r h.2 c hc)

theorem insert_keys_head (k : Nat) (v : CostModel) (m : LanguageViews) (lo : Nat)
    (hlo : lo < k) (hm : ∀ b ∈ (keys m).head?, lo < b) : ∀ b ∈ (keys (insert k v m)).head?, lo < b := by
  cases m with
  | nil => simp [insert, keys]; exact hlo
  | cons kv r =>
    obtain ⟨k', v'⟩ := kv
    simp only [insert]
    split
    · simp [keys]; exact hlo
    · split
      · simp [keys]; exact hlo
      · simpa [keys] using hm

theorem insert_keysAsc (k : Nat) (v : CostModel) : ∀ m : LanguageViews, keysAsc (keys m) = true →
    keysAsc (keys (insert k v m)) = true
  | [], _ => by simp [insert, keys, keysAsc]
  | (k', v') :: r, h => by
    simp only [insert]
    split
    · rename_i hlt
      simp only [keys, List.map_cons] at h ⊢
      rw [keysAsc_cons]; exact ⟨by simpa using hlt, h⟩
    · split
      · rename_i heq
        subst heq
        simpa [keys] using h
      · rename_i hnlt hne
        have hlt : k' < k := by omega
        simp only [keys, List.map_cons] at h ⊢
        rw [keysAsc_cons] at h ⊢
        exact ⟨insert_keys_head k v r k' hlt h.1, insert_keysAsc k v r h.2⟩

theorem foldl_insert_keysAsc (xs : List (Nat × CostModel)) : ∀ m : LanguageViews, keysAsc (keys m) = true →
    keysAsc (keys (xs.foldl (fun m kv => insert kv.1 kv.2 m) m)) = true := by
  induction xs with
  | nil => intro m h; exact h
  | cons x xs ih => intro m h; exact ih _ (insert_keysAsc x.1 x.2 m h)

/-- whatever is collected into the map, the BTreeMap invariant holds -/
theorem fromList_keysAsc (xs : List (Nat × CostModel)) : keysAsc (keys (fromList xs)) = true :=
  foldl_insert_keysAsc xs [] (by simp [keys, keysAsc])

/-! ## sorting a sorted list; shape of `canonicalOrder` -/

theorem sortInsert_of_le (k : Nat) : ∀ xs : List Nat, (∀ x ∈ xs, k ≤ x) → sortInsert k xs = k :: xs
  | [], _ => rfl
  | x :: xs, h => by simp [sortInsert, h x (by simp)]

theorem sortNat_of_asc : ∀ xs : List Nat, keysAsc xs = true → sortNat xs = xs
  | [], _ => rfl
  | x :: xs, h => by
    simp only [sortNat, sortNat_of_asc xs (keysAsc_tail h)]
    exact sortInsert_of_le x xs fun y hy => Nat.le_of_lt (keysAsc_head_lt x xs h y hy)

theorem filter_ne_zero_of_pos (xs : List Nat) (h : ∀ x ∈ xs, 0 < x) : xs.filter (· ≠ 0) = xs := by
  apply List.filter_eq_self.mpr
  intro x hx; have := h x hx; simp; omega

theorem not_contains_zero_of_pos (xs : List Nat) (h : ∀ x ∈ xs, 0 < x) : xs.contains 0 = false := by
  rw [Bool.eq_false_iff]; intro hc
  have := h 0 (by simpa using hc); omega

def moveZeroLast : List Nat → List Nat
  | 0 :: r => r ++ [0]
  | ks => ks

/-- on an ascending key list, `canonical_order` is: the keys, with a leading 0 moved to the end -/
theorem orderOf_eq (ks : List Nat) (h : keysAsc ks = true) : orderOf ks = moveZeroLast ks := by
  unfold orderOf moveZeroLast
  cases ks with
  | nil => simp [sortNat]
  | cons a r =>
    have hr := keysAsc_head_lt a r h
    have hrpos : ∀ x ∈ r, 0 < x := fun x hx => by have := hr x hx; omega
    cases a with
    | zero =>
      simp only [List.filter_cons, ne_eq, not_true_eq_false, decide_false, Bool.false_eq_true, if_false,
        List.contains_cons, BEq.rfl, Bool.true_or, if_true]
      rw [filter_ne_zero_of_pos r hrpos, sortNat_of_asc r (keysAsc_tail h)]
    | succ a =>
      have hall : ∀ x ∈ (a + 1) :: r, 0 < x := by
        intro x hx; rcases List.mem_cons.mp hx with rfl | hx
        · omega
        · exact hrpos x hx
      simp only []
      rw [filter_ne_zero_of_pos _ hall, sortNat_of_asc _ h, not_contains_zero_of_pos _ hall]
      simp

theorem canonicalOrder_eq (m : LanguageViews) (h : keysAsc (keys m) = true) :
    canonicalOrder m = moveZeroLast (keys m) := orderOf_eq (keys m) h

/-! ## canonical CBOR order of the keys that are written -/

/-- RFC 7049 §3.9 canonical map-key order (what Cardano uses): shorter encoding first, equal lengths
    bytewise -/
def canonLt (a b : Bytes) : Bool :=
  decide (a.length < b.length) || (decide (a.length = b.length) && (cmpBytes a b == .lt))

/-- RFC 8949 §4.2.1 deterministic order: plain bytewise lexicographic -/
def bytewiseLt (a b : Bytes) : Bool := cmpBytes a b == .lt

def keyBytes (lang : Nat) : Bytes := (keyItem lang).encode

/-- a numeric rank that orders languages the way their key encodings are ordered -/
def ck (l : Nat) : Nat := if l = 0 then 100000 else if l < 24 then l else 1000 + l

theorem keyBytes_zero : keyBytes 0 = [0x41, 0x00] := by decide

theorem keyBytes_small (l : Nat) (h0 : l ≠ 0) (h : l < 24) : keyBytes l = [UInt8.ofNat l] := by
  simp [keyBytes, keyItem, h0, mkUInt, minHead, h, Item.encode, Head.encode, initByte]

theorem keyBytes_big (l : Nat) (h : 24 ≤ l) (h2 : l < 256) : keyBytes l = [0x18, UInt8.ofNat l] := by
  have h0 : l ≠ 0 := by omega
  have h1 : ¬ l < 24 := by omega
  simp [keyBytes, keyItem, h0, mkUInt, minHead, h1, h2, Item.encode, Head.encode, initByte, be]

theorem ofNat_toNat_lt (l : Nat) (h : l < 256) : (UInt8.ofNat l).toNat = l := toNat_ofNat_lt l h

theorem keyBytes_cases (a : Nat) (ha : a < 256) :
    (a = 0 ∧ keyBytes a = [0x41, 0x00]) ∨ (∃ x : UInt8, x.toNat = a ∧ a ≠ 0 ∧ a < 24 ∧ keyBytes a = [x]) ∨
      (∃ x : UInt8, x.toNat = a ∧ 24 ≤ a ∧ keyBytes a = [0x18, x]) := by
  by_cases h0 : a = 0
  · left; exact ⟨h0, h0 ▸ keyBytes_zero⟩
  · by_cases h1 : a < 24
    · right; left; exact ⟨UInt8.ofNat a, ofNat_toNat_lt a ha, h0, h1, keyBytes_small a h0 h1⟩
    · right; right; exact ⟨UInt8.ofNat a, ofNat_toNat_lt a ha, by omega, keyBytes_big a (by omega) ha⟩

theorem canonLt_keyBytes (a b : Nat) (ha : a < 256) (hb : b < 256) :
    canonLt (keyBytes a) (keyBytes b) = decide (ck a < ck b) ∧
    bytewiseLt (keyBytes a) (keyBytes b) = decide (ck a < ck b) := by
  have h41 : (0x41 : UInt8).toNat = 65 := rfl
  have h18 : (0x18 : UInt8).toNat = 24 := rfl
  have h00 : (0x00 : UInt8).toNat = 0 := rfl
  rcases keyBytes_cases a ha with ⟨a0, ea⟩ | ⟨x, hx, a0, a1, ea⟩ | ⟨x, hx, a1, ea⟩ <;>
  rcases keyBytes_cases b hb with ⟨b0, eb⟩ | ⟨y, hy, b0, b1, eb⟩ | ⟨y, hy, b1, eb⟩ <;>
    rw [ea, eb] <;> simp only [canonLt, bytewiseLt, cmpBytes, h41, h18, h00]
  · subst a0; subst b0; simp [ck]
  · subst a0; subst hy
    rcases natCompare_cases 65 y.toNat with ⟨h, e⟩ | ⟨h, e⟩ | ⟨h, e⟩ <;> simp [e, ck, b0, b1] <;> omega
  · subst a0; subst hy
    have : ¬ y.toNat = 0 := by omega
    have : ¬ y.toNat < 24 := by omega
    have e : compare 65 24 = Ordering.gt := by decide
    simp [ck, e, *]; omega
  · subst b0; subst hx
    rcases natCompare_cases x.toNat 65 with ⟨h, e⟩ | ⟨h, e⟩ | ⟨h, e⟩ <;> simp [e, ck, a0, a1] <;> omega
  · subst hx; subst hy
    rcases natCompare_cases x.toNat y.toNat with ⟨h, e⟩ | ⟨h, e⟩ | ⟨h, e⟩ <;> simp [e, ck, a0, a1, b0, b1] <;> omega
  · subst hx; subst hy
    have : ¬ y.toNat = 0 := by omega
    have : ¬ y.toNat < 24 := by omega
    rcases natCompare_cases x.toNat 24 with ⟨h, e⟩ | ⟨h, e⟩ | ⟨h, e⟩ <;> simp [e, ck, *] <;> omega
  · subst b0; subst hx
    have : ¬ x.toNat = 0 := by omega
    have : ¬ x.toNat < 24 := by omega
    have e : compare 24 65 = Ordering.lt := by decide
    simp [ck, e, *]; omega
  · subst hx; subst hy
    have : ¬ x.toNat = 0 := by omega
    have : ¬ x.toNat < 24 := by omega
    rcases natCompare_cases 24 y.toNat with ⟨h, e⟩ | ⟨h, e⟩ | ⟨h, e⟩ <;> simp [e, ck, *] <;> omega
  · subst hx; subst hy
    have : ¬ x.toNat = 0 := by omega
    have : ¬ x.toNat < 24 := by omega
    have : ¬ y.toNat = 0 := by omega
    have : ¬ y.toNat < 24 := by omega
    rcases natCompare_cases x.toNat y.toNat with ⟨h, e⟩ | ⟨h, e⟩ | ⟨h, e⟩ <;> simp [e, ck, *] <;> omega

theorem ck_zero : ck 0 = 100000 := rfl

theorem ck_lt_zero (l : Nat) (h0 : 0 < l) (h : l < 256) : ck l < 100000 := by
  unfold ck; split
  · omega
  · split <;> omega

theorem ck_mono (a b : Nat) (h0 : 0 < a) (h : a < b) : ck a < ck b := by
  unfold ck
  have : ¬ a = 0 := by omega
  have : ¬ b = 0 := by omega
  simp only [*, if_false]
  split <;> split <;> omega

/-- strictly ascending w.r.t. a Boolean relation (adjacent pairs) -/
def chain (lt : Bytes → Bytes → Bool) : List Bytes → Bool
  | [] => true
  | [_] => true
  | a :: b :: r => lt a b && chain lt (b :: r)

def ascBy (f : Nat → Nat) : List Nat → Bool
  | [] => true
  | [_] => true
  | a :: b :: r => decide (f a < f b) && ascBy f (b :: r)

theorem chain_of_ascBy (lt : Bytes → Bytes → Bool)
    (hlt : ∀ a b, a < 256 → b < 256 → lt (keyBytes a) (keyBytes b) = decide (ck a < ck b)) :
    ∀ ls : List Nat, (∀ l ∈ ls, l < 256) → ascBy ck ls = true → chain lt (ls.map keyBytes) = true
  | [], _, _ => rfl
  | [_], _, _ => rfl
  | a :: b :: r, hb, h => by
    simp only [ascBy, Bool.and_eq_true] at h
    simp only [List.map_cons, chain, Bool.and_eq_true]
    refine ⟨?_, chain_of_ascBy lt hlt (b :: r) (fun l hl => hb l (by simp [hl])) h.2⟩
    rw [hlt a b (hb a (by simp)) (hb b (by simp))]; exact h.1

theorem ascBy_ck_of_pos : ∀ ls : List Nat, keysAsc ls = true → (∀ l ∈ ls, 0 < l) → ascBy ck ls = true
  | [], _, _ => rfl
  | [_], _, _ => rfl
  | a :: b :: r, h, hp => by
    simp only [keysAsc, Bool.and_eq_true, decide_eq_true_eq] at h
    simp only [ascBy, Bool.and_eq_true, decide_eq_true_eq]
    refine ⟨?_, ascBy_ck_of_pos (b :: r) h.2 fun l hl => hp l (by simp [hl])⟩
    exact ck_mono a b (hp a (by simp)) h.1

theorem ascBy_ck_append_zero : ∀ ls : List Nat, ascBy ck ls = true → (∀ l ∈ ls, 0 < l ∧ l < 256) →
    ascBy ck (ls ++ [0]) = true
  | [], _, _ => rfl
  | [a], _, hp => by
    have := hp a (by simp)
    simp only [List.cons_append, List.nil_append, ascBy, Bool.and_true, decide_eq_true_eq, ck_zero]
    exact decide_eq_true (ck_lt_zero a this.1 this.2)
  | a :: b :: r, h, hp => by
    simp only [ascBy, Bool.and_eq_true] at h
    simp only [List.cons_append, ascBy, Bool.and_eq_true]
    exact ⟨h.1, ascBy_ck_append_zero (b :: r) h.2 fun l hl => hp l (by simp [hl])⟩

/-- the languages are written in an order whose `ck` rank is strictly increasing -/
theorem canonicalOrder_ascBy (m : LanguageViews) (h : keysAsc (keys m) = true) (hb : ∀ k ∈ keys m, k < 256) :
    ascBy ck (canonicalOrder m) = true := by
  rw [canonicalOrder_eq m h]
  generalize keys m = ks at h hb
  unfold moveZeroLast
  cases ks with
  | nil => rfl
  | cons a r =>
    have hr := keysAsc_head_lt a r h
    cases a with
    | zero =>
      simp only []
      have hrpos : ∀ x ∈ r, 0 < x := fun x hx => by have := hr x hx; omega
      exact ascBy_ck_append_zero r (ascBy_ck_of_pos r (keysAsc_tail h) hrpos)
        fun l hl => ⟨hrpos l hl, hb l (by simp [hl])⟩
    | succ a =>
      simp only []
      apply ascBy_ck_of_pos _ h
      intro x hx; rcases List.mem_cons.mp hx with rfl | hx
      · omega
      · have := hr x hx; omega

theorem canonicalOrder_mem (m : LanguageViews) (h : keysAsc (keys m) = true) (k : Nat) :
    k ∈ canonicalOrder m ↔ k ∈ keys m := by
  rw [canonicalOrder_eq m h]
  generalize keys m = ks
  unfold moveZeroLast
  cases ks with
  | nil => simp
  | cons a r => cases a <;> simp [or_comm]

theorem canonicalOrder_length (m : LanguageViews) (h : keysAsc (keys m) = true) :
    (canonicalOrder m).length = m.length := by
  rw [canonicalOrder_eq m h]
  have : m.length = (keys m).length := by simp [keys]
  rw [this]
  generalize keys m = ks
  unfold moveZeroLast
  cases ks with
  | nil => simp
  | cons a r => cases a <;> simp

/-! ## witness-set fields are slices of the original bytes -/

theorem fieldOf_span (k : Nat) : ∀ (es : List Item) (v : Item), fieldOf k es = some v →
    ∃ pre post, encodeList es = pre ++ v.encode ++ post
  | [], v, h => by simp [fieldOf] at h
  | [_], v, h => by simp [fieldOf] at h
  | key :: x :: rest, v, h => by
    simp only [fieldOf] at h
    split at h
    · simp only [Option.some.injEq] at h; subst h
      exact ⟨key.encode, encodeList rest, by simp [encodeList]⟩
    · obtain ⟨pre, post, e⟩ := fieldOf_span k rest v h
      exact ⟨key.encode ++ x.encode ++ pre, post, by simp [encodeList, e]⟩

theorem wsEntries_span (i : Item) (es : List Item) (h : wsEntries i = some es) :
    ∃ pre post, i.encode = pre ++ encodeList es ++ post := by
  cases i with
  | seq hd xs =>
    simp only [wsEntries] at h
    split at h
    · simp only [Option.some.injEq] at h; subst h
      exact ⟨hd.encode, [], by simp [Item.encode]⟩
    · simp at h
  | seqIndef mj xs =>
    simp only [wsEntries] at h
    split at h
    · simp only [Option.some.injEq] at h; subst h
      exact ⟨[initByte mj 31], [0xff], by simp [Item.encode]⟩
    · simp at h
  | atom _ => simp [wsEntries] at h
  | str _ _ => simp [wsEntries] at h
  | strIndef _ _ => simp [wsEntries] at h
  | tag _ _ => simp [wsEntries] at h

/-! ## the written language views are one well-formed CBOR map -/

/-- the value inhabits the Rust types: at most 2^32 coefficients per model (any `Vec` that fits in
    memory), each an `i64`, language ids `u8` -/
def costFits (cm : CostModel) : Bool :=
  decide (cm.length < 4294967296) && cm.all fun c => decide (-(9223372036854775808 : Int) ≤ c) && decide (c < 9223372036854775808)

def viewsFit (m : LanguageViews) : Bool :=
  decide (m.length < u64Bound) && m.all fun kv => decide (kv.1 < 256) && costFits kv.2

theorem lookup_mem (k : Nat) : ∀ (m : LanguageViews) (cm : CostModel), lookup k m = some cm → (k, cm) ∈ m
  | [], _, h => by simp [lookup] at h
  | (k', v) :: r, cm, h => by
    simp only [lookup] at h
    split at h
    · rename_i e; simp only [Option.some.injEq] at h; subst h; subst e; simp
    · exact List.mem_cons_of_mem _ (lookup_mem k r cm h)

theorem Head.encode_length_le (h : Head) (hw : h.wf = true) : h.encode.length ≤ 9 := by
  rw [Head.wf_iff] at hw
  obtain ⟨_, _, h3⟩ := hw
  simp only [Head.encode, List.length_cons]
  unfold argLen at h3
  repeat' split at h3
  all_goals simp at h3
  all_goals omega

theorem mkInt_encode_length (c : Int) (h : -(9223372036854775808 : Int) ≤ c ∧ c < 9223372036854775808) :
    (mkInt c).encode.length ≤ 9 := by
  unfold mkInt
  split
  · simp only [Item.encode]
    exact Head.encode_length_le _ (minHead_wf 0 _ (by decide) (by omega))
  · simp only [Item.encode]
    exact Head.encode_length_le _ (minHead_wf 1 _ (by decide) (by omega))

theorem encodeList_mkInt_length (cm : CostModel)
    (h : ∀ c ∈ cm, -(9223372036854775808 : Int) ≤ c ∧ c < 9223372036854775808) :
    (encodeList (cm.map mkInt)).length ≤ 9 * cm.length := by
  induction cm with
  | nil => simp [encodeList]
  | cons c cs ih =>
    have h1 := mkInt_encode_length c (h c (by simp))
    have h2 := ih fun c' hc' => h c' (by simp [hc'])
    simp only [List.map_cons, encodeList, List.length_append, List.length_cons]; omega

theorem wfList_mkInt (cm : CostModel)
    (h : ∀ c ∈ cm, -(9223372036854775808 : Int) ≤ c ∧ c < 9223372036854775808) : wfList (cm.map mkInt) = true := by
  induction cm with
  | nil => rfl
  | cons c cs ih =>
    have hc := h c (by simp)
    simp only [List.map_cons, wfList, Bool.and_eq_true]
    exact ⟨mkInt_wf c ⟨by simp [u64Bound]; omega, by simp [u64Bound]; omega⟩, ih fun c' hc' => h c' (by simp [hc'])⟩

theorem costFits_iff (cm : CostModel) : costFits cm = true ↔
    cm.length < 4294967296 ∧ ∀ c ∈ cm, -(9223372036854775808 : Int) ≤ c ∧ c < 9223372036854775808 := by
  simp [costFits, List.all_eq_true]

theorem valueItem_wf (l : Nat) (cm : CostModel) (h : costFits cm = true) : (valueItem l cm).wf = true := by
  rw [costFits_iff] at h
  unfold valueItem
  split
  · have hl := encodeList_mkInt_length cm h.2
    obtain ⟨h1, h2, h3, h4⟩ := mkHead_wf 2 (Item.seqIndef 4 (cm.map mkInt)).encode.length (by decide)
      (by simp [Item.encode, u64Bound]; omega)
    simp [mkBytes, Item.wf, h1, h2, h3, h4]
  · exact mkArray_wf _ (by simp [u64Bound]; omega) (wfList_mkInt cm h.2)

theorem keyItem_wf (l : Nat) (h : l < 256) : (keyItem l).wf = true := by
  unfold keyItem
  split
  · decide
  · exact mkUInt_wf l (by simp [u64Bound]; omega)

theorem entryItems_wf (m : LanguageViews) (hm : viewsFit m = true) :
    ∀ ls : List Nat, (∀ l ∈ ls, l < 256) → wfList (entryItems m ls) = true ∧ (entryItems m ls).length = 2 * ls.length
  | [], _ => by simp [entryItems, wfList]
  | l :: ls, h => by
    obtain ⟨ih1, ih2⟩ := entryItems_wf m hm ls fun l' hl' => h l' (by simp [hl'])
    have hv : costFits ((lookup l m).getD []) = true := by
      cases hlk : lookup l m with
      | none => decide
      | some cm =>
        have := lookup_mem l m cm hlk
        simp only [viewsFit, Bool.and_eq_true, List.all_eq_true] at hm
        exact (hm.2 _ this).2
    simp only [entryItems, wfList, Bool.and_eq_true, List.length_cons]
    exact ⟨⟨keyItem_wf l (h l (by simp)), valueItem_wf l _ hv, ih1⟩, by omega⟩

/-- the language views are written as exactly one well-formed CBOR map with one entry per language -/
theorem viewsItem_wf (m : LanguageViews) (h : keysAsc (keys m) = true) (hm : viewsFit m = true) :
    (viewsItem m).wf = true := by
  have hk : ∀ l ∈ canonicalOrder m, l < 256 := by
    intro l hl
    have := (canonicalOrder_mem m h l).1 hl
    simp only [keys, List.mem_map] at this
    obtain ⟨kv, hkv, rfl⟩ := this
    simp only [viewsFit, Bool.and_eq_true, List.all_eq_true, decide_eq_true_eq] at hm
    exact (hm.2 kv hkv).1
  obtain ⟨w1, w2⟩ := entryItems_wf m hm (canonicalOrder m) hk
  have hlen : m.length < u64Bound := by
    simp only [viewsFit, Bool.and_eq_true, decide_eq_true_eq] at hm; exact hm.1
  obtain ⟨h1, h2, h3, h4⟩ := mkHead_wf 5 m.length (by decide) hlen
  simp [viewsItem, Item.wf, h1, h2, h3, h4, seqCount, w1, w2, canonicalOrder_length m h]

end PallasVerif.ScriptData
