import PallasVerif.Model.ChunkReader
/-! Helper lemmas for C43's `intact_roundtrip`: big-endian encoders and the parsing of intact
    primary / secondary index files. -/
namespace PallasVerif.Proofs.ChunkReader
open PallasVerif.ChunkReader

/-- `w` big-endian bytes of `v` -/
def enc : Nat → Nat → Bytes
  | 0, _ => []
  | w + 1, v => enc w (v / 256) ++ [v % 256]

theorem enc_length (w v : Nat) : (enc w v).length = w := by
  induction w generalizing v with
  | zero => rfl
  | succ w ih => simp [enc, ih]

theorem beNat_append_single (l : Bytes) (d : Nat) : beNat (l ++ [d]) = beNat l * 256 + d := by
  simp [beNat, List.foldl_append]

theorem beNat_enc (w v : Nat) (h : v < 256 ^ w) : beNat (enc w v) = v := by
  induction w generalizing v with
  | zero => simp at h; subst h; rfl
  | succ w ih =>
    simp only [enc, beNat_append_single]
    have : v / 256 < 256 ^ w := by
      rw [Nat.pow_succ] at h
      exact Nat.div_lt_of_lt_mul (by rw [Nat.mul_comm]; exact h)
    rw [ih _ this]
    omega

/-- arithmetic progression with step 56: the occupied offsets of an index without empty slots -/
def arith : Nat → Nat → List Nat
  | _, 0 => []
  | pos, n + 1 => pos :: arith (pos + 56) n

theorem arith_length (pos n : Nat) : (arith pos n).length = n := by
  induction n generalizing pos with
  | zero => rfl
  | succ n ih => simp [arith, ih]

theorem occupied_arith (pos n : Nat) : occupied (arith pos (n + 1)) = arith pos n := by
  induction n generalizing pos with
  | zero => simp [arith, occupied]
  | succ n ih =>
    have := ih (pos + 56)
    simp only [arith] at this ⊢
    simp only [occupied]
    have h : pos + 56 > pos := by omega
    simp only [h, ↓reduceIte, List.cons.injEq, true_and]
    exact this

theorem mem_arith_lt (pos n x : Nat) (h : x ∈ arith pos n) : x < pos + 56 * n := by
  induction n generalizing pos with
  | zero => simp [arith] at h
  | succ n ih =>
    simp only [arith, List.mem_cons] at h
    rcases h with e | e
    · omega
    · have := ih _ e; omega

/-- parsing the offsets written as 4-byte groups gives them back -/
theorem offsets_enc (offs : List Nat) (fuel : Nat) (hf : offs.length ≤ fuel) (hb : ∀ o ∈ offs, o < 256 ^ 4) :
    offsets fuel (offs.map (enc 4)).flatten = offs := by
  induction offs generalizing fuel with
  | nil =>
    cases fuel <;> simp [offsets]
  | cons o t ih =>
    cases fuel with
    | zero => simp at hf
    | succ fuel =>
      simp only [List.map_cons, List.flatten_cons, offsets]
      have hl : (enc 4 o).length = 4 := enc_length 4 o
      have hlen : ¬ (enc 4 o ++ (t.map (enc 4)).flatten).length < 4 := by simp [hl]
      simp only [hlen, ↓reduceIte]
      have ht : (enc 4 o ++ (t.map (enc 4)).flatten).take 4 = enc 4 o := by
        rw [List.take_append_of_le_length (by omega)]; rw [← hl]; exact List.take_length
      have hd : (enc 4 o ++ (t.map (enc 4)).flatten).drop 4 = (t.map (enc 4)).flatten := by
        rw [← hl]; exact List.drop_left
      rw [ht, hd, beNat_enc 4 o (hb o (by simp)), ih fuel (by simpa using hf) (fun x hx => hb x (by simp [hx]))]

/-- primary index file: version byte and the offsets -/
def primaryBytes (offs : List Nat) : Bytes := 1 :: (offs.map (enc 4)).flatten

theorem primaryOffsets_primaryBytes (offs : List Nat) (hb : ∀ o ∈ offs, o < 256 ^ 4) :
    primaryOffsets (primaryBytes offs) = some offs := by
  simp only [primaryBytes, primaryOffsets]
  rw [offsets_enc offs _ _ hb]
  have : ((offs.map (enc 4)).flatten).length = 4 * offs.length := by
    induction offs with
    | nil => rfl
    | cons o t ih => simp [enc_length, ih (fun x hx => hb x (by simp [hx]))]; omega
  omega

/-- one secondary entry: block offset, then 48 bytes the readers ignore -/
def secEntry (off : Nat) : Bytes := enc 8 off ++ List.replicate 48 0

theorem secEntry_length (off : Nat) : (secEntry off).length = 56 := by simp [secEntry, enc_length]

def secondaryBytes (starts : List Nat) : Bytes := (starts.map secEntry).flatten

theorem secondaryItems_intact (pre : Bytes) (starts : List Nat) (post : Bytes) (hb : ∀ o ∈ starts, o < 256 ^ 8) :
    secondaryItems (pre ++ secondaryBytes starts ++ post) pre.length (arith pre.length starts.length)
      = starts.map SecItem.entry := by
  induction starts generalizing pre with
  | nil => simp [arith, secondaryItems]
  | cons o t ih =>
    simp only [List.length_cons, arith, secondaryItems, List.map_cons]
    have hcs : checkedSub pre.length pre.length = some 0 := by simp [checkedSub]
    simp only [hcs]
    have hlen : pre.length + 56 ≤ (pre ++ secondaryBytes (o :: t) ++ post).length := by
      simp [secondaryBytes, secEntry_length]
    simp only [hlen, ↓reduceIte]
    have hent : ((pre ++ secondaryBytes (o :: t) ++ post).drop pre.length).take 8 = enc 8 o := by
      simp only [secondaryBytes, List.map_cons, List.flatten_cons, List.append_assoc, List.drop_left]
      simp only [secEntry, List.append_assoc]
      rw [List.take_append_of_le_length (by simp [enc_length])]
      have : (enc 8 o).length = 8 := enc_length 8 o
      rw [← this]; exact List.take_length
    rw [hent, beNat_enc 8 o (hb o (by simp))]
    have := ih (pre ++ secEntry o) (fun x hx => hb x (by simp [hx]))
    simp only [List.length_append, secEntry_length] at this
    have hs : pre ++ secondaryBytes (o :: t) ++ post = pre ++ secEntry o ++ secondaryBytes t ++ post := by
      simp [secondaryBytes, List.append_assoc]
    rw [hs, this]


end PallasVerif.Proofs.ChunkReader
