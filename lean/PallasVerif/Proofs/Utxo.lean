import PallasVerif.Model.Utxo
/-! Helper lemmas for C31: order laws of the `(Hash<32>, u64)` key, insertion sort, adjacent
    dedup, first-occurrence filter. -/
namespace PallasVerif.Utxo

/-! ## order laws -/

theorem bytesLt_irrefl (a : List UInt8) : bytesLt a a = false := by
  induction a with
  | nil => rfl
  | cons x xs ih => simp [bytesLt, ih]

theorem bytesLt_trans : ∀ (a b c : List UInt8), bytesLt a b = true → bytesLt b c = true → bytesLt a c = true
  | [], [], _, h, _ => by simp [bytesLt] at h
  | [], _ :: _, [], _, h => by simp [bytesLt] at h
  | [], _ :: _, _ :: _, _, _ => by simp [bytesLt]
  | _ :: _, [], _, h, _ => by simp [bytesLt] at h
  | _ :: _, _ :: _, [], _, h => by simp [bytesLt] at h
  | x :: xs, y :: ys, z :: zs, h1, h2 => by
    simp only [bytesLt, Bool.or_eq_true, Bool.and_eq_true, decide_eq_true_eq] at *
    rcases h1 with h1 | ⟨e1, h1⟩ <;> rcases h2 with h2 | ⟨e2, h2⟩
    · left; omega
    · left; omega
    · left; omega
    · right; exact ⟨by omega, bytesLt_trans xs ys zs h1 h2⟩

theorem bytesLt_tri : ∀ (a b : List UInt8), bytesLt a b = false → bytesLt b a = false → a = b
  | [], [], _, _ => rfl
  | [], _ :: _, h, _ => by simp [bytesLt] at h
  | _ :: _, [], _, h => by simp [bytesLt] at h
  | x :: xs, y :: ys, h1, h2 => by
    simp only [bytesLt, Bool.or_eq_false_iff, Bool.and_eq_false_iff, decide_eq_false_iff_not] at *
    have e : x.toNat = y.toNat := by omega
    have hx : x = y := UInt8.toNat_inj.mp e
    subst hx
    have := bytesLt_tri xs ys (by simpa using h1.2) (by simpa using h2.2)
    rw [this]

theorem bytesLt_asymm (a b : List UInt8) (h : bytesLt a b = true) : bytesLt b a = false := by
  cases hb : bytesLt b a with
  | false => rfl
  | true => have := bytesLt_trans a b a h hb; rw [bytesLt_irrefl] at this; cases this

theorem keyLt_irrefl (a : TxIn) : keyLt a a = false := by
  simp [keyLt, bytesLt_irrefl]

theorem keyLt_trans (a b c : TxIn) (h1 : keyLt a b = true) (h2 : keyLt b c = true) : keyLt a c = true := by
  simp only [keyLt, Bool.or_eq_true, Bool.and_eq_true, decide_eq_true_eq] at *
  rcases h1 with h1 | ⟨e1, h1⟩ <;> rcases h2 with h2 | ⟨e2, h2⟩
  · left; exact bytesLt_trans _ _ _ h1 h2
  · left; rw [← e2]; exact h1
  · left; rw [e1]; exact h2
  · right; exact ⟨e1.trans e2, by omega⟩

theorem keyLt_tri (a b : TxIn) (h1 : keyLt a b = false) (h2 : keyLt b a = false) : a = b := by
  simp only [keyLt, Bool.or_eq_false_iff, Bool.and_eq_false_iff, decide_eq_false_iff_not] at *
  have hh : a.hash = b.hash := bytesLt_tri _ _ h1.1 h2.1
  have hi : a.index = b.index := by
    rcases h1.2 with e | e
    · exact absurd hh e
    · rcases h2.2 with e' | e'
      · exact absurd hh.symm e'
      · omega
  cases a; cases b; simp_all

theorem keyLt_asymm (a b : TxIn) (h : keyLt a b = true) : keyLt b a = false := by
  cases hb : keyLt b a with
  | false => rfl
  | true => have := keyLt_trans a b a h hb; rw [keyLt_irrefl] at this; cases this

theorem keyLe_total (a b : TxIn) (h : keyLe a b = false) : keyLe b a = true := by
  simp only [keyLe, Bool.not_eq_false', Bool.not_eq_true'] at *
  exact keyLt_asymm _ _ h

theorem keyLe_trans (a b c : TxIn) (h1 : keyLe a b = true) (h2 : keyLe b c = true) : keyLe a c = true := by
  simp only [keyLe, Bool.not_eq_true'] at *
  cases hca : keyLt c a with
  | false => rfl
  | true =>
    -- c < a, ¬ b < a, ¬ c < b
    cases hab : keyLt a b with
    | true => have := keyLt_trans c a b hca hab; rw [h2] at this; cases this
    | false =>
      have e : a = b := keyLt_tri a b hab h1
      subst e; rw [h2] at hca; cases hca

theorem keyLt_of_le_ne (a b : TxIn) (h : keyLe a b = true) (hne : a ≠ b) : keyLt a b = true := by
  simp only [keyLe, Bool.not_eq_true'] at h
  cases hab : keyLt a b with
  | true => rfl
  | false => exact absurd (keyLt_tri a b hab h) hne

theorem keyLt_of_lt_of_le (a b c : TxIn) (h1 : keyLt a b = true) (h2 : keyLe b c = true) : keyLt a c = true := by
  by_cases e : b = c
  · subst e; exact h1
  · exact keyLt_trans a b c h1 (keyLt_of_le_ne b c h2 e)

theorem keyLt_ne (a b : TxIn) (h : keyLt a b = true) : a ≠ b := by
  intro e; subst e; rw [keyLt_irrefl] at h; cases h

/-! ## insertion sort -/

theorem mem_insertKey (x z : TxIn) (l : List TxIn) : z ∈ insertKey x l ↔ z = x ∨ z ∈ l := by
  induction l with
  | nil => simp [insertKey]
  | cons y ys ih =>
    simp only [insertKey]
    split
    · simp
    · simp only [List.mem_cons, ih]
      constructor
      · rintro (h | h | h) <;> simp [h]
      · rintro (h | h | h) <;> simp [h]

theorem length_insertKey (x : TxIn) (l : List TxIn) : (insertKey x l).length = l.length + 1 := by
  induction l with
  | nil => simp [insertKey]
  | cons y ys ih => simp only [insertKey]; split <;> simp [ih]

theorem sorted_insertKey (x : TxIn) (l : List TxIn) (h : l.Pairwise (fun a b => keyLe a b = true)) :
    (insertKey x l).Pairwise (fun a b => keyLe a b = true) := by
  induction l with
  | nil => simp [insertKey]
  | cons y ys ih =>
    simp only [insertKey]
    rw [List.pairwise_cons] at h
    split
    · rename_i hxy
      refine List.Pairwise.cons ?_ (List.Pairwise.cons h.1 h.2)
      intro z hz
      rcases List.mem_cons.mp hz with e | hz
      · rw [e]; exact hxy
      · exact keyLe_trans x y z hxy (h.1 z hz)
    · rename_i hxy
      have hyx : keyLe y x = true := keyLe_total x y (by simpa using hxy)
      refine List.Pairwise.cons ?_ (ih h.2)
      intro z hz
      rcases (mem_insertKey x z ys).mp hz with e | hz
      · rw [e]; exact hyx
      · exact h.1 z hz

theorem mem_sortByKey (z : TxIn) (l : List TxIn) : z ∈ sortByKey l ↔ z ∈ l := by
  induction l with
  | nil => simp [sortByKey]
  | cons x xs ih =>
    have : sortByKey (x :: xs) = insertKey x (sortByKey xs) := rfl
    rw [this, mem_insertKey, ih]; simp

theorem length_sortByKey (l : List TxIn) : (sortByKey l).length = l.length := by
  induction l with
  | nil => rfl
  | cons x xs ih =>
    have : sortByKey (x :: xs) = insertKey x (sortByKey xs) := rfl
    rw [this, length_insertKey, ih]; rfl

theorem sorted_sortByKey (l : List TxIn) : (sortByKey l).Pairwise (fun a b => keyLe a b = true) := by
  induction l with
  | nil => simp [sortByKey]
  | cons x xs ih =>
    have : sortByKey (x :: xs) = insertKey x (sortByKey xs) := rfl
    rw [this]; exact sorted_insertKey x _ ih

/-! ## adjacent dedup of a sorted list -/

theorem dedupAux_spec : ∀ (l : List TxIn) (prev : TxIn),
    (prev :: l).Pairwise (fun a b => keyLe a b = true) →
    (prev :: dedupAux prev l).Pairwise (fun a b => keyLt a b = true) ∧
      ∀ z, z ∈ prev :: dedupAux prev l ↔ z ∈ prev :: l
  | [], prev, _ => by simp [dedupAux]
  | y :: rest, prev, h => by
    rw [List.pairwise_cons] at h
    obtain ⟨hp, hrest⟩ := h
    by_cases e : prev = y
    · subst e
      have hs : (prev :: rest).Pairwise (fun a b => keyLe a b = true) :=
        List.Pairwise.cons (fun z hz => hp z (List.mem_cons_of_mem _ hz)) (List.pairwise_cons.mp hrest).2
      obtain ⟨ih1, ih2⟩ := dedupAux_spec rest prev hs
      simp only [dedupAux, if_true]
      refine ⟨ih1, fun z => ?_⟩
      rw [ih2 z]; simp
    · obtain ⟨ih1, ih2⟩ := dedupAux_spec rest y hrest
      simp only [dedupAux, e, if_false]
      have hlt : keyLt prev y = true := keyLt_of_le_ne prev y (hp y (by simp)) e
      refine ⟨List.Pairwise.cons ?_ ih1, fun z => ?_⟩
      · intro z hz
        have hz' : z ∈ y :: rest := (ih2 z).mp hz
        rcases List.mem_cons.mp hz' with e' | hz'
        · rw [e']; exact hlt
        · exact keyLt_of_lt_of_le prev y z hlt ((List.pairwise_cons.mp hrest).1 z hz')
      · simp only [List.mem_cons] at ih2 ⊢
        rw [ih2 z]

theorem dedupByKey_spec (l : List TxIn) (h : l.Pairwise (fun a b => keyLe a b = true)) :
    (dedupByKey l).Pairwise (fun a b => keyLt a b = true) ∧ ∀ z, z ∈ dedupByKey l ↔ z ∈ l := by
  cases l with
  | nil => simp [dedupByKey]
  | cons x xs => simpa [dedupByKey] using dedupAux_spec xs x h

/-! ## first-occurrence filter (`HashSet::insert` as the filter predicate) -/

theorem filterInsert_spec : ∀ (l seen : List TxIn),
    (filterInsert seen l).Nodup ∧
    (∀ z, z ∈ filterInsert seen l ↔ z ∈ l ∧ z ∉ seen) ∧
    (filterInsert seen l).Sublist l
  | [], seen => by simp [filterInsert]
  | x :: xs, seen => by
    by_cases hx : x ∈ seen
    · obtain ⟨h1, h2, h3⟩ := filterInsert_spec xs seen
      simp only [filterInsert, hx, if_true]
      refine ⟨h1, fun z => ?_, h3.cons _⟩
      rw [h2 z]
      constructor
      · rintro ⟨a, b⟩; exact ⟨List.mem_cons_of_mem _ a, b⟩
      · rintro ⟨a, b⟩
        rcases List.mem_cons.mp a with e | a
        · subst e; exact absurd hx b
        · exact ⟨a, b⟩
    · obtain ⟨h1, h2, h3⟩ := filterInsert_spec xs (x :: seen)
      simp only [filterInsert, hx, if_false]
      refine ⟨List.nodup_cons.mpr ⟨fun hm => ?_, h1⟩, fun z => ?_, h3.cons_cons _⟩
      · have := ((h2 x).mp hm).2; simp at this
      · simp only [List.mem_cons, h2 z, not_or]
        constructor
        · rintro (e | ⟨a, b, c⟩)
          · subst e; exact ⟨Or.inl rfl, hx⟩
          · exact ⟨Or.inr a, c⟩
        · rintro ⟨e | a, c⟩
          · exact Or.inl e
          · by_cases ez : z = x
            · exact Or.inl ez
            · exact Or.inr ⟨a, ez, c⟩

/-- a list without repetitions passes the filter unchanged -/
theorem filterInsert_nodup : ∀ (l seen : List TxIn), l.Nodup → (∀ z ∈ l, z ∉ seen) → filterInsert seen l = l
  | [], _, _, _ => rfl
  | x :: xs, seen, hn, hs => by
    have hx : x ∉ seen := hs x (by simp)
    rw [List.nodup_cons] at hn
    simp only [filterInsert, hx, if_false]
    congr 1
    apply filterInsert_nodup xs (x :: seen) hn.2
    intro z hz
    simp only [List.mem_cons, not_or]
    exact ⟨fun e => hn.1 (e ▸ hz), hs z (List.mem_cons_of_mem _ hz)⟩

theorem idxOf_cons_ne' (x a : TxIn) (xs : List TxIn) (h : a ≠ x) : (x :: xs).idxOf a = xs.idxOf a + 1 := by
  have : (x == a) = false := by simpa using fun e => h e.symm
  rw [List.idxOf_cons, this]; rfl

/-- the kept elements appear in the order of their FIRST occurrences in the source list -/
theorem filterInsert_first_order : ∀ (l seen : List TxIn),
    (filterInsert seen l).Pairwise (fun a b => l.idxOf a < l.idxOf b)
  | [], seen => by simp [filterInsert]
  | x :: xs, seen => by
    by_cases hx : x ∈ seen
    · simp only [filterInsert, hx, if_true]
      have ih := filterInsert_first_order xs seen
      have hm := (filterInsert_spec xs seen).2.1
      refine ih.imp_of_mem ?_
      intro a b ha hb hab
      have ha' : a ≠ x := fun e => ((hm a).mp ha).2 (e ▸ hx)
      have hb' : b ≠ x := fun e => ((hm b).mp hb).2 (e ▸ hx)
      rw [idxOf_cons_ne' _ _ _ ha', idxOf_cons_ne' _ _ _ hb']
      omega
    · simp only [filterInsert, hx, if_false]
      have ih := filterInsert_first_order xs (x :: seen)
      have hm := (filterInsert_spec xs (x :: seen)).2.1
      refine List.Pairwise.cons ?_ (ih.imp_of_mem ?_)
      · intro b hb
        have hb' : b ≠ x := fun e => ((hm b).mp hb).2 (by simp [e])
        rw [List.idxOf_cons_self, idxOf_cons_ne' _ _ _ hb']
        omega
      · intro a b ha hb hab
        have ha' : a ≠ x := fun e => ((hm a).mp ha).2 (by simp [e])
        have hb' : b ≠ x := fun e => ((hm b).mp hb).2 (by simp [e])
        rw [idxOf_cons_ne' _ _ _ ha', idxOf_cons_ne' _ _ _ hb']
        omega


/-- a list that is pairwise related by an irreflexive, asymmetric relation is determined by its
    set of elements -/
theorem unique_of_pairwise {α : Type} (R : α → α → Prop) (irr : ∀ a, ¬ R a a) (asym : ∀ a b, R a b → ¬ R b a) :
    ∀ (l₁ l₂ : List α), l₁.Pairwise R → l₂.Pairwise R → (∀ z, z ∈ l₁ ↔ z ∈ l₂) → l₁ = l₂
  | [], [], _, _, _ => rfl
  | [], y :: ys, _, _, hm => by have := (hm y).mpr (by simp); simp at this
  | x :: xs, [], _, _, hm => by have := (hm x).mp (by simp); simp at this
  | x :: xs, y :: ys, h1, h2, hm => by
    rw [List.pairwise_cons] at h1 h2
    have hxy : x = y := by
      have hx : x ∈ y :: ys := (hm x).mp (by simp)
      have hy : y ∈ x :: xs := (hm y).mpr (by simp)
      rcases List.mem_cons.mp hx with e | hx
      · exact e
      · rcases List.mem_cons.mp hy with e | hy
        · exact e.symm
        · exact absurd (h1.1 y hy) (asym _ _ (h2.1 x hx))
    subst hxy
    congr 1
    apply unique_of_pairwise R irr asym xs ys h1.2 h2.2
    intro z
    constructor
    · intro hz
      have : z ∈ x :: ys := (hm z).mp (List.mem_cons_of_mem _ hz)
      rcases List.mem_cons.mp this with e | h
      · subst e; exact absurd (h1.1 z hz) (irr z)
      · exact h
    · intro hz
      have : z ∈ x :: xs := (hm z).mpr (List.mem_cons_of_mem _ hz)
      rcases List.mem_cons.mp this with e | h
      · subst e; exact absurd (h2.1 z hz) (irr z)
      · exact h


/-! ## enumerate -/

theorem enumerateFrom_length {α} (l : List α) (n : Nat) : (enumerateFrom n l).length = l.length := by
  induction l generalizing n with
  | nil => rfl
  | cons x xs ih => simp [enumerateFrom, ih]

theorem enumerateFrom_getElem? {α} (l : List α) (n i : Nat) :
    (enumerateFrom n l)[i]? = (l[i]?).map fun o => (n + i, o) := by
  induction l generalizing n i with
  | nil => simp [enumerateFrom]
  | cons x xs ih =>
    cases i with
    | zero => simp [enumerateFrom]
    | succ i => simp [enumerateFrom, ih, Nat.add_assoc, Nat.add_comm 1 i]

theorem enumerateFrom_lookup {α} (l : List α) (n i : Nat) :
    (enumerateFrom n l).lookup i = if i < n then none else l[i - n]? := by
  induction l generalizing n with
  | nil => simp [enumerateFrom]
  | cons x xs ih =>
    simp only [enumerateFrom, List.lookup_cons]
    by_cases e : i = n
    · subst e; simp
    · have : (i == n) = false := by simpa using e
      rw [this, ih]
      by_cases h : i < n
      · have : i < n + 1 := by omega
        simp [h, this]
      · have h1 : ¬ i < n + 1 := by omega
        have h2 : i - n = (i - (n + 1)) + 1 := by omega
        simp [h, h1, h2]

end PallasVerif.Utxo
