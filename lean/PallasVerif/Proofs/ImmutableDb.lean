import PallasVerif.Model.ImmutableDb
/-! Helper lemmas for C42: the binary-search loop invariant and the list specification of
    `iterate_till_point`. -/
namespace PallasVerif.Proofs.ImmutableDb
open PallasVerif.ImmutableDb

/-! ## `chunk_binary_search` -/
section BS
variable {α : Type}

/-- what the search must return on chunks whose keys (first slots) are strictly descending:
    the first (newest) chunk whose key is `≤ s`, if any -/
def BsSpec (chunks : List α) (key : α → Nat) (s : Nat) : Option Nat → Prop
  | some k => ∃ hk : k < chunks.length, key chunks[k] ≤ s ∧
      ∀ j (hj : j < chunks.length), j < k → s < key chunks[j]
  | none => ∀ j (hj : j < chunks.length), s < key chunks[j]

theorem cmpNat_lt (a b : Nat) : cmpNat a b = .lt ↔ a < b := by
  unfold cmpNat; split
  · simp [*]
  · split <;> simp [*]
theorem cmpNat_eq (a b : Nat) : cmpNat a b = .eq ↔ a = b := by
  unfold cmpNat; split
  · simp; omega
  · split <;> simp [*]
theorem cmpNat_gt (a b : Nat) : cmpNat a b = .gt ↔ b < a := by
  unfold cmpNat; split
  · simp; omega
  · split
    · simp; omega
    · simp; omega

theorem bsLoop_spec (chunks : List α) (key : α → Nat) (s : Nat) (cmp : α → Res Ordering)
    (hcmp : ∀ c ∈ chunks, cmp c = .ok (cmpNat (key c) s))
    (hdesc : ∀ i j (hi : i < chunks.length) (hj : j < chunks.length), i < j → key chunks[j] < key chunks[i])
    (fuel left right size : Nat) (h1 : right = left + size) (h2 : right ≤ chunks.length) (hf : size < fuel)
    (h3 : ∀ i (hi : i < chunks.length), i < left → s < key chunks[i])
    (h4 : ∀ i (hi : i < chunks.length), right ≤ i → key chunks[i] ≤ s) :
    ∃ r, bsLoop chunks cmp fuel left right size = .ok r ∧ BsSpec chunks key s r := by
  induction fuel generalizing left right size with
  | zero => omega
  | succ fuel ih =>
    unfold bsLoop
    by_cases hs : size > 0
    · simp only [hs, ↓reduceIte]
      have hmid : left + size / 2 < chunks.length := by
        have : size / 2 < size := Nat.div_lt_self hs (by omega)
        omega
      have hget : chunks[left + size / 2]? = some chunks[left + size / 2] := List.getElem?_eq_getElem hmid
      simp only [hget]
      have hc := hcmp chunks[left + size / 2] (List.getElem_mem hmid)
      rw [hc]
      cases ho : cmpNat (key chunks[left + size / 2]) s with
      | lt =>
        have hlt := (cmpNat_lt _ _).mp ho
        have : ¬ (left + size / 2 < left) := by omega
        simp only [this, ↓reduceIte]
        apply ih left (left + size / 2) (left + size / 2 - left) (by omega) (by omega)
          (by have : size / 2 < size := Nat.div_lt_self hs (by omega); omega) h3
        intro i hi hle
        by_cases he : i = left + size / 2
        · subst he; omega
        · have := hdesc (left + size / 2) i hmid hi (by omega); omega
      | gt =>
        have hgt := (cmpNat_gt _ _).mp ho
        have hsz : size / 2 < size := Nat.div_lt_self hs (by omega)
        have : ¬ (right < left + size / 2 + 1) := by omega
        simp only [this, ↓reduceIte]
        apply ih (left + size / 2 + 1) right (right - (left + size / 2 + 1)) (by omega) h2 (by omega) _ h4
        intro i hi hlt
        by_cases he : i = left + size / 2
        · subst he; exact hgt
        · have := hdesc i (left + size / 2) hi hmid (by omega); omega
      | eq =>
        have heq := (cmpNat_eq _ _).mp ho
        refine ⟨some (left + size / 2), rfl, hmid, by omega, ?_⟩
        intro j hj hlt
        have := hdesc j (left + size / 2) hj hmid hlt
        omega
    · have hs0 : size = 0 := by omega
      subst hs0
      simp only [Nat.lt_irrefl, ↓reduceIte, gt_iff_lt]
      by_cases hr : right < chunks.length
      · simp only [hr, ↓reduceIte]
        exact ⟨some right, rfl, hr, h4 right hr (Nat.le_refl _), fun j hj hlt => h3 j hj (by omega)⟩
      · simp only [hr, ↓reduceIte]
        exact ⟨none, rfl, fun j hj => h3 j hj (by omega)⟩

theorem chunkBinarySearch_spec (chunks : List α) (key : α → Nat) (s : Nat) (cmp : α → Res Ordering)
    (hcmp : ∀ c ∈ chunks, cmp c = .ok (cmpNat (key c) s))
    (hdesc : ∀ i j (hi : i < chunks.length) (hj : j < chunks.length), i < j → key chunks[j] < key chunks[i]) :
    ∃ r, chunkBinarySearch chunks cmp = .ok r ∧ BsSpec chunks key s r := by
  unfold chunkBinarySearch
  exact bsLoop_spec chunks key s cmp hcmp hdesc _ 0 _ _ (by omega) (Nat.le_refl _) (by omega)
    (fun i _ h => absurd h (Nat.not_lt_zero _)) (fun i hi h => absurd hi (by omega))

/-- the search loop never panics or diverges, whatever the comparator answers -/
theorem bsLoop_no_panic (chunks : List α) (cmp : α → Res Ordering) (hc : ∀ c, cmp c ≠ .panic)
    (fuel left right size : Nat) (h1 : right = left + size) (h2 : right ≤ chunks.length) (hf : size < fuel) :
    bsLoop chunks cmp fuel left right size ≠ .panic := by
  induction fuel generalizing left right size with
  | zero => omega
  | succ fuel ih =>
    unfold bsLoop
    by_cases hs : size > 0
    · simp only [hs, ↓reduceIte]
      have hsz : size / 2 < size := Nat.div_lt_self hs (by omega)
      have hmid : left + size / 2 < chunks.length := by omega
      simp only [List.getElem?_eq_getElem hmid]
      cases hcc : cmp chunks[left + size / 2] with
      | panic => exact absurd hcc (hc _)
      | err e => simp
      | ok o =>
        cases o with
        | lt =>
          have : ¬ (left + size / 2 < left) := by omega
          simp only [this, ↓reduceIte]
          exact ih left _ _ (by omega) (by omega) (by omega)
        | gt =>
          have : ¬ (right < left + size / 2 + 1) := by omega
          simp only [this, ↓reduceIte]
          exact ih _ right _ (by omega) h2 (by omega)
        | eq => simp
    · simp only [hs, ↓reduceIte]
      split <;> simp
end BS

/-! ## `iterate_till_point` on a run of decodable blocks -/
section Till
variable {H : Type} [DecidableEq H]

/-- specification without the peek loop: skip the blocks below the slot, test the next one -/
def tillSpec (slot : Nat) (hash : Option H) (bs : List (Block H)) : Res (List (Block H)) :=
  match bs.dropWhile (fun b => decide (b.slot < slot)) with
  | [] => if hash.isNone then .ok [] else .err .cannotFind
  | b :: rest => if accepts slot hash b then .ok (b :: rest) else .err .cannotFind

def mapRes {α β : Type} (f : α → β) : Res α → Res β
  | .ok a => .ok (f a)
  | .err e => .err e
  | .panic => .panic

theorem tillLoop_eq_spec (slot : Nat) (hash : Option H) (cur : Block H) (rest : List (Block H)) :
    tillLoop slot hash cur (rest.map Item.blk) = mapRes (List.map Item.blk) (tillSpec slot hash (cur :: rest)) := by
  induction rest generalizing cur with
  | nil =>
    unfold tillLoop tillSpec
    by_cases h : cur.slot < slot
    · simp only [h, ↓reduceIte, List.map_nil, List.dropWhile_cons, decide_true, List.dropWhile_nil]
      split <;> simp [mapRes]
    · simp only [h, ↓reduceIte, List.map_nil, List.dropWhile_cons, decide_false]
      split <;> simp [mapRes, *]
  | cons d rest ih =>
    unfold tillLoop
    by_cases h : cur.slot < slot
    · simp only [h, ↓reduceIte, List.map_cons]
      rw [ih d]
      simp [tillSpec, List.dropWhile_cons, h]
    · simp only [h, ↓reduceIte]
      simp only [tillSpec, List.dropWhile_cons, h, decide_false]
      split <;> simp [mapRes, *]

theorem iterateTillPoint_eq_spec (slot : Nat) (hash : Option H) (bs : List (Block H)) (hne : bs ≠ []) :
    iterateTillPoint (bs.map Item.blk) slot hash = mapRes (List.map Item.blk) (tillSpec slot hash bs) := by
  cases bs with
  | nil => exact absurd rfl hne
  | cons b rest => simp only [iterateTillPoint, List.map_cons]; exact tillLoop_eq_spec slot hash b rest

/-- skipping a prefix that lies entirely below the slot changes nothing -/
theorem dropWhile_append_below (slot : Nat) (pre post : List (Block H)) (h : ∀ b ∈ pre, b.slot < slot) :
    (pre ++ post).dropWhile (fun b => decide (b.slot < slot)) = post.dropWhile (fun b => decide (b.slot < slot)) := by
  induction pre with
  | nil => rfl
  | cons a t ih =>
    have ha := h a (by simp)
    simp only [List.cons_append, List.dropWhile_cons, ha, decide_true, ↓reduceIte]
    exact ih (fun b hb => h b (by simp [hb]))

theorem tillSpec_append_below (slot : Nat) (hash : Option H) (pre post : List (Block H))
    (h : ∀ b ∈ pre, b.slot < slot) : tillSpec slot hash (pre ++ post) = tillSpec slot hash post := by
  unfold tillSpec; rw [dropWhile_append_below slot pre post h]

end Till

end PallasVerif.Proofs.ImmutableDb
