import PallasVerif.Proofs.MinicborTotal
/-!
C09, model side of the `pallas-codec` wrappers: the decoders of `Model/Minicbor.lean` +
`Model/CborWrappers.lean` are total functions with outcomes `ok | err class`; the only model-only
outcome is `err diverge` (a loop ran out of fuel). Here: **no wrapper decoder ever reports
`diverge`**, for any input bytes — every loop iteration consumes input, so the fuel the model
passes (`length + 1`) suffices. Generic in the element decoder (`Consumes` + `NoDiverge`), hence for
every nesting of wrappers.
-/
namespace PallasVerif.Minicbor
open PallasVerif.Cbor PallasVerif.Wrappers

theorem nd_andThen {α β : Type} {p : P α} {f : α → P β} (hp : NoDiverge p) (hf : ∀ a, NoDiverge (f a)) :
    NoDiverge (fun cur => (p cur).andThen fun a r => f a r) := by
  intro cur h
  rcases Res.andThen_eq_err h with e | ⟨a, r, _, e⟩
  · exact hp _ e
  · exact hf a _ e

theorem nd_map {α β : Type} {p : P α} (f : α → β) (hp : NoDiverge p) : NoDiverge (fun cur => (p cur).map f) :=
  fun cur h => hp cur (Res.map_eq_err h)

theorem repeatN_nd {α : Type} (elem : P α) (hn : NoDiverge elem) : ∀ n, NoDiverge (repeatN elem n)
  | 0 => by intro cur h; simp [repeatN] at h
  | n + 1 => by
    intro cur h
    simp only [repeatN] at h
    rcases Res.andThen_eq_err h with e | ⟨a, r, _, e⟩
    · exact hn _ e
    · exact repeatN_nd elem hn n r (Res.map_eq_err e)

theorem repeatN_suffix {α : Type} (elem : P α) (hs : Suffix elem) : ∀ n, Suffix (repeatN elem n)
  | 0 => by intro cur a rest h; simp only [repeatN, Res.ok.injEq] at h; exact ⟨[], by rw [h.2]; rfl⟩
  | n + 1 => by
    intro cur a rest h
    simp only [repeatN] at h
    obtain ⟨x, r, e1, e2⟩ := Res.andThen_eq_ok h
    obtain ⟨xs, e3, _⟩ := Res.map_eq_ok e2
    obtain ⟨c1, h1⟩ := hs _ _ _ e1
    obtain ⟨c2, h2⟩ := repeatN_suffix elem hs n _ _ _ e3
    exact ⟨c1 ++ c2, by rw [h1, h2, List.append_assoc]⟩

/-- the element loop of an indefinite array / map never runs dry -/
theorem untilBreak_nd {α : Type} (elem : P α) (hc : Consumes elem) (hn : NoDiverge elem) (fuel : Nat) :
    ∀ cur, cur.length + 1 ≤ fuel → untilBreak elem fuel cur ≠ .err .diverge := by
  induction fuel with
  | zero => intro cur hf; omega
  | succ f ih =>
    intro cur hf h
    cases cur with
    | nil => simp [untilBreak] at h
    | cons b r =>
      simp only [untilBreak] at h
      split at h
      · cases h
      · rcases Res.andThen_eq_err h with e | ⟨a, r', e1, e⟩
        · exact hn _ e
        · obtain ⟨c1, hne, h1⟩ := hc _ _ _ e1
          have hl : r'.length + 1 ≤ f := by
            have := congrArg List.length h1
            simp only [List.length_cons, List.length_append] at this hf
            have : 0 < c1.length := List.length_pos_iff.mpr hne
            omega
          exact ih r' hl (Res.map_eq_err e)

theorem untilBreak_suffix {α : Type} (elem : P α) (hs : Suffix elem) : ∀ fuel, Suffix (untilBreak elem fuel)
  | 0 => by intro cur a rest h; simp [untilBreak] at h
  | f + 1 => by
    intro cur a rest h
    cases cur with
    | nil => simp [untilBreak] at h
    | cons b r =>
      simp only [untilBreak] at h
      split at h
      · simp only [Res.ok.injEq] at h; exact ⟨[b], by rw [← h.2]; rfl⟩
      · obtain ⟨x, r', e1, e2⟩ := Res.andThen_eq_ok h
        obtain ⟨xs, e3, _⟩ := Res.map_eq_ok e2
        obtain ⟨c1, h1⟩ := hs _ _ _ e1
        obtain ⟨c2, h2⟩ := untilBreak_suffix elem hs f _ _ _ e3
        exact ⟨c1 ++ c2, by rw [h1, h2, List.append_assoc]⟩

theorem iterCollect_nd {α : Type} (elem : P α) (hc : Consumes elem) (hn : NoDiverge elem) (len : Option Nat) :
    NoDiverge (iterCollect elem len) := by
  intro cur h
  cases len with
  | some n => exact repeatN_nd elem hn n cur h
  | none => exact untilBreak_nd elem hc hn _ cur (Nat.le_refl _) h

theorem iterCollect_suffix {α : Type} (elem : P α) (hs : Suffix elem) (len : Option Nat) : Suffix (iterCollect elem len) := by
  intro cur a rest h
  cases len with
  | some n => exact repeatN_suffix elem hs n cur a rest h
  | none => exact untilBreak_suffix elem hs _ cur a rest h

/-- `Vec<T>` -/
theorem vec_nd {α : Type} (elem : P α) (hc : Consumes elem) (hn : NoDiverge elem) : NoDiverge (vec elem) :=
  nd_andThen (seqHead_nd 4) fun len => iterCollect_nd elem hc hn len

theorem vec_consumes {α : Type} (elem : P α) (hs : Suffix elem) : Consumes (vec elem) :=
  Consumes.andThen (seqHead_consumes 4) fun len => iterCollect_suffix elem hs len

theorem pairOf_nd {α β : Type} (k : P α) (v : P β) (hk : NoDiverge k) (hv : NoDiverge v) : NoDiverge (pairOf k v) :=
  nd_andThen hk fun _ => nd_map _ hv

theorem pairOf_consumes {α β : Type} (k : P α) (v : P β) (hk : Consumes k) (hv : Suffix v) : Consumes (pairOf k v) :=
  Consumes.andThen hk fun _ => Suffix.map _ hv

/-- `map_iter` collected -/
theorem mapIter_nd {α β : Type} (k : P α) (v : P β) (hkc : Consumes k) (hvs : Suffix v) (hk : NoDiverge k) (hv : NoDiverge v) :
    NoDiverge (mapIter k v) :=
  nd_andThen (seqHead_nd 5) fun len => iterCollect_nd _ (pairOf_consumes k v hkc hvs) (pairOf_nd k v hk hv) len

theorem mapIter_consumes {α β : Type} (k : P α) (v : P β) (hkc : Consumes k) (hvs : Suffix v) : Consumes (mapIter k v) :=
  Consumes.andThen (seqHead_consumes 5) fun len => iterCollect_suffix _ (pairOf_consumes k v hkc hvs).suffix len

/-! ### the wrappers of `pallas-codec/src/utils.rs` -/

theorem datatype_err_ne_diverge {cur : Bytes} {e : Err} (he : datatype cur = .error e) : e ≠ .diverge := by
  cases cur with
  | nil => simp [datatype] at he; subst he; decide
  | cons b r => simp only [datatype] at he; rw [typeOf_error _ _ _ he]; decide

theorem maybeIndef_nd {α : Type} (a : Codec α) (hc : Consumes a.dec) (hn : NoDiverge a.dec) : NoDiverge (MaybeIndef.dec a) := by
  intro cur h
  unfold MaybeIndef.dec at h
  split at h
  · rename_i e he; simp only [Res.err.injEq] at h; exact datatype_err_ne_diverge he h
  · split at h
    · exact vec_nd a.dec hc hn cur (Res.map_eq_err h)
    · split at h
      · exact vec_nd a.dec hc hn cur (Res.map_eq_err h)
      · cases h

theorem maybeIndef_consumes {α : Type} (a : Codec α) (hs : Suffix a.dec) : Consumes (MaybeIndef.dec a) := by
  intro cur x rest h
  unfold MaybeIndef.dec at h
  split at h
  · cases h
  · split at h
    · obtain ⟨y, e, _⟩ := Res.map_eq_ok h; exact vec_consumes a.dec hs cur y rest e
    · split at h
      · obtain ⟨y, e, _⟩ := Res.map_eq_ok h; exact vec_consumes a.dec hs cur y rest e
      · cases h

theorem kvp_nd {κ ν : Type} (k : Codec κ) (v : Codec ν) (hkc : Consumes k.dec) (hvs : Suffix v.dec) (hk : NoDiverge k.dec)
    (hv : NoDiverge v.dec) : NoDiverge (KVP.dec k v) := by
  intro cur h
  unfold KVP.dec at h
  split at h
  · rename_i e he; simp only [Res.err.injEq] at h; exact datatype_err_ne_diverge he h
  · rcases Res.andThen_eq_err h with e | ⟨items, r, _, e⟩
    · exact mapIter_nd k.dec v.dec hkc hvs hk hv cur e
    · split at e
      · cases e
      · split at e <;> cases e

theorem kvp_consumes {κ ν : Type} (k : Codec κ) (v : Codec ν) (hkc : Consumes k.dec) (hvs : Suffix v.dec) : Consumes (KVP.dec k v) := by
  intro cur x rest h
  unfold KVP.dec at h
  split at h
  · cases h
  · obtain ⟨items, r, e1, e2⟩ := Res.andThen_eq_ok h
    have hr : r = rest := by
      split at e2
      · simp only [Res.ok.injEq] at e2; exact e2.2
      · split at e2
        · simp only [Res.ok.injEq] at e2; exact e2.2
        · cases e2
    subst hr
    exact mapIter_consumes k.dec v.dec hkc hvs cur items r e1

theorem tag_nd : NoDiverge tag := by
  intro cur h
  cases cur with
  | nil => simp [tag] at h
  | cons b r =>
    simp only [tag] at h
    split at h
    · simp only [Res.err.injEq] at h; exact errTypeOf_ne_diverge _ _ h
    · exact unsigned_nd _ _ h

theorem null_nd : NoDiverge Minicbor.null := by
  intro cur h
  cases cur with
  | nil => simp [Minicbor.null] at h
  | cons b r =>
    simp only [Minicbor.null] at h
    split at h
    · cases h
    · simp only [Res.err.injEq] at h; exact errTypeOf_ne_diverge _ _ h

theorem undefined_nd : NoDiverge Minicbor.undefined := by
  intro cur h
  cases cur with
  | nil => simp [Minicbor.undefined] at h
  | cons b r =>
    simp only [Minicbor.undefined] at h
    split at h
    · cases h
    · simp only [Res.err.injEq] at h; exact errTypeOf_ne_diverge _ _ h

theorem set_nd {α : Type} (t : Codec α) (hc : Consumes t.dec) (hn : NoDiverge t.dec) : NoDiverge (Set.dec t) := by
  intro cur h
  unfold Set.dec at h
  split at h
  · rename_i e he; simp only [Res.err.injEq] at h; exact datatype_err_ne_diverge he h
  · split at h
    · rcases Res.andThen_eq_err h with e | ⟨found, r, _, e⟩
      · exact tag_nd _ e
      · split at e
        · cases e
        · exact vec_nd t.dec hc hn r e
    · exact vec_nd t.dec hc hn cur h

theorem cborWrap_nd {α : Type} (t : Codec α) (hn : NoDiverge t.dec) : NoDiverge (CborWrap.dec t) := by
  intro cur h
  unfold CborWrap.dec at h
  rcases Res.andThen_eq_err h with e | ⟨tg, r, _, e⟩
  · exact tag_nd _ e
  · rcases Res.andThen_eq_err e with e' | ⟨inner, r', _, e'⟩
    · exact bytes_nd _ e'
    · split at e'
      · cases e'
      · rename_i e'' he; simp only [Res.err.injEq] at e'; subst e'; exact hn _ he

theorem zeroOrOne_nd {α : Type} (t : Codec α) (hn : NoDiverge t.dec) : NoDiverge (ZeroOrOne.dec t) := by
  intro cur h
  unfold ZeroOrOne.dec at h
  rcases Res.andThen_eq_err h with e | ⟨len, r, _, e⟩
  · exact seqHead_nd 4 cur e
  · split at e
    · cases e
    · exact hn _ (Res.map_eq_err e)
    · cases e
    · cases e

theorem opp_nd {α : Type} (p : Codec α) (hn : NoDiverge p.dec) : NoDiverge (OPP.dec p) :=
  nd_andThen (seqHead_nd 5) fun len => repeatN_nd p.dec hn _

theorem nullable_nd {α : Type} (t : Codec α) (hn : NoDiverge t.dec) : NoDiverge (Nullable.dec t) := by
  intro cur h
  unfold Nullable.dec at h
  split at h
  · rename_i e he; simp only [Res.err.injEq] at h; exact datatype_err_ne_diverge he h
  · split at h
    · exact null_nd _ (Res.map_eq_err h)
    · split at h
      · exact undefined_nd _ (Res.map_eq_err h)
      · exact hn _ (Res.map_eq_err h)

theorem keepRaw_nd {α : Type} (t : Codec α) (hn : NoDiverge t.dec) : NoDiverge (KeepRaw.dec t) := by
  intro cur h
  unfold KeepRaw.dec at h
  split at h
  · cases h
  · rename_i e he; simp only [Res.err.injEq] at h; subst h; exact hn _ he

theorem anyCbor_nd : NoDiverge AnyCbor.dec := by
  intro cur h
  unfold AnyCbor.dec at h
  split at h
  · cases h
  · rename_i e he; simp only [Res.err.injEq] at h; subst h; exact skip_nd _ he

theorem anyUInt_nd : NoDiverge AnyUInt.dec := by
  intro cur h
  unfold AnyUInt.dec at h
  split at h
  · rename_i e he; simp only [Res.err.injEq] at h; exact datatype_err_ne_diverge he h
  · repeat' split at h
    all_goals first
      | exact uintN_nd _ _ (Res.map_eq_err h)
      | cases h

theorem positiveCoin_nd : NoDiverge PositiveCoin.dec := by
  intro cur h
  unfold PositiveCoin.dec at h
  rcases Res.andThen_eq_err h with e | ⟨n, r, _, e⟩
  · exact uintN_nd _ _ e
  · split at e <;> cases e

theorem anyUInt_consumes : Consumes AnyUInt.dec := by
  intro cur a rest h
  unfold AnyUInt.dec at h
  split at h
  · cases h
  · repeat' split at h
    all_goals first
      | (obtain ⟨x, e, _⟩ := Res.map_eq_ok h; exact uintN_consumes _ _ _ _ e)
      | cases h

theorem anyCbor_consumes' : Consumes AnyCbor.dec := anycbor_consumes

end PallasVerif.Minicbor
