import PallasVerif.Proofs.SchemaFields
/-! Sum types: flat / index-only derived enums, `codec_by_datatype!`, hand-written `[variant, field..]`. -/
namespace PallasVerif.Schema
open PallasVerif.Cbor

theorem distinctNats_cons (n : Nat) (r : List Nat) : distinctNats (n :: r) = true ↔ n ∉ r ∧ distinctNats r = true := by
  simp [distinctNats]

theorem findVariant_get {α} : ∀ (vs : List (Nat × α)) (k pos n : Nat) (a : α),
    distinctNats (vs.map (·.1)) = true → vs[pos]? = some (n, a) → findVariant (n : Int) k vs = some (k + pos, a) := by
  intro vs
  induction vs with
  | nil => intro k pos n a _ h; simp at h
  | cons q vs ih =>
    intro k pos n a hd h
    obtain ⟨m, b⟩ := q
    simp only [List.map_cons, distinctNats_cons] at hd
    cases pos with
    | zero =>
      simp at h
      obtain ⟨rfl, rfl⟩ := h
      simp [findVariant]
    | succ pos =>
      simp only [List.getElem?_cons_succ] at h
      have hmem : n ∈ vs.map (·.1) := by
        have := List.mem_of_getElem? h
        exact List.mem_map.mpr ⟨(n, a), this, rfl⟩
      have hne : ¬ ((m : Int) = (n : Int)) := by
        intro e
        have : m = n := by omega
        subst this
        exact hd.1 hmem
      simp only [findVariant, hne, if_false]
      rw [ih (k + 1) pos n a hd.2 h]
      congr 2; omega

theorem findIdx_get : ∀ (vs : List Nat) (k pos n : Nat),
    distinctNats vs = true → vs[pos]? = some n → findIdx (n : Int) k vs = some (k + pos) := by
  intro vs
  induction vs with
  | nil => intro k pos n _ h; simp at h
  | cons m vs ih =>
    intro k pos n hd h
    rw [distinctNats_cons] at hd
    cases pos with
    | zero =>
      simp at h
      subst h
      simp [findIdx]
    | succ pos =>
      simp only [List.getElem?_cons_succ] at h
      have hmem : n ∈ vs := List.mem_of_getElem? h
      have hne : ¬ ((m : Int) = (n : Int)) := by
        intro e
        have : m = n := by omega
        subst this
        exact hd.1 hmem
      simp only [findIdx, hne, if_false]
      rw [ih (k + 1) pos n hd.2 h]
      congr 1; omega

theorem good_enumFlat {e : Schema → Value → Option Item} {d : Schema → Item → Option Value}
    {K : Schema → List Ty} {nr : Schema → Prop} (vs : List (Nat × List (Nat × Schema)))
    (hd : distinctNats (vs.map (·.1)) = true)
    (hv : ∀ v, v ∈ vs → v.1 < 2 ^ 63 ∧ increasingFrom 0 v.2 = true ∧ ∀ p, p ∈ v.2 → Good (e p.2) (d p.2) (K p.2) (nr p.2)) :
    Good (encEnumFlat e vs) (decEnumFlat d vs) [.array] (∀ v, v ∈ vs → ∀ p, p ∈ v.2 → nr p.2) := by
  intro v it hr he
  cases v <;> simp only [encEnumFlat] at he <;> try (simp at he; done)
  case variant pos fields =>
    simp only [Value.rawFree] at hr
    cases hg : vs[pos]? with
    | none => simp [hg] at he
    | some q =>
      obtain ⟨n, fs⟩ := q
      simp only [hg, Option.map_eq_some_iff] at he
      obtain ⟨xs, hx, rfl⟩ := he
      have hmem : (n, fs) ∈ vs := List.mem_of_getElem? hg
      obtain ⟨hn, hi, hgood⟩ := hv (n, fs) hmem
      simp only at hn hi hgood
      obtain ⟨w, hl, vs', dd, ss, nn⟩ := encArr_good fs hgood false 0 fields xs (by omega) hi hr hx
      have hfv := findVariant_get vs 0 pos n fs hd hg
      simp only [Nat.zero_add] at hfv
      have hunit : (fs.isEmpty && !xs.isEmpty) = false := by
        cases fs with
        | cons _ _ => simp
        | nil =>
          cases fields with
          | nil => simp [encArr] at hx; subst hx; simp
          | cons _ _ => simp [encArr] at hx
      refine ⟨mkArray_wf _ (by simp; omega) (by simp [wfList, mkUInt_wf n (by omega), w]), by simp [mkArray_typeOf],
        .variant pos vs', ?_, by simp [Value.strip, ss], fun x => by rw [nn (fun p hp => x (n, fs) hmem p hp)]⟩
      simp only [decEnumFlat, mkArray, minHead_major, mkUInt_int n (by omega), intInBits_nat n hn, hfv, if_true, hunit]
      simp [dd]

theorem good_enumIdx (vs : List Nat) (nr : Prop) (hd : distinctNats vs = true) (hv : ∀ n, n ∈ vs → n < 2 ^ 63) :
    Good (encEnumIdx vs) (decEnumIdx vs) [.u8, .u16, .u32, .u64] nr := by
  apply Good.leaf; intro v it he
  cases v <;> simp only [encEnumIdx] at he <;> try (simp at he; done)
  case variant pos fields =>
    cases fields with
    | cons _ _ => simp at he
    | nil =>
      simp only at he
      cases hg : vs[pos]? with
      | none => simp [hg] at he
      | some n =>
        simp only [hg, Option.some.injEq] at he; subst he
        have hn := hv n (List.mem_of_getElem? hg)
        have hf := findIdx_get vs 0 pos n hd hg
        simp only [Nat.zero_add] at hf
        exact ⟨mkUInt_wf n (by omega), mkUInt_typeOf n,
          by simp [decEnumIdx, mkUInt_int n (by omega), intInBits_nat n hn, hf], by simp [Value.strip, stripList]⟩

theorem good_sumFixed {e : Schema → Value → Option Item} {d : Schema → Item → Option Value}
    {K : Schema → List Ty} {nr : Schema → Prop} (b : Nat) (vs : List (Nat × List Schema))
    (hb : b = 8 ∨ b = 16) (hd : distinctNats (vs.map (·.1)) = true)
    (hv : ∀ v, v ∈ vs → v.1 < 2 ^ b ∧ v.2.length < 2 ^ 63 ∧ ∀ s, s ∈ v.2 → Good (e s) (d s) (K s) (nr s)) :
    Good (encSumFixed e vs) (decSumFixed d b vs) [.array] (∀ v, v ∈ vs → ∀ s, s ∈ v.2 → nr s) := by
  intro v it hr he
  cases v <;> simp only [encSumFixed] at he <;> try (simp at he; done)
  case variant pos fields =>
    simp only [Value.rawFree] at hr
    cases hg : vs[pos]? with
    | none => simp [hg] at he
    | some q =>
      obtain ⟨n, fs⟩ := q
      simp only [hg, Option.map_eq_some_iff] at he
      obtain ⟨xs, hx, rfl⟩ := he
      have hmem : (n, fs) ∈ vs := List.mem_of_getElem? hg
      obtain ⟨hn, hflen, hgood⟩ := hv (n, fs) hmem
      simp only at hn hflen hgood
      have hn64 : n < 2 ^ 64 := by
        rcases hb with rfl | rfl <;> omega
      obtain ⟨w, hl, vs', dd, ss, nn⟩ := zipOpt_good fs hgood fields xs hr hx
      have hlen : xs.length < 2 ^ 63 := by rw [hl]; exact hflen
      have hfv := findVariant_get vs 0 pos n fs hd hg
      simp only [Nat.zero_add] at hfv
      refine ⟨mkArray_wf _ (by simp; omega) (by simp [wfList, mkUInt_wf n hn64, w]), by simp [mkArray_typeOf],
        .variant pos vs', ?_, by simp [Value.strip, ss], fun x => by rw [nn (fun s hs => x (n, fs) hmem s hs)]⟩
      simp [decSumFixed, mkArray, minHead_major, mkUInt_uint n hn64, hn, hfv, dd]

theorem findVariant_none {α} : ∀ (vs : List (Nat × α)) (k x : Nat),
    (vs.all (fun v => v.1 != x)) = true → findVariant (x : Int) k vs = none := by
  intro vs
  induction vs with
  | nil => intro _ _ _; rfl
  | cons q vs ih =>
    intro k x h
    obtain ⟨m, b⟩ := q
    simp only [List.all_cons, Bool.and_eq_true, bne_iff_ne, ne_eq] at h
    have hne : ¬ ((m : Int) = (x : Int)) := by
      intro e
      exact h.1 (by omega)
    simp only [findVariant, hne, if_false]
    exact ih (k + 1) x h.2

theorem good_sumOther {e : Schema → Value → Option Item} {d : Schema → Item → Option Value}
    {K : Schema → List Ty} {nr : Schema → Prop} (b : Nat) (vs : List (Nat × List Schema)) (other : List Schema)
    (hb : b = 8 ∨ b = 16) (hd : distinctNats (vs.map (·.1)) = true)
    (hv : ∀ v, v ∈ vs → v.1 < 2 ^ b ∧ v.2.length < 2 ^ 63 ∧ ∀ s, s ∈ v.2 → Good (e s) (d s) (K s) (nr s))
    (hol : other.length < 2 ^ 63) (ho : ∀ s, s ∈ other → Good (e s) (d s) (K s) (nr s)) :
    Good (encSumOther e b vs other) (decSumOther d b vs other) [.array]
      ((∀ v, v ∈ vs → ∀ s, s ∈ v.2 → nr s) ∧ (∀ s, s ∈ other → nr s)) := by
  intro v it hr he
  cases v <;> simp only [encSumOther] at he <;> try (simp at he; done)
  case variant pos fields =>
    split at he
    · -- a listed variant: as `sumFixed`
      obtain ⟨w, t, v', dd, ss, nn⟩ := good_sumFixed b vs hb hd hv (.variant pos fields) it hr he
      refine ⟨w, t, v', ?_, ss, fun x => nn x.1⟩
      -- the two decoders agree whenever the variant number is listed
      cases hg : vs[pos]? with
      | none => simp [encSumFixed, hg] at he
      | some q =>
        obtain ⟨n, fs⟩ := q
        simp only [encSumFixed, hg, Option.map_eq_some_iff] at he
        obtain ⟨xs, _, rfl⟩ := he
        have hn := (hv (n, fs) (List.mem_of_getElem? hg)).1
        simp only at hn
        have hn64 : n < 2 ^ 64 := by rcases hb with rfl | rfl <;> omega
        have hfv := findVariant_get vs 0 pos n fs hd hg
        simp only [Nat.zero_add] at hfv
        simp only [decSumFixed, mkArray, minHead_major, mkUInt_uint n hn64, hn, hfv, if_true] at dd
        simp [decSumOther, mkArray, minHead_major, mkUInt_uint n hn64, hn, hfv, dd]
    · split at he
      · rename_i hpos
        subst hpos
        cases fields with
        | nil => simp at he
        | cons f0 rest =>
          cases f0 <;> simp only at he <;> try (simp at he; done)
          case nat x =>
            split at he
            · rename_i hx
              simp only [Option.map_eq_some_iff] at he
              obtain ⟨xs, hz, rfl⟩ := he
              simp only [Value.rawFree, rawFreeList, Bool.and_eq_true] at hr
              obtain ⟨w, hl, ws, dd, ss, nn⟩ := zipOpt_good other ho rest xs (by simpa [Value.rawFree] using hr.2) hz
              have hx64 : x < 2 ^ 64 := by rcases hb with rfl | rfl <;> omega
              have hfn := findVariant_none vs 0 x hx.2
              refine ⟨mkArray_wf _ (by simp; omega) (by simp [wfList, mkUInt_wf x hx64, w]), by simp [mkArray_typeOf],
                .variant vs.length (.nat x :: ws), ?_, by simp [Value.strip, stripList, ss], fun h => by rw [nn h.2]⟩
              simp [decSumOther, mkArray, minHead_major, mkUInt_uint x hx64, hx.1, hfn, dd]
            · simp at he
      · simp at he

end PallasVerif.Schema
