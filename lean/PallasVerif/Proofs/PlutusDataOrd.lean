import PallasVerif.Model.PlutusData
/-!
  Order laws for the PlutusData comparison (C07).

  `Laws f` packages what "f is the three-way comparison of a total preorder" means:
  `swap` (antisymmetry / totality), `eqc` (things that compare equal compare the same way against
  everything) and `ltt` (transitivity, strict on the left). Every other form follows (see the end).
-/
namespace PallasVerif.PlutusData
open PallasVerif.Cbor
set_option linter.unusedSimpArgs false

structure Laws {α : Type} (f : α → α → Ordering) : Prop where
  swap : ∀ a b, f a b = (f b a).swap
  eqc : ∀ a b c, f a b = .eq → f a c = f b c
  ltt : ∀ a b c, f a b = .lt → f b c ≠ .gt → f a c = .lt

theorem natCompare_lt (a b : Nat) : compare a b = .lt ↔ a < b := Nat.compare_eq_lt
theorem natCompare_eq (a b : Nat) : compare a b = .eq ↔ a = b := Nat.compare_eq_eq
theorem natCompare_gt (a b : Nat) : compare a b = .gt ↔ b < a := Nat.compare_eq_gt

theorem natCompare_cases (a b : Nat) :
    (a < b ∧ compare a b = .lt) ∨ (a = b ∧ compare a b = .eq) ∨ (b < a ∧ compare a b = .gt) := by
  rcases Nat.lt_trichotomy a b with h | h | h
  · exact .inl ⟨h, (natCompare_lt a b).2 h⟩
  · exact .inr (.inl ⟨h, (natCompare_eq a b).2 h⟩)
  · exact .inr (.inr ⟨h, (natCompare_gt a b).2 h⟩)

theorem intCompare_cases (a b : Int) :
    (a < b ∧ compare a b = .lt) ∨ (a = b ∧ compare a b = .eq) ∨ (b < a ∧ compare a b = .gt) := by
  rcases Int.lt_trichotomy a b with h | h | h
  · exact .inl ⟨h, Int.compare_eq_lt.2 h⟩
  · exact .inr (.inl ⟨h, Int.compare_eq_eq.2 h⟩)
  · exact .inr (.inr ⟨h, Int.compare_eq_gt.2 h⟩)

theorem laws_natCompare : Laws (fun a b : Nat => compare a b) where
  swap a b := by
    rcases natCompare_cases a b with ⟨h, e⟩ | ⟨h, e⟩ | ⟨h, e⟩ <;>
    rcases natCompare_cases b a with ⟨h', e'⟩ | ⟨h', e'⟩ | ⟨h', e'⟩ <;> simp [e, e'] <;> omega
  eqc a b c h := by
    have := (natCompare_eq a b).1 h; subst this; rfl
  ltt a b c h h' := by
    have h1 := (natCompare_lt a b).1 h
    rcases natCompare_cases b c with ⟨h2, e⟩ | ⟨h2, e⟩ | ⟨h2, e⟩
    · exact (natCompare_lt a c).2 (by omega)
    · exact (natCompare_lt a c).2 (by omega)
    · exact absurd e h'

theorem laws_intCompare : Laws (fun a b : Int => compare a b) where
  swap a b := by
    rcases intCompare_cases a b with ⟨h, e⟩ | ⟨h, e⟩ | ⟨h, e⟩ <;>
    rcases intCompare_cases b a with ⟨h', e'⟩ | ⟨h', e'⟩ | ⟨h', e'⟩ <;> simp [e, e'] <;> omega
  eqc a b c h := by
    have := Int.compare_eq_eq.1 h; subst this; rfl
  ltt a b c h h' := by
    have h1 := Int.compare_eq_lt.1 h
    rcases intCompare_cases b c with ⟨h2, e⟩ | ⟨h2, e⟩ | ⟨h2, e⟩
    · exact Int.compare_eq_lt.2 (by omega)
    · exact Int.compare_eq_lt.2 (by omega)
    · exact absurd e h'

/-- comparison through a key function -/
theorem Laws.key {α β : Type} {f : β → β → Ordering} (L : Laws f) (k : α → β) :
    Laws (fun a b => f (k a) (k b)) where
  swap _ _ := L.swap _ _
  eqc _ _ _ := L.eqc _ _ _
  ltt _ _ _ := L.ltt _ _ _

/-- lexicographic combination `match f a b with | .eq => g a b | o => o` -/
def lex {α : Type} (f g : α → α → Ordering) (a b : α) : Ordering :=
  match f a b with
  | .eq => g a b
  | o => o

theorem lex_eq_iff {α : Type} (f g : α → α → Ordering) (a b : α) :
    lex f g a b = .eq ↔ f a b = .eq ∧ g a b = .eq := by
  unfold lex; cases h : f a b <;> simp

theorem lex_lt_iff {α : Type} (f g : α → α → Ordering) (a b : α) :
    lex f g a b = .lt ↔ f a b = .lt ∨ (f a b = .eq ∧ g a b = .lt) := by
  unfold lex; cases h : f a b <;> simp

theorem lex_ne_gt_iff {α : Type} (f g : α → α → Ordering) (a b : α) :
    lex f g a b ≠ .gt ↔ f a b = .lt ∨ (f a b = .eq ∧ g a b ≠ .gt) := by
  unfold lex; cases h : f a b <;> simp

theorem Laws.lex {α : Type} {f g : α → α → Ordering} (F : Laws f) (G : Laws g) : Laws (lex f g) where
  swap a b := by
    unfold PlutusData.lex
    rw [F.swap a b, G.swap a b]
    cases f b a <;> simp
  eqc a b c h := by
    rw [lex_eq_iff] at h
    unfold PlutusData.lex
    rw [F.eqc a b c h.1, G.eqc a b c h.2]
  ltt a b c h h' := by
    rw [lex_lt_iff] at *
    rw [lex_ne_gt_iff] at h'
    rcases h with h | ⟨h1, h2⟩
    · rcases h' with h' | ⟨h', _⟩
      · exact .inl (F.ltt a b c h (by simp [h']))
      · exact .inl (F.ltt a b c h (by simp [h']))
    · rw [F.eqc a b c h1]
      rcases h' with h' | ⟨h', h''⟩
      · exact .inl h'
      · exact .inr ⟨h', G.ltt a b c h2 h''⟩

/-! ## consequences of the three laws (all the usual forms) -/

theorem Laws.refl {α : Type} {f : α → α → Ordering} (L : Laws f) (a : α) : f a a = .eq := by
  have := L.swap a a
  cases h : f a a <;> rw [h] at this <;> simp at this

theorem Laws.eq_symm {α : Type} {f : α → α → Ordering} (L : Laws f) (a b : α) (h : f a b = .eq) : f b a = .eq := by
  have := L.swap b a; rw [h] at this; simpa using this

theorem Laws.gt_iff_lt {α : Type} {f : α → α → Ordering} (L : Laws f) (a b : α) : f a b = .gt ↔ f b a = .lt := by
  rw [L.swap a b]; cases f b a <;> simp

theorem Laws.eq_trans {α : Type} {f : α → α → Ordering} (L : Laws f) (a b c : α)
    (h1 : f a b = .eq) (h2 : f b c = .eq) : f a c = .eq := by
  rw [L.eqc a b c h1]; exact h2

theorem Laws.lt_trans {α : Type} {f : α → α → Ordering} (L : Laws f) (a b c : α)
    (h1 : f a b = .lt) (h2 : f b c = .lt) : f a c = .lt := L.ltt a b c h1 (by simp [h2])

theorem Laws.gt_trans {α : Type} {f : α → α → Ordering} (L : Laws f) (a b c : α)
    (h1 : f a b = .gt) (h2 : f b c = .gt) : f a c = .gt := by
  rw [L.gt_iff_lt] at *; exact L.lt_trans c b a h2 h1

theorem Laws.eqc_right {α : Type} {f : α → α → Ordering} (L : Laws f) (a b c : α)
    (h : f b c = .eq) : f a b = f a c := by
  rw [L.swap a b, L.swap a c, L.eqc b c a h]

/-- `≤` is transitive -/
theorem Laws.le_trans {α : Type} {f : α → α → Ordering} (L : Laws f) (a b c : α)
    (h1 : f a b ≠ .gt) (h2 : f b c ≠ .gt) : f a c ≠ .gt := by
  cases h : f a b with
  | lt => rw [L.ltt a b c h h2]; simp
  | eq => rw [L.eqc a b c h]; exact h2
  | gt => exact absurd h h1

/-! ## byte strings -/

theorem laws_cmpBytes : Laws cmpBytes where
  swap := by
    intro a
    induction a with
    | nil => intro b; cases b <;> simp [cmpBytes]
    | cons x xs ih =>
      intro b
      cases b with
      | nil => simp [cmpBytes]
      | cons y ys =>
        simp only [cmpBytes]
        rw [laws_natCompare.swap x.toNat y.toNat, ih ys]
        cases compare y.toNat x.toNat <;> simp
  eqc := by
    intro a
    induction a with
    | nil => intro b c h; cases b <;> simp [cmpBytes] at h ⊢
    | cons x xs ih =>
      intro b c h
      cases b with
      | nil => simp [cmpBytes] at h
      | cons y ys =>
        simp only [cmpBytes] at h
        cases hxy : compare x.toNat y.toNat <;> rw [hxy] at h <;> simp at h
        have e := (natCompare_eq _ _).1 hxy
        cases c with
        | nil => simp [cmpBytes]
        | cons z zs =>
          simp only [cmpBytes]
          rw [e, ih ys zs h]
  ltt := by
    intro a
    induction a with
    | nil => intro b c h h'; cases b <;> cases c <;> simp [cmpBytes] at h h' ⊢
    | cons x xs ih =>
      intro b c h h'
      cases b with
      | nil => simp [cmpBytes] at h
      | cons y ys =>
        cases c with
        | nil => simp [cmpBytes] at h'
        | cons z zs =>
          simp only [cmpBytes] at h h' ⊢
          cases hxy : compare x.toNat y.toNat <;> rw [hxy] at h <;> simp at h
          · -- x < y
            cases hyz : compare y.toNat z.toNat <;> rw [hyz] at h' <;> simp at h'
            · rw [laws_natCompare.ltt _ _ _ hxy (by simp [hyz])]
            · rw [laws_natCompare.ltt _ _ _ hxy (by simp [hyz])]
          · -- x = y
            have e := (natCompare_eq _ _).1 hxy
            rw [e]
            cases hyz : compare y.toNat z.toNat <;> rw [hyz] at h' <;> simp at h' ⊢
            exact ih ys zs h h'

theorem laws_cmpMag : Laws cmpMag :=
  (laws_natCompare.key (fun (b : Bytes) => b.length)).lex laws_cmpBytes

/-! ## BigInt: the comparison is `compare` on the integer `rank` -/

/-- the magnitude `to_bytes` computes -/
def BigInt.mag (b : BigInt) : Nat := ofBe b.toBytes.2

/-- the integer the comparison sees: sign flag applied to the magnitude. (`BigNInt bs` is ranked
    `−bs`, not CBOR's `−1 − bs`; `−0 = +0`; an `Int` is ranked by `|i| mod 2^128`, which is `|i|` for
    every value of the Rust type.) -/
def BigInt.rank (b : BigInt) : Int := if b.toBytes.1 then -(b.mag : Int) else (b.mag : Int)

theorem ofBe_lt (bs : Bytes) : ofBe bs < 256 ^ bs.length := by
  induction bs with
  | nil => simp [ofBe]
  | cons b bs ih =>
    simp only [ofBe, List.length_cons, Nat.pow_succ]
    have hb : b.toNat < 256 := b.toNat_lt
    have : (b.toNat + 1) * 256 ^ bs.length ≤ 256 * 256 ^ bs.length := Nat.mul_le_mul_right _ (by omega)
    rw [Nat.succ_mul] at this
    omega

/-- no leading zero byte -/
def Stripped : Bytes → Prop
  | [] => True
  | b :: _ => b ≠ 0

theorem stripZeros_stripped (bs : Bytes) : Stripped (stripZeros bs) := by
  induction bs with
  | nil => simp [stripZeros, Stripped]
  | cons b bs ih =>
    simp only [stripZeros]
    split
    · exact ih
    · simpa [Stripped]

theorem ofBe_stripZeros (bs : Bytes) : ofBe (stripZeros bs) = ofBe bs := by
  induction bs with
  | nil => rfl
  | cons b bs ih =>
    simp only [stripZeros]
    split
    · rename_i h; subst h; simp [ofBe, ih]
    · rfl

theorem stripZeros_length_le (bs : Bytes) : (stripZeros bs).length ≤ bs.length := by
  induction bs with
  | nil => simp [stripZeros]
  | cons b bs ih => simp only [stripZeros]; split <;> simp <;> omega

theorem stripped_lb (b : UInt8) (bs : Bytes) (h : Stripped (b :: bs)) : 256 ^ bs.length ≤ ofBe (b :: bs) := by
  simp only [Stripped] at h
  have : b.toNat ≠ 0 := fun e => h (UInt8.toNat_inj.mp (by simpa using e))
  have : 1 * 256 ^ bs.length ≤ b.toNat * 256 ^ bs.length := Nat.mul_le_mul_right _ (by omega)
  simp only [ofBe]; omega

theorem stripped_isEmpty (l : Bytes) (h : Stripped l) : l.isEmpty = true ↔ ofBe l = 0 := by
  cases l with
  | nil => simp [ofBe]
  | cons b bs =>
    have := stripped_lb b bs h
    have : 0 < 256 ^ bs.length := Nat.pow_pos (by decide)
    simp; omega

theorem cmpBytes_eq_compare (l r : Bytes) (h : l.length = r.length) :
    cmpBytes l r = compare (ofBe l) (ofBe r) := by
  induction l generalizing r with
  | nil => cases r <;> simp_all [cmpBytes, ofBe]
  | cons a as ih =>
    cases r with
    | nil => simp at h
    | cons b bs =>
      simp only [List.length_cons, Nat.add_right_cancel_iff] at h
      simp only [cmpBytes, ofBe]
      have hx := ofBe_lt as
      have hy := ofBe_lt bs
      rw [h] at hx
      rw [h]
      generalize 256 ^ bs.length = P at *
      rcases natCompare_cases a.toNat b.toNat with ⟨h1, e⟩ | ⟨h1, e⟩ | ⟨h1, e⟩
      · rw [e]
        have : (a.toNat + 1) * P ≤ b.toNat * P := Nat.mul_le_mul_right _ h1
        rw [Nat.succ_mul] at this
        exact ((natCompare_lt _ _).2 (by omega)).symm
      · rw [e, h1, ih bs h]
        rcases natCompare_cases (ofBe as) (ofBe bs) with ⟨h2, e2⟩ | ⟨h2, e2⟩ | ⟨h2, e2⟩
        · rw [e2]; exact ((natCompare_lt _ _).2 (by omega)).symm
        · rw [e2]; exact ((natCompare_eq _ _).2 (by omega)).symm
        · rw [e2]; exact ((natCompare_gt _ _).2 (by omega)).symm
      · rw [e]
        have : (b.toNat + 1) * P ≤ a.toNat * P := Nat.mul_le_mul_right _ h1
        rw [Nat.succ_mul] at this
        exact ((natCompare_gt _ _).2 (by omega)).symm

theorem stripped_len_lt (l r : Bytes) (hr : Stripped r) (h : l.length < r.length) : ofBe l < ofBe r := by
  cases r with
  | nil => simp at h
  | cons b bs =>
    have h1 := stripped_lb b bs hr
    have h2 := ofBe_lt l
    have : 256 ^ l.length ≤ 256 ^ bs.length := Nat.pow_le_pow_right (by decide) (by simp at h; omega)
    omega

/-- on magnitudes without leading zeros, "length first, then bytes" is numeric comparison -/
theorem cmpMag_eq_compare (l r : Bytes) (hl : Stripped l) (hr : Stripped r) :
    cmpMag l r = compare (ofBe l) (ofBe r) := by
  unfold cmpMag
  rcases natCompare_cases l.length r.length with ⟨h, e⟩ | ⟨h, e⟩ | ⟨h, e⟩
  · rw [e]; exact ((natCompare_lt _ _).2 (stripped_len_lt l r hr h)).symm
  · rw [e]; exact cmpBytes_eq_compare l r h
  · rw [e]; exact ((natCompare_gt _ _).2 (stripped_len_lt r l hl h)).symm

theorem BigInt.toBytes_stripped (b : BigInt) : Stripped b.toBytes.2 := by
  cases b <;> exact stripZeros_stripped _

theorem compare_cast (x y : Nat) : compare (x : Int) (y : Int) = compare x y := by
  rcases natCompare_cases x y with ⟨h, e⟩ | ⟨h, e⟩ | ⟨h, e⟩ <;> rw [e]
  · exact Int.compare_eq_lt.2 (by omega)
  · exact Int.compare_eq_eq.2 (by omega)
  · exact Int.compare_eq_gt.2 (by omega)

theorem compare_neg_neg (x y : Nat) : compare (-(x : Int)) (-(y : Int)) = (compare x y).swap := by
  rcases natCompare_cases x y with ⟨h, e⟩ | ⟨h, e⟩ | ⟨h, e⟩ <;> rw [e]
  · exact Int.compare_eq_gt.2 (by omega)
  · exact Int.compare_eq_eq.2 (by omega)
  · exact Int.compare_eq_lt.2 (by omega)

theorem compare_neg_pos (x y : Nat) (h : ¬ (x = 0 ∧ y = 0)) : compare (-(x : Int)) (y : Int) = .lt :=
  Int.compare_eq_lt.2 (by omega)

theorem compare_pos_neg (x y : Nat) (h : ¬ (x = 0 ∧ y = 0)) : compare (x : Int) (-(y : Int)) = .gt :=
  Int.compare_eq_gt.2 (by omega)

/-- **`BigInt::cmp` is integer comparison of the ranks** -/
theorem cmpBig_eq_compare_rank (a b : BigInt) : cmpBig a b = compare a.rank b.rank := by
  have ha := a.toBytes_stripped
  have hb := b.toBytes_stripped
  have ea := stripped_isEmpty _ ha
  have eb := stripped_isEmpty _ hb
  have hm := cmpMag_eq_compare _ _ ha hb
  unfold cmpBig BigInt.rank BigInt.mag
  simp only []
  generalize a.toBytes.2 = l at *
  generalize b.toBytes.2 = r at *
  generalize a.toBytes.1 = sa
  generalize b.toBytes.1 = sb
  rw [hm]
  by_cases h0 : ofBe l = 0 ∧ ofBe r = 0
  · have h1 := ea.2 h0.1
    have h2 := eb.2 h0.2
    rw [h1, h2, h0.1, h0.2]
    cases sa <;> cases sb <;> simp
  · have hne : (l.isEmpty && r.isEmpty) = false := by
      cases hl : l.isEmpty <;> cases hr : r.isEmpty <;> simp
      exact h0 ⟨ea.1 hl, eb.1 hr⟩
    rw [hne]
    cases sa <;> cases sb <;> simp
    · exact (compare_cast _ _).symm
    · exact (compare_pos_neg _ _ h0).symm
    · exact (compare_neg_pos _ _ h0).symm
    · exact (compare_neg_neg _ _).symm

theorem laws_cmpBig : Laws cmpBig := by
  have h : cmpBig = fun a b => compare a.rank b.rank := by
    funext a b; exact cmpBig_eq_compare_rank a b
  rw [h]; exact laws_intCompare.key BigInt.rank

/-! ## PlutusData: the three laws by mutual structural recursion -/

mutual
theorem cmp_swap : ∀ a b : PData, cmp a b = (cmp b a).swap
  | .constr t a d fs, b => by
    cases b <;> simp only [cmp, Ordering.swap_lt, Ordering.swap_gt]
    rename_i t' a' d' fs'
    rw [laws_natCompare.swap (cidx t a) (cidx t' a'), cmpList_swap fs fs']
    cases compare (cidx t' a') (cidx t a) <;> simp
  | .map d kvs, b => by
    cases b <;> simp only [cmp, Ordering.swap_lt, Ordering.swap_gt]
    exact cmpKvs_swap _ _
  | .array d xs, b => by
    cases b <;> simp only [cmp, Ordering.swap_lt, Ordering.swap_gt]
    exact cmpList_swap _ _
  | .int x, b => by
    cases b <;> simp only [cmp, Ordering.swap_lt, Ordering.swap_gt]
    exact laws_cmpBig.swap _ _
  | .bytes x, b => by
    cases b <;> simp only [cmp, Ordering.swap_lt, Ordering.swap_gt]
    exact laws_cmpBytes.swap _ _
theorem cmpList_swap : ∀ xs ys : List PData, cmpList xs ys = (cmpList ys xs).swap
  | [], [] => by simp [cmpList]
  | [], _ :: _ => by simp [cmpList]
  | _ :: _, [] => by simp [cmpList]
  | x :: xs, y :: ys => by
    simp only [cmpList]
    rw [cmp_swap x y, cmpList_swap xs ys]
    cases cmp y x <;> simp
theorem cmpKvs_swap : ∀ xs ys : List (PData × PData), cmpKvs xs ys = (cmpKvs ys xs).swap
  | [], [] => by simp [cmpKvs]
  | [], _ :: _ => by simp [cmpKvs]
  | _ :: _, [] => by simp [cmpKvs]
  | (k, v) :: xs, (k', v') :: ys => by
    simp only [cmpKvs]
    rw [cmp_swap k k', cmp_swap v v', cmpKvs_swap xs ys]
    cases cmp k' k <;> cases cmp v' v <;> simp
end

mutual
theorem cmp_eqc : ∀ a b c : PData, cmp a b = .eq → cmp a c = cmp b c
  | .constr t a d fs, b, c => by
    intro h
    cases b <;> simp only [cmp, reduceCtorEq] at h
    rename_i t' a' d' fs'
    cases hi : compare (cidx t a) (cidx t' a') <;> rw [hi] at h <;> simp only [reduceCtorEq] at h
    cases c <;> simp only [cmp]
    rename_i t'' a'' d'' fs''
    rw [laws_natCompare.eqc _ _ (cidx t'' a'') hi, cmpList_eqc fs fs' fs'' h]
  | .map d kvs, b, c => by
    intro h
    cases b <;> simp only [cmp, reduceCtorEq] at h
    cases c <;> simp only [cmp]
    exact cmpKvs_eqc _ _ _ h
  | .array d xs, b, c => by
    intro h
    cases b <;> simp only [cmp, reduceCtorEq] at h
    cases c <;> simp only [cmp]
    exact cmpList_eqc _ _ _ h
  | .int x, b, c => by
    intro h
    cases b <;> simp only [cmp, reduceCtorEq] at h
    cases c <;> simp only [cmp]
    exact laws_cmpBig.eqc _ _ _ h
  | .bytes x, b, c => by
    intro h
    cases b <;> simp only [cmp, reduceCtorEq] at h
    cases c <;> simp only [cmp]
    exact laws_cmpBytes.eqc _ _ _ h
theorem cmpList_eqc : ∀ xs ys zs : List PData, cmpList xs ys = .eq → cmpList xs zs = cmpList ys zs
  | [], ys, zs => by
    intro h; cases ys <;> simp only [cmpList, reduceCtorEq] at h; rfl
  | x :: xs, ys, zs => by
    intro h
    cases ys with
    | nil => simp [cmpList] at h
    | cons y ys =>
      simp only [cmpList] at h
      cases hxy : cmp x y <;> rw [hxy] at h <;> simp only [reduceCtorEq] at h
      cases zs with
      | nil => simp [cmpList]
      | cons z zs =>
        simp only [cmpList]
        rw [cmp_eqc x y z hxy, cmpList_eqc xs ys zs h]
theorem cmpKvs_eqc : ∀ xs ys zs : List (PData × PData), cmpKvs xs ys = .eq → cmpKvs xs zs = cmpKvs ys zs
  | [], ys, zs => by
    intro h; cases ys <;> simp only [cmpKvs, reduceCtorEq] at h; rfl
  | (k, v) :: xs, ys, zs => by
    intro h
    cases ys with
    | nil => simp [cmpKvs] at h
    | cons y ys =>
      obtain ⟨k', v'⟩ := y
      simp only [cmpKvs] at h
      cases hk : cmp k k' <;> rw [hk] at h <;> simp only [reduceCtorEq] at h
      cases hv : cmp v v' <;> rw [hv] at h <;> simp only [reduceCtorEq] at h
      cases zs with
      | nil => simp [cmpKvs]
      | cons z zs =>
        obtain ⟨k'', v''⟩ := z
        simp only [cmpKvs]
        rw [cmp_eqc k k' k'' hk, cmp_eqc v v' v'' hv, cmpKvs_eqc xs ys zs h]
end

mutual
theorem cmp_ltt : ∀ a b c : PData, cmp a b = .lt → cmp b c ≠ .gt → cmp a c = .lt
  | .constr t a d fs, b, c => by
    intro h h'
    cases b <;> cases c <;> simp only [cmp, reduceCtorEq, ne_eq, not_true_eq_false, not_false_eq_true] at h h' ⊢
    rename_i t' a' d' fs' t'' a'' d'' fs''
    cases hi : compare (cidx t a) (cidx t' a') <;> rw [hi] at h <;> simp only [reduceCtorEq] at h
    · cases hj : compare (cidx t' a') (cidx t'' a'') <;> rw [hj] at h' <;> simp only [reduceCtorEq, ne_eq, not_true_eq_false, not_false_eq_true] at h'
      · rw [laws_natCompare.ltt _ _ _ hi (by simp [hj])]
      · rw [laws_natCompare.ltt _ _ _ hi (by simp [hj])]
    · rw [laws_natCompare.eqc _ _ (cidx t'' a'') hi]
      cases hj : compare (cidx t' a') (cidx t'' a'') <;> rw [hj] at h' <;> simp only [reduceCtorEq, ne_eq, not_true_eq_false, not_false_eq_true] at h' ⊢
      exact cmpList_ltt fs fs' fs'' h h'
  | .map d kvs, b, c => by
    intro h h'
    cases b <;> cases c <;> simp only [cmp, reduceCtorEq, ne_eq, not_true_eq_false, not_false_eq_true] at h h' ⊢
    exact cmpKvs_ltt _ _ _ h h'
  | .array d xs, b, c => by
    intro h h'
    cases b <;> cases c <;> simp only [cmp, reduceCtorEq, ne_eq, not_true_eq_false, not_false_eq_true] at h h' ⊢
    exact cmpList_ltt _ _ _ h h'
  | .int x, b, c => by
    intro h h'
    cases b <;> cases c <;> simp only [cmp, reduceCtorEq, ne_eq, not_true_eq_false, not_false_eq_true] at h h' ⊢
    exact laws_cmpBig.ltt _ _ _ h h'
  | .bytes x, b, c => by
    intro h h'
    cases b <;> cases c <;> simp only [cmp, reduceCtorEq, ne_eq, not_true_eq_false, not_false_eq_true] at h h' ⊢
    exact laws_cmpBytes.ltt _ _ _ h h'
theorem cmpList_ltt : ∀ xs ys zs : List PData, cmpList xs ys = .lt → cmpList ys zs ≠ .gt → cmpList xs zs = .lt
  | [], ys, zs => by
    intro h h'
    cases ys <;> cases zs <;> simp only [cmpList, reduceCtorEq, ne_eq, not_true_eq_false, not_false_eq_true] at h h' ⊢
  | x :: xs, ys, zs => by
    intro h h'
    cases ys with
    | nil => simp [cmpList] at h
    | cons y ys =>
      cases zs with
      | nil => simp [cmpList] at h'
      | cons z zs =>
        simp only [cmpList] at h h' ⊢
        cases hxy : cmp x y <;> rw [hxy] at h <;> simp only [reduceCtorEq] at h
        · cases hyz : cmp y z <;> rw [hyz] at h' <;> simp only [reduceCtorEq, ne_eq, not_true_eq_false, not_false_eq_true] at h'
          · rw [cmp_ltt x y z hxy (by simp [hyz])]
          · rw [cmp_ltt x y z hxy (by simp [hyz])]
        · rw [cmp_eqc x y z hxy]
          cases hyz : cmp y z <;> rw [hyz] at h' <;> simp only [reduceCtorEq, ne_eq, not_true_eq_false, not_false_eq_true] at h' ⊢
          exact cmpList_ltt xs ys zs h h'
theorem cmpKvs_ltt : ∀ xs ys zs : List (PData × PData), cmpKvs xs ys = .lt → cmpKvs ys zs ≠ .gt → cmpKvs xs zs = .lt
  | [], ys, zs => by
    intro h h'
    cases ys <;> cases zs <;> simp only [cmpKvs, reduceCtorEq, ne_eq, not_true_eq_false, not_false_eq_true] at h h' ⊢
  | (k, v) :: xs, ys, zs => by
    intro h h'
    cases ys with
    | nil => simp [cmpKvs] at h
    | cons y ys =>
      cases zs with
      | nil => obtain ⟨k', v'⟩ := y; simp [cmpKvs] at h'
      | cons z zs =>
        obtain ⟨k', v'⟩ := y
        obtain ⟨k'', v''⟩ := z
        simp only [cmpKvs] at h h' ⊢
        cases hk : cmp k k' <;> rw [hk] at h <;> simp only [reduceCtorEq] at h
        · cases hk' : cmp k' k'' <;> rw [hk'] at h' <;> simp only [reduceCtorEq, ne_eq, not_true_eq_false, not_false_eq_true] at h'
          · rw [cmp_ltt k k' k'' hk (by simp [hk'])]
          · rw [cmp_ltt k k' k'' hk (by simp [hk'])]
        · rw [cmp_eqc k k' k'' hk]
          cases hk' : cmp k' k'' <;> rw [hk'] at h' <;> simp only [reduceCtorEq, ne_eq, not_true_eq_false, not_false_eq_true] at h' ⊢
          cases hv : cmp v v' <;> rw [hv] at h <;> simp only [reduceCtorEq] at h
          · cases hv' : cmp v' v'' <;> rw [hv'] at h' <;> simp only [reduceCtorEq, ne_eq, not_true_eq_false, not_false_eq_true] at h'
            · rw [cmp_ltt v v' v'' hv (by simp [hv'])]
            · rw [cmp_ltt v v' v'' hv (by simp [hv'])]
          · rw [cmp_eqc v v' v'' hv]
            cases hv' : cmp v' v'' <;> rw [hv'] at h' <;> simp only [reduceCtorEq, ne_eq, not_true_eq_false, not_false_eq_true] at h' ⊢
            exact cmpKvs_ltt xs ys zs h h'
end

/-- the (totalised) PlutusData comparison is the three-way comparison of a total preorder -/
theorem laws_cmp : Laws cmp := ⟨cmp_swap, cmp_eqc, cmp_ltt⟩

/-! ## the faithful comparison never panics on valid tags and then equals `cmp` -/

theorem cidx_of_some {t : Nat} {a : Option Nat} {i : Nat} (h : constrIndex t a = some i) : cidx t a = i := by
  simp [cidx, h]

mutual
theorem cmp?_eq_cmp : ∀ a b : PData, wfTag a = true → wfTag b = true → cmp? a b = some (cmp a b)
  | .constr t a d fs, b => by
    intro ha hb
    cases b <;> simp only [cmp?, cmp]
    rename_i t' a' d' fs'
    simp only [wfTag, Bool.and_eq_true, Option.isSome_iff_exists] at ha hb
    obtain ⟨⟨i, hi⟩, hfs⟩ := ha
    obtain ⟨⟨j, hj⟩, hfs'⟩ := hb
    rw [hi, hj, cidx_of_some hi, cidx_of_some hj]
    simp only []
    cases compare i j <;> simp only []
    exact cmpList?_eq_cmpList fs fs' hfs hfs'
  | .map d kvs, b => by
    intro ha hb
    cases b <;> simp only [cmp?, cmp]
    simp only [wfTag] at ha hb
    exact cmpKvs?_eq_cmpKvs _ _ ha hb
  | .array d xs, b => by
    intro ha hb
    cases b <;> simp only [cmp?, cmp]
    simp only [wfTag] at ha hb
    exact cmpList?_eq_cmpList _ _ ha hb
  | .int x, b => by
    intro ha hb
    cases b <;> simp only [cmp?, cmp]
  | .bytes x, b => by
    intro ha hb
    cases b <;> simp only [cmp?, cmp]
theorem cmpList?_eq_cmpList : ∀ xs ys : List PData, wfTagList xs = true → wfTagList ys = true →
    cmpList? xs ys = some (cmpList xs ys)
  | [], ys => by intro _ _; cases ys <;> simp [cmpList?, cmpList]
  | x :: xs, [] => by intro _ _; simp [cmpList?, cmpList]
  | x :: xs, y :: ys => by
    intro ha hb
    simp only [wfTagList, Bool.and_eq_true] at ha hb
    simp only [cmpList?, cmpList, cmp?_eq_cmp x y ha.1 hb.1]
    cases cmp x y <;> simp only []
    exact cmpList?_eq_cmpList xs ys ha.2 hb.2
theorem cmpKvs?_eq_cmpKvs : ∀ xs ys : List (PData × PData), wfTagKvs xs = true → wfTagKvs ys = true →
    cmpKvs? xs ys = some (cmpKvs xs ys)
  | [], ys => by intro _ _; cases ys <;> simp [cmpKvs?, cmpKvs]
  | (k, v) :: xs, [] => by intro _ _; simp [cmpKvs?, cmpKvs]
  | (k, v) :: xs, (k', v') :: ys => by
    intro ha hb
    simp only [wfTagKvs, Bool.and_eq_true] at ha hb
    simp only [cmpKvs?, cmpKvs, cmp?_eq_cmp k k' ha.1.1 hb.1.1, cmp?_eq_cmp v v' ha.1.2 hb.1.2]
    cases cmp k k' <;> simp only []
    cases cmp v v' <;> simp only []
    exact cmpKvs?_eq_cmpKvs xs ys ha.2 hb.2
end

/-! ## the comparison does not look at the definite/indefinite flag, nor at `any_constructor`
    of a constructor whose tag is not 102 -/

mutual
theorem cmp_eraseDef_left : ∀ a b : PData, cmp (eraseDef a) b = cmp a b
  | .constr t a d fs, b => by cases b <;> simp only [cmp, eraseDef]; rw [cmpList_eraseDef_left]
  | .map d kvs, b => by cases b <;> simp only [cmp, eraseDef]; rw [cmpKvs_eraseDef_left]
  | .array d xs, b => by cases b <;> simp only [cmp, eraseDef]; rw [cmpList_eraseDef_left]
  | .int x, b => by cases b <;> simp only [cmp, eraseDef]
  | .bytes x, b => by cases b <;> simp only [cmp, eraseDef]
theorem cmpList_eraseDef_left : ∀ xs ys : List PData, cmpList (eraseDefList xs) ys = cmpList xs ys
  | [], ys => by cases ys <;> simp [cmpList, eraseDefList]
  | x :: xs, [] => by simp [cmpList, eraseDefList]
  | x :: xs, y :: ys => by simp only [cmpList, eraseDefList, cmp_eraseDef_left x y, cmpList_eraseDef_left xs ys]
theorem cmpKvs_eraseDef_left : ∀ xs ys : List (PData × PData), cmpKvs (eraseDefKvs xs) ys = cmpKvs xs ys
  | [], ys => by cases ys <;> simp [cmpKvs, eraseDefKvs]
  | (k, v) :: xs, [] => by simp [cmpKvs, eraseDefKvs]
  | (k, v) :: xs, (k', v') :: ys => by
    simp only [cmpKvs, eraseDefKvs, cmp_eraseDef_left k k', cmp_eraseDef_left v v', cmpKvs_eraseDef_left xs ys]
end

theorem cmp_eraseDef (a b : PData) : cmp (eraseDef a) (eraseDef b) = cmp a b := by
  rw [cmp_eraseDef_left, cmp_swap, cmp_eraseDef_left, ← cmp_swap]

theorem cidx_normAny (t : Nat) (a : Option Nat) : cidx t (if t = 102 then a else none) = cidx t a := by
  by_cases h : t = 102
  · simp [h]
  · simp [h, cidx, constrIndex]

mutual
theorem cmp_normAny_left : ∀ a b : PData, cmp (normAny a) b = cmp a b
  | .constr t a d fs, b => by
    cases b <;> simp only [cmp, normAny]; rw [cmpList_normAny_left, cidx_normAny]
  | .map d kvs, b => by cases b <;> simp only [cmp, normAny]; rw [cmpKvs_normAny_left]
  | .array d xs, b => by cases b <;> simp only [cmp, normAny]; rw [cmpList_normAny_left]
  | .int x, b => by cases b <;> simp only [cmp, normAny]
  | .bytes x, b => by cases b <;> simp only [cmp, normAny]
theorem cmpList_normAny_left : ∀ xs ys : List PData, cmpList (normAnyList xs) ys = cmpList xs ys
  | [], ys => by cases ys <;> simp [cmpList, normAnyList]
  | x :: xs, [] => by simp [cmpList, normAnyList]
  | x :: xs, y :: ys => by simp only [cmpList, normAnyList, cmp_normAny_left x y, cmpList_normAny_left xs ys]
theorem cmpKvs_normAny_left : ∀ xs ys : List (PData × PData), cmpKvs (normAnyKvs xs) ys = cmpKvs xs ys
  | [], ys => by cases ys <;> simp [cmpKvs, normAnyKvs]
  | (k, v) :: xs, [] => by simp [cmpKvs, normAnyKvs]
  | (k, v) :: xs, (k', v') :: ys => by
    simp only [cmpKvs, normAnyKvs, cmp_normAny_left k k', cmp_normAny_left v v', cmpKvs_normAny_left xs ys]
end

theorem constrIndex_normAny (t : Nat) (a : Option Nat) (h : (constrIndex t a).isSome = true) :
    (constrIndex t (if t = 102 then a else none)).isSome = true := by
  by_cases h102 : t = 102
  · simpa [h102] using h
  · simp only [h102, if_false]
    unfold constrIndex at *
    split
    · rfl
    · split
      · rfl
      · simp_all

mutual
theorem wfTag_normAny : ∀ a : PData, wfTag a = true → wfTag (normAny a) = true
  | .constr t a d fs => by
    simp only [wfTag, normAny, Bool.and_eq_true]
    exact fun h => ⟨constrIndex_normAny t a h.1, wfTagList_normAny fs h.2⟩
  | .map d kvs => by simp only [wfTag, normAny]; exact wfTagKvs_normAny kvs
  | .array d xs => by simp only [wfTag, normAny]; exact wfTagList_normAny xs
  | .int x => by simp [wfTag, normAny]
  | .bytes x => by simp [wfTag, normAny]
theorem wfTagList_normAny : ∀ xs : List PData, wfTagList xs = true → wfTagList (normAnyList xs) = true
  | [] => by simp [wfTagList, normAnyList]
  | x :: xs => by
    simp only [wfTagList, normAnyList, Bool.and_eq_true]
    exact fun h => ⟨wfTag_normAny x h.1, wfTagList_normAny xs h.2⟩
theorem wfTagKvs_normAny : ∀ xs : List (PData × PData), wfTagKvs xs = true → wfTagKvs (normAnyKvs xs) = true
  | [] => by simp [wfTagKvs, normAnyKvs]
  | (k, v) :: xs => by
    simp only [wfTagKvs, normAnyKvs, Bool.and_eq_true]
    exact fun h => ⟨⟨wfTag_normAny k h.1.1, wfTag_normAny v h.1.2⟩, wfTagKvs_normAny xs h.2⟩
end

mutual
theorem wfTag_eraseDef : ∀ a : PData, wfTag (eraseDef a) = wfTag a
  | .constr t a d fs => by simp only [wfTag, eraseDef, wfTagList_eraseDef fs]
  | .map d kvs => by simp only [wfTag, eraseDef, wfTagKvs_eraseDef kvs]
  | .array d xs => by simp only [wfTag, eraseDef, wfTagList_eraseDef xs]
  | .int x => by simp [wfTag, eraseDef]
  | .bytes x => by simp [wfTag, eraseDef]
theorem wfTagList_eraseDef : ∀ xs : List PData, wfTagList (eraseDefList xs) = wfTagList xs
  | [] => by simp [wfTagList, eraseDefList]
  | x :: xs => by simp only [wfTagList, eraseDefList, wfTag_eraseDef x, wfTagList_eraseDef xs]
theorem wfTagKvs_eraseDef : ∀ xs : List (PData × PData), wfTagKvs (eraseDefKvs xs) = wfTagKvs xs
  | [] => by simp [wfTagKvs, eraseDefKvs]
  | (k, v) :: xs => by simp only [wfTagKvs, eraseDefKvs, wfTag_eraseDef k, wfTag_eraseDef v, wfTagKvs_eraseDef xs]
end

end PallasVerif.PlutusData
