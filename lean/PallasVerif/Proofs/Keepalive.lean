import PallasVerif.Model.Reassembly
/-! Helper lemmas for C21: the keep-alive codec of `Model/Reassembly.lean` round-trips without
    look-ahead and reports end-of-input on every proper prefix of an encoding. -/
namespace PallasVerif.Proofs.Keepalive
open PallasVerif.Reassembly

theorem u8n (n : Nat) : (UInt8.ofNat n).toNat = n % 256 := by simp

theorem primU16_enc (n : Nat) (hn : n < 65536) (r : Bytes) :
    primU16 (encU16 n ++ r) = .ok (UInt16.ofNat n) (encU16 n).length := by
  unfold encU16
  by_cases h1 : n < 24
  · simp only [h1, if_true, List.cons_append, List.nil_append, primU16, u8n]
    have a : ¬ n % 256 / 32 ≠ 0 := by omega
    have b : ¬ n % 256 % 32 ≥ 28 := by omega
    have c : n % 256 % 32 < 24 := by omega
    have d : n % 256 % 32 = n := by omega
    have e : ¬ 28 ≤ n := by omega
    simp [a, headArg, d, hn, e, h1]
  · by_cases h2 : n < 256
    · simp only [h1, h2, if_true, if_false, List.cons_append, List.nil_append, primU16]
      have d : n % 256 = n := by omega
      simp [headArg, u8n, d, hn]
    · simp only [h1, h2, if_false, List.cons_append, List.nil_append, primU16]
      have d : n / 256 % 256 * 256 + n % 256 = n := by omega
      simp [headArg, u8n, d, hn]

theorem prefix3 {p : Bytes} {a b c : UInt8} (h : p <+: [a, b, c]) :
    p = [] ∨ p = [a] ∨ p = [a, b] ∨ p = [a, b, c] := by
  rcases List.prefix_cons_iff.1 h with rfl | ⟨t1, rfl, ht1⟩
  · exact Or.inl rfl
  rcases List.prefix_cons_iff.1 ht1 with rfl | ⟨t2, rfl, ht2⟩
  · exact Or.inr (Or.inl rfl)
  rcases List.prefix_cons_iff.1 ht2 with rfl | ⟨t3, rfl, ht3⟩
  · exact Or.inr (Or.inr (Or.inl rfl))
  have : t3 = [] := List.prefix_nil.1 ht3
  subst this; exact Or.inr (Or.inr (Or.inr rfl))

theorem primU16_pfx (n : Nat) (p : Bytes) (hp : p <+: encU16 n) (hne : p ≠ encU16 n) :
    primU16 p = .eoi := by
  unfold encU16 at hp hne
  by_cases h1 : n < 24
  · simp only [h1, if_true] at hp hne
    rcases List.prefix_cons_iff.1 hp with rfl | ⟨t, rfl, ht⟩
    · rfl
    · have : t = [] := List.prefix_nil.1 ht
      subst this; exact absurd rfl hne
  · by_cases h2 : n < 256
    · simp only [h1, h2, if_true, if_false] at hp hne
      rcases List.prefix_cons_iff.1 hp with rfl | ⟨t1, rfl, ht1⟩
      · rfl
      rcases List.prefix_cons_iff.1 ht1 with rfl | ⟨t2, rfl, ht2⟩
      · decide
      · have : t2 = [] := List.prefix_nil.1 ht2
        subst this; exact absurd rfl hne
    · simp only [h1, h2, if_false] at hp hne
      rcases prefix3 hp with rfl | rfl | rfl | rfl
      · rfl
      · decide
      · simp [primU16, headArg]
      · exact absurd rfl hne

theorem encU16_ne_nil (n : Nat) : encU16 n ≠ [] := by
  unfold encU16; split <;> (try split) <;> simp

theorem kDec_two (a b : UInt8) (n : Nat) (hn : n < 65536) (r : Bytes) (ha : a = 0x82)
    (hb : b = 0x00 ∨ b = 0x01) :
    kDec (a :: b :: (encU16 n ++ r)) =
      .ok (if b = 0 then .keepAlive (UInt16.ofNat n) else .response (UInt16.ofNat n))
        ((encU16 n).length + 1 + 1) := by
  subst ha
  rcases hb with rfl | rfl
  · have h1 : primArray (0x82 :: 0x00 :: (encU16 n ++ r)) = .ok (some 2) 1 := by
      simp [primArray, headArg]
    have h2 : primU16 (0x00 :: (encU16 n ++ r)) = .ok 0 1 := by simp [primU16, headArg]
    simp [kDec, h1, h2, primU16_enc n hn r]
    omega
  · have h1 : primArray (0x82 :: 0x01 :: (encU16 n ++ r)) = .ok (some 2) 1 := by
      simp [primArray, headArg]
    have h2 : primU16 (0x01 :: (encU16 n ++ r)) = .ok 1 1 := by simp [primU16, headArg]
    simp [kDec, h1, h2, primU16_enc n hn r]
    omega

theorem kDec_short (b : UInt8) (hb : b = 0x00 ∨ b = 0x01) (q : Bytes) (hq : primU16 q = .eoi) :
    kDec (0x82 :: b :: q) = .eoi := by
  rcases hb with rfl | rfl
  · have h1 : primArray (0x82 :: 0x00 :: q) = .ok (some 2) 1 := by simp [primArray, headArg]
    have h2 : primU16 (0x00 :: q) = .ok 0 1 := by simp [primU16, headArg]
    simp [kDec, h1, h2, hq]
  · have h1 : primArray (0x82 :: 0x01 :: q) = .ok (some 2) 1 := by simp [primArray, headArg]
    have h2 : primU16 (0x01 :: q) = .ok 1 1 := by simp [primU16, headArg]
    simp [kDec, h1, h2, hq]

theorem kDec_pfx2 (b : UInt8) (hb : b = 0x00 ∨ b = 0x01) (n : Nat) (p : Bytes)
    (hp : p <+: 0x82 :: b :: encU16 n) (hne : p ≠ 0x82 :: b :: encU16 n) : kDec p = .eoi := by
  rcases List.prefix_cons_iff.1 hp with rfl | ⟨t1, rfl, ht1⟩
  · rfl
  rcases List.prefix_cons_iff.1 ht1 with rfl | ⟨t2, rfl, ht2⟩
  · simp [kDec, primArray, headArg, primU16]
  · apply kDec_short b hb
    apply primU16_pfx n t2 ht2
    intro e; apply hne; rw [e]

theorem kRt (m : KMsg) (r : Bytes) : kDec (kEnc m ++ r) = .ok m (kEnc m).length := by
  cases m with
  | keepAlive c =>
    have := kDec_two 0x82 0x00 c.toNat c.toNat_lt r rfl (Or.inl rfl)
    simpa [kEnc] using this
  | response c =>
    have := kDec_two 0x82 0x01 c.toNat c.toNat_lt r rfl (Or.inr rfl)
    simpa [kEnc] using this
  | done => simp [kEnc, kDec, primArray, primU16, headArg]

theorem kPfx (m : KMsg) (p : Bytes) (hp : p <+: kEnc m) (hne : p ≠ kEnc m) : kDec p = .eoi := by
  cases m with
  | keepAlive c => exact kDec_pfx2 0x00 (Or.inl rfl) c.toNat p (by simpa [kEnc] using hp) (by simpa [kEnc] using hne)
  | response c => exact kDec_pfx2 0x01 (Or.inr rfl) c.toNat p (by simpa [kEnc] using hp) (by simpa [kEnc] using hne)
  | done =>
    simp only [kEnc] at hp hne
    rcases List.prefix_cons_iff.1 hp with rfl | ⟨t1, rfl, ht1⟩
    · rfl
    rcases List.prefix_cons_iff.1 ht1 with rfl | ⟨t2, rfl, ht2⟩
    · simp [kDec, primArray, headArg, primU16]
    · have : t2 = [] := List.prefix_nil.1 ht2
      subst this; exact absurd rfl hne

theorem kNonempty (m : KMsg) : kEnc m ≠ [] := by cases m <;> simp [kEnc]

end PallasVerif.Proofs.Keepalive
