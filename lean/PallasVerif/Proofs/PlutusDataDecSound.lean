import PallasVerif.Proofs.PlutusDataDec
/-!
  Converse of `decP_refines`: whatever the byte-level PlutusData decoder accepts is the encoding of a
  well-formed CBOR tree that the tree decoder `ofItem` maps to the same value, followed by exactly the
  returned rest. Together: the decoder (as transcribed from the Rust) **is** "strict CBOR parser, then
  `ofItem`" (`decodeBytes_iff`).
-/
namespace PallasVerif.PlutusData.Dec
open PallasVerif.Cbor PallasVerif.PlutusData
set_option linter.unusedSimpArgs false
set_option linter.unusedVariables false

/-! ## primitives -/

theorem readSlice_sound (n : Nat) (bs a r : Bytes) (h : readSlice n bs = some (a, r)) :
    bs = a ++ r ∧ a.length = n := by
  unfold readSlice at h
  split at h
  · simp at h
  · simp only [Option.some.injEq, Prod.mk.injEq] at h
    obtain ⟨rfl, rfl⟩ := h
    exact ⟨(List.take_append_drop n bs).symm, by simp; omega⟩

theorem unsigned_sound (ai : Nat) (rest : Bytes) (n : Nat) (r : Bytes) (h : unsigned ai rest = some (n, r)) :
    ∃ arg, rest = arg ++ r ∧ argLen ai = some arg.length ∧ ai ≠ 31 ∧ ∀ m, (Head.mk m ai arg).val = n := by
  unfold unsigned at h
  split at h
  · rename_i h24
    simp only [Option.some.injEq, Prod.mk.injEq] at h
    obtain ⟨rfl, rfl⟩ := h
    exact ⟨[], by simp, by simp [argLen, h24], by omega, fun m => by simp [Head.val, h24]⟩
  · rename_i h24
    have key : ∀ k, (ai = 24 ∨ ai = 25 ∨ ai = 26 ∨ ai = 27) → argLen ai = some k →
        Option.map (fun x : Bytes × Bytes => (ofBe x.1, x.2)) (readSlice k rest) = some (n, r) →
        ∃ arg, rest = arg ++ r ∧ argLen ai = some arg.length ∧ ai ≠ 31 ∧ ∀ m, (Head.mk m ai arg).val = n := by
      intro k hai hk hm
      simp only [Option.map_eq_some_iff] at hm
      obtain ⟨⟨a, r'⟩, hs, e⟩ := hm
      simp only [Prod.mk.injEq] at e
      obtain ⟨rfl, rfl⟩ := e
      obtain ⟨e1, e2⟩ := readSlice_sound k rest a r' hs
      exact ⟨a, e1, by rw [hk, e2], by omega, fun m => by simp [Head.val, h24]⟩
    split at h
    · rename_i e; exact key 1 (by omega) (by simp [argLen, e]) h
    · split at h
      · rename_i e; exact key 2 (by omega) (by simp [argLen, e]) h
      · split at h
        · rename_i e; exact key 4 (by omega) (by simp [argLen, e]) h
        · split at h
          · rename_i e; exact key 8 (by omega) (by simp [argLen, e]) h
          · simp at h

/-- a definite head was read -/
theorem readHead_sound (m : Nat) (bs : Bytes) (n : Nat) (r : Bytes) (h : readHead m bs = some (n, r)) :
    ∃ hd : Head, hd.wf = true ∧ hd.major = m ∧ hd.ai ≠ 31 ∧ hd.val = n ∧ bs = hd.encode ++ r := by
  cases bs with
  | nil => simp [readHead] at h
  | cons b rest =>
    simp only [readHead] at h
    split at h
    · rename_i hm
      obtain ⟨arg, e1, e2, e3, e4⟩ := unsigned_sound _ _ _ _ h
      have hb := b.toNat_lt
      refine ⟨⟨b.toNat / 32, b.toNat % 32, arg⟩, ?_, hm, e3, e4 _, ?_⟩
      · rw [Head.wf_iff]; exact ⟨by simp only; omega, by simp only; omega, e2⟩
      · simp [Head.encode, initByte_of_byte, e1]
    · simp at h

theorem readSeqHead_sound (m : Nat) (bs : Bytes) (x : Option Nat) (r : Bytes) (h : readSeqHead m bs = some (x, r)) :
    m < 8 ∧ match x with
      | some n => ∃ hd : Head, hd.wf = true ∧ hd.major = m ∧ hd.ai ≠ 31 ∧ hd.val = n ∧ bs = hd.encode ++ r
      | none => bs = initByte m 31 :: r := by
  cases bs with
  | nil => simp [readSeqHead] at h
  | cons b rest =>
    have hb := b.toNat_lt
    simp only [readSeqHead] at h
    split at h
    · rename_i hm
      refine ⟨by omega, ?_⟩
      split at h
      · rename_i h31
        simp only [Option.some.injEq, Prod.mk.injEq] at h
        obtain ⟨rfl, rfl⟩ := h
        simp only
        rw [← hm, ← h31, initByte_of_byte]
      · rename_i h31
        simp only [Option.map_eq_some_iff] at h
        obtain ⟨⟨n, r'⟩, hu, e⟩ := h
        simp only [Prod.mk.injEq] at e
        obtain ⟨rfl, rfl⟩ := e
        simp only
        exact readHead_sound m (b :: rest) n r' (by simp [readHead, hm, hu])
    · simp at h

theorem readInt_sound (bs : Bytes) (i : Int) (r : Bytes) (h : readInt bs = some (i, r)) :
    ∃ hd : Head, (Item.atom hd).wf = true ∧ ofItem (.atom hd) = some (.int (.int i)) ∧ bs = hd.encode ++ r := by
  cases bs with
  | nil => simp [readInt] at h
  | cons b rest =>
    simp only [readInt] at h
    split at h
    · rename_i hm
      simp only [Option.map_eq_some_iff] at h
      obtain ⟨⟨n, r'⟩, hu, e⟩ := h
      simp only [Prod.mk.injEq] at e
      obtain ⟨rfl, rfl⟩ := e
      obtain ⟨hd, w, m0, a31, v, e⟩ := readHead_sound 0 (b :: rest) n r' (by simp [readHead, hm, hu])
      exact ⟨hd, by simp [Item.wf, w, m0, a31], by simp [ofItem, m0, v], e⟩
    · split at h
      · rename_i hm0 hm
        simp only [Option.map_eq_some_iff] at h
        obtain ⟨⟨n, r'⟩, hu, e⟩ := h
        simp only [Prod.mk.injEq] at e
        obtain ⟨rfl, rfl⟩ := e
        obtain ⟨hd, w, m1, a31, v, e⟩ := readHead_sound 1 (b :: rest) n r' (by simp [readHead, hm, hu])
        exact ⟨hd, by simp [Item.wf, w, m1, a31], by simp [ofItem, m1, v], e⟩
      · simp at h

theorem readBytes_sound (bs c r : Bytes) (h : readBytes bs = some (c, r)) :
    ∃ hd : Head, chunkWf 2 (hd, c) = true ∧ bs = hd.encode ++ c ++ r := by
  cases bs with
  | nil => simp [readBytes] at h
  | cons b rest =>
    simp only [readBytes] at h
    split at h
    · rename_i hm
      split at h
      · rename_i n r' hu
        obtain ⟨hd, w, m2, a31, v, e⟩ := readHead_sound 2 (b :: rest) n r' (by simp [readHead, hm.1, hu])
        obtain ⟨e1, e2⟩ := readSlice_sound n r' c r h
        exact ⟨hd, by simp [chunkWf, w, m2, a31, e2, v], by rw [e, e1]; simp⟩
      · simp at h
    · simp at h

theorem readChunks_sound : ∀ (fuel : Nat) (bs out r : Bytes), readChunks fuel bs = some (out, r) →
    ∃ cs, chunksWf 2 cs = true ∧ chunksPayload cs = out ∧ bs = encodeChunks cs ++ 0xff :: r
  | 0, _, _, _, h => by simp [readChunks] at h
  | fuel + 1, [], _, _, h => by simp [readChunks] at h
  | fuel + 1, b :: rest, out, r, h => by
    simp only [readChunks] at h
    split at h
    · rename_i hb
      simp only [Option.some.injEq, Prod.mk.injEq] at h
      obtain ⟨rfl, rfl⟩ := h
      exact ⟨[], rfl, rfl, by simp [encodeChunks, hb]⟩
    · split at h
      · simp at h
      · rename_i c r1 hc
        split at h
        · simp at h
        · rename_i cs' r2 hcs
          simp only [Option.some.injEq, Prod.mk.injEq] at h
          obtain ⟨rfl, rfl⟩ := h
          obtain ⟨hd, w, e⟩ := readBytes_sound _ _ _ hc
          obtain ⟨cs, wcs, pcs, ecs⟩ := readChunks_sound fuel r1 cs' r2 hcs
          exact ⟨(hd, c) :: cs, by simp [chunksWf, w, wcs], by simp [chunksPayload, pcs],
            by rw [e, ecs]; simp [encodeChunks]⟩

theorem decBounded_sound (fuel : Nat) (bs out r : Bytes) (h : decBounded fuel bs = some (out, r)) :
    ∃ i : Item, i.wf = true ∧ i.strPayload? 2 = some out ∧ ofItem i = some (.bytes out) ∧ bs = i.encode ++ r := by
  cases bs with
  | nil => simp [decBounded] at h
  | cons b rest =>
    have hb := b.toNat_lt
    simp only [decBounded] at h
    split at h
    · rename_i hm
      split at h
      · rename_i h31
        obtain ⟨cs, w, p, e⟩ := readChunks_sound fuel rest out r h
        refine ⟨.strIndef 2 cs, by simp [Item.wf, w], by simp [Item.strPayload?, p], by simp [ofItem, p], ?_⟩
        have : b = initByte 2 31 := by rw [← hm, ← h31, initByte_of_byte]
        simp [Item.encode, this, e]
      · rename_i h31
        split at h
        · rename_i n r' hu
          obtain ⟨hd, w, m2, a31, v, e⟩ := readHead_sound 2 (b :: rest) n r' (by simp [readHead, hm, hu])
          obtain ⟨e1, e2⟩ := readSlice_sound n r' out r h
          exact ⟨.str hd out, by simp [Item.wf, w, m2, a31, e2, v], by simp [Item.strPayload?, m2],
            by simp [ofItem, m2], by rw [e, e1]; simp [Item.encode]⟩
        · simp at h
    · simp at h

theorem decBig_sound (fuel : Nat) (bs : Bytes) (x : BigInt) (r : Bytes) (h : decBig fuel bs = some (x, r)) :
    ∃ i : Item, i.wf = true ∧ ofItem i = some (.int x) ∧ bs = i.encode ++ r := by
  unfold decBig at h
  split at h
  · simp only [Option.map_eq_some_iff] at h
    obtain ⟨⟨i, r'⟩, hi, e⟩ := h
    simp only [Prod.mk.injEq] at e
    obtain ⟨rfl, rfl⟩ := e
    obtain ⟨hd, w, o, e⟩ := readInt_sound bs i r' hi
    exact ⟨.atom hd, w, o, by simp [Item.encode, e]⟩
  · split at h
    · rename_i t r1 ht
      obtain ⟨hd, w, m6, a31, v, e⟩ := readHead_sound 6 bs t r1 ht
      split at h
      · rename_i h2
        simp only [Option.map_eq_some_iff] at h
        obtain ⟨⟨b, r'⟩, hb, e'⟩ := h
        simp only [Prod.mk.injEq] at e'
        obtain ⟨rfl, rfl⟩ := e'
        obtain ⟨i, wi, pi, _, ei⟩ := decBounded_sound fuel r1 b r' hb
        refine ⟨.tag hd i, by simp [Item.wf, w, m6, a31, wi], ?_, by rw [e, ei]; simp [Item.encode]⟩
        rw [ofItem_tag]; simp [v, h2, pi]
      · split at h
        · rename_i h2 h3
          simp only [Option.map_eq_some_iff] at h
          obtain ⟨⟨b, r'⟩, hb, e'⟩ := h
          simp only [Prod.mk.injEq] at e'
          obtain ⟨rfl, rfl⟩ := e'
          obtain ⟨i, wi, pi, _, ei⟩ := decBounded_sound fuel r1 b r' hb
          refine ⟨.tag hd i, by simp [Item.wf, w, m6, a31, wi], ?_, by rw [e, ei]; simp [Item.encode]⟩
          rw [ofItem_tag]; simp [v, h2, h3, pi]
        · simp at h
    · simp at h
  · simp at h

/-! ## shapes -/

def MapShape (mi : Item) (df : Bool) (its : List Item) : Prop :=
  (∃ h, mi = .seq h its ∧ h.major = 5 ∧ df = true) ∨ (mi = .seqIndef 5 its ∧ df = false)

theorem ofItem_arrayShape (fi : Item) (df : Bool) (its : List Item) (xs : List PData)
    (hs : ArrayShape fi df its) (ho : ofItems its = some xs) : ofItem fi = some (.array df xs) := by
  rcases hs with ⟨h, rfl, hm, rfl⟩ | ⟨rfl, rfl⟩
  · simp [ofItem, hm, ho]
  · simp [ofItem, ho]

theorem ofItem_mapShape (mi : Item) (df : Bool) (its : List Item) (kvs : List (PData × PData))
    (hs : MapShape mi df its) (ho : ofPairs its = some kvs) : ofItem mi = some (.map df kvs) := by
  rcases hs with ⟨h, rfl, hm, rfl⟩ | ⟨rfl, rfl⟩
  · have : h.major ≠ 4 := by omega
    simp [ofItem, this, ho]
  · simp [ofItem, ho]

theorem arrayShape_datatype (fi : Item) (df : Bool) (its : List Item) (r : Bytes)
    (hs : ArrayShape fi df its) (hw : fi.wf = true) :
    datatype (fi.encode ++ r) = some (if df then .array else .arrayIndef) := by
  rcases hs with ⟨h, rfl, hm, rfl⟩ | ⟨rfl, rfl⟩
  · simp only [Item.wf, Bool.and_eq_true, decide_eq_true_eq] at hw
    obtain ⟨⟨⟨⟨hwf, _⟩, hai⟩, _⟩, _⟩ := hw
    have hle := wf_ai_le h hwf hai
    simp only [Item.encode, List.append_assoc]
    rw [datatype_def h hwf hai _ 4 hm (by decide)]; simp [tyOf, hle]
  · simp only [Item.encode, List.cons_append]
    rw [datatype_indef 4 (by decide)]; simp [tyOf]

theorem mapShape_datatype (mi : Item) (df : Bool) (its : List Item) (r : Bytes)
    (hs : MapShape mi df its) (hw : mi.wf = true) :
    datatype (mi.encode ++ r) = some (if df then .map else .mapIndef) := by
  rcases hs with ⟨h, rfl, hm, rfl⟩ | ⟨rfl, rfl⟩
  · simp only [Item.wf, Bool.and_eq_true, decide_eq_true_eq] at hw
    obtain ⟨⟨⟨⟨hwf, _⟩, hai⟩, _⟩, _⟩ := hw
    have hle := wf_ai_le h hwf hai
    simp only [Item.encode, List.append_assoc]
    rw [datatype_def h hwf hai _ 5 hm (by decide)]; simp [tyOf, hle]
  · simp only [Item.encode, List.cons_append]
    rw [datatype_indef 5 (by decide)]; simp [tyOf]

theorem ofPairs_length : ∀ (its : List Item) (kvs : List (PData × PData)), ofPairs its = some kvs →
    its.length = 2 * kvs.length
  | [], kvs, h => by simp [ofPairs] at h; subst h; rfl
  | [_], kvs, h => by simp [ofPairs] at h
  | k :: v :: xs, kvs, h => by
    simp only [ofPairs] at h
    cases hk : ofItem k <;> cases hv : ofItem v <;> cases hx : ofPairs xs <;> simp [hk, hv, hx] at h
    subst h
    have := ofPairs_length xs _ hx
    simp; omega

theorem ofItem_tag_constr (hd : Head) (fi : Item) (df : Bool) (its : List Item) (xs : List PData)
    (hc : isConstrTag hd.val = true) (hs : ArrayShape fi df its) (ho : ofItems its = some xs) :
    ofItem (.tag hd fi) = some (.constr hd.val none df xs) := by
  have h2 : hd.val ≠ 2 := by rw [isConstrTag_iff] at hc; omega
  have h3 : hd.val ≠ 3 := by rw [isConstrTag_iff] at hc; omega
  rw [ofItem_tag]
  rcases hs with ⟨h, rfl, hm, rfl⟩ | ⟨rfl, rfl⟩
  · simp [h2, h3, hc, hm, ho]
  · simp [h2, h3, hc, ho]

theorem inner102_shape (ha : Head) (fi : Item) (df : Bool) (its : List Item) (xs : List PData)
    (ham : ha.major = 0) (hs : ArrayShape fi df its) (ho : ofItems its = some xs) :
    inner102 (.atom ha) fi = some (.constr 102 (some ha.val) df xs) := by
  unfold inner102
  rcases hs with ⟨h, rfl, hm, rfl⟩ | ⟨rfl, rfl⟩
  · simp [Item.uint?, ham, hm, ho]
  · simp [Item.uint?, ham, ho]

theorem ofItem_tag_102 (hd : Head) (i : Item) (ha : Head) (fi : Item) (df : Bool) (its : List Item)
    (xs : List PData) (h102 : hd.val = 102) (hout : Outer102 i (.atom ha) fi) (ham : ha.major = 0)
    (hs : ArrayShape fi df its) (ho : ofItems its = some xs) :
    ofItem (.tag hd i) = some (.constr 102 (some ha.val) df xs) := by
  have hc102 : isConstrTag 102 = false := by decide
  rw [ofItem_tag]
  have hin := inner102_shape ha fi df its xs ham hs ho
  rcases hout with ⟨h', rfl, hm'⟩ | rfl
  · simp [h102, hc102, hm', hin]
  · simp [h102, hc102, hin]

/-! ## all nine decoder layers -/

structure SoundAt (fuel : Nat) : Prop where
  p : ∀ bs d r, decP fuel bs = some (d, r) → ∃ i : Item, i.wf = true ∧ ofItem i = some d ∧ bs = i.encode ++ r
  c : ∀ bs d r, decConstr fuel bs = some (d, r) → ∃ i : Item, i.wf = true ∧ ofItem i = some d ∧ bs = i.encode ++ r
  v : ∀ bs xs r, decVec fuel bs = some (xs, r) → ∃ fi df its, ArrayShape fi df its ∧ fi.wf = true ∧
        ofItems its = some xs ∧ bs = fi.encode ++ r
  m : ∀ bs df xs r, decMaybeIndef fuel bs = some ((df, xs), r) → ∃ fi its, ArrayShape fi df its ∧ fi.wf = true ∧
        ofItems its = some xs ∧ bs = fi.encode ++ r
  k : ∀ bs kvs r, decKvs fuel bs = some (kvs, r) → ∃ mi df its, MapShape mi df its ∧ mi.wf = true ∧
        ofPairs its = some kvs ∧ bs = mi.encode ++ r
  n : ∀ n bs xs r, decN fuel n bs = some (xs, r) → ∃ its : List Item, its.length = n ∧ wfList its = true ∧
        ofItems its = some xs ∧ bs = encodeList its ++ r
  b : ∀ bs xs r, decBreak fuel bs = some (xs, r) → ∃ its : List Item, wfList its = true ∧
        ofItems its = some xs ∧ bs = encodeList its ++ 0xff :: r
  pn : ∀ n bs kvs r, decPairsN fuel n bs = some (kvs, r) → ∃ its : List Item, its.length = 2 * n ∧
        wfList its = true ∧ ofPairs its = some kvs ∧ bs = encodeList its ++ r
  pb : ∀ bs kvs r, decPairsBreak fuel bs = some (kvs, r) → ∃ its : List Item, wfList its = true ∧
        ofPairs its = some kvs ∧ bs = encodeList its ++ 0xff :: r

theorem soundAt_zero : SoundAt 0 where
  p := by intro bs d r h; simp [decP] at h
  c := by intro bs d r h; simp [decConstr] at h
  v := by intro bs xs r h; simp [decVec] at h
  m := by intro bs df xs r h; simp [decMaybeIndef] at h
  k := by intro bs xs r h; simp [decKvs] at h
  n := by
    intro n bs xs r h
    cases n with
    | zero => simp [decN] at h; exact ⟨[], rfl, rfl, by simp [ofItems, h.1], by simp [encodeList, h.2]⟩
    | succ n => simp [decN] at h
  b := by intro bs xs r h; simp [decBreak] at h
  pn := by
    intro n bs xs r h
    cases n with
    | zero => simp [decPairsN] at h; exact ⟨[], rfl, rfl, by simp [ofPairs, h.1], by simp [encodeList, h.2]⟩
    | succ n => simp [decPairsN] at h
  pb := by intro bs xs r h; simp [decPairsBreak] at h

theorem seq_wf (hd : Head) (its : List Item) (hw : hd.wf = true) (hm : hd.major = 4 ∨ hd.major = 5)
    (ha : hd.ai ≠ 31) (hl : its.length = seqCount hd) (hi : wfList its = true) : (Item.seq hd its).wf = true := by
  simp [Item.wf, hw, ha, hl, hi]
  exact hm

theorem tag_wf (hd : Head) (i : Item) (hw : hd.wf = true) (hm : hd.major = 6) (ha : hd.ai ≠ 31)
    (hi : i.wf = true) : (Item.tag hd i).wf = true := by
  simp [Item.wf, hw, hm, ha, hi]

theorem seqIndef4_wf (its : List Item) (hi : wfList its = true) : (Item.seqIndef 4 its).wf = true := by
  simp [Item.wf, hi]

theorem wfList_pair (a b : Item) (ha : a.wf = true) (hb : b.wf = true) : wfList [a, b] = true := by
  simp only [wfList, ha, hb, Bool.and_self]

theorem soundAt_succ (f : Nat) (ih : SoundAt f) : SoundAt (f + 1) where
  v := by
    intro bs xs r h
    simp only [decVec] at h
    split at h
    · simp at h
    · rename_i n r1 hs
      obtain ⟨_, hd, w, m4, a31, v, e⟩ := readSeqHead_sound 4 bs (some n) r1 hs
      obtain ⟨its, hl, wi, oi, ei⟩ := ih.n _ _ _ _ h
      refine ⟨.seq hd its, true, its, .inl ⟨hd, rfl, m4, rfl⟩,
        seq_wf hd its w (.inl m4) a31 (by simp [seqCount, m4, v, hl]) wi, oi, ?_⟩
      rw [e, ei]; simp [Item.encode]
    · rename_i r1 hs
      obtain ⟨_, e⟩ := readSeqHead_sound 4 bs none r1 hs
      simp only at e
      obtain ⟨its, wi, oi, ei⟩ := ih.b _ _ _ h
      refine ⟨.seqIndef 4 its, false, its, .inr ⟨rfl, rfl⟩, by simp [Item.wf, wi], oi, ?_⟩
      rw [e, ei]; simp [Item.encode]
  k := by
    intro bs kvs r h
    simp only [decKvs] at h
    split at h
    · simp at h
    · rename_i n r1 hs
      obtain ⟨_, hd, w, m5, a31, v, e⟩ := readSeqHead_sound 5 bs (some n) r1 hs
      obtain ⟨its, hl, wi, oi, ei⟩ := ih.pn _ _ _ _ h
      refine ⟨.seq hd its, true, its, .inl ⟨hd, rfl, m5, rfl⟩,
        seq_wf hd its w (.inr m5) a31 (by simp [seqCount, m5, v, hl]) wi, oi, ?_⟩
      rw [e, ei]; simp [Item.encode]
    · rename_i r1 hs
      obtain ⟨_, e⟩ := readSeqHead_sound 5 bs none r1 hs
      simp only at e
      obtain ⟨its, wi, oi, ei⟩ := ih.pb _ _ _ h
      have hev := ofPairs_length its kvs oi
      refine ⟨.seqIndef 5 its, false, its, .inr ⟨rfl, rfl⟩, by simp [Item.wf, wi]; omega, oi, ?_⟩
      rw [e, ei]; simp [Item.encode]
  m := by
    intro bs df xs r h
    simp only [decMaybeIndef] at h
    split at h
    · rename_i hdt
      simp only [Option.map_eq_some_iff] at h
      obtain ⟨⟨ys, r'⟩, hv, e⟩ := h
      simp only [Prod.mk.injEq] at e
      obtain ⟨⟨rfl, rfl⟩, rfl⟩ := e
      obtain ⟨fi, df', its, hs, w, oi, ei⟩ := ih.v _ _ _ hv
      have hd := arrayShape_datatype fi df' its r' hs w
      rw [← ei, hdt] at hd
      have : df' = true := by cases df' <;> simp at hd ⊢
      subst this
      exact ⟨fi, its, hs, w, oi, ei⟩
    · rename_i hdt
      simp only [Option.map_eq_some_iff] at h
      obtain ⟨⟨ys, r'⟩, hv, e⟩ := h
      simp only [Prod.mk.injEq] at e
      obtain ⟨⟨rfl, rfl⟩, rfl⟩ := e
      obtain ⟨fi, df', its, hs, w, oi, ei⟩ := ih.v _ _ _ hv
      have hd := arrayShape_datatype fi df' its r' hs w
      rw [← ei, hdt] at hd
      have : df' = false := by cases df' <;> simp at hd ⊢
      subst this
      exact ⟨fi, its, hs, w, oi, ei⟩
    · simp at h
  c := by
    intro bs d r h
    simp only [decConstr] at h
    split at h
    · simp at h
    · rename_i t r0 ht
      obtain ⟨hd, w, m6, a31, v, e⟩ := readHead_sound 6 bs t r0 ht
      split at h
      · rename_i hc
        simp only [Option.map_eq_some_iff] at h
        obtain ⟨⟨⟨df, xs⟩, r'⟩, hm, e'⟩ := h
        simp only [Prod.mk.injEq] at e'
        obtain ⟨rfl, rfl⟩ := e'
        obtain ⟨fi, its, hs, wf, oi, ei⟩ := ih.m _ _ _ _ hm
        refine ⟨.tag hd fi, tag_wf hd fi w m6 a31 wf, ?_, by rw [e, ei]; simp [Item.encode]⟩
        rw [← v] at hc ⊢
        exact ofItem_tag_constr hd fi df its xs hc hs oi
      · split at h
        · rename_i hc h102
          split at h
          · simp at h
          · rename_i len r1 hlen
            split at h
            · simp at h
            · rename_i a r2 ha
              obtain ⟨hda, wa, ma, aa, va, ea⟩ := readHead_sound 0 r1 a r2 ha
              split at h
              · simp at h
              · rename_i df xs r3 hm
                obtain ⟨fi, its, hs, wfi, oi, ei⟩ := ih.m _ _ _ _ hm
                have haw : (Item.atom hda).wf = true := by simp [Item.wf, wa, ma, aa]
                split at h
                · rename_i n
                  split at h
                  · rename_i hn2
                    simp only [Option.some.injEq, Prod.mk.injEq] at h
                    obtain ⟨rfl, rfl⟩ := h
                    obtain ⟨_, hd', w', m4, a31', v', e'⟩ := readSeqHead_sound 4 r0 (some n) r1 hlen
                    refine ⟨.tag hd (.seq hd' [.atom hda, fi]), ?_, ?_, ?_⟩
                    · exact tag_wf hd _ w m6 a31
                        (seq_wf hd' _ w' (.inl m4) a31' (by simp [seqCount, m4, v', hn2]) (wfList_pair _ _ haw wfi))
                    · rw [← va]
                      exact ofItem_tag_102 hd _ hda fi df its xs (by rw [v, h102]) (.inl ⟨hd', rfl, m4⟩) ma hs oi
                    · rw [e, e', ea, ei]; simp [Item.encode, encodeList]
                  · simp at h
                · split at h
                  · simp at h
                  · rename_i b r4
                    split at h
                    · rename_i hb
                      simp only [Option.some.injEq, Prod.mk.injEq] at h
                      obtain ⟨rfl, rfl⟩ := h
                      obtain ⟨_, e'⟩ := readSeqHead_sound 4 r0 none r1 hlen
                      simp only at e'
                      refine ⟨.tag hd (.seqIndef 4 [.atom hda, fi]), ?_, ?_, ?_⟩
                      · exact tag_wf hd _ w m6 a31 (seqIndef4_wf _ (wfList_pair _ _ haw wfi))
                      · rw [← va]
                        exact ofItem_tag_102 hd _ hda fi df its xs (by rw [v, h102]) (.inr rfl) ma hs oi
                      · rw [e, e', ea, ei, hb]; simp [Item.encode, encodeList]
                    · simp at h
        · simp at h
  p := by
    intro bs d r h
    simp only [decP] at h
    have big : ∀ (x : Option (BigInt × Bytes)), x = decBig f bs →
        Option.map (fun y : BigInt × Bytes => (PData.int y.1, y.2)) x = some (d, r) →
        ∃ i : Item, i.wf = true ∧ ofItem i = some d ∧ bs = i.encode ++ r := by
      intro x hx hm
      simp only [Option.map_eq_some_iff] at hm
      obtain ⟨⟨b, r'⟩, hb, e⟩ := hm
      simp only [Prod.mk.injEq] at e
      obtain ⟨rfl, rfl⟩ := e
      rw [hx] at hb
      exact decBig_sound f bs b r' hb
    have bounded : ∀ (x : Option (Bytes × Bytes)), x = decBounded f bs →
        Option.map (fun y : Bytes × Bytes => (PData.bytes y.1, y.2)) x = some (d, r) →
        ∃ i : Item, i.wf = true ∧ ofItem i = some d ∧ bs = i.encode ++ r := by
      intro x hx hm
      simp only [Option.map_eq_some_iff] at hm
      obtain ⟨⟨b, r'⟩, hb, e⟩ := hm
      simp only [Prod.mk.injEq] at e
      obtain ⟨rfl, rfl⟩ := e
      rw [hx] at hb
      obtain ⟨i, wi, _, oi, ei⟩ := decBounded_sound f bs b r' hb
      exact ⟨i, wi, oi, ei⟩
    split at h
    · split at h
      · simp at h
      · split at h
        · exact big _ rfl h
        · split at h
          · exact ih.c _ _ _ h
          · simp at h
    · exact big _ rfl h
    · rename_i hdt
      simp only [Option.map_eq_some_iff] at h
      obtain ⟨⟨kvs, r'⟩, hk, e⟩ := h
      simp only [Prod.mk.injEq] at e
      obtain ⟨rfl, rfl⟩ := e
      obtain ⟨mi, df, its, hs, w, oi, ei⟩ := ih.k _ _ _ hk
      have hd := mapShape_datatype mi df its r' hs w
      rw [← ei, hdt] at hd
      have : df = true := by cases df <;> simp at hd ⊢
      subst this
      exact ⟨mi, w, ofItem_mapShape mi true its kvs hs oi, ei⟩
    · rename_i hdt
      simp only [Option.map_eq_some_iff] at h
      obtain ⟨⟨kvs, r'⟩, hk, e⟩ := h
      simp only [Prod.mk.injEq] at e
      obtain ⟨rfl, rfl⟩ := e
      obtain ⟨mi, df, its, hs, w, oi, ei⟩ := ih.k _ _ _ hk
      have hd := mapShape_datatype mi df its r' hs w
      rw [← ei, hdt] at hd
      have : df = false := by cases df <;> simp at hd ⊢
      subst this
      exact ⟨mi, w, ofItem_mapShape mi false its kvs hs oi, ei⟩
    · exact bounded _ rfl h
    · exact bounded _ rfl h
    · rename_i hdt
      simp only [Option.map_eq_some_iff] at h
      obtain ⟨⟨xs, r'⟩, hv, e⟩ := h
      simp only [Prod.mk.injEq] at e
      obtain ⟨rfl, rfl⟩ := e
      obtain ⟨fi, df, its, hs, w, oi, ei⟩ := ih.v _ _ _ hv
      have hd := arrayShape_datatype fi df its r' hs w
      rw [← ei, hdt] at hd
      have : df = true := by cases df <;> simp at hd ⊢
      subst this
      exact ⟨fi, w, ofItem_arrayShape fi true its xs hs oi, ei⟩
    · rename_i hdt
      simp only [Option.map_eq_some_iff] at h
      obtain ⟨⟨xs, r'⟩, hv, e⟩ := h
      simp only [Prod.mk.injEq] at e
      obtain ⟨rfl, rfl⟩ := e
      obtain ⟨fi, df, its, hs, w, oi, ei⟩ := ih.v _ _ _ hv
      have hd := arrayShape_datatype fi df its r' hs w
      rw [← ei, hdt] at hd
      have : df = false := by cases df <;> simp at hd ⊢
      subst this
      exact ⟨fi, w, ofItem_arrayShape fi false its xs hs oi, ei⟩
    · simp at h
  n := by
    intro n bs xs r h
    cases n with
    | zero => simp [decN] at h; exact ⟨[], rfl, rfl, by simp [ofItems, h.1], by simp [encodeList, h.2]⟩
    | succ n =>
      simp only [decN] at h
      split at h
      · simp at h
      · rename_i x r1 hx
        split at h
        · simp at h
        · rename_i ys r2 hys
          simp only [Option.some.injEq, Prod.mk.injEq] at h
          obtain ⟨rfl, rfl⟩ := h
          obtain ⟨i, wi, oi, ei⟩ := ih.p _ _ _ hx
          obtain ⟨its, hl, wis, ois, eis⟩ := ih.n _ _ _ _ hys
          exact ⟨i :: its, by simp [hl], by simp [wfList, wi, wis], by simp [ofItems, oi, ois],
            by rw [ei, eis]; simp [encodeList]⟩
  b := by
    intro bs xs r h
    cases bs with
    | nil => simp [decBreak] at h
    | cons b0 rest =>
      simp only [decBreak] at h
      split at h
      · rename_i hb
        simp only [Option.some.injEq, Prod.mk.injEq] at h
        obtain ⟨rfl, rfl⟩ := h
        exact ⟨[], rfl, rfl, by simp [encodeList, hb]⟩
      · split at h
        · simp at h
        · rename_i x r1 hx
          split at h
          · simp at h
          · rename_i ys r2 hys
            simp only [Option.some.injEq, Prod.mk.injEq] at h
            obtain ⟨rfl, rfl⟩ := h
            obtain ⟨i, wi, oi, ei⟩ := ih.p _ _ _ hx
            obtain ⟨its, wis, ois, eis⟩ := ih.b _ _ _ hys
            exact ⟨i :: its, by simp [wfList, wi, wis], by simp [ofItems, oi, ois],
              by rw [ei, eis]; simp [encodeList]⟩
  pn := by
    intro n bs kvs r h
    cases n with
    | zero => simp [decPairsN] at h; exact ⟨[], rfl, rfl, by simp [ofPairs, h.1], by simp [encodeList, h.2]⟩
    | succ n =>
      simp only [decPairsN] at h
      split at h
      · simp at h
      · rename_i k r1 hk
        split at h
        · simp at h
        · rename_i v r2 hv
          split at h
          · simp at h
          · rename_i ys r3 hys
            simp only [Option.some.injEq, Prod.mk.injEq] at h
            obtain ⟨rfl, rfl⟩ := h
            obtain ⟨ik, wk, ok, ek⟩ := ih.p _ _ _ hk
            obtain ⟨iv, wv, ov, ev⟩ := ih.p _ _ _ hv
            obtain ⟨its, hl, wis, ois, eis⟩ := ih.pn _ _ _ _ hys
            exact ⟨ik :: iv :: its, by simp [hl]; omega, by simp [wfList, wk, wv, wis],
              by simp [ofPairs, ok, ov, ois], by rw [ek, ev, eis]; simp [encodeList]⟩
  pb := by
    intro bs kvs r h
    cases bs with
    | nil => simp [decPairsBreak] at h
    | cons b0 rest =>
      simp only [decPairsBreak] at h
      split at h
      · rename_i hb
        simp only [Option.some.injEq, Prod.mk.injEq] at h
        obtain ⟨rfl, rfl⟩ := h
        exact ⟨[], rfl, rfl, by simp [encodeList, hb]⟩
      · split at h
        · simp at h
        · rename_i k r1 hk
          split at h
          · simp at h
          · rename_i v r2 hv
            split at h
            · simp at h
            · rename_i ys r3 hys
              simp only [Option.some.injEq, Prod.mk.injEq] at h
              obtain ⟨rfl, rfl⟩ := h
              obtain ⟨ik, wk, ok, ek⟩ := ih.p _ _ _ hk
              obtain ⟨iv, wv, ov, ev⟩ := ih.p _ _ _ hv
              obtain ⟨its, wis, ois, eis⟩ := ih.pb _ _ _ hys
              exact ⟨ik :: iv :: its, by simp [wfList, wk, wv, wis], by simp [ofPairs, ok, ov, ois],
                by rw [ek, ev, eis]; simp [encodeList]⟩

theorem soundAt : ∀ fuel, SoundAt fuel
  | 0 => soundAt_zero
  | f + 1 => soundAt_succ f (soundAt f)

/-- **soundness**: anything the byte-level decoder accepts is a well-formed CBOR item that the tree
    decoder maps to the same value, and the returned rest is exactly what follows that item -/
theorem decodeBytes_sound (bs : Bytes) (d : PData) (r : Bytes) (h : decodeBytes bs = some (d, r)) :
    ∃ i : Item, i.wf = true ∧ ofItem i = some d ∧ bs = i.encode ++ r := (soundAt _).p bs d r h

/-- **the decoder is "strict CBOR parser, then `ofItem`"** -/
theorem decodeBytes_iff (bs : Bytes) (d : PData) (r : Bytes) :
    decodeBytes bs = some (d, r) ↔ ∃ i : Item, parseItem bs = some (i, r) ∧ ofItem i = some d := by
  constructor
  · intro h
    obtain ⟨i, w, o, e⟩ := decodeBytes_sound bs d r h
    exact ⟨i, by rw [e]; exact parseItem_encode i r w, o⟩
  · rintro ⟨i, hp, o⟩
    obtain ⟨e, w⟩ := parseItem_sound bs i r hp
    rw [e]; exact decodeBytes_refines i d r w o

/-- the two decoders are the same function -/
theorem decode_eq_decodeBytes (bs : Bytes) : decode bs = (decodeBytes bs).map (·.1) := by
  cases hd : decodeBytes bs with
  | some x =>
    obtain ⟨d, r⟩ := x
    obtain ⟨i, hp, o⟩ := (decodeBytes_iff bs d r).1 hd
    simp [decode, hp, o]
  | none =>
    simp only [Option.map_none]
    unfold decode
    split
    · rename_i i r hp
      cases ho : ofItem i with
      | none => rfl
      | some d =>
        have := (decodeBytes_iff bs d r).2 ⟨i, hp, ho⟩
        rw [hd] at this; simp at this
    · rfl

end PallasVerif.PlutusData.Dec
