import PallasVerif.Proofs.NetCodec
/-!
Fuel is only a termination device in `Model/NetCodec.lean`: every loop iteration consumes at least
one byte, so the fuel the model passes (`length + 1`) is never exhausted and no `err` outcome of
`skip`, `skipChunks` or `decBreak` is an artefact of the totalisation
(`*_fuel_irrelevant`: any two amounts of fuel above the input length give the same result).
-/
namespace PallasVerif.NetCodec
open PallasVerif.Cbor

theorem Res.bind_congr {α β : Type} (x : Res α) (f g : α → Bytes → Res β)
    (h : ∀ a r, x = .ok a r → f a r = g a r) : x.bind f = x.bind g := by
  cases x with
  | ok a r => exact h a r rfl
  | eoi => rfl
  | err => rfl

theorem Res.bind_eq_ok {α β : Type} {x : Res α} {f : α → Bytes → Res β} {b : β} {r : Bytes}
    (h : x.bind f = .ok b r) : ∃ a r', x = .ok a r' ∧ f a r' = .ok b r := by
  cases x with
  | ok a r' => exact ⟨a, r', rfl, h⟩
  | eoi => simp [Res.bind] at h
  | err => simp [Res.bind] at h

theorem Res.map_eq_ok {α β : Type} {x : Res α} {f : α → β} {b : β} {r : Bytes}
    (h : x.map f = .ok b r) : ∃ a, x = .ok a r ∧ f a = b := by
  cases x with
  | ok a r' => simp [Res.map] at h; exact ⟨a, by rw [h.2], h.1⟩
  | eoi => simp [Res.map] at h
  | err => simp [Res.map] at h

/-! ### no primitive returns more input than it was given -/

theorem readN_le {n : Nat} {bs a r : Bytes} (h : readN n bs = .ok a r) : r.length ≤ bs.length := by
  unfold readN at h
  split at h
  · simp at h
  · simp only [Res.ok.injEq] at h; rw [← h.2]; simp

theorem mismatch_ne_ok {α : Type} (b : UInt8) (rest : Bytes) (a : α) (r : Bytes) : (mismatch b rest : Res α) ≠ .ok a r := by
  unfold mismatch; split <;> simp

theorem unsignedArg_le {ai : Nat} {rest : Bytes} {bad : Res Nat} {v : Nat} {r : Bytes}
    (hbad : ∀ v r, bad ≠ .ok v r) (h : unsignedArg ai rest bad = .ok v r) : r.length ≤ rest.length := by
  unfold unsignedArg at h
  repeat' split at h
  · simp only [Res.ok.injEq] at h; rw [← h.2]; exact Nat.le_refl _
  all_goals first
    | (obtain ⟨a, ha, _⟩ := Res.map_eq_ok h; exact readN_le ha)
    | exact absurd h (hbad v r)

theorem u64_le {b : UInt8} {rest : Bytes} {v : Nat} {r : Bytes} (h : u64 (b :: rest) = .ok v r) : r.length ≤ rest.length := by
  simp only [u64] at h
  split at h
  · exact unsignedArg_le (fun v r => mismatch_ne_ok _ _ v r) h
  · exact absurd h (mismatch_ne_ok _ _ _ _)

theorem defStr_le {m : Nat} {b : UInt8} {rest : Bytes} {s r : Bytes} (h : defStr m (b :: rest) = .ok s r) : r.length ≤ rest.length := by
  simp only [defStr] at h
  split at h
  · exact absurd h (mismatch_ne_ok _ _ _ _)
  · obtain ⟨n, r', h1, h2⟩ := Res.bind_eq_ok h
    have := unsignedArg_le (by simp) h1
    have := readN_le h2
    omega

theorem container_le {m : Nat} {b : UInt8} {rest : Bytes} {v : Option Nat} {r : Bytes}
    (h : container m (b :: rest) = .ok v r) : r.length ≤ rest.length := by
  simp only [container] at h
  split at h
  · exact absurd h (mismatch_ne_ok _ _ _ _)
  · split at h
    · simp only [Res.ok.injEq] at h; rw [← h.2]; exact Nat.le_refl _
    · obtain ⟨a, ha, _⟩ := Res.map_eq_ok h
      exact unsignedArg_le (by simp) ha

theorem skipChunks_le (m : Nat) : ∀ (fuel : Nat) (bs r : Bytes), skipChunks m fuel bs = .ok () r → r.length ≤ bs.length
  | 0, _, _, h => by simp [skipChunks] at h
  | fuel + 1, [], _, h => by simp [skipChunks] at h
  | fuel + 1, b :: rest, r, h => by
    unfold skipChunks at h
    split at h
    · simp only [Res.ok.injEq] at h; rw [← h.2]; simp
    · obtain ⟨s, r', h1, h2⟩ := Res.bind_eq_ok h
      have := defStr_le h1
      split at h2
      · simp at h2
      · have := skipChunks_le m fuel r' r h2
        simp only [List.length_cons]; omega

/-- `skipChunks` does not depend on fuel above the input length -/
theorem skipChunks_fuel_irrelevant (m : Nat) : ∀ (f1 f2 : Nat) (bs : Bytes), bs.length < f1 → bs.length < f2 →
    skipChunks m f1 bs = skipChunks m f2 bs
  | 0, _, _, h, _ => by omega
  | _, 0, _, _, h => by omega
  | f1 + 1, f2 + 1, [], _, _ => by simp [skipChunks]
  | f1 + 1, f2 + 1, b :: rest, h1, h2 => by
    unfold skipChunks
    split
    · rfl
    · apply Res.bind_congr
      intro s r hs
      have := defStr_le hs
      split
      · rfl
      · exact skipChunks_fuel_irrelevant m f1 f2 r (by simp only [List.length_cons] at h1; omega)
          (by simp only [List.length_cons] at h2; omega)

theorem skipStr_le {m : Nat} {b : UInt8} {rest : Bytes} {r : Bytes} (h : skipStr m (b :: rest) = .ok () r) : r.length ≤ rest.length := by
  simp only [skipStr] at h
  split at h
  · exact skipChunks_le m _ _ _ h
  · obtain ⟨n, r1, h1, h2⟩ := Res.bind_eq_ok h
    obtain ⟨s, r2, h3, h4⟩ := Res.bind_eq_ok h2
    have := unsignedArg_le (by simp) h1
    have := readN_le h3
    split at h4
    · simp at h4
    · simp only [Res.ok.injEq] at h4; rw [← h4.2]; omega

/-- **`skip` never runs out of fuel**: the loop gives the same result for any two amounts of fuel
    above the input length (every round consumes at least the head byte). -/
theorem skipLoop_fuel_irrelevant : ∀ (n : Nat) (f1 f2 nr ir : Nat) (st : List (Option Nat)) (bs : Bytes),
    bs.length = n → bs.length < f1 → bs.length < f2 → skipLoop f1 nr ir st bs = skipLoop f2 nr ir st bs := by
  intro n
  induction n using Nat.strongRecOn with
  | _ n ih =>
    intro f1 f2 nr ir st bs hn h1 h2
    cases f1 with
    | zero => omega
    | succ f1 =>
      cases f2 with
      | zero => omega
      | succ f2 =>
        unfold skipLoop
        by_cases hterm : nr = 0 ∧ ir = 0 ∧ st.isEmpty = true
        · simp only [hterm, and_self, if_true]
        · simp only [hterm, if_false]
          cases bs with
          | nil => rfl
          | cons b rest =>
            simp only [List.length_cons] at hn h1 h2
            -- the continuation after a round that left `r` with `r.length ≤ rest.length`
            have next : ∀ (nr ir : Nat) (st : List (Option Nat)) (r : Bytes), r.length ≤ rest.length →
                (match skipTail nr ir st with
                  | none => Res.ok () r
                  | some (nr', ir', st') => skipLoop f1 nr' ir' st' r) =
                (match skipTail nr ir st with
                  | none => Res.ok () r
                  | some (nr', ir', st') => skipLoop f2 nr' ir' st' r) := by
              intro nr ir st r hr
              split
              · rfl
              · exact ih r.length (by omega) f1 f2 _ _ _ r rfl (by omega) (by omega)
            simp only []
            by_cases c1 : b.toNat ≤ 0x1b
            · simp only [c1, if_true]
              exact Res.bind_congr _ _ _ fun _ r hr => next _ _ _ r (u64_le hr)
            simp only [c1, if_false]
            by_cases c2 : 0x20 ≤ b.toNat ∧ b.toNat ≤ 0x3b
            · simp only [c2, and_self, if_true]
              exact Res.bind_congr _ _ _ fun _ r hr => next _ _ _ r (unsignedArg_le (by simp) hr)
            simp only [c2, if_false]
            by_cases c3 : 0x40 ≤ b.toNat ∧ b.toNat ≤ 0x5f
            · simp only [c3, and_self, if_true]
              exact Res.bind_congr _ _ _ fun _ r hr => next _ _ _ r (skipStr_le hr)
            simp only [c3, if_false]
            by_cases c4 : 0x60 ≤ b.toNat ∧ b.toNat ≤ 0x7f
            · simp only [c4, and_self, if_true]
              exact Res.bind_congr _ _ _ fun _ r hr => next _ _ _ r (skipStr_le hr)
            simp only [c4, if_false]
            by_cases c5 : 0x80 ≤ b.toNat ∧ b.toNat ≤ 0x9f
            · simp only [c5, and_self, if_true]
              exact Res.bind_congr _ _ _ fun _ r hr => next _ _ _ r (container_le hr)
            simp only [c5, if_false]
            by_cases c6 : 0xa0 ≤ b.toNat ∧ b.toNat ≤ 0xbf
            · simp only [c6, and_self, if_true]
              exact Res.bind_congr _ _ _ fun _ r hr => next _ _ _ r (container_le hr)
            simp only [c6, if_false]
            by_cases c7 : 0xc0 ≤ b.toNat ∧ b.toNat ≤ 0xdb
            · simp only [c7, and_self, if_true]
              apply Res.bind_congr
              intro _ r hr
              have := unsignedArg_le (by simp) hr
              exact ih r.length (by omega) f1 f2 _ _ _ r rfl (by omega) (by omega)
            simp only [c7, if_false]
            by_cases c8 : 0xe0 ≤ b.toNat ∧ b.toNat ≤ 0xfb
            · simp only [c8, and_self, if_true]
              exact Res.bind_congr _ _ _ fun _ r hr => next _ _ _ r (unsignedArg_le (by simp) hr)
            simp only [c8, if_false]
            by_cases c9 : b.toNat = 0xff
            · simp only [c9, if_true]
              by_cases c10 : nr = 0 ∧ ir = 0
              · simp only [c10, and_self, if_true]; exact next _ _ _ rest (Nat.le_refl _)
              · simp only [c10, if_false]; exact next _ _ _ rest (Nat.le_refl _)
            · simp only [c9, if_false]

/-- `skip` as defined (fuel `length + 1`) equals the loop run with any larger amount of fuel -/
theorem skip_fuel_irrelevant (bs : Bytes) (fuel : Nat) (h : bs.length < fuel) : skip bs = skipLoop fuel 1 0 [] bs :=
  skipLoop_fuel_irrelevant bs.length _ _ 1 0 [] bs rfl (by omega) h

/-- a decoder that consumes at least one byte whenever it succeeds -/
def Progress {α : Type} (d : Dec α) : Prop := ∀ bs a r, d bs = .ok a r → r.length < bs.length

/-- `decBreak` (elements of an indefinite array / map up to the break) does not depend on fuel above
    the input length, for any element decoder that makes progress -/
theorem decBreak_fuel_irrelevant {α : Type} (d : Dec α) (hd : Progress d) : ∀ (n f1 f2 : Nat) (bs : Bytes),
    bs.length = n → bs.length < f1 → bs.length < f2 → decBreak d f1 bs = decBreak d f2 bs := by
  intro n
  induction n using Nat.strongRecOn with
  | _ n ih =>
    intro f1 f2 bs hn h1 h2
    cases f1 with
    | zero => omega
    | succ f1 =>
      cases f2 with
      | zero => omega
      | succ f2 =>
        cases bs with
        | nil => rfl
        | cons b rest =>
          unfold decBreak
          split
          · rfl
          · apply Res.bind_congr
            intro a r hr
            have := hd _ _ _ hr
            simp only [List.length_cons] at this hn h1 h2
            rw [ih r.length (by omega) f1 f2 r rfl (by omega) (by omega)]

/-- the element decoders used under indefinite arrays make progress: they start by reading a head -/
theorem progress_of_first {α β : Type} (p : Dec α) (f : α → Bytes → Res β)
    (hp : ∀ b rest a r, p (b :: rest) = .ok a r → r.length ≤ rest.length) (hnil : ∀ a r, p [] ≠ .ok a r)
    (hf : ∀ a r b r', f a r = .ok b r' → r'.length ≤ r.length) : Progress (fun bs => (p bs).bind f) := by
  intro bs b r h
  obtain ⟨a, r1, h1, h2⟩ := Res.bind_eq_ok h
  cases bs with
  | nil => exact absurd h1 (hnil _ _)
  | cons x rest =>
    have := hp _ _ _ _ h1
    have := hf _ _ _ _ h2
    simp only [List.length_cons]; omega

theorem progress_u64 : Progress u64 := by
  intro bs a r h
  cases bs with
  | nil => simp [u64] at h
  | cons b rest => have := u64_le h; simp only [List.length_cons]; omega

/-- a successful `skip` loop returns a suffix no longer than its input, strictly shorter unless it
    had nothing to do -/
theorem skipLoop_le : ∀ (fuel nr ir : Nat) (st : List (Option Nat)) (bs r : Bytes), skipLoop fuel nr ir st bs = .ok () r →
    r.length ≤ bs.length ∧ (¬ (nr = 0 ∧ ir = 0 ∧ st.isEmpty = true) → r.length < bs.length) := by
  intro fuel
  induction fuel with
  | zero => intro nr ir st bs r h; simp [skipLoop] at h
  | succ fuel ih =>
    intro nr ir st bs r h
    unfold skipLoop at h
    split at h
    · rename_i hterm
      simp only [Res.ok.injEq] at h
      rw [← h.2]
      exact ⟨Nat.le_refl _, fun hn => absurd hterm hn⟩
    · cases bs with
      | nil => simp at h
      | cons b rest =>
        simp only [] at h
        have next : ∀ (nr ir : Nat) (st : List (Option Nat)) (r' : Bytes), r'.length ≤ rest.length →
            (match skipTail nr ir st with
              | none => Res.ok () r'
              | some (nr', ir', st') => skipLoop fuel nr' ir' st' r') = .ok () r → r.length ≤ rest.length := by
          intro nr ir st r' hr' hn
          split at hn
          · simp only [Res.ok.injEq] at hn; rw [← hn.2]; exact hr'
          · have := (ih _ _ _ _ _ hn).1; omega
        have fin : r.length ≤ rest.length → r.length ≤ (b :: rest).length ∧
            (¬ (nr = 0 ∧ ir = 0 ∧ st.isEmpty = true) → r.length < (b :: rest).length) := by
          intro hh; simp only [List.length_cons]; exact ⟨by omega, fun _ => by omega⟩
        apply fin
        split at h
        · obtain ⟨_, r', h1, h2⟩ := Res.bind_eq_ok h; exact next _ _ _ r' (u64_le h1) h2
        · split at h
          · obtain ⟨_, r', h1, h2⟩ := Res.bind_eq_ok h; exact next _ _ _ r' (unsignedArg_le (by simp) h1) h2
          · split at h
            · obtain ⟨_, r', h1, h2⟩ := Res.bind_eq_ok h; exact next _ _ _ r' (skipStr_le h1) h2
            · split at h
              · obtain ⟨_, r', h1, h2⟩ := Res.bind_eq_ok h; exact next _ _ _ r' (skipStr_le h1) h2
              · split at h
                · obtain ⟨_, r', h1, h2⟩ := Res.bind_eq_ok h; exact next _ _ _ r' (container_le h1) h2
                · split at h
                  · obtain ⟨_, r', h1, h2⟩ := Res.bind_eq_ok h; exact next _ _ _ r' (container_le h1) h2
                  · split at h
                    · obtain ⟨_, r', h1, h2⟩ := Res.bind_eq_ok h
                      have := unsignedArg_le (by simp) h1
                      have := (ih _ _ _ _ _ h2).1; omega
                    · split at h
                      · obtain ⟨_, r', h1, h2⟩ := Res.bind_eq_ok h; exact next _ _ _ r' (unsignedArg_le (by simp) h1) h2
                      · split at h
                        · split at h
                          · exact next _ _ _ rest (Nat.le_refl _) h
                          · exact next _ _ _ rest (Nat.le_refl _) h
                        · simp at h

theorem progress_anyCbor : Progress anyCbor := by
  intro bs a r h
  unfold anyCbor at h
  obtain ⟨_, r1, h1, h2⟩ := Res.bind_eq_ok h
  simp only [Res.ok.injEq] at h2
  rw [← h2.2]
  exact (skipLoop_le _ _ _ _ _ _ h1).2 (by simp)

end PallasVerif.NetCodec
