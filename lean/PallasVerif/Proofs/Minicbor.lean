import PallasVerif.Model.Minicbor
import PallasVerif.Proofs.Cbor
/-!
  Lemmas about the minicbor model:
  * what the decoding primitives return on what the `Encoder` writes (`*_enc`);
  * `Consumes p`: a successful run of `p` returns a *proper* suffix of its input (so spans are
    well defined and every loop makes progress).
-/
namespace PallasVerif.Minicbor
open PallasVerif.Cbor

@[simp] theorem Res.andThen_ok {α β : Type} (a : α) (r : Bytes) (f : α → Bytes → Res β) :
    (Res.ok a r).andThen f = f a r := rfl
@[simp] theorem Res.andThen_err {α β : Type} (e : Err) (f : α → Bytes → Res β) :
    (Res.err e : Res α).andThen f = .err e := rfl
@[simp] theorem Res.map_ok {α β : Type} (a : α) (r : Bytes) (f : α → β) :
    (Res.ok a r).map f = .ok (f a) r := rfl
@[simp] theorem Res.map_err {α β : Type} (e : Err) (f : α → β) :
    (Res.err e : Res α).map f = .err e := rfl

theorem Res.andThen_eq_ok {α β : Type} {x : Res α} {f : α → Bytes → Res β} {b : β} {r : Bytes}
    (h : x.andThen f = .ok b r) : ∃ a r', x = .ok a r' ∧ f a r' = .ok b r := by
  cases x with
  | ok a r' => exact ⟨a, r', rfl, h⟩
  | err e => simp at h

theorem Res.map_eq_ok {α β : Type} {x : Res α} {f : α → β} {b : β} {r : Bytes}
    (h : x.map f = .ok b r) : ∃ a, x = .ok a r ∧ f a = b := by
  cases x with
  | ok a r' => simp at h; exact ⟨a, by rw [h.2], h.1⟩
  | err e => simp at h

/-! ## heads written by the encoder -/

theorem minHead_cases (m n : Nat) :
    (n < 24 ∧ minHead m n = ⟨m, n, []⟩) ∨
    (24 ≤ n ∧ n < 256 ∧ minHead m n = ⟨m, 24, be 1 n⟩) ∨
    (256 ≤ n ∧ n < 65536 ∧ minHead m n = ⟨m, 25, be 2 n⟩) ∨
    (65536 ≤ n ∧ n < 4294967296 ∧ minHead m n = ⟨m, 26, be 4 n⟩) ∨
    (4294967296 ≤ n ∧ minHead m n = ⟨m, 27, be 8 n⟩) := by
  unfold minHead
  by_cases h1 : n < 24
  · left; simp [h1]
  · by_cases h2 : n < 256
    · right; left; simp [h1, h2]; omega
    · by_cases h3 : n < 65536
      · right; right; left; simp [h1, h2, h3]; omega
      · by_cases h4 : n < 4294967296
        · right; right; right; left; simp [h1, h2, h3, h4]; omega
        · right; right; right; right; simp [h1, h2, h3, h4]; omega

theorem readBe_be (w n : Nat) (r : Bytes) (h : n < 256 ^ w) : readBe w (be w n ++ r) = .ok n r := by
  have hl := be_length w n
  unfold readBe
  have h1 : w ≤ (be w n ++ r).length := by simp [hl]
  have h2 : (be w n ++ r).take w = be w n := List.take_left' hl
  have h3 : (be w n ++ r).drop w = r := List.drop_left' hl
  simp only [h1, if_true, h2, h3, ofBe_be, Nat.mod_eq_of_lt h]

theorem unsigned_imm (ai : Nat) (cur : Bytes) (h : ai < 24) : unsigned ai cur = .ok ai cur := by simp [unsigned, h]
theorem unsigned_24 (cur : Bytes) : unsigned 24 cur = readBe 1 cur := by simp [unsigned]
theorem unsigned_25 (cur : Bytes) : unsigned 25 cur = readBe 2 cur := by simp [unsigned]
theorem unsigned_26 (cur : Bytes) : unsigned 26 cur = readBe 4 cur := by simp [unsigned]
theorem unsigned_27 (cur : Bytes) : unsigned 27 cur = readBe 8 cur := by simp [unsigned]

/-- the argument written by `type_len` is read back by `unsigned` -/
theorem unsigned_minHead (m n : Nat) (r : Bytes) (hn : n < 2 ^ 64) :
    unsigned (minHead m n).ai ((minHead m n).arg ++ r) = .ok n r := by
  rcases minHead_cases m n with ⟨h, e⟩ | ⟨h1, h2, e⟩ | ⟨h1, h2, e⟩ | ⟨h1, h2, e⟩ | ⟨h1, e⟩
  · rw [e]; exact unsigned_imm n _ h
  · rw [e]; show unsigned 24 (be 1 n ++ r) = _; rw [unsigned_24]; exact readBe_be 1 n r h2
  · rw [e]; show unsigned 25 (be 2 n ++ r) = _; rw [unsigned_25]; exact readBe_be 2 n r h2
  · rw [e]; show unsigned 26 (be 4 n ++ r) = _; rw [unsigned_26]; exact readBe_be 4 n r h2
  · rw [e]; show unsigned 27 (be 8 n ++ r) = _; rw [unsigned_27]; exact readBe_be 8 n r hn

theorem minHead_ai_le (m n : Nat) : (minHead m n).ai ≤ 27 := by
  rcases minHead_cases m n with ⟨h, e⟩ | ⟨_, _, e⟩ | ⟨_, _, e⟩ | ⟨_, _, e⟩ | ⟨_, e⟩ <;> rw [e] <;> simp <;> omega

theorem encHead_eq (m n : Nat) : encHead m n = initByte m (minHead m n).ai :: (minHead m n).arg := by
  simp [encHead, Head.encode, minHead_major]

theorem initByte_major (m ai : Nat) (hm : m < 8) (hai : ai < 32) : major (initByte m ai) = m := by
  unfold major; rw [initByte_toNat m ai hm hai]; omega

theorem initByte_info (m ai : Nat) (hm : m < 8) (hai : ai < 32) : info (initByte m ai) = ai := by
  unfold info; rw [initByte_toNat m ai hm hai]; omega

/-- `u8()/u16()/u32()/u64()` on `Encoder::u64(n)` -/
theorem uintN_enc (bits n : Nat) (r : Bytes) (hb : bits ≤ 64) (hn : n < 2 ^ bits) :
    uintN bits (encUInt n ++ r) = .ok n r := by
  have hn64 : n < 2 ^ 64 := Nat.lt_of_lt_of_le hn (Nat.pow_le_pow_right (by omega) hb)
  have hai := minHead_ai_le 0 n
  have hb0 := initByte_toNat 0 (minHead 0 n).ai (by omega) (by omega)
  simp only [encUInt, encHead_eq, List.cons_append, uintN]
  have : (initByte 0 (minHead 0 n).ai).toNat ≤ 0x1b := by rw [hb0]; omega
  rw [if_pos this, hb0]
  simp only [Nat.zero_mul, Nat.zero_add, unsigned_minHead 0 n r hn64, Res.andThen_ok, hn, if_true]

theorem u64_enc (n : Nat) (r : Bytes) (hn : n < 2 ^ 64) : u64 (encUInt n ++ r) = .ok n r :=
  uintN_enc 64 n r (by omega) hn

/-- `array()` / `map()` on `Encoder::array(n)` / `Encoder::map(n)` -/
theorem seqHead_enc (m n : Nat) (r : Bytes) (hm : m < 8) (hn : n < 2 ^ 64) :
    seqHead m (encHead m n ++ r) = .ok (some n) r := by
  have hai := minHead_ai_le m n
  simp only [encHead_eq, List.cons_append, seqHead, initByte_major m _ hm (by omega : (minHead m n).ai < 32),
    initByte_info m _ hm (by omega : (minHead m n).ai < 32)]
  have h31 : ¬ (minHead m n).ai = 31 := by omega
  simp [h31, unsigned_minHead m n r hn]

theorem array_enc (n : Nat) (r : Bytes) (hn : n < 2 ^ 64) : array (encArrayHead n ++ r) = .ok (some n) r :=
  seqHead_enc 4 n r (by omega) hn
theorem map_enc (n : Nat) (r : Bytes) (hn : n < 2 ^ 64) : map (encMapHead n ++ r) = .ok (some n) r :=
  seqHead_enc 5 n r (by omega) hn

theorem tag_enc (n : Nat) (r : Bytes) (hn : n < 2 ^ 64) : tag (encTag n ++ r) = .ok n r := by
  have hai := minHead_ai_le 6 n
  simp only [encTag, encHead_eq, List.cons_append, tag, initByte_major 6 _ (by omega) (by omega : (minHead 6 n).ai < 32),
    initByte_info 6 _ (by omega) (by omega : (minHead 6 n).ai < 32)]
  simp [unsigned_minHead 6 n r hn]

theorem readSlice_append (bs r : Bytes) : readSlice bs.length (bs ++ r) = .ok bs r := by
  simp [readSlice]

/-- `bytes()` on `Encoder::bytes(bs)` -/
theorem bytes_enc (bs r : Bytes) (hn : bs.length < 2 ^ 64) : bytes (encBytes bs ++ r) = .ok bs r := by
  have hai := minHead_ai_le 2 bs.length
  simp only [encBytes, encHead_eq, List.cons_append, List.append_assoc, bytes,
    initByte_major 2 _ (by omega) (by omega : (minHead 2 bs.length).ai < 32),
    initByte_info 2 _ (by omega) (by omega : (minHead 2 bs.length).ai < 32)]
  have h31 : ¬ (minHead 2 bs.length).ai = 31 := by omega
  simp [h31, unsigned_minHead 2 bs.length (bs ++ r) hn, readSlice_append]

/-! ## datatype of what the encoder writes -/

theorem typeOf_plain (cur : Bytes) (b : UInt8) (h : ¬ (0x38 ≤ b.toNat ∧ b.toNat ≤ 0x3b)) :
    typeOf cur b = .ok (typeOfPlain b.toNat) := by
  simp only [typeOf]; rw [if_neg h]

/-- `type_of` can only fail with end-of-input (the look-ahead of `0x38..=0x3b`) -/
theorem typeOf_error (cur : Bytes) (b : UInt8) (e : Err) (h : typeOf cur b = .error e) : e = .eoi := by
  simp only [typeOf] at h
  split at h
  · split at h
    · cases h; rfl
    · cases h
  · cases h

/-- solve `typeOf cur b = .ok t` when the bounds on `b.toNat` in the context decide every test -/
macro "type_of_ifs" : tactic =>
  `(tactic| (rw [typeOf_plain _ _ (by omega)]; unfold typeOfPlain
             repeat (first | rw [if_pos (by omega)] | rw [if_neg (by omega)])))

theorem typeOf_array (cur : Bytes) (b : UInt8) (h1 : 0x80 ≤ b.toNat) (h2 : b.toNat ≤ 0x9b) : typeOf cur b = .ok .array := by
  type_of_ifs
theorem typeOf_map (cur : Bytes) (b : UInt8) (h1 : 0xa0 ≤ b.toNat) (h2 : b.toNat ≤ 0xbb) : typeOf cur b = .ok .map := by
  type_of_ifs
theorem typeOf_tag (cur : Bytes) (b : UInt8) (h1 : 0xc0 ≤ b.toNat) (h2 : b.toNat ≤ 0xdb) : typeOf cur b = .ok .tag := by
  type_of_ifs
theorem typeOf_bytes (cur : Bytes) (b : UInt8) (h1 : 0x40 ≤ b.toNat) (h2 : b.toNat ≤ 0x5b) : typeOf cur b = .ok .bytes := by
  type_of_ifs
theorem typeOf_u8 (cur : Bytes) (b : UInt8) (h : b.toNat ≤ 0x18) : typeOf cur b = .ok .u8 := by
  type_of_ifs
theorem typeOf_u16 (cur : Bytes) (b : UInt8) (h : b.toNat = 0x19) : typeOf cur b = .ok .u16 := by
  type_of_ifs
theorem typeOf_u32 (cur : Bytes) (b : UInt8) (h : b.toNat = 0x1a) : typeOf cur b = .ok .u32 := by
  type_of_ifs
theorem typeOf_u64 (cur : Bytes) (b : UInt8) (h : b.toNat = 0x1b) : typeOf cur b = .ok .u64 := by
  type_of_ifs

theorem datatype_encHead_array (n : Nat) (r : Bytes) : datatype (encArrayHead n ++ r) = .ok .array := by
  have hai := minHead_ai_le 4 n
  have hb := initByte_toNat 4 (minHead 4 n).ai (by omega) (by omega)
  simp only [encArrayHead, encHead_eq, List.cons_append, datatype]
  exact typeOf_array _ _ (by omega) (by omega)

theorem datatype_encHead_map (n : Nat) (r : Bytes) : datatype (encMapHead n ++ r) = .ok .map := by
  have hai := minHead_ai_le 5 n
  have hb := initByte_toNat 5 (minHead 5 n).ai (by omega) (by omega)
  simp only [encMapHead, encHead_eq, List.cons_append, datatype]
  exact typeOf_map _ _ (by omega) (by omega)

theorem datatype_encHead_tag (n : Nat) (r : Bytes) : datatype (encTag n ++ r) = .ok .tag := by
  have hai := minHead_ai_le 6 n
  have hb := initByte_toNat 6 (minHead 6 n).ai (by omega) (by omega)
  simp only [encTag, encHead_eq, List.cons_append, datatype]
  exact typeOf_tag _ _ (by omega) (by omega)

/-! ## progress: successful runs return proper suffixes -/

/-- every successful run of `p` consumes at least one byte and leaves a suffix of its input -/
def Consumes {α : Type} (p : P α) : Prop :=
  ∀ cur a rest, p cur = .ok a rest → ∃ c, c ≠ [] ∧ cur = c ++ rest

/-- every successful run of `p` leaves a suffix of its input (possibly all of it) -/
def Suffix {α : Type} (p : P α) : Prop :=
  ∀ cur a rest, p cur = .ok a rest → ∃ c, cur = c ++ rest

theorem Consumes.suffix {α : Type} {p : P α} (h : Consumes p) : Suffix p := by
  intro cur a rest e; obtain ⟨c, _, hc⟩ := h cur a rest e; exact ⟨c, hc⟩

theorem span_of_suffix (c rest : Bytes) : span (c ++ rest) rest = c := by
  simp [span]

theorem readSlice_suffix (n : Nat) : Suffix (readSlice n) := by
  intro cur a rest h
  unfold readSlice at h
  split at h
  · cases h; exact ⟨cur.take n, by simp⟩
  · cases h

theorem readBe_suffix (w : Nat) : Suffix (readBe w) := by
  intro cur a rest h
  unfold readBe at h
  split at h
  · cases h; exact ⟨cur.take w, by simp⟩
  · cases h

theorem unsigned_suffix (ai : Nat) : Suffix (unsigned ai) := by
  intro cur a rest h
  unfold unsigned at h
  repeat' split at h
  · cases h; exact ⟨[], rfl⟩
  all_goals first | exact readBe_suffix _ _ _ _ h | cases h

theorem Suffix.andThen {α β : Type} {p : P α} {f : α → P β} (hp : Suffix p) (hf : ∀ a, Suffix (f a)) :
    Suffix (fun cur => (p cur).andThen fun a r => f a r) := by
  intro cur b rest h
  obtain ⟨a, r', e1, e2⟩ := Res.andThen_eq_ok h
  obtain ⟨c1, h1⟩ := hp cur a r' e1
  obtain ⟨c2, h2⟩ := hf a r' b rest e2
  exact ⟨c1 ++ c2, by rw [h1, h2, List.append_assoc]⟩

/-- a primitive that reads the initial byte and then runs a suffix-returning continuation -/
theorem consumes_of_head {α : Type} {p : P α} (k : UInt8 → P α)
    (hp : ∀ b r, p (b :: r) = k b r) (hnil : ∀ a rest, p [] ≠ .ok a rest) (hk : ∀ b, Suffix (k b)) : Consumes p := by
  intro cur a rest h
  cases cur with
  | nil => exact absurd h (hnil a rest)
  | cons b r =>
    rw [hp] at h
    obtain ⟨c, hc⟩ := hk b r a rest h
    exact ⟨b :: c, by simp, by rw [hc]; rfl⟩

theorem Suffix.map {α β : Type} {p : P α} (f : α → β) (hp : Suffix p) : Suffix (fun cur => (p cur).map f) := by
  intro cur b rest h
  obtain ⟨a, e, _⟩ := Res.map_eq_ok h
  exact hp cur a rest e

theorem Consumes.map {α β : Type} {p : P α} (f : α → β) (hp : Consumes p) : Consumes (fun cur => (p cur).map f) := by
  intro cur b rest h
  obtain ⟨a, e, _⟩ := Res.map_eq_ok h
  exact hp cur a rest e

theorem Consumes.andThen {α β : Type} {p : P α} {f : α → P β} (hp : Consumes p) (hf : ∀ a, Suffix (f a)) :
    Consumes (fun cur => (p cur).andThen fun a r => f a r) := by
  intro cur b rest h
  obtain ⟨a, r', e1, e2⟩ := Res.andThen_eq_ok h
  obtain ⟨c1, hne, h1⟩ := hp cur a r' e1
  obtain ⟨c2, h2⟩ := hf a r' b rest e2
  exact ⟨c1 ++ c2, by simp [hne], by rw [h1, h2, List.append_assoc]⟩

theorem uintN_consumes (bits : Nat) : Consumes (uintN bits) := by
  apply consumes_of_head (fun b r => if b.toNat ≤ 0x1b then
      (unsigned b.toNat r).andThen fun n r' => if n < 2 ^ bits then .ok n r' else .err .overflow
    else .err (errTypeOf r b))
  · intro b r; rfl
  · intro a rest h; simp [uintN] at h
  · intro b cur a rest h
    split at h
    · obtain ⟨n, r', e1, e2⟩ := Res.andThen_eq_ok h
      split at e2
      · cases e2; exact unsigned_suffix _ _ _ _ e1
      · cases e2
    · cases h

theorem sintN_consumes (bits : Nat) : Consumes (sintN bits) := by
  intro cur a rest h
  cases cur with
  | nil => simp [sintN] at h
  | cons b r =>
    simp only [sintN] at h
    split at h
    · obtain ⟨n, r', e1, e2⟩ := Res.andThen_eq_ok h
      split at e2
      · cases e2; obtain ⟨c, hc⟩ := unsigned_suffix _ _ _ _ e1; exact ⟨b :: c, by simp, by rw [hc]; rfl⟩
      · cases e2
    · split at h
      · obtain ⟨n, r', e1, e2⟩ := Res.andThen_eq_ok h
        split at e2
        · cases e2; obtain ⟨c, hc⟩ := unsigned_suffix _ _ _ _ e1; exact ⟨b :: c, by simp, by rw [hc]; rfl⟩
        · cases e2
      · cases h

theorem int_consumes : Consumes int := by
  intro cur a rest h
  cases cur with
  | nil => simp [int] at h
  | cons b r =>
    simp only [int] at h
    split at h
    · obtain ⟨n, e1, _⟩ := Res.map_eq_ok h
      obtain ⟨c, hc⟩ := unsigned_suffix _ _ _ _ e1; exact ⟨b :: c, by simp, by rw [hc]; rfl⟩
    · split at h
      · obtain ⟨n, e1, _⟩ := Res.map_eq_ok h
        obtain ⟨c, hc⟩ := unsigned_suffix _ _ _ _ e1; exact ⟨b :: c, by simp, by rw [hc]; rfl⟩
      · cases h

theorem bytes_consumes : Consumes bytes := by
  intro cur a rest h
  cases cur with
  | nil => simp [bytes] at h
  | cons b r =>
    simp only [bytes] at h
    split at h
    · cases h
    · obtain ⟨n, r', e1, e2⟩ := Res.andThen_eq_ok h
      obtain ⟨c1, h1⟩ := unsigned_suffix _ _ _ _ e1
      obtain ⟨c2, h2⟩ := readSlice_suffix _ _ _ _ e2
      exact ⟨b :: (c1 ++ c2), by simp, by rw [h1, h2]; simp⟩

theorem str_consumes : Consumes str := by
  intro cur a rest h
  cases cur with
  | nil => simp [str] at h
  | cons b r =>
    simp only [str] at h
    split at h
    · cases h
    · obtain ⟨n, r', e1, e2⟩ := Res.andThen_eq_ok h
      obtain ⟨d, r'', e3, e4⟩ := Res.andThen_eq_ok e2
      split at e4
      · cases e4
        obtain ⟨c1, h1⟩ := unsigned_suffix _ _ _ _ e1
        obtain ⟨c2, h2⟩ := readSlice_suffix _ _ _ _ e3
        exact ⟨b :: (c1 ++ c2), by simp, by rw [h1, h2]; simp⟩
      · cases e4

theorem seqHead_consumes (m : Nat) : Consumes (seqHead m) := by
  intro cur a rest h
  cases cur with
  | nil => simp [seqHead] at h
  | cons b r =>
    simp only [seqHead] at h
    split at h
    · cases h
    · split at h
      · cases h; exact ⟨[b], by simp, rfl⟩
      · obtain ⟨n, e1, _⟩ := Res.map_eq_ok h
        obtain ⟨c, hc⟩ := unsigned_suffix _ _ _ _ e1; exact ⟨b :: c, by simp, by rw [hc]; rfl⟩

theorem tag_consumes : Consumes tag := by
  intro cur a rest h
  cases cur with
  | nil => simp [tag] at h
  | cons b r =>
    simp only [tag] at h
    split at h
    · cases h
    · obtain ⟨c, hc⟩ := unsigned_suffix _ _ _ _ h; exact ⟨b :: c, by simp, by rw [hc]; rfl⟩

theorem null_consumes : Consumes null := by
  intro cur a rest h
  cases cur with
  | nil => simp [null] at h
  | cons b r =>
    simp only [null] at h
    split at h
    · cases h; exact ⟨[b], by simp, rfl⟩
    · cases h

theorem undefined_consumes : Consumes undefined := by
  intro cur a rest h
  cases cur with
  | nil => simp [undefined] at h
  | cons b r =>
    simp only [undefined] at h
    split at h
    · cases h; exact ⟨[b], by simp, rfl⟩
    · cases h

theorem bool_consumes : Consumes Minicbor.bool := by
  intro cur a rest h
  cases cur with
  | nil => simp [Minicbor.bool] at h
  | cons b r =>
    simp only [Minicbor.bool] at h
    split at h
    · cases h; exact ⟨[b], by simp, rfl⟩
    · split at h
      · cases h; exact ⟨[b], by simp, rfl⟩
      · cases h

/-- the indefinite chunk loop leaves a suffix and consumes at least the break byte -/
theorem chunkLoop_consumes (chunk : P Bytes) (hc : Suffix chunk) (fuel : Nat) : Consumes (chunkLoop chunk fuel) := by
  induction fuel with
  | zero => intro cur a rest h; simp [chunkLoop] at h
  | succ f ih =>
    intro cur a rest h
    cases cur with
    | nil => simp [chunkLoop] at h
    | cons b r =>
      simp only [chunkLoop] at h
      split at h
      · cases h; exact ⟨[b], by simp, rfl⟩
      · obtain ⟨c, r', e1, e2⟩ := Res.andThen_eq_ok h
        obtain ⟨cs, e3, _⟩ := Res.map_eq_ok e2
        obtain ⟨c1, h1⟩ := hc _ _ _ e1
        obtain ⟨c2, hne, h2⟩ := ih _ _ _ e3
        exact ⟨c1 ++ c2, by simp [hne], by rw [h1, h2, List.append_assoc]⟩

theorem bytesIter_consumes : Consumes bytesIter := by
  intro cur a rest h
  cases cur with
  | nil => simp [bytesIter] at h
  | cons b r =>
    simp only [bytesIter] at h
    split at h
    · cases h
    · split at h
      · obtain ⟨c, _, hc⟩ := chunkLoop_consumes bytes bytes_consumes.suffix _ _ _ _ h
        exact ⟨b :: c, by simp, by rw [hc]; rfl⟩
      · obtain ⟨n, r', e1, e2⟩ := Res.andThen_eq_ok h
        obtain ⟨d, e3, _⟩ := Res.map_eq_ok e2
        obtain ⟨c1, h1⟩ := unsigned_suffix _ _ _ _ e1
        obtain ⟨c2, h2⟩ := readSlice_suffix _ _ _ _ e3
        exact ⟨b :: (c1 ++ c2), by simp, by rw [h1, h2]; simp⟩

theorem strIter_consumes : Consumes strIter := by
  intro cur a rest h
  cases cur with
  | nil => simp [strIter] at h
  | cons b r =>
    simp only [strIter] at h
    split at h
    · cases h
    · split at h
      · obtain ⟨c, _, hc⟩ := chunkLoop_consumes str str_consumes.suffix _ _ _ _ h
        exact ⟨b :: c, by simp, by rw [hc]; rfl⟩
      · obtain ⟨n, r', e1, e2⟩ := Res.andThen_eq_ok h
        obtain ⟨d, r'', e3, e4⟩ := Res.andThen_eq_ok e2
        split at e4
        · cases e4
          obtain ⟨c1, h1⟩ := unsigned_suffix _ _ _ _ e1
          obtain ⟨c2, h2⟩ := readSlice_suffix _ _ _ _ e3
          exact ⟨b :: (c1 ++ c2), by simp, by rw [h1, h2]; simp⟩
        · cases e4

end PallasVerif.Minicbor
