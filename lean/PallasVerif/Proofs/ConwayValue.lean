import PallasVerif.Model.ConwayValue
import PallasVerif.Proofs.Minicbor
/-!
  Post-conditions of decoders (`Ensures p Q`: whatever `p` returns satisfies `Q`) and their transport
  through the sequence / map / `BTreeMap` decoders, up to the Conway `Value`, `Mint`, `donation` layouts.
-/
namespace PallasVerif.ConwayValue
open PallasVerif.Cbor PallasVerif.Minicbor PallasVerif.Wrappers

/-- every value `p` can return satisfies `Q` -/
def Ensures {α : Type} (p : P α) (Q : α → Prop) : Prop := ∀ cur a r, p cur = .ok a r → Q a

theorem repeatN_ensures {α : Type} (p : P α) (Q : α → Prop) (h : Ensures p Q) (n : Nat) :
    Ensures (repeatN p n) (fun xs => ∀ x ∈ xs, Q x) := by
  induction n with
  | zero => intro cur xs r e; simp only [repeatN, Res.ok.injEq] at e; obtain ⟨rfl, _⟩ := e; simp
  | succ n ih =>
    intro cur xs r e
    simp only [repeatN] at e
    obtain ⟨a, r1, e1, e2⟩ := Res.andThen_eq_ok e
    obtain ⟨ys, e3, rfl⟩ := Res.map_eq_ok e2
    intro x hx
    simp only [List.mem_cons] at hx
    rcases hx with rfl | hx
    · exact h cur _ r1 e1
    · exact ih r1 ys r e3 x hx

theorem untilBreak_ensures {α : Type} (p : P α) (Q : α → Prop) (h : Ensures p Q) (fuel : Nat) :
    Ensures (untilBreak p fuel) (fun xs => ∀ x ∈ xs, Q x) := by
  induction fuel with
  | zero => intro cur xs r e; simp [untilBreak] at e
  | succ f ih =>
    intro cur xs r e
    cases cur with
    | nil => simp [untilBreak] at e
    | cons b t =>
      simp only [untilBreak] at e
      split at e
      · simp only [Res.ok.injEq] at e; obtain ⟨rfl, _⟩ := e; simp
      · obtain ⟨a, r1, e1, e2⟩ := Res.andThen_eq_ok e
        obtain ⟨ys, e3, rfl⟩ := Res.map_eq_ok e2
        intro x hx
        simp only [List.mem_cons] at hx
        rcases hx with rfl | hx
        · exact h _ _ r1 e1
        · exact ih r1 ys r e3 x hx

theorem iterCollect_ensures {α : Type} (p : P α) (Q : α → Prop) (h : Ensures p Q) (len : Option Nat) :
    Ensures (iterCollect p len) (fun xs => ∀ x ∈ xs, Q x) := by
  intro cur xs r e
  cases len with
  | some n => exact repeatN_ensures p Q h n cur xs r e
  | none => exact untilBreak_ensures p Q h _ cur xs r e

theorem mapIter_ensures {α β : Type} (k : P α) (v : P β) (Q : β → Prop) (h : Ensures v Q) :
    Ensures (mapIter k v) (fun xs => ∀ p ∈ xs, Q p.2) := by
  intro cur xs r e
  simp only [mapIter] at e
  obtain ⟨len, r1, _, e2⟩ := Res.andThen_eq_ok e
  have hp : Ensures (pairOf k v) (fun p => Q p.2) := by
    intro c p r' e'
    simp only [pairOf] at e'
    obtain ⟨a, r2, _, e4⟩ := Res.andThen_eq_ok e'
    obtain ⟨b, e5, rfl⟩ := Res.map_eq_ok e4
    exact h r2 b r' e5
  exact iterCollect_ensures _ _ hp len r1 xs r e2

theorem bmInsert_all {β : Type} (Q : β → Prop) (k : Bytes) (v : β) (m : List (Bytes × β))
    (hv : Q v) (hm : ∀ p ∈ m, Q p.2) : ∀ p ∈ bmInsert k v m, Q p.2 := by
  induction m with
  | nil => intro p hp; simp only [bmInsert, List.mem_singleton] at hp; subst hp; exact hv
  | cons x rest ih =>
    obtain ⟨k', v'⟩ := x
    intro p hp
    simp only [bmInsert] at hp
    split at hp
    · simp only [List.mem_cons] at hp
      rcases hp with rfl | rfl | hp
      · exact hv
      · exact hm _ (by simp)
      · exact hm p (by simp [hp])
    · split at hp
      · simp only [List.mem_cons] at hp
        rcases hp with rfl | hp
        · exact hm _ (by simp)
        · exact ih (fun q hq => hm q (by simp [hq])) p hp
      · simp only [List.mem_cons] at hp
        rcases hp with rfl | hp
        · exact hv
        · exact hm p (by simp [hp])

theorem bmOfList_all {β : Type} (Q : β → Prop) (xs : List (Bytes × β)) (h : ∀ p ∈ xs, Q p.2) :
    ∀ p ∈ bmOfList xs, Q p.2 := by
  unfold bmOfList
  suffices ∀ (acc : List (Bytes × β)), (∀ p ∈ acc, Q p.2) → ∀ p ∈ xs.foldl (fun m p => bmInsert p.1 p.2 m) acc, Q p.2 from
    this [] (by simp)
  induction xs with
  | nil => intro acc ha; simpa using ha
  | cons x rest ih =>
    intro acc ha
    simp only [List.foldl_cons]
    exact ih (fun q hq => h q (by simp [hq])) _ (bmInsert_all Q x.1 x.2 acc (h x (by simp)) ha)

theorem btreeMap_ensures {β : Type} (k : P Bytes) (v : P β) (Q : β → Prop) (h : Ensures v Q) :
    Ensures (btreeMap k v) (fun m => ∀ p ∈ m, Q p.2) := by
  intro cur m r e
  simp only [btreeMap] at e
  obtain ⟨xs, e1, rfl⟩ := Res.map_eq_ok e
  exact bmOfList_all Q xs (mapIter_ensures k v Q h cur xs r e1)

theorem multiasset_ensures {α : Type} (q : P α) (Q : α → Prop) (h : Ensures q Q) :
    Ensures (multiasset q) (fun m => ∀ x ∈ quantities m, Q x) := by
  intro cur m r e
  have h1 := btreeMap_ensures hash28 (btreeMap Minicbor.bytes q) _ (btreeMap_ensures Minicbor.bytes q Q h) cur m r e
  intro x hx
  simp only [quantities, List.mem_flatMap, List.mem_map] at hx
  obtain ⟨p, hp, a, ha, rfl⟩ := hx
  exact h1 p hp a ha

theorem positiveCoin_ensures : Ensures PositiveCoin.dec (fun n => n ≠ 0 ∧ n < 2 ^ 64) := by
  intro cur n r e
  simp only [PositiveCoin.dec] at e
  obtain ⟨m, r1, e1, e2⟩ := Res.andThen_eq_ok e
  split at e2
  · cases e2
  · rename_i hne
    simp only [Res.ok.injEq] at e2; obtain ⟨rfl, _⟩ := e2
    cases cur with
    | nil => simp [Minicbor.u64, uintN] at e1
    | cons b t =>
      simp only [Minicbor.u64, uintN] at e1
      split at e1
      · obtain ⟨x, r2, _, e4⟩ := Res.andThen_eq_ok e1
        split at e4
        · rename_i hlt; simp only [Res.ok.injEq] at e4; obtain ⟨rfl, _⟩ := e4; exact ⟨hne, hlt⟩
        · cases e4
      · cases e1

theorem nonZeroInt_ensures : Ensures NonZeroInt.dec (fun i => i ≠ 0 ∧ -(2 ^ 63 : Int) ≤ i ∧ i < 2 ^ 63) := by
  intro cur i r e
  simp only [NonZeroInt.dec] at e
  obtain ⟨m, r1, e1, e2⟩ := Res.andThen_eq_ok e
  split at e2
  · cases e2
  · rename_i hne
    simp only [Res.ok.injEq] at e2; obtain ⟨rfl, _⟩ := e2
    refine ⟨hne, ?_⟩
    cases cur with
    | nil => simp [Minicbor.i64, sintN] at e1
    | cons b t =>
      simp only [Minicbor.i64, sintN] at e1
      split at e1
      · obtain ⟨x, r2, _, e4⟩ := Res.andThen_eq_ok e1
        split at e4
        · rename_i hlt; simp only [Res.ok.injEq] at e4; obtain ⟨rfl, _⟩ := e4
          simp only [show (64 - 1 : Nat) = 63 by rfl] at hlt
          simp only [Int.ofNat_eq_coe]
          constructor <;> omega
        · cases e4
      · split at e1
        · obtain ⟨x, r2, _, e4⟩ := Res.andThen_eq_ok e1
          split at e4
          · rename_i hlt; simp only [Res.ok.injEq] at e4; obtain ⟨rfl, _⟩ := e4
            simp only [show (64 - 1 : Nat) = 63 by rfl] at hlt
            simp only [Int.ofNat_eq_coe]
            constructor <;> omega
          · cases e4
        · cases e1

end PallasVerif.ConwayValue
