import PallasVerif.Proofs.CborContainers
/-!
  `skip()` versus the strict generic parser on the *definite* fragment: for a well-formed concrete
  syntax tree without indefinite-length nodes and with valid UTF-8 in its text strings, `skip()` walks
  over exactly the tree's encoding. Hence `AnyCbor` captures exactly one data item there.
-/
namespace PallasVerif.Minicbor
open PallasVerif.Cbor

mutual
/-- no indefinite-length node, every text string valid UTF-8 -/
def plain : Item → Bool
  | .atom _ => true
  | .str h bs => if h.major = 3 then utf8Valid bs else true
  | .strIndef _ _ => false
  | .seq _ xs => plainList xs
  | .seqIndef _ _ => false
  | .tag _ i => plain i
def plainList : List Item → Bool
  | [] => true
  | x :: xs => plain x && plainList xs
end

mutual
/-- number of heads = number of iterations of the skip loop -/
def nodes : Item → Nat
  | .atom _ => 1
  | .str _ _ => 1
  | .strIndef _ _ => 1
  | .seq _ xs => 1 + nodesList xs
  | .seqIndef _ xs => 1 + nodesList xs
  | .tag _ i => 1 + nodes i
def nodesList : List Item → Nat
  | [] => 0
  | x :: xs => nodes x + nodesList xs
end

theorem encodeList_append (xs ys : List Item) : encodeList (xs ++ ys) = encodeList xs ++ encodeList ys := by
  induction xs with
  | nil => rfl
  | cons x xs ih => simp [encodeList, ih]

theorem nodesList_append (xs ys : List Item) : nodesList (xs ++ ys) = nodesList xs + nodesList ys := by
  induction xs with
  | nil => simp [nodesList]
  | cons x xs ih => simp [nodesList, ih]; omega

theorem plainList_append (xs ys : List Item) : plainList (xs ++ ys) = (plainList xs && plainList ys) := by
  induction xs with
  | nil => simp [plainList]
  | cons x xs ih => simp [plainList, ih, Bool.and_assoc]

theorem wfList_append (xs ys : List Item) : wfList (xs ++ ys) = (wfList xs && wfList ys) := by
  induction xs with
  | nil => simp [wfList]
  | cons x xs ih => simp [wfList, ih, Bool.and_assoc]

mutual
theorem nodes_le : ∀ (i : Item), nodes i ≤ i.encode.length
  | .atom h => by have := Head.encode_length_pos h; simp [nodes, Item.encode]; omega
  | .str h bs => by have := Head.encode_length_pos h; simp [nodes, Item.encode]; omega
  | .strIndef m cs => by simp [nodes, Item.encode]
  | .seq h xs => by have := Head.encode_length_pos h; have := nodesList_le xs; simp [nodes, Item.encode]; omega
  | .seqIndef m xs => by have := nodesList_le xs; simp [nodes, Item.encode]; omega
  | .tag h i => by have := Head.encode_length_pos h; have := nodes_le i; simp [nodes, Item.encode]; omega
theorem nodesList_le : ∀ (xs : List Item), nodesList xs ≤ (encodeList xs).length
  | [] => by simp [nodesList]
  | x :: xs => by have := nodes_le x; have := nodesList_le xs; simp [nodesList, encodeList]; omega
end

theorem length_le_nodesList (xs : List Item) : xs.length ≤ nodesList xs := by
  induction xs with
  | nil => simp [nodesList]
  | cons x xs ih =>
    have : 1 ≤ nodes x := by cases x <;> simp [nodes] <;> omega
    simp [nodesList]; omega

/-! ## heads of arbitrary (not only minimal) width -/

theorem readBe_append (arg rest : Bytes) : readBe arg.length (arg ++ rest) = .ok (ofBe arg) rest := by
  simp [readBe]

theorem ofBe_lt' (bs : Bytes) : ofBe bs < 256 ^ bs.length := by
  induction bs with
  | nil => simp [ofBe]
  | cons b t ih =>
    have hb := UInt8.toNat_lt b
    simp only [ofBe, List.length_cons, Nat.pow_succ]
    have : b.toNat * 256 ^ t.length + ofBe t < (b.toNat + 1) * 256 ^ t.length := by
      rw [Nat.add_mul]; omega
    have h2 : (b.toNat + 1) * 256 ^ t.length ≤ 256 * 256 ^ t.length := Nat.mul_le_mul_right _ (by omega)
    rw [Nat.mul_comm (256 ^ t.length) 256]; omega

theorem argLen_cases (ai n : Nat) (h : argLen ai = some n) :
    (ai < 24 ∧ n = 0) ∨ (ai = 24 ∧ n = 1) ∨ (ai = 25 ∧ n = 2) ∨ (ai = 26 ∧ n = 4) ∨ (ai = 27 ∧ n = 8) ∨ (ai = 31 ∧ n = 0) := by
  unfold argLen at h
  repeat' split at h
  all_goals first | (simp only [Option.some.injEq] at h; omega) | cases h

/-- a well-formed definite head: its argument is read back, and fits 64 bits -/
theorem unsigned_head (h : Head) (rest : Bytes) (hw : h.wf = true) (hai : h.ai ≠ 31) :
    unsigned h.ai (h.arg ++ rest) = .ok h.val rest ∧ h.val < 2 ^ 64 ∧ h.ai ≤ 27 := by
  rw [Head.wf_iff] at hw
  obtain ⟨_, hlt, hl⟩ := hw
  have hlen := ofBe_lt' h.arg
  have e := readBe_append h.arg rest
  rcases argLen_cases _ _ hl with ⟨h0, hn⟩ | ⟨h1, hn⟩ | ⟨h1, hn⟩ | ⟨h1, hn⟩ | ⟨h1, hn⟩ | ⟨h1, _⟩
  · have : h.arg = [] := List.eq_nil_of_length_eq_zero hn
    simp [unsigned, h0, Head.val, this]; omega
  · rw [hn] at e hlen
    refine ⟨by rw [h1, unsigned_24]; simpa [Head.val, h1] using e, by simp [Head.val, h1]; omega, by omega⟩
  · rw [hn] at e hlen
    refine ⟨by rw [h1, unsigned_25]; simpa [Head.val, h1] using e, by simp [Head.val, h1]; omega, by omega⟩
  · rw [hn] at e hlen
    refine ⟨by rw [h1, unsigned_26]; simpa [Head.val, h1] using e, by simp [Head.val, h1]; omega, by omega⟩
  · rw [hn] at e hlen
    refine ⟨by rw [h1, unsigned_27]; simpa [Head.val, h1] using e, by simp [Head.val, h1]; omega, by omega⟩
  · exact absurd h1 hai

/-! ## one loop iteration on the encoding of a plain item -/

theorem initByte_toNat' (m ai : Nat) (hm : m < 8) (hai : ai ≤ 27) : (initByte m ai).toNat = m * 32 + ai :=
  initByte_toNat m ai hm (by omega)

/-- major 0 / 1 / 7 -/
theorem skipArm_atom (st : SkipSt) (h : Head) (rest : Bytes) (hw : (Item.atom h).wf = true) :
    skipArm st (h.encode ++ rest) = .ok (st, true) rest := by
  simp only [Item.wf, Bool.and_eq_true, Bool.or_eq_true, decide_eq_true_eq] at hw
  obtain ⟨⟨hwf, hm⟩, hai⟩ := hw
  obtain ⟨hu, hv, h27⟩ := unsigned_head h rest hwf hai
  have hm8 : h.major < 8 := ((Head.wf_iff h).mp hwf).1
  have hb := initByte_toNat' h.major h.ai hm8 h27
  simp only [Head.encode, List.cons_append, skipArm, hb]
  rcases hm with (hm | hm) | hm
  · rw [if_pos (by omega)]
    simp only [Minicbor.u64, uintN, hb]
    rw [if_pos (by omega)]
    simp [hm, hu, hv]
  · rw [if_neg (by omega), if_pos (by omega)]
    simp only [Minicbor.int, hb]
    rw [if_neg (by omega), if_pos (by omega)]
    have : h.major * 32 + h.ai - 32 = h.ai := by omega
    simp [this, hu]
  · repeat (first | rw [if_neg (by omega)])
    rw [if_pos (by omega)]
    simp [initByte_info h.major h.ai hm8 (by omega), hu]

/-- major 2 / 3, definite -/
theorem skipArm_str (st : SkipSt) (h : Head) (bs rest : Bytes) (hw : (Item.str h bs).wf = true)
    (hp : plain (.str h bs) = true) : skipArm st (h.encode ++ bs ++ rest) = .ok (st, true) rest := by
  simp only [Item.wf, Bool.and_eq_true, Bool.or_eq_true, decide_eq_true_eq] at hw
  obtain ⟨⟨⟨hwf, hm⟩, hai⟩, hlen⟩ := hw
  obtain ⟨hu, hv, h27⟩ := unsigned_head h (bs ++ rest) hwf hai
  have hm8 : h.major < 8 := ((Head.wf_iff h).mp hwf).1
  have hb := initByte_toNat' h.major h.ai hm8 h27
  have hmaj := initByte_major h.major h.ai hm8 (by omega)
  have hinf := initByte_info h.major h.ai hm8 (by omega)
  have hrs : readSlice h.val (bs ++ rest) = .ok bs rest := by rw [← hlen]; exact readSlice_append bs rest
  simp only [Head.encode, List.cons_append, List.append_assoc, skipArm, hb]
  rcases hm with hm | hm
  · repeat (first | rw [if_neg (by omega)])
    rw [if_pos (by omega)]
    simp only [bytesIter, hmaj, hinf]
    rw [if_neg (by omega), if_neg hai]
    simp [hu, hrs]
  · repeat (first | rw [if_neg (by omega)])
    rw [if_pos (by omega)]
    have hutf : utf8Valid bs = true := by simpa [plain, hm] using hp
    simp only [strIter, hmaj, hinf]
    rw [if_neg (by omega), if_neg hai]
    simp [hu, hrs, hutf]

theorem seqHead_head (m : Nat) (h : Head) (tail : Bytes) (hwf : h.wf = true) (hai : h.ai ≠ 31) (hm : h.major = m) :
    seqHead m (initByte h.major h.ai :: (h.arg ++ tail)) = .ok (some h.val) tail := by
  obtain ⟨hu, _, h27⟩ := unsigned_head h tail hwf hai
  have hm8 : h.major < 8 := ((Head.wf_iff h).mp hwf).1
  have hmaj := initByte_major h.major h.ai hm8 (by omega)
  have hinf := initByte_info h.major h.ai hm8 (by omega)
  simp only [seqHead, hmaj, hinf]
  rw [if_neg (by omega), if_neg hai]
  simp [hu]

/-- major 4 / 5, definite: the children are added to the pending count -/
theorem skipArm_seq (n : Nat) (h : Head) (xs : List Item) (tail : Bytes) (hw : (Item.seq h xs).wf = true)
    (hn : 1 ≤ n) (hbound : n + xs.length ≤ u64Max) :
    skipArm ⟨n, 0, []⟩ (h.encode ++ tail) = .ok (⟨n + xs.length, 0, []⟩, true) tail := by
  simp only [Item.wf, Bool.and_eq_true, Bool.or_eq_true, decide_eq_true_eq] at hw
  obtain ⟨⟨⟨⟨hwf, hm⟩, hai⟩, hlen⟩, _⟩ := hw
  obtain ⟨hu, hv, h27⟩ := unsigned_head h tail hwf hai
  have hm8 : h.major < 8 := ((Head.wf_iff h).mp hwf).1
  have hb := initByte_toNat' h.major h.ai hm8 h27
  simp only [Head.encode, List.cons_append, skipArm, hb]
  have hn0 : ¬ (n = 0 ∧ (0 : Nat) = 0) := by omega
  rcases hm with hm | hm
  · repeat (first | rw [if_neg (by omega)])
    rw [if_pos (by omega)]
    have hcount : xs.length = h.val := by simpa [seqCount, hm] using hlen
    simp only [array, seqHead_head 4 h tail hwf hai hm, Res.map_ok]
    by_cases hz : h.val = 0
    · simp [skipDef, hz, hcount]
    · have : satAdd n h.val = n + h.val := by unfold satAdd; rw [if_pos (by omega)]
      have hn1 : ¬ n = 0 := by omega
      simp [skipDef, hz, hn1, this, hcount]
  · repeat (first | rw [if_neg (by omega)])
    rw [if_pos (by omega)]
    have hcount : xs.length = 2 * h.val := by simpa [seqCount, hm] using hlen
    have hmul : satMul h.val 2 = 2 * h.val := by unfold satMul; rw [if_pos (by omega)]; omega
    simp only [Minicbor.map, seqHead_head 5 h tail hwf hai hm, Res.map_ok, hmul]
    by_cases hz : 2 * h.val = 0
    · simp [skipDef, hz, hcount]
    · have : satAdd n (2 * h.val) = n + 2 * h.val := by unfold satAdd; rw [if_pos (by omega)]
      have hn1 : ¬ n = 0 := by omega
      simp [skipDef, hz, hn1, this, hcount]

/-- major 6: the head is consumed and the loop `continue`s -/
theorem skipArm_tag (st : SkipSt) (h : Head) (i : Item) (tail : Bytes) (hw : (Item.tag h i).wf = true) :
    skipArm st (h.encode ++ tail) = .ok (st, false) tail := by
  simp only [Item.wf, Bool.and_eq_true, decide_eq_true_eq] at hw
  obtain ⟨⟨⟨hwf, hm⟩, hai⟩, _⟩ := hw
  obtain ⟨hu, hv, h27⟩ := unsigned_head h tail hwf hai
  have hm8 : h.major < 8 := ((Head.wf_iff h).mp hwf).1
  have hb := initByte_toNat' h.major h.ai hm8 h27
  simp only [Head.encode, List.cons_append, skipArm, hb]
  repeat (first | rw [if_neg (by omega)])
  rw [if_pos (by omega)]
  simp [initByte_info h.major h.ai hm8 (by omega), hu]

/-! ## the loop over a forest of pending items -/

theorem skipLoop_forest (fuel : Nat) : ∀ (xs : List Item) (r : Bytes), wfList xs = true → plainList xs = true →
    nodesList xs + 1 ≤ fuel → (encodeList xs ++ r).length ≤ u64Max →
    skipLoop fuel ⟨xs.length, 0, []⟩ (encodeList xs ++ r) = .ok () r := by
  induction fuel with
  | zero => intro xs r _ _ hf; omega
  | succ f ih =>
    intro xs r hw hp hf hlen
    cases xs with
    | nil => simp [skipLoop, encodeList]
    | cons x xs' =>
      simp only [wfList, plainList, Bool.and_eq_true] at hw hp
      have hnl := length_le_nodesList (x :: xs')
      have hnb := nodesList_le (x :: xs')
      simp only [List.length_append] at hlen
      have hne : ¬ ((x :: xs').length = 0 ∧ (0 : Nat) = 0 ∧ ([] : List (Option Nat)) = []) := by simp
      simp only [skipLoop]
      rw [if_neg (by simp)]
      have after : ∀ n, 1 ≤ n → skipAfter ⟨n, 0, []⟩ = some ⟨n - 1, 0, []⟩ := by
        intro n hn; simp [skipAfter]; omega
      cases x with
      | atom h =>
        simp only [encodeList, Item.encode, List.append_assoc, skipArm_atom _ h _ hw.1, Res.andThen_ok, if_true,
          after _ (by simp : 1 ≤ (Item.atom h :: xs').length)]
        have := ih xs' r hw.2 hp.2 (by simp [nodesList, nodes] at hf; omega)
          (by simp [encodeList, Item.encode] at hlen ⊢; omega)
        simpa using this
      | str h bs =>
        have e : encodeList (Item.str h bs :: xs') ++ r = h.encode ++ bs ++ (encodeList xs' ++ r) := by
          simp [encodeList, Item.encode, List.append_assoc]
        rw [e]
        simp only [skipArm_str _ h bs _ hw.1 hp.1, Res.andThen_ok, if_true,
          after _ (by simp : 1 ≤ (Item.str h bs :: xs').length)]
        have := ih xs' r hw.2 hp.2 (by simp [nodesList, nodes] at hf; omega)
          (by simp [encodeList, Item.encode] at hlen ⊢; omega)
        simpa using this
      | strIndef m cs => simp [plain] at hp
      | seqIndef m ys => simp [plain] at hp
      | seq h ys =>
        have e : encodeList (Item.seq h ys :: xs') ++ r = h.encode ++ (encodeList (ys ++ xs') ++ r) := by
          simp [encodeList, Item.encode, encodeList_append, List.append_assoc]
        rw [e]
        have hbound : (Item.seq h ys :: xs').length + ys.length ≤ u64Max := by
          have := length_le_nodesList ys
          simp [nodesList, nodes] at hnl hnb ⊢
          have := length_le_nodesList xs'
          omega
        simp only [skipArm_seq _ h ys _ hw.1 (by simp) hbound, Res.andThen_ok, if_true,
          after _ (by simp; omega : 1 ≤ (Item.seq h ys :: xs').length + ys.length)]
        have hwys : wfList ys = true := by
          have := hw.1; simp only [Item.wf, Bool.and_eq_true] at this; exact this.2
        have hpys : plainList ys = true := by simpa [plain] using hp.1
        have := ih (ys ++ xs') r (by simp [wfList_append, hwys, hw.2]) (by simp [plainList_append, hpys, hp.2])
          (by simp [nodesList, nodes, nodesList_append] at hf ⊢; omega)
          (by have hh := congrArg List.length e; simp only [List.length_append] at hh ⊢; omega)
        have hl : (Item.seq h ys :: xs').length + ys.length - 1 = (ys ++ xs').length := by simp; omega
        rw [hl]; exact this
      | tag h i =>
        have e : encodeList (Item.tag h i :: xs') ++ r = h.encode ++ (encodeList (i :: xs') ++ r) := by
          simp [encodeList, Item.encode, List.append_assoc]
        rw [e]
        simp only [skipArm_tag _ h i _ hw.1, Res.andThen_ok]
        have hwi : i.wf = true := by
          have := hw.1; simp only [Item.wf, Bool.and_eq_true] at this; exact this.2
        have hpi : plain i = true := by simpa [plain] using hp.1
        have := ih (i :: xs') r (by simp [wfList, hwi, hw.2]) (by simp [plainList, hpi, hp.2])
          (by simp [nodesList, nodes] at hf ⊢; omega)
          (by have hh := congrArg List.length e; simp only [List.length_append] at hh ⊢; omega)
        simpa using this

/-- **`skip()` walks over exactly one plain well-formed item** -/
theorem skip_item (i : Item) (r : Bytes) (hw : i.wf = true) (hp : plain i = true)
    (hlen : (i.encode ++ r).length ≤ u64Max) : skip (i.encode ++ r) = .ok () r := by
  have h := skipLoop_forest ((i.encode ++ r).length + 1) [i] r (by simp [wfList, hw]) (by simp [plainList, hp])
    (by have := nodes_le i; simp [nodesList]; omega) (by simpa [encodeList] using hlen)
  simpa [skip, encodeList] using h

end PallasVerif.Minicbor
