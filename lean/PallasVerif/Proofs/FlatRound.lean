import PallasVerif.Proofs.FlatEnc
import PallasVerif.Proofs.FlatDec
/-!
  Values, their specified bit strings, and the two halves of the round trip:
  `Enc.value_ext` / `Enc.seq_ext` (the encoder appends exactly the specified bits) and
  `Dec.value_reads` / `Dec.seq_reads` (the decoder reads exactly the specified bits back).
-/
namespace PallasVerif.Flat
open BitVec

/-- what each Rust type guarantees about a value handed to the encoder -/
def Value.WF : Value → Prop
  | .bits n v => 1 ≤ n ∧ n ≤ 8 ∧ v.toNat < 2 ^ n     -- "num_bits ≥ bits required by the value"
  | .word w => w < 2 ^ 64                             -- usize
  | .int i => -(2 ^ 63) ≤ i ∧ i < 2 ^ 63              -- isize
  | .char c => Dec.validScalar c = true                   -- char
  | .utf8 bs => validUtf8 bs = true                   -- &str
  | .string cs => ∀ c ∈ cs, Dec.validScalar c = true      -- &str, as scalar values
  | _ => True

instance : DecidablePred Value.WF := fun v => by
  cases v <;> simp only [Value.WF] <;> infer_instance

/-- the bit string of a value that starts at bit offset `off` (byte strings depend on it through
    the filler) -/
def Value.spec (off : Nat) : Value → List Bool
  | .bool b => [b]
  | .u8 x => byteBits x
  | .bits n v => (byteBits v).drop (8 - n)
  | .word w => bitsOf (wordBytes 10 w)
  | .int i => bitsOf (wordBytes 10 (zigzag i))
  | .char c => bitsOf (wordBytes 10 c)
  | .bytes bs => fillerBits (off % 8) ++ bitsOf (Enc.blk bs)
  | .utf8 bs => fillerBits (off % 8) ++ bitsOf (Enc.blk bs)
  | .bools l => boolsBits l
  | .string cs => stringBits cs

def specSeq (off : Nat) : List Value → List Bool
  | [] => []
  | v :: vs => v.spec off ++ specSeq (off + (v.spec off).length) vs

/-! ### encoder -/

theorem Enc.value_ext (e : Enc) (h : e.Inv) (v : Value) (hv : v.WF) :
    ∃ e', e.value v = .ok e' ∧ Enc.Ext e e' (v.spec e.written.length) := by
  have hoff : e.written.length % 8 = e.used := by
    rw [Enc.written_length e h]; have := h.1; omega
  cases v with
  | bool b => exact ⟨_, rfl, Enc.bool_ext e h b⟩
  | u8 x => exact ⟨_, rfl, Enc.u8_ext e h x⟩
  | bits n x =>
    obtain ⟨h1, h2, h3⟩ := hv
    obtain ⟨e', he, hx⟩ := Enc.bits_ext e h n h1 h2 x (highZero_of_lt n h2 x h3)
    exact ⟨e', by simp [Enc.value, he], hx⟩
  | word w =>
    obtain ⟨e', he, hx⟩ := Enc.word_ext e h w hv
    exact ⟨e', by simp [Enc.value, he], hx⟩
  | int i =>
    obtain ⟨e', he, hx⟩ := Enc.word_ext e h (zigzag i) (zigzag_lt i hv.1 hv.2)
    exact ⟨e', by simp [Enc.value, he], hx⟩
  | char c =>
    have hc : c < 2 ^ 64 := by
      simp only [Value.WF, Dec.validScalar, Bool.decide_or, Bool.decide_and, Bool.or_eq_true, Bool.and_eq_true,
        decide_eq_true_eq] at hv
      omega
    obtain ⟨e', he, hx⟩ := Enc.word_ext e h c hc
    exact ⟨e', by simp [Enc.value, he], hx⟩
  | bytes bs =>
    obtain ⟨e', he, hx⟩ := Enc.bytes_ext e h bs
    exact ⟨e', by simp [Enc.value, he], by simpa [Value.spec, hoff] using hx⟩
  | utf8 bs =>
    obtain ⟨e', he, hx⟩ := Enc.bytes_ext e h bs
    exact ⟨e', by simp [Enc.value, he], by simpa [Value.spec, hoff] using hx⟩
  | bools l => exact ⟨_, rfl, Enc.bools_ext e h l⟩
  | string cs =>
    have hcs : ∀ c ∈ cs, c < 2 ^ 64 := by
      intro c hc
      have := hv c hc
      simp only [Dec.validScalar, Bool.decide_or, Bool.decide_and, Bool.or_eq_true, Bool.and_eq_true,
        decide_eq_true_eq] at this
      omega
    obtain ⟨e', he, hx⟩ := Enc.string_ext e h cs hcs
    exact ⟨e', by simp [Enc.value, he], hx⟩

theorem Enc.seq_ext (e : Enc) (h : e.Inv) (vs : List Value) (hvs : ∀ v ∈ vs, v.WF) :
    ∃ e', e.seq vs = .ok e' ∧ Enc.Ext e e' (specSeq e.written.length vs) := by
  induction vs generalizing e with
  | nil => exact ⟨e, rfl, Enc.Ext.refl e h⟩
  | cons v vs ih =>
    obtain ⟨e', he, hx⟩ := Enc.value_ext e h v (hvs v (by simp))
    obtain ⟨e'', he', hx'⟩ := ih e' hx.1 (fun v hv => hvs v (by simp [hv]))
    refine ⟨e'', by simp [Enc.seq, he, he'], ?_⟩
    have hl : e'.written.length = e.written.length + (v.spec e.written.length).length := by
      rw [hx.2]; simp
    rw [hl] at hx'
    exact hx.trans hx'

/-! ### decoder -/

theorem Dec.value_reads (d : Dec) (hu : d.used < 8) (v : Value) (hv : v.WF) (rest : List Bool)
    (h : d.rem = v.spec d.cursor ++ rest) :
    Reads d (d.value v.kind) v (v.spec d.cursor).length := by
  have hoff : d.cursor % 8 = d.used := by simp only [Dec.cursor]; omega
  cases v with
  | bool b =>
    obtain ⟨d', hb, hr⟩ := Dec.bit_reads d hu b rest h
    exact ⟨d', by simp [Dec.value, Value.kind, Dec.bool, hb], hr⟩
  | u8 x =>
    obtain ⟨d', hb, hr⟩ := Dec.u8_reads d hu x rest h
    exact ⟨d', by simp [Dec.value, Value.kind, hb], hr⟩
  | bits n x =>
    obtain ⟨h1, h2, h3⟩ := hv
    have hlen : ((byteBits x).drop (8 - n)).length = n := by simp; omega
    obtain ⟨y, ⟨d', hb, hr⟩, hy⟩ := Dec.bits8_reads d hu n h1 h2 _ rest hlen h
    have hz := highZero_of_lt n h2 x h3
    have : y = x := by
      apply byteBits_inj
      rw [hy, ← hz, List.take_append_drop]
    subst this
    refine ⟨d', by simp [Dec.value, Value.kind, hb], ?_⟩
    simpa [Value.spec, hlen] using hr
  | word w =>
    obtain ⟨d', hb, hr⟩ := Dec.word_reads d hu w hv rest h
    exact ⟨d', by simp [Dec.value, Value.kind, hb], by simpa [Value.spec] using hr⟩
  | int i =>
    obtain ⟨d', hb, hr⟩ := Dec.integer_reads d hu i hv.1 hv.2 rest h
    exact ⟨d', by simp [Dec.value, Value.kind, hb], by simpa [Value.spec] using hr⟩
  | char c =>
    obtain ⟨d', hb, hr⟩ := Dec.char_reads d hu c hv rest h
    exact ⟨d', by simp [Dec.value, Value.kind, hb], by simpa [Value.spec] using hr⟩
  | bytes bs =>
    simp only [Value.spec, hoff, List.append_assoc] at h
    obtain ⟨d', hb, hr⟩ := Dec.bytes_reads d hu bs rest h
    refine ⟨d', by simp [Dec.value, Value.kind, hb], hr.1, hr.2.1, ?_⟩
    rw [hr.2.2]
    simp only [Value.spec, hoff, fillerBits, List.length_append, List.length_replicate, List.length_cons,
      List.length_nil, bitsOf_length]
    omega
  | utf8 bs =>
    simp only [Value.spec, hoff, List.append_assoc] at h
    obtain ⟨d', hb, hr⟩ := Dec.utf8_reads d hu bs hv rest h
    refine ⟨d', by simp [Dec.value, Value.kind, hb], hr.1, hr.2.1, ?_⟩
    rw [hr.2.2]
    simp only [Value.spec, hoff, fillerBits, List.length_append, List.length_replicate, List.length_cons,
      List.length_nil, bitsOf_length]
    omega
  | bools l =>
    obtain ⟨d', hb, hr⟩ := Dec.bools_reads d hu l rest h
    exact ⟨d', by simp [Dec.value, Value.kind, hb], hr⟩
  | string cs =>
    obtain ⟨d', hb, hr⟩ := Dec.string_reads d hu cs hv rest h
    exact ⟨d', by simp [Dec.value, Value.kind, hb], hr⟩

theorem Dec.seq_reads (d : Dec) (hu : d.used < 8) (vs : List Value) (hvs : ∀ v ∈ vs, v.WF) (rest : List Bool)
    (h : d.rem = specSeq d.cursor vs ++ rest) :
    Reads d (d.seq (vs.map Value.kind)) vs (specSeq d.cursor vs).length := by
  induction vs generalizing d with
  | nil => exact ⟨d, rfl, rfl, hu, rfl⟩
  | cons v vs ih =>
    simp only [specSeq, List.append_assoc] at h
    obtain ⟨d', hb, h1, h2, h3⟩ := Dec.value_reads d hu v (hvs v (by simp)) _ h
    have hr : d'.rem = specSeq d'.cursor vs ++ rest := by
      rw [Dec.rem_advance h1 h3, h, h3]; exact List.drop_left' rfl
    obtain ⟨d'', hb', h1', h2', h3'⟩ := ih d' h2 (fun v hv => hvs v (by simp [hv])) hr
    refine ⟨d'', by simp [Dec.seq, hb, hb'], by rw [h1', h1], h2', ?_⟩
    rw [h3', h3]; simp [specSeq]; omega

end PallasVerif.Flat
