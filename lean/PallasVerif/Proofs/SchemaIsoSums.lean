import PallasVerif.Proofs.SchemaIso
/-! Iso lemmas for maps and sum types. -/
namespace PallasVerif.Schema
open PallasVerif.Cbor

/-! ## maps -/

theorem pairsAll_flatten {ck cv : Item → Bool} : ∀ (n : Nat) (xs : List Item), xs.length ≤ n → pairsAll ck cv xs = true →
    flattenPairs (pairUp xs) = xs ∧ ∀ p, p ∈ pairUp xs → ck p.1 = true ∧ cv p.2 = true := by
  intro n
  induction n with
  | zero =>
    intro xs hl _
    cases xs with
    | nil => exact ⟨rfl, by simp [pairUp]⟩
    | cons _ _ => simp at hl
  | succ n ih =>
    intro xs hl h
    match xs, h with
    | [], _ => exact ⟨rfl, by simp [pairUp]⟩
    | [_], h => simp [pairsAll] at h
    | k :: v :: r, h =>
      simp only [pairsAll, Bool.and_eq_true] at h
      obtain ⟨e, hp⟩ := ih r (by simp at hl; omega) h.2
      refine ⟨by simp [pairUp, flattenPairs, e], ?_⟩
      intro p hpm
      simp only [pairUp, List.mem_cons] at hpm
      rcases hpm with rfl | hpm
      · exact ⟨h.1.1, h.1.2⟩
      · exact hp p hpm

theorem pairs_iso {ek ev : Value → Option Item} {dk dv : Item → Option Value} {ck cv : Item → Bool}
    (hk : ∀ x, ck x = true → Iso ek dk x) (hv : ∀ x, cv x = true → Iso ev dv x) :
    ∀ (ps : List (Item × Item)) (kvs : List Value), (∀ p, p ∈ ps → ck p.1 = true ∧ cv p.2 = true) →
      mapOpt (decPair dk dv) ps = some kvs →
      allPairs kvs = true ∧ kvs.length = ps.length ∧ mapOpt (encPair ek ev) kvs = some ps ∧
      mapOpt (fun e : Item × Item => dk e.1) ps = some (kvs.map keyOf) := by
  intro ps
  induction ps with
  | nil => intro kvs _ h; simp [mapOpt] at h; subst h; exact ⟨rfl, rfl, rfl, rfl⟩
  | cons q ps ih =>
    intro kvs hc h
    obtain ⟨x, y⟩ := q
    simp only [mapOpt] at h
    cases h1 : decPair dk dv (x, y) with
    | none => simp [h1] at h
    | some w =>
      cases h2 : mapOpt (decPair dk dv) ps with
      | none => simp [h1, h2] at h
      | some ws =>
        simp only [h1, h2, Option.some.injEq] at h
        subst h
        obtain ⟨e1, e2, e3, e4⟩ := ih ws (fun p hp => hc p (by simp [hp])) h2
        simp only [decPair] at h1
        cases ha : dk x with
        | none => simp [ha] at h1
        | some a =>
          cases hb : dv y with
          | none => simp [ha, hb] at h1
          | some b =>
            simp only [ha, hb, Option.some.injEq] at h1
            subst h1
            have hcx := hc (x, y) (by simp)
            refine ⟨by simp [allPairs, isPair, e1], by simp [e2], ?_, ?_⟩
            · simp only [mapOpt, encPair, hk x hcx.1 a ha, hv y hcx.2 b hb, e3]
            · simp only [mapOpt, ha, e4, List.map_cons, keyOf]

theorem canonMap_elim {ck cv : Item → Bool} {it : Item} (h : canonMap ck cv it = true) :
    ∃ xs, it = mkMapFlat xs ∧ xs.length / 2 < 2 ^ 64 ∧ pairsAll ck cv xs = true := by
  cases it <;> simp only [canonMap] at h <;> try (simp at h; done)
  case seq hd xs =>
    simp only [Bool.and_eq_true, beq_iff_eq, decide_eq_true_eq] at h
    exact ⟨xs, by simp [mkMapFlat, h.1.1.1], h.1.1.2, h.2⟩

theorem mkMapFlat_entries' (xs : List Item) : (mkMapFlat xs).mapEntries? = some (pairUp xs) := by
  simp [mkMapFlat, Item.mapEntries?, minHead_major]

theorem iso_btmap {ek ev : Value → Option Item} {dk dv : Item → Option Value} {ck cv : Item → Bool}
    (hk : ∀ x, ck x = true → Iso ek dk x) (hv : ∀ x, cv x = true → Iso ev dv x)
    (it : Item) (h : canonMap ck cv it = true) (hs : keysSorted dk it = true) : Iso (encBTMap ek ev) (decBTMap dk dv) it := by
  obtain ⟨xs, rfl, hl, hp⟩ := canonMap_elim h
  obtain ⟨hflat, hall⟩ := pairsAll_flatten xs.length xs (Nat.le_refl _) hp
  intro v hd
  simp only [decBTMap, mkMapFlat_entries'] at hd
  cases hm : mapOpt (decPair dk dv) (pairUp xs) with
  | none => simp [hm] at hd
  | some kvs =>
    simp only [hm, Option.some.injEq] at hd
    obtain ⟨e1, e2, e3, e4⟩ := pairs_iso hk hv (pairUp xs) kvs hall hm
    simp only [keysSorted, mkMapFlat_entries', e4] at hs
    have hf := foldl_insert_sorted kvs [] e1 rfl (fun a ha => by simp at ha) hs
    simp only [List.nil_append] at hf
    rw [hf] at hd
    subst hd
    have hlen : kvs.length < 2 ^ 64 := by
      have := flattenPairs_length (pairUp xs)
      rw [hflat] at this
      omega
    simp [encBTMap, hlen, hs, e3, hflat]

theorem iso_kvPairs {ek ev : Value → Option Item} {dk dv : Item → Option Value} {ck cv : Item → Bool}
    (hk : ∀ x, ck x = true → Iso ek dk x) (hv : ∀ x, cv x = true → Iso ev dv x)
    (it : Item) (h : canonKvPairs ck cv it = true) : Iso (encKvPairs ek ev) (decKvPairs dk dv) it := by
  cases it <;> simp only [canonKvPairs] at h <;> try (simp at h; done)
  case seq hd xs =>
    have h' : canonMap ck cv (.seq hd xs) = true := by simpa [canonMap] using h
    obtain ⟨ys, hy, hl, hp⟩ := canonMap_elim h'
    rw [hy]
    obtain ⟨hflat, hall⟩ := pairsAll_flatten ys.length ys (Nat.le_refl _) hp
    intro v hdv
    simp only [decKvPairs, mkMapFlat_typeOf, if_true, decKvList, mkMapFlat_entries'] at hdv
    cases hm : mapOpt (decPair dk dv) (pairUp ys) with
    | none => simp [hm] at hdv
    | some kvs =>
      simp only [hm, Option.map_some, Option.some.injEq] at hdv
      subst hdv
      obtain ⟨_, e2, e3, _⟩ := pairs_iso hk hv (pairUp ys) kvs hall hm
      have hlen : kvs.length < 2 ^ 64 := by
        have := flattenPairs_length (pairUp ys)
        rw [hflat] at this
        omega
      simp [encKvPairs, hlen, e3, hflat]
  case seqIndef m xs =>
    simp only [Bool.and_eq_true, decide_eq_true_eq] at h
    obtain ⟨⟨rfl, _⟩, hp⟩ := h
    obtain ⟨hflat, hall⟩ := pairsAll_flatten xs.length xs (Nat.le_refl _) hp
    intro v hdv
    have ht : typeOf (Item.seqIndef 5 xs) = .mapIndef := by simp [typeOf]
    have ht2 : ¬ (Ty.mapIndef = Ty.map) := by decide
    simp only [decKvPairs, ht, ht2, if_false, if_true, decKvList, Item.mapEntries?] at hdv
    cases hm : mapOpt (decPair dk dv) (pairUp xs) with
    | none => simp [hm] at hdv
    | some kvs =>
      simp only [hm, Option.map_some, Option.some.injEq] at hdv
      subst hdv
      obtain ⟨_, _, e3, _⟩ := pairs_iso hk hv (pairUp xs) kvs hall hm
      simp [encKvPairs, e3, hflat]

/-! ## sums -/

theorem findVariant_some {α} : ∀ (vs : List (Nat × α)) (k pos : Nat) (i : Int) (a : α),
    findVariant i k vs = some (pos, a) → ∃ n : Nat, (n : Int) = i ∧ k ≤ pos ∧ vs[pos - k]? = some (n, a) := by
  intro vs
  induction vs with
  | nil => intro k pos i a h; simp [findVariant] at h
  | cons q vs ih =>
    intro k pos i a h
    obtain ⟨m, b⟩ := q
    simp only [findVariant] at h
    split at h
    · rename_i hm
      simp only [Option.some.injEq, Prod.mk.injEq] at h
      obtain ⟨rfl, rfl⟩ := h
      exact ⟨m, hm, Nat.le_refl _, by simp⟩
    · obtain ⟨n, hn, hk, hg⟩ := ih (k + 1) pos i a h
      refine ⟨n, hn, by omega, ?_⟩
      have : pos - k = (pos - (k + 1)) + 1 := by omega
      rw [this]
      simpa using hg

theorem findVariant_none_all {α} : ∀ (vs : List (Nat × α)) (k x : Nat), findVariant (x : Int) k vs = none →
    (vs.all (fun v => v.1 != x)) = true := by
  intro vs
  induction vs with
  | nil => intro _ _ _; rfl
  | cons q vs ih =>
    intro k x h
    obtain ⟨m, b⟩ := q
    simp only [findVariant] at h
    split at h
    · simp at h
    · rename_i hne
      have : m ≠ x := fun e => hne (by omega)
      simp [this, ih (k + 1) x h]

theorem findIdx_some : ∀ (vs : List Nat) (k pos : Nat) (i : Int), findIdx i k vs = some pos →
    ∃ n : Nat, (n : Int) = i ∧ k ≤ pos ∧ vs[pos - k]? = some n := by
  intro vs
  induction vs with
  | nil => intro k pos i h; simp [findIdx] at h
  | cons m vs ih =>
    intro k pos i h
    simp only [findIdx] at h
    split at h
    · rename_i hm
      simp only [Option.some.injEq] at h
      subst h
      exact ⟨m, hm, Nat.le_refl _, by simp⟩
    · obtain ⟨n, hn, hk, hg⟩ := ih (k + 1) pos i h
      refine ⟨n, hn, by omega, ?_⟩
      have : pos - k = (pos - (k + 1)) + 1 := by omega
      rw [this]
      simpa using hg

theorem iso_enumIdx (vs : List Nat) (it : Item) (h : canonUInt it = true) : Iso (encEnumIdx vs) (decEnumIdx vs) it := by
  obtain ⟨n, hn, rfl, _⟩ := canonUInt_elim h
  intro v hd
  simp only [decEnumIdx, mkUInt_int n hn] at hd
  split at hd
  · cases hf : findIdx (n : Int) 0 vs with
    | none => simp [hf] at hd
    | some pos =>
      simp only [hf, Option.some.injEq] at hd
      subst hd
      obtain ⟨m, hm, _, hg⟩ := findIdx_some vs 0 pos n hf
      have : m = n := by omega
      subst this
      simp only [Nat.sub_zero] at hg
      simp [encEnumIdx, hg]
  · simp at hd

theorem iso_sum {e : Schema → Value → Option Item} {d : Schema → Item → Option Value} {c : Schema → Item → Bool}
    (b : Nat) (vs : List (Nat × List Schema)) (hc : ∀ v, v ∈ vs → ∀ s, s ∈ v.2 → ∀ x, c s x = true → Iso (e s) (d s) x) (it : Item)
    (h : canonSum c vs none it = true) : Iso (encSumFixed e vs) (decSumFixed d b vs) it := by
  cases it <;> simp only [canonSum] at h <;> try (simp at h; done)
  case seq hd ys =>
    cases ys with
    | nil => simp [canonSum] at h
    | cons x xs =>
      simp only [Bool.and_eq_true, beq_iff_eq, decide_eq_true_eq] at h
      obtain ⟨⟨⟨rfl, hl⟩, hx⟩, hz⟩ := h
      obtain ⟨n, hn, rfl, hu⟩ := canonUInt_elim hx
      intro v hdv
      simp only [decSumFixed, minHead_major, if_true, hu] at hdv
      split at hdv
      · cases hf : findVariant (n : Int) 0 vs with
        | none => simp [hf] at hdv
        | some q =>
          obtain ⟨pos, fs⟩ := q
          simp only [hf, Option.map_eq_some_iff] at hdv
          obtain ⟨ws, hws, rfl⟩ := hdv
          obtain ⟨m, hm, _, hg⟩ := findVariant_some vs 0 pos n fs hf
          have : m = n := by omega
          subst this
          simp only [Nat.sub_zero] at hg
          simp only [hu, hf] at hz
          simp [encSumFixed, hg, zipOpt_iso fs (hc (m, fs) (List.mem_of_getElem? hg)) xs ws hz hws, mkArray]
      · simp at hdv

theorem iso_sumOther {e : Schema → Value → Option Item} {d : Schema → Item → Option Value} {c : Schema → Item → Bool}
    (b : Nat) (vs : List (Nat × List Schema)) (o : List Schema)
    (hc : ∀ v, v ∈ vs → ∀ s, s ∈ v.2 → ∀ x, c s x = true → Iso (e s) (d s) x)
    (ho : ∀ s, s ∈ o → ∀ x, c s x = true → Iso (e s) (d s) x) (it : Item)
    (h : canonSum c vs (some o) it = true) : Iso (encSumOther e b vs o) (decSumOther d b vs o) it := by
  cases it <;> simp only [canonSum] at h <;> try (simp at h; done)
  case seq hd ys =>
    cases ys with
    | nil => simp [canonSum] at h
    | cons x xs =>
      simp only [Bool.and_eq_true, beq_iff_eq, decide_eq_true_eq] at h
      obtain ⟨⟨⟨rfl, hl⟩, hx⟩, hz⟩ := h
      obtain ⟨n, hn, rfl, hu⟩ := canonUInt_elim hx
      intro v hdv
      simp only [decSumOther, minHead_major, if_true, hu] at hdv
      split at hdv
      · rename_i hb
        cases hf : findVariant (n : Int) 0 vs with
        | none =>
          simp only [hf, Option.map_eq_some_iff] at hdv
          obtain ⟨ws, hws, rfl⟩ := hdv
          simp only [hu, hf] at hz
          have hall := findVariant_none_all vs 0 n hf
          simp [encSumOther, hb, hall, zipOpt_iso o ho xs ws hz hws, mkArray]
        | some q =>
          obtain ⟨pos, fs⟩ := q
          simp only [hf, Option.map_eq_some_iff] at hdv
          obtain ⟨ws, hws, rfl⟩ := hdv
          obtain ⟨m, hm, _, hg⟩ := findVariant_some vs 0 pos n fs hf
          have : m = n := by omega
          subst this
          simp only [Nat.sub_zero] at hg
          simp only [hu, hf] at hz
          have hlt : pos < vs.length := by
            rcases Nat.lt_or_ge pos vs.length with h' | h'
            · exact h'
            · simp [List.getElem?_eq_none h'] at hg
          have hz' := zipOpt_iso fs (hc (m, fs) (List.mem_of_getElem? hg)) xs ws hz hws
          simp only [encSumOther, hlt, if_true, encSumFixed, hg, hz', Option.map_some, mkArray, List.length_cons]
      · simp at hdv

/-! ## `codec_by_datatype!` -/

theorem findAltByTy_mem : ∀ (alts : List (Nat × List Ty × Schema)) t p s, findAltByTy t alts = some (p, s) →
    ∃ tys, (p, tys, s) ∈ alts := by
  intro alts
  induction alts with
  | nil => intro t p s h; simp [findAltByTy] at h
  | cons a r ih =>
    intro t p s h
    obtain ⟨p', tys, s'⟩ := a
    simp only [findAltByTy] at h
    split at h
    · simp only [Option.some.injEq, Prod.mk.injEq] at h
      obtain ⟨rfl, rfl⟩ := h
      exact ⟨tys, by simp⟩
    · obtain ⟨tys', hm⟩ := ih t p s h
      exact ⟨tys', by simp [hm]⟩

theorem findAltByPos_distinct : ∀ (alts : List (Nat × List Ty × Schema)) p tys s,
    distinctNats (alts.map (·.1)) = true → (p, tys, s) ∈ alts → findAltByPos p alts = some s := by
  intro alts
  induction alts with
  | nil => intro p tys s _ h; simp at h
  | cons a r ih =>
    intro p tys s hd hm
    obtain ⟨p', tys', s'⟩ := a
    simp only [List.map_cons, distinctNats_cons] at hd
    simp only [List.mem_cons, Prod.mk.injEq] at hm
    simp only [findAltByPos]
    rcases hm with ⟨rfl, _, rfl⟩ | hm
    · simp
    · have hne : ¬ p' = p := by
        intro e
        subst e
        exact hd.1 (List.mem_map.mpr ⟨(p', tys, s), hm, rfl⟩)
      simp only [hne, if_false]
      exact ih p tys s hd.2 hm

theorem distinctNats_append_left : ∀ (a b : List Nat), distinctNats (a ++ b) = true → distinctNats a = true ∧ ∀ x, x ∈ a → x ∉ b := by
  intro a
  induction a with
  | nil => intro b _; exact ⟨rfl, by simp⟩
  | cons n r ih =>
    intro b h
    simp only [List.cons_append, distinctNats_cons, List.mem_append, not_or] at h
    obtain ⟨h1, h2⟩ := ih b h.2
    refine ⟨by rw [distinctNats_cons]; exact ⟨h.1.1, h1⟩, ?_⟩
    intro x hx
    simp only [List.mem_cons] at hx
    rcases hx with rfl | hx
    · exact h.1.2
    · exact h2 x hx

theorem iso_byType {e : Schema → Value → Option Item} {d : Schema → Item → Option Value} {c : Schema → Item → Bool}
    (alts : List (Nat × List Ty × Schema)) (many : Option (Nat × List Schema))
    (hd : distinctNats (alts.map (·.1) ++ (match many with | some m => [m.1] | none => [])) = true)
    (hc : ∀ a, a ∈ alts → ∀ x, c a.2.2 x = true → Iso (e a.2.2) (d a.2.2) x)
    (hcm : ∀ mp ms, many = some (mp, ms) → ∀ s, s ∈ ms → ∀ x, c s x = true → Iso (e s) (d s) x)
    (it : Item) (h : canonByType c alts many it = true) : Iso (encByType e alts many) (decByType d alts many) it := by
  obtain ⟨hda, hdm⟩ := distinctNats_append_left _ _ hd
  -- the single-payload path
  have one : ∀ v, canonByType c alts many it = true → decByTypeOne d alts it = some v →
      (∀ mp ms, many = some (mp, ms) → typeOf it ≠ .array) → encByType e alts many v = some it := by
    intro v hcn hdv hna
    simp only [decByTypeOne] at hdv
    cases hf : findAltByTy (typeOf it) alts with
    | none => simp [hf] at hdv
    | some q =>
      obtain ⟨p, s⟩ := q
      simp only [hf, Option.map_eq_some_iff] at hdv
      obtain ⟨w, hw, rfl⟩ := hdv
      obtain ⟨tys, hm⟩ := findAltByTy_mem alts _ p s hf
      have hpos := findAltByPos_distinct alts p tys s hda hm
      have hcs : c s it = true := by
        cases many with
        | none => simpa [canonByType, hf] using hcn
        | some q2 =>
          obtain ⟨mp, ms⟩ := q2
          have := hna mp ms rfl
          simpa [canonByType, this, hf] using hcn
      have hx := hc (p, tys, s) hm it hcs w hw
      cases many with
      | none => simp [encByType, hpos, hx]
      | some q2 =>
        obtain ⟨mp, ms⟩ := q2
        have hne : ¬ mp = p := by
          intro e2
          subst e2
          exact hdm mp (List.mem_map.mpr ⟨(mp, tys, s), hm, rfl⟩) (by simp)
        simp [encByType, hne, hpos, hx]
  intro v hdv
  cases hmn : many with
  | none =>
    subst hmn
    simp only [decByType] at hdv
    exact one v h hdv (fun _ _ hh => by cases hh)
  | some q =>
    obtain ⟨mp, ms⟩ := q
    subst hmn
    simp only [decByType] at hdv
    split at hdv
    · rename_i harr
      simp only [canonByType, harr, if_true] at h
      cases it <;> simp only [canonTuple] at h <;> try (simp at h; done)
      case seq hd2 xs =>
        simp only [Bool.and_eq_true, beq_iff_eq, decide_eq_true_eq] at h
        obtain ⟨⟨e1, hl⟩, hz⟩ := h
        simp only [Option.map_eq_some_iff] at hdv
        obtain ⟨ws, hws, rfl⟩ := hdv
        simp [encByType, zipOpt_iso ms (hcm mp ms rfl) xs ws hz hws, mkArray, e1]
    · rename_i harr
      exact one v h hdv (fun _ _ _ => harr)

end PallasVerif.Schema
