import PallasVerif.Proofs.NetCodec
/-!
`Decoder::skip` (the counting loop of minicbor 0.26.5, `Model/NetCodec.skipLoop`) goes over exactly
one item — proved here for every well-formed item that has no indefinite-length array or map inside
(`skippable`; text strings must be UTF-8 because `skip` validates them). On that fragment the loop
never leaves its counting mode: `nrounds` = number of item heads still to be read, `irounds = 0`,
empty stack. Unbounded nesting depth, widths and lengths; the only size assumption is that the number
of heads is below `2^64` (saturating arithmetic of the counter), which any input slice satisfies.
-/
namespace PallasVerif.NetCodec
open PallasVerif.Cbor

def chunkTextOk (m : Nat) : List (Head × Bytes) → Bool
  | [] => true
  | (_, bs) :: cs => (decide (m ≠ 3) || utf8Valid bs) && chunkTextOk m cs

mutual
/-- no indefinite array / map anywhere, text is UTF-8 -/
def skippable : Item → Bool
  | .atom _ => true
  | .str h bs => decide (h.major ≠ 3) || utf8Valid bs
  | .strIndef m cs => chunkTextOk m cs
  | .seq _ xs => skippableList xs
  | .seqIndef _ _ => false
  | .tag _ i => skippable i
def skippableList : List Item → Bool
  | [] => true
  | x :: xs => skippable x && skippableList xs
end

mutual
/-- number of heads the loop reads (an indefinite string is one round) -/
def heads : Item → Nat
  | .atom _ => 1
  | .str _ _ => 1
  | .strIndef _ _ => 1
  | .seq _ xs => 1 + headsList xs
  | .seqIndef _ xs => 1 + headsList xs
  | .tag _ i => 1 + heads i
def headsList : List Item → Nat
  | [] => 0
  | x :: xs => heads x + headsList xs
end

theorem heads_pos : ∀ i : Item, 1 ≤ heads i
  | .atom _ | .str _ _ | .strIndef _ _ => by simp [heads]
  | .seq _ _ | .seqIndef _ _ | .tag _ _ => by simp [heads]

theorem length_le_headsList : ∀ xs : List Item, xs.length ≤ headsList xs
  | [] => by simp [headsList]
  | x :: xs => by have := heads_pos x; have := length_le_headsList xs; simp [headsList]; omega

theorem headsList_append (xs ys : List Item) : headsList (xs ++ ys) = headsList xs + headsList ys := by
  induction xs with
  | nil => simp [headsList]
  | cons x xs ih => simp [headsList, ih]; omega

theorem encodeList_append (xs ys : List Item) : Cbor.encodeList (xs ++ ys) = Cbor.encodeList xs ++ Cbor.encodeList ys := by
  induction xs with
  | nil => simp [Cbor.encodeList]
  | cons x xs ih => simp [Cbor.encodeList, ih]

theorem wfList_append (xs ys : List Item) : Cbor.wfList (xs ++ ys) = (Cbor.wfList xs && Cbor.wfList ys) := by
  induction xs with
  | nil => simp [Cbor.wfList]
  | cons x xs ih => simp [Cbor.wfList, ih, Bool.and_assoc]

theorem skippableList_append (xs ys : List Item) : skippableList (xs ++ ys) = (skippableList xs && skippableList ys) := by
  induction xs with
  | nil => simp [skippableList]
  | cons x xs ih => simp [skippableList, ih, Bool.and_assoc]

/-- first byte of a well-formed head -/
theorem head_byte (h : Head) (hw : h.wf = true) :
    (initByte h.major h.ai).toNat = h.major * 32 + h.ai ∧ h.major < 8 ∧ h.ai < 32 := by
  rw [Head.wf_iff] at hw
  exact ⟨initByte_toNat _ _ hw.1 hw.2.1, hw.1, hw.2.1⟩

theorem wf_ai_le_27 (h : Head) (hw : h.wf = true) (h31 : h.ai ≠ 31) : h.ai ≤ 27 := by
  rw [Head.wf_iff] at hw
  obtain ⟨_, _, hl⟩ := hw
  unfold argLen at hl
  repeat' split at hl
  all_goals first | omega | simp at hl

/-! ### one round for each kind of head -/

theorem skipChunks_ok (m : Nat) (hm : m = 2 ∨ m = 3) (cs : List (Head × Bytes)) (r : Bytes) (fuel : Nat)
    (hw : chunksWf m cs = true) (ht : chunkTextOk m cs = true) (hf : cs.length < fuel) :
    skipChunks m fuel (encodeChunks cs ++ 0xff :: r) = .ok () r := by
  induction cs generalizing fuel with
  | nil =>
    cases fuel with
    | zero => omega
    | succ fuel => simp [skipChunks, encodeChunks]
  | cons c cs ih =>
    obtain ⟨h, bs⟩ := c
    cases fuel with
    | zero => omega
    | succ fuel =>
      simp only [chunksWf, chunkWf, Bool.and_eq_true, decide_eq_true_eq] at hw
      obtain ⟨⟨⟨⟨hhw, hmaj⟩, hai⟩, hlen⟩, hrest⟩ := hw
      simp only [chunkTextOk, Bool.and_eq_true, Bool.or_eq_true, decide_eq_true_eq] at ht
      obtain ⟨hb, hm8, ha32⟩ := head_byte h hhw
      have hne : initByte h.major h.ai ≠ 0xff := initByte_ne_break _ _ hm8 ha32 (by omega)
      simp only [encodeChunks, Head.encode, List.cons_append, List.append_assoc, skipChunks, hne, if_false]
      have hds : defStr m (initByte h.major h.ai :: (h.arg ++ (bs ++ (encodeChunks cs ++ 0xff :: r)))) =
          .ok bs (encodeChunks cs ++ 0xff :: r) := by
        simp only [defStr, major, info, hb]
        have e1 : (h.major * 32 + h.ai) / 32 = m := by omega
        have e2 : (h.major * 32 + h.ai) % 32 = h.ai := by omega
        simp only [e1, e2, ne_eq, not_true_eq_false, hai, or_self, if_false]
        rw [unsignedArg_head h hhw hai]
        simp only [Res.bind_ok]
        rw [← hlen]; exact readN_append bs _
      rw [hds]
      simp only [Res.bind_ok]
      have : ¬ (m = 3 ∧ ¬ utf8Valid bs = true) := by
        rcases ht.1 with h1 | h1
        · exact fun h2 => h1 h2.1
        · exact fun h2 => h2.2 h1
      simp only [this, if_false]
      exact ih fuel hrest ht.2 (by simpa using hf)

/-- state after a completed item in counting mode -/
theorem skipTail_count (nr : Nat) (h : nr ≠ 0) : skipTail nr 0 [] = some (nr - 1, 0, []) := by
  simp [skipTail, h]

/-- **skip over a list of items in counting mode**: with `nrounds = xs.length`, no pending breaks and
    an empty stack, the loop consumes exactly the encodings of `xs`. -/
theorem skipLoop_items : ∀ (n : Nat) (xs : List Item) (r : Bytes) (fuel : Nat),
    headsList xs = n → Cbor.wfList xs = true → skippableList xs = true → n < fuel → n < 2 ^ 64 →
    skipLoop fuel xs.length 0 [] (Cbor.encodeList xs ++ r) = .ok () r := by
  intro n
  induction n using Nat.strongRecOn with
  | _ n ih =>
    intro xs r fuel hn hw hs hf h64
    cases xs with
    | nil =>
      cases fuel with
      | zero => omega
      | succ fuel => simp [skipLoop, Cbor.encodeList]
    | cons x rest =>
      cases fuel with
      | zero => omega
      | succ fuel =>
        simp only [Cbor.wfList, Bool.and_eq_true] at hw
        simp only [skippableList, Bool.and_eq_true] at hs
        simp only [headsList] at hn
        have hlen := length_le_headsList rest
        have hpos := heads_pos x
        -- the loop condition holds: at least one item is pending
        have hcond : ¬ (rest.length + 1 = 0 ∧ (0 : Nat) = 0 ∧ ([] : List (Option Nat)).isEmpty = true) := by simp
        -- what happens after an item that is complete once its head (and payload) is read
        have after : ∀ (bs : Bytes), bs = Cbor.encodeList rest ++ r →
            (match skipTail (rest.length + 1) 0 [] with
              | none => Res.ok () bs
              | some (nr', ir', st') => skipLoop fuel nr' ir' st' bs) = .ok () r := by
          intro bs hbs
          rw [skipTail_count _ (by omega)]
          simp only [Nat.add_sub_cancel, hbs]
          exact ih (headsList rest) (by omega) rest r fuel rfl hw.2 hs.2 (by omega) (by omega)
        cases x with
        | atom h =>
          simp only [Item.wf, Bool.and_eq_true, Bool.or_eq_true, decide_eq_true_eq] at hw
          obtain ⟨⟨⟨hhw, hmaj⟩, hai⟩, _⟩ := hw
          obtain ⟨hb, hm8, ha32⟩ := head_byte h hhw
          have h27 := wf_ai_le_27 h hhw hai
          simp only [Cbor.encodeList, Item.encode, Head.encode, List.cons_append, List.append_assoc, List.length_cons,
            skipLoop, hcond, if_false, hb]
          rcases hmaj with (hm | hm) | hm
          · -- unsigned
            have c1 : h.major * 32 + h.ai ≤ 0x1b := by omega
            simp only [c1, if_true]
            have : u64 (initByte h.major h.ai :: (h.arg ++ (Cbor.encodeList rest ++ r))) = .ok h.val (Cbor.encodeList rest ++ r) := by
              simp only [u64, major, info, hb]
              have e1 : (h.major * 32 + h.ai) / 32 = 0 := by omega
              have e2 : (h.major * 32 + h.ai) % 32 = h.ai := by omega
              simp only [e1, e2, if_true]
              exact unsignedArg_head h hhw hai _ _
            rw [this]; simp only [Res.bind_ok]
            exact after _ rfl
          · -- negative
            have c1 : ¬ h.major * 32 + h.ai ≤ 0x1b := by omega
            have c2 : 0x20 ≤ h.major * 32 + h.ai ∧ h.major * 32 + h.ai ≤ 0x3b := by omega
            simp only [c1, c2, if_false, and_self, if_true, info, hb]
            have e2 : (h.major * 32 + h.ai) % 32 = h.ai := by omega
            rw [e2, unsignedArg_head h hhw hai]; simp only [Res.bind_ok]
            exact after _ rfl
          · -- simple / float
            have c1 : ¬ h.major * 32 + h.ai ≤ 0x1b := by omega
            have c2 : ¬ (0x20 ≤ h.major * 32 + h.ai ∧ h.major * 32 + h.ai ≤ 0x3b) := by omega
            have c3 : ¬ (0x40 ≤ h.major * 32 + h.ai ∧ h.major * 32 + h.ai ≤ 0x5f) := by omega
            have c4 : ¬ (0x60 ≤ h.major * 32 + h.ai ∧ h.major * 32 + h.ai ≤ 0x7f) := by omega
            have c5 : ¬ (0x80 ≤ h.major * 32 + h.ai ∧ h.major * 32 + h.ai ≤ 0x9f) := by omega
            have c6 : ¬ (0xa0 ≤ h.major * 32 + h.ai ∧ h.major * 32 + h.ai ≤ 0xbf) := by omega
            have c7 : ¬ (0xc0 ≤ h.major * 32 + h.ai ∧ h.major * 32 + h.ai ≤ 0xdb) := by omega
            have c8 : 0xe0 ≤ h.major * 32 + h.ai ∧ h.major * 32 + h.ai ≤ 0xfb := by omega
            simp only [c1, c2, c3, c4, c5, c6, c7, c8, if_false, and_self, if_true, info, hb]
            have e2 : (h.major * 32 + h.ai) % 32 = h.ai := by omega
            rw [e2, unsignedArg_head h hhw hai]; simp only [Res.bind_ok]
            exact after _ rfl
        | str h bs =>
          simp only [Item.wf, Bool.and_eq_true, Bool.or_eq_true, decide_eq_true_eq] at hw
          obtain ⟨⟨⟨⟨hhw, hmaj⟩, hai⟩, hl⟩, _⟩ := hw
          obtain ⟨hb, hm8, ha32⟩ := head_byte h hhw
          have h27 := wf_ai_le_27 h hhw hai
          have hsk := hs.1
          simp only [skippable, Bool.or_eq_true, decide_eq_true_eq] at hsk
          simp only [Cbor.encodeList, Item.encode, Head.encode, List.cons_append, List.append_assoc, List.length_cons,
            skipLoop, hcond, if_false, hb]
          have e2 : (h.major * 32 + h.ai) % 32 = h.ai := by omega
          have hstr : ∀ m, h.major = m → skipStr m (initByte h.major h.ai :: (h.arg ++ (bs ++ (Cbor.encodeList rest ++ r)))) =
              .ok () (Cbor.encodeList rest ++ r) := by
            intro m hm
            simp only [skipStr, info, hb, e2, hai, if_false]
            rw [unsignedArg_head h hhw hai]; simp only [Res.bind_ok]
            rw [← hl, readN_append]; simp only [Res.bind_ok]
            have : ¬ (m = 3 ∧ ¬ utf8Valid bs = true) := by
              rcases hsk with h1 | h1
              · exact fun h2 => h1 (hm ▸ h2.1)
              · exact fun h2 => h2.2 h1
            simp only [this, if_false]
          rcases hmaj with hm | hm
          · have c1 : ¬ h.major * 32 + h.ai ≤ 0x1b := by omega
            have c2 : ¬ (0x20 ≤ h.major * 32 + h.ai ∧ h.major * 32 + h.ai ≤ 0x3b) := by omega
            have c3 : 0x40 ≤ h.major * 32 + h.ai ∧ h.major * 32 + h.ai ≤ 0x5f := by omega
            simp only [c1, c2, c3, if_false, and_self, if_true]
            rw [hstr 2 hm]; simp only [Res.bind_ok]
            exact after _ rfl
          · have c1 : ¬ h.major * 32 + h.ai ≤ 0x1b := by omega
            have c2 : ¬ (0x20 ≤ h.major * 32 + h.ai ∧ h.major * 32 + h.ai ≤ 0x3b) := by omega
            have c3 : ¬ (0x40 ≤ h.major * 32 + h.ai ∧ h.major * 32 + h.ai ≤ 0x5f) := by omega
            have c4 : 0x60 ≤ h.major * 32 + h.ai ∧ h.major * 32 + h.ai ≤ 0x7f := by omega
            simp only [c1, c2, c3, c4, if_false, and_self, if_true]
            rw [hstr 3 hm]; simp only [Res.bind_ok]
            exact after _ rfl
        | strIndef m cs =>
          simp only [Item.wf, Bool.and_eq_true, Bool.or_eq_true, decide_eq_true_eq] at hw
          obtain ⟨⟨hmaj, hcw⟩, _⟩ := hw
          have hsk := hs.1
          simp only [skippable] at hsk
          have hcl := encodeChunks_length cs
          have hcond' : ¬ (rest.length + 1 = 0 ∧ True ∧ ([] : List (Option Nat)).isEmpty = true) := by simp
          have hstr : skipStr m (initByte m 31 :: (encodeChunks cs ++ 0xff :: (Cbor.encodeList rest ++ r))) =
              .ok () (Cbor.encodeList rest ++ r) := by
            have hb := initByte_toNat m 31 (by omega) (by omega)
            have e2 : (m * 32 + 31) % 32 = 31 := by omega
            simp only [skipStr, info, hb, e2, if_true]
            exact skipChunks_ok m hmaj cs _ _ hcw hsk (by simp only [List.length_append, List.length_cons]; omega)
          rcases hmaj with hm | hm <;> subst hm
          · have hb : (initByte 2 31).toNat = 95 := by decide
            have c1 : ¬ ((95 : Nat) ≤ 0x1b) := by omega
            have c2 : ¬ (0x20 ≤ (95 : Nat) ∧ (95 : Nat) ≤ 0x3b) := by omega
            have c3 : 0x40 ≤ (95 : Nat) ∧ (95 : Nat) ≤ 0x5f := by omega
            simp only [Cbor.encodeList, Item.encode, List.cons_append, List.append_assoc, List.nil_append, List.length_cons,
              skipLoop, hcond, hcond', if_false, hb, c1, c2, c3, and_self, if_true, hstr, Res.bind_ok]
            exact after _ rfl
          · have hb : (initByte 3 31).toNat = 127 := by decide
            have c1 : ¬ ((127 : Nat) ≤ 0x1b) := by omega
            have c2 : ¬ (0x20 ≤ (127 : Nat) ∧ (127 : Nat) ≤ 0x3b) := by omega
            have c3 : ¬ (0x40 ≤ (127 : Nat) ∧ (127 : Nat) ≤ 0x5f) := by omega
            have c4 : 0x60 ≤ (127 : Nat) ∧ (127 : Nat) ≤ 0x7f := by omega
            simp only [Cbor.encodeList, Item.encode, List.cons_append, List.append_assoc, List.nil_append, List.length_cons,
              skipLoop, hcond, hcond', if_false, hb, c1, c2, c3, c4, and_self, if_true, hstr, Res.bind_ok]
            exact after _ rfl
        | seqIndef m ys => simp [skippable] at hs
        | tag h i =>
          simp only [Item.wf, Bool.and_eq_true, decide_eq_true_eq] at hw
          obtain ⟨⟨⟨⟨hhw, hmaj⟩, hai⟩, hiw⟩, hrw⟩ := hw
          obtain ⟨hb, hm8, ha32⟩ := head_byte h hhw
          have h27 := wf_ai_le_27 h hhw hai
          have hsk := hs.1
          simp only [skippable] at hsk
          simp only [heads] at hn
          simp only [Cbor.encodeList, Item.encode, Head.encode, List.cons_append, List.append_assoc, List.length_cons,
            skipLoop, hcond, if_false, hb]
          have c1 : ¬ h.major * 32 + h.ai ≤ 0x1b := by omega
          have c2 : ¬ (0x20 ≤ h.major * 32 + h.ai ∧ h.major * 32 + h.ai ≤ 0x3b) := by omega
          have c3 : ¬ (0x40 ≤ h.major * 32 + h.ai ∧ h.major * 32 + h.ai ≤ 0x5f) := by omega
          have c4 : ¬ (0x60 ≤ h.major * 32 + h.ai ∧ h.major * 32 + h.ai ≤ 0x7f) := by omega
          have c5 : ¬ (0x80 ≤ h.major * 32 + h.ai ∧ h.major * 32 + h.ai ≤ 0x9f) := by omega
          have c6 : ¬ (0xa0 ≤ h.major * 32 + h.ai ∧ h.major * 32 + h.ai ≤ 0xbf) := by omega
          have c7 : 0xc0 ≤ h.major * 32 + h.ai ∧ h.major * 32 + h.ai ≤ 0xdb := by omega
          have e2 : (h.major * 32 + h.ai) % 32 = h.ai := by omega
          simp only [c1, c2, c3, c4, c5, c6, c7, if_false, and_self, if_true, info, hb, e2]
          rw [unsignedArg_head h hhw hai]; simp only [Res.bind_ok]
          -- `continue`: same counters, the tagged item is now the first pending one
          have := ih (headsList (i :: rest)) (by simp only [headsList]; omega) (i :: rest) r fuel rfl
            (by simp [Cbor.wfList, hiw, hrw]) (by simp [skippableList, hsk, hs.2]) (by simp only [headsList]; omega)
            (by simp only [headsList]; omega)
          simpa [Cbor.encodeList] using this
        | seq h ys =>
          simp only [Item.wf, Bool.and_eq_true, Bool.or_eq_true, decide_eq_true_eq] at hw
          obtain ⟨⟨⟨⟨⟨hhw, hmaj⟩, hai⟩, hcount⟩, hyw⟩, hrw⟩ := hw
          obtain ⟨hb, hm8, ha32⟩ := head_byte h hhw
          have h27 := wf_ai_le_27 h hhw hai
          have hsk := hs.1
          simp only [skippable] at hsk
          simp only [heads] at hn
          have hylen := length_le_headsList ys
          simp only [Cbor.encodeList, Item.encode, Head.encode, List.cons_append, List.append_assoc, List.length_cons,
            skipLoop, hcond, if_false, hb]
          have e1 : (h.major * 32 + h.ai) / 32 = h.major := by omega
          have e2 : (h.major * 32 + h.ai) % 32 = h.ai := by omega
          have hcont : ∀ m, h.major = m → container m (initByte h.major h.ai :: (h.arg ++ (Cbor.encodeList ys ++ (Cbor.encodeList rest ++ r)))) =
              .ok (some h.val) (Cbor.encodeList ys ++ (Cbor.encodeList rest ++ r)) := by
            intro m hm
            subst hm
            simp only [container, major, info, hb, e1, e2, ne_eq, not_true_eq_false, if_false, hai]
            rw [unsignedArg_head h hhw hai]; rfl
          -- the continuation after the container head, for an announced number `cnt = ys.length` of items
          have cont : ∀ cnt, cnt = ys.length → cnt ≤ U64MAX →
              (let (nr', ir', st') := skipOpen (some cnt) (rest.length + 1) 0 []
               match skipTail nr' ir' st' with
               | none => Res.ok () (Cbor.encodeList ys ++ (Cbor.encodeList rest ++ r))
               | some (a, b, c) => skipLoop fuel a b c (Cbor.encodeList ys ++ (Cbor.encodeList rest ++ r))) = .ok () r := by
            intro cnt hc hmax
            have target := ih (headsList (ys ++ rest)) (by rw [headsList_append]; omega) (ys ++ rest) r fuel rfl
              (by rw [wfList_append]; simp [hyw, hrw]) (by rw [skippableList_append]; simp [hsk, hs.2])
              (by rw [headsList_append]; omega) (by rw [headsList_append]; omega)
            rw [encodeList_append, List.append_assoc] at target
            cases hcz : cnt with
            | zero =>
              have : ys = [] := List.eq_nil_of_length_eq_zero (by omega)
              subst this
              simp only [skipOpen]
              rw [skipTail_count _ (by omega)]
              simpa using target
            | succ k =>
              have hz : ¬ (rest.length + 1 = 0) := by omega
              have hsat : satAdd (rest.length + 1) (k + 1) = rest.length + 1 + (k + 1) := by
                unfold satAdd U64MAX; rw [if_neg]; unfold U64MAX at hmax; omega
              simp only [skipOpen, hz, false_and, if_false, hsat]
              rw [skipTail_count _ (by omega)]
              have : rest.length + 1 + (k + 1) - 1 = (ys ++ rest).length := by
                simp only [List.length_append]; omega
              simp only [this]
              exact target
          rcases hmaj with hm | hm
          · have c1 : ¬ h.major * 32 + h.ai ≤ 0x1b := by omega
            have c2 : ¬ (0x20 ≤ h.major * 32 + h.ai ∧ h.major * 32 + h.ai ≤ 0x3b) := by omega
            have c3 : ¬ (0x40 ≤ h.major * 32 + h.ai ∧ h.major * 32 + h.ai ≤ 0x5f) := by omega
            have c4 : ¬ (0x60 ≤ h.major * 32 + h.ai ∧ h.major * 32 + h.ai ≤ 0x7f) := by omega
            have c5 : 0x80 ≤ h.major * 32 + h.ai ∧ h.major * 32 + h.ai ≤ 0x9f := by omega
            simp only [c1, c2, c3, c4, c5, if_false, and_self, if_true, array]
            rw [hcont 4 hm]; simp only [Res.bind_ok]
            have hv : h.val = ys.length := by simp [seqCount, hm] at hcount; omega
            exact cont h.val hv (by unfold U64MAX; omega)
          · have c1 : ¬ h.major * 32 + h.ai ≤ 0x1b := by omega
            have c2 : ¬ (0x20 ≤ h.major * 32 + h.ai ∧ h.major * 32 + h.ai ≤ 0x3b) := by omega
            have c3 : ¬ (0x40 ≤ h.major * 32 + h.ai ∧ h.major * 32 + h.ai ≤ 0x5f) := by omega
            have c4 : ¬ (0x60 ≤ h.major * 32 + h.ai ∧ h.major * 32 + h.ai ≤ 0x7f) := by omega
            have c5 : ¬ (0x80 ≤ h.major * 32 + h.ai ∧ h.major * 32 + h.ai ≤ 0x9f) := by omega
            have c6 : 0xa0 ≤ h.major * 32 + h.ai ∧ h.major * 32 + h.ai ≤ 0xbf := by omega
            simp only [c1, c2, c3, c4, c5, c6, if_false, and_self, if_true, map]
            rw [hcont 5 hm]; simp only [Res.bind_ok, Option.map_some]
            have hv : 2 * h.val = ys.length := by simp [seqCount, hm] at hcount; omega
            have hs2 : satMul2 h.val = 2 * h.val := by unfold satMul2 U64MAX; rw [if_neg]; omega
            rw [hs2]
            exact cont (2 * h.val) hv (by unfold U64MAX; omega)

mutual
theorem heads_le_length : ∀ i : Item, heads i ≤ i.encode.length
  | .atom h => by have := Head.encode_length_pos h; simp [heads, Item.encode]; omega
  | .str h bs => by have := Head.encode_length_pos h; simp [heads, Item.encode]; omega
  | .strIndef m cs => by simp [heads, Item.encode]
  | .seq h xs => by
    have := Head.encode_length_pos h; have := headsList_le_length xs; simp [heads, Item.encode]; omega
  | .seqIndef m xs => by have := headsList_le_length xs; simp [heads, Item.encode]; omega
  | .tag h i => by
    have := Head.encode_length_pos h; have := heads_le_length i; simp [heads, Item.encode]; omega
theorem headsList_le_length : ∀ xs : List Item, headsList xs ≤ (Cbor.encodeList xs).length
  | [] => by simp [headsList]
  | x :: xs => by have := heads_le_length x; have := headsList_le_length xs; simp [headsList, Cbor.encodeList]; omega
end

/-- **`skip` is exact** on a well-formed item without indefinite containers (and shorter than
    `2^64` bytes, as every slice is): it consumes the item and nothing else, whatever follows. -/
theorem skip_exact_of_skippable (i : Item) (hw : i.wf = true) (hs : skippable i = true)
    (hlen : i.encode.length < 2 ^ 64) : SkipExact i.encode := by
  intro r
  have hl := heads_le_length i
  have := skipLoop_items (headsList [i]) [i] r ((i.encode ++ r).length + 1) rfl
    (by simp [Cbor.wfList, hw]) (by simp [skippableList, hs])
    (by simp only [headsList, List.length_append]; omega) (by simp only [headsList]; omega)
  simpa [skip, Cbor.encodeList] using this

end PallasVerif.NetCodec
