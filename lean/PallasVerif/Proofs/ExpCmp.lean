import PallasVerif.Model.RefMath
import PallasVerif.Proofs.Decimal
/-! Loop invariant of `ref_exp_cmp` (core Lean only): the loop state after `n` iterations is
    `(psum x n, (n+1)·10^34, tterm x n)` where `tterm x i` is the fixed-point Taylor term
    `≈ x^(i+1)/(i+1)!` as the code computes it (floor `scale`, truncating `div`). -/
namespace PallasVerif.Proofs.ExpCmp
open PallasVerif.Decimal PallasVerif.RefMath PallasVerif.Proofs.Decimal

/-- the `error` variable after `i` iterations -/
def tterm (x : Int) : Nat → Int
  | 0 => x
  | i + 1 => (scale (tterm x i * x) * P).tdiv (((i : Int) + 2) * P)

/-- the `rop` variable after `n` iterations: `1 + Σ_{i<n} tterm x i` -/
def psum (x : Int) : Nat → Int
  | 0 => ONE
  | n + 1 => psum x n + tterm x n

theorem divisor_ne (i : Nat) : ((i : Int) + 2) * P ≠ 0 := by
  have := P_pos
  have : 0 < ((i : Int) + 2) * P := Int.mul_pos (by omega) P_pos
  omega

/-- the result of the loop started in the invariant state -/
structure LoopPost (fixed : Bool) (x bound cmp : Int) (n fuel : Nat) (r : CmpRes) : Prop where
  approx : r.approx = psum x r.iterations
  lo : n ≤ r.iterations
  hi : r.iterations ≤ n + fuel
  gt : r.estimation = .gt → n < r.iterations ∧
        cmp > r.approx + errorTermOf fixed (tterm x r.iterations) bound ∧
        ¬ absLt (tterm x (r.iterations - 1)) EPS = true
  lt : r.estimation = .lt → n < r.iterations ∧
        cmp < r.approx - errorTermOf fixed (tterm x r.iterations) bound ∧
        ¬ cmp > r.approx + errorTermOf fixed (tterm x r.iterations) bound ∧
        ¬ absLt (tterm x (r.iterations - 1)) EPS = true
  unknown : r.estimation = .unknown →
        r.iterations = n + fuel ∨ absLt (tterm x r.iterations) EPS = true

theorem divisor_step (n : Nat) : ((n : Int) + 1) * P + ONE = ((n : Int) + 2) * P := by
  simp only [ONE]; rw [Int.add_mul, Int.add_mul]; omega

/-- one iteration from the invariant state -/
theorem loop_step (fixed : Bool) (x bound cmp : Int) (fuel n : Nat) :
    expCmpLoop fixed x bound cmp (fuel + 1) n (psum x n) (((n : Int) + 1) * P) (tterm x n) =
      if absLt (tterm x n) EPS then some ⟨n, .unknown, psum x n⟩
      else if cmp > psum x (n + 1) + errorTermOf fixed (tterm x (n + 1)) bound then
        some ⟨n + 1, .gt, psum x (n + 1)⟩
      else if cmp < psum x (n + 1) - errorTermOf fixed (tterm x (n + 1)) bound then
        some ⟨n + 1, .lt, psum x (n + 1)⟩
      else expCmpLoop fixed x bound cmp fuel (n + 1) (psum x (n + 1))
        ((((n + 1 : Nat) : Int) + 1) * P) (tterm x (n + 1)) := by
  rw [expCmpLoop]
  simp only [divisor_step, div_eq_tdiv _ _ (divisor_ne n)]
  have hd2 : ((n : Int) + 2) * P = (((n + 1 : Nat) : Int) + 1) * P := by
    congr 1
  simp only [tterm, psum, hd2]

theorem loop_spec (fixed : Bool) (x bound cmp : Int) (fuel n : Nat) :
    ∃ r, expCmpLoop fixed x bound cmp fuel n (psum x n) (((n : Int) + 1) * P) (tterm x n) = some r ∧
      LoopPost fixed x bound cmp n fuel r := by
  induction fuel generalizing n with
  | zero =>
    exact ⟨⟨n, .unknown, psum x n⟩, rfl, ⟨rfl, Nat.le_refl _, Nat.le_refl _, by simp, by simp,
      fun _ => Or.inl rfl⟩⟩
  | succ fuel ih =>
    rw [loop_step]
    split
    · rename_i hb
      exact ⟨⟨n, .unknown, psum x n⟩, rfl, ⟨rfl, Nat.le_refl _, by simp, by simp, by simp,
        fun _ => Or.inr hb⟩⟩
    · rename_i hb
      split
      · rename_i h1
        exact ⟨_, rfl, ⟨rfl, by simp, by simp, fun _ => ⟨by simp, h1, by simpa using hb⟩,
          by simp, by simp⟩⟩
      · rename_i h1
        split
        · rename_i h2
          exact ⟨_, rfl, ⟨rfl, by simp, by simp, by simp,
            fun _ => ⟨by simp, h2, h1, by simpa using hb⟩, by simp⟩⟩
        · obtain ⟨r, hr, post⟩ := ih (n + 1)
          refine ⟨r, hr, ⟨post.approx, by have := post.lo; omega, by have := post.hi; omega, ?_, ?_, ?_⟩⟩
          · intro h; obtain ⟨a, b, c⟩ := post.gt h; exact ⟨by omega, b, c⟩
          · intro h; obtain ⟨a, b, c, d⟩ := post.lt h; exact ⟨by omega, b, c, d⟩
          · intro h; rcases post.unknown h with h | h
            · left; omega
            · right; exact h

theorem refExpCmp_spec (fixed : Bool) (maxN : Nat) (x bound cmp : Int) :
    ∃ r, expCmpLoop fixed x bound cmp maxN 0 ONE ONE x = some r ∧ LoopPost fixed x bound cmp 0 maxN r := by
  have := loop_spec fixed x bound cmp maxN 0
  simpa [psum, tterm, ONE] using this

/-- every fixed-point Taylor term of a non-negative argument is non-negative -/
theorem tterm_nonneg (x : Int) (hx : 0 ≤ x) (i : Nat) : 0 ≤ tterm x i := by
  induction i with
  | zero => exact hx
  | succ i ih =>
    simp only [tterm]
    have h1 : 0 ≤ scale (tterm x i * x) := by
      rw [scale_eq_ediv]; exact Int.ediv_nonneg (Int.mul_nonneg ih hx) (by have := P_pos; omega)
    exact Int.tdiv_nonneg (Int.mul_nonneg h1 (by have := P_pos; omega))
      (Int.mul_nonneg (by omega) (by have := P_pos; omega))

end PallasVerif.Proofs.ExpCmp
