import PallasVerif.Proofs.CborWrappers
/-! Fuel adequacy: `skip()` and the string iterators never run out of fuel, so the model-only outcome
    `diverge` is unreachable for them (the model is total in the same sense as the code). -/
namespace PallasVerif.Minicbor
open PallasVerif.Cbor

/-- `p` never reports the model-only `diverge` outcome -/
def NoDiverge {α : Type} (p : P α) : Prop := ∀ cur, p cur ≠ .err .diverge

theorem Res.andThen_eq_err {α β : Type} {x : Res α} {f : α → Bytes → Res β} {e : Err}
    (h : x.andThen f = .err e) : x = .err e ∨ ∃ a r, x = .ok a r ∧ f a r = .err e := by
  cases x with
  | ok a r => exact Or.inr ⟨a, r, rfl, h⟩
  | err e' => simp at h; exact Or.inl (by rw [h])

theorem Res.map_eq_err {α β : Type} {x : Res α} {f : α → β} {e : Err} (h : x.map f = .err e) : x = .err e := by
  cases x with
  | ok a r => simp at h
  | err e' => simp at h; rw [h]

theorem errTypeOf_ne_diverge (cur : Bytes) (b : UInt8) : errTypeOf cur b ≠ .diverge := by
  unfold errTypeOf
  cases h : typeOf cur b with
  | ok t => simp
  | error e => simp only; rw [typeOf_error cur b e h]; decide

theorem readBe_nd (w : Nat) : NoDiverge (readBe w) := by
  intro cur h; unfold readBe at h; split at h <;> cases h

theorem readSlice_nd (n : Nat) : NoDiverge (readSlice n) := by
  intro cur h; unfold readSlice at h; split at h <;> cases h

theorem unsigned_nd (ai : Nat) : NoDiverge (unsigned ai) := by
  intro cur h
  unfold unsigned at h
  repeat' split at h
  all_goals first | cases h | exact readBe_nd _ _ h

theorem uintN_nd (bits : Nat) : NoDiverge (uintN bits) := by
  intro cur h
  cases cur with
  | nil => simp [uintN] at h
  | cons b r =>
    simp only [uintN] at h
    split at h
    · rcases Res.andThen_eq_err h with e | ⟨n, r', _, e⟩
      · exact unsigned_nd _ _ e
      · split at e <;> cases e
    · simp only [Res.err.injEq] at h; exact errTypeOf_ne_diverge _ _ h

theorem int_nd : NoDiverge int := by
  intro cur h
  cases cur with
  | nil => simp [int] at h
  | cons b r =>
    simp only [int] at h
    split at h
    · exact unsigned_nd _ _ (Res.map_eq_err h)
    · split at h
      · exact unsigned_nd _ _ (Res.map_eq_err h)
      · simp only [Res.err.injEq] at h; exact errTypeOf_ne_diverge _ _ h

theorem bytes_nd : NoDiverge bytes := by
  intro cur h
  cases cur with
  | nil => simp [bytes] at h
  | cons b r =>
    simp only [bytes] at h
    split at h
    · simp only [Res.err.injEq] at h; exact errTypeOf_ne_diverge _ _ h
    · rcases Res.andThen_eq_err h with e | ⟨n, r', _, e⟩
      · exact unsigned_nd _ _ e
      · exact readSlice_nd _ _ e

theorem str_nd : NoDiverge str := by
  intro cur h
  cases cur with
  | nil => simp [str] at h
  | cons b r =>
    simp only [str] at h
    split at h
    · simp only [Res.err.injEq] at h; exact errTypeOf_ne_diverge _ _ h
    · rcases Res.andThen_eq_err h with e | ⟨n, r', _, e⟩
      · exact unsigned_nd _ _ e
      · rcases Res.andThen_eq_err e with e' | ⟨d, r'', _, e'⟩
        · exact readSlice_nd _ _ e'
        · split at e' <;> cases e'

/-- with fuel for every remaining byte the chunk loop never runs dry -/
theorem chunkLoop_nd (chunk : P Bytes) (hc : Consumes chunk) (hn : NoDiverge chunk) (fuel : Nat) :
    ∀ cur, cur.length + 1 ≤ fuel → chunkLoop chunk fuel cur ≠ .err .diverge := by
  induction fuel with
  | zero => intro cur hf; omega
  | succ f ih =>
    intro cur hf h
    cases cur with
    | nil => simp [chunkLoop] at h
    | cons b r =>
      simp only [chunkLoop] at h
      split at h
      · cases h
      · rcases Res.andThen_eq_err h with e | ⟨c, r', e1, e⟩
        · exact hn _ e
        · obtain ⟨c1, hne, h1⟩ := hc _ _ _ e1
          have hl : r'.length + 1 ≤ f := by
            have := congrArg List.length h1
            simp only [List.length_cons, List.length_append] at this hf
            have : 0 < c1.length := List.length_pos_iff.mpr hne
            omega
          exact ih r' hl (Res.map_eq_err e)

theorem bytesIter_nd : NoDiverge bytesIter := by
  intro cur h
  cases cur with
  | nil => simp [bytesIter] at h
  | cons b r =>
    simp only [bytesIter] at h
    split at h
    · simp only [Res.err.injEq] at h; exact errTypeOf_ne_diverge _ _ h
    · split at h
      · exact chunkLoop_nd bytes bytes_consumes bytes_nd _ r (by omega) h
      · rcases Res.andThen_eq_err h with e | ⟨n, r', _, e⟩
        · exact unsigned_nd _ _ e
        · exact readSlice_nd _ _ (Res.map_eq_err e)

theorem strIter_nd : NoDiverge strIter := by
  intro cur h
  cases cur with
  | nil => simp [strIter] at h
  | cons b r =>
    simp only [strIter] at h
    split at h
    · simp only [Res.err.injEq] at h; exact errTypeOf_ne_diverge _ _ h
    · split at h
      · exact chunkLoop_nd str str_consumes str_nd _ r (by omega) h
      · rcases Res.andThen_eq_err h with e | ⟨n, r', _, e⟩
        · exact unsigned_nd _ _ e
        · rcases Res.andThen_eq_err e with e' | ⟨d, r'', _, e'⟩
          · exact readSlice_nd _ _ e'
          · split at e' <;> cases e'

theorem seqHead_nd (m : Nat) : NoDiverge (seqHead m) := by
  intro cur h
  cases cur with
  | nil => simp [seqHead] at h
  | cons b r =>
    simp only [seqHead] at h
    split at h
    · simp only [Res.err.injEq] at h; exact errTypeOf_ne_diverge _ _ h
    · split at h
      · cases h
      · exact unsigned_nd _ _ (Res.map_eq_err h)

theorem skipArm_nd (st : SkipSt) : NoDiverge (skipArm st) := by
  intro cur h
  cases cur with
  | nil => simp [skipArm] at h
  | cons b r =>
    simp only [skipArm] at h
    repeat' split at h
    all_goals first
      | cases h
      | exact uintN_nd 64 _ (Res.map_eq_err h)
      | exact int_nd _ (Res.map_eq_err h)
      | exact bytesIter_nd _ (Res.map_eq_err h)
      | exact strIter_nd _ (Res.map_eq_err h)
      | exact seqHead_nd 4 _ (Res.map_eq_err h)
      | exact seqHead_nd 5 _ (Res.map_eq_err h)
      | exact unsigned_nd _ _ (Res.map_eq_err h)

/-- with fuel for every remaining byte (plus the final test) the skip loop never runs dry -/
theorem skipLoop_nd (fuel : Nat) : ∀ st cur, cur.length + 1 ≤ fuel → skipLoop fuel st cur ≠ .err .diverge := by
  induction fuel with
  | zero => intro st cur hf; omega
  | succ f ih =>
    intro st cur hf h
    simp only [skipLoop] at h
    split at h
    · cases h
    · rcases Res.andThen_eq_err h with e | ⟨⟨st', post⟩, c, e1, e⟩
      · exact skipArm_nd st _ e
      · obtain ⟨c1, hne, h1⟩ := Wrappers.skipArm_consumes st cur _ c e1
        have hl : c.length + 1 ≤ f := by
          have := congrArg List.length h1
          simp only [List.length_append] at this
          have : 0 < c1.length := List.length_pos_iff.mpr hne
          omega
        simp only at e
        split at e
        · split at e
          · cases e
          · exact ih _ c hl e
        · exact ih _ c hl e

/-- **the fuel `skip` gives its loop always suffices**: the model never answers `diverge` -/
theorem skip_nd : NoDiverge skip := fun cur => skipLoop_nd _ _ cur (by omega)

end PallasVerif.Minicbor
