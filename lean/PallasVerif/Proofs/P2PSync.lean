import PallasVerif.Proofs.P2PWire
import PallasVerif.Proofs.P2PConf
/-! C28, global half: on lock-step schedules the initiator's tracked view, advanced by the replies
    still in flight, *is* the responder's view; hence the responder never observes a violation. -/
namespace PallasVerif.P2P

/-! ### the implementation machines follow the specification on the moves that occur -/

theorem applyMsg_view_client {st : Peer} {m : Msg} {v1 : Wire} (he : Emittable m)
    (hps : m.proto = .ps → st.ps ≠ .done)
    (h : clientStep (viewOf st) m = some v1) : viewOf (st.applyMsg m) = v1 := by
  cases m with
  | hs a =>
    cases a <;> simp only [Emittable] at he
    cases hk : st.hs <;> simp [viewOf, clientStep, cHs, viewHs, hk] at h <;>
      (subst h; simp [viewOf, Peer.applyMsg, HsSt.apply, hk, viewHs])
  | ka a =>
    cases a <;> simp only [Emittable] at he
    cases hk : st.ka <;> simp [viewOf, clientStep, cKa, viewKa, hk] at h <;>
      (subst h; simp [viewOf, Peer.applyMsg, KaSt.apply, hk, viewKa])
  | ps a =>
    cases a <;> simp only [Emittable] at he
    have hnd := hps rfl
    cases hk : st.ps <;> simp [viewOf, clientStep, cPs, viewPs, hk] at h hnd <;>
      (subst h; simp [viewOf, Peer.applyMsg, PsSt.apply, hk, viewPs])
  | bf a =>
    cases a <;> simp only [Emittable] at he
    cases hk : st.bf <;> simp [viewOf, clientStep, cBf, viewBf, hk] at h <;>
      (subst h; simp [viewOf, Peer.applyMsg, BfSt.apply, hk, viewBf])
  | cs a =>
    cases a <;> simp only [Emittable] at he <;>
    (cases hk : st.cs <;> simp [viewOf, clientStep, cCs, viewCs, hk] at h <;>
      (subst h; simp [viewOf, Peer.applyMsg, CsSt.apply, hk, viewCs]))
  | tx a => cases a <;> simp only [Emittable] at he
  | ln a =>
    cases a <;> simp only [Emittable] at he
    cases hk : st.ln <;> simp [viewOf, clientStep, cLn, viewLn, hk] at h <;>
      (subst h; simp [viewOf, Peer.applyMsg, LnSt.apply, hk, viewLn])
  | lf a =>
    cases a <;> simp only [Emittable] at he <;>
    (cases hk : st.lf <;> simp [viewOf, clientStep, cLf, viewLf, hk] at h <;>
      (subst h; simp [viewOf, Peer.applyMsg, LfSt.apply, hk, viewLf]))

theorem applyMsg_view_server {st : Peer} {m : Msg} {v1 : Wire}
    (h : serverStep (viewOf st) m = some v1) : viewOf (st.applyMsg m) = v1 := by
  cases m with
  | hs a =>
    cases hk : st.hs <;> cases a <;> simp [viewOf, serverStep, sHs, viewHs, hk] at h <;>
      (subst h; simp [viewOf, Peer.applyMsg, HsSt.apply, hk, viewHs])
  | ka a =>
    cases hk : st.ka <;> cases a <;> simp [viewOf, serverStep, sKa, viewKa, hk] at h <;>
      (subst h; simp [viewOf, Peer.applyMsg, KaSt.apply, hk, viewKa])
  | ps a =>
    cases hk : st.ps <;> cases a <;> simp [viewOf, serverStep, sPs, viewPs, hk] at h <;>
      (subst h; simp [viewOf, Peer.applyMsg, PsSt.apply, hk, viewPs])
  | bf a =>
    cases hk : st.bf <;> cases a <;> simp [viewOf, serverStep, sBf, viewBf, hk] at h <;>
      (subst h; simp [viewOf, Peer.applyMsg, BfSt.apply, hk, viewBf])
  | cs a =>
    cases hk : st.cs <;> cases a <;> simp [viewOf, serverStep, sCs, viewCs, hk] at h <;>
      (subst h; simp [viewOf, Peer.applyMsg, CsSt.apply, hk, viewCs])
  | tx a =>
    cases a with
    | requestTxIds b =>
      cases b <;> cases hk : st.tx <;> simp [viewOf, serverStep, sTx, viewTx, hk] at h <;>
        (subst h; simp [viewOf, Peer.applyMsg, TxSt.apply, hk, viewTx])
    | _ =>
      cases hk : st.tx <;> simp [viewOf, serverStep, sTx, viewTx, hk] at h <;>
        (subst h; simp [viewOf, Peer.applyMsg, TxSt.apply, hk, viewTx])
  | ln a =>
    cases hk : st.ln <;> cases a <;> simp [viewOf, serverStep, sLn, viewLn, hk] at h <;>
      (subst h; simp [viewOf, Peer.applyMsg, LnSt.apply, hk, viewLn])
  | lf a =>
    cases hk : st.lf <;> cases a <;> simp [viewOf, serverStep, sLf, viewLf, hk] at h <;>
      (subst h; simp [viewOf, Peer.applyMsg, LfSt.apply, hk, viewLf])


/-! ### `sendsTo` -/

theorem sendsTo_append (p : Nat) (a b : List Out) : sendsTo p (a ++ b) = sendsTo p a ++ sendsTo p b := by
  induction a with
  | nil => rfl
  | cons o os ih =>
    cases o with
    | send q m =>
      simp only [List.cons_append, sendsTo]
      split
      · simp only [List.cons_append, ih]
      · exact ih
    | connect q => simpa only [List.cons_append, sendsTo] using ih
    | disconnect q => simpa only [List.cons_append, sendsTo] using ih
    | event e => simpa only [List.cons_append, sendsTo] using ih

theorem mem_sendsTo {p : Nat} {m : Msg} {os : List Out} : m ∈ sendsTo p os ↔ Out.send p m ∈ os := by
  induction os with
  | nil => simp [sendsTo]
  | cons o os ih =>
    cases o with
    | send q m' =>
      simp only [sendsTo]
      by_cases hq : q = p
      · subst hq; simp [ih]
      · simp only [hq, if_false, ih, List.mem_cons, Out.send.injEq]
        constructor
        · exact fun h => Or.inr h
        · rintro (⟨h1, _⟩ | h)
          · exact absurd h1.symm hq
          · exact h
    | connect q => simp [sendsTo, ih]
    | disconnect q => simp [sendsTo, ih]
    | event e => simp [sendsTo, ih]

theorem sendsTo_nil_of_nosend {p : Nat} {os : List Out} (h : ∀ m, Out.send p m ∉ os) : sendsTo p os = [] := by
  cases hs : sendsTo p os with
  | nil => rfl
  | cons m ms =>
    have : m ∈ sendsTo p os := by rw [hs]; exact List.mem_cons_self ..
    exact absurd (mem_sendsTo.mp this) (h m)

/-! ### what one housekeeping visit queues for its peer: at most one request per protocol -/

/-- at most one message, of protocol `x` -/
def Single (x : Proto) (ms : List Msg) : Prop := ms = [] ∨ ∃ m, ms = [m] ∧ m.proto = x

theorem single_keepalive (t p q : Nat) (st : Peer) : Single .ka (sendsTo q (keepaliveHk t p st)) := by
  unfold keepaliveHk; split
  · split
    · simp only [sendsTo]; split
      · exact Or.inr ⟨_, rfl, rfl⟩
      · exact Or.inl rfl
    · exact Or.inl rfl
  · exact Or.inl rfl

theorem single_discovery {s : St} {p : Nat} {st : Peer} {o : List Out} (q : Nat) (h : discoveryHk s p st = some o) :
    Single .ps (sendsTo q o) := by
  unfold discoveryHk at h
  split at h
  · split at h
    · split at h
      · cases h
      · simp only [Option.some.injEq] at h; subst h
        simp only [sendsTo]; split
        · exact Or.inr ⟨_, rfl, rfl⟩
        · exact Or.inl rfl
    · simp only [Option.some.injEq] at h; subst h; exact Or.inl rfl
  · simp only [Option.some.injEq] at h; subst h; exact Or.inl rfl

theorem single_blockfetch (s : St) (p q : Nat) (st : Peer) : Single .bf (sendsTo q (blockfetchHk s p st).2) := by
  unfold blockfetchHk; split
  · exact Or.inl rfl
  · split
    · simp only [sendsTo]; split
      · exact Or.inr ⟨_, rfl, rfl⟩
      · exact Or.inl rfl
    · exact Or.inl rfl

theorem single_chainsync (s : St) (p q : Nat) (st : Peer) : Single .cs (sendsTo q (chainsyncHk s p st)) := by
  unfold chainsyncHk; split
  · simp only [sendsTo]; split
    · exact Or.inr ⟨_, rfl, rfl⟩
    · exact Or.inl rfl
  · exact Or.inl rfl

theorem single_leiosnotify (p q : Nat) (st : Peer) : Single .ln (sendsTo q (leiosnotifyHk p st)) := by
  unfold leiosnotifyHk; split
  · simp only [sendsTo]; split
    · exact Or.inr ⟨_, rfl, rfl⟩
    · exact Or.inl rfl
  · exact Or.inl rfl

theorem single_leiosfetch (s : St) (p q : Nat) (st : Peer) : Single .lf (sendsTo q (leiosfetchHk s p st).2) := by
  unfold leiosfetchHk; split
  · split
    · rename_i r rest _
      simp only [sendsTo]; split
      · exact Or.inr ⟨_, rfl, by cases r <;> rfl⟩
      · exact Or.inl rfl
    · exact Or.inl rfl
  · exact Or.inl rfl

theorem sendsTo_connectionHk (p q : Nat) (st : Peer) : sendsTo q (connectionHk p st).2 = [] :=
  sendsTo_nil_of_nosend (fun m => connectionHk_nosend p q st m)

def Distinct (ms : List Msg) : Prop := ms.Pairwise (fun a b => a.proto ≠ b.proto)

theorem distinct_single_append {x : Proto} {a b : List Msg} (ha : Single x a) (hb : Distinct b)
    (hx : ∀ m, m ∈ b → m.proto ≠ x) : Distinct (a ++ b) := by
  rcases ha with rfl | ⟨m, rfl, hm⟩
  · exact hb
  · exact List.pairwise_cons.mpr ⟨fun m' hm' => by rw [hm]; exact fun e => hx m' hm' e.symm, hb⟩

theorem single_protos {x : Proto} {a : List Msg} (ha : Single x a) : ∀ m, m ∈ a → m.proto = x := by
  rcases ha with rfl | ⟨m, rfl, hm⟩
  · intro m hm; cases hm
  · intro m' hm'; rw [List.mem_singleton] at hm'; rw [hm']; exact hm

/-- the six emitters of one visit: pairwise different protocols -/
theorem distinct_six {a1 a2 a3 a4 a5 a6 : List Msg} (h1 : Single .ka a1) (h2 : Single .ps a2) (h3 : Single .bf a3)
    (h4 : Single .cs a4) (h5 : Single .ln a5) (h6 : Single .lf a6) :
    Distinct (a1 ++ (a2 ++ (a3 ++ (a4 ++ (a5 ++ a6))))) := by
  have p1 := single_protos h1; have p2 := single_protos h2; have p3 := single_protos h3
  have p4 := single_protos h4; have p5 := single_protos h5; have p6 := single_protos h6
  have d6 : Distinct a6 := by
    rcases h6 with rfl | ⟨m, rfl, _⟩
    · exact List.Pairwise.nil
    · exact List.pairwise_singleton _ _
  have d5 : Distinct (a5 ++ a6) := distinct_single_append h5 d6 (fun m hm => by rw [p6 m hm]; decide)
  have d4 : Distinct (a4 ++ (a5 ++ a6)) := distinct_single_append h4 d5 (fun m hm => by
    rcases List.mem_append.mp hm with h | h
    · rw [p5 m h]; decide
    · rw [p6 m h]; decide)
  have d3 : Distinct (a3 ++ (a4 ++ (a5 ++ a6))) := distinct_single_append h3 d4 (fun m hm => by
    rcases List.mem_append.mp hm with h | h
    · rw [p4 m h]; decide
    · rcases List.mem_append.mp h with h | h
      · rw [p5 m h]; decide
      · rw [p6 m h]; decide)
  have d2 : Distinct (a2 ++ (a3 ++ (a4 ++ (a5 ++ a6)))) := distinct_single_append h2 d3 (fun m hm => by
    rcases List.mem_append.mp hm with h | h
    · rw [p3 m h]; decide
    · rcases List.mem_append.mp h with h | h
      · rw [p4 m h]; decide
      · rcases List.mem_append.mp h with h | h
        · rw [p5 m h]; decide
        · rw [p6 m h]; decide)
  exact distinct_single_append h1 d2 (fun m hm => by
    rcases List.mem_append.mp hm with h | h
    · rw [p2 m h]; decide
    · rcases List.mem_append.mp h with h | h
      · rw [p3 m h]; decide
      · rcases List.mem_append.mp h with h | h
        · rw [p4 m h]; decide
        · rcases List.mem_append.mp h with h | h
          · rw [p5 m h]; decide
          · rw [p6 m h]; decide)


/-! ### a housekeeping pass queues, per peer, requests of pairwise different protocols -/

structure Queued (s0 s : St) (rem : List Nat) : Prop where
  emit : Emit s0 s
  fresh : ∀ p, p ∈ rem → sendsTo p s.out = []
  dist : ∀ p, Distinct (sendsTo p s.out)
  conn : ∀ q, Out.connect q ∈ s.out → s.peers q ≠ none
  fwd : ∀ q st0, s0.peers q = some st0 → ∃ st, s.peers q = some st ∧ ProtoEq st0 st

theorem hkPeer_queued {s0 s f : St} {p : Nat} {rem : List Nat} (h : hkPeer s p = some f)
    (g : Queued s0 s (p :: rem)) (hp : p ∉ rem) : Queued s0 f rem := by
  have hemit := hkPeer_emit h g.emit
  unfold hkPeer at h
  cases hpe : s.peers p with
  | none =>
    simp only [hpe, Option.some.injEq] at h; subst h
    exact ⟨g.emit, fun q hq => g.fresh q (List.mem_cons_of_mem _ hq), g.dist, g.conn, g.fwd⟩
  | some st =>
    simp only [hpe] at h
    cases hc : categorize s p st with
    | none => simp only [hc] at h; cases h
    | some r =>
      obtain ⟨s1, st1⟩ := r
      simp only [hc] at h
      obtain ⟨hpq, hout, hpeers⟩ := categorize_proto hc
      cases hd : discoveryHk s1 p (connectionHk p st1).1 with
      | none => simp only [hd] at h; cases h
      | some o3 =>
        simp only [hd, Option.some.injEq] at h
        subst h
        have hnc : ∀ q, Out.connect q ∉ o3 := by
          obtain ⟨o, ho, hn⟩ := discoveryHk_some s1 p (connectionHk p st1).1
          rw [hd] at ho; cases ho; exact hn
        -- the new outputs, per target peer
        have hnew : ∀ q, sendsTo q (s.out ++ (connectionHk p st1).2 ++ keepaliveHk s1.kaToken p (connectionHk p st1).1 ++ o3 ++
              (blockfetchHk s1 p (connectionHk p st1).1).2 ++
              chainsyncHk (blockfetchHk s1 p (connectionHk p st1).1).1 p (connectionHk p st1).1 ++
              leiosnotifyHk p (connectionHk p st1).1 ++
              (leiosfetchHk (blockfetchHk s1 p (connectionHk p st1).1).1 p (connectionHk p st1).1).2) =
            sendsTo q s.out ++ (sendsTo q (keepaliveHk s1.kaToken p (connectionHk p st1).1) ++ (sendsTo q o3 ++
              (sendsTo q (blockfetchHk s1 p (connectionHk p st1).1).2 ++
              (sendsTo q (chainsyncHk (blockfetchHk s1 p (connectionHk p st1).1).1 p (connectionHk p st1).1) ++
              (sendsTo q (leiosnotifyHk p (connectionHk p st1).1) ++
              sendsTo q (leiosfetchHk (blockfetchHk s1 p (connectionHk p st1).1).1 p (connectionHk p st1).1).2))))) := by
          intro q
          simp only [sendsTo_append, sendsTo_connectionHk, List.append_nil, List.nil_append, List.append_assoc]
        have hsix : ∀ q, Distinct (sendsTo q (keepaliveHk s1.kaToken p (connectionHk p st1).1) ++ (sendsTo q o3 ++
              (sendsTo q (blockfetchHk s1 p (connectionHk p st1).1).2 ++
              (sendsTo q (chainsyncHk (blockfetchHk s1 p (connectionHk p st1).1).1 p (connectionHk p st1).1) ++
              (sendsTo q (leiosnotifyHk p (connectionHk p st1).1) ++
              sendsTo q (leiosfetchHk (blockfetchHk s1 p (connectionHk p st1).1).1 p (connectionHk p st1).1).2))))) :=
          fun q => distinct_six (single_keepalive _ _ _ _) (single_discovery q hd) (single_blockfetch _ _ _ _)
            (single_chainsync _ _ _ _) (single_leiosnotify _ _ _) (single_leiosfetch _ _ _ _)
        have hother : ∀ q, q ≠ p → (sendsTo q (keepaliveHk s1.kaToken p (connectionHk p st1).1) ++ (sendsTo q o3 ++
              (sendsTo q (blockfetchHk s1 p (connectionHk p st1).1).2 ++
              (sendsTo q (chainsyncHk (blockfetchHk s1 p (connectionHk p st1).1).1 p (connectionHk p st1).1) ++
              (sendsTo q (leiosnotifyHk p (connectionHk p st1).1) ++
              sendsTo q (leiosfetchHk (blockfetchHk s1 p (connectionHk p st1).1).1 p (connectionHk p st1).1).2))))) = [] := by
          intro q hq
          rw [sendsTo_nil_of_nosend (fun m hm => hq (keepaliveHk_send hm).1),
              sendsTo_nil_of_nosend (fun m hm => hq (discoveryHk_send hd hm).1),
              sendsTo_nil_of_nosend (fun m hm => hq (blockfetchHk_send hm).1),
              sendsTo_nil_of_nosend (fun m hm => hq (chainsyncHk_send hm).1),
              sendsTo_nil_of_nosend (fun m hm => hq (leiosnotifyHk_send hm).1),
              sendsTo_nil_of_nosend (fun m hm => hq (leiosfetchHk_send hm).1)]
          rfl
        refine ⟨hemit, ?_, ?_, ?_, ?_⟩
        · intro q hq
          have hqp : q ≠ p := fun e => hp (e ▸ hq)
          simp only [leiosfetchHk_out, blockfetchHk_out, hout]
          rw [hnew q, hother q hqp, List.append_nil]
          exact g.fresh q (List.mem_cons_of_mem _ hq)
        · intro q
          simp only [leiosfetchHk_out, blockfetchHk_out, hout]
          rw [hnew q]
          by_cases hqp : q = p
          · subst hqp
            rw [g.fresh q (List.mem_cons_self ..), List.nil_append]
            exact hsix q
          · rw [hother q hqp, List.append_nil]; exact g.dist q
        · intro q hq
          simp only [leiosfetchHk_out, blockfetchHk_out, hout, List.mem_append] at hq
          simp only [leiosfetchHk_peers, blockfetchHk_peers, hpeers]
          unfold setPeer
          by_cases hqp : q = p
          · simp [hqp]
          · simp only [hqp, if_false]
            rcases hq with ((((((hh | hh) | hh) | hh) | hh) | hh) | hh) | hh
            · exact g.conn q hh
            · exact absurd (connectionHk_connect hh).1 hqp
            · exact absurd hh (keepaliveHk_noconn _ _ _ _)
            · exact absurd hh (hnc q)
            · exact absurd hh (blockfetchHk_noconn _ _ _ _)
            · exact absurd hh (chainsyncHk_noconn _ _ _ _)
            · exact absurd hh (leiosnotifyHk_noconn _ _ _)
            · exact absurd hh (leiosfetchHk_noconn _ _ _ _)
        · intro q st0 hq0
          obtain ⟨stq, hsq, hpq0⟩ := g.fwd q st0 hq0
          simp only [leiosfetchHk_peers, blockfetchHk_peers, hpeers]
          unfold setPeer
          by_cases hqp : q = p
          · subst hqp
            rw [hpe] at hsq; cases hsq
            exact ⟨_, by simp, hpq0.trans (hpq.trans (connectionHk_proto q st1))⟩
          · exact ⟨stq, by simp [hqp, hsq], hpq0⟩

theorem hkAll_queued {s0 : St} : ∀ (ord : List Nat) {s f : St}, hkAll s ord = some f → Queued s0 s ord → ord.Nodup →
    Queued s0 f [] := by
  intro ord
  induction ord with
  | nil => intro s f h g _; simp only [hkAll, Option.some.injEq] at h; subst h; exact g
  | cons p ps ih =>
    intro s f h g hnd
    unfold hkAll at h
    obtain ⟨hp, hps⟩ := List.nodup_cons.mp hnd
    cases h1 : hkPeer s p with
    | none => simp only [h1] at h; cases h
    | some s1 => simp only [h1] at h; exact ih h (hkPeer_queued h1 g hp) hps


/-! ### what a command does to the per-peer views and what it queues -/

structure CmdFacts (s f : St) : Prop where
  fwd : ∀ q st0, s.peers q = some st0 → ∃ st, f.peers q = some st ∧ ProtoEq st0 st
  new : ∀ q st, f.peers q = some st → s.peers q = none → viewOf st = {}
  chain : ∀ q st0, s.peers q = some st0 → (∀ m, m ∈ sendsTo q f.out → Permits st0 m) ∧ Distinct (sendsTo q f.out)
  untracked : ∀ q, s.peers q = none → sendsTo q f.out = []
  conn : ∀ q, Out.connect q ∈ f.out → f.peers q ≠ none

theorem onPeerDiscovered_view {s s1 : St} {p : Nat} {st1 : Peer} (h : onPeerDiscovered s p {} = some (s1, st1)) :
    viewOf st1 = {} ∧ s1.peers = s.peers ∧ s1.out = s.out := by
  unfold onPeerDiscovered at h
  split at h
  · simp only [Option.some.injEq, Prod.mk.injEq] at h; obtain ⟨rfl, rfl⟩ := h; exact ⟨rfl, rfl, rfl⟩
  · split at h
    · simp only [Option.some.injEq, Prod.mk.injEq] at h; obtain ⟨rfl, rfl⟩ := h; exact ⟨rfl, rfl, rfl⟩
    · split at h
      · cases h
      · split at h <;> (simp only [Option.some.injEq, Prod.mk.injEq] at h; obtain ⟨rfl, rfl⟩ := h; exact ⟨rfl, rfl, rfl⟩)

/-- adding fresh records: tracked peers untouched, new ones have the initial view -/
structure Grows (s f : St) : Prop where
  out : f.out = s.out
  keep : ∀ q st, s.peers q = some st → f.peers q = some st
  new : ∀ q st, f.peers q = some st → s.peers q = none → viewOf st = {}

theorem Grows.refl (s : St) : Grows s s := ⟨rfl, fun _ _ h => h, fun _ _ h hn => (by rw [hn] at h; cases h)⟩

theorem Grows.trans {a b c : St} (h1 : Grows a b) (h2 : Grows b c) : Grows a c := by
  refine ⟨h2.out.trans h1.out, fun q st h => h2.keep q st (h1.keep q st h), ?_⟩
  intro q st hc hn
  cases hb : b.peers q with
  | none => exact h2.new q st hc hb
  | some stb =>
    have := h2.keep q stb hb
    rw [hc] at this; cases this
    exact h1.new q st hb hn

theorem onDiscovered_grows {s f : St} {p : Nat} (hn : s.peers p = none) (h : onDiscovered s p = some f) : Grows s f := by
  unfold onDiscovered at h
  cases hc : onPeerDiscovered s p {} with
  | none => simp only [hc] at h; cases h
  | some r =>
    obtain ⟨s1, st1⟩ := r
    simp only [hc, Option.some.injEq] at h
    subst h
    obtain ⟨hv, hpe, hout⟩ := onPeerDiscovered_view hc
    refine ⟨hout, ?_, ?_⟩
    · intro q st hq
      show setPeer s1.peers p st1 q = some st
      unfold setPeer
      by_cases e : q = p
      · subst e; rw [hn] at hq; cases hq
      · simp only [e, if_false, hpe, hq]
    · intro q st hq hnq
      have hq' : setPeer s1.peers p st1 q = some st := hq
      unfold setPeer at hq'
      by_cases e : q = p
      · simp only [e, if_true, Option.some.injEq] at hq'; subst hq'; exact hv
      · simp only [e, if_false, hpe, hnq] at hq'; cases hq'

theorem discAll_grows (sel : List Nat) {s f : St} (h : discAll s sel = some f) : Grows s f := by
  induction sel generalizing s with
  | nil => simp only [discAll, Option.some.injEq] at h; subst h; exact Grows.refl s
  | cons q qs ih =>
    unfold discAll at h
    split at h
    · exact ih h
    · rename_i hq
      have hn : s.peers q = none := by
        cases hh : s.peers q with
        | none => rfl
        | some st => rw [hh] at hq; simp at hq
      cases h1 : onDiscovered s q with
      | none => simp only [h1] at h; cases h
      | some s1 => simp only [h1] at h; exact (onDiscovered_grows hn h1).trans (ih h)

theorem moveDiscovered_grows {s f : St} {taken : List Nat} (h : moveDiscovered s taken = some f) : Grows s f := by
  unfold moveDiscovered at h
  split at h
  · cases h
  · split at h
    · simp only [Option.some.injEq] at h; subst h; exact Grows.refl s
    · rename_i deficit _ _
      have g0 : Grows s { s with discovered := s.discovered.filter (· ∉ (dedup (taken.filter (· ∈ s.discovered))).take deficit) } :=
        ⟨rfl, fun _ _ hh => hh, fun q st hh hn => (by
          have hh' : s.peers q = some st := hh
          rw [hn] at hh'; cases hh')⟩
      exact g0.trans (discAll_grows _ h)

theorem cmdFacts_quiet {s f : St} (hp : f.peers = s.peers) (ho : f.out = []) : CmdFacts s f := by
  refine ⟨fun q st0 h => ⟨st0, (by rw [hp]; exact h), ProtoEq.refl st0⟩, fun q st h hn => (by rw [hp, hn] at h; cases h), ?_, ?_, ?_⟩
  · intro q st0 _; rw [ho]; exact ⟨fun m hm => (nomatch hm), List.Pairwise.nil⟩
  · intro q _; rw [ho]; rfl
  · intro q hq; rw [ho] at hq; cases hq

theorem CmdFacts.of_peers {s s' f : St} (hp : s'.peers = s.peers) (c : CmdFacts s' f) : CmdFacts s f :=
  ⟨fun q st0 h => c.fwd q st0 (by rw [hp]; exact h), fun q st h hn => c.new q st h (by rw [hp]; exact hn),
   fun q st0 h => c.chain q st0 (by rw [hp]; exact h), fun q hn => c.untracked q (by rw [hp]; exact hn), c.conn⟩

theorem cmdFacts_of_grows {s f : St} (g : Grows s f) (ho : s.out = []) : CmdFacts s f := by
  have ho' : f.out = [] := g.out.trans ho
  refine ⟨fun q st0 h => ⟨st0, g.keep q st0 h, ProtoEq.refl st0⟩, g.new, ?_, ?_, ?_⟩
  · intro q st0 _; rw [ho']; exact ⟨fun m hm => (nomatch hm), List.Pairwise.nil⟩
  · intro q _; rw [ho']; rfl
  · intro q hq; rw [ho'] at hq; cases hq

theorem housekeeping_facts {s f : St} {ord taken : List Nat} (hnd : ord.Nodup)
    (h : housekeeping { s with out := [] } ord taken = some f) : CmdFacts s f := by
  unfold housekeeping at h
  cases h1 : hkAll { s with out := [] } ord with
  | none => simp only [h1] at h; cases h
  | some s1 =>
    simp only [h1] at h
    have g := moveDiscovered_grows h
    have q0 : Queued s { s with out := [] } ord :=
      ⟨Emit.start s, fun _ _ => rfl, fun _ => List.Pairwise.nil, fun _ hq => (nomatch hq),
       fun q st0 hq => ⟨st0, hq, ProtoEq.refl st0⟩⟩
    have q1 := hkAll_queued ord h1 q0 hnd
    refine ⟨?_, ?_, ?_, ?_, ?_⟩
    · intro q st0 hq
      obtain ⟨st, hs, hpe⟩ := q1.fwd q st0 hq
      exact ⟨st, g.keep q st hs, hpe⟩
    · intro q st hq hn
      cases h1q : s1.peers q with
      | none => exact g.new q st hq h1q
      | some st1 =>
        obtain ⟨st0, hs0, _⟩ := q1.emit.keep q st1 h1q
        rw [hn] at hs0; cases hs0
    · intro q st0 hq
      rw [g.out]
      refine ⟨?_, q1.dist q⟩
      intro m hm
      obtain ⟨st0', hs0, hpm⟩ := q1.emit.out q m (mem_sendsTo.mp hm)
      rw [hq] at hs0; cases hs0; exact hpm
    · intro q hn
      rw [g.out]
      apply sendsTo_nil_of_nosend
      intro m hm
      obtain ⟨st0, hs0, _⟩ := q1.emit.out q m hm
      rw [hn] at hs0; cases hs0
    · intro q hq
      rw [g.out] at hq
      have := q1.conn q hq
      cases h1q : s1.peers q with
      | none => exact absurd h1q this
      | some st1 => rw [g.keep q st1 h1q]; exact Option.some_ne_none _

theorem onTagged_facts (s : St) (p : Nat) (f : Peer → Peer) (hf : ∀ st, ProtoEq st (f st)) (hs : s.out = []) :
    CmdFacts s (onTagged s p f) := by
  unfold onTagged
  cases hp : s.peers p with
  | none => exact cmdFacts_quiet rfl hs
  | some st =>
    dsimp only
    have key : ∀ (s1 : St) (st1 : Peer), s1.peers = s.peers → s1.out = [] → ProtoEq st st1 →
        CmdFacts s { s1 with peers := setPeer s1.peers p st1, out := s1.out ++ chainsyncTagged p st1 } := by
      intro s1 st1 hpe ho hpq
      refine ⟨?_, ?_, ?_, ?_, ?_⟩
      · intro q st0 hq
        show ∃ st', setPeer s1.peers p st1 q = some st' ∧ _
        unfold setPeer
        by_cases e : q = p
        · subst e; rw [hp] at hq; cases hq; exact ⟨st1, by simp, hpq⟩
        · exact ⟨st0, by simp [e, hpe, hq], ProtoEq.refl st0⟩
      · intro q st' hq hn
        have hq' : setPeer s1.peers p st1 q = some st' := hq
        unfold setPeer at hq'
        by_cases e : q = p
        · subst e; rw [hp] at hn; cases hn
        · simp only [e, if_false, hpe, hn] at hq'; cases hq'
      · intro q st0 hq
        show (∀ m, m ∈ sendsTo q (s1.out ++ chainsyncTagged p st1) → _) ∧ Distinct (sendsTo q (s1.out ++ chainsyncTagged p st1))
        rw [ho, List.nil_append]
        refine ⟨?_, ?_⟩
        · intro m hm
          obtain ⟨e, hpm⟩ := chainsyncTagged_send (mem_sendsTo.mp hm)
          subst e; rw [hp] at hq; cases hq
          exact hpq.permits hpm
        · unfold chainsyncTagged; split
          · simp only [sendsTo]; split
            · exact List.pairwise_singleton _ _
            · exact List.Pairwise.nil
          · exact List.Pairwise.nil
      · intro q hn
        show sendsTo q (s1.out ++ chainsyncTagged p st1) = []
        rw [ho, List.nil_append]
        apply sendsTo_nil_of_nosend
        intro m hm
        obtain ⟨e, _⟩ := chainsyncTagged_send hm
        subst e; rw [hp] at hn; cases hn
      · intro q hq
        have hq' : Out.connect q ∈ s1.out ++ chainsyncTagged p st1 := hq
        rw [ho, List.nil_append] at hq'
        exact absurd hq' (chainsyncTagged_noconn _ _ _)
    split
    · exact key _ _ rfl hs ((hf st).trans ⟨rfl, rfl, rfl, rfl, rfl, rfl, rfl, rfl⟩)
    · exact key _ _ rfl hs (hf st)

theorem cmd_facts {s f : St} {e : Ev} (hc : isCommand e = true) (hok : (SStep.cmd e).ok) (h : step s e = some f) :
    CmdFacts s f := by
  unfold step at h
  cases e with
  | includePeer p =>
    dsimp only at h
    split at h
    · simp only [Option.some.injEq] at h; subst h; exact cmdFacts_quiet rfl rfl
    · rename_i ht
      have hn : s.peers p = none := by
        cases hh : s.peers p with
        | none => rfl
        | some st => rw [show ({ s with out := [] } : St).peers p = s.peers p from rfl, hh] at ht; simp at ht
      have g := onDiscovered_grows (s := { s with out := [] }) hn h
      exact ⟨fun q st0 hq => ⟨st0, g.keep q st0 hq, ProtoEq.refl st0⟩, g.new,
        fun q st0 _ => (by rw [g.out]; exact ⟨fun m hm => (nomatch hm), List.Pairwise.nil⟩),
        fun q _ => (by rw [g.out]; rfl), fun q hq => (by rw [g.out] at hq; cases hq)⟩
  | housekeeping ord taken => exact housekeeping_facts hok h
  | idle ord taken => exact housekeeping_facts hok h
  | startSync => simp only [Option.some.injEq] at h; subst h; exact cmdFacts_quiet rfl rfl
  | continueSync p =>
    simp only [Option.some.injEq] at h; subst h
    exact CmdFacts.of_peers (s' := { s with out := [] }) rfl (onTagged_facts { s with out := [] } p (fun st => { st with continueSync := true })
      (fun _ => ⟨rfl, rfl, rfl, rfl, rfl, rfl, rfl, rfl⟩) rfl)
  | requestBlocks r => simp only [Option.some.injEq] at h; subst h; exact cmdFacts_quiet rfl rfl
  | sendTx => simp only [Option.some.injEq] at h; subst h; exact cmdFacts_quiet rfl rfl
  | fetchEb p eb => simp only [Option.some.injEq] at h; subst h; exact cmdFacts_quiet rfl rfl
  | fetchEbTxs p eb => simp only [Option.some.injEq] at h; subst h; exact cmdFacts_quiet rfl rfl
  | banPeer p =>
    simp only [Option.some.injEq] at h; subst h
    split
    · exact CmdFacts.of_peers (s' := { s with out := [] }) rfl (onTagged_facts { s with out := [] } p (fun st => { st with tag := .banned })
        (fun _ => ⟨rfl, rfl, rfl, rfl, rfl, rfl, rfl, rfl⟩) rfl)
    · exact CmdFacts.of_peers (s' := (banPeer { s with out := [] } p {}).1) rfl (onTagged_facts (banPeer { s with out := [] } p {}).1 p (fun st => { st with tag := .banned })
        (fun _ => ⟨rfl, rfl, rfl, rfl, rfl, rfl, rfl, rfl⟩) rfl)
  | demotePeer p =>
    simp only [Option.some.injEq] at h; subst h
    exact CmdFacts.of_peers (s' := { s with out := [] }) rfl (onTagged_facts { s with out := [] } p (fun st => { st with tag := .cold })
      (fun _ => ⟨rfl, rfl, rfl, rfl, rfl, rfl, rfl, rfl⟩) rfl)
  | connected p => cases hc
  | disconnected p => cases hc
  | recv p ms => cases hc
  | sent p m => cases hc
  | error p => cases hc


/-! ### `connected`, `error`: same shape of facts as a command -/

theorem connected_facts {s f : St} {p : Nat} (h : step s (.connected p) = some f) : CmdFacts s f := by
  unfold step at h
  simp only [Option.some.injEq] at h; subst h
  unfold onConnected
  cases hp : s.peers p with
  | none =>
    have hp' : ({ s with out := [] } : St).peers p = none := hp
    simp only [hp']
    exact cmdFacts_quiet rfl rfl
  | some st =>
    have hp' : ({ s with out := [] } : St).peers p = some st := hp
    simp only [hp']
    have hpq : ProtoEq st { st with conn := .connected } := ⟨rfl, rfl, rfl, rfl, rfl, rfl, rfl, rfl⟩
    refine ⟨?_, ?_, ?_, ?_, ?_⟩
    · intro q st0 hq
      show ∃ st', setPeer s.peers p { st with conn := .connected } q = some st' ∧ _
      unfold setPeer
      by_cases e : q = p
      · subst e; rw [hp] at hq; cases hq; exact ⟨_, by simp, hpq⟩
      · exact ⟨st0, by simp [e, hq], ProtoEq.refl st0⟩
    · intro q st' hq hn
      have hq' : setPeer s.peers p { st with conn := .connected } q = some st' := hq
      unfold setPeer at hq'
      by_cases e : q = p
      · subst e; rw [hp] at hn; cases hn
      · simp only [e, if_false, hn] at hq'; cases hq'
    · intro q st0 hq
      show (∀ m, m ∈ sendsTo q ([] ++ proposeHandshake p { st with conn := .connected }) → _) ∧
        Distinct (sendsTo q ([] ++ proposeHandshake p { st with conn := .connected }))
      rw [List.nil_append]
      refine ⟨?_, ?_⟩
      · intro m hm
        obtain ⟨e, hpm⟩ := proposeHandshake_send (mem_sendsTo.mp hm)
        subst e; rw [hp] at hq; cases hq
        exact hpq.permits hpm
      · unfold proposeHandshake; split
        · simp only [sendsTo]; split
          · exact List.pairwise_singleton _ _
          · exact List.Pairwise.nil
        · exact List.Pairwise.nil
    · intro q hn
      show sendsTo q ([] ++ proposeHandshake p { st with conn := .connected }) = []
      rw [List.nil_append]
      apply sendsTo_nil_of_nosend
      intro m hm
      obtain ⟨e, _⟩ := proposeHandshake_send hm
      subst e; rw [hp] at hn; cases hn
    · intro q hq
      have hq' : Out.connect q ∈ [] ++ proposeHandshake p { st with conn := .connected } := hq
      rw [List.nil_append] at hq'
      exact absurd hq' (proposeHandshake_noconn _ _ _)

theorem error_facts {s f : St} {p : Nat} (h : step s (.error p) = some f) : CmdFacts s f := by
  unfold step at h
  dsimp only at h
  unfold onErrored at h
  split at h
  · simp only [Option.some.injEq] at h; subst h; exact cmdFacts_quiet rfl rfl
  · rename_i st hp
    have hp' : s.peers p = some st := hp
    split at h
    · simp only [Option.some.injEq] at h; subst h
      have hpq : ProtoEq st { st with conn := .errored, errorCount := st.errorCount + 1 } := ⟨rfl, rfl, rfl, rfl, rfl, rfl, rfl, rfl⟩
      refine ⟨?_, ?_, ?_, ?_, ?_⟩
      · intro q st0 hq
        show ∃ st', setPeer s.peers p { st with conn := .errored, errorCount := st.errorCount + 1 } q = some st' ∧ _
        unfold setPeer
        by_cases e : q = p
        · subst e; rw [hp'] at hq; cases hq; exact ⟨_, by simp, hpq⟩
        · exact ⟨st0, by simp [e, hq], ProtoEq.refl st0⟩
      · intro q st' hq hn
        have hq' : setPeer s.peers p { st with conn := .errored, errorCount := st.errorCount + 1 } q = some st' := hq
        unfold setPeer at hq'
        by_cases e : q = p
        · subst e; rw [hp'] at hn; cases hn
        · simp only [e, if_false, hn] at hq'; cases hq'
      · intro q st0 _
        have : sendsTo q ([] ++ connectionErrored p { st with conn := .errored, errorCount := st.errorCount + 1 }) = [] :=
          sendsTo_nil_of_nosend (fun m hm => by rw [List.nil_append] at hm; exact connectionErrored_nosend _ _ _ _ hm)
        show (∀ m, m ∈ sendsTo q ([] ++ connectionErrored p _) → _) ∧ Distinct (sendsTo q ([] ++ connectionErrored p _))
        rw [this]; exact ⟨fun m hm => (nomatch hm), List.Pairwise.nil⟩
      · intro q _
        exact sendsTo_nil_of_nosend (fun m hm => by
          have hm' : Out.send q m ∈ [] ++ connectionErrored p { st with conn := .errored, errorCount := st.errorCount + 1 } := hm
          rw [List.nil_append] at hm'; exact connectionErrored_nosend _ _ _ _ hm')
      · intro q hq
        have hq' : Out.connect q ∈ [] ++ connectionErrored p { st with conn := .errored, errorCount := st.errorCount + 1 } := hq
        rw [List.nil_append] at hq'
        exact absurd hq' (connectionErrored_noconn _ _ _)
    · cases h


/-! ### `recv`: the record follows the specification's server moves -/

theorem handshakeInbound_view (p : Nat) (st : Peer) : viewOf (handshakeInbound p st).1 = viewOf st := by
  unfold handshakeInbound; split
  · split <;> rfl
  · rfl

theorem discoveryInbound_view (s : St) (st : Peer) : viewOf (discoveryInbound s st).2 = viewOf st := by
  unfold discoveryInbound; split
  · split
    · rename_i peers hps
      simp only [viewOf, hps, viewPs]
    · rfl
  · rfl

theorem chainsyncInbound_view (p : Nat) (st : Peer) : viewOf (chainsyncInbound p st).1 = viewOf st := by
  unfold chainsyncInbound; split
  · rfl
  · cases hcs : st.cs with
    | idle d =>
      simp only [CsSt.drain]
      cases d <;> simp [viewOf, viewCs, hcs]
    | canAwait => simp [CsSt.drain]
    | mustReply => simp [CsSt.drain]
    | intersect => simp [CsSt.drain]
    | done => simp [CsSt.drain]

theorem leiosnotifyInbound_view (p : Nat) (st : Peer) : viewOf (leiosnotifyInbound p st).1 = viewOf st := by
  unfold leiosnotifyInbound
  cases hln : st.ln with
  | idle b => cases b <;> simp [LnSt.drain, viewOf, viewLn, hln]
  | busy => simp [LnSt.drain]
  | done => simp [LnSt.drain]

theorem leiosfetchInbound_view (p : Nat) (st : Peer) : viewOf (leiosfetchInbound p st).1 = viewOf st := by
  unfold leiosfetchInbound
  cases hlf : st.lf with
  | idle r => cases r <;> simp [LfSt.drain, viewOf, viewLf, hlf]
  | awaitingBlock e => simp [LfSt.drain]
  | awaitingBlockTxs e => simp [LfSt.drain]
  | done => simp [LfSt.drain]

/-- no new `Send`, no new `Connect` -/
structure Silent (s f : St) : Prop where
  nosend : ∀ q m, Out.send q m ∈ f.out → Out.send q m ∈ s.out
  noconn : ∀ q, Out.connect q ∈ f.out → Out.connect q ∈ s.out

theorem inboundMsg_recv {s f : St} {p : Nat} {m : Msg} {st : Peer} (hp : s.peers p = some st)
    (h : inboundMsg s p m = some f) :
    (∃ st', f.peers p = some st' ∧ viewOf st' = viewOf (st.applyMsg m)) ∧ (∀ q, q ≠ p → f.peers q = s.peers q) ∧
      Silent s f := by
  have hns := inboundMsg_nosend h
  unfold inboundMsg at h
  simp only [hp] at h
  cases hc : categorize s p (st.applyMsg m) with
  | none => simp only [hc] at h; cases h
  | some r =>
    obtain ⟨s1, st1⟩ := r
    simp only [hc, Option.some.injEq] at h
    subst h
    obtain ⟨hpq, hout, hpeers⟩ := categorize_proto hc
    refine ⟨⟨(leiosfetchInbound p (leiosnotifyInbound p (chainsyncInbound p
        (discoveryInbound s1 (handshakeInbound p st1).1).2).1).1).1, by simp [setPeer], ?_⟩, ?_, hns, ?_⟩
    · rw [leiosfetchInbound_view, leiosnotifyInbound_view, chainsyncInbound_view, discoveryInbound_view,
        handshakeInbound_view, hpq.view]
    · intro q hq
      simp only [discoveryInbound_peers, hpeers, setPeer, hq, if_false]
    · intro q hq
      simp only [discoveryInbound_out, hout, List.mem_append] at hq
      rcases hq with ((((hh | hh) | hh) | hh) | hh) | hh
      · exact hh
      · exact absurd hh (handshakeInbound_noconn _ _ _)
      · exact absurd hh (blockfetchInbound_noconn _ _ _)
      · exact absurd hh (chainsyncInbound_noconn _ _ _)
      · exact absurd hh (leiosnotifyInbound_noconn _ _ _)
      · exact absurd hh (leiosfetchInbound_noconn _ _ _)

theorem inboundAll_recv : ∀ (ms : List Msg) {s f : St} {p : Nat} {st : Peer} {v : Wire}, s.peers p = some st →
    advServer (viewOf st) ms = some v → inboundAll s p ms = some f →
    (∃ st', f.peers p = some st' ∧ viewOf st' = v) ∧ (∀ q, q ≠ p → f.peers q = s.peers q) ∧ Silent s f := by
  intro ms
  induction ms with
  | nil =>
    intro s f p st v hp ha h
    simp only [inboundAll, Option.some.injEq] at h; subst h
    simp only [advServer, Option.some.injEq] at ha; subst ha
    exact ⟨⟨st, hp, rfl⟩, fun _ _ => rfl, fun _ _ hh => hh, fun _ hh => hh⟩
  | cons m ms ih =>
    intro s f p st v hp ha h
    unfold inboundAll at h
    unfold advServer at ha
    cases hs : serverStep (viewOf st) m with
    | none => simp only [hs] at ha; cases ha
    | some v1 =>
      simp only [hs] at ha
      cases h1 : inboundMsg s p m with
      | none => simp only [h1] at h; cases h
      | some s1 =>
        simp only [h1] at h
        obtain ⟨⟨st1, hp1, hv1⟩, hfr1, hsil1⟩ := inboundMsg_recv hp h1
        rw [applyMsg_view_server hs] at hv1
        obtain ⟨hex, hfr, hsil⟩ := ih hp1 (by rw [hv1]; exact ha) h
        exact ⟨hex, fun q hq => (hfr q hq).trans (hfr1 q hq),
          fun q m' hh => hsil1.nosend q m' (hsil.nosend q m' hh), fun q hh => hsil1.noconn q (hsil.noconn q hh)⟩

theorem advServer_append (v : Wire) (a b : List Msg) :
    advServer v (a ++ b) = (advServer v a).bind (fun v' => advServer v' b) := by
  induction a generalizing v with
  | nil => rfl
  | cons m ms ih =>
    simp only [List.cons_append, advServer]
    cases serverStep v m with
    | none => rfl
    | some v1 => exact ih v1


/-! ### routing of outputs into the links -/

theorem setLink_same (f : Nat → LinkSt) (p : Nat) (l : LinkSt) : setLink f p l p = l := by simp [setLink]
theorem setLink_other (f : Nat → LinkSt) {p q : Nat} (l : LinkSt) (h : q ≠ p) : setLink f p l q = f q := by
  simp [setLink, h]

theorem absorb_up : ∀ (outs : List Out) (links : Nat → LinkSt) (p : Nat) (l : Link), links p = .up l →
    absorb links outs p = .up { l with unconfirmed := l.unconfirmed ++ sendsTo p outs, toResp := l.toResp ++ sendsTo p outs } := by
  intro outs
  induction outs with
  | nil => intro links p l h; simp [absorb, sendsTo, h]
  | cons o os ih =>
    intro links p l h
    cases o with
    | connect q =>
      simp only [absorb, sendsTo]
      apply ih
      cases hq : links q with
      | down =>
        simp only
        by_cases e : p = q
        · subst e; rw [h] at hq; cases hq
        · rw [setLink_other _ _ e]; exact h
      | pending => exact h
      | up l' => exact h
    | send q m =>
      simp only [absorb, sendsTo]
      by_cases e : q = p
      · subst e
        simp only [h, if_true]
        rw [ih _ q { l with unconfirmed := l.unconfirmed ++ [m], toResp := l.toResp ++ [m] } (setLink_same _ _ _)]
        simp [List.append_assoc]
      · simp only [e, if_false]
        apply ih
        cases hq : links q with
        | up l' => simp only; rw [setLink_other _ _ (Ne.symm e)]; exact h
        | down => exact h
        | pending => exact h
    | disconnect q => simp only [absorb, sendsTo]; exact ih links p l h
    | event ev => simp only [absorb, sendsTo]; exact ih links p l h

theorem absorb_pending : ∀ (outs : List Out) (links : Nat → LinkSt) (p : Nat), links p = .pending →
    absorb links outs p = .pending := by
  intro outs
  induction outs with
  | nil => intro links p h; simpa [absorb] using h
  | cons o os ih =>
    intro links p h
    cases o with
    | connect q =>
      simp only [absorb]
      apply ih
      cases hq : links q with
      | down =>
        simp only
        by_cases e : p = q
        · subst e; rw [h] at hq; cases hq
        · rw [setLink_other _ _ e]; exact h
      | pending => exact h
      | up l' => exact h
    | send q m =>
      simp only [absorb]
      apply ih
      cases hq : links q with
      | up l' =>
        simp only
        by_cases e : p = q
        · subst e; rw [h] at hq; cases hq
        · rw [setLink_other _ _ e]; exact h
      | down => exact h
      | pending => exact h
    | disconnect q => simp only [absorb]; exact ih links p h
    | event ev => simp only [absorb]; exact ih links p h

theorem absorb_down : ∀ (outs : List Out) (links : Nat → LinkSt) (p : Nat), links p = .down →
    absorb links outs p = .down ∨ (absorb links outs p = .pending ∧ Out.connect p ∈ outs) := by
  intro outs
  induction outs with
  | nil => intro links p h; left; simpa [absorb] using h
  | cons o os ih =>
    intro links p h
    cases o with
    | connect q =>
      simp only [absorb]
      by_cases e : p = q
      · subst e
        simp only [h]
        right
        exact ⟨absorb_pending os _ p (setLink_same _ _ _), List.mem_cons_self ..⟩
      · have h' : (match links q with | .down => setLink links q .pending | _ => links) p = .down := by
          cases hq : links q with
          | down => simp only; rw [setLink_other _ _ e]; exact h
          | pending => exact h
          | up l' => exact h
        rcases ih _ p h' with hh | ⟨hh, hm⟩
        · exact Or.inl hh
        · exact Or.inr ⟨hh, List.mem_cons_of_mem _ hm⟩
    | send q m =>
      simp only [absorb]
      have h' : (match links q with
          | .up l => setLink links q (.up { l with unconfirmed := l.unconfirmed ++ [m], toResp := l.toResp ++ [m] })
          | _ => links) p = .down := by
        cases hq : links q with
        | up l' =>
          simp only
          by_cases e : p = q
          · subst e; rw [h] at hq; cases hq
          · rw [setLink_other _ _ e]; exact h
        | down => exact h
        | pending => exact h
      rcases ih _ p h' with hh | ⟨hh, hm⟩
      · exact Or.inl hh
      · exact Or.inr ⟨hh, List.mem_cons_of_mem _ hm⟩
    | disconnect q =>
      simp only [absorb]
      rcases ih links p h with hh | ⟨hh, hm⟩
      · exact Or.inl hh
      · exact Or.inr ⟨hh, List.mem_cons_of_mem _ hm⟩
    | event ev =>
      simp only [absorb]
      rcases ih links p h with hh | ⟨hh, hm⟩
      · exact Or.inl hh
      · exact Or.inr ⟨hh, List.mem_cons_of_mem _ hm⟩

/-! ### the invariant -/

/-- what has to be true of an up link and the record of its peer while the `Send`s of `outs` are
    still to be confirmed and delivered -/
structure LinkOK (st : Peer) (l : Link) (ms : List Msg) : Prop where
  unconf : l.unconfirmed = ms
  toResp : l.toResp = ms
  rel : advServer (viewOf st) l.toInit = some l.w
  chain : (advClient (viewOf st) ms).isSome = true
  emittable : ∀ m, m ∈ ms → Emittable m
  ps : (∃ m, m ∈ ms ∧ m.proto = .ps) → st.ps ≠ .done

structure Mid (y : Sys) (outs : List Out) : Prop where
  up : ∀ p l, y.links p = .up l → ∃ st, y.st.peers p = some st ∧ LinkOK st l (sendsTo p outs)
  notUp : ∀ p, (∀ l, y.links p ≠ .up l) → ∀ st, y.st.peers p = some st → viewOf st = {}
  pend : ∀ p, y.links p = .pending → y.st.peers p ≠ none
  obs : y.observed = []

/-- nothing queued: the invariant of lock-step schedules between steps -/
def Sync (y : Sys) : Prop := Mid y []

theorem emittable_ps_keep {st : Peer} {m : Msg} (he : Emittable m) (h : st.ps ≠ .done) : (st.applyMsg m).ps ≠ .done := by
  cases m with
  | ps a =>
    cases a <;> simp only [Emittable] at he
    cases hps : st.ps with
    | idle r => simp [Peer.applyMsg, PsSt.apply, hps]
    | busy n => simp [Peer.applyMsg, PsSt.apply, hps]
    | done => exact absurd hps h
  | hs a => simp only [Peer.applyMsg]; split <;> exact h
  | ka a => simp only [Peer.applyMsg]; split <;> exact h
  | cs a => simp only [Peer.applyMsg]; split <;> exact h
  | bf a => simp only [Peer.applyMsg]; split <;> exact h
  | tx a => simp only [Peer.applyMsg]; split <;> exact h
  | ln a => simp only [Peer.applyMsg]; split <;> exact h
  | lf a => simp only [Peer.applyMsg]; split <;> exact h


theorem step_sent (s : St) (p : Nat) (m : Msg) : step s (.sent p m) = some (outboundMsg { s with out := [] } p m) := rfl

theorem sendsTo_cons_other {p q : Nat} (m : Msg) (os : List Out) (h : q ≠ p) :
    sendsTo q (.send p m :: os) = sendsTo q os := by
  simp only [sendsTo]; rw [if_neg (fun e => h e.symm)]

theorem sendsTo_cons_same (p : Nat) (m : Msg) (os : List Out) : sendsTo p (.send p m :: os) = m :: sendsTo p os := by
  simp only [sendsTo, if_true]

theorem outboundMsg_peer {s : St} {p : Nat} {st : Peer} (m : Msg) (h : s.peers p = some st) :
    (outboundMsg s p m).peers p = some (st.applyMsg m) := by
  unfold outboundMsg; simp only [h, setPeer, if_true]

theorem outboundMsg_other (s : St) {p q : Nat} (m : Msg) (hq : q ≠ p) : (outboundMsg s p m).peers q = s.peers q := by
  unfold outboundMsg; split
  · rfl
  · simp only [setPeer, hq, if_false]

theorem outboundMsg_out (s : St) (p : Nat) (m : Msg) : (outboundMsg s p m).out = s.out := by
  unfold outboundMsg; split <;> rfl

/-- confirming and delivering the oldest queued `Send` of an up link -/
theorem settle_one {y : Sys} {p : Nat} {m : Msg} {os : List Out} {l : Link} (hl : y.links p = .up l)
    (mid : Mid y (.send p m :: os)) :
    ∃ y1 y2, sysStep y (.confirm p) = some y1 ∧ sysStep y1 (.arrive p) = some y2 ∧ Mid y2 os := by
  obtain ⟨st, hst, lok⟩ := mid.up p l hl
  rw [sendsTo_cons_same] at lok
  have hmem : m ∈ m :: sendsTo p os := List.mem_cons_self ..
  have he := lok.emittable m hmem
  -- the specification permits `m` in the tracked view, hence (commutation) in the responder's view
  cases hc : clientStep (viewOf st) m with
  | none => have := lok.chain; simp only [advClient, hc] at this; cases this
  | some v1 =>
    have hchain' : (advClient v1 (sendsTo p os)).isSome = true := by
      have := lok.chain; simpa only [advClient, hc] using this
    obtain ⟨w', hw, hrel'⟩ := adv_commute l.toInit hc lok.rel
    have hps : m.proto = .ps → st.ps ≠ .done := fun hp => lok.ps ⟨m, hmem, hp⟩
    have hview := applyMsg_view_client he hps hc
    -- the two schedule steps
    let l1 : Link := { l with unconfirmed := sendsTo p os }
    let f : St := outboundMsg { y.st with out := [] } p m
    let y1 : Sys := { y with st := f, links := setLink y.links p (.up l1) }
    let l2 : Link := { l1 with toResp := sendsTo p os, w := w', cookie := cookieOf m l1.cookie }
    let y2 : Sys := { y1 with links := setLink y1.links p (.up l2) }
    have hfp : f.peers p = some (st.applyMsg m) :=
      outboundMsg_peer (s := { y.st with out := [] }) m hst
    have hfq : ∀ q, q ≠ p → f.peers q = y.st.peers q := fun q hq =>
      outboundMsg_other { y.st with out := [] } m hq
    have hfout : f.out = [] := outboundMsg_out { y.st with out := [] } p m
    have h1 : sysStep y (.confirm p) = some y1 := by
      simp only [sysStep, hl, lok.unconf, feed, step_sent]
      show some ({ st := f, links := absorb (setLink y.links p (.up l1)) f.out, observed := y.observed } : Sys) = some y1
      rw [hfout]; rfl
    have h2 : sysStep y1 (.arrive p) = some y2 := by
      have hl1 : y1.links p = .up l1 := setLink_same _ _ _
      have ht : l1.toResp = m :: sendsTo p os := lok.toResp
      have hw1 : clientStep l1.w m = some w' := hw
      simp only [sysStep, hl1, ht, hw1]
      rfl
    refine ⟨y1, y2, h1, h2, ?_, ?_, ?_, ?_⟩
    · intro q l' hq
      by_cases e : q = p
      · subst e
        have : y2.links q = .up l2 := setLink_same _ _ _
        rw [this] at hq
        have hl' := LinkSt.up.inj hq
        subst hl'
        refine ⟨st.applyMsg m, hfp, rfl, rfl, ?_, ?_, ?_, ?_⟩
        · rw [hview]; exact hrel'
        · rw [hview]; exact hchain'
        · exact fun m' hm' => lok.emittable m' (List.mem_cons_of_mem _ hm')
        · intro ⟨m', hm', hp'⟩
          exact emittable_ps_keep he (lok.ps ⟨m', List.mem_cons_of_mem _ hm', hp'⟩)
      · have : y2.links q = y.links q := by
          show setLink (setLink y.links p (.up l1)) p (.up l2) q = _
          rw [setLink_other _ _ e, setLink_other _ _ e]
        rw [this] at hq
        obtain ⟨stq, hstq, lokq⟩ := mid.up q l' hq
        rw [sendsTo_cons_other m os e] at lokq
        exact ⟨stq, (hfq q e).trans hstq, lokq⟩
    · intro q hq stq hstq
      have e : q ≠ p := by
        intro e; subst e
        exact hq l2 (setLink_same _ _ _)
      have hlq : y2.links q = y.links q := by
        show setLink (setLink y.links p (.up l1)) p (.up l2) q = _
        rw [setLink_other _ _ e, setLink_other _ _ e]
      refine mid.notUp q (fun l' hl' => hq l' (hlq.trans hl')) stq ?_
      rw [← hfq q e]; exact hstq
    · intro q hq
      have e : q ≠ p := by
        intro e; subst e
        have : y2.links q = .up l2 := setLink_same _ _ _
        rw [this] at hq; cases hq
      have hlq : y2.links q = y.links q := by
        show setLink (setLink y.links p (.up l1)) p (.up l2) q = _
        rw [setLink_other _ _ e, setLink_other _ _ e]
      show f.peers q ≠ none
      rw [hfq q e]; exact mid.pend q (hlq ▸ hq)
    · exact mid.obs

theorem settle_mid : ∀ (outs : List Out) (y : Sys), Mid y outs → ∃ y', sysRun y (settleOf outs) = some y' ∧ Mid y' [] := by
  intro outs
  induction outs with
  | nil => intro y mid; exact ⟨y, rfl, mid⟩
  | cons o os ih =>
    intro y mid
    cases o with
    | connect q => exact ih y ⟨mid.up, mid.notUp, mid.pend, mid.obs⟩
    | disconnect q => exact ih y ⟨mid.up, mid.notUp, mid.pend, mid.obs⟩
    | event ev => exact ih y ⟨mid.up, mid.notUp, mid.pend, mid.obs⟩
    | send p m =>
      cases hl : y.links p with
      | up l =>
        obtain ⟨y1, y2, h1, h2, mid2⟩ := settle_one hl mid
        obtain ⟨y', hr, mid'⟩ := ih y2 mid2
        exact ⟨y', by simp only [settleOf, sysRun, h1, h2, hr], mid'⟩
      | down =>
        have mid0 : Mid y os := ⟨fun q l' hq => by
            have e : q ≠ p := fun e => by subst e; rw [hl] at hq; cases hq
            obtain ⟨stq, hstq, lokq⟩ := mid.up q l' hq
            rw [sendsTo_cons_other m os e] at lokq
            exact ⟨stq, hstq, lokq⟩, mid.notUp, mid.pend, mid.obs⟩
        obtain ⟨y', hr, mid'⟩ := ih y mid0
        exact ⟨y', by simp only [settleOf, sysRun, sysStep, hl, hr], mid'⟩
      | pending =>
        have mid0 : Mid y os := ⟨fun q l' hq => by
            have e : q ≠ p := fun e => by subst e; rw [hl] at hq; cases hq
            obtain ⟨stq, hstq, lokq⟩ := mid.up q l' hq
            rw [sendsTo_cons_other m os e] at lokq
            exact ⟨stq, hstq, lokq⟩, mid.notUp, mid.pend, mid.obs⟩
        obtain ⟨y', hr, mid'⟩ := ih y mid0
        exact ⟨y', by simp only [settleOf, sysRun, sysStep, hl, hr], mid'⟩


/-! ### one event reaches the initiator: the invariant with its queued `Send`s -/

theorem linkOK_of_facts {s f : St} {p : Nat} {st0 st : Peer} {l : Link} (cf : CmdFacts s f) (hs0 : s.peers p = some st0)
    (hpe : ProtoEq st0 st) (lok : LinkOK st0 l []) :
    LinkOK st { l with unconfirmed := l.unconfirmed ++ sendsTo p f.out, toResp := l.toResp ++ sendsTo p f.out }
      (sendsTo p f.out) := by
  obtain ⟨hperm, hdist⟩ := cf.chain p st0 hs0
  refine ⟨by simp [lok.unconf], by simp [lok.toResp], ?_, ?_, fun m hm => (hperm m hm).1, ?_⟩
  · rw [hpe.view]; exact lok.rel
  · rw [hpe.view]
    exact advClient_of_distinct _ _ (fun m hm => (hperm m hm).2.1) hdist
  · intro ⟨m, hm, hp⟩
    rw [hpe.ps]; exact (hperm m hm).2.2.1 hp

theorem feed_mid {y : Sys} {f : St} (hs : Sync y) (cf : CmdFacts y.st f) :
    Mid { y with st := f, links := absorb y.links f.out } f.out := by
  refine ⟨?_, ?_, ?_, hs.obs⟩
  · intro p l1 h1
    have h1' : absorb y.links f.out p = .up l1 := h1
    cases hl : y.links p with
    | up l =>
      rw [absorb_up f.out y.links p l hl] at h1'
      have := LinkSt.up.inj h1'; subst this
      obtain ⟨st0, hst0, lok0⟩ := hs.up p l hl
      obtain ⟨st, hst, hpe⟩ := cf.fwd p st0 hst0
      exact ⟨st, hst, linkOK_of_facts cf hst0 hpe lok0⟩
    | pending => rw [absorb_pending f.out y.links p hl] at h1'; cases h1'
    | down =>
      rcases absorb_down f.out y.links p hl with hh | ⟨hh, _⟩ <;> (rw [hh] at h1'; cases h1')
  · intro p hnu st hst
    have hst' : f.peers p = some st := hst
    have hnu0 : ∀ l, y.links p ≠ .up l := by
      intro l hl
      exact hnu _ (absorb_up f.out y.links p l hl)
    cases h0 : y.st.peers p with
    | none => exact cf.new p st hst' h0
    | some st0 =>
      obtain ⟨st1, hst1, hpe⟩ := cf.fwd p st0 h0
      rw [hst'] at hst1; cases hst1
      rw [hpe.view]; exact hs.notUp p hnu0 st0 h0
  · intro p hp
    have hp' : absorb y.links f.out p = .pending := hp
    show f.peers p ≠ none
    cases hl : y.links p with
    | up l => rw [absorb_up f.out y.links p l hl] at hp'; cases hp'
    | pending =>
      cases h0 : y.st.peers p with
      | none => exact absurd h0 (hs.pend p hl)
      | some st0 =>
        obtain ⟨st1, hst1, _⟩ := cf.fwd p st0 h0
        rw [hst1]; exact Option.some_ne_none _
    | down =>
      rcases absorb_down f.out y.links p hl with hh | ⟨_, hm⟩
      · rw [hh] at hp'; cases hp'
      · exact cf.conn p hm

theorem feedSettle_sync {y y' : Sys} {e : Ev} (hs : Sync y) (cf : ∀ f, step y.st e = some f → CmdFacts y.st f)
    (h : feedSettle y e = some y') : Sync y' := by
  unfold feedSettle feed at h
  cases hst : step y.st e with
  | none => simp only [hst] at h; cases h
  | some f =>
    simp only [hst] at h
    obtain ⟨y'', hr, mid⟩ := settle_mid f.out _ (feed_mid hs (cf f hst))
    have : ({ y with st := f, links := absorb y.links f.out } : Sys).st.out = f.out := rfl
    rw [this, hr] at h
    cases h; exact mid

theorem absorb_silent : ∀ (outs : List Out) (links : Nat → LinkSt), (∀ q m, Out.send q m ∉ outs) → (∀ q, Out.connect q ∉ outs) →
    absorb links outs = links := by
  intro outs
  induction outs with
  | nil => intro links _ _; rfl
  | cons o os ih =>
    intro links h1 h2
    cases o with
    | connect q => exact absurd (List.mem_cons_self ..) (h2 q)
    | send q m => exact absurd (List.mem_cons_self ..) (h1 q m)
    | disconnect q =>
      simp only [absorb]
      exact ih links (fun q m hh => h1 q m (List.mem_cons_of_mem _ hh)) (fun q hh => h2 q (List.mem_cons_of_mem _ hh))
    | event ev =>
      simp only [absorb]
      exact ih links (fun q m hh => h1 q m (List.mem_cons_of_mem _ hh)) (fun q hh => h2 q (List.mem_cons_of_mem _ hh))

theorem settleOf_silent : ∀ (outs : List Out), (∀ q m, Out.send q m ∉ outs) → settleOf outs = [] := by
  intro outs
  induction outs with
  | nil => intro _; rfl
  | cons o os ih =>
    intro h1
    cases o with
    | send q m => exact absurd (List.mem_cons_self ..) (h1 q m)
    | connect q => simp only [settleOf]; exact ih (fun q m hh => h1 q m (List.mem_cons_of_mem _ hh))
    | disconnect q => simp only [settleOf]; exact ih (fun q m hh => h1 q m (List.mem_cons_of_mem _ hh))
    | event ev => simp only [settleOf]; exact ih (fun q m hh => h1 q m (List.mem_cons_of_mem _ hh))

/-- an event that queues nothing and touches only the record of `p` -/
theorem feedSettle_quiet {y0 y' : Sys} {e : Ev} {p : Nat}
    (hq : ∀ f, step y0.st e = some f → (∀ q m, Out.send q m ∉ f.out) ∧ (∀ q, Out.connect q ∉ f.out) ∧
      (∀ q, q ≠ p → f.peers q = y0.st.peers q))
    (h : feedSettle y0 e = some y') :
    ∃ f, step y0.st e = some f ∧ y' = { y0 with st := f } ∧ (∀ q, q ≠ p → f.peers q = y0.st.peers q) := by
  unfold feedSettle feed at h
  cases hst : step y0.st e with
  | none => simp only [hst] at h; cases h
  | some f =>
    simp only [hst] at h
    obtain ⟨h1, h2, h3⟩ := hq f hst
    have hout : ({ y0 with st := f, links := absorb y0.links f.out } : Sys).st.out = f.out := rfl
    rw [hout, settleOf_silent f.out h1, absorb_silent f.out y0.links h1 h2] at h
    simp only [sysRun, Option.some.injEq] at h
    exact ⟨f, rfl, h.symm, h3⟩


/-! ### every lock-step schedule step keeps the invariant -/

theorem sync_of_setLink_frame {y : Sys} {p : Nat} {f : St} {lp : LinkSt} (hs : Sync y)
    (hfr : ∀ q, q ≠ p → f.peers q = y.st.peers q)
    (hup : ∀ l, lp = .up l → ∃ st, f.peers p = some st ∧ LinkOK st l [])
    (hnu : (∀ l, lp ≠ .up l) → ∀ st, f.peers p = some st → viewOf st = {})
    (hpe : lp = .pending → f.peers p ≠ none) :
    Sync { y with st := f, links := setLink y.links p lp } := by
  refine ⟨?_, ?_, ?_, hs.obs⟩
  · intro q l hq
    have hq' : setLink y.links p lp q = .up l := hq
    by_cases e : q = p
    · subst e; rw [setLink_same] at hq'; exact hup l hq'
    · rw [setLink_other _ _ e] at hq'
      obtain ⟨st, hst, lok⟩ := hs.up q l hq'
      exact ⟨st, (hfr q e).trans hst, lok⟩
  · intro q hq st hst
    have hst' : f.peers q = some st := hst
    by_cases e : q = p
    · subst e
      exact hnu (fun l hl => hq l (by show setLink y.links q lp q = _; rw [setLink_same]; exact hl)) st hst'
    · refine hs.notUp q (fun l hl => hq l ?_) st ((hfr q e) ▸ hst')
      show setLink y.links p lp q = _
      rw [setLink_other _ _ e]; exact hl
  · intro q hq
    have hq' : setLink y.links p lp q = .pending := hq
    show f.peers q ≠ none
    by_cases e : q = p
    · subst e; rw [setLink_same] at hq'; exact hpe hq'
    · rw [setLink_other _ _ e] at hq'
      rw [hfr q e]; exact hs.pend q hq'

theorem step_recv (s : St) (p : Nat) (ms : List Msg) : step s (.recv p ms) = inboundAll { s with out := [] } p ms := rfl
theorem step_disconnected (s : St) (p : Nat) :
    step s (.disconnected p) = some (onDisconnected { s with out := [] } p) := rfl

theorem onDisconnected_facts (s : St) (p : Nat) :
    (onDisconnected s p).out = s.out ∧ (∀ q, q ≠ p → (onDisconnected s p).peers q = s.peers q) ∧
      (∀ st, (onDisconnected s p).peers p = some st → viewOf st = {}) := by
  unfold onDisconnected
  split
  · rename_i hn
    exact ⟨rfl, fun _ _ => rfl, fun st hst => by rw [hn] at hst; cases hst⟩
  · rename_i st0 _
    refine ⟨rfl, fun q hq => by simp [setPeer, leiosfetchPurge, hq], ?_⟩
    intro st hst
    have : setPeer (leiosfetchPurge s p).peers p st0.reset p = some st := hst
    simp only [setPeer, if_true, Option.some.injEq] at this
    subst this; rfl

theorem sync_step {y y' : Sys} {a : SStep} (hs : Sync y) (hok : a.ok) (h : syncStep y a = some y') : Sync y' := by
  cases a with
  | cmd e =>
    simp only [syncStep] at h
    by_cases hc : isCommand e = true
    · simp only [hc, if_true] at h
      exact feedSettle_sync hs (fun f hf => cmd_facts hc hok hf) h
    · simp only [hc] at h; cases h; exact hs
  | connect p =>
    simp only [syncStep] at h
    cases hl : y.links p with
    | pending =>
      simp only [hl] at h
      refine feedSettle_sync (y := { y with links := setLink y.links p (.up {}) }) ?_ (fun f hf => connected_facts hf) h
      have hnu : ∀ l, y.links p ≠ .up l := fun l hh => by rw [hl] at hh; cases hh
      exact sync_of_setLink_frame (f := y.st) hs (fun _ _ => rfl)
        (fun l hh => by
          have := LinkSt.up.inj hh; subst this
          cases hp : y.st.peers p with
          | none => exact absurd hp (hs.pend p hl)
          | some st =>
            refine ⟨st, rfl, rfl, rfl, ?_, rfl, fun m hm => (nomatch hm), fun ⟨m, hm, _⟩ => (nomatch hm)⟩
            show advServer (viewOf st) [] = some {}
            rw [hs.notUp p hnu st hp]; rfl)
        (fun hh => absurd rfl (hh {})) (fun hh => by cases hh)
    | down => simp only [hl] at h; cases h; exact hs
    | up l => simp only [hl] at h; cases h; exact hs
  | reply p x k =>
    simp only [syncStep, sysStep] at h
    cases hl : y.links p with
    | up l =>
      simp only [hl] at h
      cases hch : replyChoices l.w l.cookie x with
      | nil => simp only [hch] at h; cases h; exact hs
      | cons c cs =>
        simp only [hch] at h
        cases hsv : serverStep l.w ((c :: cs).getD (k % (cs.length + 1)) c) with
        | none => simp only [hsv] at h; cases h; exact hs
        | some w' =>
          simp only [hsv, Option.some.injEq] at h
          subst h
          obtain ⟨st, hst, lok⟩ := hs.up p l hl
          exact sync_of_setLink_frame (f := y.st) hs (fun _ _ => rfl)
            (fun l' hh => by
              have := LinkSt.up.inj hh; subst this
              refine ⟨st, hst, lok.unconf, lok.toResp, ?_, lok.chain, lok.emittable, lok.ps⟩
              show advServer (viewOf st) (l.toInit ++ [_]) = some w'
              rw [advServer_append, lok.rel]
              simp only [Option.bind, advServer, hsv])
            (fun hh => absurd rfl (hh _)) (fun hh => by cases hh)
    | down => simp only [hl] at h; cases h; exact hs
    | pending => simp only [hl] at h; cases h; exact hs
  | deliver p n =>
    simp only [syncStep] at h
    cases hl : y.links p with
    | up l =>
      simp only [hl] at h
      cases hti : l.toInit with
      | nil => simp only [hti] at h; cases h; exact hs
      | cons m0 ms0 =>
        simp only [hti] at h
        obtain ⟨st, hst, lok⟩ := hs.up p l hl
        -- the batch is a prefix of the replies in flight
        have hsplit : l.toInit = (m0 :: ms0).take (n + 1) ++ (m0 :: ms0).drop (n + 1) := by
          rw [hti]; exact (List.take_append_drop _ _).symm
        have hrel := lok.rel
        rw [hsplit, advServer_append] at hrel
        cases hv : advServer (viewOf st) ((m0 :: ms0).take (n + 1)) with
        | none => rw [hv] at hrel; cases hrel
        | some v =>
          rw [hv] at hrel
          have hrel' : advServer v ((m0 :: ms0).drop (n + 1)) = some l.w := hrel
          obtain ⟨f, hf, hy', hfr⟩ := feedSettle_quiet (p := p)
            (y0 := { y with links := setLink y.links p (.up { l with toInit := (m0 :: ms0).drop (n + 1) }) })
            (fun f hf => by
              rw [step_recv] at hf
              obtain ⟨_, hfr, hsil⟩ := inboundAll_recv (s := { y.st with out := [] }) _ hst hv hf
              exact ⟨fun q m hh => (nomatch hsil.nosend q m hh), fun q hh => (nomatch hsil.noconn q hh), hfr⟩) h
          subst hy'
          rw [step_recv] at hf
          obtain ⟨⟨st', hst', hv'⟩, _, _⟩ := inboundAll_recv (s := { y.st with out := [] }) _ hst hv hf
          exact sync_of_setLink_frame hs hfr
            (fun l' hh => by
              have := LinkSt.up.inj hh; subst this
              exact ⟨st', hst', lok.unconf, lok.toResp, by rw [hv']; exact hrel', rfl,
                fun m hm => (nomatch hm), fun ⟨m, hm, _⟩ => (nomatch hm)⟩)
            (fun hh => absurd rfl (hh _)) (fun hh => by cases hh)
    | down => simp only [hl] at h; cases h; exact hs
    | pending => simp only [hl] at h; cases h; exact hs
  | drop p =>
    simp only [syncStep] at h
    have key : ∀ (hnd : y.links p ≠ .down),
        feedSettle { y with links := setLink y.links p .down } (.disconnected p) = some y' → Sync y' := by
      intro _ h'
      obtain ⟨hout, hfr0, hview⟩ := onDisconnected_facts { y.st with out := [] } p
      obtain ⟨f, hf, hy', hfr⟩ := feedSettle_quiet (p := p) (y0 := { y with links := setLink y.links p .down })
        (fun f hf => by
          rw [step_disconnected] at hf; cases hf
          exact ⟨fun q m hh => (by rw [hout] at hh; cases hh), fun q hh => (by rw [hout] at hh; cases hh), hfr0⟩) h'
      subst hy'
      rw [step_disconnected] at hf; cases hf
      exact sync_of_setLink_frame hs hfr0 (fun l hh => by cases hh) (fun _ st hst => hview st hst) (fun hh => by cases hh)
    cases hl : y.links p with
    | down => simp only [hl] at h; cases h; exact hs
    | pending => simp only [hl] at h; exact key (by rw [hl]; exact fun hh => by cases hh) h
    | up l => simp only [hl] at h; exact key (by rw [hl]; exact fun hh => by cases hh) h
  | fail p =>
    simp only [syncStep] at h
    cases hl : y.links p with
    | down => simp only [hl] at h; cases h; exact hs
    | pending => simp only [hl] at h; exact feedSettle_sync hs (fun f hf => error_facts hf) h
    | up l => simp only [hl] at h; exact feedSettle_sync hs (fun f hf => error_facts hf) h

theorem sync_init (cfg : Cfg) : Sync (Sys.init cfg) :=
  ⟨fun p l h => (by cases h), fun p _ st h => (by cases h), fun p h => (by cases h), rfl⟩

theorem sync_run : ∀ (ss : List SStep) {y y' : Sys}, Sync y → (∀ a, a ∈ ss → a.ok) → syncRun y ss = some y' → Sync y' := by
  intro ss
  induction ss with
  | nil => intro y y' hs _ h; simp only [syncRun, Option.some.injEq] at h; subst h; exact hs
  | cons a as ih =>
    intro y y' hs hok h
    unfold syncRun at h
    cases h1 : syncStep y a with
    | none => simp only [h1] at h; cases h
    | some y1 =>
      simp only [h1] at h
      exact ih (sync_step hs (hok a (List.mem_cons_self ..)) h1) (fun b hb => hok b (List.mem_cons_of_mem _ hb)) h

/-! ### lock-step schedules are schedules -/

def SStep.toSched : SStep → Sched
  | .cmd e => .ev e
  | .connect p => .connect p
  | .reply p x k => .reply p x k
  | .deliver p n => .deliver p n
  | .drop p => .drop p
  | .fail p => .fail p

theorem feedSettle_sched (y0 : Sys) (e : Ev) : ∃ tail : List Sched, feedSettle y0 e = (feed y0 e).bind (fun y1 => sysRun y1 tail) := by
  unfold feedSettle
  cases hf : feed y0 e with
  | none => exact ⟨[], rfl⟩
  | some y1 => exact ⟨settleOf y1.st.out, rfl⟩

theorem sysRun_cons (y : Sys) (a : Sched) (as : List Sched) :
    sysRun y (a :: as) = (sysStep y a).bind (fun y1 => sysRun y1 as) := by
  simp only [sysRun]; cases sysStep y a <;> rfl

/-- each lock-step step is the corresponding general step followed by `confirm`/`arrive` steps -/
theorem syncStep_is_schedule (y : Sys) (a : SStep) : ∃ tail : List Sched, sysRun y (a.toSched :: tail) = syncStep y a := by
  cases a with
  | cmd e =>
    by_cases hc : isCommand e = true
    · obtain ⟨tail, ht⟩ := feedSettle_sched y e
      exact ⟨tail, by rw [sysRun_cons]; simp only [SStep.toSched, sysStep, syncStep, hc, if_true, ht]⟩
    · exact ⟨[], by rw [sysRun_cons]; simp [SStep.toSched, sysStep, syncStep, hc, sysRun]⟩
  | connect p =>
    cases hl : y.links p with
    | pending =>
      obtain ⟨tail, ht⟩ := feedSettle_sched { y with links := setLink y.links p (.up {}) } (.connected p)
      exact ⟨tail, by rw [sysRun_cons]; simp only [SStep.toSched, sysStep, syncStep, hl, ht]⟩
    | down => exact ⟨[], by rw [sysRun_cons]; simp [SStep.toSched, sysStep, syncStep, hl, sysRun]⟩
    | up l => exact ⟨[], by rw [sysRun_cons]; simp [SStep.toSched, sysStep, syncStep, hl, sysRun]⟩
  | reply p x k =>
    refine ⟨[], ?_⟩
    rw [sysRun_cons]
    simp only [SStep.toSched, syncStep]
    cases sysStep y (.reply p x k) <;> rfl
  | deliver p n =>
    cases hl : y.links p with
    | up l =>
      cases hti : l.toInit with
      | nil => exact ⟨[], by rw [sysRun_cons]; simp [SStep.toSched, sysStep, syncStep, hl, hti, sysRun]⟩
      | cons m0 ms0 =>
        obtain ⟨tail, ht⟩ := feedSettle_sched
          { y with links := setLink y.links p (.up { l with toInit := (m0 :: ms0).drop (n + 1) }) } (.recv p ((m0 :: ms0).take (n + 1)))
        exact ⟨tail, by rw [sysRun_cons]; simp only [SStep.toSched, sysStep, syncStep, hl, hti, ht]⟩
    | down => exact ⟨[], by rw [sysRun_cons]; simp [SStep.toSched, sysStep, syncStep, hl, sysRun]⟩
    | pending => exact ⟨[], by rw [sysRun_cons]; simp [SStep.toSched, sysStep, syncStep, hl, sysRun]⟩
  | drop p =>
    cases hl : y.links p with
    | down => exact ⟨[], by rw [sysRun_cons]; simp [SStep.toSched, sysStep, syncStep, hl, sysRun]⟩
    | pending =>
      obtain ⟨tail, ht⟩ := feedSettle_sched { y with links := setLink y.links p .down } (.disconnected p)
      exact ⟨tail, by rw [sysRun_cons]; simp only [SStep.toSched, sysStep, syncStep, hl, ht]⟩
    | up l =>
      obtain ⟨tail, ht⟩ := feedSettle_sched { y with links := setLink y.links p .down } (.disconnected p)
      exact ⟨tail, by rw [sysRun_cons]; simp only [SStep.toSched, sysStep, syncStep, hl, ht]⟩
  | fail p =>
    cases hl : y.links p with
    | down => exact ⟨[], by rw [sysRun_cons]; simp [SStep.toSched, sysStep, syncStep, hl, sysRun]⟩
    | pending =>
      obtain ⟨tail, ht⟩ := feedSettle_sched y (.error p)
      exact ⟨tail, by rw [sysRun_cons]; simp only [SStep.toSched, sysStep, syncStep, hl, ht]⟩
    | up l =>
      obtain ⟨tail, ht⟩ := feedSettle_sched y (.error p)
      exact ⟨tail, by rw [sysRun_cons]; simp only [SStep.toSched, sysStep, syncStep, hl, ht]⟩

end PallasVerif.P2P
