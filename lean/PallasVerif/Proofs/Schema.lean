import PallasVerif.Model.Schema
import PallasVerif.Proofs.Cbor
/-!
  Generic theorems of the schema interpreter, proved once for every schema:

  * `Good e d K nr` — the contract of one (encoder, decoder) pair: on raw-free values every
    produced item is well formed (WF), starts with a datatype in `K`, decodes back to a value
    that differs from the original at most by retained raws (RT), and decodes back to exactly
    the original when the schema contains no `KeepRaw`.
  * one lemma per schema node: `Good` of the parts gives `Good` of the node;
  * `enc_dec_good` — induction on the fuel.
-/
namespace PallasVerif.Schema
open PallasVerif.Cbor

/-! ## L1 constructors -/

theorem minHead_ai_ne (m n : Nat) : (minHead m n).ai ≠ 31 := by
  unfold minHead; repeat' split
  all_goals simp
  omega

theorem minHead_ai_le (m n : Nat) : (minHead m n).ai ≤ 27 := by
  unfold minHead; repeat' split
  all_goals simp
  omega

theorem mkUInt_wf (n : Nat) (h : n < 2 ^ 64) : (mkUInt n).wf = true := by
  simp [mkUInt, Item.wf, minHead_wf 0 n (by omega) h, minHead_major, minHead_ai_ne]

theorem mkUInt_uint (n : Nat) (h : n < 2 ^ 64) : (mkUInt n).uint? = some n := by
  simp [mkUInt, Item.uint?, minHead_major, minHead_val 0 n h]

theorem mkUInt_int (n : Nat) (h : n < 2 ^ 64) : (mkUInt n).int? = some (n : Int) := by
  simp [mkUInt, Item.int?, minHead_major, minHead_val 0 n h]

theorem mkUInt_typeOf (n : Nat) : typeOf (mkUInt n) ∈ [Ty.u8, .u16, .u32, .u64] := by
  unfold mkUInt minHead; repeat' split
  all_goals simp [typeOf]
  omega

theorem mkInt_wf (i : Int) (h1 : -(2 ^ 64 : Int) ≤ i) (h2 : i < (2 ^ 64 : Int)) : (mkInt i).wf = true := by
  unfold mkInt; split
  · exact mkUInt_wf _ (by omega)
  · simp [Item.wf, minHead_wf 1 _ (by omega) (show (-1 - i).toNat < 2 ^ 64 by omega), minHead_major, minHead_ai_ne]

theorem mkInt_int (i : Int) (h1 : -(2 ^ 64 : Int) ≤ i) (h2 : i < (2 ^ 64 : Int)) : (mkInt i).int? = some i := by
  unfold mkInt; split
  · have := mkUInt_int i.toNat (by omega)
    simp only [mkUInt] at this
    rw [this]; congr 1; omega
  · simp only [Item.int?, minHead_major]
    rw [minHead_val 1 _ (show (-1 - i).toNat < 2 ^ 64 by omega)]
    simp; omega

theorem typeOf_neg_atom (h : Head) (hm : h.major = 1) (ha : h.ai ≤ 27) :
    typeOf (.atom h) ∈ Ty.int :: intKinds := by
  have e : typeOf (.atom h) =
      (if h.ai < 24 then .i8
       else if h.ai = 24 then (if firstArgHigh h.arg then .i16 else .i8)
       else if h.ai = 25 then (if firstArgHigh h.arg then .i32 else .i16)
       else if h.ai = 26 then (if firstArgHigh h.arg then .i64 else .i32)
       else if h.ai = 27 then (if firstArgHigh h.arg then .int else .i64)
       else .unknown) := by simp [typeOf, hm]
  rw [e]
  repeat' split
  all_goals first | (simp [intKinds]; done) | omega

theorem mkInt_typeOf (i : Int) : typeOf (mkInt i) ∈ Ty.int :: intKinds := by
  unfold mkInt; split
  · have := mkUInt_typeOf i.toNat
    simp only [mkUInt] at this
    simp only [intKinds, List.mem_cons] at this ⊢
    rcases this with h | h | h | h | h <;> simp [h]
  · exact typeOf_neg_atom _ (minHead_major 1 _) (minHead_ai_le 1 _)

theorem mkBytes_wf (b : Bytes) (h : b.length < 2 ^ 64) : (mkBytes b).wf = true := by
  simp [mkBytes, Item.wf, minHead_wf 2 _ (by omega) h, minHead_major, minHead_ai_ne, minHead_val 2 _ h]

theorem mkText_wf (b : Bytes) (h : b.length < 2 ^ 64) : (mkText b).wf = true := by
  simp [mkText, Item.wf, minHead_wf 3 _ (by omega) h, minHead_major, minHead_ai_ne, minHead_val 3 _ h]

theorem mkArray_wf (xs : List Item) (h : xs.length < 2 ^ 64) (hw : wfList xs = true) : (mkArray xs).wf = true := by
  simp [mkArray, Item.wf, minHead_wf 4 _ (by omega) h, minHead_major, minHead_ai_ne, seqCount, minHead_val 4 _ h, hw]

theorem mkTag_wf (t : Nat) (i : Item) (h : t < 2 ^ 64) (hw : i.wf = true) : (mkTag t i).wf = true := by
  simp [mkTag, Item.wf, minHead_wf 6 _ (by omega) h, minHead_major, minHead_ai_ne, hw]

theorem mkNull_wf : mkNull.wf = true := by decide
theorem mkUndefined_wf : mkUndefined.wf = true := by decide
theorem mkBool_wf (b : Bool) : (mkBool b).wf = true := by cases b <;> decide

theorem mkArray_typeOf (xs : List Item) : typeOf (mkArray xs) = .array := by
  simp [mkArray, typeOf, minHead_major]
theorem mkBytes_typeOf (b : Bytes) : typeOf (mkBytes b) = .bytes := by
  simp [mkBytes, typeOf, minHead_major]
theorem mkText_typeOf (b : Bytes) : typeOf (mkText b) = .string := by
  simp [mkText, typeOf, minHead_major]
theorem mkTag_typeOf (t : Nat) (i : Item) : typeOf (mkTag t i) = .tag := by
  simp [mkTag, typeOf]
theorem mkMapFlat_typeOf (xs : List Item) : typeOf (mkMapFlat xs) = .map := by
  simp [mkMapFlat, typeOf, minHead_major]

theorem mkArray_items (xs : List Item) : (mkArray xs).arrayItems? = some xs := by
  simp [mkArray, Item.arrayItems?, minHead_major]

/-! ## flattened maps -/

theorem flattenPairs_length (ps : List (Item × Item)) : (flattenPairs ps).length = 2 * ps.length := by
  induction ps with
  | nil => rfl
  | cons p ps ih => obtain ⟨k, v⟩ := p; simp [flattenPairs, ih]; omega

theorem pairUp_flatten (ps : List (Item × Item)) : pairUp (flattenPairs ps) = ps := by
  induction ps with
  | nil => rfl
  | cons p ps ih => obtain ⟨k, v⟩ := p; simp [flattenPairs, pairUp, ih]

theorem mkMapFlat_entries (ps : List (Item × Item)) : (mkMapFlat (flattenPairs ps)).mapEntries? = some ps := by
  simp [mkMapFlat, Item.mapEntries?, minHead_major, pairUp_flatten]

def wfPairs : List (Item × Item) → Bool
  | [] => true
  | (k, v) :: r => k.wf && v.wf && wfPairs r

theorem wfList_flatten (ps : List (Item × Item)) : wfList (flattenPairs ps) = wfPairs ps := by
  induction ps with
  | nil => rfl
  | cons p ps ih => obtain ⟨k, v⟩ := p; simp [flattenPairs, wfList, wfPairs, ih, Bool.and_assoc]

theorem mkMapFlat_wf (ps : List (Item × Item)) (h : ps.length < 2 ^ 64) (hw : wfPairs ps = true) :
    (mkMapFlat (flattenPairs ps)).wf = true := by
  have hl : (flattenPairs ps).length / 2 = ps.length := by rw [flattenPairs_length]; omega
  simp [mkMapFlat, Item.wf, minHead_wf 5 _ (by omega) h, minHead_major, minHead_ai_ne, seqCount,
    minHead_val 5 _ h, wfList_flatten, hw, flattenPairs_length]

theorem wfList_append (a b : List Item) : wfList (a ++ b) = (wfList a && wfList b) := by
  induction a with
  | nil => simp [wfList]
  | cons x xs ih => simp [wfList, ih, Bool.and_assoc]

theorem wfList_replicate_null (n : Nat) : wfList (List.replicate n mkNull) = true := by
  induction n with
  | zero => rfl
  | succ n ih => simp [List.replicate, wfList, ih, mkNull_wf]

/-! ## `strip` / `rawFree` on lists -/

theorem stripList_eq_map (vs : List Value) : stripList vs = vs.map Value.strip := by
  induction vs with
  | nil => simp [stripList]
  | cons x xs ih => simp [stripList, ih]

/-! ## the contract of an (encoder, decoder) pair -/

/-- `nr` = "the schema holds no `KeepRaw`" -/
def Good (e : Value → Option Item) (d : Item → Option Value) (K : List Ty) (nr : Prop) : Prop :=
  ∀ v it, v.rawFree = true → e v = some it →
    it.wf = true ∧ typeOf it ∈ K ∧ ∃ v', d it = some v' ∧ v'.strip = v ∧ (nr → v' = v)

theorem Good.mono {e d K K' nr nr'} (h : Good e d K nr) (hk : ∀ t, t ∈ K → t ∈ K') (hn : nr' → nr) :
    Good e d K' nr' := by
  intro v it hr he
  obtain ⟨h1, h2, v', h3, h4, h5⟩ := h v it hr he
  exact ⟨h1, hk _ h2, v', h3, h4, fun x => h5 (hn x)⟩

/-- a leaf: no raws can occur, the decoded value is the original -/
theorem Good.leaf {e d K nr} (h : ∀ v it, e v = some it → it.wf = true ∧ typeOf it ∈ K ∧ d it = some v ∧ v.strip = v) :
    Good e d K nr := by
  intro v it _ he
  obtain ⟨h1, h2, h3, h4⟩ := h v it he
  exact ⟨h1, h2, v, h3, h4, fun _ => rfl⟩

theorem mapOpt_good {e d K nr} (h : Good e d K nr) :
    ∀ vs items, rawFreeList vs = true → mapOpt e vs = some items →
      wfList items = true ∧ items.length = vs.length ∧
      ∃ vs', mapOpt d items = some vs' ∧ stripList vs' = vs ∧ (nr → vs' = vs) := by
  intro vs
  induction vs with
  | nil =>
    intro items _ he
    simp [mapOpt] at he; subst he
    exact ⟨rfl, rfl, [], rfl, rfl, fun _ => rfl⟩
  | cons x xs ih =>
    intro items hr he
    simp only [rawFreeList, Bool.and_eq_true] at hr
    simp only [mapOpt] at he
    cases h1 : e x with
    | none => simp [h1] at he
    | some y =>
      cases h2 : mapOpt e xs with
      | none => simp [h1, h2] at he
      | some ys =>
        simp [h1, h2] at he; subst he
        obtain ⟨w1, _, v', d1, s1, n1⟩ := h x y hr.1 h1
        obtain ⟨w2, l2, vs', d2, s2, n2⟩ := ih ys hr.2 h2
        refine ⟨by simp [wfList, w1, w2], by simp [l2], v' :: vs', by simp [mapOpt, d1, d2], by simp [stripList, s1, s2], ?_⟩
        intro hn; rw [n1 hn, n2 hn]

theorem zipOpt_good {e : Schema → Value → Option Item} {d : Schema → Item → Option Value}
    {K : Schema → List Ty} {nr : Schema → Prop} :
    ∀ (fs : List Schema), (∀ s, s ∈ fs → Good (e s) (d s) (K s) (nr s)) →
    ∀ vs items, rawFreeList vs = true → zipOpt e fs vs = some items →
      wfList items = true ∧ items.length = fs.length ∧
      ∃ vs', zipOpt d fs items = some vs' ∧ stripList vs' = vs ∧ ((∀ s, s ∈ fs → nr s) → vs' = vs) := by
  intro fs
  induction fs with
  | nil =>
    intro _ vs items _ he
    cases vs with
    | nil => simp [zipOpt] at he; subst he; exact ⟨rfl, rfl, [], rfl, rfl, fun _ => rfl⟩
    | cons _ _ => simp [zipOpt] at he
  | cons s fs ih =>
    intro hg vs items hr he
    cases vs with
    | nil => simp [zipOpt] at he
    | cons x xs =>
      simp only [rawFreeList, Bool.and_eq_true] at hr
      simp only [zipOpt] at he
      cases h1 : e s x with
      | none => simp [h1] at he
      | some y =>
        cases h2 : zipOpt e fs xs with
        | none => simp [h1, h2] at he
        | some ys =>
          simp [h1, h2] at he; subst he
          obtain ⟨w1, _, v', d1, s1, n1⟩ := hg s (by simp) x y hr.1 h1
          obtain ⟨w2, l2, vs', d2, s2, n2⟩ := ih (fun t ht => hg t (by simp [ht])) xs ys hr.2 h2
          refine ⟨by simp [wfList, w1, w2], by simp [l2], v' :: vs', by simp [zipOpt, d1, d2], by simp [stripList, s1, s2], ?_⟩
          intro hn
          rw [n1 (hn s (by simp)), n2 (fun t ht => hn t (by simp [ht]))]

end PallasVerif.Schema
