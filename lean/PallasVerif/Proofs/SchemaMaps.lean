import PallasVerif.Proofs.SchemaNodes2
/-! `BTreeMap` and `KeyValuePairs`. -/
namespace PallasVerif.Schema
open PallasVerif.Cbor

def isPair : Value → Bool
  | .list [_, _] => true
  | _ => false

def allPairs : List Value → Bool
  | [] => true
  | x :: r => isPair x && allPairs r

theorem isPair_elim {x : Value} (h : isPair x = true) : ∃ k v, x = .list [k, v] := by
  unfold isPair at h
  split at h
  · exact ⟨_, _, rfl⟩
  · simp at h

theorem mapPairs_good {ek dk Kk nrk ev dv Kv nrv} (hk : Good ek dk Kk nrk) (hv : Good ev dv Kv nrv) :
    ∀ kvs ps, rawFreeList kvs = true → mapOpt (encPair ek ev) kvs = some ps →
      wfPairs ps = true ∧ ps.length = kvs.length ∧
      ∃ kvs', mapOpt (decPair dk dv) ps = some kvs' ∧ stripList kvs' = kvs ∧ allPairs kvs' = true ∧
        (nrk → kvs'.map keyOf = kvs.map keyOf) ∧ (nrk ∧ nrv → kvs' = kvs) := by
  intro kvs
  induction kvs with
  | nil =>
    intro ps _ he
    simp [mapOpt] at he; subst he
    exact ⟨rfl, rfl, [], rfl, rfl, rfl, fun _ => rfl, fun _ => rfl⟩
  | cons x xs ih =>
    intro ps hr he
    simp only [rawFreeList, Bool.and_eq_true] at hr
    simp only [mapOpt] at he
    cases h1 : encPair ek ev x with
    | none => simp [h1] at he
    | some y =>
      cases h2 : mapOpt (encPair ek ev) xs with
      | none => simp [h1, h2] at he
      | some ys =>
        simp [h1, h2] at he; subst he
        obtain ⟨w2, l2, kvs', d2, s2, p2, k2, n2⟩ := ih ys hr.2 h2
        -- the head pair
        unfold encPair at h1
        split at h1
        · rename_i a b
          cases ha : ek a with
          | none => simp [ha] at h1
          | some ia =>
            cases hb : ev b with
            | none => simp [ha, hb] at h1
            | some ib =>
              simp [ha, hb] at h1; subst h1
              have hra : a.rawFree = true ∧ b.rawFree = true := by
                have := hr.1; simp [Value.rawFree, rawFreeList] at this; exact this
              obtain ⟨wa, _, a', da, sa, na⟩ := hk a ia hra.1 ha
              obtain ⟨wb, _, b', db, sb, nb⟩ := hv b ib hra.2 hb
              refine ⟨by simp [wfPairs, wa, wb, w2], by simp [l2], .list [a', b'] :: kvs', ?_, ?_, ?_, ?_, ?_⟩
              · simp [mapOpt, decPair, da, db, d2]
              · simp [stripList, Value.strip, sa, sb, s2]
              · simp [allPairs, isPair, p2]
              · intro hn; simp [keyOf, na hn, k2 hn]
              · intro hn; rw [na hn.1, nb hn.2, n2 hn]
        · simp at h1

theorem mapOpt_encPair_allPairs {ek ev} : ∀ kvs ps, mapOpt (encPair ek ev) kvs = some ps → allPairs kvs = true := by
  intro kvs
  induction kvs with
  | nil => intro _ _; rfl
  | cons x xs ih =>
    intro ps he
    simp only [mapOpt] at he
    cases h1 : encPair ek ev x with
    | none => simp [h1] at he
    | some y =>
      cases h2 : mapOpt (encPair ek ev) xs with
      | none => simp [h1, h2] at he
      | some ys =>
        have hx : isPair x = true := by
          unfold encPair at h1
          split at h1
          · rfl
          · simp at h1
        simp [allPairs, hx, ih ys h2]

/-! ### inserting sorted entries into a `BTreeMap` rebuilds the same list -/

theorem insertKV_append (k v : Value) : ∀ acc, allPairs acc = true →
    (∀ a, a ∈ acc → (keyOf a).lt k = true) → insertKV k v acc = acc ++ [.list [k, v]] := by
  intro acc
  induction acc with
  | nil => intro _ _; rfl
  | cons a rest ih =>
    intro hp hl
    simp only [allPairs, Bool.and_eq_true] at hp
    obtain ⟨k', v', rfl⟩ := isPair_elim hp.1
    have h1 : k'.lt k = true := by simpa [keyOf] using hl (.list [k', v']) (by simp)
    simp only [insertKV, h1, if_true, List.cons_append]
    rw [ih hp.2 (fun a ha => hl a (by simp [ha]))]

theorem foldl_insert_sorted : ∀ kvs acc, allPairs kvs = true → allPairs acc = true →
    (∀ a, a ∈ acc → ∀ x, x ∈ kvs → (keyOf a).lt (keyOf x) = true) →
    strictSorted (kvs.map keyOf) = true →
    kvs.foldl insertEntry acc = acc ++ kvs := by
  intro kvs
  induction kvs with
  | nil => intro acc _ _ _ _; simp
  | cons x r ih =>
    intro acc hp hpa hlt hs
    simp only [allPairs, Bool.and_eq_true] at hp
    obtain ⟨k, v, rfl⟩ := isPair_elim hp.1
    simp only [List.map_cons, strictSorted, Bool.and_eq_true, List.all_eq_true] at hs
    have hins : insertEntry acc (.list [k, v]) = acc ++ [.list [k, v]] := by
      simp only [insertEntry]
      exact insertKV_append k v acc hpa (fun a ha => by simpa [keyOf] using hlt a ha (.list [k, v]) (by simp))
    simp only [List.foldl_cons, hins]
    rw [ih (acc ++ [Value.list [k, v]]) hp.2]
    · simp
    · have : allPairs (acc ++ [Value.list [k, v]]) = true := by
        clear hins hlt ih
        induction acc with
        | nil => simp [allPairs, isPair]
        | cons a t iha =>
          simp only [allPairs, Bool.and_eq_true] at hpa
          simp [allPairs, hpa.1, iha hpa.2]
      exact this
    · intro a ha x hx
      simp only [List.mem_append, List.mem_singleton] at ha
      rcases ha with ha | rfl
      · exact hlt a ha x (by simp [hx])
      · have := hs.1 (keyOf x) (by simp; exact ⟨x, hx, rfl⟩)
        simpa [keyOf] using this
    · exact hs.2

theorem good_btmap {ek dk Kk nrk ev dv Kv nrv} (hk : Good ek dk Kk nrk) (hkn : nrk) (hv : Good ev dv Kv nrv) :
    Good (encBTMap ek ev) (decBTMap dk dv) [.map] nrv := by
  intro v it hr he
  cases v <;> simp [encBTMap] at he
  case list kvs =>
    obtain ⟨⟨hl, hs⟩, ps, hm, rfl⟩ := he
    simp only [Value.rawFree] at hr
    obtain ⟨w, l, kvs', dd, ss, pp, kk, nn⟩ := mapPairs_good hk hv kvs ps hr hm
    have hs' : strictSorted (kvs'.map keyOf) = true := by rw [kk hkn]; exact hs
    have hf := foldl_insert_sorted kvs' [] pp rfl (fun a ha => by simp at ha) hs'
    refine ⟨mkMapFlat_wf ps (by omega) w, by simp [mkMapFlat_typeOf], .list kvs', ?_, by simp [Value.strip, ss],
      fun x => by rw [nn ⟨hkn, x⟩]⟩
    simp [decBTMap, mkMapFlat_entries, dd, hf]

theorem seqIndef5_wf (ps : List (Item × Item)) (hw : wfPairs ps = true) : (Item.seqIndef 5 (flattenPairs ps)).wf = true := by
  simp [Item.wf, wfList_flatten, hw, flattenPairs_length]

theorem good_kvPairs {ek dk Kk nrk ev dv Kv nrv} (hk : Good ek dk Kk nrk) (hv : Good ev dv Kv nrv) :
    Good (encKvPairs ek ev) (decKvPairs dk dv) [.map, .mapIndef] (nrk ∧ nrv) := by
  intro v it hr he
  cases v with
  | variant pos fields =>
    match pos, fields, he with
    | 0, [.list kvs], he =>
      simp [encKvPairs] at he
      obtain ⟨hl, ps, hm, rfl⟩ := he
      simp only [Value.rawFree, rawFreeList, Bool.and_true] at hr
      obtain ⟨w, l, kvs', dd, ss, _, _, nn⟩ := mapPairs_good hk hv kvs ps hr hm
      refine ⟨mkMapFlat_wf ps (by omega) w, by simp [mkMapFlat_typeOf], .variant 0 [.list kvs'], ?_,
        by simp [Value.strip, stripList, ss], fun x => by rw [nn x]⟩
      simp [decKvPairs, mkMapFlat_typeOf, decKvList, mkMapFlat_entries, dd]
    | 1, [.list kvs], he =>
      simp [encKvPairs] at he
      obtain ⟨ps, hm, rfl⟩ := he
      simp only [Value.rawFree, rawFreeList, Bool.and_true] at hr
      obtain ⟨w, l, kvs', dd, ss, _, _, nn⟩ := mapPairs_good hk hv kvs ps hr hm
      refine ⟨seqIndef5_wf ps w, by simp [typeOf], .variant 1 [.list kvs'], ?_,
        by simp [Value.strip, stripList, ss], fun x => by rw [nn x]⟩
      simp [decKvPairs, typeOf, decKvList, Item.mapEntries?, pairUp_flatten, dd]
    | 0, [], he => simp [encKvPairs] at he
    | 1, [], he => simp [encKvPairs] at he
    | 0, _ :: _ :: _, he => simp [encKvPairs] at he
    | 1, _ :: _ :: _, he => simp [encKvPairs] at he
    | 0, [.nat _], he | 0, [.int _], he | 0, [.bytes _], he | 0, [.text _], he | 0, [.bool _], he | 0, [.unit], he
    | 0, [.none], he | 0, [.some _], he | 0, [.variant _ _], he | 0, [.raw _ _], he | 0, [.any _], he =>
      simp [encKvPairs] at he
    | 1, [.nat _], he | 1, [.int _], he | 1, [.bytes _], he | 1, [.text _], he | 1, [.bool _], he | 1, [.unit], he
    | 1, [.none], he | 1, [.some _], he | 1, [.variant _ _], he | 1, [.raw _ _], he | 1, [.any _], he =>
      simp [encKvPairs] at he
    | _ + 2, _, he => simp [encKvPairs] at he
  | _ => simp [encKvPairs] at he

end PallasVerif.Schema
