import PallasVerif.Model.Value
/-! Helper lemmas for C33: none of the value-arithmetic functions of `Model/Value.lean` can return `panic`
    (every machine operation is checked or widened after the C33 `fix:` commits). Plain inductions. -/
namespace PallasVerif.Value

theorem R.bind_np {α β : Type} (r : R α) (f : α → R β) (hr : r ≠ .panic) (hf : ∀ a, f a ≠ .panic) :
    r.bind f ≠ .panic := by
  cases r with
  | ok a => exact hf a
  | err => simp [R.bind]
  | panic => exact absurd rfl hr

theorem R.map_np {α β : Type} (r : R α) (f : α → β) (hr : r ≠ .panic) : r.map f ≠ .panic := by
  unfold R.map; exact R.bind_np r _ hr (by intro a h; cases h)

theorem upsert_np {β : Type} (k : String) (f : Option β → R β) (hf : ∀ o, f o ≠ .panic) :
    ∀ (m : AMap β), upsert m k f ≠ .panic := by
  intro m
  induction m with
  | nil => exact R.map_np _ _ (hf none)
  | cons e rest ih =>
    obtain ⟨k', v⟩ := e
    unfold upsert
    split
    · exact R.map_np _ _ (hf _)
    · exact R.map_np _ _ ih

/-- the quantity additions used by the merges never panic -/
def NoPanicOps (add : Int → Int → R Int) (fresh : Int → R Int) : Prop :=
  (∀ x a, add x a ≠ .panic) ∧ (∀ a, fresh a ≠ .panic)

theorem addAssets_np (add : Int → Int → R Int) (fresh : Int → R Int) (h : NoPanicOps add fresh) :
    ∀ (as old : AMap Int), addAssets add fresh old as ≠ .panic := by
  intro as
  induction as with
  | nil => intro old hh; cases hh
  | cons e rest ih =>
    intro old
    obtain ⟨n, a⟩ := e
    unfold addAssets
    refine R.bind_np _ _ (upsert_np _ _ ?_ old) (fun o => ih o)
    intro o; cases o with
    | some x => exact h.1 x a
    | none => exact h.2 a

theorem mergePolicies_np (add : Int → Int → R Int) (fresh : Int → R Int) (h : NoPanicOps add fresh) :
    ∀ (x res : MA), mergePolicies add fresh res x ≠ .panic := by
  intro x
  induction x with
  | nil => intro res hh; cases hh
  | cons e rest ih =>
    intro res
    obtain ⟨p, as⟩ := e
    unfold mergePolicies
    exact R.bind_np _ _ (upsert_np _ _ (fun o => addAssets_np add fresh h as _) res) (fun r => ih r)

theorem checkAssets_np (chk : Int → R Unit) (h : ∀ a, chk a ≠ .panic) : ∀ (as : AMap Int), checkAssets chk as ≠ .panic := by
  intro as
  induction as with
  | nil => intro hh; cases hh
  | cons e rest ih => obtain ⟨n, a⟩ := e; unfold checkAssets; exact R.bind_np _ _ (h a) (fun _ => ih)

theorem checkAll_np (chk : Int → R Unit) (h : ∀ a, chk a ≠ .panic) : ∀ (m : MA), checkAll chk m ≠ .panic := by
  intro m
  induction m with
  | nil => intro hh; cases hh
  | cons e rest ih => obtain ⟨p, as⟩ := e; unfold checkAll; exact R.bind_np _ _ (checkAssets_np chk h as) (fun _ => ih)

theorem np_i64 : NoPanicOps addI64 R.ok :=
  ⟨by intro x a; unfold addI64; split <;> simp, by intro a h; cases h⟩
theorem np_u64 : NoPanicOps addU64 R.ok :=
  ⟨by intro x a; unfold addU64; split <;> simp, by intro a h; cases h⟩
theorem np_mint : NoPanicOps mintAdd mintFresh :=
  ⟨by intro x a; unfold mintAdd; split <;> simp, by intro a; unfold mintFresh; split <;> simp⟩

theorem addLovelace_np (a b : Int) : addLovelace a b ≠ .panic := by unfold addLovelace; split <;> simp

theorem coerceToI64_np (m : MA) : coerceToI64 m ≠ .panic :=
  R.map_np _ _ (checkAll_np _ (by intro a; split <;> simp) m)
theorem coerceToCoin_np (m : MA) : coerceToCoin m ≠ .panic :=
  R.map_np _ _ (checkAll_np _ (by intro a; split <;> simp) m)
theorem conwayCoerceToCoin_np (m : MA) : conwayCoerceToCoin m ≠ .panic :=
  R.map_np _ _ (checkAll_np _ (by intro a; split <;> simp) m)
theorem conwayCoerceToNonZeroCoin_np (m : MA) : conwayCoerceToNonZeroCoin m ≠ .panic :=
  R.map_np _ _ (checkAll_np _ (by intro a; split <;> simp) m)

theorem addMultiassetValues_np (a b : MA) : addMultiassetValues a b ≠ .panic :=
  R.bind_np _ _ (mergePolicies_np _ _ np_i64 a []) (fun r => mergePolicies_np _ _ np_i64 b r)
theorem conwayAddMultiassetValues_np (a b : MA) : conwayAddMultiassetValues a b ≠ .panic :=
  R.bind_np _ _ (mergePolicies_np _ _ np_u64 a []) (fun r => mergePolicies_np _ _ np_u64 b r)

theorem addValues_np (a b : Value) : addValues a b ≠ .panic := by
  cases a <;> cases b <;> simp only [addValues]
  · exact R.map_np _ _ (addLovelace_np _ _)
  · exact R.map_np _ _ (addLovelace_np _ _)
  · exact R.map_np _ _ (addLovelace_np _ _)
  · refine R.bind_np _ _ (addLovelace_np _ _) (fun c => ?_)
    refine R.bind_np _ _ (coerceToI64_np _) (fun x => ?_)
    refine R.bind_np _ _ (coerceToI64_np _) (fun y => ?_)
    refine R.bind_np _ _ (addMultiassetValues_np _ _) (fun r => ?_)
    exact R.map_np _ _ (coerceToCoin_np _)

theorem conwayAddValues_np (a b : Value) : conwayAddValues a b ≠ .panic := by
  cases a <;> cases b <;> simp only [conwayAddValues]
  · exact R.map_np _ _ (addLovelace_np _ _)
  · exact R.map_np _ _ (addLovelace_np _ _)
  · exact R.map_np _ _ (addLovelace_np _ _)
  · refine R.bind_np _ _ (addLovelace_np _ _) (fun c => ?_)
    refine R.bind_np _ _ (conwayAddMultiassetValues_np _ _) (fun r => ?_)
    exact R.map_np _ _ (conwayCoerceToCoin_np _)

theorem sumFrom_np : ∀ (vs : List Value) (acc : Value), sumFrom acc vs ≠ .panic := by
  intro vs
  induction vs with
  | nil => intro acc h; cases h
  | cons v vs ih => intro acc; unfold sumFrom; exact R.bind_np _ _ (addValues_np _ _) (fun a => ih a)

theorem conwaySumFrom_np : ∀ (vs : List Value) (acc : Value), conwaySumFrom acc vs ≠ .panic := by
  intro vs
  induction vs with
  | nil => intro acc h; cases h
  | cons v vs ih => intro acc; unfold conwaySumFrom; exact R.bind_np _ _ (conwayAddValues_np _ _) (fun a => ih a)

theorem addMintedValue_np (base : Value) (m : MA) : addMintedValue base m ≠ .panic := by
  cases base <;> simp only [addMintedValue]
  · exact R.map_np _ _ (coerceToCoin_np _)
  · refine R.bind_np _ _ (coerceToI64_np _) (fun x => ?_)
    refine R.bind_np _ _ (addMultiassetValues_np _ _) (fun r => ?_)
    exact R.map_np _ _ (coerceToCoin_np _)

theorem conwayAddMintedNonZero_np (base : Value) (m : MA) : conwayAddMintedNonZero base m ≠ .panic := by
  cases base <;> simp only [conwayAddMintedNonZero]
  · exact R.map_np _ _ (conwayCoerceToNonZeroCoin_np _)
  · refine R.bind_np _ _ ?_ (fun r => R.map_np _ _ (conwayCoerceToCoin_np _))
    unfold conwayAddMultiassetNonNegativeValues
    exact R.bind_np _ _ (mergePolicies_np _ _ np_u64 _ []) (fun r => R.map_np _ _ (mergePolicies_np _ _ np_mint m r))

theorem resOf_np (r : R Bool) (h : r ≠ .panic) : resOf r ≠ .panic := by
  unfold resOf; split <;> simp_all

theorem sumShelley_np : ∀ (vs : List Value) (sh : Bool) (acc : Value), sumShelley sh acc vs ≠ .panic := by
  intro vs
  induction vs with
  | nil => intro sh acc h; cases h
  | cons v vs ih =>
    intro sh acc
    unfold sumShelley
    split
    · intro h; cases h
    · split
      · exact ih sh _
      · intro h; cases h
      · rename_i hp; exact absurd hp (addValues_np _ _)

end PallasVerif.Value
