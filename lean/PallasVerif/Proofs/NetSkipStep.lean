import PallasVerif.Proofs.NetSkip
/-!
One round of `Decoder::skip`'s loop on the encoding of each kind of item, for an arbitrary loop
state (`nrounds`, `irounds`, stack): what the round consumes and which state it leaves.
Used by `Proofs/NetSkipFull.lean` (skip is exact on every well-formed item, indefinite containers
included).
-/
namespace PallasVerif.NetCodec
open PallasVerif.Cbor

/-- the end-of-round bookkeeping followed by the rest of the loop -/
def nextS (f nr ir : Nat) (st : List (Option Nat)) (bs : Bytes) : Res Unit :=
  match skipTail nr ir st with
  | none => .ok () bs
  | some (a, b, c) => skipLoop f a b c bs

/-- the loop still has something to do -/
def Busy (nr ir : Nat) (st : List (Option Nat)) : Prop := ¬ (nr = 0 ∧ ir = 0 ∧ st.isEmpty = true)

theorem step_atom (h : Head) (hw : (Item.atom h).wf = true) (f nr ir : Nat) (st : List (Option Nat)) (rest : Bytes)
    (hb : Busy nr ir st) : skipLoop (f + 1) nr ir st ((Item.atom h).encode ++ rest) = nextS f nr ir st rest := by
  unfold Busy at hb
  simp only [Item.wf, Bool.and_eq_true, Bool.or_eq_true, decide_eq_true_eq] at hw
  obtain ⟨⟨hhw, hmaj⟩, hai⟩ := hw
  obtain ⟨hbyte, hm8, ha32⟩ := head_byte h hhw
  have h27 := wf_ai_le_27 h hhw hai
  simp only [Item.encode, Head.encode, List.cons_append, skipLoop, hb, if_false, hbyte]
  have e2 : (h.major * 32 + h.ai) % 32 = h.ai := by omega
  rcases hmaj with (hm | hm) | hm
  · have c1 : h.major * 32 + h.ai ≤ 0x1b := by omega
    simp only [c1, if_true]
    have : u64 (initByte h.major h.ai :: (h.arg ++ rest)) = .ok h.val rest := by
      simp only [u64, major, info, hbyte]
      have e1 : (h.major * 32 + h.ai) / 32 = 0 := by omega
      simp only [e1, e2, if_true]
      exact unsignedArg_head h hhw hai _ _
    rw [this]; rfl
  · have c1 : ¬ h.major * 32 + h.ai ≤ 0x1b := by omega
    have c2 : 0x20 ≤ h.major * 32 + h.ai ∧ h.major * 32 + h.ai ≤ 0x3b := by omega
    simp only [c1, c2, if_false, and_self, if_true, info, hbyte]
    rw [e2, unsignedArg_head h hhw hai]; rfl
  · have c1 : ¬ h.major * 32 + h.ai ≤ 0x1b := by omega
    have c2 : ¬ (0x20 ≤ h.major * 32 + h.ai ∧ h.major * 32 + h.ai ≤ 0x3b) := by omega
    have c3 : ¬ (0x40 ≤ h.major * 32 + h.ai ∧ h.major * 32 + h.ai ≤ 0x5f) := by omega
    have c4 : ¬ (0x60 ≤ h.major * 32 + h.ai ∧ h.major * 32 + h.ai ≤ 0x7f) := by omega
    have c5 : ¬ (0x80 ≤ h.major * 32 + h.ai ∧ h.major * 32 + h.ai ≤ 0x9f) := by omega
    have c6 : ¬ (0xa0 ≤ h.major * 32 + h.ai ∧ h.major * 32 + h.ai ≤ 0xbf) := by omega
    have c7 : ¬ (0xc0 ≤ h.major * 32 + h.ai ∧ h.major * 32 + h.ai ≤ 0xdb) := by omega
    have c8 : 0xe0 ≤ h.major * 32 + h.ai ∧ h.major * 32 + h.ai ≤ 0xfb := by omega
    simp only [c1, c2, c3, c4, c5, c6, c7, c8, if_false, and_self, if_true, info, hbyte]
    rw [e2, unsignedArg_head h hhw hai]; rfl

theorem step_str (h : Head) (bs : Bytes) (hw : (Item.str h bs).wf = true) (ht : h.major ≠ 3 ∨ utf8Valid bs = true)
    (f nr ir : Nat) (st : List (Option Nat)) (rest : Bytes) (hb : Busy nr ir st) :
    skipLoop (f + 1) nr ir st ((Item.str h bs).encode ++ rest) = nextS f nr ir st rest := by
  unfold Busy at hb
  simp only [Item.wf, Bool.and_eq_true, Bool.or_eq_true, decide_eq_true_eq] at hw
  obtain ⟨⟨⟨hhw, hmaj⟩, hai⟩, hl⟩ := hw
  obtain ⟨hbyte, hm8, ha32⟩ := head_byte h hhw
  have h27 := wf_ai_le_27 h hhw hai
  simp only [Item.encode, Head.encode, List.cons_append, List.append_assoc, skipLoop, hb, if_false, hbyte]
  have e2 : (h.major * 32 + h.ai) % 32 = h.ai := by omega
  have hstr : ∀ m, h.major = m → skipStr m (initByte h.major h.ai :: (h.arg ++ (bs ++ rest))) = .ok () rest := by
    intro m hm
    simp only [skipStr, info, hbyte, e2, hai, if_false]
    rw [unsignedArg_head h hhw hai]; simp only [Res.bind_ok]
    rw [← hl, readN_append]; simp only [Res.bind_ok]
    have : ¬ (m = 3 ∧ ¬ utf8Valid bs = true) := by
      rcases ht with h1 | h1
      · exact fun h2 => h1 (hm ▸ h2.1)
      · exact fun h2 => h2.2 h1
    simp only [this, if_false]
  rcases hmaj with hm | hm
  · have c1 : ¬ h.major * 32 + h.ai ≤ 0x1b := by omega
    have c2 : ¬ (0x20 ≤ h.major * 32 + h.ai ∧ h.major * 32 + h.ai ≤ 0x3b) := by omega
    have c3 : 0x40 ≤ h.major * 32 + h.ai ∧ h.major * 32 + h.ai ≤ 0x5f := by omega
    simp only [c1, c2, c3, if_false, and_self, if_true]
    rw [hstr 2 hm]; rfl
  · have c1 : ¬ h.major * 32 + h.ai ≤ 0x1b := by omega
    have c2 : ¬ (0x20 ≤ h.major * 32 + h.ai ∧ h.major * 32 + h.ai ≤ 0x3b) := by omega
    have c3 : ¬ (0x40 ≤ h.major * 32 + h.ai ∧ h.major * 32 + h.ai ≤ 0x5f) := by omega
    have c4 : 0x60 ≤ h.major * 32 + h.ai ∧ h.major * 32 + h.ai ≤ 0x7f := by omega
    simp only [c1, c2, c3, c4, if_false, and_self, if_true]
    rw [hstr 3 hm]; rfl

theorem step_strIndef (m : Nat) (cs : List (Head × Bytes)) (hw : (Item.strIndef m cs).wf = true) (ht : chunkTextOk m cs = true)
    (f nr ir : Nat) (st : List (Option Nat)) (rest : Bytes) (hb : Busy nr ir st) :
    skipLoop (f + 1) nr ir st ((Item.strIndef m cs).encode ++ rest) = nextS f nr ir st rest := by
  unfold Busy at hb
  simp only [Item.wf, Bool.and_eq_true, Bool.or_eq_true, decide_eq_true_eq] at hw
  obtain ⟨hmaj, hcw⟩ := hw
  have hcl := encodeChunks_length cs
  have hb' : ¬ (nr = 0 ∧ ir = 0 ∧ st.isEmpty = true) := hb
  have hstr : skipStr m (initByte m 31 :: (encodeChunks cs ++ 0xff :: rest)) = .ok () rest := by
    have hbyte := initByte_toNat m 31 (by omega) (by omega)
    have e2 : (m * 32 + 31) % 32 = 31 := by omega
    simp only [skipStr, info, hbyte, e2, if_true]
    exact skipChunks_ok m hmaj cs _ _ hcw ht (by simp only [List.length_append, List.length_cons]; omega)
  rcases hmaj with hm | hm <;> subst hm
  · have hbyte : (initByte 2 31).toNat = 95 := by decide
    have c1 : ¬ ((95 : Nat) ≤ 0x1b) := by omega
    have c2 : ¬ (0x20 ≤ (95 : Nat) ∧ (95 : Nat) ≤ 0x3b) := by omega
    have c3 : 0x40 ≤ (95 : Nat) ∧ (95 : Nat) ≤ 0x5f := by omega
    simp only [Item.encode, List.cons_append, List.append_assoc, List.nil_append, skipLoop, hb', if_false, hbyte, c1, c2, c3,
      and_self, if_true, hstr, Res.bind_ok]
    rfl
  · have hbyte : (initByte 3 31).toNat = 127 := by decide
    have c1 : ¬ ((127 : Nat) ≤ 0x1b) := by omega
    have c2 : ¬ (0x20 ≤ (127 : Nat) ∧ (127 : Nat) ≤ 0x3b) := by omega
    have c3 : ¬ (0x40 ≤ (127 : Nat) ∧ (127 : Nat) ≤ 0x5f) := by omega
    have c4 : 0x60 ≤ (127 : Nat) ∧ (127 : Nat) ≤ 0x7f := by omega
    simp only [Item.encode, List.cons_append, List.append_assoc, List.nil_append, skipLoop, hb', if_false, hbyte, c1, c2, c3, c4,
      and_self, if_true, hstr, Res.bind_ok]
    rfl

/-- a tag head is consumed without touching the counters (`continue`) -/
theorem step_tag (h : Head) (i : Item) (hw : (Item.tag h i).wf = true) (f nr ir : Nat) (st : List (Option Nat)) (rest : Bytes)
    (hb : Busy nr ir st) : skipLoop (f + 1) nr ir st ((Item.tag h i).encode ++ rest) = skipLoop f nr ir st (i.encode ++ rest) := by
  unfold Busy at hb
  simp only [Item.wf, Bool.and_eq_true, decide_eq_true_eq] at hw
  obtain ⟨⟨⟨hhw, hmaj⟩, hai⟩, _⟩ := hw
  obtain ⟨hbyte, hm8, ha32⟩ := head_byte h hhw
  have h27 := wf_ai_le_27 h hhw hai
  simp only [Item.encode, Head.encode, List.cons_append, List.append_assoc, skipLoop, hb, if_false, hbyte]
  have c1 : ¬ h.major * 32 + h.ai ≤ 0x1b := by omega
  have c2 : ¬ (0x20 ≤ h.major * 32 + h.ai ∧ h.major * 32 + h.ai ≤ 0x3b) := by omega
  have c3 : ¬ (0x40 ≤ h.major * 32 + h.ai ∧ h.major * 32 + h.ai ≤ 0x5f) := by omega
  have c4 : ¬ (0x60 ≤ h.major * 32 + h.ai ∧ h.major * 32 + h.ai ≤ 0x7f) := by omega
  have c5 : ¬ (0x80 ≤ h.major * 32 + h.ai ∧ h.major * 32 + h.ai ≤ 0x9f) := by omega
  have c6 : ¬ (0xa0 ≤ h.major * 32 + h.ai ∧ h.major * 32 + h.ai ≤ 0xbf) := by omega
  have c7 : 0xc0 ≤ h.major * 32 + h.ai ∧ h.major * 32 + h.ai ≤ 0xdb := by omega
  have e2 : (h.major * 32 + h.ai) % 32 = h.ai := by omega
  simp only [c1, c2, c3, c4, c5, c6, c7, if_false, and_self, if_true, info, hbyte, e2]
  rw [unsignedArg_head h hhw hai]; rfl

/-- a definite array / map head announcing `ys.length` items -/
theorem step_seq (h : Head) (ys : List Item) (hw : (Item.seq h ys).wf = true) (hlen : ys.length ≤ U64MAX)
    (f nr ir : Nat) (st : List (Option Nat)) (rest : Bytes) (hb : Busy nr ir st) :
    skipLoop (f + 1) nr ir st ((Item.seq h ys).encode ++ rest) =
      nextS f (skipOpen (some ys.length) nr ir st).1 (skipOpen (some ys.length) nr ir st).2.1 (skipOpen (some ys.length) nr ir st).2.2
        (Cbor.encodeList ys ++ rest) := by
  unfold Busy at hb
  simp only [Item.wf, Bool.and_eq_true, Bool.or_eq_true, decide_eq_true_eq] at hw
  obtain ⟨⟨⟨⟨hhw, hmaj⟩, hai⟩, hcount⟩, _⟩ := hw
  obtain ⟨hbyte, hm8, ha32⟩ := head_byte h hhw
  have h27 := wf_ai_le_27 h hhw hai
  simp only [Item.encode, Head.encode, List.cons_append, List.append_assoc, skipLoop, hb, if_false, hbyte]
  have e1 : (h.major * 32 + h.ai) / 32 = h.major := by omega
  have e2 : (h.major * 32 + h.ai) % 32 = h.ai := by omega
  have hcont : ∀ m, h.major = m → container m (initByte h.major h.ai :: (h.arg ++ (Cbor.encodeList ys ++ rest))) =
      .ok (some h.val) (Cbor.encodeList ys ++ rest) := by
    intro m hm
    subst hm
    simp only [container, major, info, hbyte, e1, e2, ne_eq, not_true_eq_false, if_false, hai]
    rw [unsignedArg_head h hhw hai]; rfl
  rcases hmaj with hm | hm
  · have c1 : ¬ h.major * 32 + h.ai ≤ 0x1b := by omega
    have c2 : ¬ (0x20 ≤ h.major * 32 + h.ai ∧ h.major * 32 + h.ai ≤ 0x3b) := by omega
    have c3 : ¬ (0x40 ≤ h.major * 32 + h.ai ∧ h.major * 32 + h.ai ≤ 0x5f) := by omega
    have c4 : ¬ (0x60 ≤ h.major * 32 + h.ai ∧ h.major * 32 + h.ai ≤ 0x7f) := by omega
    have c5 : 0x80 ≤ h.major * 32 + h.ai ∧ h.major * 32 + h.ai ≤ 0x9f := by omega
    simp only [c1, c2, c3, c4, c5, if_false, and_self, if_true, array]
    rw [hcont 4 hm]; simp only [Res.bind_ok]
    have hv : h.val = ys.length := by simp [seqCount, hm] at hcount; omega
    rw [hv]; rfl
  · have c1 : ¬ h.major * 32 + h.ai ≤ 0x1b := by omega
    have c2 : ¬ (0x20 ≤ h.major * 32 + h.ai ∧ h.major * 32 + h.ai ≤ 0x3b) := by omega
    have c3 : ¬ (0x40 ≤ h.major * 32 + h.ai ∧ h.major * 32 + h.ai ≤ 0x5f) := by omega
    have c4 : ¬ (0x60 ≤ h.major * 32 + h.ai ∧ h.major * 32 + h.ai ≤ 0x7f) := by omega
    have c5 : ¬ (0x80 ≤ h.major * 32 + h.ai ∧ h.major * 32 + h.ai ≤ 0x9f) := by omega
    have c6 : 0xa0 ≤ h.major * 32 + h.ai ∧ h.major * 32 + h.ai ≤ 0xbf := by omega
    simp only [c1, c2, c3, c4, c5, c6, if_false, and_self, if_true, map]
    rw [hcont 5 hm]; simp only [Res.bind_ok, Option.map_some]
    have hv : 2 * h.val = ys.length := by simp [seqCount, hm] at hcount; omega
    have hs2 : satMul2 h.val = ys.length := by unfold satMul2; unfold U64MAX at hlen ⊢; rw [if_neg (by omega)]; exact hv
    rw [hs2]; rfl

/-- an indefinite array / map head -/
theorem step_seqIndef (m : Nat) (ys : List Item) (hm : m = 4 ∨ m = 5) (f nr ir : Nat) (st : List (Option Nat)) (rest : Bytes)
    (hb : Busy nr ir st) :
    skipLoop (f + 1) nr ir st ((Item.seqIndef m ys).encode ++ rest) =
      nextS f (skipOpen none nr ir st).1 (skipOpen none nr ir st).2.1 (skipOpen none nr ir st).2.2
        (Cbor.encodeList ys ++ 0xff :: rest) := by
  unfold Busy at hb
  have hb' : ¬ (nr = 0 ∧ ir = 0 ∧ st.isEmpty = true) := hb
  rcases hm with hm | hm <;> subst hm
  · have hbyte : (initByte 4 31).toNat = 159 := by decide
    have c1 : ¬ ((159 : Nat) ≤ 0x1b) := by omega
    have c2 : ¬ (0x20 ≤ (159 : Nat) ∧ (159 : Nat) ≤ 0x3b) := by omega
    have c3 : ¬ (0x40 ≤ (159 : Nat) ∧ (159 : Nat) ≤ 0x5f) := by omega
    have c4 : ¬ (0x60 ≤ (159 : Nat) ∧ (159 : Nat) ≤ 0x7f) := by omega
    have c5 : 0x80 ≤ (159 : Nat) ∧ (159 : Nat) ≤ 0x9f := by omega
    have harr : array (initByte 4 31 :: (Cbor.encodeList ys ++ 0xff :: rest)) = .ok none (Cbor.encodeList ys ++ 0xff :: rest) := by
      simp [array, container, major, info, hbyte]
    simp only [Item.encode, List.cons_append, List.append_assoc, List.nil_append, skipLoop, hb', if_false, hbyte, c1, c2, c3, c4, c5,
      and_self, if_true, harr, Res.bind_ok]
    rfl
  · have hbyte : (initByte 5 31).toNat = 191 := by decide
    have c1 : ¬ ((191 : Nat) ≤ 0x1b) := by omega
    have c2 : ¬ (0x20 ≤ (191 : Nat) ∧ (191 : Nat) ≤ 0x3b) := by omega
    have c3 : ¬ (0x40 ≤ (191 : Nat) ∧ (191 : Nat) ≤ 0x5f) := by omega
    have c4 : ¬ (0x60 ≤ (191 : Nat) ∧ (191 : Nat) ≤ 0x7f) := by omega
    have c5 : ¬ (0x80 ≤ (191 : Nat) ∧ (191 : Nat) ≤ 0x9f) := by omega
    have c6 : 0xa0 ≤ (191 : Nat) ∧ (191 : Nat) ≤ 0xbf := by omega
    have hmap : map (initByte 5 31 :: (Cbor.encodeList ys ++ 0xff :: rest)) = .ok none (Cbor.encodeList ys ++ 0xff :: rest) := by
      simp [map, container, major, info, hbyte]
    simp only [Item.encode, List.cons_append, List.append_assoc, List.nil_append, skipLoop, hb', if_false, hbyte, c1, c2, c3, c4, c5, c6,
      and_self, if_true, hmap, Res.bind_ok, Option.map_none]
    rfl

/-- `if let Some(None) = stack.last() { stack.pop(); }` -/
def popNone : List (Option Nat) → List (Option Nat)
  | none :: st' => st'
  | st => st

/-- the break byte -/
theorem step_break (f nr ir : Nat) (st : List (Option Nat)) (rest : Bytes) (hb : Busy nr ir st) :
    skipLoop (f + 1) nr ir st (0xff :: rest) =
      (if nr = 0 ∧ ir = 0 then nextS f nr ir (popNone st) rest else nextS f nr (ir - 1) st rest) := by
  unfold Busy at hb
  have hb' : ¬ (nr = 0 ∧ ir = 0 ∧ st.isEmpty = true) := hb
  have hbyte : (0xff : UInt8).toNat = 255 := by decide
  have c1 : ¬ ((255 : Nat) ≤ 0x1b) := by omega
  have c2 : ¬ (0x20 ≤ (255 : Nat) ∧ (255 : Nat) ≤ 0x3b) := by omega
  have c3 : ¬ (0x40 ≤ (255 : Nat) ∧ (255 : Nat) ≤ 0x5f) := by omega
  have c4 : ¬ (0x60 ≤ (255 : Nat) ∧ (255 : Nat) ≤ 0x7f) := by omega
  have c5 : ¬ (0x80 ≤ (255 : Nat) ∧ (255 : Nat) ≤ 0x9f) := by omega
  have c6 : ¬ (0xa0 ≤ (255 : Nat) ∧ (255 : Nat) ≤ 0xbf) := by omega
  have c7 : ¬ (0xc0 ≤ (255 : Nat) ∧ (255 : Nat) ≤ 0xdb) := by omega
  have c8 : ¬ (0xe0 ≤ (255 : Nat) ∧ (255 : Nat) ≤ 0xfb) := by omega
  simp only [skipLoop, hb', if_false, hbyte, c1, c2, c3, c4, c5, c6, c7, c8, if_true]
  unfold nextS popNone
  split <;> rfl

end PallasVerif.NetCodec
