import PallasVerif.Model.RefMath
import PallasVerif.Proofs.Decimal
import PallasVerif.Proofs.ExpCmp
/-! Loop invariants of `mp_exp_taylor` and `find_e` (core Lean only). The Taylor loop computes the
    same fixed-point terms `tterm` / partial sums `psum` as `ref_exp_cmp` (`Proofs/ExpCmp.lean`). -/
namespace PallasVerif.Proofs.RefMath
open PallasVerif.Decimal PallasVerif.RefMath PallasVerif.Proofs.Decimal PallasVerif.Proofs.ExpCmp

/-- the `last_x` variable after `n` iterations -/
def lastOf (x : Int) : Nat → Int
  | 0 => ONE
  | n + 1 => tterm x n

theorem next_term (x : Int) (n : Nat) :
    (scale (x * lastOf x n) * P).tdiv (((n : Int) + 1) * P) = tterm x n := by
  cases n with
  | zero =>
    have hP : P ≠ 0 := by have := P_pos; omega
    simp only [lastOf, ONE, tterm, scale_eq_ediv, Int.mul_ediv_cancel _ hP]
    simp [Int.mul_tdiv_cancel _ hP]
  | succ n =>
    simp only [lastOf, tterm]
    rw [Int.mul_comm x]
    congr 2

theorem divisor1_ne (n : Nat) : ((n : Int) + 1) * P ≠ 0 := by
  have : 0 < ((n : Int) + 1) * P := Int.mul_pos (by omega) P_pos
  omega

theorem taylor_step (x eps : Int) (fuel n : Nat) :
    taylorLoop x eps (fuel + 1) n (psum x n) (((n : Int) + 1) * P) (lastOf x n) =
      if absLt (tterm x n) eps then some (n, psum x n)
      else taylorLoop x eps fuel (n + 1) (psum x (n + 1)) ((((n + 1 : Nat) : Int) + 1) * P) (lastOf x (n + 1)) := by
  rw [taylorLoop, div_eq_tdiv _ _ (divisor1_ne n), next_term]
  have hd : ((n : Int) + 1) * P + ONE = (((n + 1 : Nat) : Int) + 1) * P := by
    simp only [ONE]; push_cast; rw [Int.add_mul, Int.add_mul, Int.add_mul]; omega
  simp only [hd, psum, lastOf]

/-- the Taylor loop returns one of the partial sums `psum x m` and never panics -/
theorem taylor_spec (x eps : Int) (fuel n : Nat) :
    ∃ m, taylorLoop x eps fuel n (psum x n) (((n : Int) + 1) * P) (lastOf x n) = some (m, psum x m) ∧
      n ≤ m ∧ m ≤ n + fuel := by
  induction fuel generalizing n with
  | zero => exact ⟨n, rfl, Nat.le_refl _, Nat.le_refl _⟩
  | succ fuel ih =>
    rw [taylor_step]
    split
    · exact ⟨n, rfl, Nat.le_refl _, by omega⟩
    · obtain ⟨m, h, h1, h2⟩ := ih (n + 1)
      exact ⟨m, h, by omega, by omega⟩

theorem mpExpTaylor_spec (maxN : Nat) (x eps : Int) :
    ∃ m, mpExpTaylor maxN x eps = some (m, psum x m) ∧ m ≤ maxN := by
  obtain ⟨m, h, _, h2⟩ := taylor_spec x eps maxN 0
  refine ⟨m, ?_, by omega⟩
  simpa [mpExpTaylor, psum, lastOf, ONE] using h

theorem psum_ge_one (x : Int) (hx : 0 ≤ x) (n : Nat) : ONE ≤ psum x n := by
  induction n with
  | zero => exact Int.le_refl _
  | succ n ih => have := tterm_nonneg x hx n; simp only [psum]; omega

theorem scale_nonneg (z : Int) (hz : 0 ≤ z) : 0 ≤ scale z := by
  rw [scale_eq_ediv]; exact Int.ediv_nonneg hz (by have := P_pos; omega)

theorem ipowNat_nonneg (x : Int) (hx : 0 ≤ x) (n : Nat) : 0 ≤ ipowNat x n := by
  induction n using Nat.strongRecOn with
  | _ n ih =>
    rw [ipowNat]
    split
    · simp only [ONE]; have := P_pos; omega
    · split
      · have := ih (n / 2) (by omega)
        exact scale_nonneg _ (Int.mul_nonneg this this)
      · have := ih (n - 1) (by omega)
        exact scale_nonneg _ (Int.mul_nonneg this hx)

/-- second loop of `find_e`: the returned exponent stays inside the initial bracket, and each end
    that moved was moved by a comparison against `ipow E ·` -/
theorem findELoop2_spec (x : Int) (fuel : Nat) (l u r : Int) (hlu : l < u)
    (h : findELoop2 x fuel l u = some r) :
    l ≤ r ∧ r < u ∧
    (r = l ∨ ∃ v, ipow E r = some v ∧ v ≤ x) ∧
    (r + 1 = u ∨ ∃ v, ipow E (r + 1) = some v ∧ x < v) := by
  induction fuel generalizing l u with
  | zero => simp [findELoop2] at h
  | succ fuel ih =>
    rw [findELoop2] at h
    split at h
    · rename_i hne
      obtain ⟨_, h2, h3⟩ := tdm (u - l) 2 (by decide)
      have hq := h2 (by omega)
      have hmid1 : l < l + (u - l).tdiv 2 := by omega
      have hmid2 : l + (u - l).tdiv 2 < u := by omega
      simp only at h
      split at h
      · exact absurd h (by simp)
      · rename_i xm hxm
        split at h
        · rename_i hlt
          obtain ⟨a, b, c, d⟩ := ih l _ hmid1 h
          refine ⟨a, by omega, c, ?_⟩
          rcases d with d | d
          · right; rw [d]; exact ⟨xm, hxm, hlt⟩
          · right; exact d
        · rename_i hge
          obtain ⟨a, b, c, d⟩ := ih _ u hmid2 h
          refine ⟨by omega, b, ?_, d⟩
          rcases c with c | c
          · right; rw [c]; exact ⟨xm, hxm, by omega⟩
          · right; exact c
    · rename_i heq
      have : r = l := by simpa using h.symm
      subst this
      refine ⟨Int.le_refl _, hlu, Or.inl rfl, Or.inl ?_⟩
      simpa using heq

end PallasVerif.Proofs.RefMath
