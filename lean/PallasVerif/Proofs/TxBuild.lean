import PallasVerif.Model.TxBuild
/-! Helper lemmas for C40: the order on inputs, `dedup` of a sorted list, association lists,
    `nonZeroAssets`, `findIdx?`. -/
namespace PallasVerif.Proofs.TxBuild
open PallasVerif.TxBuild

/-- strict lexicographic order on (transaction id, index): the ledger's order on `TxIn` -/
def inpLt (a b : Inp) : Prop := a.1 < b.1 ∨ (a.1 = b.1 ∧ a.2 < b.2)

theorem inpLe_trans (a b c : Inp) : inpLe a b = true → inpLe b c = true → inpLe a c = true := by
  obtain ⟨a1, a2⟩ := a; obtain ⟨b1, b2⟩ := b; obtain ⟨c1, c2⟩ := c
  simp only [inpLe, Bool.or_eq_true, Bool.and_eq_true, decide_eq_true_eq]
  omega

theorem inpLe_total (a b : Inp) : (inpLe a b || inpLe b a) = true := by
  obtain ⟨a1, a2⟩ := a; obtain ⟨b1, b2⟩ := b
  simp only [inpLe, Bool.or_eq_true, Bool.and_eq_true, decide_eq_true_eq]
  omega

theorem inpLe_antisymm (a b : Inp) : inpLe a b = true → inpLe b a = true → a = b := by
  obtain ⟨a1, a2⟩ := a; obtain ⟨b1, b2⟩ := b
  simp only [inpLe, Bool.or_eq_true, Bool.and_eq_true, decide_eq_true_eq, Prod.mk.injEq]
  omega

theorem inpLt_of_le_ne (a b : Inp) : inpLe a b = true → a ≠ b → inpLt a b := by
  obtain ⟨a1, a2⟩ := a; obtain ⟨b1, b2⟩ := b
  simp only [inpLe, inpLt, Bool.or_eq_true, Bool.and_eq_true, decide_eq_true_eq, ne_eq, Prod.mk.injEq]
  omega

section Sorting
variable {α : Type}

theorem mem_insertSorted (le : α → α → Bool) (x y : α) (l : List α) : y ∈ insertSorted le x l ↔ y = x ∨ y ∈ l := by
  induction l with
  | nil => simp [insertSorted]
  | cons a t ih =>
    unfold insertSorted
    split
    · simp
    · simp only [List.mem_cons, ih]
      constructor
      · rintro (h | h | h) <;> simp [h]
      · rintro (h | h | h) <;> simp [h]

theorem mem_isort (le : α → α → Bool) (y : α) (l : List α) : y ∈ isort le l ↔ y ∈ l := by
  induction l with
  | nil => simp [isort]
  | cons a t ih => simp [isort, mem_insertSorted, ih]

theorem pairwise_insertSorted (le : α → α → Bool) (trans : ∀ a b c, le a b = true → le b c = true → le a c = true)
    (total : ∀ a b, (le a b || le b a) = true) (x : α) (l : List α) (h : l.Pairwise (fun a b => le a b = true)) :
    (insertSorted le x l).Pairwise (fun a b => le a b = true) := by
  induction l with
  | nil => simp [insertSorted]
  | cons a t ih =>
    rw [List.pairwise_cons] at h
    unfold insertSorted
    split
    · next hxa =>
      refine List.Pairwise.cons ?_ (List.Pairwise.cons h.1 h.2)
      intro y hy
      rcases List.mem_cons.mp hy with e | e
      · subst e; exact hxa
      · exact trans _ _ _ hxa (h.1 y e)
    · next hxa =>
      have hax : le a x = true := by
        have := total x a
        simp only [Bool.or_eq_true] at this
        rcases this with e | e
        · exact absurd e hxa
        · exact e
      refine List.Pairwise.cons ?_ (ih h.2)
      intro y hy
      rcases (mem_insertSorted le x y t).mp hy with e | e
      · subst e; exact hax
      · exact h.1 y e

theorem pairwise_isort (le : α → α → Bool) (trans : ∀ a b c, le a b = true → le b c = true → le a c = true)
    (total : ∀ a b, (le a b || le b a) = true) (l : List α) : (isort le l).Pairwise (fun a b => le a b = true) := by
  induction l with
  | nil => simp [isort]
  | cons a t ih => exact pairwise_insertSorted le trans total a _ ih

theorem insertSorted_perm (le : α → α → Bool) (x : α) (l : List α) : (insertSorted le x l).Perm (x :: l) := by
  induction l with
  | nil => simp [insertSorted]
  | cons a t ih =>
    unfold insertSorted
    split
    · exact List.Perm.refl _
    · exact (List.Perm.cons a ih).trans (List.Perm.swap x a t)

theorem isort_perm (le : α → α → Bool) (l : List α) : (isort le l).Perm l := by
  induction l with
  | nil => simp [isort]
  | cons a t ih => exact (insertSorted_perm le a _).trans (List.Perm.cons a ih)
end Sorting

section Dedup
variable {α : Type} [DecidableEq α]

theorem mem_dedup (l : List α) (x : α) : x ∈ dedup l ↔ x ∈ l := by
  fun_induction dedup l with
  | case1 => simp
  | case2 a => simp
  | case3 b t ih => simp [ih]
  | case4 a b t h ih => simp [ih]

/-- a sorted list with consecutive duplicates collapsed is strictly sorted -/
theorem dedup_strict (le : α → α → Bool) (antisymm : ∀ a b, le a b = true → le b a = true → a = b)
    (l : List α) (h : l.Pairwise (fun a b => le a b = true)) :
    (dedup l).Pairwise (fun a b => le a b = true ∧ a ≠ b) := by
  fun_induction dedup l with
  | case1 => simp
  | case2 a => simp
  | case3 b t ih => exact ih (List.Pairwise.of_cons h)
  | case4 a b t hab ih =>
    have ht := List.Pairwise.of_cons h
    rw [List.pairwise_cons] at h ht
    refine List.Pairwise.cons ?_ (ih (List.Pairwise.cons ht.1 ht.2))
    intro x hx
    rw [mem_dedup] at hx
    refine ⟨h.1 x hx, ?_⟩
    intro hax
    subst hax
    rcases List.mem_cons.mp hx with e | e
    · exact hab e
    · exact hab (antisymm a b (h.1 b (by simp)) (ht.1 a e))
end Dedup

/-- `position(|x| x == i)` returns an index holding `i` -/
theorem findIdx?_getElem? {α : Type} [DecidableEq α] (l : List α) (i : α) (k : Nat)
    (h : l.findIdx? (fun x => decide (x = i)) = some k) : l[k]? = some i := by
  induction l generalizing k with
  | nil => simp at h
  | cons a t ih =>
    rw [List.findIdx?_cons] at h
    by_cases hai : a = i
    · simp [hai] at h; subst h; simp [hai]
    · simp [hai] at h
      obtain ⟨j, hj, rfl⟩ := h
      simpa using ih j hj

theorem findIdx?_isSome_of_mem {α : Type} [DecidableEq α] (l : List α) (i : α) (h : i ∈ l) :
    (l.findIdx? (fun x => decide (x = i))).isSome := by
  induction l with
  | nil => simp at h
  | cons a t ih =>
    rw [List.findIdx?_cons]
    by_cases hai : a = i
    · simp [hai]
    · have : i ∈ t := by
        rcases List.mem_cons.mp h with e | e
        · exact absurd e.symm hai
        · exact e
      have := ih this
      cases hf : t.findIdx? (fun x => decide (x = i)) with
      | none => simp [hf] at this
      | some j => simp [hai, hf]

/-! ## association lists -/
section AL
variable {κ ν : Type} [DecidableEq κ]

theorem alFind_eq_some_of_mem (m : List (κ × ν)) (k : κ) (v : ν) (hn : (m.map (·.1)).Nodup) (h : (k, v) ∈ m) :
    alFind m k = some v := by
  induction m with
  | nil => simp at h
  | cons e t ih =>
    obtain ⟨k', v'⟩ := e
    simp only [List.map_cons, List.nodup_cons] at hn
    rcases List.mem_cons.mp h with e | e
    · cases e; simp [alFind]
    · have hk : k' ≠ k := by
        intro hk; subst hk
        exact hn.1 (List.mem_map.mpr ⟨(k', v), e, rfl⟩)
      simp [alFind, hk, ih hn.2 e]

theorem mem_of_alFind (m : List (κ × ν)) (k : κ) (v : ν) (h : alFind m k = some v) : (k, v) ∈ m := by
  induction m with
  | nil => simp [alFind] at h
  | cons e t ih =>
    obtain ⟨k', v'⟩ := e
    simp only [alFind] at h
    split at h
    · next hk => cases h; subst hk; simp
    · exact List.mem_cons_of_mem _ (ih h)

theorem alFind_erase_self (m : List (κ × ν)) (k : κ) : alFind (alErase m k) k = none := by
  induction m with
  | nil => simp [alErase, alFind]
  | cons e t ih =>
    obtain ⟨k', v'⟩ := e
    by_cases hk : k' = k
    · simpa [alErase, hk] using ih
    · simp only [alErase, List.filter_cons, ne_eq, hk, not_false_eq_true, decide_true, ↓reduceIte, alFind]
      simpa [alErase] using ih

theorem alFind_erase_ne (m : List (κ × ν)) (k k' : κ) (h : k' ≠ k) : alFind (alErase m k) k' = alFind m k' := by
  induction m with
  | nil => simp [alErase, alFind]
  | cons e t ih =>
    obtain ⟨k'', v''⟩ := e
    by_cases hk : k'' = k
    · subst hk
      have : ¬ k'' = k' := fun e => h e.symm
      simpa [alErase, alFind, this] using ih
    · simp only [alErase, List.filter_cons, ne_eq, hk, not_false_eq_true, decide_true, ↓reduceIte, alFind]
      split
      · rfl
      · simpa [alErase] using ih

theorem alFind_insert_self (m : List (κ × ν)) (k : κ) (v : ν) : alFind (alInsert m k v) k = some v := by
  simp [alInsert, alFind]

theorem alFind_insert_ne (m : List (κ × ν)) (k k' : κ) (v : ν) (h : k' ≠ k) :
    alFind (alInsert m k v) k' = alFind m k' := by
  have : ¬ k = k' := fun e => h e.symm
  simp [alInsert, alFind, this, alFind_erase_ne m k k' h]

theorem nodup_keys_erase (m : List (κ × ν)) (k : κ) (h : (m.map (·.1)).Nodup) : ((alErase m k).map (·.1)).Nodup :=
  List.Nodup.sublist (List.Sublist.map _ List.filter_sublist) h

theorem nodup_keys_insert (m : List (κ × ν)) (k : κ) (v : ν) (h : (m.map (·.1)).Nodup) :
    ((alInsert m k v).map (·.1)).Nodup := by
  simp only [alInsert, List.map_cons, List.nodup_cons]
  refine ⟨?_, nodup_keys_erase m k h⟩
  simp [alErase]
end AL

/-! ## `nonZeroAssets` -/

theorem mem_nonZeroAssets {Q : Type} (isZero : Q → Bool) (m : Assets Q) (p : Hash) (names : List (Bytes × Q)) :
    (p, names) ∈ nonZeroAssets isZero m ↔
      names ≠ [] ∧ ∃ orig, (p, orig) ∈ m ∧ names = orig.filter (fun x => !isZero x.2) := by
  simp only [nonZeroAssets, mem_isort, List.mem_filter, List.mem_map]
  constructor
  · rintro ⟨⟨⟨p', orig⟩, hm, he⟩, hne⟩
    cases he
    refine ⟨by simpa using hne, orig, hm, rfl⟩
  · rintro ⟨hne, orig, hm, rfl⟩
    exact ⟨⟨(p, orig), hm, rfl⟩, by simpa using hne⟩

/-- policies of the written map come out strictly ascending when the staged map has one entry per policy -/
theorem nonZeroAssets_sorted {Q : Type} (isZero : Q → Bool) (m : Assets Q) (h : (m.map (·.1)).Nodup) :
    ((nonZeroAssets isZero m).map (·.1)).Pairwise (· < ·) := by
  unfold nonZeroAssets
  have hs := pairwise_isort (fun (a b : Hash × List (Bytes × Q)) => decide (a.1 ≤ b.1))
    (by intro a b c; simp only [decide_eq_true_eq]; omega)
    (by intro a b; simp only [Bool.or_eq_true, decide_eq_true_eq]; omega)
    ((m.map (fun e => (e.1, e.2.filter (fun x => !isZero x.2)))).filter (fun e => !e.2.isEmpty))
  have hp := isort_perm (fun (a b : Hash × List (Bytes × Q)) => decide (a.1 ≤ b.1))
    ((m.map (fun e => (e.1, e.2.filter (fun x => !isZero x.2)))).filter (fun e => !e.2.isEmpty))
  -- keys stay distinct
  have hn : (((m.map (fun e => (e.1, e.2.filter (fun x => !isZero x.2)))).filter (fun e => !e.2.isEmpty)).map (·.1)).Nodup := by
    apply List.Nodup.sublist (List.Sublist.map _ List.filter_sublist)
    simpa [List.map_map, Function.comp_def] using h
  have hn2 := (List.Perm.nodup_iff (hp.map (·.1))).mpr hn
  rw [List.pairwise_map]
  rw [List.Nodup, List.pairwise_map] at hn2
  have := List.Pairwise.and hs hn2
  exact this.imp (by intro a b ⟨h1, h2⟩; simp only [decide_eq_true_eq] at h1; omega)

end PallasVerif.Proofs.TxBuild
