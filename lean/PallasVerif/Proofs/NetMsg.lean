import PallasVerif.Model.NetMsg
import PallasVerif.Proofs.NetCodec
/-!
Per message type: a representable value (`valid`) is encoded to a tree that passes `E.ok`
(so the bytes are exactly one well-formed item) and the transcribed decoder reads the bytes back
to the same value, whatever follows them (`Spec`).
-/
namespace PallasVerif.NetMsg
open PallasVerif.Cbor PallasVerif.NetCodec

/-- `enc a` passes the strict checks and `dec` reads `a` back from its bytes -/
def Spec {α : Type} (enc : α → E) (dec : Dec α) (a : α) : Prop :=
  (enc a).ok = true ∧ ∀ r, dec ((enc a).encode ++ r) = .ok a r

/-- same for encoders that can fail -/
def SpecO {α : Type} (enc : α → Option E) (dec : Dec α) (a : α) : Prop :=
  ∃ e, enc a = some e ∧ e.ok = true ∧ ∀ r, dec (e.encode ++ r) = .ok a r

/-- what is assumed of an opaque `AnyCbor` payload accepted by `okAny` -/
def AnyOk (okAny : Bytes → Bool) : Prop := ∀ bs, okAny bs = true → isSingleItem bs = true ∧ SkipExact bs

theorem lt64_iff (n : Nat) : lt64 n = true ↔ n < 2 ^ 64 := by simp [lt64]

attribute [local simp] lt64_iff E.ok E.okList E.encodeList Res.bind_ok
  Bool.and_eq_true decide_eq_true_eq List.append_assoc labelled

/-! ### common -/

theorem Point.spec (p : Point) (h : p.valid = true) : Spec Point.enc Point.dec p := by
  cases p with
  | origin => exact ⟨by simp [Point.enc], fun r => by simp [Point.enc, Point.dec, array_arr]⟩
  | specific s hh =>
    simp [Point.valid] at h
    exact ⟨by simp [Point.enc, h], fun r => by simp [Point.enc, Point.dec, array_arr, u64_uint, bytes_bytes, h]⟩

theorem Point.startsNonBreak (p : Point) : p.enc.startsNonBreak := by
  cases p <;> exact E.startsNonBreak_arr _ _

theorem Tip.spec (t : Tip) (h : t.valid = true) : Spec Tip.enc Tip.dec t := by
  obtain ⟨p, n⟩ := t
  simp [Tip.valid] at h
  obtain ⟨hp1, hp2⟩ := Point.spec p h.1
  exact ⟨by simp [Tip.enc, hp1, h], fun r => by simp [Tip.enc, Tip.dec, array_arr, hp2, u64_uint, h]⟩

/-! ### chainsync -/

theorem tuple2_u8_u64 (a b : Nat) (ha : a ≤ 255) (hb : b < 2 ^ 64) (r : Bytes) :
    tuple2 u8 u64 ((E.arr 2 [.uint a, .uint b]).encode ++ r) = .ok (a, b) r := by
  simp [tuple2, array_arr, u8_uint, u64_uint, ha, hb]

theorem HeaderContent.spec (x : HeaderContent) (h : x.valid = true) : SpecO HeaderContent.enc HeaderContent.dec x := by
  obtain ⟨v, pre, c⟩ := x
  simp only [HeaderContent.valid] at h
  by_cases hv : v = 0
  · subst hv
    cases pre with
    | none => simp at h
    | some ab =>
      obtain ⟨a, b⟩ := ab
      simp at h
      refine ⟨_, rfl, by simp [h]; omega, fun r => ?_⟩
      simp [HeaderContent.dec, array_arr, u8_uint, tuple2_u8_u64, tag_tag, bytes_bytes, h]
  · cases pre with
    | some ab => simp [hv] at h
    | none =>
      simp [hv] at h
      refine ⟨.arr 2 [.uint v, .tag 24 (.bytes c)], by simp [HeaderContent.enc, hv], by simp [h]; omega, fun r => ?_⟩
      simp [HeaderContent.dec, array_arr, u8_uint, tag_tag, bytes_bytes, h, hv]

theorem blockContent_spec (b : Bytes) (h : lt64 b.length = true) : SpecO blockContentEnc blockContentDec b := by
  simp at h
  exact ⟨_, rfl, by simp [h], fun r => by simp [blockContentDec, tag_tag, bytes_bytes, h]⟩

theorem skipped_spec (u : Unit) : SpecO skippedEnc skippedDec u :=
  ⟨_, rfl, by simp, fun r => by simp [skippedDec, E.encode, skip_null]⟩

theorem ChainSync.Msg.spec {C : Type} (encC : C → Option E) (decC : Dec C) (vC : C → Bool)
    (hC : ∀ c, vC c = true → SpecO encC decC c) (m : ChainSync.Msg C) (h : m.valid vC = true) :
    SpecO (ChainSync.Msg.enc encC) (ChainSync.Msg.dec decC) m := by
  cases m with
  | requestNext => exact ⟨_, rfl, by simp, fun r => by simp [Msg.dec, array_arr, u16_uint]⟩
  | awaitReply => exact ⟨_, rfl, by simp, fun r => by simp [Msg.dec, array_arr, u16_uint]⟩
  | done => exact ⟨_, rfl, by simp, fun r => by simp [Msg.dec, array_arr, u16_uint]⟩
  | rollForward c t =>
    simp [Msg.valid] at h
    obtain ⟨e, he, hok, hdec⟩ := hC c h.1
    obtain ⟨t1, t2⟩ := Tip.spec t h.2
    exact ⟨.arr 3 [.uint 2, e, t.enc], by simp [Msg.enc, he], by simp [hok, t1], fun r => by simp [Msg.dec, array_arr, u16_uint, hdec, t2]⟩
  | rollBackward p t =>
    simp [Msg.valid] at h
    obtain ⟨p1, p2⟩ := Point.spec p h.1
    obtain ⟨t1, t2⟩ := Tip.spec t h.2
    exact ⟨_, rfl, by simp [p1, t1], fun r => by simp [Msg.dec, array_arr, u16_uint, p2, t2]⟩
  | intersectFound p t =>
    simp [Msg.valid] at h
    obtain ⟨p1, p2⟩ := Point.spec p h.1
    obtain ⟨t1, t2⟩ := Tip.spec t h.2
    exact ⟨_, rfl, by simp [p1, t1], fun r => by simp [Msg.dec, array_arr, u16_uint, p2, t2]⟩
  | intersectNotFound t =>
    simp [Msg.valid] at h
    obtain ⟨t1, t2⟩ := Tip.spec t h
    exact ⟨_, rfl, by simp [t1], fun r => by simp [Msg.dec, array_arr, u16_uint, t2]⟩
  | findIntersect ps =>
    simp [Msg.valid] at h
    refine ⟨_, rfl, ?_, fun r => ?_⟩
    · simp [h.1]
      exact E.okList_map _ _ fun p hp => (Point.spec p (h.2 p hp)).1
    · simp [Msg.dec, array_arr, u16_uint]
      rw [vec_arr Point.dec Point.enc ps h.1 _ fun p hp r => (Point.spec p (h.2 p hp)).2 r]
      simp

/-! ### blockfetch -/

theorem BlockFetch.Msg.spec (m : BlockFetch.Msg) (h : m.valid = true) : Spec BlockFetch.Msg.enc BlockFetch.Msg.dec m := by
  cases m with
  | requestRange a b =>
    simp [Msg.valid] at h
    obtain ⟨a1, a2⟩ := Point.spec a h.1
    obtain ⟨b1, b2⟩ := Point.spec b h.2
    exact ⟨by simp [Msg.enc, a1, b1], fun r => by simp [Msg.enc, Msg.dec, array_arr, u16_uint, a2, b2]⟩
  | block body =>
    simp [Msg.valid] at h
    exact ⟨by simp [Msg.enc, h], fun r => by simp [Msg.enc, Msg.dec, array_arr, u16_uint, tag_tag, bytes_bytes, h]⟩
  | clientDone | startBatch | noBlocks | batchDone =>
    exact ⟨by simp [Msg.enc], fun r => by simp [Msg.enc, Msg.dec, array_arr, u16_uint]⟩

/-! ### txsubmission -/

theorem EraTxId.spec (t : EraTxId) (h : t.valid = true) : Spec EraTxId.enc EraTxId.dec t := by
  obtain ⟨era, id⟩ := t
  simp [EraTxId.valid] at h
  exact ⟨by simp [EraTxId.enc, h]; omega, fun r => by simp [EraTxId.enc, EraTxId.dec, array_arr, u16_uint, bytes_bytes, h]⟩

theorem EraTx.spec (t : EraTx) (h : t.valid = true) : Spec EraTx.enc EraTx.dec t := by
  obtain ⟨era, body⟩ := t
  simp [EraTx.valid] at h
  exact ⟨by simp [EraTx.enc, h]; omega, fun r => by simp [EraTx.enc, EraTx.dec, array_arr, u16_uint, tag_tag, bytes_bytes, h]⟩

theorem TxIdAndSize.spec (t : TxIdAndSize) (h : t.valid = true) : Spec TxIdAndSize.enc TxIdAndSize.dec t := by
  obtain ⟨id, sz⟩ := t
  simp [TxIdAndSize.valid] at h
  obtain ⟨i1, i2⟩ := EraTxId.spec id h.1
  exact ⟨by simp [TxIdAndSize.enc, i1]; omega, fun r => by simp [TxIdAndSize.enc, TxIdAndSize.dec, array_arr, i2, u32_uint, h]⟩

theorem TxSubmission.Msg.spec (m : TxSubmission.Msg) (h : m.valid = true) : Spec TxSubmission.Msg.enc TxSubmission.Msg.dec m := by
  cases m with
  | init | done => exact ⟨by simp [Msg.enc], fun r => by simp [Msg.enc, Msg.dec, array_arr, u16_uint]⟩
  | requestTxIds b ack req =>
    simp [Msg.valid] at h
    exact ⟨by simp [Msg.enc]; omega, fun r => by simp [Msg.enc, Msg.dec, array_arr, u16_uint, bool_bool, h]⟩
  | replyTxIds ids =>
    simp [Msg.valid] at h
    refine ⟨by simp [Msg.enc]; exact E.okList_map _ _ fun x hx => (TxIdAndSize.spec x (h x hx)).1, fun r => ?_⟩
    simp [Msg.enc, Msg.dec, array_arr, u16_uint]
    rw [vec_arrI TxIdAndSize.dec TxIdAndSize.enc ids _ (fun x hx r => (TxIdAndSize.spec x (h x hx)).2 r)
      (fun x _ => E.startsNonBreak_arr _ _)]
    simp
  | requestTxs ids =>
    simp [Msg.valid] at h
    refine ⟨by simp [Msg.enc]; exact E.okList_map _ _ fun x hx => (EraTxId.spec x (h x hx)).1, fun r => ?_⟩
    simp [Msg.enc, Msg.dec, array_arr, u16_uint]
    rw [vec_arrI EraTxId.dec EraTxId.enc ids _ (fun x hx r => (EraTxId.spec x (h x hx)).2 r)
      (fun x _ => E.startsNonBreak_arr _ _)]
    simp
  | replyTxs txs =>
    simp [Msg.valid] at h
    refine ⟨by simp [Msg.enc]; exact E.okList_map _ _ fun x hx => (EraTx.spec x (h x hx)).1, fun r => ?_⟩
    simp [Msg.enc, Msg.dec, array_arr, u16_uint]
    rw [vec_arrI EraTx.dec EraTx.enc txs _ (fun x hx r => (EraTx.spec x (h x hx)).2 r)
      (fun x _ => E.startsNonBreak_arr _ _)]
    simp

/-! ### keepalive -/

theorem KeepAlive.Msg.spec (m : KeepAlive.Msg) (h : m.valid = true) : Spec KeepAlive.Msg.enc KeepAlive.Msg.dec m := by
  cases m with
  | done => exact ⟨by simp [Msg.enc], fun r => by simp [Msg.enc, Msg.dec, array_arr, u16_uint]⟩
  | keepAlive c | responseKeepAlive c =>
    simp [Msg.valid] at h
    exact ⟨by simp [Msg.enc]; omega, fun r => by simp [Msg.enc, Msg.dec, array_arr, u16_uint, h]⟩

/-! ### peersharing -/

theorem v6_words (bits : Nat) (h : bits < 2 ^ 128) :
    bits / 2 ^ 96 * 2 ^ 96 + bits / 2 ^ 64 % 2 ^ 32 * 2 ^ 64 + bits / 2 ^ 32 % 2 ^ 32 * 2 ^ 32 + bits % 2 ^ 32 = bits := by
  omega

theorem PeerAddress.spec (portMax : Nat) (hpm : portMax < 2 ^ 64) (p : PeerAddress) (h : p.valid portMax = true) :
    Spec PeerAddress.enc (PeerAddress.dec portMax) p := by
  cases p with
  | v4 a port =>
    simp [PeerAddress.valid] at h
    exact ⟨by simp [PeerAddress.enc]; omega,
      fun r => by simp [PeerAddress.enc, PeerAddress.dec, array_arr, u16_uint, u32_uint, uMax_uint portMax port h.2 (by omega), h]⟩
  | v6 bits port =>
    simp [PeerAddress.valid] at h
    have w1 : bits / 2 ^ 96 ≤ 4294967295 := by omega
    have w2 : bits / 2 ^ 64 % 2 ^ 32 ≤ 4294967295 := by omega
    have w3 : bits / 2 ^ 32 % 2 ^ 32 ≤ 4294967295 := by omega
    have w4 : bits % 2 ^ 32 ≤ 4294967295 := by omega
    refine ⟨by simp [PeerAddress.enc]; omega, fun r => ?_⟩
    simp only [PeerAddress.enc, PeerAddress.dec, labelled, array_arr _ _ (by omega : 6 < 2 ^ 64), Res.bind_ok, E.encodeList,
      List.append_assoc, List.nil_append, u16_uint 1 (by omega), u32_uint _ (by simpa using w1), u32_uint _ (by simpa using w2),
      u32_uint _ (by simpa using w3), u32_uint _ (by simpa using w4), uMax_uint portMax port h.2 (by omega), List.append_nil]
    rw [v6_words bits h.1]

theorem PeerSharing.Msg.spec (portMax : Nat) (hpm : portMax < 2 ^ 64) (m : PeerSharing.Msg) (h : m.valid portMax = true) :
    Spec PeerSharing.Msg.enc (PeerSharing.Msg.dec portMax) m := by
  cases m with
  | done => exact ⟨by simp [Msg.enc], fun r => by simp [Msg.enc, Msg.dec, array_arr, u16_uint]⟩
  | shareRequest n =>
    simp [Msg.valid] at h
    exact ⟨by simp [Msg.enc]; omega, fun r => by simp [Msg.enc, Msg.dec, array_arr, u16_uint, u8_uint, h]⟩
  | sharePeers ps =>
    simp [Msg.valid] at h
    refine ⟨by simp [Msg.enc]; exact E.okList_map _ _ fun x hx => (PeerAddress.spec portMax hpm x (h x hx)).1, fun r => ?_⟩
    simp [Msg.enc, Msg.dec, array_arr, u16_uint]
    rw [vec_arrI (PeerAddress.dec portMax) PeerAddress.enc ps _ (fun x hx r => (PeerAddress.spec portMax hpm x (h x hx)).2 r)
      (fun x _ => by cases x <;> exact E.startsNonBreak_arr _ _)]
    simp

/-! ### handshake -/

theorem flatMap_pair_length {α : Type} (f g : α → E) (l : List α) :
    (l.flatMap fun kv => [f kv, g kv]).length = 2 * l.length := by
  induction l with
  | nil => rfl
  | cons a l ih => simp only [List.flatMap_cons, List.length_append, List.length_cons, List.length_nil, ih]; omega

theorem VersionTable.spec {D : Type} (encD : D → E) (decD : Dec D) (vD : D → Bool)
    (hD : ∀ d, vD d = true → Spec encD decD d) (vt : VersionTable D) (h : VersionTable.valid vD vt = true) :
    Spec (VersionTable.enc encD) (VersionTable.dec decD) vt := by
  simp [VersionTable.valid] at h
  obtain ⟨⟨hl, hs⟩, hall⟩ := h
  refine ⟨?_, fun r => ?_⟩
  · simp only [VersionTable.enc, E.ok, Bool.and_eq_true, decide_eq_true_eq]
    exact ⟨⟨hl, flatMap_pair_length _ _ vt⟩,
      E.okList_flatMap _ _ fun kv hkv => by simp [(hall kv.1 kv.2 hkv).1, (hD kv.2 (hall kv.1 kv.2 hkv).2).1]⟩
  · simp only [VersionTable.enc, VersionTable.dec, map_map _ _ hl, Res.bind_ok]
    rw [decN_pairs u64 decD E.uint encD vt r (fun p hp r => u64_uint p.1 (hall p.1 p.2 hp).1 r)
      (fun p hp r => (hD p.2 (hall p.1 p.2 hp).2).2 r)]
    simp [fromPairs_sorted vt hs]

theorem RefuseReason.spec (x : RefuseReason) (h : x.valid = true) : Spec RefuseReason.enc RefuseReason.dec x := by
  cases x with
  | versionMismatch vs =>
    simp [RefuseReason.valid] at h
    refine ⟨by simp [RefuseReason.enc, h.1]; exact E.okList_map _ _ fun v hv => by simpa using h.2 v hv, fun r => ?_⟩
    simp [RefuseReason.enc, RefuseReason.dec, array_arr, u16_uint]
    rw [vec_arr u64 E.uint vs h.1 _ fun v hv r => u64_uint v (h.2 v hv) r]
    simp
  | handshakeDecodeError v m | refused v m =>
    simp [RefuseReason.valid] at h
    exact ⟨by simp [RefuseReason.enc, h], fun r => by simp [RefuseReason.enc, RefuseReason.dec, array_arr, u16_uint, u64_uint, str_text, h]⟩

theorem Handshake.Msg.spec {D : Type} (encD : D → E) (decD : Dec D) (vD : D → Bool)
    (hD : ∀ d, vD d = true → Spec encD decD d) (m : Handshake.Msg D) (h : m.valid vD = true) :
    Spec (Handshake.Msg.enc encD) (Handshake.Msg.dec decD) m := by
  cases m with
  | propose vt | queryReply vt =>
    simp only [Msg.valid] at h
    obtain ⟨v1, v2⟩ := VersionTable.spec encD decD vD hD vt h
    exact ⟨by simp [Msg.enc, v1], fun r => by simp [Msg.enc, Msg.dec, array_arr, u16_uint, v2]⟩
  | accept v d =>
    simp [Msg.valid] at h
    obtain ⟨d1, d2⟩ := hD d h.2
    exact ⟨by simp [Msg.enc, d1, h], fun r => by simp [Msg.enc, Msg.dec, array_arr, u16_uint, u64_uint, d2, h]⟩
  | refuse x =>
    simp only [Msg.valid] at h
    obtain ⟨x1, x2⟩ := RefuseReason.spec x h
    exact ⟨by simp [Msg.enc, x1], fun r => by simp [Msg.enc, Msg.dec, array_arr, u16_uint, x2]⟩

theorem N2NData.spec (d : N2NData) (h : d.valid = true) : Spec N2NData.enc N2NData.dec d := by
  obtain ⟨magic, io, ps, q⟩ := d
  cases ps <;> cases q <;> simp [N2NData.valid] at h
  · exact ⟨by simp [N2NData.enc, h], fun r => by simp [N2NData.enc, N2NData.dec, array_arr, u64_uint, bool_bool, h]⟩
  · rename_i ps q
    exact ⟨by simp [N2NData.enc, h]; omega,
      fun r => by simp [N2NData.enc, N2NData.dec, array_arr, u64_uint, bool_bool, u8_uint, h]⟩

theorem N2CData.spec (d : N2CData) (h : d.valid = true) : Spec N2CData.enc N2CData.dec d := by
  obtain ⟨magic, q⟩ := d
  simp [N2CData.valid] at h
  cases q with
  | none =>
    refine ⟨by simp [N2CData.enc, h], fun r => ?_⟩
    obtain ⟨t, ht, hcases⟩ := datatype_uint magic r
    simp only [N2CData.enc, N2CData.dec, ht, Res.bind_ok, hcases, if_true, u64_uint magic h]
  | some q =>
    refine ⟨by simp [N2CData.enc, h], fun r => ?_⟩
    simp [N2CData.enc, N2CData.dec, datatype_arr, array_arr, u64_uint, bool_bool, h]

/-! ### txmonitor -/

theorem txDec_enc (era : Nat) (body : Bytes) (he : era ≤ 255) (hb : body.length < 2 ^ 64) (r : Bytes) :
    TxMonitor.txDec ((E.arr 2 [.uint era, .tag 24 (.bytes body)]).encode ++ r) = .ok (era, body) r := by
  simp [TxMonitor.txDec, tuple2, array_arr, u8_uint, tag_tag, bytes_bytes, he, hb]

/-- `ResponseNextTx(None)` is `[6]`, and the decoder decides between `None` and `Some` by looking at
    the type of whatever comes *after* the label — so reading it back is only guaranteed when the
    message is not followed by further bytes (`r = []`), which is how C22 states the round trip. -/
def SpecTM (m : TxMonitor.Msg) : Prop :=
  (TxMonitor.Msg.enc m).ok = true ∧
    ∀ r, (m = .responseNextTx none → r = []) → TxMonitor.Msg.dec ((TxMonitor.Msg.enc m).encode ++ r) = .ok m r

theorem TxMonitor.Msg.spec (m : TxMonitor.Msg) (h : m.valid = true) : SpecTM m := by
  cases m with
  | done | acquire | release | awaitAcquire | requestNextTx | requestSizeAndCapacity =>
    exact ⟨by simp [Msg.enc], fun r _ => by simp [Msg.enc, Msg.dec, array_arr, u16_uint]⟩
  | acquired s =>
    simp [Msg.valid] at h
    exact ⟨by simp [Msg.enc, h], fun r _ => by simp [Msg.enc, Msg.dec, array_arr, u16_uint, u64_uint, h]⟩
  | requestHasTx id =>
    simp [Msg.valid] at h
    exact ⟨by simp [Msg.enc, h], fun r _ => by simp [Msg.enc, Msg.dec, array_arr, u16_uint, str_text, h]⟩
  | responseHasTx b =>
    exact ⟨by simp [Msg.enc], fun r _ => by simp [Msg.enc, Msg.dec, array_arr, u16_uint, bool_bool]⟩
  | responseSizeAndCapacity c s n =>
    simp [Msg.valid] at h
    exact ⟨by simp [Msg.enc]; omega, fun r _ => by simp [Msg.enc, Msg.dec, array_arr, u16_uint, u32_uint, h]⟩
  | responseNextTx tx =>
    cases tx with
    | none =>
      refine ⟨by simp [Msg.enc], fun r hr => ?_⟩
      rw [hr rfl]
      have h1 := array_arr 1 [E.uint 6] (by omega) []
      have h2 := u16_uint 6 (by omega) []
      simp only [List.append_nil, E.encodeList] at h1 h2
      simp [Msg.enc, Msg.dec, h1, h2, datatype]
    | some eb =>
      obtain ⟨era, body⟩ := eb
      simp [Msg.valid] at h
      refine ⟨by simp [Msg.enc, h]; omega, fun r _ => ?_⟩
      simp [Msg.enc, Msg.dec, array_arr, u16_uint, datatype_arr, txDec_enc era body h.1 h.2]

/-- the read-ahead is real: `[6]` followed by an array head is not read back as `None` -/
theorem TxMonitor.responseNextTx_none_reads_ahead :
    TxMonitor.Msg.dec ((TxMonitor.Msg.enc (.responseNextTx none)).encode ++ [0x81, 0x05]) ≠ .ok (.responseNextTx none) [0x81, 0x05] := by
  decide

/-! ### localstate -/

theorem option_point (p : Point) (h : p.valid = true) (r : Bytes) :
    option Point.dec (p.enc.encode ++ r) = .ok (some p) r := by
  have hd : datatype (p.enc.encode ++ r) = .ok .array (p.enc.encode ++ r) := by
    cases p <;> exact datatype_arr _ _ _
  simp [option, hd, (Point.spec p h).2 r]

theorem LocalState.Msg.spec (okAny : Bytes → Bool) (hAny : AnyOk okAny) (m : LocalState.Msg) (h : m.valid okAny = true) :
    Spec LocalState.Msg.enc LocalState.Msg.dec m := by
  cases m with
  | acquired | release | done => exact ⟨by simp [Msg.enc], fun r => by simp [Msg.enc, Msg.dec, array_arr, u16_uint]⟩
  | failure f =>
    cases f <;>
    exact ⟨by simp [Msg.enc, AcquireFailure.enc], fun r => by simp [Msg.enc, Msg.dec, AcquireFailure.enc, AcquireFailure.dec, array_arr, u16_uint]⟩
  | query q =>
    simp [Msg.valid] at h
    obtain ⟨s1, s2⟩ := hAny q h
    exact ⟨by simp [Msg.enc, s1], fun r => by simp [Msg.enc, Msg.dec, array_arr, u16_uint, anyCbor_raw q s2]⟩
  | result q =>
    simp [Msg.valid] at h
    obtain ⟨s1, s2⟩ := hAny q h
    exact ⟨by simp [Msg.enc, s1], fun r => by simp [Msg.enc, Msg.dec, array_arr, u16_uint, anyCbor_raw q s2]⟩
  | acquire p =>
    cases p with
    | none => exact ⟨by simp [Msg.enc], fun r => by simp [Msg.enc, Msg.dec, array_arr, u16_uint]⟩
    | some p =>
      simp [Msg.valid] at h
      obtain ⟨p1, p2⟩ := Point.spec p h
      exact ⟨by simp [Msg.enc, p1], fun r => by simp [Msg.enc, Msg.dec, array_arr, u16_uint, p2]⟩
  | reAcquire p =>
    cases p with
    | none => exact ⟨by simp [Msg.enc], fun r => by simp [Msg.enc, Msg.dec, array_arr, u16_uint]⟩
    | some p =>
      simp [Msg.valid] at h
      obtain ⟨p1, _⟩ := Point.spec p h
      exact ⟨by simp [Msg.enc, p1], fun r => by simp [Msg.enc, Msg.dec, array_arr, u16_uint, option_point p h]⟩

/-! ### localtxsubmission -/

theorem LocalTx.Msg.spec {Tx Rej : Type} (encTx : Tx → E) (decTx : Dec Tx) (vTx : Tx → Bool)
    (encRej : Rej → E) (decRej : Dec Rej) (vRej : Rej → Bool) (ofString : Bytes → Rej)
    (hTx : ∀ t, vTx t = true → Spec encTx decTx t) (hRej : ∀ x, vRej x = true → Spec encRej decRej x)
    (m : LocalTx.Msg Tx Rej) (h : m.valid vTx vRej = true) :
    Spec (LocalTx.Msg.enc encTx encRej) (LocalTx.Msg.dec decTx decRej ofString) m := by
  cases m with
  | acceptTx | done => exact ⟨by simp [Msg.enc], fun r => by simp [Msg.enc, Msg.dec, array_arr, u16_uint]⟩
  | submitTx tx =>
    simp [Msg.valid] at h
    obtain ⟨t1, t2⟩ := hTx tx h
    exact ⟨by simp [Msg.enc, t1], fun r => by simp [Msg.enc, Msg.dec, array_arr, u16_uint, t2]⟩
  | rejectTx x =>
    simp [Msg.valid] at h
    obtain ⟨x1, x2⟩ := hRej x h
    exact ⟨by simp [Msg.enc, x1], fun r => by simp [Msg.enc, Msg.dec, array_arr, u16_uint, x2]⟩

theorem OpaqueReject.spec (okAny : Bytes → Bool) (hAny : AnyOk okAny) (x : OpaqueReject) (h : x.valid okAny = true) :
    Spec OpaqueReject.enc OpaqueReject.dec x := by
  cases x with
  | text s => simp [OpaqueReject.valid] at h
  | cbor raw =>
    simp [OpaqueReject.valid] at h
    obtain ⟨s1, s2⟩ := hAny raw h
    exact ⟨by simp [OpaqueReject.enc, s1], fun r => by simp [OpaqueReject.enc, OpaqueReject.dec, anyCbor_raw raw s2]⟩

theorem DmqPayload.spec (p : DmqPayload) (h : p.valid = true) : Spec DmqPayload.enc DmqPayload.dec p := by
  obtain ⟨b, k, e⟩ := p
  simp [DmqPayload.valid] at h
  exact ⟨by simp [DmqPayload.enc, h]; omega, fun r => by simp [DmqPayload.enc, DmqPayload.dec, array_arr, bytes_bytes, u64_uint, u32_uint, h]⟩

theorem DmqOpCert.spec (c : DmqOpCert) (h : c.valid = true) : Spec DmqOpCert.enc DmqOpCert.dec c := by
  obtain ⟨vk, i, s, sg⟩ := c
  simp [DmqOpCert.valid] at h
  exact ⟨by simp [DmqOpCert.enc, h], fun r => by simp [DmqOpCert.enc, DmqOpCert.dec, array_arr, bytes_bytes, u64_uint, h]⟩

theorem DmqMsg.spec (m : DmqMsg) (h : m.valid = true) : Spec DmqMsg.enc DmqMsg.dec m := by
  obtain ⟨id, p, sg, oc, vk⟩ := m
  simp [DmqMsg.valid] at h
  obtain ⟨p1, p2⟩ := DmqPayload.spec p h.1.1.1.2
  obtain ⟨c1, c2⟩ := DmqOpCert.spec oc h.1.2
  exact ⟨by simp [DmqMsg.enc, h, p1, c1], fun r => by simp [DmqMsg.enc, DmqMsg.dec, array_arr, bytes_bytes, p2, c2, h]⟩

theorem DmqReject.spec (x : DmqReject) (h : x.valid = true) : Spec DmqReject.enc DmqReject.dec x := by
  cases x with
  | alreadyReceived | expired => exact ⟨by simp [DmqReject.enc], fun r => by simp [DmqReject.enc, DmqReject.dec, array_arr, u8_uint]⟩
  | invalid s | other s =>
    simp [DmqReject.valid] at h
    exact ⟨by simp [DmqReject.enc, h], fun r => by simp [DmqReject.enc, DmqReject.dec, array_arr, u8_uint, str_text, h]⟩

/-! ### localmsgnotification -/

theorem LocalMsgNotification.Msg.spec (m : LocalMsgNotification.Msg) (h : m.valid = true) :
    Spec LocalMsgNotification.Msg.enc LocalMsgNotification.Msg.dec m := by
  cases m with
  | clientDone => exact ⟨by simp [Msg.enc], fun r => by simp [Msg.enc, Msg.dec, array_arr, u16_uint]⟩
  | requestNonBlocking | requestBlocking =>
    exact ⟨by simp [Msg.enc], fun r => by simp [Msg.enc, Msg.dec, array_arr, u16_uint, bool_bool]⟩
  | replyNonBlocking ms more =>
    simp [Msg.valid] at h
    refine ⟨by simp [Msg.enc]; exact E.okList_map _ _ fun x hx => (DmqMsg.spec x (h x hx)).1, fun r => ?_⟩
    simp [Msg.enc, Msg.dec, array_arr, u16_uint]
    rw [vec_arrI DmqMsg.dec DmqMsg.enc ms _ (fun x hx r => (DmqMsg.spec x (h x hx)).2 r) (fun x _ => E.startsNonBreak_arr _ _)]
    simp [bool_bool]
  | replyBlocking ms =>
    simp [Msg.valid] at h
    refine ⟨by simp [Msg.enc]; exact E.okList_map _ _ fun x hx => (DmqMsg.spec x (h x hx)).1, fun r => ?_⟩
    simp [Msg.enc, Msg.dec, array_arr, u16_uint]
    rw [vec_arrI DmqMsg.dec DmqMsg.enc ms _ (fun x hx r => (DmqMsg.spec x (h x hx)).2 r) (fun x _ => E.startsNonBreak_arr _ _)]
    simp

/-! ### Leios -/

theorem LeiosNotify.Msg.spec (okAny : Bytes → Bool) (hAny : AnyOk okAny) (m : LeiosNotify.Msg) (h : m.valid okAny = true) :
    Spec LeiosNotify.Msg.enc LeiosNotify.Msg.dec m := by
  cases m with
  | requestNext | done => exact ⟨by simp [Msg.enc], fun r => by simp [Msg.enc, Msg.dec, array_arr, u16_uint]⟩
  | blockAnnouncement x =>
    simp [Msg.valid] at h
    obtain ⟨s1, s2⟩ := hAny x h
    exact ⟨by simp [Msg.enc, s1], fun r => by simp [Msg.enc, Msg.dec, array_arr, u16_uint, anyCbor_raw x s2]⟩
  | blockOffer p sz =>
    simp [Msg.valid] at h
    obtain ⟨p1, p2⟩ := Point.spec p h.1
    exact ⟨by simp [Msg.enc, p1]; omega, fun r => by simp [Msg.enc, Msg.dec, array_arr, u16_uint, p2, u32_uint, h]⟩
  | blockTxsOffer p =>
    simp [Msg.valid] at h
    obtain ⟨p1, p2⟩ := Point.spec p h
    exact ⟨by simp [Msg.enc, p1], fun r => by simp [Msg.enc, Msg.dec, array_arr, u16_uint, p2]⟩
  | votes vs =>
    simp [Msg.valid] at h
    refine ⟨by simp [Msg.enc, h.1]; exact E.okList_map _ _ fun x hx => by simpa using (hAny x (h.2 x hx)).1, fun r => ?_⟩
    simp [Msg.enc, Msg.dec, array_arr, u16_uint]
    rw [vec_arr anyCbor E.raw vs h.1 _ fun x hx r => anyCbor_raw x (hAny x (h.2 x hx)).2 r]
    simp

theorem Bitmaps.spec (b : Bitmaps) (h : Bitmaps.valid b = true) : Spec Bitmaps.enc Bitmaps.dec b := by
  simp [Bitmaps.valid] at h
  obtain ⟨hs, hall⟩ := h
  have hlen := flatMap_pair_length (fun kv : Nat × Nat => E.uint kv.1) (fun kv => E.uint kv.2) b
  refine ⟨?_, fun r => ?_⟩
  · simp only [Bitmaps.enc, E.ok, Bool.and_eq_true, decide_eq_true_eq]
    refine ⟨by rw [hlen]; omega, E.okList_flatMap _ _ fun kv hkv => ?_⟩
    have := hall kv.1 kv.2 hkv
    simp [this.2]; omega
  · simp only [Bitmaps.enc, Bitmaps.dec, btreeMap, map_mapI, Res.bind_ok]
    rw [decBreak_pairs u16 u64 E.uint E.uint b r _ ?_ (fun p hp r => u16_uint p.1 (hall p.1 p.2 hp).1 r)
      (fun p hp r => u64_uint p.2 (hall p.1 p.2 hp).2 r) (fun p _ => E.startsNonBreak_uint _)]
    · simp [fromPairs_sorted b hs]
    · have := pairs_length_ge E.uint E.uint b (fun p _ => E.startsNonBreak_uint _)
      simp only [List.length_append, List.length_cons]; omega

theorem LeiosFetch.Msg.spec (okAny : Bytes → Bool) (hAny : AnyOk okAny) (m : LeiosFetch.Msg) (h : m.valid okAny = true) :
    Spec LeiosFetch.Msg.enc LeiosFetch.Msg.dec m := by
  cases m with
  | done => exact ⟨by simp [Msg.enc], fun r => by simp [Msg.enc, Msg.dec, array_arr, u16_uint]⟩
  | blockRequest p =>
    simp [Msg.valid] at h
    obtain ⟨p1, p2⟩ := Point.spec p h
    exact ⟨by simp [Msg.enc, p1], fun r => by simp [Msg.enc, Msg.dec, array_arr, u16_uint, p2]⟩
  | block x =>
    simp [Msg.valid] at h
    obtain ⟨s1, s2⟩ := hAny x h
    exact ⟨by simp [Msg.enc, s1], fun r => by simp [Msg.enc, Msg.dec, array_arr, u16_uint, anyCbor_raw x s2]⟩
  | blockTxsRequest p bm =>
    simp only [Msg.valid, Bool.and_eq_true] at h
    obtain ⟨p1, p2⟩ := Point.spec p h.1
    obtain ⟨b1, b2⟩ := Bitmaps.spec bm h.2
    exact ⟨by simp [Msg.enc, p1, b1], fun r => by simp [Msg.enc, Msg.dec, array_arr, u16_uint, p2, b2]⟩
  | blockTxs p bm txs =>
    simp only [Msg.valid, Bool.and_eq_true, lt64_iff, List.all_eq_true] at h
    obtain ⟨⟨⟨hp, hb⟩, hl⟩, hall⟩ := h
    obtain ⟨p1, p2⟩ := Point.spec p hp
    obtain ⟨b1, b2⟩ := Bitmaps.spec bm hb
    refine ⟨by simp [Msg.enc, p1, b1, hl]; exact E.okList_map _ _ fun x hx => by simpa using (hAny x (hall x hx)).1, fun r => ?_⟩
    simp [Msg.enc, Msg.dec, array_arr, u16_uint, p2, b2]
    rw [vec_arr anyCbor E.raw txs hl _ fun x hx r => anyCbor_raw x (hAny x (hall x hx)).2 r]
    simp

end PallasVerif.NetMsg
