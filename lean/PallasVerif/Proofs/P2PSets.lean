import PallasVerif.Model.P2PInitiator
/-! Facts about the list-as-set helpers of the initiator model (`sinsert`, `sremove`, `usub`). -/
namespace PallasVerif.P2P

theorem mem_sinsert {x p : Nat} {l : List Nat} : x ∈ sinsert p l ↔ x = p ∨ x ∈ l := by
  unfold sinsert
  by_cases h : p ∈ l
  · simp [h]; intro e; subst e; exact h
  · simp [h]

theorem mem_sremove {x p : Nat} {l : List Nat} : x ∈ sremove p l ↔ x ∈ l ∧ x ≠ p := by
  induction l with
  | nil => simp [sremove]
  | cons y ys ih =>
    unfold sremove
    by_cases h : y = p
    · subst h
      simp only [if_true, ih, List.mem_cons]
      constructor
      · rintro ⟨a, b⟩; exact ⟨Or.inr a, b⟩
      · rintro ⟨a | a, b⟩
        · exact absurd a b
        · exact ⟨a, b⟩
    · simp only [h, if_false, List.mem_cons, ih]
      constructor
      · rintro (a | ⟨a, b⟩)
        · subst a; exact ⟨Or.inl rfl, h⟩
        · exact ⟨Or.inr a, b⟩
      · rintro ⟨a | a, b⟩
        · exact Or.inl a
        · exact Or.inr ⟨a, b⟩

theorem nodup_sinsert {p : Nat} {l : List Nat} (h : l.Nodup) : (sinsert p l).Nodup := by
  unfold sinsert
  by_cases hp : p ∈ l
  · simp [hp, h]
  · simp [hp, h]

theorem nodup_sremove {p : Nat} {l : List Nat} (h : l.Nodup) : (sremove p l).Nodup := by
  induction l with
  | nil => simp [sremove]
  | cons y ys ih =>
    have hy : y ∉ ys ∧ ys.Nodup := by simpa using h
    unfold sremove
    by_cases e : y = p
    · simp only [e, if_true]; exact ih hy.2
    · simp only [e, if_false, List.nodup_cons]
      exact ⟨fun hm => hy.1 (mem_sremove.mp hm).1, ih hy.2⟩

theorem length_sinsert_le (p : Nat) (l : List Nat) : (sinsert p l).length ≤ l.length + 1 := by
  unfold sinsert
  by_cases hp : p ∈ l <;> simp [hp]

theorem length_sremove_le (p : Nat) (l : List Nat) : (sremove p l).length ≤ l.length := by
  induction l with
  | nil => simp [sremove]
  | cons y ys ih =>
    unfold sremove
    by_cases e : y = p
    · simp only [e, if_true, List.length_cons]; omega
    · simp only [e, if_false, List.length_cons]; omega

theorem sremove_not_mem {p : Nat} {l : List Nat} (h : p ∉ l) : sremove p l = l := by
  induction l with
  | nil => rfl
  | cons x xs ih =>
    have h1 : x ≠ p := fun e => h (by simp [e])
    have h2 : p ∉ xs := fun e => h (by simp [e])
    unfold sremove
    simp only [h1, if_false, ih h2]

theorem length_sremove_mem {p : Nat} {l : List Nat} (h : l.Nodup) (hp : p ∈ l) :
    (sremove p l).length + 1 = l.length := by
  induction l with
  | nil => simp at hp
  | cons x xs ih =>
    have hx : x ∉ xs ∧ xs.Nodup := by simpa using h
    unfold sremove
    by_cases e : x = p
    · subst e
      simp only [if_true, sremove_not_mem hx.1, List.length_cons]
    · have hp' : p ∈ xs := by
        rcases List.mem_cons.mp hp with e' | e'
        · exact absurd e'.symm e
        · exact e'
      have := ih hx.2 hp'
      simp only [e, if_false, List.length_cons]
      omega

theorem usub_some {a b : Nat} (h : b ≤ a) : usub a b = some (a - b) := by simp [usub, h]

theorem usub_eq_some {a b r : Nat} (h : usub a b = some r) : b ≤ a ∧ r = a - b := by
  unfold usub at h
  by_cases hb : b ≤ a
  · simp [hb] at h; exact ⟨hb, h.symm⟩
  · simp [hb] at h

end PallasVerif.P2P
