import PallasVerif.Model.Memsec
/-! Helper lemmas for C14 (`Props/C14.lean`): lifting the 511-case tables to bytes, the
    fold invariants of the two loops. -/
namespace PallasVerif.Proofs.Memsec
open PallasVerif.Memsec

/-- every difference of two bytes, as an `i32`: `k - 255` for `k < 511` -/
def dOf (k : Nat) : BitVec 32 := BitVec.ofNat 32 k - 255#32

theorem diff_eq_dOf (a b : UInt8) : diff a b = dOf (a.toNat + 255 - b.toNat) := by
  have ha := a.toNat_lt
  have hb := b.toNat_lt
  apply BitVec.eq_of_toNat_eq
  simp [diff, dOf, toI32, BitVec.toNat_sub]
  omega

theorem diff_idx_lt (a b : UInt8) : a.toNat + 255 - b.toNat < 511 := by
  have ha := a.toNat_lt
  have hb := b.toNat_lt
  omega

theorem diff_self (a : UInt8) : diff a a = 0 := by simp [diff]

theorem compare_shift (a b : Nat) (_ : a < 256) (_ : b < 256) :
    compare (a + 255 - b) 255 = compare a b := by
  rcases Nat.lt_trichotomy a b with h | h | h
  · rw [Nat.compare_eq_lt.mpr (by omega), Nat.compare_eq_lt.mpr h]
  · rw [Nat.compare_eq_eq.mpr (by omega), Nat.compare_eq_eq.mpr h]
  · rw [Nat.compare_eq_gt.mpr (by omega), Nat.compare_eq_gt.mpr h]

/-- the value the reversed loop leaves in `res`: the difference at the FIRST index where
    the strings differ, `0` if there is none -/
def firstDiff : List UInt8 → List UInt8 → BitVec 32
  | x :: xs, y :: ys => if x = y then firstDiff xs ys else diff x y
  | _, _ => 0

theorem firstDiff_cases (a b : List UInt8) :
    firstDiff a b = 0 ∨ ∃ x y, x ≠ y ∧ firstDiff a b = diff x y := by
  induction a generalizing b with
  | nil => simp [firstDiff]
  | cons x xs ih =>
    cases b with
    | nil => simp [firstDiff]
    | cons y ys =>
      by_cases e : x = y
      · simp only [firstDiff, e, if_true]; exact ih ys
      · right; exact ⟨x, y, e, by simp [firstDiff, e]⟩

theorem firstDiff_is_dOf (a b : List UInt8) : ∃ k : Fin 511, firstDiff a b = dOf k.val := by
  rcases firstDiff_cases a b with h | ⟨x, y, _, h⟩
  · exact ⟨⟨255, by omega⟩, by rw [h]; decide⟩
  · exact ⟨⟨_, diff_idx_lt x y⟩, by rw [h, diff_eq_dOf]⟩

theorem compare_u8 (x y : UInt8) : compare x y = compare x.toNat y.toNat := by
  rw [Nat.compare_eq_ite_lt]
  simp only [compare, compareOfLessAndEq, UInt8.lt_iff_toNat_lt]
  by_cases h1 : x.toNat < y.toNat
  · simp [h1]
  · by_cases h2 : x = y
    · subst h2; simp
    · have : x.toNat ≠ y.toNat := fun h => h2 (UInt8.toNat_inj.mp h)
      have : y.toNat < x.toNat := by omega
      simp [h1, h2, this]

/-- `memeq` loop invariant -/
theorem foldl_or_eq_zero (ps : List (UInt8 × UInt8)) (s : UInt8) :
    ps.foldl (fun sum p => sum ||| (p.1 ^^^ p.2)) s = 0 ↔ s = 0 ∧ ∀ p ∈ ps, p.1 = p.2 := by
  induction ps generalizing s with
  | nil => simp
  | cons p ps ih =>
    simp only [List.foldl_cons, ih, UInt8.or_eq_zero_iff, UInt8.xor_eq_zero_iff, List.mem_cons,
      forall_eq_or_imp]
    constructor
    · rintro ⟨⟨h1, h2⟩, h3⟩; exact ⟨h1, h2, h3⟩
    · rintro ⟨h1, h2, h3⟩; exact ⟨⟨h1, h2⟩, h3⟩

theorem zip_all_eq_iff (a b : List UInt8) (h : a.length = b.length) :
    (∀ p ∈ a.zip b, p.1 = p.2) ↔ a = b := by
  induction a generalizing b with
  | nil => cases b with
    | nil => simp
    | cons y ys => simp at h
  | cons x xs ih =>
    cases b with
    | nil => simp at h
    | cons y ys =>
      simp only [List.length_cons, Nat.add_right_cancel_iff] at h
      simp only [List.zip_cons_cons, List.mem_cons, forall_eq_or_imp, ih ys h, List.cons.injEq]

end PallasVerif.Proofs.Memsec
