import PallasVerif.Proofs.SchemaIsoFields
/-! `canon_iso`: for every schema inside the checked fragment, a canonical item that decodes re-encodes to itself. -/
namespace PallasVerif.Schema
open PallasVerif.Cbor

/-- the hand-modelled leaf codecs re-encode the items they call canonical -/
def CustomsIso (env : Env) : Prop :=
  ∀ (i : Nat) (c : Custom), env.customs[i]? = some c → ∀ it, c.canon it = true → Iso c.enc c.dec it

theorem canon_iso (env : Env) (hv : env.valid = true) (hci : CustomsIso env) :
    ∀ f s fo it, ok env fo s = true → canon env f s it = true → Iso (enc env f s) (dec env f s) it := by
  intro f
  induction f with
  | zero => intro s fo it _ h; simp [canon] at h
  | succ f ih =>
    intro s fo it hok hcn
    cases fo with
    | zero => simp [ok] at hok
    | succ fo =>
      cases s with
      | uint b => exact iso_uint b it (by simpa [canon] using hcn)
      | sint b => exact iso_sint b it (by simpa [canon] using hcn)
      | int => exact iso_int it (by simpa [canon] using hcn)
      | nzint => exact iso_nzint it (by simpa [canon] using hcn)
      | posCoin => exact iso_posCoin it (by simpa [canon] using hcn)
      | bytes => exact iso_bytes it (by simpa [canon] using hcn)
      | hash n => exact iso_hash n it (by simpa [canon] using hcn)
      | text => exact iso_text it (by simpa [canon] using hcn)
      | bool => exact iso_bool it (by simpa [canon] using hcn)
      | vec s =>
        simp only [ok] at hok
        simp only [canon] at hcn
        exact iso_vec (c := canon env f s) (fun x hx => ih s fo x hok hx) it hcn
      | tuple fs =>
        simp only [ok, Bool.and_eq_true, decide_eq_true_eq, List.all_eq_true] at hok
        simp only [canon] at hcn
        exact iso_tuple (c := canon env f) fs (fun s hs x hx => ih s fo x (hok.2 s hs) hx) it hcn
      | btmap k x =>
        simp only [ok, Bool.and_eq_true] at hok
        simp only [canon, Bool.and_eq_true] at hcn
        exact iso_btmap (ck := canon env f k) (cv := canon env f x) (fun y hy => ih k fo y hok.1.1 hy)
          (fun y hy => ih x fo y hok.1.2 hy) it hcn.1 hcn.2
      | opt s =>
        simp only [ok, Bool.and_eq_true] at hok
        simp only [canon, Bool.or_eq_true, Bool.and_eq_true, bne_iff_ne, ne_eq] at hcn
        refine iso_opt it ?_
        rcases hcn with h | ⟨h1, h2⟩
        · exact Or.inl h
        · exact Or.inr ⟨h1, ih s fo it hok.1 h2⟩
      | struct l t fs =>
        simp only [ok, Bool.and_eq_true, List.all_eq_true] at hok
        obtain ⟨⟨hi, hfs⟩, _⟩ := hok
        simp only [canon] at hcn
        exact iso_struct (c := canon env f) l t fs (fun p hp x hx => ih p.2 fo x (hfs p hp) hx) hi it hcn
      | enumFlat vs =>
        simp only [ok, Bool.and_eq_true, List.all_eq_true, decide_eq_true_eq] at hok
        simp only [canon] at hcn
        exact iso_enumFlat (c := canon env f) vs (fun v hv p hp x hx => ih p.2 fo x ((hok.2 v hv).2 p hp) hx) it hcn
      | enumIdx vs => exact iso_enumIdx vs it (by simpa [canon] using hcn)
      | byType alts many =>
        simp only [ok, Bool.and_eq_true, List.all_eq_true] at hok
        obtain ⟨⟨⟨hdist, halts⟩, _⟩, hmany⟩ := hok
        simp only [canon] at hcn
        refine iso_byType (c := canon env f) alts many hdist (fun a ha x hx => ih a.2.2 fo x (halts a ha).1 hx) ?_ it hcn
        intro mp ms hm s hs x hx
        subst hm
        simp only [Bool.and_eq_true, List.all_eq_true] at hmany
        exact ih s fo x (hmany.1.1 s hs) hx
      | sumFixed b vs =>
        simp only [ok, Bool.and_eq_true, List.all_eq_true] at hok
        simp only [canon] at hcn
        exact iso_sum (c := canon env f) b vs (fun v hv s hs x hx => ih s fo x ((hok.2 v hv).2 s hs) hx) it hcn
      | sumOther b vs o =>
        simp only [ok, Bool.and_eq_true, List.all_eq_true] at hok
        simp only [canon] at hcn
        exact iso_sumOther (c := canon env f) b vs o (fun v hv s hs x hx => ih s fo x ((hok.1.1.2 v hv).2 s hs) hx)
          (fun s hs x hx => ih s fo x (hok.2 s hs) hx) it hcn
      | keepRaw s => exact iso_keepRaw _ _ it
      | nullable s =>
        simp only [ok, Bool.and_eq_true] at hok
        simp only [canon, Bool.or_eq_true, Bool.and_eq_true, bne_iff_ne, ne_eq] at hcn
        refine iso_nullable it ?_
        rcases hcn with (h | h) | ⟨⟨h1, h2⟩, h3⟩
        · exact Or.inl h
        · exact Or.inr (Or.inl h)
        · exact Or.inr (Or.inr ⟨h1, h2, ih s fo it hok.1.1 h3⟩)
      | set s =>
        simp only [ok] at hok
        simp only [canon] at hcn
        exact iso_set (c := canon env f s) (fun x hx => ih s fo x hok hx) it hcn
      | maybeIndef s =>
        simp only [ok] at hok
        simp only [canon] at hcn
        exact iso_maybeIndef (c := canon env f s) (fun x hx => ih s fo x hok hx) it hcn
      | kvPairs k x =>
        simp only [ok, Bool.and_eq_true] at hok
        simp only [canon] at hcn
        exact iso_kvPairs (ck := canon env f k) (cv := canon env f x) (fun y hy => ih k fo y hok.1 hy)
          (fun y hy => ih x fo y hok.2 hy) it hcn
      | cborWrap s =>
        simp only [ok] at hok
        simp only [canon] at hcn
        exact iso_cborWrap (c := canon env f s) (fun x hx => ih s fo x hok hx) it hcn
      | tagWrap t s =>
        simp only [ok, Bool.and_eq_true] at hok
        simp only [canon] at hcn
        exact iso_tagWrap (c := canon env f s) (fun x hx => ih s fo x hok.2 hx) t it hcn
      | emptyMap => exact iso_emptyMap it (by simpa [canon] using hcn)
      | zeroOrOne s =>
        simp only [ok] at hok
        simp only [canon] at hcn
        exact iso_zeroOrOne (c := canon env f s) (fun x hx => ih s fo x hok hx) it hcn
      | any => exact iso_any it (by simpa [canon] using hcn)
      | ref i =>
        simp only [ok, decide_eq_true_eq] at hok
        have hget : env.types[i]? = some env.types[i] := List.getElem?_eq_getElem hok
        have hmem : env.types[i] ∈ env.types := List.getElem_mem hok
        simp only [Env.valid, List.all_eq_true, Bool.and_eq_true] at hv
        obtain ⟨⟨h1, _⟩, _⟩ := hv _ hmem
        simp only [canon, hget] at hcn
        have e1 : enc env (f + 1) (.ref i) = enc env f env.types[i].schema := by
          funext v; simp [enc, hget]
        have e2 : dec env (f + 1) (.ref i) = dec env f env.types[i].schema := by
          funext v; simp [dec, hget]
        rw [e1, e2]
        exact ih _ okFuel it h1 hcn
      | custom i =>
        simp only [ok, decide_eq_true_eq] at hok
        have hget : env.customs[i]? = some env.customs[i] := List.getElem?_eq_getElem hok
        simp only [canon, hget] at hcn
        have e1 : enc env (f + 1) (.custom i) = env.customs[i].enc := by
          funext v; simp [enc, hget]
        have e2 : dec env (f + 1) (.custom i) = env.customs[i].dec := by
          funext v; simp [dec, hget]
        rw [e1, e2]
        exact hci i _ hget it hcn

end PallasVerif.Schema
