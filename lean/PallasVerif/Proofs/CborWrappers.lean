import PallasVerif.Model.CborWrappers
import PallasVerif.Proofs.Minicbor
/-!
  Laws of the wrapper codecs of `Model/CborWrappers.lean`:
  `RTon c wf` (decode ∘ encode = id on well-formed values, with any trailing bytes) and
  `Pres c` (encode ∘ decode = id on every accepted input).
-/
namespace PallasVerif.Wrappers
open PallasVerif.Cbor PallasVerif.Minicbor

/-- round trip on the values satisfying `wf`: decoding the encoding (followed by anything) yields the
    value and leaves exactly what followed -/
def RTon {α : Type} (c : Codec α) (wf : α → Prop) : Prop :=
  ∀ a, wf a → ∀ r, c.dec (c.enc a ++ r) = .ok a r

/-- every accepted input is reproduced byte for byte by re-encoding what was decoded -/
def Pres {α : Type} (c : Codec α) : Prop :=
  ∀ bs a r, c.dec bs = .ok a r → c.enc a ++ r = bs

/-! ## big-endian bytes -/

theorem ofBe_lt (bs : Bytes) : ofBe bs < 256 ^ bs.length := by
  induction bs with
  | nil => simp [ofBe]
  | cons b t ih =>
    have hb := UInt8.toNat_lt b
    simp only [ofBe, List.length_cons, Nat.pow_succ]
    have : b.toNat * 256 ^ t.length + ofBe t < (b.toNat + 1) * 256 ^ t.length := by
      rw [Nat.add_mul]; omega
    have h2 : (b.toNat + 1) * 256 ^ t.length ≤ 256 * 256 ^ t.length := Nat.mul_le_mul_right _ (by omega)
    rw [Nat.mul_comm (256 ^ t.length) 256]; omega

theorem be_add_mul (k m q : Nat) : be k (q * 256 ^ k + m) = be k m := by
  induction k generalizing q with
  | zero => rfl
  | succ k ih =>
    simp only [be]
    have e1 : q * 256 ^ (k + 1) + m = (q * 256) * 256 ^ k + m := by rw [Nat.pow_succ]; ac_rfl
    rw [e1, ih (q * 256)]
    congr 1
    have hpos : 0 < 256 ^ k := Nat.pow_pos (by omega)
    rw [Nat.add_comm, Nat.add_mul_div_right _ _ hpos]
    apply UInt8.toNat_inj.mp
    simp [UInt8.toNat_ofNat']

theorem be_ofBe (bs : Bytes) : be bs.length (ofBe bs) = bs := by
  induction bs with
  | nil => rfl
  | cons b t ih =>
    have hlt := ofBe_lt t
    have hpos : 0 < 256 ^ t.length := Nat.pow_pos (by omega)
    simp only [List.length_cons, be, ofBe]
    rw [be_add_mul, ih]
    congr 1
    rw [Nat.add_comm, Nat.add_mul_div_right _ _ hpos, Nat.div_eq_of_lt hlt, Nat.zero_add]
    exact UInt8.ofNat_toNat

theorem readBe_inv (w : Nat) (cur : Bytes) (n : Nat) (r : Bytes) (h : readBe w cur = .ok n r) :
    cur = be w n ++ r ∧ n < 256 ^ w := by
  unfold readBe at h
  split at h
  · rename_i hw
    simp only [Res.ok.injEq] at h
    obtain ⟨rfl, rfl⟩ := h
    have hl : (cur.take w).length = w := by simp; omega
    have e : be w (ofBe (cur.take w)) = cur.take w := by
      have := be_ofBe (cur.take w); rwa [hl] at this
    constructor
    · rw [e]; simp
    · have := ofBe_lt (cur.take w); rwa [hl] at this
  · cases h

theorem byte_eq_of_toNat (b : UInt8) (n : Nat) (h : b.toNat = n) : b = UInt8.ofNat n := by
  subst h; exact UInt8.ofNat_toNat.symm

/-! ## `AnyUInt` -/

theorem be1 (x : Nat) : be 1 x = [UInt8.ofNat x] := by simp [be]

theorem uintN_inv (bits : Nat) (b : UInt8) (t : Bytes) (x : Nat) (r : Bytes) (h : uintN bits (b :: t) = .ok x r) :
    b.toNat ≤ 0x1b ∧ unsigned b.toNat t = .ok x r ∧ x < 2 ^ bits := by
  simp only [uintN] at h
  split at h
  · rename_i hb
    obtain ⟨n, r', e1, e2⟩ := Res.andThen_eq_ok h
    split at e2
    · simp only [Res.ok.injEq] at e2; obtain ⟨rfl, rfl⟩ := e2; exact ⟨hb, e1, by assumption⟩
    · cases e2
  · cases h

/-- **`AnyUInt` round-trips**: all five widths, every magnitude that fits its width -/
theorem anyuint_rt : RTon cAnyUInt AnyUInt.wf := by
  intro a hw r
  cases a with
  | majorByte x =>
    simp only [AnyUInt.wf] at hw
    have hb : (UInt8.ofNat x).toNat = x := toNat_ofNat_lt x (by omega)
    have hne : (UInt8.ofNat x) ≠ 0x18 := by
      intro e; have := congrArg UInt8.toNat e; rw [hb] at this; simp at this; omega
    simp only [cAnyUInt, AnyUInt.enc, be1, List.cons_append, List.nil_append, AnyUInt.dec, datatype,
      typeOf_u8 _ _ (by omega : (UInt8.ofNat x).toNat ≤ 0x18), if_true, List.head?_cons, Minicbor.u8, uintN, hb]
    simp [show x ≤ 27 by omega, unsigned_imm x r hw, show x < 256 by omega, hne]
  | u8 x =>
    simp only [AnyUInt.wf, AnyUInt.inRange] at hw
    have h24 : (24 : UInt8).toNat = 24 := rfl
    simp only [cAnyUInt, AnyUInt.enc, List.cons_append, AnyUInt.dec, datatype,
      typeOf_u8 _ (24 : UInt8) (by decide), if_true, List.head?_cons, Minicbor.u8, uintN, h24]
    simp [unsigned_24, readBe_be 1 x r (by omega), hw]
  | u16 x =>
    simp only [AnyUInt.wf, AnyUInt.inRange] at hw
    have h25 : (25 : UInt8).toNat = 25 := rfl
    simp only [cAnyUInt, AnyUInt.enc, List.cons_append, AnyUInt.dec, datatype,
      typeOf_u16 _ (25 : UInt8) rfl, Minicbor.u16, uintN, h25]
    simp [unsigned_25, readBe_be 2 x r (by omega), hw]
  | u32 x =>
    simp only [AnyUInt.wf, AnyUInt.inRange] at hw
    have h26 : (26 : UInt8).toNat = 26 := rfl
    simp only [cAnyUInt, AnyUInt.enc, List.cons_append, AnyUInt.dec, datatype,
      typeOf_u32 _ (26 : UInt8) rfl, Minicbor.u32, uintN, h26]
    simp [unsigned_26, readBe_be 4 x r (by omega), hw]
  | u64 x =>
    simp only [AnyUInt.wf, AnyUInt.inRange] at hw
    have h27 : (27 : UInt8).toNat = 27 := rfl
    simp only [cAnyUInt, AnyUInt.enc, List.cons_append, AnyUInt.dec, datatype,
      typeOf_u64 _ (27 : UInt8) rfl, Minicbor.u64, uintN, h27]
    simp [unsigned_27, readBe_be 8 x r (by omega), hw]

/-- the datatype of an unsigned head, by its initial byte -/
theorem typeOf_uint_cases (cur : Bytes) (b : UInt8) (hb : b.toNat ≤ 0x1b) :
    (b.toNat ≤ 0x18 ∧ typeOf cur b = .ok .u8) ∨ (b.toNat = 0x19 ∧ typeOf cur b = .ok .u16) ∨
    (b.toNat = 0x1a ∧ typeOf cur b = .ok .u32) ∨ (b.toNat = 0x1b ∧ typeOf cur b = .ok .u64) := by
  by_cases h1 : b.toNat ≤ 0x18
  · exact Or.inl ⟨h1, typeOf_u8 _ _ h1⟩
  · by_cases h2 : b.toNat = 0x19
    · exact Or.inr (Or.inl ⟨h2, typeOf_u16 _ _ h2⟩)
    · by_cases h3 : b.toNat = 0x1a
      · exact Or.inr (Or.inr (Or.inl ⟨h3, typeOf_u32 _ _ h3⟩))
      · exact Or.inr (Or.inr (Or.inr ⟨by omega, typeOf_u64 _ _ (by omega)⟩))

/-- **`AnyUInt` preserves every accepted encoding** (all five forms of the head) -/
theorem anyuint_pres : Pres cAnyUInt := by
  intro bs a r h
  cases bs with
  | nil => simp [cAnyUInt, AnyUInt.dec, datatype] at h
  | cons b t =>
    simp only [cAnyUInt, AnyUInt.dec, datatype] at h
    cases hT : typeOf (b :: t) b with
    | error e => simp [hT] at h
    | ok ty =>
      simp only [hT] at h
      -- in every branch the value comes from `uintN _ (b :: t)`
      have key : ∀ bits x, uintN bits (b :: t) = .ok x r →
          (b.toNat < 0x18 ∧ x = b.toNat ∧ r = t ∧ ty = .u8) ∨
          (b.toNat = 0x18 ∧ t = be 1 x ++ r ∧ ty = .u8) ∨
          (b.toNat = 0x19 ∧ t = be 2 x ++ r ∧ ty = .u16) ∨
          (b.toNat = 0x1a ∧ t = be 4 x ++ r ∧ ty = .u32) ∨
          (b.toNat = 0x1b ∧ t = be 8 x ++ r ∧ ty = .u64) := by
        intro bits x hu
        obtain ⟨hb, hun, _⟩ := uintN_inv bits b t x r hu
        rcases typeOf_uint_cases (b :: t) b hb with ⟨h1, e⟩ | ⟨h1, e⟩ | ⟨h1, e⟩ | ⟨h1, e⟩
        · rw [hT] at e; cases e
          by_cases h18 : b.toNat = 0x18
          · rw [h18, unsigned_24] at hun
            exact Or.inr (Or.inl ⟨h18, (readBe_inv 1 t x r hun).1, rfl⟩)
          · have hlt : b.toNat < 24 := by omega
            rw [unsigned_imm _ _ hlt] at hun
            simp only [Res.ok.injEq] at hun
            exact Or.inl ⟨by omega, hun.1.symm, hun.2.symm, rfl⟩
        · rw [hT] at e; cases e
          rw [h1, unsigned_25] at hun
          exact Or.inr (Or.inr (Or.inl ⟨h1, (readBe_inv 2 t x r hun).1, rfl⟩))
        · rw [hT] at e; cases e
          rw [h1, unsigned_26] at hun
          exact Or.inr (Or.inr (Or.inr (Or.inl ⟨h1, (readBe_inv 4 t x r hun).1, rfl⟩)))
        · rw [hT] at e; cases e
          rw [h1, unsigned_27] at hun
          exact Or.inr (Or.inr (Or.inr (Or.inr ⟨h1, (readBe_inv 8 t x r hun).1, rfl⟩)))
      split at h
      · -- U8
        rename_i hty
        obtain ⟨x, hu, ha⟩ := Res.map_eq_ok h
        rcases key 8 x hu with ⟨h1, hx, hr, _⟩ | ⟨h1, ht, _⟩ | ⟨_, _, e⟩ | ⟨_, _, e⟩ | ⟨_, _, e⟩
        · have hne : b ≠ 0x18 := by intro e; rw [e] at h1; simp at h1
          simp only [List.head?_cons, Option.some.injEq, hne, decide_false] at ha
          subst ha hr hx
          simp [cAnyUInt, AnyUInt.enc, be1]
        · have hb : b = 0x18 := by rw [byte_eq_of_toNat b _ h1]; rfl
          simp only [List.head?_cons, hb, decide_true, if_true] at ha
          subst ha
          simp [cAnyUInt, AnyUInt.enc, hb, ht]
        all_goals (rw [hty] at e; cases e)
      · split at h
        · rename_i hty
          obtain ⟨x, hu, ha⟩ := Res.map_eq_ok h
          rcases key 16 x hu with ⟨_, _, _, e⟩ | ⟨_, _, e⟩ | ⟨h1, ht, _⟩ | ⟨_, _, e⟩ | ⟨_, _, e⟩
          any_goals (rw [hty] at e; cases e)
          have hb : b = 0x19 := by rw [byte_eq_of_toNat b _ h1]; rfl
          subst ha; simp [cAnyUInt, AnyUInt.enc, hb, ht]
        · split at h
          · rename_i hty
            obtain ⟨x, hu, ha⟩ := Res.map_eq_ok h
            rcases key 32 x hu with ⟨_, _, _, e⟩ | ⟨_, _, e⟩ | ⟨_, _, e⟩ | ⟨h1, ht, _⟩ | ⟨_, _, e⟩
            any_goals (rw [hty] at e; cases e)
            have hb : b = 0x1a := by rw [byte_eq_of_toNat b _ h1]; rfl
            subst ha; simp [cAnyUInt, AnyUInt.enc, hb, ht]
          · split at h
            · rename_i hty
              obtain ⟨x, hu, ha⟩ := Res.map_eq_ok h
              rcases key 64 x hu with ⟨_, _, _, e⟩ | ⟨_, _, e⟩ | ⟨_, _, e⟩ | ⟨_, _, e⟩ | ⟨h1, ht, _⟩
              any_goals (rw [hty] at e; cases e)
              have hb : b = 0x1b := by rw [byte_eq_of_toNat b _ h1]; rfl
              subst ha; simp [cAnyUInt, AnyUInt.enc, hb, ht]
            · cases h

/-- every value the decoder produces is well formed (so `anyuint_rt` applies to it) -/
theorem anyuint_dec_wf (bs : Bytes) (a : AnyUInt) (r : Bytes) (h : AnyUInt.dec bs = .ok a r) : a.wf := by
  cases bs with
  | nil => simp [AnyUInt.dec, datatype] at h
  | cons b t =>
    simp only [AnyUInt.dec, datatype] at h
    cases hT : typeOf (b :: t) b with
    | error e => simp [hT] at h
    | ok ty =>
      simp only [hT] at h
      split at h
      · obtain ⟨x, hu, ha⟩ := Res.map_eq_ok h
        obtain ⟨hb, hun, hx⟩ := uintN_inv 8 b t x r hu
        by_cases h18 : b = 0x18
        · simp only [List.head?_cons, h18, decide_true, if_true] at ha
          subst ha; simpa [AnyUInt.wf, AnyUInt.inRange] using hx
        · simp only [List.head?_cons, Option.some.injEq, h18, decide_false] at ha
          subst ha
          rename_i hty
          rcases typeOf_uint_cases (b :: t) b hb with ⟨h1, _⟩ | ⟨_, e⟩ | ⟨_, e⟩ | ⟨_, e⟩
          · have hlt : b.toNat < 24 := by
              have : b.toNat ≠ 0x18 := fun e => h18 (by rw [byte_eq_of_toNat b _ e]; rfl)
              omega
            rw [unsigned_imm _ _ hlt] at hun
            simp only [Res.ok.injEq] at hun
            simpa [AnyUInt.wf, ← hun.1] using hlt
          all_goals (rw [hT] at e; rw [hty] at e; cases e)
      · split at h
        · obtain ⟨x, hu, ha⟩ := Res.map_eq_ok h
          subst ha; simpa [AnyUInt.wf, AnyUInt.inRange] using (uintN_inv 16 b t x r hu).2.2
        · split at h
          · obtain ⟨x, hu, ha⟩ := Res.map_eq_ok h
            subst ha; simpa [AnyUInt.wf, AnyUInt.inRange] using (uintN_inv 32 b t x r hu).2.2
          · split at h
            · obtain ⟨x, hu, ha⟩ := Res.map_eq_ok h
              subst ha; simpa [AnyUInt.wf, AnyUInt.inRange] using (uintN_inv 64 b t x r hu).2.2
            · cases h

/-! ## `KeepRaw` -/

/-- the raw bytes kept are exactly the bytes the inner decoder consumed -/
theorem keepraw_raw_is_consumed {α : Type} (t : Codec α) (ht : Suffix t.dec) (bs : Bytes) (k : KeepRaw α) (r : Bytes)
    (h : KeepRaw.dec t bs = .ok k r) : bs = k.raw ++ r ∧ t.dec bs = .ok k.inner r := by
  simp only [KeepRaw.dec] at h
  cases hd : t.dec bs with
  | err e => simp [hd] at h
  | ok a rest =>
    simp only [hd, Res.ok.injEq] at h
    obtain ⟨rfl, rfl⟩ := h
    obtain ⟨c, hc⟩ := ht bs a rest hd
    subst hc
    simp [KeepRaw.raw, Cow.bytes, span_of_suffix]

/-- **`KeepRaw` preserves every accepted input**, whatever the inner codec is -/
theorem keepraw_pres {α : Type} (t : Codec α) (ht : Consumes t.dec) : Pres (cKeepRaw t) := by
  intro bs k r h
  simp only [cKeepRaw, KeepRaw.dec] at h
  cases hd : t.dec bs with
  | err e => simp [hd] at h
  | ok a rest =>
    simp only [hd, Res.ok.injEq] at h
    obtain ⟨rfl, rfl⟩ := h
    obtain ⟨c, hne, hc⟩ := ht bs a rest hd
    subst hc
    have : c.isEmpty = false := by cases c <;> simp at hne ⊢
    simp [cKeepRaw, KeepRaw.enc, KeepRaw.raw, Cow.bytes, span_of_suffix, this]

/-- **mutation re-encodes from the new content** -/
theorem keepraw_mut {α : Type} (t : Codec α) (k : KeepRaw α) (f : α → α) :
    KeepRaw.enc t (k.derefMut f) = t.enc (f k.inner) := by
  simp [KeepRaw.enc, KeepRaw.derefMut, KeepRaw.clearRaw, KeepRaw.raw, Cow.bytes]

/-- a wrapper that is only read re-encodes its raw bytes -/
theorem keepraw_unmutated {α : Type} (t : Codec α) (k : KeepRaw α) (h : k.raw ≠ []) : KeepRaw.enc t k = k.raw := by
  have : k.raw.isEmpty = false := by cases hk : k.raw <;> simp [hk] at h ⊢
  simp [KeepRaw.enc, this]

/-- round trip of a `KeepRaw` built with `From<T>` (no raw bytes): the content comes back, the raw
    bytes are now the encoding -/
theorem keepraw_rt_from {α : Type} (t : Codec α) (wf : α → Prop) (ht : RTon t wf) (a : α) (ha : wf a) (r : Bytes) :
    KeepRaw.dec t (KeepRaw.enc t (KeepRaw.from a) ++ r) = .ok ⟨.borrowed (t.enc a), a⟩ r := by
  simp [KeepRaw.dec, KeepRaw.enc, KeepRaw.from, KeepRaw.raw, Cow.bytes, ht a ha r, span_of_suffix]

/-- round trip of a decoded `KeepRaw`: it comes back unchanged, raw bytes included -/
theorem keepraw_rt_decoded {α : Type} (t : Codec α) (ht : Consumes t.dec) (bs : Bytes) (k : KeepRaw α) (r : Bytes)
    (h : KeepRaw.dec t bs = .ok k r) (r' : Bytes) (hind : t.dec (k.raw ++ r') = .ok k.inner r') :
    KeepRaw.dec t (KeepRaw.enc t k ++ r') = .ok k r' := by
  obtain ⟨hbs, hd⟩ := keepraw_raw_is_consumed t ht.suffix bs k r h
  obtain ⟨c, hne, hc⟩ := ht bs k.inner r hd
  have hraw : k.raw = c := by
    have := hbs.symm.trans hc
    exact List.append_cancel_right this
  have hne' : k.raw ≠ [] := by rw [hraw]; exact hne
  have hcow : k.cow = .borrowed k.raw := by
    simp only [KeepRaw.dec] at h
    cases hd' : t.dec bs with
    | err e => simp [hd'] at h
    | ok a rest => simp only [hd', Res.ok.injEq] at h; obtain ⟨rfl, _⟩ := h; rfl
  rw [keepraw_unmutated t k hne']
  simp only [KeepRaw.dec, hind, span_of_suffix]
  congr 1
  cases k with
  | mk cow inner => simp only at hcow ⊢; rw [← hcow]

/-! ### every history of the public operations -/

theorem kop_noninvalidating {α : Type} (o : KOp α) (k : KeepRaw α) (h : o.invalidates = false) :
    (o.apply k).raw = k.raw ∧ (o.apply k).inner = k.inner := by
  cases o <;> simp [KOp.invalidates] at h <;>
    simp [KOp.apply, KeepRaw.toOwned, KeepRaw.clone, KeepRaw.raw, Cow.bytes]

theorem kop_invalidating {α : Type} (o : KOp α) (k : KeepRaw α) (h : o.invalidates = true) : (o.apply k).raw = [] := by
  cases o <;> simp [KOp.invalidates] at h <;>
    simp [KOp.apply, KeepRaw.clearRaw, KeepRaw.derefMut, KeepRaw.raw, Cow.bytes]

theorem kop_keeps_empty {α : Type} (o : KOp α) (k : KeepRaw α) (h : k.raw = []) : (o.apply k).raw = [] := by
  cases ho : o.invalidates
  · rw [(kop_noninvalidating o k ho).1, h]
  · exact kop_invalidating o k ho

/-- once any operation of a history has invalidated the raw bytes they stay empty, whatever follows
    (`to_owned`, `clone`, further mutations …) -/
theorem keepraw_run_invalidated {α : Type} (ops : List (KOp α)) (k : KeepRaw α)
    (h : k.raw = [] ∨ ops.any KOp.invalidates = true) : (k.run ops).raw = [] := by
  induction ops generalizing k with
  | nil => rcases h with h | h; exact h; simp at h
  | cons o os ih =>
    simp only [KeepRaw.run, List.foldl_cons]
    apply ih
    rcases h with h | h
    · exact Or.inl (kop_keeps_empty o k h)
    · simp only [List.any_cons, Bool.or_eq_true] at h
      rcases h with h | h
      · exact Or.inl (kop_invalidating o k h)
      · exact Or.inr h

/-- a history without `deref_mut` / `clear_raw` changes neither the raw bytes nor the content -/
theorem keepraw_run_untouched {α : Type} (ops : List (KOp α)) (k : KeepRaw α)
    (h : ops.all (fun o => !o.invalidates) = true) : (k.run ops).raw = k.raw ∧ (k.run ops).inner = k.inner := by
  induction ops generalizing k with
  | nil => exact ⟨rfl, rfl⟩
  | cons o os ih =>
    simp only [List.all_cons, Bool.and_eq_true, Bool.not_eq_true'] at h
    obtain ⟨h1, h2⟩ := kop_noninvalidating o k h.1
    obtain ⟨h3, h4⟩ := ih (o.apply k) (by simpa using h.2)
    simp only [KeepRaw.run, List.foldl_cons] at h3 h4 ⊢
    exact ⟨h3.trans h1, h4.trans h2⟩

/-! ## `skip()` and `AnyCbor` -/

theorem skipArm_consumes (st : SkipSt) : Consumes (skipArm st) := by
  intro cur a rest h
  cases cur with
  | nil => simp [skipArm] at h
  | cons b r =>
    simp only [skipArm] at h
    split at h
    · exact (uintN_consumes 64).map _ _ _ _ h
    · split at h
      · exact int_consumes.map _ _ _ _ h
      · split at h
        · exact bytesIter_consumes.map _ _ _ _ h
        · split at h
          · exact strIter_consumes.map _ _ _ _ h
          · split at h
            · exact (seqHead_consumes 4).map _ _ _ _ h
            · split at h
              · exact (seqHead_consumes 5).map _ _ _ _ h
              · split at h
                · obtain ⟨n, e, _⟩ := Res.map_eq_ok h
                  obtain ⟨c, hc⟩ := unsigned_suffix _ _ _ _ e
                  exact ⟨b :: c, by simp, by rw [hc]; rfl⟩
                · split at h
                  · obtain ⟨n, e, _⟩ := Res.map_eq_ok h
                    obtain ⟨c, hc⟩ := unsigned_suffix _ _ _ _ e
                    exact ⟨b :: c, by simp, by rw [hc]; rfl⟩
                  · split at h
                    · split at h
                      · split at h <;> (cases h; exact ⟨[b], by simp, rfl⟩)
                      · cases h; exact ⟨[b], by simp, rfl⟩
                    · cases h

theorem skipLoop_suffix (fuel : Nat) : ∀ st, Suffix (skipLoop fuel st) := by
  induction fuel with
  | zero => intro st cur a rest h; simp [skipLoop] at h
  | succ f ih =>
    intro st cur a rest h
    simp only [skipLoop] at h
    split at h
    · cases h; exact ⟨[], rfl⟩
    · obtain ⟨⟨st', post⟩, c, e1, e2⟩ := Res.andThen_eq_ok h
      obtain ⟨c1, _, h1⟩ := skipArm_consumes st cur _ c e1
      simp only at e2
      split at e2
      · split at e2
        · cases e2; exact ⟨c1, h1⟩
        · obtain ⟨c2, h2⟩ := ih _ _ _ _ e2
          exact ⟨c1 ++ c2, by rw [h1, h2, List.append_assoc]⟩
      · obtain ⟨c2, h2⟩ := ih _ _ _ _ e2
        exact ⟨c1 ++ c2, by rw [h1, h2, List.append_assoc]⟩

/-- `skip()` consumes at least one byte and leaves a suffix -/
theorem skip_consumes : Consumes skip := by
  intro cur a rest h
  simp only [skip, skipLoop] at h
  rw [if_neg (by simp)] at h
  obtain ⟨⟨st', post⟩, c, e1, e2⟩ := Res.andThen_eq_ok h
  obtain ⟨c1, hne, h1⟩ := skipArm_consumes _ cur _ c e1
  simp only at e2
  split at e2
  · split at e2
    · cases e2; exact ⟨c1, hne, h1⟩
    · obtain ⟨c2, h2⟩ := skipLoop_suffix _ _ _ _ _ e2
      exact ⟨c1 ++ c2, by simp [hne], by rw [h1, h2, List.append_assoc]⟩
  · obtain ⟨c2, h2⟩ := skipLoop_suffix _ _ _ _ _ e2
    exact ⟨c1 ++ c2, by simp [hne], by rw [h1, h2, List.append_assoc]⟩

/-- **`AnyCbor` preserves every accepted input**: what it holds is the span `skip()` walked over -/
theorem anycbor_pres : Pres cAnyCbor := by
  intro bs a r h
  simp only [cAnyCbor, AnyCbor.dec] at h
  cases hd : skip bs with
  | err e => simp [hd] at h
  | ok u rest =>
    simp only [hd, Res.ok.injEq] at h
    obtain ⟨rfl, rfl⟩ := h
    obtain ⟨c, _, hc⟩ := skip_consumes bs u rest hd
    subst hc
    simp [cAnyCbor, AnyCbor.enc, span_of_suffix]

theorem anycbor_consumes : Consumes AnyCbor.dec := by
  intro cur a rest h
  simp only [AnyCbor.dec] at h
  cases hd : skip cur with
  | err e => simp [hd] at h
  | ok u r' =>
    simp only [hd, Res.ok.injEq] at h
    obtain ⟨_, rfl⟩ := h
    exact skip_consumes cur u _ hd

/-- round trip of the bytes `AnyCbor` captured: they are skipped again as one unit -/
theorem anycbor_rt_of_skip (inner r : Bytes) (h : skip (inner ++ r) = .ok () r) :
    AnyCbor.dec (AnyCbor.enc inner ++ r) = .ok inner r := by
  simp [AnyCbor.dec, AnyCbor.enc, h, span_of_suffix]

/-! ## `Nullable` -/

theorem typeOf_null (cur : Bytes) : typeOf cur 0xf6 = .ok .null := by
  have : (0xf6 : UInt8).toNat = 0xf6 := rfl
  type_of_ifs
theorem typeOf_undefined (cur : Bytes) : typeOf cur 0xf7 = .ok .undefined := by
  have : (0xf7 : UInt8).toNat = 0xf7 := rfl
  type_of_ifs

/-- the side condition `Nullable<T>` needs: an encoding of `T` is never mistaken for null / undefined -/
def NotNullish {α : Type} (t : Codec α) (wf : α → Prop) : Prop :=
  ∀ a, wf a → ∀ r, ∃ ty, datatype (t.enc a ++ r) = .ok ty ∧ ty ≠ .null ∧ ty ≠ .undefined

/-- a `Nullable` whose payload (if any) is well formed -/
def Nullable.wfWith {α : Type} (wf : α → Prop) : Nullable α → Prop
  | .some a => wf a
  | _ => True

theorem nullable_rt {α : Type} (t : Codec α) (wf : α → Prop) (ht : RTon t wf) (hn : NotNullish t wf) :
    RTon (cNullable t) (Nullable.wfWith wf) := by
  intro v hv r
  cases v with
  | null => simp [cNullable, Nullable.enc, Nullable.dec, encNull, datatype, typeOf_null, Minicbor.null]
  | undefined =>
    simp [cNullable, Nullable.enc, Nullable.dec, encUndefined, datatype, typeOf_undefined, Minicbor.undefined]
  | some a =>
    obtain ⟨ty, hty, h1, h2⟩ := hn a hv r
    simp [cNullable, Nullable.enc, Nullable.dec, hty, h1, h2, ht a hv r]

/-- **`Nullable` keeps null vs undefined** (and whatever its payload codec keeps) -/
theorem nullable_pres {α : Type} (t : Codec α) (ht : Pres t) : Pres (cNullable t) := by
  intro bs v r h
  simp only [cNullable, Nullable.dec] at h
  cases hT : datatype bs with
  | error e => simp [hT] at h
  | ok ty =>
    simp only [hT] at h
    split at h
    · obtain ⟨u, e, hv⟩ := Res.map_eq_ok h
      subst hv
      cases bs with
      | nil => simp [Minicbor.null] at e
      | cons b tl =>
        simp only [Minicbor.null] at e
        split at e
        · rename_i hb; simp only [Res.ok.injEq] at e; simp [cNullable, Nullable.enc, encNull, hb, e.2]
        · cases e
    · split at h
      · obtain ⟨u, e, hv⟩ := Res.map_eq_ok h
        subst hv
        cases bs with
        | nil => simp [Minicbor.undefined] at e
        | cons b tl =>
          simp only [Minicbor.undefined] at e
          split at e
          · rename_i hb; simp only [Res.ok.injEq] at e; simp [cNullable, Nullable.enc, encUndefined, hb, e.2]
          · cases e
      · obtain ⟨a, e, hv⟩ := Res.map_eq_ok h
        subst hv
        exact ht bs a r e

end PallasVerif.Wrappers
