import Mathlib.Analysis.Complex.Exponential
import PallasVerif.Proofs.ExpCmp
/-! Real-number reading of the `ref_exp_cmp` loop invariant (C16): every fixed-point Taylor term is
    rounded DOWN, so the accumulated approximation never exceeds `Real.exp x` for `x ≥ 0`; and for `0 ≤ x ≤ 1`
    each term is at most 3 ulp below the true one, which bounds how wrong a `GT` can be. -/
namespace PallasVerif.Proofs.ExpCmp
open PallasVerif.Decimal PallasVerif.RefMath PallasVerif.Proofs.Decimal Finset

/-- the real number a stored integer denotes at precision 34 -/
noncomputable def toReal (z : Int) : ℝ := (z : ℝ) / (P : ℝ)

theorem P_real_pos : (0 : ℝ) < (P : ℝ) := by exact_mod_cast P_pos

theorem scale_le_real (z : Int) : ((scale z : Int) : ℝ) ≤ (z : ℝ) / (P : ℝ) := by
  rw [le_div_iff₀ P_real_pos]
  exact_mod_cast (scale_bounds z).1

theorem tdiv_le_real (a d : Int) (ha : 0 ≤ a) (hd : 0 < d) : ((a.tdiv d : Int) : ℝ) ≤ (a : ℝ) / (d : ℝ) := by
  have hdr : (0 : ℝ) < (d : ℝ) := by exact_mod_cast hd
  rw [le_div_iff₀ hdr, Int.tdiv_eq_ediv_of_nonneg ha]
  exact_mod_cast Int.ediv_mul_le a (by omega)

theorem tterm_le (x : Int) (hx : 0 ≤ x) (i : Nat) :
    toReal (tterm x i) ≤ toReal x ^ (i + 1) / ((i + 1).factorial : ℝ) := by
  induction i with
  | zero => simp [tterm, toReal]
  | succ i ih =>
    have hP := P_real_pos
    have hxr : (0 : ℝ) ≤ toReal x := div_nonneg (by exact_mod_cast hx) hP.le
    have ht0 := tterm_nonneg x hx i
    have hs0 : 0 ≤ scale (tterm x i * x) := by
      rw [scale_eq_ediv]; exact Int.ediv_nonneg (Int.mul_nonneg ht0 hx) (by have := P_pos; omega)
    have hdpos : (0 : Int) < ((i : Int) + 2) * P := Int.mul_pos (by omega) P_pos
    have h1 := tdiv_le_real (scale (tterm x i * x) * P) (((i : Int) + 2) * P)
      (Int.mul_nonneg hs0 (by have := P_pos; omega)) hdpos
    have h2 := scale_le_real (tterm x i * x)
    -- tterm (i+1) ≤ scale(..) * P / ((i+2) P) = scale(..) / (i+2) ≤ (t_i x / P) / (i+2)
    have h3 : ((tterm x (i + 1) : Int) : ℝ) ≤ ((tterm x i : ℝ) * (x : ℝ) / (P : ℝ)) / ((i : ℝ) + 2) := by
      have e : tterm x (i + 1) = (scale (tterm x i * x) * P).tdiv (((i : Int) + 2) * P) := rfl
      rw [e]
      refine le_trans h1 ?_
      push_cast
      have hi : (0 : ℝ) < (i : ℝ) + 2 := by positivity
      rw [mul_div_mul_right _ _ hP.ne']
      push_cast at h2
      exact div_le_div_of_nonneg_right h2 hi.le
    have hi : (0 : ℝ) < (i : ℝ) + 2 := by positivity
    have hf : ((i + 1 + 1).factorial : ℝ) = ((i : ℝ) + 2) * ((i + 1).factorial : ℝ) := by
      rw [Nat.factorial_succ (i + 1)]; push_cast; ring
    calc toReal (tterm x (i + 1))
        = ((tterm x (i + 1) : Int) : ℝ) / (P : ℝ) := rfl
      _ ≤ (((tterm x i : ℝ) * (x : ℝ) / (P : ℝ)) / ((i : ℝ) + 2)) / (P : ℝ) :=
          div_le_div_of_nonneg_right h3 hP.le
      _ = toReal (tterm x i) * toReal x / ((i : ℝ) + 2) := by
          simp only [toReal]; field_simp
      _ ≤ (toReal x ^ (i + 1) / ((i + 1).factorial : ℝ)) * toReal x / ((i : ℝ) + 2) := by
          apply div_le_div_of_nonneg_right _ hi.le
          exact mul_le_mul_of_nonneg_right ih hxr
      _ = toReal x ^ (i + 1 + 1) / ((i + 1 + 1).factorial : ℝ) := by
          rw [hf, pow_succ (toReal x) (i + 1)]; field_simp

theorem psum_real (x : Int) (n : Nat) :
    toReal (psum x n) = 1 + ∑ i ∈ range n, toReal (tterm x i) := by
  induction n with
  | zero => simp [psum, toReal, ONE, P_real_pos.ne']
  | succ n ih =>
    rw [sum_range_succ, ← add_assoc, ← ih]
    simp only [psum, toReal]; push_cast; ring

/-- the approximation never exceeds `exp x` for `x ≥ 0` (every term is rounded down) -/
theorem psum_le_exp (x : Int) (hx : 0 ≤ x) (n : Nat) : toReal (psum x n) ≤ Real.exp (toReal x) := by
  have hxr : (0 : ℝ) ≤ toReal x := div_nonneg (by exact_mod_cast hx) P_real_pos.le
  have h := Real.sum_le_exp_of_nonneg hxr (n + 1)
  rw [sum_range_succ'] at h
  simp only [pow_zero, Nat.factorial_zero, Nat.cast_one, div_one] at h
  rw [psum_real]
  have : ∑ i ∈ range n, toReal (tterm x i) ≤
      ∑ i ∈ range n, toReal x ^ (i + 1) / ((i + 1).factorial : ℝ) :=
    sum_le_sum (fun i _ => tterm_le x hx i)
  linarith

/-! ## the other direction: how far below the true values the rounded-down terms can be -/

theorem scale_gt_real (z : Int) : (z : ℝ) / (P : ℝ) - 1 < ((scale z : Int) : ℝ) := by
  have h := (scale_bounds z).2
  have hP := P_real_pos
  rw [sub_lt_iff_lt_add, div_lt_iff₀ hP]
  exact_mod_cast h

theorem tdiv_gt_real (a d : Int) (ha : 0 ≤ a) (hd : 0 < d) : (a : ℝ) / (d : ℝ) - 1 < ((a.tdiv d : Int) : ℝ) := by
  have hdr : (0 : ℝ) < (d : ℝ) := by exact_mod_cast hd
  rw [Int.tdiv_eq_ediv_of_nonneg ha, sub_lt_iff_lt_add, div_lt_iff₀ hdr]
  have := Int.lt_ediv_add_one_mul_self a hd
  exact_mod_cast this

/-- each fixed-point Taylor term is at most 3 ulp below the true term, for `0 ≤ x ≤ 1` -/
theorem tterm_ge (x : Int) (hx : 0 ≤ x) (hx1 : x ≤ P) (i : Nat) :
    toReal x ^ (i + 1) / ((i + 1).factorial : ℝ) - 3 / (P : ℝ) ≤ toReal (tterm x i) := by
  have hP := P_real_pos
  have hr0 : (0 : ℝ) ≤ toReal x := div_nonneg (by exact_mod_cast hx) hP.le
  have hr1 : toReal x ≤ 1 := by
    simp only [toReal]; rw [div_le_one hP]; exact_mod_cast hx1
  induction i with
  | zero =>
    simp only [tterm, zero_add, pow_one, Nat.factorial_one, Nat.cast_one, div_one]
    have : (0 : ℝ) < 3 / (P : ℝ) := by positivity
    linarith
  | succ i ih =>
    have ht0 := tterm_nonneg x hx i
    have hs0 : 0 ≤ scale (tterm x i * x) := by
      rw [scale_eq_ediv]; exact Int.ediv_nonneg (Int.mul_nonneg ht0 hx) (by have := P_pos; omega)
    have hdpos : (0 : Int) < ((i : Int) + 2) * P := Int.mul_pos (by omega) P_pos
    have h1 := tdiv_gt_real (scale (tterm x i * x) * P) (((i : Int) + 2) * P)
      (Int.mul_nonneg hs0 (by have := P_pos; omega)) hdpos
    have h2 := scale_gt_real (tterm x i * x)
    have hi : (0 : ℝ) < (i : ℝ) + 2 := by positivity
    have hi2 : (2 : ℝ) ≤ (i : ℝ) + 2 := by have : (0 : ℝ) ≤ (i : ℝ) := Nat.cast_nonneg i; linarith
    -- in real terms
    have e : tterm x (i + 1) = (scale (tterm x i * x) * P).tdiv (((i : Int) + 2) * P) := rfl
    have h3 : ((scale (tterm x i * x) : Int) : ℝ) / ((i : ℝ) + 2) - 1 < ((tterm x (i + 1) : Int) : ℝ) := by
      rw [e]; push_cast at h1 ⊢
      rwa [mul_div_mul_right _ _ hP.ne'] at h1
    push_cast at h2
    -- T_{i+1} > (T_i r - 1/P)/(i+2) - 1/P
    have h4 : (toReal (tterm x i) * toReal x - 1 / (P : ℝ)) / ((i : ℝ) + 2) - 1 / (P : ℝ) < toReal (tterm x (i + 1)) := by
      have : ((tterm x i : ℝ) * (x : ℝ) / (P : ℝ) - 1) / ((i : ℝ) + 2) - 1 < ((tterm x (i + 1) : Int) : ℝ) := by
        have := div_lt_div_of_pos_right h2 hi
        linarith
      have h5 := div_lt_div_of_pos_right this hP
      have e2 : (((tterm x i : ℝ) * (x : ℝ) / (P : ℝ) - 1) / ((i : ℝ) + 2) - 1) / (P : ℝ) =
          (toReal (tterm x i) * toReal x - 1 / (P : ℝ)) / ((i : ℝ) + 2) - 1 / (P : ℝ) := by
        simp only [toReal]; field_simp
      rw [e2] at h5; exact h5
    have hf : ((i + 1 + 1).factorial : ℝ) = ((i : ℝ) + 2) * ((i + 1).factorial : ℝ) := by
      rw [Nat.factorial_succ (i + 1)]; push_cast; ring
    have hfpos : (0 : ℝ) < ((i + 1).factorial : ℝ) := by positivity
    -- τ_{i+1} = τ_i r / (i+2)
    have htau : toReal x ^ (i + 1 + 1) / ((i + 1 + 1).factorial : ℝ) =
        (toReal x ^ (i + 1) / ((i + 1).factorial : ℝ)) * toReal x / ((i : ℝ) + 2) := by
      rw [hf, pow_succ (toReal x) (i + 1)]; field_simp
    rw [htau]
    -- lower bound chain
    have hstep : ((toReal x ^ (i + 1) / ((i + 1).factorial : ℝ) - 3 / (P : ℝ)) * toReal x - 1 / (P : ℝ)) / ((i : ℝ) + 2)
        ≤ (toReal (tterm x i) * toReal x - 1 / (P : ℝ)) / ((i : ℝ) + 2) := by
      apply div_le_div_of_nonneg_right _ hi.le
      have := mul_le_mul_of_nonneg_right ih hr0
      linarith
    have hP3 : (0 : ℝ) < 1 / (P : ℝ) := by positivity
    -- (3 r + 1)/((i+2) P) ≤ 2/P
    have hbound : (3 / (P : ℝ) * toReal x + 1 / (P : ℝ)) / ((i : ℝ) + 2) ≤ 2 / (P : ℝ) := by
      rw [div_le_iff₀ hi]
      have : 3 / (P : ℝ) * toReal x ≤ 3 / (P : ℝ) := by
        have h3p : (0 : ℝ) ≤ 3 / (P : ℝ) := by positivity
        nlinarith
      have h2p : 2 / (P : ℝ) * 2 ≤ 2 / (P : ℝ) * ((i : ℝ) + 2) := by
        apply mul_le_mul_of_nonneg_left hi2; positivity
      have e3 : 3 / (P : ℝ) + 1 / (P : ℝ) = 2 / (P : ℝ) * 2 := by ring
      linarith
    have hexp : ((toReal x ^ (i + 1) / ((i + 1).factorial : ℝ) - 3 / (P : ℝ)) * toReal x - 1 / (P : ℝ)) / ((i : ℝ) + 2)
        = (toReal x ^ (i + 1) / ((i + 1).factorial : ℝ)) * toReal x / ((i : ℝ) + 2)
          - (3 / (P : ℝ) * toReal x + 1 / (P : ℝ)) / ((i : ℝ) + 2) := by ring
    rw [hexp] at hstep
    have e4 : (3 : ℝ) / (P : ℝ) = 2 / (P : ℝ) + 1 / (P : ℝ) := by ring
    linarith

/-- the approximation is at most `3·n` ulp below the true Taylor prefix, for `0 ≤ x ≤ 1` -/
theorem psum_ge (x : Int) (hx : 0 ≤ x) (hx1 : x ≤ P) (n : Nat) :
    (∑ m ∈ range (n + 1), toReal x ^ m / (m.factorial : ℝ)) - 3 * (n : ℝ) / (P : ℝ) ≤ toReal (psum x n) := by
  rw [psum_real, sum_range_succ']
  simp only [pow_zero, Nat.factorial_zero, Nat.cast_one, div_one]
  have : ∑ i ∈ range n, (toReal x ^ (i + 1) / ((i + 1).factorial : ℝ) - 3 / (P : ℝ)) ≤
      ∑ i ∈ range n, toReal (tterm x i) := sum_le_sum (fun i _ => tterm_ge x hx hx1 i)
  rw [sum_sub_distrib, sum_const, card_range, nsmul_eq_mul] at this
  have e : (n : ℝ) * (3 / (P : ℝ)) = 3 * (n : ℝ) / (P : ℝ) := by ring
  linarith

/-- **GT with explicit slack**: on `0 ≤ x ≤ 1` with `bound ≥ 2`, whenever `compare` exceeds the
    computed upper bound `approx + bound·term`, it exceeds `e^x` minus `(3·n + 3·bound)` ulp -/
theorem gt_slack (x bound cmp : Int) (hx : 0 ≤ x) (hx1 : x ≤ P) (hb : 2 ≤ bound) (k : Nat) (hk : 0 < k)
    (hc : cmp > psum x k + ((tterm x k * bound).natAbs : Int)) :
    Real.exp (toReal x) < toReal cmp + (3 * (k : ℝ) + 3 * (bound : ℝ)) / (P : ℝ) := by
  have hP := P_real_pos
  have hr0 : (0 : ℝ) ≤ toReal x := div_nonneg (by exact_mod_cast hx) hP.le
  have hr1 : toReal x ≤ 1 := by
    simp only [toReal]; rw [div_le_one hP]; exact_mod_cast hx1
  have ht0 := tterm_nonneg x hx k
  have habs : ((tterm x k * bound).natAbs : Int) = tterm x k * bound := by
    have : 0 ≤ tterm x k * bound := Int.mul_nonneg ht0 (by omega)
    omega
  rw [habs] at hc
  have hcr : toReal (psum x k) + (bound : ℝ) * toReal (tterm x k) < toReal cmp := by
    have : ((psum x k + tterm x k * bound : Int) : ℝ) < (cmp : ℝ) := by exact_mod_cast hc
    have h := div_lt_div_of_pos_right this hP
    simp only [toReal]; push_cast at h
    have e : ((psum x k : ℝ) + (tterm x k : ℝ) * (bound : ℝ)) / (P : ℝ) =
        (psum x k : ℝ) / (P : ℝ) + (bound : ℝ) * ((tterm x k : ℝ) / (P : ℝ)) := by ring
    rw [e] at h; exact h
  have hS := psum_ge x hx hx1 k
  have hT := tterm_ge x hx hx1 k
  have hE := Real.exp_bound' hr0 hr1 (n := k + 1) (Nat.succ_pos k)
  -- remainder ≤ 2 τ_k
  set τ := toReal x ^ (k + 1) / ((k + 1).factorial : ℝ) with hτ
  have hτ0 : 0 ≤ τ := by positivity
  have hrem : toReal x ^ (k + 1) * (((k + 1 : ℕ) : ℝ) + 1) / (((k + 1).factorial : ℝ) * ((k + 1 : ℕ) : ℝ)) ≤ 2 * τ := by
    have hk1 : (0 : ℝ) < ((k + 1 : ℕ) : ℝ) := by positivity
    have hfp : (0 : ℝ) < ((k + 1).factorial : ℝ) := by positivity
    have e : toReal x ^ (k + 1) * (((k + 1 : ℕ) : ℝ) + 1) / (((k + 1).factorial : ℝ) * ((k + 1 : ℕ) : ℝ))
        = τ * ((((k + 1 : ℕ) : ℝ) + 1) / ((k + 1 : ℕ) : ℝ)) := by
      rw [hτ]; field_simp
    rw [e]
    have : (((k + 1 : ℕ) : ℝ) + 1) / ((k + 1 : ℕ) : ℝ) ≤ 2 := by
      rw [div_le_iff₀ hk1]; push_cast
      have : (0 : ℝ) ≤ (k : ℝ) := Nat.cast_nonneg k
      linarith
    nlinarith
  have hbτ : 2 * τ ≤ (bound : ℝ) * τ := by
    have : (2 : ℝ) ≤ (bound : ℝ) := by exact_mod_cast hb
    nlinarith
  have hbT : (bound : ℝ) * (τ - 3 / (P : ℝ)) ≤ (bound : ℝ) * toReal (tterm x k) := by
    apply mul_le_mul_of_nonneg_left hT
    have : (2 : ℝ) ≤ (bound : ℝ) := by exact_mod_cast hb
    linarith
  have e2 : (3 * (k : ℝ) + 3 * (bound : ℝ)) / (P : ℝ) = 3 * (k : ℝ) / (P : ℝ) + (bound : ℝ) * (3 / (P : ℝ)) := by ring
  rw [e2]
  push_cast at hE hrem
  nlinarith [hE, hrem, hbτ, hbT, hS, hcr]


end PallasVerif.Proofs.ExpCmp
