import Mathlib.Analysis.Complex.Exponential
import PallasVerif.Proofs.ExpCmp
/-! Real-number reading of the `ref_exp_cmp` loop invariant (C16): every fixed-point Taylor term is
    rounded DOWN, so the accumulated approximation never exceeds `Real.exp x` for `x ≥ 0`. -/
namespace PallasVerif.Proofs.ExpCmp
open PallasVerif.Decimal PallasVerif.RefMath PallasVerif.Proofs.Decimal Finset

/-- the real number a stored integer denotes at precision 34 -/
noncomputable def toReal (z : Int) : ℝ := (z : ℝ) / (P : ℝ)

theorem P_real_pos : (0 : ℝ) < (P : ℝ) := by exact_mod_cast P_pos

theorem scale_le_real (z : Int) : ((scale z : Int) : ℝ) ≤ (z : ℝ) / (P : ℝ) := by
  rw [le_div_iff₀ P_real_pos]
  exact_mod_cast (scale_bounds z).1

theorem tdiv_le_real (a d : Int) (ha : 0 ≤ a) (hd : 0 < d) : ((a.tdiv d : Int) : ℝ) ≤ (a : ℝ) / (d : ℝ) := by
  have hdr : (0 : ℝ) < (d : ℝ) := by exact_mod_cast hd
  rw [le_div_iff₀ hdr, Int.tdiv_eq_ediv_of_nonneg ha]
  exact_mod_cast Int.ediv_mul_le a (by omega)

theorem tterm_le (x : Int) (hx : 0 ≤ x) (i : Nat) :
    toReal (tterm x i) ≤ toReal x ^ (i + 1) / ((i + 1).factorial : ℝ) := by
  induction i with
  | zero => simp [tterm, toReal]
  | succ i ih =>
    have hP := P_real_pos
    have hxr : (0 : ℝ) ≤ toReal x := div_nonneg (by exact_mod_cast hx) hP.le
    have ht0 := tterm_nonneg x hx i
    have hs0 : 0 ≤ scale (tterm x i * x) := by
      rw [scale_eq_ediv]; exact Int.ediv_nonneg (Int.mul_nonneg ht0 hx) (by have := P_pos; omega)
    have hdpos : (0 : Int) < ((i : Int) + 2) * P := Int.mul_pos (by omega) P_pos
    have h1 := tdiv_le_real (scale (tterm x i * x) * P) (((i : Int) + 2) * P)
      (Int.mul_nonneg hs0 (by have := P_pos; omega)) hdpos
    have h2 := scale_le_real (tterm x i * x)
    -- tterm (i+1) ≤ scale(..) * P / ((i+2) P) = scale(..) / (i+2) ≤ (t_i x / P) / (i+2)
    have h3 : ((tterm x (i + 1) : Int) : ℝ) ≤ ((tterm x i : ℝ) * (x : ℝ) / (P : ℝ)) / ((i : ℝ) + 2) := by
      have e : tterm x (i + 1) = (scale (tterm x i * x) * P).tdiv (((i : Int) + 2) * P) := rfl
      rw [e]
      refine le_trans h1 ?_
      push_cast
      have hi : (0 : ℝ) < (i : ℝ) + 2 := by positivity
      rw [mul_div_mul_right _ _ hP.ne']
      push_cast at h2
      exact div_le_div_of_nonneg_right h2 hi.le
    have hi : (0 : ℝ) < (i : ℝ) + 2 := by positivity
    have hf : ((i + 1 + 1).factorial : ℝ) = ((i : ℝ) + 2) * ((i + 1).factorial : ℝ) := by
      rw [Nat.factorial_succ (i + 1)]; push_cast; ring
    calc toReal (tterm x (i + 1))
        = ((tterm x (i + 1) : Int) : ℝ) / (P : ℝ) := rfl
      _ ≤ (((tterm x i : ℝ) * (x : ℝ) / (P : ℝ)) / ((i : ℝ) + 2)) / (P : ℝ) :=
          div_le_div_of_nonneg_right h3 hP.le
      _ = toReal (tterm x i) * toReal x / ((i : ℝ) + 2) := by
          simp only [toReal]; field_simp
      _ ≤ (toReal x ^ (i + 1) / ((i + 1).factorial : ℝ)) * toReal x / ((i : ℝ) + 2) := by
          apply div_le_div_of_nonneg_right _ hi.le
          exact mul_le_mul_of_nonneg_right ih hxr
      _ = toReal x ^ (i + 1 + 1) / ((i + 1 + 1).factorial : ℝ) := by
          rw [hf, pow_succ (toReal x) (i + 1)]; field_simp

theorem psum_real (x : Int) (n : Nat) :
    toReal (psum x n) = 1 + ∑ i ∈ range n, toReal (tterm x i) := by
  induction n with
  | zero => simp [psum, toReal, ONE, P_real_pos.ne']
  | succ n ih =>
    rw [sum_range_succ, ← add_assoc, ← ih]
    simp only [psum, toReal]; push_cast; ring

/-- the approximation never exceeds `exp x` for `x ≥ 0` (every term is rounded down) -/
theorem psum_le_exp (x : Int) (hx : 0 ≤ x) (n : Nat) : toReal (psum x n) ≤ Real.exp (toReal x) := by
  have hxr : (0 : ℝ) ≤ toReal x := div_nonneg (by exact_mod_cast hx) P_real_pos.le
  have h := Real.sum_le_exp_of_nonneg hxr (n + 1)
  rw [sum_range_succ'] at h
  simp only [pow_zero, Nat.factorial_zero, Nat.cast_one, div_one] at h
  rw [psum_real]
  have : ∑ i ∈ range n, toReal (tterm x i) ≤
      ∑ i ∈ range n, toReal x ^ (i + 1) / ((i + 1).factorial : ℝ) :=
    sum_le_sum (fun i _ => tterm_le x hx i)
  linarith

end PallasVerif.Proofs.ExpCmp
