import PallasVerif.Model.Decimal
import PallasVerif.Proofs.Decimal
/-! Printing side of C17: the reader `parseDecimal` used to state exactness of `Display`, and the
    digit-list lemmas behind `toString_exact`. Core Lean only. -/
namespace PallasVerif.Proofs.Decimal
open PallasVerif.Decimal

/-- reading back a printed decimal: `-`? digits `.` digits ↦ (negative, integer part, fraction
    digits as a number, number of fraction digits) -/
def notDot (c : Char) : Bool := !(c == '.')

def parseDecimal (cs : List Char) : Option (Bool × Nat × Nat × Nat) :=
  let neg := cs.head? == some '-'
  let rest := if neg then cs.drop 1 else cs
  let ip := rest.takeWhile notDot
  match rest.dropWhile notDot with
  | '.' :: fp =>
    if ip ≠ [] ∧ fp ≠ [] ∧ ip.all Char.isDigit ∧ fp.all Char.isDigit then
      some (neg, Nat.ofDigitChars 10 ip 0, Nat.ofDigitChars 10 fp 0, fp.length)
    else none
  | _ => none

theorem digits_isDigit (n : Nat) : ∀ c ∈ Nat.toDigits 10 n, c.isDigit = true :=
  fun _ hc => Nat.isDigit_of_mem_toDigits (by decide) (by decide) hc

theorem isDigit_ne_dot (c : Char) (h : c.isDigit = true) : c ≠ '.' := by
  intro e; subst e; revert h; decide

theorem isDigit_ne_minus (c : Char) (h : c.isDigit = true) : c ≠ '-' := by
  intro e; subst e; revert h; decide

theorem takeWhile_dot (ds fp : List Char) (h : ∀ c ∈ ds, c.isDigit = true) :
    (ds ++ '.' :: fp).takeWhile notDot = ds ∧ (ds ++ '.' :: fp).dropWhile notDot = '.' :: fp := by
  induction ds with
  | nil => simp [notDot]
  | cons d ds ih =>
    have hd : notDot d = true := by
      have := isDigit_ne_dot d (h d (by simp))
      simp [notDot, this]
    have := ih (fun c hc => h c (by simp [hc]))
    rw [List.cons_append, List.takeWhile_cons, List.dropWhile_cons]
    simp only [hd, if_true, this]; simp

theorem pad_all_digits (n w : Nat) : ∀ c ∈ padDigits n w, c.isDigit = true := by
  intro c hc
  simp only [padDigits, List.mem_append, List.mem_replicate] at hc
  rcases hc with ⟨_, rfl⟩ | hc
  · decide
  · exact digits_isDigit n c hc

theorem pad_value (n w : Nat) : Nat.ofDigitChars 10 (padDigits n w) 0 = n := by
  simp only [padDigits]
  rw [Nat.ofDigitChars_append, Nat.ofDigitChars_replicate_zero, Nat.mul_zero, Nat.ofDigitChars_ten_toDigits]

theorem pad_length (n w : Nat) (hw : 0 < w) (hn : n < 10 ^ w) : (padDigits n w).length = w := by
  have := (Nat.length_toDigits_le_iff (b := 10) (n := n) (by decide) hw).mpr hn
  simp only [padDigits, List.length_append, List.length_replicate]
  omega

theorem pad_zero_width (n : Nat) (hn : n = 0) : padDigits n 0 = ['0'] := by
  subst hn; simp [padDigits, Nat.toDigits_zero]


theorem parse_shape (neg : Bool) (ds fp : List Char) (hds : ds ≠ []) (hfp : fp ≠ [])
    (h1 : ∀ c ∈ ds, c.isDigit = true) (h2 : ∀ c ∈ fp, c.isDigit = true) :
    parseDecimal ((if neg then ['-'] else []) ++ ds ++ '.' :: fp) =
      some (neg, Nat.ofDigitChars 10 ds 0, Nat.ofDigitChars 10 fp 0, fp.length) := by
  obtain ⟨t1, t2⟩ := takeWhile_dot ds fp h1
  have ha1 : ds.all Char.isDigit = true := List.all_eq_true.mpr h1
  have ha2 : fp.all Char.isDigit = true := List.all_eq_true.mpr h2
  cases neg with
  | true =>
    simp only [parseDecimal, if_true, List.cons_append, List.nil_append, List.head?_cons, beq_self_eq_true,
      List.drop_succ_cons, List.drop_zero, t1, t2]
    simp [hds, hfp, ha1, ha2]
  | false =>
    cases ds with
    | nil => exact absurd rfl hds
    | cons d ds' =>
      have hd : d ≠ '-' := isDigit_ne_minus d (h1 d (by simp))
      have hh : ((d :: ds' ++ '.' :: fp).head? == some '-') = false := by
        simp [hd]
      simp only [parseDecimal, Bool.false_eq_true, if_false, List.nil_append, hh, t1, t2]
      simp [hfp, ha1, ha2]

theorem natAbs_parts (d m : Int) :
    ((d.tdiv m).natAbs : Int) * (m.natAbs : Int) + ((d.tmod m).natAbs : Int) = (d.natAbs : Int) := by
  rw [Int.natAbs_tdiv, Int.natAbs_tmod]
  have := Nat.div_add_mod d.natAbs m.natAbs
  have e : d.natAbs.div m.natAbs = d.natAbs / m.natAbs := rfl
  rw [e, ← Int.natCast_mul, ← Int.natCast_add, Nat.mul_comm]
  exact congrArg _ this


end PallasVerif.Proofs.Decimal
