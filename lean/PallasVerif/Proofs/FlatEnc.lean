import PallasVerif.Proofs.FlatBits
/-!
  Encoder refinement (`Props/C01`): every encoder call of `Model/Flat.lean` keeps the invariant
  `Enc.Inv` (`used_bits < 8`, the unused low bits of `current_byte` are zero) and appends exactly
  the specified bits to the bit string `Enc.written` written so far.
-/
namespace PallasVerif.Flat
open BitVec

/-- everything written so far, as a bit string: the pushed bytes and the used bits of `current_byte` -/
def Enc.written (e : Enc) : List Bool := bitsOf e.buf ++ (byteBits e.cur).take e.used

def Enc.Inv (e : Enc) : Prop := e.used < 8 ∧ LowZero e.used e.cur

/-- `e'` is a good state whose bit string is that of `e` followed by `l` -/
def Enc.Ext (e e' : Enc) (l : List Bool) : Prop := e'.Inv ∧ e'.written = e.written ++ l

theorem Enc.inv_new : Enc.new.Inv := ⟨by decide, lowZero_zero⟩

theorem Enc.written_length (e : Enc) (h : e.Inv) : e.written.length = 8 * e.buf.length + e.used := by
  have := h.1
  simp [Enc.written, List.length_take]; omega

theorem Enc.Ext.refl (e : Enc) (h : e.Inv) : Enc.Ext e e [] := ⟨h, by simp⟩

theorem Enc.Ext.trans {e e' e'' : Enc} {l l' : List Bool} (h : Enc.Ext e e' l) (h' : Enc.Ext e' e'' l') :
    Enc.Ext e e'' (l ++ l') := ⟨h'.1, by rw [h'.2, h.2, List.append_assoc]⟩

theorem Enc.zero_ext (e : Enc) (h : e.Inv) : Enc.Ext e e.zero [false] := by
  obtain ⟨buf, used, cur⟩ := e
  obtain ⟨hu, hz⟩ := h
  simp only at hu hz
  rcases eight_cases hu with rfl | rfl | rfl | rfl | rfl | rfl | rfl | rfl <;>
    simp_all [Enc.zero, Enc.nextWord, Enc.Ext, Enc.Inv, Enc.written, LowZero, byteBits, List.replicate]

theorem Enc.one_ext (e : Enc) (h : e.Inv) : Enc.Ext e e.one [true] := by
  obtain ⟨buf, used, cur⟩ := e
  obtain ⟨hu, hz⟩ := h
  simp only at hu hz
  rcases eight_cases hu with rfl | rfl | rfl | rfl | rfl | rfl | rfl | rfl <;>
    simp_all [Enc.one, Enc.nextWord, Enc.Ext, Enc.Inv, Enc.written, LowZero, byteBits, List.replicate,
      getMsbD_or, getMsbD_one] <;> decide

theorem Enc.bool_ext (e : Enc) (h : e.Inv) (b : Bool) : Enc.Ext e (e.bool b) [b] := by
  cases b
  · simpa [Enc.bool] using Enc.zero_ext e h
  · simpa [Enc.bool] using Enc.one_ext e h

theorem Enc.u8_ext (e : Enc) (h : e.Inv) (x : Byte) : Enc.Ext e (e.u8 x) (byteBits x) := by
  obtain ⟨buf, used, cur⟩ := e
  obtain ⟨hu, hz⟩ := h
  simp only at hu hz
  rcases eight_cases hu with rfl | rfl | rfl | rfl | rfl | rfl | rfl | rfl <;>
    simp_all [Enc.u8, Enc.byteUnaligned, Enc.nextWord, Enc.Ext, Enc.Inv, Enc.written, LowZero, byteBits, List.replicate,
      getMsbD_or, getMsbD_ushiftRight, getMsbD_shiftLeft, getMsbD_of_ge]

/-- the filler pads with zeros up to the last bit of the byte, which is set -/
def fillerBits (used : Nat) : List Bool := List.replicate (7 - used) false ++ [true]

theorem Enc.filler_ext (e : Enc) (h : e.Inv) :
    Enc.Ext e e.filler (fillerBits e.used) ∧ e.filler.used = 0 ∧ e.filler.cur = 0#8 := by
  obtain ⟨buf, used, cur⟩ := e
  obtain ⟨hu, hz⟩ := h
  simp only at hu hz
  rcases eight_cases hu with rfl | rfl | rfl | rfl | rfl | rfl | rfl | rfl <;>
    simp_all [Enc.filler, Enc.nextWord, Enc.Ext, Enc.Inv, Enc.written, LowZero, byteBits, List.replicate, fillerBits,
      getMsbD_or, getMsbD_one]

/-! ### `bits(num_bits, val)` -/

/-- the top `8 - n` bits of the byte are zero (`val < 2^n`) -/
def HighZero (n : Nat) (v : Byte) : Prop := (byteBits v).take (8 - n) = List.replicate (8 - n) false

theorem getMsbD_of_toNat_lt (v : Byte) (n i : Nat) (hv : v.toNat < 2 ^ n) (hi : i + n < 8) :
    v.getMsbD i = false := by
  rw [getMsbD_eq_getLsbD]
  simp only [show i < 8 by omega, decide_true, Bool.true_and]
  rw [BitVec.getLsbD, Nat.testBit_lt_two_pow]
  calc v.toNat < 2 ^ n := hv
    _ ≤ 2 ^ (8 - 1 - i) := Nat.pow_le_pow_right (by omega) (by omega)

theorem highZero_of_lt (n : Nat) (hn : n ≤ 8) (v : Byte) (hv : v.toNat < 2 ^ n) : HighZero n v := by
  have g := getMsbD_of_toNat_lt v n
  rcases nine_cases hn with rfl | rfl | rfl | rfl | rfl | rfl | rfl | rfl | rfl <;>
    simp [HighZero, byteBits, List.replicate, g, hv]

/-- the `(_, _)` arm of `bits` for `1 ≤ n ≤ 8` and `val < 2^n`: the low `n` bits of `val` are appended -/
theorem Enc.bitsGeneric_ext (e : Enc) (h : e.Inv) (n : Nat) (hn1 : 1 ≤ n) (hn : n ≤ 8) (v : Byte)
    (hv : HighZero n v) : ∃ e', e.bitsGeneric n v = some e' ∧ Enc.Ext e e' ((byteBits v).drop (8 - n)) := by
  obtain ⟨buf, used, cur⟩ := e
  obtain ⟨hu, hz⟩ := h
  simp only at hu hz
  have hn8 : n = 1 ∨ n = 2 ∨ n = 3 ∨ n = 4 ∨ n = 5 ∨ n = 6 ∨ n = 7 ∨ n = 8 := by omega
  rcases eight_cases hu with rfl | rfl | rfl | rfl | rfl | rfl | rfl | rfl <;>
  · rcases hn8 with rfl | rfl | rfl | rfl | rfl | rfl | rfl | rfl <;>
      simp_all [Enc.bitsGeneric, Enc.nextWord, Enc.Ext, Enc.Inv, Enc.written, LowZero, HighZero, byteBits, List.replicate,
        getMsbD_or, getMsbD_ushiftRight, getMsbD_shiftLeft, getMsbD_of_ge]

theorem byte_of_toNat {v : Byte} {k : Nat} (h : v.toNat = k) : v = BitVec.ofNat 8 k := by
  apply eq_of_toNat_eq
  rw [h, toNat_ofNat]
  have := v.isLt
  omega

/-- `bits(n, val)` including its six special arms -/
theorem Enc.bits_ext (e : Enc) (h : e.Inv) (n : Nat) (hn1 : 1 ≤ n) (hn : n ≤ 8) (v : Byte)
    (hv : HighZero n v) : ∃ e', e.bits n v = some e' ∧ Enc.Ext e e' ((byteBits v).drop (8 - n)) := by
  unfold Enc.bits
  split
  · next heq => rw [byte_of_toNat heq]; exact ⟨_, rfl, Enc.zero_ext e h⟩
  · next heq => rw [byte_of_toNat heq]; exact ⟨_, rfl, Enc.one_ext e h⟩
  · next heq =>
    rw [byte_of_toNat heq]
    exact ⟨_, rfl, (Enc.zero_ext e h).trans (Enc.zero_ext _ (Enc.zero_ext e h).1)⟩
  · next heq =>
    rw [byte_of_toNat heq]
    exact ⟨_, rfl, (Enc.zero_ext e h).trans (Enc.one_ext _ (Enc.zero_ext e h).1)⟩
  · next heq =>
    rw [byte_of_toNat heq]
    exact ⟨_, rfl, (Enc.one_ext e h).trans (Enc.zero_ext _ (Enc.one_ext e h).1)⟩
  · next heq =>
    rw [byte_of_toNat heq]
    exact ⟨_, rfl, (Enc.one_ext e h).trans (Enc.one_ext _ (Enc.one_ext e h).1)⟩
  · exact Enc.bitsGeneric_ext e h _ hn1 hn v hv

theorem Enc.bits8_ext (e : Enc) (h : e.Inv) (w : Byte) :
    ∃ e', e.bits 8 w = some e' ∧ Enc.Ext e e' (byteBits w) := by
  simpa using Enc.bits_ext e h 8 (by omega) (by omega) w (by simp [HighZero])

/-! ### `word` -/

/-- the bytes of a word: 7-bit groups, least significant first, bit 7 = "more follow" -/
def wordBytes : Nat → Nat → List Byte
  | 0, _ => []
  | fuel + 1, d =>
    let w : Byte := BitVec.ofNat 8 (d &&& 127)
    if d >>> 7 = 0 then [w] else (w ||| 128#8) :: wordBytes fuel (d >>> 7)

theorem shr7_lt {d f : Nat} (h : d < 128 ^ (f + 2)) : d >>> 7 < 128 ^ (f + 1) := by
  rw [Nat.shiftRight_eq_div_pow]
  apply Nat.div_lt_of_lt_mul
  rw [show (2:Nat) ^ 7 = 128 by rfl, ← Nat.pow_succ']
  exact h

theorem Enc.wordLoop_ext (fuel : Nat) (e : Enc) (h : e.Inv) (d : Nat) (hd : d < 128 ^ (fuel + 1)) :
    ∃ e', Enc.wordLoop (fuel + 1) e d = some e' ∧ Enc.Ext e e' (bitsOf (wordBytes (fuel + 1) d)) := by
  induction fuel generalizing e d with
  | zero =>
    have h0 : d >>> 7 = 0 := by rw [Nat.shiftRight_eq_div_pow]; exact Nat.div_eq_of_lt (by simpa using hd)
    obtain ⟨e', he, hx⟩ := Enc.bits8_ext e h (BitVec.ofNat 8 (d &&& 127))
    refine ⟨e', ?_, ?_⟩
    · simp only [Enc.wordLoop, h0, ne_eq, not_true_eq_false, if_false, he, if_true]
    · simpa only [wordBytes, h0, if_true, bitsOf_cons, bitsOf_nil, List.append_nil] using hx
  | succ n ih =>
    by_cases h0 : d >>> 7 = 0
    · obtain ⟨e', he, hx⟩ := Enc.bits8_ext e h (BitVec.ofNat 8 (d &&& 127))
      refine ⟨e', ?_, ?_⟩
      · simp only [Enc.wordLoop, h0, ne_eq, not_true_eq_false, if_false, he, if_true]
      · simpa only [wordBytes, h0, if_true, bitsOf_cons, bitsOf_nil, List.append_nil] using hx
    · obtain ⟨e', he, hx⟩ := Enc.bits8_ext e h (BitVec.ofNat 8 (d &&& 127) ||| 128#8)
      obtain ⟨e'', he', hx'⟩ := ih e' hx.1 (d >>> 7) (shr7_lt hd)
      refine ⟨e'', ?_, ?_⟩
      · rw [Enc.wordLoop]; simp only [h0, ne_eq, not_false_eq_true, if_true, he, if_false]; exact he'
      · rw [wordBytes]; simp only [h0, if_false, bitsOf_cons]; exact hx.trans hx'

theorem Enc.word_ext (e : Enc) (h : e.Inv) (c : Nat) (hc : c < 2 ^ 64) :
    ∃ e', e.word c = some e' ∧ Enc.Ext e e' (bitsOf (wordBytes 10 c)) :=
  Enc.wordLoop_ext 9 e h c (Nat.lt_of_lt_of_le hc (by decide))

/-! ### `bytes`, lists -/

theorem Enc.bytes_ext (e : Enc) (h : e.Inv) (x : List Byte) :
    ∃ e', e.bytes x = .ok e' ∧ Enc.Ext e e' (fillerBits e.used ++ bitsOf (Enc.blk x)) := by
  obtain ⟨hf, hu, hc⟩ := Enc.filler_ext e h
  refine ⟨e.filler.writeBlk x, by simp [Enc.bytes, Enc.byteArray, hu], ?_⟩
  refine hf.trans ⟨?_, ?_⟩
  · simpa [Enc.Inv, Enc.writeBlk, hu, hc] using lowZero_zero
  · simp [Enc.written, Enc.writeBlk, hu]

/-- bits of `encode_list_with`: a 1 bit before every item, a 0 bit at the end -/
def listBits {α : Type} (spec : α → List Bool) : List α → List Bool
  | [] => [false]
  | a :: l => true :: (spec a ++ listBits spec l)

/-- bits of `encode_list_with(bool)` -/
def boolsBits (l : List Bool) : List Bool := listBits (fun b => [b]) l

theorem Enc.bools_ext (e : Enc) (h : e.Inv) (l : List Bool) : Enc.Ext e (e.bools l) (boolsBits l) := by
  induction l generalizing e with
  | nil => exact Enc.zero_ext e h
  | cons b l ih =>
    have h1 := Enc.one_ext e h
    have h2 := Enc.bool_ext _ h1.1 b
    have h3 := ih _ h2.1
    simpa [Enc.bools, boolsBits, listBits] using (h1.trans h2).trans h3

/-- bits of `Encoder::string` -/
def stringBits (cs : List Nat) : List Bool := listBits (fun c => bitsOf (wordBytes 10 c)) cs

theorem Enc.string_ext (e : Enc) (h : e.Inv) (cs : List Nat) (hcs : ∀ c ∈ cs, c < 2 ^ 64) :
    ∃ e', e.string cs = some e' ∧ Enc.Ext e e' (stringBits cs) := by
  induction cs generalizing e with
  | nil => exact ⟨_, rfl, Enc.zero_ext e h⟩
  | cons c cs ih =>
    have h1 := Enc.one_ext e h
    obtain ⟨e', he, hx⟩ := Enc.word_ext _ h1.1 c (hcs c (by simp))
    obtain ⟨e'', he', hx'⟩ := ih e' hx.1 (fun c hc => hcs c (by simp [hc]))
    refine ⟨e'', by simp [Enc.string, he, he'], ?_⟩
    simpa [stringBits, listBits] using (h1.trans hx).trans hx'

theorem Enc.list_ext {α : Type} (f : Enc → α → Option Enc) (spec : α → List Bool) (items : List α)
    (hf : ∀ a ∈ items, ∀ e : Enc, e.Inv → ∃ e', f e a = some e' ∧ Enc.Ext e e' (spec a))
    (e : Enc) (h : e.Inv) : ∃ e', Enc.list f e items = some e' ∧ Enc.Ext e e' (listBits spec items) := by
  induction items generalizing e with
  | nil => exact ⟨_, rfl, Enc.zero_ext e h⟩
  | cons a items ih =>
    have h1 := Enc.one_ext e h
    obtain ⟨e', he, hx⟩ := hf a (by simp) _ h1.1
    obtain ⟨e'', he', hx'⟩ := ih (fun a ha => hf a (by simp [ha])) e' hx.1
    refine ⟨e'', by simp [Enc.list, he, he'], ?_⟩
    simpa [listBits] using (h1.trans hx).trans hx'


end PallasVerif.Flat
