import PallasVerif.Model.PlutusData
import PallasVerif.Proofs.Cbor
import PallasVerif.Proofs.PlutusDataOrd
/-!
  Codec lemmas for PlutusData (C07): 64-byte chunking, well-formedness of the emitted concrete
  syntax tree, and decode ∘ encode.
-/
namespace PallasVerif.PlutusData
open PallasVerif.Cbor
set_option linter.unusedSimpArgs false

theorem u64Bound_eq : u64Bound = 2 ^ 64 := by decide

/-! ## chunks -/

theorem chunksAux_join (n : Nat) (hn : 0 < n) : ∀ (fuel : Nat) (bs : Bytes), bs.length ≤ fuel →
    (chunksAux fuel n bs).flatten = bs
  | 0, bs, h => by
    have : bs = [] := List.eq_nil_of_length_eq_zero (by omega)
    simp [chunksAux, this]
  | fuel + 1, bs, h => by
    simp only [chunksAux]
    split
    · rename_i he; simp at he; simp [he]
    · rename_i he
      have hne : bs ≠ [] := by simpa using he
      have hpos : 0 < bs.length := List.length_pos_iff.mpr hne
      simp only [List.flatten_cons]
      rw [chunksAux_join n hn fuel (bs.drop n) (by simp; omega), List.take_append_drop]

/-- re-assembling the chunks gives the byte string back -/
theorem chunks_join (n : Nat) (hn : 0 < n) (bs : Bytes) : (chunks n bs).flatten = bs :=
  chunksAux_join n hn _ bs (Nat.le_refl _)

theorem chunksAux_sizes (n : Nat) (hn : 0 < n) : ∀ (fuel : Nat) (bs : Bytes),
    ∀ c ∈ chunksAux fuel n bs, 0 < c.length ∧ c.length ≤ n
  | 0, bs => by simp [chunksAux]
  | fuel + 1, bs => by
    simp only [chunksAux]
    split
    · simp
    · rename_i he
      have hne : bs ≠ [] := by simpa using he
      have hpos : 0 < bs.length := List.length_pos_iff.mpr hne
      intro c hc
      rcases List.mem_cons.mp hc with rfl | hc
      · simp [List.length_take]; omega
      · exact chunksAux_sizes n hn fuel _ c hc

/-- every chunk is non-empty and at most `n` bytes long -/
theorem chunks_sizes (n : Nat) (hn : 0 < n) (bs : Bytes) : ∀ c ∈ chunks n bs, 0 < c.length ∧ c.length ≤ n :=
  chunksAux_sizes n hn _ bs

/-- every chunk but the last is exactly `n` bytes long: the chunk list is `n`-byte blocks followed by
    at most one shorter block -/
def fullThenRest (n : Nat) : List Bytes → Bool
  | [] => true
  | [c] => decide (0 < c.length) && decide (c.length ≤ n)
  | c :: c' :: cs => decide (c.length = n) && fullThenRest n (c' :: cs)

theorem chunksAux_full (n : Nat) (hn : 0 < n) : ∀ (fuel : Nat) (bs : Bytes), bs.length ≤ fuel →
    fullThenRest n (chunksAux fuel n bs) = true
  | 0, bs, _ => by simp [chunksAux, fullThenRest]
  | fuel + 1, bs, h => by
    simp only [chunksAux]
    split
    · simp [fullThenRest]
    · rename_i he
      have hne : bs ≠ [] := by simpa using he
      have hpos : 0 < bs.length := List.length_pos_iff.mpr hne
      have ih := chunksAux_full n hn fuel (bs.drop n) (by simp; omega)
      cases fuel with
      | zero =>
        simp [chunksAux, fullThenRest, List.length_take]; omega
      | succ f =>
        simp only [chunksAux] at ih ⊢
        split
        · rename_i he2
          simp [fullThenRest, List.length_take]; omega
        · rename_i he2
          have : n < bs.length := by
            have : bs.drop n ≠ [] := by simpa using he2
            have := List.length_pos_iff.mpr this
            simp at this; omega
          simp only [fullThenRest, Bool.and_eq_true, decide_eq_true_eq]
          refine ⟨by simp [List.length_take]; omega, ?_⟩
          simpa [he2] using ih

theorem chunks_full (n : Nat) (hn : 0 < n) (bs : Bytes) : fullThenRest n (chunks n bs) = true :=
  chunksAux_full n hn _ bs (Nat.le_refl _)

theorem chunksPayload_map (cs : List Bytes) :
    chunksPayload (cs.map fun c => (minHead 2 c.length, c)) = cs.flatten := by
  induction cs with
  | nil => rfl
  | cons c cs ih => simp [chunksPayload, ih]

/-! ## heads -/

theorem minHead_ai (m n : Nat) : (minHead m n).ai ≠ 31 := by
  unfold minHead; repeat' split
  all_goals simp only []; omega

theorem mkHead_wf (m n : Nat) (hm : m < 8) (hn : n < u64Bound) :
    (minHead m n).wf = true ∧ (minHead m n).major = m ∧ (minHead m n).ai ≠ 31 ∧ (minHead m n).val = n :=
  ⟨minHead_wf m n hm (u64Bound_eq ▸ hn), minHead_major m n, minHead_ai m n, minHead_val m n (u64Bound_eq ▸ hn)⟩

/-! ## well-formedness of what the encoder emits -/

theorem mkUInt_wf (n : Nat) (h : n < u64Bound) : (mkUInt n).wf = true := by
  obtain ⟨h1, h2, h3, _⟩ := mkHead_wf 0 n (by decide) h
  simp [mkUInt, Item.wf, h1, h2, h3]

theorem mkInt_wf (i : Int) (h : -(u64Bound : Int) ≤ i ∧ i < (u64Bound : Int)) : (mkInt i).wf = true := by
  unfold mkInt
  split
  · obtain ⟨h1, h2, h3, _⟩ := mkHead_wf 0 i.toNat (by decide) (by omega)
    simp [Item.wf, h1, h2, h3]
  · obtain ⟨h1, h2, h3, _⟩ := mkHead_wf 1 (-1 - i).toNat (by decide) (by omega)
    simp [Item.wf, h1, h2, h3]

theorem chunksWf_map (cs : List Bytes) (h : ∀ c ∈ cs, c.length ≤ 64) :
    chunksWf 2 (cs.map fun c => (minHead 2 c.length, c)) = true := by
  induction cs with
  | nil => rfl
  | cons c cs ih =>
    have hc : c.length ≤ 64 := h c (by simp)
    obtain ⟨h1, h2, h3, h4⟩ := mkHead_wf 2 c.length (by decide) (by unfold u64Bound; omega)
    simp only [List.map_cons, chunksWf, chunkWf, h1, h2, h3, h4, Bool.and_eq_true, decide_eq_true_eq]
    exact ⟨by simpa using h3, ih fun c' hc' => h c' (by simp [hc'])⟩

theorem bbItem_wf (bs : Bytes) (h : bs.length < u64Bound) : (bbItem bs).wf = true := by
  unfold bbItem
  split
  · obtain ⟨h1, h2, h3, h4⟩ := mkHead_wf 2 bs.length (by decide) h
    simp [mkBytes, Item.wf, h1, h2, h3, h4]
  · simp only [Item.wf, decide_true, Bool.true_or, Bool.true_and]
    exact chunksWf_map _ fun c hc => (chunks_sizes 64 (by decide) bs c hc).2

theorem bbItem_payload (bs : Bytes) : (bbItem bs).strPayload? 2 = some bs := by
  unfold bbItem
  split
  · simp [mkBytes, Item.strPayload?, minHead_major]
  · simp [Item.strPayload?, chunksPayload_map, chunks_join]

theorem mkTag_wf (t : Nat) (i : Item) (ht : t < u64Bound) (hi : i.wf = true) : (mkTag t i).wf = true := by
  obtain ⟨h1, h2, h3, _⟩ := mkHead_wf 6 t (by decide) ht
  simp [mkTag, Item.wf, h1, h2, h3, hi]

theorem mkArray_wf (xs : List Item) (hl : xs.length < u64Bound) (hx : wfList xs = true) : (mkArray xs).wf = true := by
  obtain ⟨h1, h2, h3, h4⟩ := mkHead_wf 4 xs.length (by decide) hl
  simp [mkArray, Item.wf, h1, h2, h3, h4, hx, seqCount]

theorem arrItem_wf (df : Bool) (xs : List Item) (hl : xs.length < u64Bound) (hx : wfList xs = true) :
    (arrItem df xs).wf = true := by
  unfold arrItem
  split
  · exact mkArray_wf xs hl hx
  · simp [Item.wf, hx]

theorem bigItem_wf (b : BigInt) (h : b.fits = true) : (bigItem b).wf = true := by
  cases b with
  | int i =>
    simp only [BigInt.fits, Bool.and_eq_true, decide_eq_true_eq] at h
    exact mkInt_wf i h
  | bigU bs =>
    simp only [BigInt.fits, decide_eq_true_eq] at h
    exact mkTag_wf 2 _ (by decide) (bbItem_wf bs h)
  | bigN bs =>
    simp only [BigInt.fits, decide_eq_true_eq] at h
    exact mkTag_wf 3 _ (by decide) (bbItem_wf bs h)

mutual
theorem toItems_length : ∀ xs : List PData, (toItems xs).length = xs.length
  | [] => rfl
  | x :: xs => by simp [toItems, toItems_length xs]
end

theorem toFlat_length : ∀ xs : List (PData × PData), (toFlat xs).length = 2 * xs.length
  | [] => rfl
  | (k, v) :: xs => by simp [toFlat, toFlat_length xs]; omega

mutual
theorem toItem_wf : ∀ d : PData, fits d = true → (toItem d).wf = true
  | .constr t a df fs => by
    intro h
    simp only [fits, Bool.and_eq_true, decide_eq_true_eq] at h
    obtain ⟨⟨⟨ht, ha⟩, hl⟩, hfs⟩ := h
    have hf := arrItem_wf df (toItems fs) (by rw [toItems_length]; exact hl) (toItems_wf fs hfs)
    simp only [toItem]
    split
    · apply mkTag_wf _ _ ht
      apply mkArray_wf _ (by simp [u64Bound])
      simp [wfList, mkUInt_wf _ ha, hf]
    · exact mkTag_wf _ _ ht hf
  | .map df kvs => by
    intro h
    simp only [fits, Bool.and_eq_true, decide_eq_true_eq] at h
    obtain ⟨h1, h2, h3, h4⟩ := mkHead_wf 5 kvs.length (by decide) h.1
    simp only [toItem]
    split
    · simp [Item.wf, h1, h2, h3, h4, seqCount, toFlat_length, toFlat_wf kvs h.2]
    · simp [Item.wf, toFlat_length, toFlat_wf kvs h.2]
  | .array df xs => by
    intro h
    simp only [fits, Bool.and_eq_true, decide_eq_true_eq] at h
    exact arrItem_wf df (toItems xs) (by rw [toItems_length]; exact h.1) (toItems_wf xs h.2)
  | .int b => by intro h; exact bigItem_wf b h
  | .bytes bs => by
    intro h
    simp only [fits, decide_eq_true_eq] at h
    exact bbItem_wf bs h
theorem toItems_wf : ∀ xs : List PData, fitsList xs = true → wfList (toItems xs) = true
  | [] => by simp [toItems, wfList]
  | x :: xs => by
    intro h
    simp only [fitsList, Bool.and_eq_true] at h
    simp [toItems, wfList, toItem_wf x h.1, toItems_wf xs h.2]
theorem toFlat_wf : ∀ xs : List (PData × PData), fitsKvs xs = true → wfList (toFlat xs) = true
  | [] => by simp [toFlat, wfList]
  | (k, v) :: xs => by
    intro h
    simp only [fitsKvs, Bool.and_eq_true] at h
    simp [toFlat, wfList, toItem_wf k h.1.1, toItem_wf v h.1.2, toFlat_wf xs h.2]
end

/-! ## decode ∘ encode on the concrete syntax tree -/

theorem ofItem_mkInt (i : Int) (h : -(u64Bound : Int) ≤ i ∧ i < (u64Bound : Int)) :
    ofItem (mkInt i) = some (.int (.int i)) := by
  unfold mkInt
  split
  · obtain ⟨_, h2, _, h4⟩ := mkHead_wf 0 i.toNat (by decide) (by omega)
    simp only [ofItem, h2, h4]
    simp; omega
  · obtain ⟨_, h2, _, h4⟩ := mkHead_wf 1 (-1 - i).toNat (by decide) (by omega)
    simp only [ofItem, h2, h4]
    simp; omega

theorem ofItem_bigItem (b : BigInt) (h : b.fits = true) : ofItem (bigItem b) = some (.int b) := by
  cases b with
  | int i =>
    simp only [BigInt.fits, Bool.and_eq_true, decide_eq_true_eq] at h
    exact ofItem_mkInt i h
  | bigU bs =>
    obtain ⟨_, _, _, h4⟩ := mkHead_wf 6 2 (by decide) (by decide)
    simp [bigItem, mkTag, ofItem, h4, bbItem_payload]
  | bigN bs =>
    obtain ⟨_, _, _, h4⟩ := mkHead_wf 6 3 (by decide) (by decide)
    simp [bigItem, mkTag, ofItem, h4, bbItem_payload]

theorem ofItem_bbItem (bs : Bytes) : ofItem (bbItem bs) = some (.bytes bs) := by
  unfold bbItem
  split
  · simp [mkBytes, ofItem, minHead_major]
  · simp [ofItem, chunksPayload_map, chunks_join]

theorem ofItem_arrItem (df : Bool) (xs : List Item) :
    ofItem (arrItem df xs) = (ofItems xs).map (.array df) := by
  cases df <;> simp [arrItem, mkArray, ofItem, minHead_major]

theorem isConstrTag_iff (t : Nat) : isConstrTag t = true ↔ (121 ≤ t ∧ t ≤ 127) ∨ (1280 ≤ t ∧ t ≤ 1400) := by
  simp [isConstrTag]

theorem ofItem_constr (t : Nat) (ht : t < u64Bound) (hc : isConstrTag t = true) (df : Bool) (xs : List Item) :
    ofItem (mkTag t (arrItem df xs)) = (ofItems xs).map (.constr t none df) := by
  obtain ⟨_, _, _, h4⟩ := mkHead_wf 6 t (by decide) ht
  have h2 : t ≠ 2 := by rw [isConstrTag_iff] at hc; omega
  have h3 : t ≠ 3 := by rw [isConstrTag_iff] at hc; omega
  cases df <;> simp [mkTag, arrItem, mkArray, ofItem, h4, h2, h3, hc, minHead_major]

theorem ofItem_constr102 (n : Nat) (hn : n < u64Bound) (df : Bool) (xs : List Item) :
    ofItem (mkTag 102 (mkArray [mkUInt n, arrItem df xs])) = (ofItems xs).map (.constr 102 (some n) df) := by
  obtain ⟨_, _, _, h4⟩ := mkHead_wf 6 102 (by decide) (by decide)
  obtain ⟨_, u2, _, u4⟩ := mkHead_wf 0 n (by decide) hn
  have hc : isConstrTag 102 = false := by decide
  cases df <;>
    simp [mkTag, arrItem, mkArray, ofItem, h4, hc, minHead_major, mkUInt, Item.uint?, u2, u4]

mutual
theorem ofItem_toItem : ∀ d : PData, fits d = true → wfTag d = true → ofItem (toItem d) = some (normAny d)
  | .constr t a df fs => by
    intro h hw
    simp only [fits, Bool.and_eq_true, decide_eq_true_eq] at h
    obtain ⟨⟨⟨ht, ha⟩, _⟩, hfs⟩ := h
    simp only [wfTag, Bool.and_eq_true] at hw
    have ih := ofItems_toItems fs hfs hw.2
    simp only [toItem, normAny]
    split
    · rename_i h102
      subst h102
      have : ∃ n, a = some n := by
        have := hw.1
        simp only [constrIndex] at this
        simpa [Option.isSome_iff_exists] using this
      obtain ⟨n, rfl⟩ := this
      simp only [Option.getD_some] at ha ⊢
      rw [ofItem_constr102 n ha, ih]; simp
    · rename_i h102
      have hc : isConstrTag t = true := by
        have := hw.1
        unfold constrIndex at this
        rw [isConstrTag_iff]
        split at this
        · left; assumption
        · split at this
          · right; assumption
          · simp [h102] at this
      rw [ofItem_constr t ht hc, ih]; simp [h102]
  | .map df kvs => by
    intro h hw
    simp only [fits, Bool.and_eq_true, decide_eq_true_eq] at h
    simp only [wfTag] at hw
    have ih := ofPairs_toFlat kvs h.2 hw
    cases df <;> simp [toItem, normAny, ofItem, minHead_major, ih]
  | .array df xs => by
    intro h hw
    simp only [fits, Bool.and_eq_true, decide_eq_true_eq] at h
    simp only [wfTag] at hw
    simp only [toItem, normAny, ofItem_arrItem, ofItems_toItems xs h.2 hw]; simp
  | .int b => by intro h _; exact ofItem_bigItem b h
  | .bytes bs => by intro _ _; exact ofItem_bbItem bs
theorem ofItems_toItems : ∀ xs : List PData, fitsList xs = true → wfTagList xs = true →
    ofItems (toItems xs) = some (normAnyList xs)
  | [] => by simp [toItems, ofItems, normAnyList]
  | x :: xs => by
    intro h hw
    simp only [fitsList, wfTagList, Bool.and_eq_true] at h hw
    simp [toItems, ofItems, normAnyList, ofItem_toItem x h.1 hw.1, ofItems_toItems xs h.2 hw.2]
theorem ofPairs_toFlat : ∀ xs : List (PData × PData), fitsKvs xs = true → wfTagKvs xs = true →
    ofPairs (toFlat xs) = some (normAnyKvs xs)
  | [] => by simp [toFlat, ofPairs, normAnyKvs]
  | (k, v) :: xs => by
    intro h hw
    simp only [fitsKvs, wfTagKvs, Bool.and_eq_true] at h hw
    simp [toFlat, ofPairs, normAnyKvs, ofItem_toItem k h.1.1 hw.1.1, ofItem_toItem v h.1.2 hw.1.2,
      ofPairs_toFlat xs h.2 hw.2]
end

/-- decoding the encoding (followed by anything) gives the value back, with `any_constructor`
    normalised to `None` on tags other than 102 -/
theorem decode_encode (d : PData) (r : Bytes) (h : fits d = true) (hw : wfTag d = true) :
    decode (encode d ++ r) = some (normAny d) := by
  unfold decode encode
  rw [parseItem_encode _ r (toItem_wf d h)]
  exact ofItem_toItem d h hw

mutual
theorem normAny_idem_of_canon : ∀ d : PData, normAny (normAny d) = normAny d
  | .constr t a df fs => by
    simp only [normAny, normAnyList_idem fs]
    by_cases h : t = 102 <;> simp [h]
  | .map df kvs => by simp only [normAny, normAnyKvs_idem kvs]
  | .array df xs => by simp only [normAny, normAnyList_idem xs]
  | .int b => rfl
  | .bytes bs => rfl
theorem normAnyList_idem : ∀ xs : List PData, normAnyList (normAnyList xs) = normAnyList xs
  | [] => rfl
  | x :: xs => by simp only [normAnyList, normAny_idem_of_canon x, normAnyList_idem xs]
theorem normAnyKvs_idem : ∀ xs : List (PData × PData), normAnyKvs (normAnyKvs xs) = normAnyKvs xs
  | [] => rfl
  | (k, v) :: xs => by simp only [normAnyKvs, normAny_idem_of_canon k, normAny_idem_of_canon v, normAnyKvs_idem xs]
end

mutual
theorem toItem_normAny : ∀ d : PData, wfTag d = true → toItem (normAny d) = toItem d
  | .constr t a df fs => by
    intro hw
    simp only [wfTag, Bool.and_eq_true] at hw
    simp only [normAny, toItem, toItems_normAny fs hw.2]
    by_cases h : t = 102 <;> simp [h]
  | .map df kvs => by intro hw; simp only [wfTag] at hw; simp only [normAny, toItem, toFlat_normAny kvs hw, normAnyKvs_length]
  | .array df xs => by intro hw; simp only [wfTag] at hw; simp only [normAny, toItem, toItems_normAny xs hw]
  | .int b => by intro _; rfl
  | .bytes bs => by intro _; rfl
theorem toItems_normAny : ∀ xs : List PData, wfTagList xs = true → toItems (normAnyList xs) = toItems xs
  | [] => by intro _; rfl
  | x :: xs => by
    intro hw
    simp only [wfTagList, Bool.and_eq_true] at hw
    simp only [normAnyList, toItems, toItem_normAny x hw.1, toItems_normAny xs hw.2]
theorem toFlat_normAny : ∀ xs : List (PData × PData), wfTagKvs xs = true → toFlat (normAnyKvs xs) = toFlat xs
  | [] => by intro _; rfl
  | (k, v) :: xs => by
    intro hw
    simp only [wfTagKvs, Bool.and_eq_true] at hw
    simp only [normAnyKvs, toFlat, toItem_normAny k hw.1.1, toItem_normAny v hw.1.2, toFlat_normAny xs hw.2]
theorem normAnyKvs_length : ∀ xs : List (PData × PData), (normAnyKvs xs).length = xs.length
  | [] => rfl
  | (k, v) :: xs => by simp [normAnyKvs, normAnyKvs_length xs]
end

end PallasVerif.PlutusData
