import PallasVerif.Proofs.SchemaMaps
/-! Tuples and the two minicbor-derive field layouts (array with gaps / nil truncation, map). -/
namespace PallasVerif.Schema
open PallasVerif.Cbor

theorem good_tuple {e : Schema → Value → Option Item} {d : Schema → Item → Option Value}
    {K : Schema → List Ty} {nr : Schema → Prop} (fs : List Schema) (hl : fs.length < 2 ^ 64)
    (hg : ∀ s, s ∈ fs → Good (e s) (d s) (K s) (nr s)) :
    Good (encTuple e fs) (decTuple d fs) [.array] (∀ s, s ∈ fs → nr s) := by
  intro v it hr he
  cases v <;> simp [encTuple] at he
  case list vs =>
    obtain ⟨items, hz, rfl⟩ := he
    simp only [Value.rawFree] at hr
    obtain ⟨w, l, vs', dd, ss, nn⟩ := zipOpt_good fs hg vs items hr hz
    refine ⟨mkArray_wf items (by omega) w, by simp [mkArray_typeOf], .list vs', ?_, by simp [Value.strip, ss],
      fun x => by rw [nn x]⟩
    simp [decTuple, mkArray, minHead_major, dd]

/-! ## array layout -/

theorem drop_replicate_append {α} (n : Nat) (a : α) (l : List α) : (List.replicate n a ++ l).drop n = l := by
  induction n with
  | zero => rfl
  | succ n ih => simp [List.replicate, ih]

theorem increasingFrom_cons (lo idx : Nat) (s : Schema) (fs : List (Nat × Schema)) :
    increasingFrom lo ((idx, s) :: fs) = true ↔ lo ≤ idx ∧ idx < 2 ^ 63 ∧ increasingFrom (idx + 1) fs = true := by
  simp [increasingFrom, and_assoc]

theorem isNilField_elim {s : Schema} {v : Value} (h : isNilField s v = true) : s.isOpt = true ∧ v = .none := by
  simp only [isNilField, Bool.and_eq_true] at h
  refine ⟨h.1, ?_⟩
  have := h.2
  cases v <;> simp at this
  rfl

theorem utf8Ok_replicate_null (n : Nat) : utf8OkList (List.replicate n mkNull) = true := by
  induction n with
  | zero => rfl
  | succ n ih =>
    have h1 : itemUtf8Ok mkNull = true := by simp [itemUtf8Ok, mkNull]
    simp only [List.replicate_succ, utf8OkList, h1, ih, Bool.and_self]

theorem take_replicate_append {α} (n : Nat) (a : α) (l : List α) : (List.replicate n a ++ l).take n = List.replicate n a := by
  induction n with
  | zero => rfl
  | succ n ih => simp [List.replicate_succ, ih]

theorem decArr_allNil (d : Schema → Item → Option Value) : ∀ fs vs pos, allNil fs vs = true →
    decArr d pos fs [] = some vs ∧ stripList vs = vs := by
  intro fs
  induction fs with
  | nil =>
    intro vs pos h
    cases vs with
    | nil => exact ⟨rfl, rfl⟩
    | cons _ _ => simp [allNil] at h
  | cons p fs ih =>
    intro vs pos h
    obtain ⟨idx, s⟩ := p
    cases vs with
    | nil => simp [allNil] at h
    | cons v vs =>
      simp only [allNil, Bool.and_eq_true] at h
      obtain ⟨hnf, hrest⟩ := h
      obtain ⟨ho, hvn⟩ := isNilField_elim hnf
      subst hvn
      obtain ⟨d1, s1⟩ := ih vs (idx + 1) hrest
      exact ⟨by simp [decArr, ho, d1, utf8OkList], by simp [stripList, Value.strip, s1]⟩

theorem encArr_good {e : Schema → Value → Option Item} {d : Schema → Item → Option Value}
    {K : Schema → List Ty} {nr : Schema → Prop} :
    ∀ (fs : List (Nat × Schema)), (∀ p, p ∈ fs → Good (e p.2) (d p.2) (K p.2) (nr p.2)) →
    ∀ (trunc : Bool) pos vs items, pos ≤ 2 ^ 63 → increasingFrom pos fs = true → rawFreeList vs = true →
      encArr e trunc pos fs vs = some items →
      wfList items = true ∧ pos + items.length ≤ 2 ^ 63 ∧
      ∃ vs', decArr d pos fs items = some vs' ∧ stripList vs' = vs ∧ ((∀ p, p ∈ fs → nr p.2) → vs' = vs) := by
  intro fs
  induction fs with
  | nil =>
    intro _ trunc pos vs items hp _ _ he
    cases vs with
    | nil => simp [encArr] at he; subst he; exact ⟨rfl, by simpa using hp, [], rfl, rfl, fun _ => rfl⟩
    | cons _ _ => simp [encArr] at he
  | cons p fs ih =>
    intro hg trunc pos vs items hp hi hr he
    obtain ⟨idx, s⟩ := p
    cases vs with
    | nil => simp [encArr] at he
    | cons v vs =>
      simp only [encArr] at he
      split at he
      · -- nothing but nil fields left
        rename_i hn
        simp only [Bool.and_eq_true] at hn
        simp only [Option.some.injEq] at he; subst he
        obtain ⟨d1, s1⟩ := decArr_allNil d _ _ pos hn.2
        exact ⟨rfl, by simpa using hp, v :: vs, d1, s1, fun _ => rfl⟩
      · split at he
        · simp at he
        · rename_i hlt
          rw [increasingFrom_cons] at hi
          obtain ⟨h1, h2, h3⟩ := hi
          simp only [rawFreeList, Bool.and_eq_true] at hr
          cases ha : e s v with
          | none => simp [ha] at he
          | some it =>
            cases hb : encArr e trunc (idx + 1) fs vs with
            | none => simp [ha, hb] at he
            | some rest =>
              simp [ha, hb] at he; subst he
              obtain ⟨w1, _, v', d1, s1, n1⟩ := hg (idx, s) (by simp) v it hr.1 ha
              obtain ⟨w2, l2, vs', d2, s2, n2⟩ := ih (fun q hq => hg q (by simp [hq])) trunc (idx + 1) vs rest (by omega) h3 hr.2 hb
              refine ⟨by simp [wfList_append, wfList_replicate_null, wfList, w1, w2], by simp; omega, v' :: vs', ?_,
                by simp [stripList, s1, s2], ?_⟩
              · simp only [decArr, drop_replicate_append, take_replicate_append, utf8Ok_replicate_null, if_true]
                simp only at d1
                simp [d1, d2]
              · intro hn
                rw [n1 (hn (idx, s) (by simp)), n2 (fun q hq => hn q (by simp [hq]))]

theorem unwrapTag_wrapTag (t : Option Nat) (x : Item) (ht : ∀ n, t = some n → n < 2 ^ 64) :
    unwrapTag t (wrapTag t x) = some x := by
  cases t with
  | none => rfl
  | some n =>
    have hv : (minHead 6 n).val = n := minHead_val 6 n (ht n rfl)
    simp [unwrapTag, wrapTag, mkTag, hv]

theorem wrapTag_wf (t : Option Nat) (x : Item) (ht : ∀ n, t = some n → n < 2 ^ 64) (hw : x.wf = true) :
    (wrapTag t x).wf = true := by
  cases t with
  | none => exact hw
  | some n => exact mkTag_wf n x (ht n rfl) hw

theorem wrapTag_typeOf (l : Layout) (t : Option Nat) (x : Item)
    (hx : typeOf x = match l with | .array => Ty.array | .map => Ty.map) :
    typeOf (wrapTag t x) ∈ structKinds l t := by
  cases t with
  | none => cases l <;> simp [wrapTag, structKinds, hx]
  | some n => simp [wrapTag, structKinds, mkTag_typeOf]

/-! ## map layout -/

def resOf : List (Nat × Schema) → List Value → List (Nat × Value)
  | (idx, s) :: fs, v :: vs => if isNilField s v then resOf fs vs else (idx, v) :: resOf fs vs
  | _, _ => []

theorem increasing_bounds : ∀ (fs : List (Nat × Schema)) lo, increasingFrom lo fs = true →
    ∀ p, p ∈ fs → lo ≤ p.1 ∧ p.1 < 2 ^ 63 := by
  intro fs
  induction fs with
  | nil => intro _ _ p hp; simp at hp
  | cons q fs ih =>
    intro lo hi p hp
    obtain ⟨idx, s⟩ := q
    rw [increasingFrom_cons] at hi
    simp only [List.mem_cons] at hp
    rcases hp with rfl | hp
    · exact ⟨hi.1, hi.2.1⟩
    · have := ih (idx + 1) hi.2.2 p hp
      exact ⟨by omega, this.2⟩

theorem increasing_length : ∀ (fs : List (Nat × Schema)) lo, lo ≤ 2 ^ 63 → increasingFrom lo fs = true →
    lo + fs.length ≤ 2 ^ 63 := by
  intro fs
  induction fs with
  | nil => intro lo h _; simpa using h
  | cons q fs ih =>
    intro lo _ hi
    obtain ⟨idx, s⟩ := q
    rw [increasingFrom_cons] at hi
    have := ih (idx + 1) (by omega) hi.2.2
    simp; omega

theorem findField_increasing : ∀ (fs : List (Nat × Schema)) lo, increasingFrom lo fs = true →
    ∀ p, p ∈ fs → findField (p.1 : Int) fs = some p := by
  intro fs
  induction fs with
  | nil => intro _ _ p hp; simp at hp
  | cons q fs ih =>
    intro lo hi p hp
    obtain ⟨idx, s⟩ := q
    rw [increasingFrom_cons] at hi
    simp only [List.mem_cons] at hp
    rcases hp with rfl | hp
    · simp [findField]
    · have hb := increasing_bounds fs (idx + 1) hi.2.2 p hp
      have hne : ¬ ((idx : Int) = (p.1 : Int)) := by omega
      simp only [findField, hne, if_false]
      exact ih (idx + 1) hi.2.2 p hp

theorem intInBits_nat (n : Nat) (h : n < 2 ^ 63) : intInBits 64 (n : Int) = true := by
  simp [intInBits]; omega

theorem encMap_entries {e : Schema → Value → Option Item} {d : Schema → Item → Option Value}
    {K : Schema → List Ty} {nr : Schema → Prop} (FS : List (Nat × Schema)) :
    ∀ (fs : List (Nat × Schema)), (∀ p, p ∈ fs → Good (e p.2) (d p.2) (K p.2) (nr p.2)) →
    (∀ p, p ∈ fs → findField (p.1 : Int) FS = some p) → (∀ p, p ∈ fs → p.1 < 2 ^ 63) →
    ∀ vs ents, rawFreeList vs = true → encMapFields e fs vs = some ents →
      wfPairs ents = true ∧ ents.length ≤ fs.length ∧
      ∃ vs', vs'.length = fs.length ∧ stripList vs' = vs ∧ ((∀ p, p ∈ fs → nr p.2) → vs' = vs) ∧
        decMapEntries d FS ents = some (resOf fs vs') := by
  intro fs
  induction fs with
  | nil =>
    intro _ _ _ vs ents _ he
    cases vs with
    | nil => simp [encMapFields] at he; subst he; exact ⟨rfl, by simp, [], rfl, rfl, fun _ => rfl, rfl⟩
    | cons _ _ => simp [encMapFields] at he
  | cons p fs ih =>
    intro hg hf hb vs ents hr he
    obtain ⟨idx, s⟩ := p
    cases vs with
    | nil => simp [encMapFields] at he
    | cons v vs =>
      simp only [rawFreeList, Bool.and_eq_true] at hr
      simp only [encMapFields] at he
      have ih' := ih (fun q hq => hg q (by simp [hq])) (fun q hq => hf q (by simp [hq])) (fun q hq => hb q (by simp [hq])) vs
      cases hnil : isNilField s v with
      | true =>
        simp only [hnil, if_true] at he
        obtain ⟨w, l, vs', hl, ss, nn, dd⟩ := ih' ents hr.2 he
        obtain ⟨_, hv⟩ := isNilField_elim hnil
        subst hv
        refine ⟨w, by simp; omega, Value.none :: vs', by simp [hl], by simp [stripList, Value.strip, ss],
          fun hn => by rw [nn (fun q hq => hn q (by simp [hq]))], ?_⟩
        simp [resOf, hnil, dd]
      | false =>
        simp only [hnil] at he
        cases ha : e s v with
        | none => simp [ha] at he
        | some it =>
          cases hb2 : encMapFields e fs vs with
          | none => simp [ha, hb2] at he
          | some rest =>
            simp [ha, hb2] at he; subst he
            obtain ⟨w1, _, v', d1, s1, n1⟩ := hg (idx, s) (by simp) v it hr.1 ha
            obtain ⟨w, l, vs', hl, ss, nn, dd⟩ := ih' rest hr.2 hb2
            have hidx : idx < 2 ^ 63 := hb (idx, s) (by simp)
            have hnn : isNilField s v' = false := by
              cases hq : isNilField s v' with
              | false => rfl
              | true =>
                exfalso
                obtain ⟨ho, hv'⟩ := isNilField_elim hq
                subst hv'
                simp only [Value.strip] at s1
                subst s1
                simp [isNilField, ho] at hnil
            refine ⟨by simp [wfPairs, mkUInt_wf idx (by omega), w1, w], by simp; omega, v' :: vs', by simp [hl],
              by simp [stripList, s1, ss], fun hn => by rw [n1 (hn (idx, s) (by simp)), nn (fun q hq => hn q (by simp [hq]))], ?_⟩
            have hfi := hf (idx, s) (by simp)
            simp only at hfi d1
            simp [decMapEntries, mkUInt_int idx (by omega), intInBits_nat idx hidx, hfi, d1, dd, resOf, hnn]

theorem lookupLast_append (k : Nat) : ∀ (a b : List (Nat × Value)),
    lookupLast k (a ++ b) = (match lookupLast k b with | some x => some x | none => lookupLast k a) := by
  intro a
  induction a with
  | nil => intro b; simp [lookupLast]; cases lookupLast k b <;> rfl
  | cons q a ih =>
    intro b
    obtain ⟨k', v⟩ := q
    simp only [List.cons_append, lookupLast, ih b]
    cases lookupLast k b <;> simp

theorem lookupLast_small (k : Nat) : ∀ (pre : List (Nat × Value)), (∀ q, q ∈ pre → q.1 < k) → lookupLast k pre = none := by
  intro pre
  induction pre with
  | nil => intro _; rfl
  | cons q pre ih =>
    intro h
    obtain ⟨k', v⟩ := q
    have h1 : k' < k := h (k', v) (by simp)
    have hne : ¬ k' = k := by omega
    simp [lookupLast, ih (fun q hq => h q (by simp [hq])), hne]

theorem lookupLast_resOf_none : ∀ (fs : List (Nat × Schema)) vs k lo, increasingFrom lo fs = true → k < lo →
    lookupLast k (resOf fs vs) = none := by
  intro fs
  induction fs with
  | nil => intro vs k lo _ _; simp [resOf, lookupLast]
  | cons q fs ih =>
    intro vs k lo hi hk
    obtain ⟨idx, s⟩ := q
    rw [increasingFrom_cons] at hi
    cases vs with
    | nil => simp [resOf, lookupLast]
    | cons v vs =>
      simp only [resOf]
      split
      · exact ih vs k (idx + 1) hi.2.2 (by omega)
      · have hne : ¬ idx = k := by omega
        simp [lookupLast, ih vs k (idx + 1) hi.2.2 (by omega), hne]

theorem collect_resOf : ∀ (fs : List (Nat × Schema)) lo vs' pre, increasingFrom lo fs = true →
    vs'.length = fs.length → (∀ q, q ∈ pre → q.1 < lo) →
    collectFields (pre ++ resOf fs vs') fs = some vs' := by
  intro fs
  induction fs with
  | nil =>
    intro lo vs' pre _ hl _
    cases vs' with
    | nil => simp [collectFields]
    | cons _ _ => simp at hl
  | cons q fs ih =>
    intro lo vs' pre hi hl hpre
    obtain ⟨idx, s⟩ := q
    rw [increasingFrom_cons] at hi
    cases vs' with
    | nil => simp at hl
    | cons v vs =>
      simp only [List.length_cons, Nat.add_right_cancel_iff] at hl
      have hR := lookupLast_resOf_none fs vs idx (idx + 1) hi.2.2 (by omega)
      have hP : lookupLast idx pre = none := lookupLast_small idx pre (fun q hq => by have := hpre q hq; omega)
      simp only [resOf]
      split
      · rename_i hn
        obtain ⟨ho, rfl⟩ := isNilField_elim hn
        have hc := ih (idx + 1) vs pre hi.2.2 hl (fun q hq => by have := hpre q hq; omega)
        simp [collectFields, lookupLast_append, hR, hP, hc, ho]
      · have hc := ih (idx + 1) vs (pre ++ [(idx, v)]) hi.2.2 hl (fun q hq => by
          simp only [List.mem_append, List.mem_singleton] at hq
          rcases hq with hq | rfl
          · have := hpre q hq; omega
          · simp)
        have e1 : pre ++ (idx, v) :: resOf fs vs = (pre ++ [(idx, v)]) ++ resOf fs vs := by simp
        have hl1 : lookupLast idx (pre ++ (idx, v) :: resOf fs vs) = some v := by
          rw [lookupLast_append]
          simp [lookupLast, hR]
        simp only [collectFields, hl1]
        rw [e1, hc]

theorem good_struct {e : Schema → Value → Option Item} {d : Schema → Item → Option Value}
    {K : Schema → List Ty} {nr : Schema → Prop} (l : Layout) (t : Option Nat) (fs : List (Nat × Schema))
    (ht : ∀ n, t = some n → n < 2 ^ 64) (hi : increasingFrom 0 fs = true)
    (hg : ∀ p, p ∈ fs → Good (e p.2) (d p.2) (K p.2) (nr p.2)) :
    Good (encStruct e l t fs) (decStruct d l t fs) (structKinds l t) (∀ p, p ∈ fs → nr p.2) := by
  intro v it hr he
  cases v <;> simp only [encStruct] at he <;> try (simp at he; done)
  case list vs =>
    simp only [Value.rawFree] at hr
    cases l with
    | array =>
      simp only [Option.map_eq_some_iff] at he
      obtain ⟨xs, hx, rfl⟩ := he
      obtain ⟨w, hl, vs', dd, ss, nn⟩ := encArr_good fs hg true 0 vs xs (by omega) hi hr hx
      have hw := mkArray_wf xs (by omega) w
      refine ⟨wrapTag_wf t _ ht hw, wrapTag_typeOf .array t _ (mkArray_typeOf xs), .list vs', ?_,
        by simp [Value.strip, ss], fun x => by rw [nn x]⟩
      simp [decStruct, unwrapTag_wrapTag t _ ht, mkArray_items, dd]
    | map =>
      simp only [Option.map_eq_some_iff] at he
      obtain ⟨ents, hx, rfl⟩ := he
      obtain ⟨w, hl, vs', hlen, ss, nn, dd⟩ := encMap_entries fs fs hg (findField_increasing fs 0 hi)
        (fun p hp => (increasing_bounds fs 0 hi p hp).2) vs ents hr hx
      have hlen2 := increasing_length fs 0 (by omega) hi
      have hw := mkMapFlat_wf ents (by omega) w
      have hc := collect_resOf fs 0 vs' [] hi hlen (fun q hq => by simp at hq)
      simp only [List.nil_append] at hc
      refine ⟨wrapTag_wf t _ ht hw, wrapTag_typeOf .map t _ (mkMapFlat_typeOf _), .list vs', ?_,
        by simp [Value.strip, ss], fun x => by rw [nn x]⟩
      simp [decStruct, unwrapTag_wrapTag t _ ht, mkMapFlat_entries, dd, hc]

end PallasVerif.Schema
