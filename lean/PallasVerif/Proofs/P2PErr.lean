import PallasVerif.Proofs.P2PInv
/-! `error_count` of every tracked peer is bounded by the number of events handled so far, so
    the `u32` increment in `on_errored` cannot overflow on histories shorter than 2^32. -/
namespace PallasVerif.P2P

def ErrLe (n : Nat) (s : St) : Prop := ∀ p st, s.peers p = some st → st.errorCount ≤ n

theorem ErrLe.mono {n m : Nat} {s : St} (h : ErrLe n s) (hnm : n ≤ m) : ErrLe m s :=
  fun p st hp => Nat.le_trans (h p st hp) hnm

theorem ErrLe.set {n : Nat} {s f : St} {p : Nat} {st' : Peer} (h : ErrLe n s)
    (hp : f.peers = setPeer s.peers p st') (he : st'.errorCount ≤ n) : ErrLe n f := by
  intro q st hq
  rw [hp] at hq
  unfold setPeer at hq
  by_cases e : q = p
  · simp only [e, if_true, Option.some.injEq] at hq; subst hq; exact he
  · simp only [e, if_false] at hq; exact h q st hq

theorem ErrLe.same {n : Nat} {s f : St} (h : ErrLe n s) (hp : f.peers = s.peers) : ErrLe n f := by
  intro q st hq; rw [hp] at hq; exact h q st hq

theorem applyMsg_err (st : Peer) (m : Msg) : (st.applyMsg m).errorCount = st.errorCount := by
  cases m <;> simp only [Peer.applyMsg] <;> split <;> rfl

theorem categorize_frame {s s1 : St} {p : Nat} {st st1 : Peer} (h : categorize s p st = some (s1, st1)) :
    s1.peers = s.peers ∧ st1.errorCount = st.errorCount := by
  unfold categorize at h
  split at h
  · simp only [banPeer, Option.some.injEq, Prod.mk.injEq] at h; obtain ⟨rfl, rfl⟩ := h; exact ⟨rfl, rfl⟩
  · split at h
    · simp only [banPeer, Option.some.injEq, Prod.mk.injEq] at h; obtain ⟨rfl, rfl⟩ := h; exact ⟨rfl, rfl⟩
    · split at h
      · cases h
      · split at h
        · unfold promoteCold at h
          split at h <;> (simp only [Option.some.injEq, Prod.mk.injEq] at h; obtain ⟨rfl, rfl⟩ := h; exact ⟨rfl, rfl⟩)
        · split at h
          · cases h
          · split at h
            · unfold promoteWarm at h
              split at h <;> (simp only [Option.some.injEq, Prod.mk.injEq] at h; obtain ⟨rfl, rfl⟩ := h; exact ⟨rfl, rfl⟩)
            · simp only [Option.some.injEq, Prod.mk.injEq] at h; obtain ⟨rfl, rfl⟩ := h; exact ⟨rfl, rfl⟩

theorem onPeerDiscovered_frame {s s1 : St} {p : Nat} {st st1 : Peer}
    (h : onPeerDiscovered s p st = some (s1, st1)) :
    s1.peers = s.peers ∧ st1.errorCount = st.errorCount := by
  unfold onPeerDiscovered at h
  split at h
  · simp only [Option.some.injEq, Prod.mk.injEq] at h; obtain ⟨rfl, rfl⟩ := h; exact ⟨rfl, rfl⟩
  · split at h
    · simp only [Option.some.injEq, Prod.mk.injEq] at h; obtain ⟨rfl, rfl⟩ := h; exact ⟨rfl, rfl⟩
    · split at h
      · cases h
      · split at h <;> (simp only [Option.some.injEq, Prod.mk.injEq] at h; obtain ⟨rfl, rfl⟩ := h; exact ⟨rfl, rfl⟩)

theorem connectionHk_err (p : Nat) (st : Peer) : (connectionHk p st).1.errorCount = st.errorCount := by
  unfold connectionHk
  cases hn : needsConnection st
  · simp only [Bool.false_eq_true, if_false]; split <;> rfl
  · simp only [if_true]; split <;> rfl

theorem handshakeInbound_err (p : Nat) (st : Peer) : (handshakeInbound p st).1.errorCount = st.errorCount := by
  unfold handshakeInbound; split
  · split <;> rfl
  · rfl

theorem discoveryInbound_err (s : St) (st : Peer) : (discoveryInbound s st).2.errorCount = st.errorCount := by
  unfold discoveryInbound; split
  · split <;> rfl
  · rfl

theorem chainsyncInbound_err (p : Nat) (st : Peer) : (chainsyncInbound p st).1.errorCount = st.errorCount := by
  unfold chainsyncInbound; split
  · rfl
  · split
    · rfl
    · split <;> rfl

theorem leiosnotifyInbound_err (p : Nat) (st : Peer) : (leiosnotifyInbound p st).1.errorCount = st.errorCount := by
  unfold leiosnotifyInbound; split <;> rfl

theorem leiosfetchInbound_err (p : Nat) (st : Peer) : (leiosfetchInbound p st).1.errorCount = st.errorCount := by
  unfold leiosfetchInbound; split <;> rfl

theorem hkPeer_err {n : Nat} {s f : St} {p : Nat} (h : hkPeer s p = some f) (e : ErrLe n s) : ErrLe n f := by
  unfold hkPeer at h
  cases hp : s.peers p with
  | none => simp only [hp, Option.some.injEq] at h; subst h; exact e
  | some st =>
    simp only [hp] at h
    cases hc : categorize s p st with
    | none => simp only [hc] at h; cases h
    | some r =>
      obtain ⟨s1, st1⟩ := r
      simp only [hc] at h
      obtain ⟨hpe, her⟩ := categorize_frame hc
      cases hd : discoveryHk s1 p (connectionHk p st1).1 with
      | none => simp only [hd] at h; cases h
      | some o =>
        simp only [hd, Option.some.injEq] at h
        subst h
        refine ErrLe.set (p := p) (st' := (connectionHk p st1).1) e ?_ ?_
        · simp only [leiosfetchHk_peers, blockfetchHk_peers, hpe]
        · rw [connectionHk_err, her]; exact e p st hp

theorem hkAll_err {n : Nat} (ord : List Nat) {s f : St} (h : hkAll s ord = some f) (e : ErrLe n s) : ErrLe n f := by
  induction ord generalizing s with
  | nil => simp only [hkAll, Option.some.injEq] at h; subst h; exact e
  | cons p ps ih =>
    unfold hkAll at h
    cases h1 : hkPeer s p with
    | none => simp only [h1] at h; cases h
    | some s1 => simp only [h1] at h; exact ih h (hkPeer_err h1 e)

theorem onDiscovered_err {n : Nat} {s f : St} {p : Nat} (h : onDiscovered s p = some f) (e : ErrLe n s) : ErrLe n f := by
  unfold onDiscovered at h
  cases hc : onPeerDiscovered s p {} with
  | none => simp only [hc] at h; cases h
  | some r =>
    obtain ⟨s1, st1⟩ := r
    simp only [hc, Option.some.injEq] at h
    subst h
    obtain ⟨hpe, her⟩ := onPeerDiscovered_frame hc
    refine ErrLe.set (p := p) (st' := st1) e ?_ ?_
    · simp only [hpe]
    · rw [her]; exact Nat.zero_le n

theorem discAll_err {n : Nat} (sel : List Nat) {s f : St} (h : discAll s sel = some f) (e : ErrLe n s) : ErrLe n f := by
  induction sel generalizing s with
  | nil => simp only [discAll, Option.some.injEq] at h; subst h; exact e
  | cons q qs ih =>
    unfold discAll at h
    split at h
    · exact ih h e
    · cases h1 : onDiscovered s q with
      | none => simp only [h1] at h; cases h
      | some s1 => simp only [h1] at h; exact ih h (onDiscovered_err h1 e)

theorem moveDiscovered_err {n : Nat} {s f : St} {taken : List Nat} (h : moveDiscovered s taken = some f)
    (e : ErrLe n s) : ErrLe n f := by
  unfold moveDiscovered at h
  split at h
  · cases h
  · split at h
    · simp only [Option.some.injEq] at h; subst h; exact e
    · exact discAll_err _ h (e.same rfl)

theorem housekeeping_err {n : Nat} {s f : St} {ord taken : List Nat} (h : housekeeping s ord taken = some f)
    (e : ErrLe n s) : ErrLe n f := by
  unfold housekeeping at h
  cases h1 : hkAll s ord with
  | none => simp only [h1] at h; cases h
  | some s1 => simp only [h1] at h; exact moveDiscovered_err h (hkAll_err ord h1 e)

theorem inboundMsg_err {n : Nat} {s f : St} {p : Nat} {m : Msg} (h : inboundMsg s p m = some f) (e : ErrLe n s) :
    ErrLe n f := by
  unfold inboundMsg at h
  cases hp : s.peers p with
  | none => simp only [hp, Option.some.injEq] at h; subst h; exact e
  | some st =>
    simp only [hp] at h
    cases hc : categorize s p (st.applyMsg m) with
    | none => simp only [hc] at h; cases h
    | some r =>
      obtain ⟨s1, st1⟩ := r
      simp only [hc, Option.some.injEq] at h
      subst h
      obtain ⟨hpe, her⟩ := categorize_frame hc
      refine ErrLe.set (p := p) (st' := (leiosfetchInbound p (leiosnotifyInbound p (chainsyncInbound p
          (discoveryInbound s1 (handshakeInbound p st1).1).2).1).1).1) e ?_ ?_
      · simp only [discoveryInbound_peers, hpe]
      · rw [leiosfetchInbound_err, leiosnotifyInbound_err, chainsyncInbound_err, discoveryInbound_err,
          handshakeInbound_err, her, applyMsg_err]
        exact e p st hp

theorem inboundAll_err {n : Nat} (ms : List Msg) {s f : St} {p : Nat} (h : inboundAll s p ms = some f)
    (e : ErrLe n s) : ErrLe n f := by
  induction ms generalizing s with
  | nil => simp only [inboundAll, Option.some.injEq] at h; subst h; exact e
  | cons m ms ih =>
    unfold inboundAll at h
    cases h1 : inboundMsg s p m with
    | none => simp only [h1] at h; cases h
    | some s1 => simp only [h1] at h; exact ih h (inboundMsg_err h1 e)

theorem onTagged_err {n : Nat} {s : St} (p : Nat) (f : Peer → Peer) (hf : ∀ st, (f st).errorCount = st.errorCount)
    (e : ErrLe n s) : ErrLe n (onTagged s p f) := by
  unfold onTagged
  cases hp : s.peers p with
  | none => exact e
  | some st =>
    dsimp only
    split
    · exact ErrLe.set (p := p) (st' := (banPeer s p (f st)).2) e rfl (by rw [show (banPeer s p (f st)).2.errorCount = (f st).errorCount from rfl, hf]; exact e p st hp)
    · exact ErrLe.set (p := p) (st' := f st) e rfl (by rw [hf]; exact e p st hp)

/-- one event: the bound grows by at most one -/
theorem step_err {n : Nat} {s f : St} {e : Ev} (h : step s e = some f) (he : ErrLe n s) : ErrLe (n + 1) f := by
  have he0 : ErrLe n { s with out := [] } := he.same rfl
  unfold step at h
  cases e with
  | includePeer p =>
    dsimp only at h
    split at h
    · simp only [Option.some.injEq] at h; subst h; exact he0.mono (Nat.le_succ n)
    · exact (onDiscovered_err h he0).mono (Nat.le_succ n)
  | housekeeping ord taken => exact (housekeeping_err h he0).mono (Nat.le_succ n)
  | idle ord taken => exact (housekeeping_err h he0).mono (Nat.le_succ n)
  | startSync => simp only [Option.some.injEq] at h; subst h; exact (he0.same rfl).mono (Nat.le_succ n)
  | continueSync p =>
    simp only [Option.some.injEq] at h; subst h
    exact (onTagged_err p (fun st => { st with continueSync := true }) (fun _ => rfl) he0).mono (Nat.le_succ n)
  | requestBlocks r => simp only [Option.some.injEq] at h; subst h; exact (he0.same rfl).mono (Nat.le_succ n)
  | sendTx => simp only [Option.some.injEq] at h; subst h; exact he0.mono (Nat.le_succ n)
  | fetchEb p eb => simp only [Option.some.injEq] at h; subst h; exact (he0.same rfl).mono (Nat.le_succ n)
  | fetchEbTxs p eb => simp only [Option.some.injEq] at h; subst h; exact (he0.same rfl).mono (Nat.le_succ n)
  | banPeer p =>
    simp only [Option.some.injEq] at h; subst h
    refine (onTagged_err p (fun st => { st with tag := .banned }) (fun _ => rfl) ?_).mono (Nat.le_succ n)
    split
    · exact he0
    · exact he0.same rfl
  | demotePeer p =>
    simp only [Option.some.injEq] at h; subst h
    exact (onTagged_err p (fun st => { st with tag := .cold }) (fun _ => rfl) he0).mono (Nat.le_succ n)
  | connected p =>
    simp only [Option.some.injEq] at h; subst h
    unfold onConnected
    split
    · exact he0.mono (Nat.le_succ n)
    · rename_i st hp
      exact (ErrLe.set (p := p) (st' := { st with conn := .connected }) he0 rfl (he p st hp)).mono (Nat.le_succ n)
  | disconnected p =>
    simp only [Option.some.injEq] at h; subst h
    unfold onDisconnected
    split
    · exact he0.mono (Nat.le_succ n)
    · rename_i st hp
      exact (ErrLe.set (p := p) (s := { s with out := [] }) (st' := st.reset) he0 rfl (he p st hp)).mono (Nat.le_succ n)
  | recv p ms => exact (inboundAll_err ms h he0).mono (Nat.le_succ n)
  | sent p m =>
    simp only [Option.some.injEq] at h; subst h
    unfold outboundMsg
    split
    · exact he0.mono (Nat.le_succ n)
    · rename_i st hp
      exact (ErrLe.set (p := p) (st' := st.applyMsg m) he0 rfl (by rw [applyMsg_err]; exact he p st hp)).mono (Nat.le_succ n)
  | error p =>
    dsimp only at h
    unfold onErrored at h
    split at h
    · simp only [Option.some.injEq] at h; subst h; exact he0.mono (Nat.le_succ n)
    · rename_i st hp
      split at h
      · simp only [Option.some.injEq] at h; subst h
        exact ErrLe.set (p := p) (s := { s with out := [] }) (st' := { st with conn := .errored, errorCount := st.errorCount + 1 })
          (he0.mono (Nat.le_succ n)) rfl (Nat.succ_le_succ (he p st hp))
      · cases h

/-- histories: the invariant and the error bound along `run` -/
theorem run_good (cfg : Cfg) :
    ∀ (h : List Ev) (s : St) (n : Nat), Inv s → ErrLe n s → n + h.length < u32Bound →
      ∃ f, run s h = some f ∧ Inv f ∧ ErrLe (n + h.length) f := by
  intro h
  induction h with
  | nil => intro s n hi he _; exact ⟨s, rfl, hi, he⟩
  | cons e es ih =>
    intro s n hi he hl
    simp only [List.length_cons] at hl
    have hr : ErrRoom s e := by
      intro p st _ hp
      have := he p st hp
      omega
    obtain ⟨f1, h1, g1⟩ := step_good e hi hr
    obtain ⟨f, h2, hi2, he2⟩ := ih f1 (n + 1) g1.inv (step_err h1 he) (by omega)
    refine ⟨f, ?_, hi2, ?_⟩
    · simp only [run, h1, h2]
    · simp only [List.length_cons]; rw [show n + (es.length + 1) = n + 1 + es.length by omega]; exact he2

theorem init_inv (cfg : Cfg) : Inv (St.init cfg) := by
  refine ⟨?_, ?_⟩
  · constructor <;> simp [St.init]
  · intro p st hp; simp [St.init] at hp

theorem init_err (cfg : Cfg) : ErrLe 0 (St.init cfg) := by
  intro p st hp; simp [St.init] at hp

end PallasVerif.P2P
