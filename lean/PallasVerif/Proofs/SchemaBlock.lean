import PallasVerif.Proofs.SchemaHand
/-!
  Isomorphism on chain data, for the shape every post-Byron block has
  (`[header, [* body], [* witness set], {* index => aux data}, ? [* index]]` with `KeepRaw`
  around header, bodies, witness sets and auxiliary data): if the glue between the retained
  raw parts is canonical, whatever the decoder accepts is re-encoded item for item.
-/
namespace PallasVerif.Schema
open PallasVerif.Cbor

/-! small facts, stated on the named leaf functions so that `simp` does not unfold them -/

theorem dec_uint32 (env : Env) (n : Nat) : dec env (n + 1) (.uint 32) = decUInt 32 := by funext x; simp [dec]
theorem enc_uint32 (env : Env) (n : Nat) : enc env (n + 1) (.uint 32) = encUInt 32 := by funext x; simp [enc]
theorem dec_keepRaw (env : Env) (n : Nat) (s : Schema) : dec env (n + 1) (.keepRaw s) = decKeepRaw (dec env n s) := by
  funext x; simp [dec]
theorem enc_keepRaw (env : Env) (n : Nat) (s : Schema) : enc env (n + 1) (.keepRaw s) = encKeepRaw (enc env n s) := by
  funext x; simp [enc]

theorem decUInt_mkUInt (k : Nat) (hk : k < 2 ^ 32) : decUInt 32 (mkUInt k) = some (.nat k) := by
  simp [decUInt, mkUInt_uint k (by omega), hk]
theorem encUInt_nat (k : Nat) (hk : k < 2 ^ 32) : encUInt 32 (.nat k) = some (mkUInt k) := by
  simp [encUInt, hk]
theorem decKeepRaw_some {d : Item → Option Value} {a : Item} {w : Value} (h : decKeepRaw d a = some w) :
    ∃ y, w = .raw (some a) y := by
  simp only [decKeepRaw, Option.map_eq_some_iff] at h
  obtain ⟨y, _, rfl⟩ := h
  exact ⟨y, rfl⟩
theorem encKeepRaw_raw (e : Value → Option Item) (a : Item) (y : Value) : encKeepRaw e (.raw (some a) y) = some a := rfl

theorem mapOpt_keepraw_iso (d : Item → Option Value) (e : Value → Option Item) :
    ∀ (xs : List Item) (vs : List Value), mapOpt (decKeepRaw d) xs = some vs →
      vs.length = xs.length ∧ mapOpt (encKeepRaw e) vs = some xs := by
  intro xs
  induction xs with
  | nil => intro vs h; simp [mapOpt] at h; subst h; exact ⟨rfl, rfl⟩
  | cons y ys ih =>
    intro vs h
    simp only [mapOpt] at h
    cases h1 : decKeepRaw d y with
    | none => simp [h1] at h
    | some w =>
      cases h2 : mapOpt (decKeepRaw d) ys with
      | none => simp [h1, h2] at h
      | some ws =>
        simp only [h1, h2, Option.some.injEq] at h
        subst h
        obtain ⟨x, rfl⟩ := decKeepRaw_some h1
        obtain ⟨l, e'⟩ := ih ws h2
        exact ⟨by simp [l], by simp only [mapOpt, encKeepRaw_raw, e']⟩

/-- a `MaybeIndefArray<KeepRaw<T>>` re-encodes a minimal definite array and *any* indefinite array -/
theorem maybeIndef_keepraw_iso (env : Env) (n : Nat) (s : Schema) (xs : List Item) (it : Item) (v : Value)
    (hshape : (it = mkArray xs ∧ xs.length < 2 ^ 64) ∨ it = .seqIndef 4 xs)
    (h : dec env (n + 2) (.maybeIndef (.keepRaw s)) it = some v) :
    enc env (n + 2) (.maybeIndef (.keepRaw s)) v = some it := by
  have hd : dec env (n + 2) (.maybeIndef (.keepRaw s)) = decMaybeIndef (decKeepRaw (dec env n s)) := by
    funext x; simp only [dec]
  have he : enc env (n + 2) (.maybeIndef (.keepRaw s)) = encMaybeIndef (encKeepRaw (enc env n s)) := by
    funext x; simp only [enc]
  rw [hd] at h
  rw [he]
  rcases hshape with ⟨rfl, hl⟩ | rfl
  · simp only [decMaybeIndef, mkArray_typeOf, if_true, decVec, decVecItems, mkArray_items] at h
    cases hm : mapOpt (decKeepRaw (dec env n s)) xs with
    | none => simp [hm] at h
    | some vs =>
      simp only [hm, Option.map_some, Option.some.injEq] at h
      subst h
      obtain ⟨l, e⟩ := mapOpt_keepraw_iso (dec env n s) (enc env n s) xs vs hm
      simp [encMaybeIndef, encVec, l, hl, e]
  · have ht : typeOf (Item.seqIndef 4 xs) = .arrayIndef := by simp [typeOf]
    have ht2 : ¬ (Ty.arrayIndef = Ty.array) := by decide
    simp only [decMaybeIndef, ht, ht2, if_false, if_true, decVec, decVecItems, Item.arrayItems?] at h
    cases hm : mapOpt (decKeepRaw (dec env n s)) xs with
    | none => simp [hm] at h
    | some vs =>
      simp only [hm, Option.map_some, Option.some.injEq] at h
      subst h
      obtain ⟨l, e⟩ := mapOpt_keepraw_iso (dec env n s) (enc env n s) xs vs hm
      simp [encMaybeIndef, e]

/-- entries `index => KeepRaw<T>` with minimally encoded keys -/
def auxPairs (kas : List (Nat × Item)) : List (Item × Item) := kas.map (fun p => (mkUInt p.1, p.2))

theorem auxPairs_iso (dA : Item → Option Value) (eA : Value → Option Item) :
    ∀ (kas : List (Nat × Item)) (kvs : List Value), (∀ p, p ∈ kas → p.1 < 2 ^ 32) →
      mapOpt (decPair (decUInt 32) (decKeepRaw dA)) (auxPairs kas) = some kvs →
      kvs.map keyOf = kas.map (fun p => Value.nat p.1) ∧ allPairs kvs = true ∧ kvs.length = kas.length ∧
      mapOpt (encPair (encUInt 32) (encKeepRaw eA)) kvs = some (auxPairs kas) := by
  intro kas
  induction kas with
  | nil => intro kvs _ h; simp [auxPairs, mapOpt] at h; subst h; exact ⟨rfl, rfl, rfl, rfl⟩
  | cons q kas ih =>
    intro kvs hb h
    obtain ⟨k, a⟩ := q
    have hk : k < 2 ^ 32 := hb (k, a) (by simp)
    have hcons : auxPairs ((k, a) :: kas) = (mkUInt k, a) :: auxPairs kas := rfl
    rw [hcons] at h ⊢
    simp only [mapOpt] at h
    cases h1 : decPair (decUInt 32) (decKeepRaw dA) (mkUInt k, a) with
    | none => simp [h1] at h
    | some w =>
      cases h2 : mapOpt (decPair (decUInt 32) (decKeepRaw dA)) (auxPairs kas) with
      | none => simp [h1, h2] at h
      | some ws =>
        simp only [h1, h2, Option.some.injEq] at h
        subst h
        obtain ⟨e1, e2, e3, e4⟩ := ih ws (fun p hp => hb p (by simp [hp])) h2
        simp only [decPair, decUInt_mkUInt k hk] at h1
        cases h3 : decKeepRaw dA a with
        | none => simp [h3] at h1
        | some x =>
          simp only [h3, Option.some.injEq] at h1
          subst h1
          obtain ⟨y, rfl⟩ := decKeepRaw_some h3
          refine ⟨by simp [keyOf, e1], by simp [allPairs, isPair, e2], by simp [e3], ?_⟩
          simp only [mapOpt, encPair, encUInt_nat k hk, encKeepRaw_raw, e4]

theorem auxmap_iso (env : Env) (n : Nat) (A : Schema) (kas : List (Nat × Item)) (v : Value)
    (hb : ∀ p, p ∈ kas → p.1 < 2 ^ 32) (hs : strictSorted (kas.map (fun p => Value.nat p.1)) = true)
    (hl : kas.length < 2 ^ 64)
    (h : dec env (n + 2) (.btmap (.uint 32) (.keepRaw A)) (mkMapFlat (flattenPairs (auxPairs kas))) = some v) :
    enc env (n + 2) (.btmap (.uint 32) (.keepRaw A)) v = some (mkMapFlat (flattenPairs (auxPairs kas))) := by
  have hd : dec env (n + 2) (.btmap (.uint 32) (.keepRaw A)) =
      decBTMap (decUInt 32) (decKeepRaw (dec env n A)) := by
    funext x; simp only [dec]
  have he : enc env (n + 2) (.btmap (.uint 32) (.keepRaw A)) =
      encBTMap (encUInt 32) (encKeepRaw (enc env n A)) := by
    funext x; simp only [enc]
  rw [hd] at h
  rw [he]
  simp only [decBTMap, mkMapFlat_entries] at h
  cases hm : mapOpt (decPair (decUInt 32) (decKeepRaw (dec env n A))) (auxPairs kas) with
  | none => simp [hm] at h
  | some kvs =>
    simp only [hm, Option.some.injEq] at h
    obtain ⟨e1, e2, e3, e4⟩ := auxPairs_iso (dec env n A) (enc env n A) kas kvs hb hm
    have hf := foldl_insert_sorted kvs [] e2 rfl (fun a ha => by simp at ha) (by rw [e1]; exact hs)
    simp only [List.nil_append] at hf
    rw [hf] at h
    subst h
    simp [encBTMap, e3, hl, e1, hs, e4]

theorem mapOpt_decUInt (idxs : List Nat) (hb : ∀ i, i ∈ idxs → i < 2 ^ 32) :
    mapOpt (decUInt 32) (idxs.map mkUInt) = some (idxs.map Value.nat) := by
  induction idxs with
  | nil => rfl
  | cons i r ih =>
    simp only [List.map_cons, mapOpt, decUInt_mkUInt i (hb i (by simp)), ih (fun j hj => hb j (by simp [hj]))]

theorem mapOpt_encUInt (idxs : List Nat) (hb : ∀ i, i ∈ idxs → i < 2 ^ 32) :
    mapOpt (encUInt 32) (idxs.map Value.nat) = some (idxs.map mkUInt) := by
  induction idxs with
  | nil => rfl
  | cons i r ih =>
    simp only [List.map_cons, mapOpt, encUInt_nat i (hb i (by simp)), ih (fun j hj => hb j (by simp [hj]))]

/-- the invalid-transaction list, minimally encoded, is reproduced (no hypothesis on decoding needed) -/
theorem invalid_iso (env : Env) (n : Nat) (idxs : List Nat) (hb : ∀ i, i ∈ idxs → i < 2 ^ 32) (hl : idxs.length < 2 ^ 64) :
    dec env (n + 3) (.opt (.vec (.uint 32))) (mkArray (idxs.map mkUInt)) = some (.some (.list (idxs.map Value.nat))) ∧
      enc env (n + 3) (.opt (.vec (.uint 32))) (.some (.list (idxs.map Value.nat))) = some (mkArray (idxs.map mkUInt)) := by
  have hd : dec env (n + 3) (.opt (.vec (.uint 32))) = decOpt (decVec (decUInt 32)) := by
    funext x; simp only [dec]
  have he : enc env (n + 3) (.opt (.vec (.uint 32))) = encOpt (encVec (encUInt 32)) := by
    funext x; simp only [enc]
  rw [hd, he]
  have ht : typeOf (mkArray (idxs.map mkUInt)) ≠ .null := by simp [mkArray_typeOf]
  constructor
  · simp [decOpt, ht, decVec, decVecItems, mkArray_items, mapOpt_decUInt idxs hb]
  · simp [encOpt, encVec, hl, mapOpt_encUInt idxs hb]

theorem keepraw_iso (env : Env) (n : Nat) (s : Schema) (it : Item) (v : Value)
    (h : dec env (n + 1) (.keepRaw s) it = some v) : enc env (n + 1) (.keepRaw s) v = some it := by
  rw [dec_keepRaw] at h
  rw [enc_keepRaw]
  obtain ⟨y, rfl⟩ := decKeepRaw_some h
  rfl

/-! ## the block shape -/

/-- `Block { header: KeepRaw<H>, transaction_bodies: MaybeIndefArray<KeepRaw<B>>,
    transaction_witness_sets: MaybeIndefArray<KeepRaw<W>>,
    auxiliary_data_set: BTreeMap<u32, KeepRaw<A>>, invalid_transactions: Option<Vec<u32>> }` -/
def blockSchema (H B W A : Schema) : Schema :=
  .struct .array none [(0, .keepRaw H), (1, .maybeIndef (.keepRaw B)), (2, .maybeIndef (.keepRaw W)),
    (3, .btmap (.uint 32) (.keepRaw A)), (4, .opt (.vec (.uint 32)))]

/-- an array written with a minimal definite head, or with the indefinite head -/
def ArrOf (it : Item) (xs : List Item) : Prop :=
  (it = mkArray xs ∧ xs.length < 2 ^ 64) ∨ it = .seqIndef 4 xs

/-- the optional fifth element: a minimally encoded list of transaction indices -/
def invItems : Option (List Nat) → List Item
  | none => []
  | some idxs => [mkArray (idxs.map mkUInt)]

theorem decArr_here (d : Schema → Item → Option Value) (pos : Nat) (s : Schema) (fs : List (Nat × Schema))
    (it : Item) (rest : List Item) :
    decArr d pos ((pos, s) :: fs) (it :: rest) =
      (match d s it, decArr d (pos + 1) fs rest with
       | some v, some vs => some (v :: vs)
       | _, _ => none) := by
  simp only [decArr, Nat.sub_self, List.drop_zero, List.take_zero, utf8OkList, if_true]
  rfl

theorem decArr_end_opt (d : Schema → Item → Option Value) (pos idx : Nat) (s : Schema) :
    decArr d pos [(idx, .opt s)] [] = some [Value.none] := by
  simp [decArr, Schema.isOpt, utf8OkList]

theorem encArr_here (e : Schema → Value → Option Item) (pos : Nat) (s : Schema) (fs : List (Nat × Schema))
    (v : Value) (vs : List Value) (hn : isNilField s v = false) :
    encArr e true pos ((pos, s) :: fs) (v :: vs) =
      (match e s v, encArr e true (pos + 1) fs vs with
       | some it, some rest => some (it :: rest)
       | _, _ => none) := by
  simp only [encArr, allNil, hn, Bool.false_and, Bool.and_false, Nat.lt_irrefl, if_false, Nat.sub_self,
    List.replicate_zero, List.nil_append]
  rfl

theorem encArr_end_nil (e : Schema → Value → Option Item) (pos idx : Nat) (s : Schema) :
    encArr e true pos [(idx, .opt s)] [Value.none] = some [] := by
  simp [encArr, allNil, isNilField, Schema.isOpt]

theorem notNil_keepRaw (s : Schema) (v : Value) : isNilField (.keepRaw s) v = false := by simp [isNilField, Schema.isOpt]
theorem notNil_maybeIndef (s : Schema) (v : Value) : isNilField (.maybeIndef s) v = false := by simp [isNilField, Schema.isOpt]
theorem notNil_btmap (k x : Schema) (v : Value) : isNilField (.btmap k x) v = false := by simp [isNilField, Schema.isOpt]
theorem notNil_some (s : Schema) (v : Value) : isNilField (.opt s) (.some v) = false := by simp [isNilField]

/-- the struct layer of the block, for arbitrary field codecs `d` / `e` that invert each other
    on the five items -/
theorem block_struct_iso (d : Schema → Item → Option Value) (e : Schema → Value → Option Item)
    (H B W A : Schema) (hdr bodies wits aux : Item) (inv : Option (List Nat)) (v : Value)
    (e0 : ∀ x, d (.keepRaw H) hdr = some x → e (.keepRaw H) x = some hdr)
    (e1 : ∀ x, d (.maybeIndef (.keepRaw B)) bodies = some x → e (.maybeIndef (.keepRaw B)) x = some bodies)
    (e2 : ∀ x, d (.maybeIndef (.keepRaw W)) wits = some x → e (.maybeIndef (.keepRaw W)) x = some wits)
    (e3 : ∀ x, d (.btmap (.uint 32) (.keepRaw A)) aux = some x → e (.btmap (.uint 32) (.keepRaw A)) x = some aux)
    (e4 : ∀ idxs, inv = some idxs →
      d (.opt (.vec (.uint 32))) (mkArray (idxs.map mkUInt)) = some (.some (.list (idxs.map Value.nat))) ∧
      e (.opt (.vec (.uint 32))) (.some (.list (idxs.map Value.nat))) = some (mkArray (idxs.map mkUInt)))
    (hd : decStruct d .array none
      [(0, .keepRaw H), (1, .maybeIndef (.keepRaw B)), (2, .maybeIndef (.keepRaw W)),
        (3, .btmap (.uint 32) (.keepRaw A)), (4, .opt (.vec (.uint 32)))]
      (mkArray ([hdr, bodies, wits, aux] ++ invItems inv)) = some v) :
    encStruct e .array none
      [(0, .keepRaw H), (1, .maybeIndef (.keepRaw B)), (2, .maybeIndef (.keepRaw W)),
        (3, .btmap (.uint 32) (.keepRaw A)), (4, .opt (.vec (.uint 32)))] v
      = some (mkArray ([hdr, bodies, wits, aux] ++ invItems inv)) := by
  simp only [decStruct, unwrapTag, mkArray_items] at hd
  cases inv with
  | none =>
    simp only [invItems, List.append_nil] at hd ⊢
    rw [decArr_here, decArr_here, decArr_here, decArr_here, decArr_end_opt] at hd
    cases h0 : d (.keepRaw H) hdr with
    | none => simp [h0] at hd
    | some v0 =>
    cases h1 : d (.maybeIndef (.keepRaw B)) bodies with
    | none => simp [h0, h1] at hd
    | some v1 =>
    cases h2 : d (.maybeIndef (.keepRaw W)) wits with
    | none => simp [h0, h1, h2] at hd
    | some v2 =>
    cases h3 : d (.btmap (.uint 32) (.keepRaw A)) aux with
    | none => simp [h0, h1, h2, h3] at hd
    | some v3 =>
    simp only [h0, h1, h2, h3, Option.map_some, Option.some.injEq] at hd
    subst hd
    simp only [encStruct]
    rw [encArr_here _ _ _ _ _ _ (notNil_keepRaw _ _), encArr_here _ _ _ _ _ _ (notNil_maybeIndef _ _),
      encArr_here _ _ _ _ _ _ (notNil_maybeIndef _ _), encArr_here _ _ _ _ _ _ (notNil_btmap _ _ _), encArr_end_nil]
    simp only [e0 v0 h0, e1 v1 h1, e2 v2 h2, e3 v3 h3, Option.map_some, wrapTag]
  | some idxs =>
    obtain ⟨d4, e4'⟩ := e4 idxs rfl
    simp only [invItems, List.cons_append, List.nil_append] at hd ⊢
    rw [decArr_here, decArr_here, decArr_here, decArr_here, decArr_here] at hd
    cases h0 : d (.keepRaw H) hdr with
    | none => simp [h0] at hd
    | some v0 =>
    cases h1 : d (.maybeIndef (.keepRaw B)) bodies with
    | none => simp [h0, h1] at hd
    | some v1 =>
    cases h2 : d (.maybeIndef (.keepRaw W)) wits with
    | none => simp [h0, h1, h2] at hd
    | some v2 =>
    cases h3 : d (.btmap (.uint 32) (.keepRaw A)) aux with
    | none => simp [h0, h1, h2, h3] at hd
    | some v3 =>
    simp only [h0, h1, h2, h3, d4, decArr, utf8OkList, if_true, Option.map_some, Option.some.injEq] at hd
    subst hd
    simp only [encStruct]
    rw [encArr_here _ _ _ _ _ _ (notNil_keepRaw _ _), encArr_here _ _ _ _ _ _ (notNil_maybeIndef _ _),
      encArr_here _ _ _ _ _ _ (notNil_maybeIndef _ _), encArr_here _ _ _ _ _ _ (notNil_btmap _ _ _),
      encArr_here _ _ _ _ _ _ (notNil_some _ _)]
    simp only [e0 v0 h0, e1 v1 h1, e2 v2 h2, e3 v3 h3, e4', encArr, Option.map_some, wrapTag]

/-- **Block isomorphism.** A block item whose glue is canonical — the outer array and the
    auxiliary-data map have minimal definite heads, the map keys are minimally encoded `u32`s in
    strictly increasing order, the body / witness arrays are minimal-definite or indefinite, the
    invalid-transaction list (if present) is minimal — and that the typed decoder accepts, is
    re-encoded to exactly the same item, whatever is inside header, bodies, witness sets and
    auxiliary data (canonical or not: those are `KeepRaw`). -/
theorem block_iso (env : Env) (n : Nat) (H B W A : Schema) (hdr bodies wits : Item) (bx wx : List Item)
    (kas : List (Nat × Item)) (inv : Option (List Nat)) (v : Value)
    (hb : ArrOf bodies bx) (hw : ArrOf wits wx)
    (hk : ∀ p, p ∈ kas → p.1 < 2 ^ 32) (hs : strictSorted (kas.map (fun p => Value.nat p.1)) = true)
    (hl : kas.length < 2 ^ 64)
    (hi : ∀ idxs, inv = some idxs → (∀ i, i ∈ idxs → i < 2 ^ 32) ∧ idxs.length < 2 ^ 64)
    (hd : dec env (n + 4) (blockSchema H B W A)
      (mkArray ([hdr, bodies, wits, mkMapFlat (flattenPairs (auxPairs kas))] ++ invItems inv)) = some v) :
    enc env (n + 4) (blockSchema H B W A) v
      = some (mkArray ([hdr, bodies, wits, mkMapFlat (flattenPairs (auxPairs kas))] ++ invItems inv)) := by
  have hdS : dec env (n + 4) (blockSchema H B W A) = decStruct (dec env (n + 3)) .array none
      [(0, .keepRaw H), (1, .maybeIndef (.keepRaw B)), (2, .maybeIndef (.keepRaw W)),
        (3, .btmap (.uint 32) (.keepRaw A)), (4, .opt (.vec (.uint 32)))] := by
    funext x; rfl
  have heS : enc env (n + 4) (blockSchema H B W A) = encStruct (enc env (n + 3)) .array none
      [(0, .keepRaw H), (1, .maybeIndef (.keepRaw B)), (2, .maybeIndef (.keepRaw W)),
        (3, .btmap (.uint 32) (.keepRaw A)), (4, .opt (.vec (.uint 32)))] := by
    funext x; rfl
  rw [hdS] at hd
  rw [heS]
  exact block_struct_iso (dec env (n + 3)) (enc env (n + 3)) H B W A hdr bodies wits _ inv v
    (fun x h => keepraw_iso env (n + 2) H hdr x h)
    (fun x h => maybeIndef_keepraw_iso env (n + 1) B bx bodies x hb h)
    (fun x h => maybeIndef_keepraw_iso env (n + 1) W wx wits x hw h)
    (fun x h => auxmap_iso env (n + 1) A kas x hk hs hl h)
    (fun idxs hidx => invalid_iso env n idxs (hi idxs hidx).1 (hi idxs hidx).2)
    hd

end PallasVerif.Schema
