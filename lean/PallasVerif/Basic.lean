def hello := "world"
