import PallasVerif.Model.Cbor
import PallasVerif.Model.PlutusData
import PallasVerif.Model.Blake2b
/-
  C08 — model of `pallas-primitives/src/conway/script_data.rs` and of the encoders it calls.
  Import-free apart from the L1 CBOR layer, the PlutusData model and BLAKE2b.

  * `LanguageViews`        : `BTreeMap<u8, CostModel>` as an association list with strictly ascending
                             keys (`insert` / `fromList` = `BTreeMap::insert` / `FromIterator`).
  * `canonicalOrder`, `viewsItem`, `viewsBytes` : `impl Encode for LanguageViews`, arm by arm
                             (non-zero keys sorted, then 0; V1 key = the bytes `41 00`, V1 value = a byte
                             string holding an indefinite list; others uint key + definite list).
  * `Redeemers`, `redeemersItem` : `Redeemers::{List, Map}` with the derived array encodings of
                             `Redeemer`, `RedeemersKey`, `RedeemersValue`, `ExUnits` (the map is a `BTreeMap`
                             ordered by (tag, index)).
  * `hash`                 : `ScriptData::hash`.
  * `buildFor`             : `ScriptData::build_for` on the three inputs it reads (redeemer bytes,
                             datum bytes, language views).
  * `wsBuildHash`          : witness-set bytes → `build_for(..).map(hash)`: the values of keys 4 and 5
                             of the witness-set map are located with the strict L1 parser; their original
                             bytes are `Item.encode` of the located subtree (bijection theorem).
-/
namespace PallasVerif.ScriptData
open PallasVerif.Cbor PallasVerif.PlutusData

abbrev CostModel := List Int

/-- `BTreeMap<u8, CostModel>`; invariant: keys strictly ascending (`keysAsc`) -/
abbrev LanguageViews := List (Nat × CostModel)

def keysAsc : List Nat → Bool
  | [] => true
  | [_] => true
  | a :: b :: r => decide (a < b) && keysAsc (b :: r)

/-- `BTreeMap::insert` -/
def insert (k : Nat) (v : CostModel) : LanguageViews → LanguageViews
  | [] => [(k, v)]
  | (k', v') :: r =>
    if k < k' then (k, v) :: (k', v') :: r
    else if k = k' then (k, v) :: r
    else (k', v') :: insert k v r

/-- `FromIterator<(PlutusVersion, CostModel)>` -/
def fromList (xs : List (Nat × CostModel)) : LanguageViews :=
  xs.foldl (fun m kv => insert kv.1 kv.2 m) []

def lookup (k : Nat) : LanguageViews → Option CostModel
  | [] => none
  | (k', v) :: r => if k = k' then some v else lookup k r

/-- insertion sort (`canonical_order.sort()`) -/
def sortInsert (k : Nat) : List Nat → List Nat
  | [] => [k]
  | x :: xs => if k ≤ x then k :: x :: xs else x :: sortInsert k xs

def sortNat : List Nat → List Nat
  | [] => []
  | x :: xs => sortInsert x (sortNat xs)

def keys (m : LanguageViews) : List Nat := m.map (·.1)

/-- the `canonical_order` vector of `impl Encode for LanguageViews`, from `self.0.keys()` -/
def orderOf (order : List Nat) : List Nat :=
  let c := sortNat (order.filter (· ≠ 0))
  if order.contains 0 then c ++ [0] else c

def canonicalOrder (m : LanguageViews) : List Nat := orderOf (keys m)

/-- key item written for language `lang` -/
def keyItem (lang : Nat) : Item := if lang = 0 then mkBytes [0x00] else mkUInt lang

/-- value item written for language `lang` -/
def valueItem (lang : Nat) (cm : CostModel) : Item :=
  if lang = 0 then mkBytes (Item.seqIndef 4 (cm.map mkInt)).encode else mkArray (cm.map mkInt)

def entryItems (m : LanguageViews) : List Nat → List Item
  | [] => []
  | l :: ls => keyItem l :: valueItem l ((lookup l m).getD []) :: entryItems m ls

def viewsItem (m : LanguageViews) : Item := .seq (minHead 5 m.length) (entryItems m (canonicalOrder m))

def viewsBytes (m : LanguageViews) : Bytes := (viewsItem m).encode

/-! ## redeemers -/

structure Redeemer where
  tag : Nat
  index : Nat
  data : PData
  mem : Nat
  steps : Nat
  deriving Inhabited

inductive Redeemers where
  /-- `Vec<Redeemer>` -/
  | list (rs : List Redeemer)
  /-- `BTreeMap<RedeemersKey, RedeemersValue>`: entries in ascending (tag, index) order -/
  | map (rs : List Redeemer)
  deriving Inhabited

def exUnitsItem (mem steps : Nat) : Item := mkArray [mkUInt mem, mkUInt steps]

def redeemerItem (r : Redeemer) : Item :=
  mkArray [mkUInt r.tag, mkUInt r.index, toItem r.data, exUnitsItem r.mem r.steps]

def redeemerKV (r : Redeemer) : List Item :=
  [mkArray [mkUInt r.tag, mkUInt r.index], mkArray [toItem r.data, exUnitsItem r.mem r.steps]]

def keyLt (a b : Redeemer) : Bool := decide (a.tag < b.tag) || (decide (a.tag = b.tag) && decide (a.index < b.index))
def keyEq (a b : Redeemer) : Bool := decide (a.tag = b.tag) && decide (a.index = b.index)

/-- `BTreeMap::insert` on the (tag, index) key -/
def rinsert (x : Redeemer) : List Redeemer → List Redeemer
  | [] => [x]
  | y :: r => if keyLt x y then x :: y :: r else if keyEq x y then x :: r else y :: rinsert x r

def Redeemers.mapOf (rs : List Redeemer) : Redeemers := .map (rs.foldl (fun m r => rinsert r m) [])

def redeemersItem : Redeemers → Item
  | .list rs => mkArray (rs.map redeemerItem)
  | .map rs => .seq (minHead 5 rs.length) (rs.flatMap redeemerKV)

def redeemersBytes (r : Redeemers) : Bytes := (redeemersItem r).encode

/-- `NonEmptySet<KeepRaw<PlutusData>>` built from values (no raw bytes): tag 258 + definite array -/
def datumSetBytes (ds : List PData) : Bytes := (mkTag 258 (mkArray (ds.map toItem))).encode

/-! ## `ScriptData` -/

structure ScriptData where
  /-- what `minicbor::encode(redeemers)` writes -/
  redeemers : Option Bytes
  /-- what `minicbor::encode(datums)` writes (the original bytes when decoded from a transaction) -/
  datums : Option Bytes
  languageViews : Option LanguageViews

/-- `ScriptData::hash` -/
def hashInput (sd : ScriptData) : Bytes :=
  (match sd.redeemers with | some r => r | none => [0xa0]) ++
  (match sd.datums with | some d => d | none => []) ++
  (match sd.languageViews with | some lv => viewsBytes lv | none => [0xa0])

def hashOf (sd : ScriptData) : Bytes := Blake2b.blake2b256 (hashInput sd)

/-- `ScriptData::build_for` -/
def buildFor (redeemers datums : Option Bytes) (views : Option LanguageViews) : Option ScriptData :=
  if redeemers.isNone && datums.isNone then none
  else
    some { redeemers := redeemers, datums := datums,
           languageViews := if redeemers.isSome && views.isSome then views else none }

/-! ## `pallas-txbuilder` (`build_conway_raw`): script_data_hash of a built transaction -/

/-- the builder's inputs that matter here: the redeemers it staged (as the list it writes into the
    witness set), the witness datums, the language views; `none` = no `script_data_hash` in the body.
    Transcription of the `script_data_hash` computation: only when language views were supplied, and
    then `ScriptData::build_for` on the witness set that is emitted (field 5 present iff there are
    redeemers, field 4 present iff there are datums; both built from values, hence written by the
    derived encoders). -/
def txBuilderHashOf (reds : List Redeemer) (dats : List PData) (views : Option LanguageViews) : Option Bytes :=
  match views with
  | none => none
  | some lv =>
    (buildFor (if reds.isEmpty then none else some (redeemersBytes (.list reds)))
              (if dats.isEmpty then none else some (datumSetBytes dats))
              (some lv)).map hashOf

def txBuilderHash (red : Option Redeemer) (dat : Option PData) (views : Option LanguageViews) : Option Bytes :=
  txBuilderHashOf red.toList dat.toList views

/-! ## from witness-set bytes -/

/-- value of key `k` in a flat key/value item list (first match) -/
def fieldOf (k : Nat) : List Item → Option Item
  | key :: v :: rest => if key.uint? = some k then some v else fieldOf k rest
  | _ => none

def wsEntries : Item → Option (List Item)
  | .seq h xs => if h.major = 5 then some xs else none
  | .seqIndef m xs => if m = 5 then some xs else none
  | _ => none

/-- witness-set bytes → `ScriptData::build_for(ws, views).map(|x| x.hash())`;
    outer `none` = the bytes are not a CBOR map item -/
def wsBuildHash (ws : Bytes) (views : Option LanguageViews) : Option (Option Bytes) :=
  match parseItem ws with
  | none => none
  | some (i, _) =>
    match wsEntries i with
    | none => none
    | some es =>
      let datums := (fieldOf 4 es).map Item.encode
      let redeemers := (fieldOf 5 es).map Item.encode
      some ((buildFor redeemers datums views).map hashOf)

end PallasVerif.ScriptData
