import PallasVerif.Model.CborWrappers
/-
  C19 — `pallas-addresses/src/byron.rs` and the Byron path of `pallas-addresses/src/lib.rs`.

  * `crc32`: CRC-32/ISO-HDLC (`crc::CRC_32_ISO_HDLC`: poly 0x04C11DB7 reflected = 0xEDB88320, init and
    xorout 0xFFFFFFFF, refin/refout) defined bit by bit on `Nat`, no table.
  * `ByronAddress = { payload : TagWrap<ByteVec, 24>, crc : u32 }` with `#[derive(Encode, Decode)]`
    (array encoding of minicbor-derive 0.16: any array head, fields by position, extra elements
    skipped, missing fields an error), `AddressPayload` and its attribute types (hand-written codecs).
  * `fromBytes` is the code after `fix: Byron address parsing verifies the CRC32 of the payload`;
    `fromBytesBefore` is what it was (decode only).
  * base58 (crate `base58` 0.2.0, a dependency): `b58enc` / `b58dec` are executable transcriptions used
    by the stream; the theorems take the codec law as an explicit hypothesis.
-/
namespace PallasVerif.Byron
open PallasVerif.Cbor PallasVerif.Minicbor PallasVerif.Wrappers

/-! ### CRC-32 -/

def crcPoly : Nat := 0xEDB88320

/-- one shift of the reflected LFSR -/
def crcStep (c : Nat) : Nat := if c % 2 = 1 then (c / 2) ^^^ crcPoly else c / 2

def crcStep8 (c : Nat) : Nat := crcStep (crcStep (crcStep (crcStep (crcStep (crcStep (crcStep (crcStep c)))))))

/-- feed one byte into the register -/
def crcByte (c : Nat) (b : UInt8) : Nat := crcStep8 (c ^^^ b.toNat)

/-- the register after the bytes `bs`, started at `c` -/
def crcRun (c : Nat) (bs : Bytes) : Nat := bs.foldl crcByte c

def crcMask : Nat := 0xFFFFFFFF

/-- `CRC.checksum(bs)` -/
def crc32 (bs : Bytes) : Nat := crcRun crcMask bs ^^^ crcMask

/-! ### derive(Decode) for a two-field array struct -/

/-- the generated loop `for i in 0..len { match i { 0 => f0, 1 => f1, _ => skip } }` -/
def fieldsDef {α β : Type} (p0 : P α) (p1 : P β) : Nat → Nat → Nat → Option α → Option β → P (Option α × Option β)
  | 0, _, _, _, _, _ => .err .diverge
  | fuel + 1, i, len, a, b, cur =>
    if i ≥ len then .ok (a, b) cur
    else if i = 0 then (p0 cur).andThen fun x r => fieldsDef p0 p1 fuel (i + 1) len (some x) b r
    else if i = 1 then (p1 cur).andThen fun y r => fieldsDef p0 p1 fuel (i + 1) len a (some y) r
    else (skip cur).andThen fun _ r => fieldsDef p0 p1 fuel (i + 1) len a b r

/-- `while Type::Break != d.datatype()? { .. i += 1 }` then `d.skip()?` (which consumes the break byte) -/
def fieldsIndef {α β : Type} (p0 : P α) (p1 : P β) : Nat → Nat → Option α → Option β → P (Option α × Option β)
  | 0, _, _, _, _ => .err .diverge
  | fuel + 1, i, a, b, cur =>
    match datatype cur with
    | .error e => .err e
    | .ok t =>
      if t = .brk then (skip cur).map fun _ => (a, b)
      else if i = 0 then (p0 cur).andThen fun x r => fieldsIndef p0 p1 fuel (i + 1) (some x) b r
      else if i = 1 then (p1 cur).andThen fun y r => fieldsIndef p0 p1 fuel (i + 1) a (some y) r
      else (skip cur).andThen fun _ r => fieldsIndef p0 p1 fuel (i + 1) a b r

def structArray2 {α β : Type} (p0 : P α) (p1 : P β) : P (α × β) := fun cur =>
  (array cur).andThen fun len r =>
    let fields := match len with
      | some n => fieldsDef p0 p1 (r.length + 1) 0 n none none r
      | none => fieldsIndef p0 p1 (r.length + 1) 0 none none r
    fields.andThen fun ab r' =>
      match ab with
      | (some a, some b) => .ok (a, b) r'
      | _ => .err .missing

/-! ### `ByronAddress` -/

structure ByronAddress where
  payload : Bytes
  crc : Nat
  deriving Repr, DecidableEq

/-- `payload: TagWrap<ByteVec, 24>`, `crc: u32` -/
def ByronAddress.dec : P ByronAddress := fun cur =>
  (structArray2 (TagWrap.dec cBytes) Minicbor.u32 cur).map fun p => ⟨p.1, p.2⟩

/-- derive(Encode), array encoding: `array(2)`, then the fields -/
def ByronAddress.enc (a : ByronAddress) : Bytes :=
  encArrayHead 2 ++ TagWrap.enc 24 cBytes a.payload ++ encUInt a.crc

/-- `ByronAddress::to_vec` -/
def ByronAddress.toVec (a : ByronAddress) : Bytes := a.enc

/-- `ByronAddress::new(payload, CRC.checksum(payload))` — `from_decoded` once the payload is encoded -/
def ofPayloadBytes (payload : Bytes) : ByronAddress := ⟨payload, crc32 payload⟩

/-- errors of `pallas_addresses::Error` that the Byron entry points can return -/
inductive AddrErr where
  | cbor (e : Err) | base58 | hex | missingHeader | invalidHeader | notByron
  deriving Repr, DecidableEq

deriving instance DecidableEq for Except

/-- `ByronAddress::from_bytes` (repaired): decode, then compare the checksum -/
def fromBytes (bs : Bytes) : Except AddrErr ByronAddress :=
  match ByronAddress.dec bs with
  | .err e => .error (.cbor e)
  | .ok a _ => if crc32 a.payload ≠ a.crc then .error (.cbor .msg) else .ok a

/-- `ByronAddress::from_bytes` as it was: decode only -/
def fromBytesBefore (bs : Bytes) : Except AddrErr ByronAddress :=
  match ByronAddress.dec bs with
  | .err e => .error (.cbor e)
  | .ok a _ => .ok a

/-- `Address::from_bytes` restricted to what matters here: header nibble `0b1000` goes to
    `parse_type_8` = `ByronAddress::from_bytes` on the same bytes; anything else is not a Byron address -/
def addressFromBytes (bs : Bytes) : Except AddrErr ByronAddress :=
  match bs with
  | [] => .error .missingHeader
  | h :: _ => if h.toNat / 16 = 8 then fromBytes bs else .error .notByron

/-! ### base58 (crate `base58` 0.2.0) -/

def b58Alphabet : List Char := "123456789ABCDEFGHJKLMNPQRSTUVWXYZabcdefghijkmnopqrstuvwxyz".toList

def b58Digit (c : Char) : Option Nat :=
  let rec go : List Char → Nat → Option Nat
    | [], _ => none
    | a :: as, i => if a = c then some i else go as (i + 1)
  go b58Alphabet 0

/-- minimal big-endian bytes of `n` (empty for 0) -/
def natBytes : Nat → Nat → Bytes → Bytes
  | 0, _, acc => acc
  | fuel + 1, n, acc => if n = 0 then acc else natBytes fuel (n / 256) (UInt8.ofNat (n % 256) :: acc)

def natDigits58 : Nat → Nat → List Char → List Char
  | 0, _, acc => acc
  | fuel + 1, n, acc => if n = 0 then acc else natDigits58 fuel (n / 58) (b58Alphabet.getD (n % 58) '1' :: acc)

def leadingZeros : Bytes → Nat
  | b :: bs => if b = 0 then leadingZeros bs + 1 else 0
  | [] => 0

/-- `ToBase58::to_base58` -/
def b58enc (bs : Bytes) : String :=
  let z := leadingZeros bs
  let n := ofBe bs
  String.ofList (List.replicate z '1' ++ natDigits58 (2 * bs.length + 1) n [])

def leadingOnes : List Char → Nat
  | c :: cs => if c = '1' then leadingOnes cs + 1 else 0
  | [] => 0

/-- the digits after the leading `1`s accumulated into a number; fails on a character outside the
    alphabet or as soon as the number no longer fits the crate's 132-byte buffer -/
def b58Accum : List Char → Nat → Option Nat
  | [], n => some n
  | c :: cs, n =>
    match b58Digit c with
    | none => none
    | some d =>
      let n' := n * 58 + d
      if n' ≥ 2 ^ (132 * 8) then none else b58Accum cs n'

/-- `FromBase58::from_base58` (`none` = `Err(_)`; the crate's index underflow for more than 132
    leading `1`s followed by nothing is outside what the stream generates and is not modelled) -/
def b58dec (s : String) : Option Bytes :=
  let cs := s.toList
  let z := leadingOnes cs
  match b58Accum (cs.drop z) 0 with
  | none => none
  | some n => some (List.replicate z 0 ++ natBytes 140 n [])

/-- `ByronAddress::from_base58` -/
def fromBase58 (s : String) : Except AddrErr ByronAddress :=
  match b58dec s with
  | none => .error .base58
  | some bs => fromBytes bs

/-- `ByronAddress::to_base58` -/
def ByronAddress.toBase58 (a : ByronAddress) : String := b58enc a.toVec

/-! ### `AddressPayload` (hand-written codecs of byron.rs) -/

inductive AddrDistr where
  | singleKey (stakeholder : Bytes)
  | bootstrapEra
  deriving Repr, DecidableEq

def AddrDistr.enc : AddrDistr → Bytes
  | .singleKey h => encArrayHead 2 ++ encUInt 0 ++ encBytes h
  | .bootstrapEra => encArrayHead 1 ++ encUInt 1

/-- `Hash<28>`'s decoder: `bytes()` of exactly 28 bytes -/
def hash28 : P Bytes := fun cur =>
  (Minicbor.bytes cur).andThen fun b r => if b.length = 28 then .ok b r else .err .msg

def AddrDistr.dec : P AddrDistr := fun cur =>
  (array cur).andThen fun _ r =>
    (Minicbor.u32 r).andThen fun variant r' =>
      if variant = 0 then (hash28 r').map .singleKey
      else if variant = 1 then .ok .bootstrapEra r'
      else .err .msg

inductive AddrAttr where
  | addrDistr (d : AddrDistr)
  | derivationPath (b : Bytes)
  | networkTag (b : Bytes)
  deriving Repr, DecidableEq

def AddrAttr.enc : AddrAttr → Bytes
  | .addrDistr d => encUInt 0 ++ d.enc
  | .derivationPath b => encUInt 1 ++ encBytes b
  | .networkTag b => encUInt 2 ++ encBytes b

def AddrAttr.dec : P AddrAttr := fun cur =>
  (Minicbor.u8 cur).andThen fun key r =>
    if key = 0 then (AddrDistr.dec r).map .addrDistr
    else if key = 1 then (Minicbor.bytes r).map .derivationPath
    else if key = 2 then (Minicbor.bytes r).map .networkTag
    else .err .msg

def cAddrAttr : Codec AddrAttr := ⟨AddrAttr.enc, AddrAttr.dec⟩

/-- `AddrType`: `PubKey | Script | Redeem | Other(u32)` is exactly a `u32` -/
structure AddressPayload where
  root : Bytes
  attributes : List AddrAttr
  addrtype : Nat
  deriving Repr, DecidableEq

/-- derive(Encode), array encoding, three fields -/
def AddressPayload.enc (p : AddressPayload) : Bytes :=
  encArrayHead 3 ++ encBytes p.root ++ OPP.enc cAddrAttr p.attributes ++ encUInt p.addrtype

/-- `ByronAddress::from_decoded` -/
def fromDecoded (p : AddressPayload) : ByronAddress := ofPayloadBytes p.enc

/-- derive(Decode), array encoding, three fields (same generated loop as `fieldsDef`, one more index) -/
def fields3Def {α β γ : Type} (p0 : P α) (p1 : P β) (p2 : P γ) :
    Nat → Nat → Nat → Option α → Option β → Option γ → P (Option α × Option β × Option γ)
  | 0, _, _, _, _, _, _ => .err .diverge
  | fuel + 1, i, len, a, b, c, cur =>
    if i ≥ len then .ok (a, b, c) cur
    else if i = 0 then (p0 cur).andThen fun x r => fields3Def p0 p1 p2 fuel (i + 1) len (some x) b c r
    else if i = 1 then (p1 cur).andThen fun y r => fields3Def p0 p1 p2 fuel (i + 1) len a (some y) c r
    else if i = 2 then (p2 cur).andThen fun z r => fields3Def p0 p1 p2 fuel (i + 1) len a b (some z) r
    else (skip cur).andThen fun _ r => fields3Def p0 p1 p2 fuel (i + 1) len a b c r

def fields3Indef {α β γ : Type} (p0 : P α) (p1 : P β) (p2 : P γ) :
    Nat → Nat → Option α → Option β → Option γ → P (Option α × Option β × Option γ)
  | 0, _, _, _, _, _ => .err .diverge
  | fuel + 1, i, a, b, c, cur =>
    match datatype cur with
    | .error e => .err e
    | .ok t =>
      if t = .brk then (skip cur).map fun _ => (a, b, c)
      else if i = 0 then (p0 cur).andThen fun x r => fields3Indef p0 p1 p2 fuel (i + 1) (some x) b c r
      else if i = 1 then (p1 cur).andThen fun y r => fields3Indef p0 p1 p2 fuel (i + 1) a (some y) c r
      else if i = 2 then (p2 cur).andThen fun z r => fields3Indef p0 p1 p2 fuel (i + 1) a b (some z) r
      else (skip cur).andThen fun _ r => fields3Indef p0 p1 p2 fuel (i + 1) a b c r

def structArray3 {α β γ : Type} (p0 : P α) (p1 : P β) (p2 : P γ) : P (α × β × γ) := fun cur =>
  (array cur).andThen fun len r =>
    let fields := match len with
      | some n => fields3Def p0 p1 p2 (r.length + 1) 0 n none none none r
      | none => fields3Indef p0 p1 p2 (r.length + 1) 0 none none none r
    fields.andThen fun abc r' =>
      match abc with
      | (some a, some b, some c) => .ok (a, b, c) r'
      | _ => .err .missing

/-- `AddressPayload`'s derived decoder: `root: Hash<28>`, `attributes: OrderPreservingProperties<AddrAttrProperty>`,
    `addrtype: AddrType` (= `u32`) -/
def AddressPayload.dec : P AddressPayload := fun cur =>
  (structArray3 hash28 (OPP.dec cAddrAttr) Minicbor.u32 cur).map fun p => ⟨p.1, p.2.1, p.2.2⟩

/-- `ByronAddress::decode()`: the payload bytes decoded as an `AddressPayload` by a fresh decoder -/
def ByronAddress.decode (a : ByronAddress) : Except Err AddressPayload := decodeTop AddressPayload.dec a.payload

end PallasVerif.Byron
