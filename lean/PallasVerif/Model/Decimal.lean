/-!
# Model of `pallas-math/src/math_dashu.rs` — `Decimal` arithmetic, rounding, printing (C17)

`IBig` is `Int`. dashu's `div_rem` / `/` / `%` on `IBig` truncate toward zero and the remainder
carries the sign of the dividend: `Int.tdiv` / `Int.tmod`. `IBig::sign()` of zero is `Positive`.
Division by zero panics in dashu: the explicit `none` outcome.

Transcribed arm by arm from the code that exists: every operator builds its result with
`Decimal::new(self.precision)` (the right operand's precision is ignored), `Mul` and `Div` always
use the global `PRECISION = 10^34` whatever the operands' precision, the rounding family uses
`precision_multiplier = 10^precision`.
-/
namespace PallasVerif.Decimal

/-- `PRECISION = TEN.pow(34)` -/
def P : Int := 10000000000000000000000000000000000

/-- `DEFAULT_PRECISION` -/
def defaultPrec : Nat := 34

structure Dec where
  prec : Nat
  data : Int
  deriving DecidableEq, Repr

/-- `precision_multiplier = 10.pow(precision)` -/
def mult (p : Nat) : Int := (10 : Int) ^ p

/-- `fn scale(rop)`: `div_qr(a, temp, rop, PRECISION); if rop < 0 && temp != 0 { a -= 1 }` -/
def scale (z : Int) : Int :=
  let a := z.tdiv P
  let temp := z.tmod P
  if z < 0 ∧ temp ≠ 0 then a - 1 else a

/-- `fn div(rop, x, y)`: two `div_qr` steps; `none` = dashu's division-by-zero panic -/
def div (x y : Int) : Option Int :=
  if y = 0 then none else
  let tempQ := x.tdiv y
  let tempR := x.tmod y
  let temp := tempQ * P
  let tempR := tempR * P
  let tempQ := tempR.tdiv y
  some (temp + tempQ)

/-- `impl Add` -/
def add (x y : Dec) : Dec := { prec := x.prec, data := x.data + y.data }
/-- `impl Sub` -/
def sub (x y : Dec) : Dec := { prec := x.prec, data := x.data - y.data }
/-- `impl Neg` -/
def neg (x : Dec) : Dec := { prec := x.prec, data := -x.data }
/-- `impl Abs` (`IBig::abs`) -/
def abs (x : Dec) : Dec := { prec := x.prec, data := (x.data.natAbs : Int) }
/-- `impl Mul`: `data = self.data * rhs.data; scale(data)` -/
def mul (x y : Dec) : Dec := { prec := x.prec, data := scale (x.data * y.data) }
/-- `impl Div` -/
def divD (x y : Dec) : Option Dec :=
  match div x.data y.data with
  | some d => some { prec := x.prec, data := d }
  | none => none

/-- `Sign::Negative` test (`sign()` of zero is `Positive`) -/
def isNeg (z : Int) : Bool := z < 0

/-- `fn round` as it is after `fix: Decimal::round …` (`remainder != 0 &&` added; without it the
    precision-0 case `half = 0` rounds every integer away from zero by one) -/
def round (x : Dec) : Dec :=
  let m := mult x.prec
  let half := m.tdiv 2
  let remainder := x.data.tmod m
  if remainder ≠ 0 ∧ (remainder.natAbs : Int) ≥ half then
    if isNeg x.data then { x with data := x.data - (m + remainder) }
    else { x with data := x.data + (m - remainder) }
  else { x with data := x.data - remainder }

/-- `fn round` of the unrepaired tree (kept to state the recorded deviation) -/
def roundOrig (x : Dec) : Dec :=
  let m := mult x.prec
  let half := m.tdiv 2
  let remainder := x.data.tmod m
  if (remainder.natAbs : Int) ≥ half then
    if isNeg x.data then { x with data := x.data - (m + remainder) }
    else { x with data := x.data + (m - remainder) }
  else { x with data := x.data - remainder }

/-- `fn floor` -/
def floor (x : Dec) : Dec :=
  let m := mult x.prec
  let remainder := x.data.tmod m
  let d := if isNeg x.data ∧ remainder ≠ 0 then x.data - m else x.data
  { x with data := d - remainder }

/-- `fn ceil` -/
def ceil (x : Dec) : Dec :=
  let m := mult x.prec
  let remainder := x.data.tmod m
  let d := if ¬ isNeg x.data ∧ remainder ≠ 0 then x.data + m else x.data
  { x with data := d - remainder }

/-- `fn trunc` -/
def trunc (x : Dec) : Dec :=
  { x with data := x.data - x.data.tmod (mult x.prec) }

/-- `impl PartialOrd`: `None` when the precisions differ -/
def partialCmp (x y : Dec) : Option Ordering :=
  if x.prec ≠ y.prec then none else some (compare x.data y.data)

/-- `impl PartialEq` -/
def eq (x y : Dec) : Bool := x.prec == y.prec && x.data == y.data

/-- `{n:0width$}` for a non-negative big integer: decimal digits, left-padded with `0` -/
def padDigits (n width : Nat) : List Char :=
  let ds := Nat.toDigits 10 n
  List.replicate (width - ds.length) '0' ++ ds

/-- `impl Display`: `-`? `|q|` `.` `|r|` zero-padded to `precision` digits -/
def showChars (x : Dec) : List Char :=
  let m := mult x.prec
  let q := x.data.tdiv m
  let r := x.data.tmod m
  (if x.data < 0 then ['-'] else []) ++ Nat.toDigits 10 q.natAbs ++ ['.'] ++ padDigits r.natAbs x.prec

def toStr (x : Dec) : String := String.ofList (showChars x)

/-- `From<u64>` / `From<i64>` / `From<IBig>`: `n * 10^34` at the default precision -/
def ofInt (n : Int) : Dec := { prec := defaultPrec, data := n * mult defaultPrec }

end PallasVerif.Decimal
