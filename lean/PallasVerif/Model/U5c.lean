/-
  Model of the numeric and datum mapping of `pallas-utxorpc/src/shared.rs` (the macro body shared
  by `v1alpha::Mapper` and `v1beta::Mapper`): `u64_to_bigint`, `i64_to_bigint`,
  `map_plutus_bigint` (after `fix: utxorpc maps Plutus integers outside i64 to big-integer bytes`),
  `map_plutus_constr`, `map_plutus_map`, `map_plutus_array`, `map_plutus_datum`.

  Pallas side: `alonzo::BigInt::{Int(Int), BigUInt(bytes), BigNInt(bytes)}` where `Int` is a CBOR
  integer (−2^64 … 2^64−1) and `BigNInt(b)` denotes −1 − b (CBOR tag 3). UTxO RPC side:
  `BigInt::{Int(i64), BigUInt(bytes), BigNInt(bytes)}` with the same reading. Byte strings are
  `List Nat` (values < 256).
-/
namespace PallasVerif.U5c

abbrev Bytes := List Nat

/-- big-endian value -/
def beNat (b : Bytes) : Nat := b.foldl (fun acc x => acc * 256 + x) 0

/-- `to_be_bytes().iter().skip_while(|b| *b == 0)`: big-endian digits without leading zeros -/
def natToBytesF : Nat → Nat → Bytes
  | 0, _ => []
  | fuel + 1, n => if n = 0 then [] else natToBytesF fuel (n / 256) ++ [n % 256]

def natToBytes (n : Nat) : Bytes := natToBytesF n n

/-- `u64::to_be_bytes().to_vec()`: exactly eight bytes -/
def be8 (v : Nat) : Bytes :=
  [v / 72057594037927936 % 256, v / 281474976710656 % 256, v / 1099511627776 % 256, v / 4294967296 % 256,
   v / 16777216 % 256, v / 65536 % 256, v / 256 % 256, v % 256]

/-- Plutus integer as pallas holds it -/
inductive PInt where
  | int (v : Int)
  | bigUInt (b : Bytes)
  | bigNInt (b : Bytes)
  deriving DecidableEq, Repr

/-- UTxO RPC `BigInt`; `int` is an `i64` -/
inductive UInt where
  | int (v : Int)
  | bigUInt (b : Bytes)
  | bigNInt (b : Bytes)
  deriving DecidableEq, Repr

def PInt.val : PInt → Int
  | .int v => v
  | .bigUInt b => beNat b
  | .bigNInt b => -1 - (beNat b : Int)

def UInt.val : UInt → Int
  | .int v => v
  | .bigUInt b => beNat b
  | .bigNInt b => -1 - (beNat b : Int)

def i64Min : Int := -9223372036854775808
def i64Max : Int := 9223372036854775807

/-- `i64::try_from(v).is_ok()` -/
def fitsI64 (v : Int) : Bool := decide (i64Min ≤ v) && decide (v ≤ i64Max)

/-- `map_plutus_bigint` -/
def mapPlutusBigInt : PInt → UInt
  | .int v =>
    if fitsI64 v then .int v
    else if v ≥ 0 then .bigUInt (natToBytes v.toNat)
    else .bigNInt (natToBytes (-1 - v).toNat)
  | .bigUInt b => .bigUInt b
  | .bigNInt b => .bigNInt b

/-- `u64_to_bigint` (always `Some`) -/
def u64ToBigInt (v : Nat) : UInt := if (v : Int) ≤ i64Max then .int v else .bigUInt (be8 v)

/-- `i64_to_bigint` -/
def i64ToBigInt (v : Int) : UInt := .int v

/-! ## datums -/

inductive PData where
  | constr (tag : Nat) (anyCtor : Option Nat) (fields : List PData)
  | map (pairs : List (PData × PData))
  | array (items : List PData)
  | bigInt (i : PInt)
  | bytes (b : Bytes)
  deriving Repr

inductive UData where
  | constr (tag : Nat) (anyCtor : Nat) (fields : List UData)
  | map (pairs : List (UData × UData))
  | array (items : List UData)
  | bigInt (i : UInt)
  | bytes (b : Bytes)
  deriving Repr

mutual
/-- `map_plutus_datum` (with `map_plutus_constr`: `tag as u32`, `any_constructor.unwrap_or_default()`) -/
def mapDatum : PData → UData
  | .constr tag any fields => .constr (tag % 4294967296) (any.getD 0) (mapDatums fields)
  | .map pairs => .map (mapPairs pairs)
  | .array items => .array (mapDatums items)
  | .bigInt i => .bigInt (mapPlutusBigInt i)
  | .bytes b => .bytes b
def mapDatums : List PData → List UData
  | [] => []
  | d :: t => mapDatum d :: mapDatums t
def mapPairs : List (PData × PData) → List (UData × UData)
  | [] => []
  | (k, v) :: t => (mapDatum k, mapDatum v) :: mapPairs t
end

end PallasVerif.U5c
