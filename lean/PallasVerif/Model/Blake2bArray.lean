import PallasVerif.Model.Blake2b
/-
  Two further formulations of BLAKE2b, both proved equal to `Model/Blake2b.lean` in `Props/C10.lean`:

  * `CtxA` / `updateMut` / `finalizeMut`: cryptoxide's `ContextDyn` at the level of its fixed
    128-byte array `buf` and cursor `buflen` (every `copy_from_slice` is a `blit`; `internal_final`
    zeroes `buf[buflen..]`, compresses, writes the state words over `buf[0..64]` and the digest is
    `buf[0..outlen]`). The stream `hash` runs *this* transcription against the real hasher.
  * `blake2bRfc`: RFC 7693 §3.3 as printed (array of padded blocks, `FOR i = 0 TO dd − 2`).
-/
namespace PallasVerif.Blake2b

/-- `ContextDyn` with its fixed 128-byte array and the `buflen` cursor, as in cryptoxide -/
structure CtxA where
  h : H
  t : Nat
  buf : Bytes
  buflen : Nat
  outlen : Nat

def initA (nn : Nat) : CtxA := { h := initH nn, t := 0, buf := List.replicate 128 0, buflen := 0, outlen := nn }

/-- `dst[pos .. pos + src.len()].copy_from_slice(src)` -/
def blit (dst : Bytes) (pos : Nat) (src : Bytes) : Bytes := dst.take pos ++ src ++ dst.drop (pos + src.length)

/-- `ContextDyn::update_mut`, array level -/
def updateMut (c : CtxA) (inp : Bytes) : CtxA :=
  if inp.isEmpty then c
  else
    let fill := 128 - c.buflen
    if inp.length > fill then
      let buf1 := blit c.buf c.buflen (inp.take fill)
      let t1 := c.t + 128
      let h1 := compress c.h (buf1.take 128) t1 false
      let r := loop h1 t1 (inp.drop fill)
      { c with h := r.1, t := r.2.1, buf := blit buf1 0 r.2.2, buflen := r.2.2.length }
    else { c with buf := blit c.buf c.buflen inp, buflen := c.buflen + inp.length }

/-- `internal_final` (`zero(&mut buf[buflen..])`, compress, `write_u64v_le(&mut buf[0..64], &h)`) and
    `out.copy_from_slice(&buf[0..out.len()])` -/
def finalizeMut (c : CtxA) : Bytes :=
  let buf := blit c.buf c.buflen (List.replicate (128 - c.buflen) 0)
  let h := compress c.h (buf.take 128) (c.t + c.buflen) true
  (blit buf 0 (h.toList.flatMap leBytes64)).take c.outlen

/-- RFC 7693 §3.3 literally: `dd` blocks `d[0..dd-1]` of the zero-padded message (one empty block
    for the empty message), `FOR i = 0 TO dd − 2: h := F(h, d[i], (i+1)·bb, FALSE)`, then
    `h := F(h, d[dd−1], ll, TRUE)`; unkeyed (`kk = 0`). -/
def rfcDd (ll : Nat) : Nat := if ll = 0 then 1 else (ll + 127) / 128

def rfcBlock (data : Bytes) (i : Nat) : Bytes := pad ((data.drop (128 * i)).take 128)

def blake2bRfc (nn : Nat) (data : Bytes) : Bytes :=
  let dd := rfcDd data.length
  let h := (List.range (dd - 1)).foldl (fun h i => compress h (rfcBlock data i) ((i + 1) * 128) false) (initH nn)
  digestOf (compress h (rfcBlock data (dd - 1)) data.length true) nn

end PallasVerif.Blake2b
