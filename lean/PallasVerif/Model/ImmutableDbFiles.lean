import PallasVerif.Model.ImmutableDb
import PallasVerif.Model.ChunkReader
/-
  The immutable database as files: each chunk is its primary index, secondary index and chunk file;
  the directory-level readers of `Model/ImmutableDb.lean` run over what the file readers of
  `Model/ChunkReader.lean` deliver. `decode` stands for `MultiEraBlock::decode` on the bytes of one
  yielded block (a block, or bytes that do not decode) and is a parameter.
-/
namespace PallasVerif.ImmutableDbFiles
open PallasVerif.ImmutableDb PallasVerif.ChunkReader

structure ChunkFiles (β : Type) where
  primary : ChunkReader.Bytes
  secondary : ChunkReader.Bytes
  chunk : List β

variable {β H : Type}

/-- one item of the chunk iterator as the directory level sees it -/
def itemOf (decode : List β → Option (Block H)) : BlockItem β → Item H
  | .block bytes => match decode bytes with | some b => .blk b | none => .garbage
  | .readErr => .readErr
  | .indexErr => .readErr

/-- `chunk::read_blocks(dir, name)` and its iterator -/
def chunkOf (decode : List β → Option (Block H)) (f : ChunkFiles β) : FChunk H :=
  (readChunk f.primary f.secondary f.chunk).map (fun items => items.map (itemOf decode))

def dbOf (decode : List β → Option (Block H)) (files : List (ChunkFiles β)) : List (FChunk H) :=
  files.map (chunkOf decode)

section
variable [DecidableEq H]
def readBlocks (decode : List β → Option (Block H)) (files : List (ChunkFiles β)) : List (Item H) :=
  readBlocksF (dbOf decode files)
def readBlocksFromPoint (decode : List β → Option (Block H)) (files : List (ChunkFiles β)) (slot : Nat) (hash : Option H) :
    Res (List (Item H)) := readBlocksFromPointF (dbOf decode files) slot hash
def getTip (decode : List β → Option (Block H)) (files : List (ChunkFiles β)) : Res (Option (Block H)) :=
  getTipF (dbOf decode files)
end

end PallasVerif.ImmutableDbFiles
