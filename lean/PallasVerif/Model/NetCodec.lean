import PallasVerif.Model.Cbor
/-
  Byte-level model of the codec primitives the mini-protocol message codecs are written with
  (C22, C09). Import-free apart from the shared L1 CBOR layer.

  * decoder side: `Res` / `Dec` and the minicbor 0.26.5 `Decoder` primitives the hand-written
    message decoders call (`u8 u16 u32 u64 bool bytes str array map tag datatype skip`, `Vec<T>`,
    `Option<T>`, 2-tuples, `BTreeMap`, `AnyCbor`), transcribed from
    `minicbor-0.26.5/src/decode/decoder.rs` arm by arm, *including* their leniency (any head
    width, indefinite arrays where `array()` is followed by element reads, declared lengths that
    are never compared with the contents) and their error classes (`eoi` = `end_of_input`, the
    only class that means "need more bytes"; everything else is `err`).
  * encoder side: the tree `E` of encoder calls (`e.array(n)`, `e.u16(k)`, `e.begin_array()` …
    `e.end()`, `e.tag`, raw `AnyCbor` bytes). `E.encode` is what minicbor's `Encoder` writes
    (minimal heads); the *declared* length of `array(n)` / `map(n)` is kept exactly as the code
    states it, so "declared container lengths match the contents" is a property of the tree
    (`E.ok`) and not built in.
-/
namespace PallasVerif.NetCodec
open PallasVerif.Cbor

/-! ## decoder results -/

inductive Res (α : Type) where
  | ok (a : α) (rest : Bytes)
  | eoi
  | err
  deriving Repr, DecidableEq

abbrev Dec (α : Type) := Bytes → Res α

@[inline] def Res.bind {α β : Type} : Res α → (α → Bytes → Res β) → Res β
  | .ok a r, f => f a r
  | .eoi, _ => .eoi
  | .err, _ => .err

@[inline] def Res.map {α β : Type} (f : α → β) : Res α → Res β
  | .ok a r => .ok (f a) r
  | .eoi => .eoi
  | .err => .err

def Res.isOk {α : Type} : Res α → Bool
  | .ok _ _ => true
  | _ => false

def U8MAX : Nat := 255
def U16MAX : Nat := 65535
def U32MAX : Nat := 4294967295
def U64MAX : Nat := 18446744073709551615

/-- `Error::type_mismatch(self.type_of(b)?)` *after* `read()` consumed `b`: `type_of` peeks at
    `buf[pos + 1]` for the four negative-integer heads `0x38..0x3b`, i.e. at the *second* byte
    after `b`, and that peek can itself fail with end-of-input. -/
def mismatch {α : Type} (b : UInt8) (rest : Bytes) : Res α :=
  if 0x38 ≤ b.toNat ∧ b.toNat ≤ 0x3b ∧ rest.length < 2 then .eoi else .err

/-- `read_slice(n)` -/
def readN (n : Nat) (rest : Bytes) : Res Bytes :=
  if rest.length < n then .eoi else .ok (rest.take n) (rest.drop n)

/-- `Decoder::unsigned(ai, p)` for an additional-information value `ai`; `bad` is the outcome of
    its fall-through arm (a type mismatch classified by the caller's byte). -/
def unsignedArg (ai : Nat) (rest : Bytes) (bad : Res Nat) : Res Nat :=
  if ai < 24 then .ok ai rest
  else if ai = 24 then (readN 1 rest).map ofBe
  else if ai = 25 then (readN 2 rest).map ofBe
  else if ai = 26 then (readN 4 rest).map ofBe
  else if ai = 27 then (readN 8 rest).map ofBe
  else bad

def major (b : UInt8) : Nat := b.toNat / 32
def info (b : UInt8) : Nat := b.toNat % 32

/-- `Decoder::u64` -/
def u64 : Dec Nat
  | [] => .eoi
  | b :: rest => if major b = 0 then unsignedArg (info b) rest (mismatch b rest) else mismatch b rest

/-- `u8 / u16 / u32`: the argument bytes are read first, then the value is range-checked
    (`try_as` → overflow error) -/
def uMax (max : Nat) : Dec Nat := fun bs =>
  (u64 bs).bind fun n r => if n ≤ max then .ok n r else .err

def u8 : Dec Nat := uMax U8MAX
def u16 : Dec Nat := uMax U16MAX
def u32 : Dec Nat := uMax U32MAX

def bool : Dec Bool
  | [] => .eoi
  | b :: rest => if b = 0xf4 then .ok false rest else if b = 0xf5 then .ok true rest else mismatch b rest

/-- definite-length string of major type `m` (2 = `bytes()`, 3 = the byte part of `str()`) -/
def defStr (m : Nat) : Dec Bytes
  | [] => .eoi
  | b :: rest =>
    if major b ≠ m ∨ info b = 31 then mismatch b rest
    else (unsignedArg (info b) rest .err).bind fun n r => readN n r

def bytes : Dec Bytes := defStr 2

/-! ### UTF-8 (what `core::str::from_utf8` accepts: Unicode table 3-7) -/

def isCont (b : UInt8) : Bool := 0x80 ≤ b.toNat && b.toNat ≤ 0xBF

def utf8Valid : Bytes → Bool
  | [] => true
  | b0 :: rest =>
    let n := b0.toNat
    if n < 0x80 then utf8Valid rest
    else if 0xC2 ≤ n ∧ n ≤ 0xDF then
      match rest with
      | b1 :: r => isCont b1 && utf8Valid r
      | _ => false
    else if 0xE0 ≤ n ∧ n ≤ 0xEF then
      match rest with
      | b1 :: b2 :: r =>
        (if n = 0xE0 then decide (0xA0 ≤ b1.toNat ∧ b1.toNat ≤ 0xBF)
         else if n = 0xED then decide (0x80 ≤ b1.toNat ∧ b1.toNat ≤ 0x9F)
         else isCont b1) && isCont b2 && utf8Valid r
      | _ => false
    else if 0xF0 ≤ n ∧ n ≤ 0xF4 then
      match rest with
      | b1 :: b2 :: b3 :: r =>
        (if n = 0xF0 then decide (0x90 ≤ b1.toNat ∧ b1.toNat ≤ 0xBF)
         else if n = 0xF4 then decide (0x80 ≤ b1.toNat ∧ b1.toNat ≤ 0x8F)
         else isCont b1) && isCont b2 && isCont b3 && utf8Valid r
      | _ => false
    else false

/-- `Decoder::str` (the text is kept as its UTF-8 bytes) -/
def str : Dec Bytes := fun bs =>
  (defStr 3 bs).bind fun s r => if utf8Valid s then .ok s r else .err

/-- `array()` (`m = 4`) / `map()` (`m = 5`): `none` = indefinite length -/
def container (m : Nat) : Dec (Option Nat)
  | [] => .eoi
  | b :: rest =>
    if major b ≠ m then mismatch b rest
    else if info b = 31 then .ok none rest
    else (unsignedArg (info b) rest .err).map some

def array : Dec (Option Nat) := container 4
def map : Dec (Option Nat) := container 5

/-- `Decoder::tag` -/
def tag : Dec Nat
  | [] => .eoi
  | b :: rest => if major b ≠ 6 then mismatch b rest else unsignedArg (info b) rest .err

/-- `minicbor::data::Type` as far as the message decoders look at it -/
inductive Ty where
  | u8 | u16 | u32 | u64 | neg | bytes | bytesIndef | string | stringIndef | array | arrayIndef
  | map | mapIndef | tag | simple | bool | null | undefined | float | brk | unknown
  deriving DecidableEq, Repr

/-- `Decoder::datatype` = `type_of(current()?)`: here the peek for `0x38..0x3b` looks at the byte
    right after the initial byte (nothing has been consumed). -/
def datatype : Bytes → Res Ty
  | [] => .eoi
  | b :: rest =>
    let n := b.toNat
    let here (t : Ty) : Res Ty := .ok t (b :: rest)
    if n ≤ 0x18 then here .u8
    else if n = 0x19 then here .u16
    else if n = 0x1a then here .u32
    else if n = 0x1b then here .u64
    else if 0x20 ≤ n ∧ n ≤ 0x37 then here .neg
    else if 0x38 ≤ n ∧ n ≤ 0x3b then (if rest.isEmpty then .eoi else here .neg)
    else if 0x40 ≤ n ∧ n ≤ 0x5b then here .bytes
    else if n = 0x5f then here .bytesIndef
    else if 0x60 ≤ n ∧ n ≤ 0x7b then here .string
    else if n = 0x7f then here .stringIndef
    else if 0x80 ≤ n ∧ n ≤ 0x9b then here .array
    else if n = 0x9f then here .arrayIndef
    else if 0xa0 ≤ n ∧ n ≤ 0xbb then here .map
    else if n = 0xbf then here .mapIndef
    else if 0xc0 ≤ n ∧ n ≤ 0xdb then here .tag
    else if (0xe0 ≤ n ∧ n ≤ 0xf3) ∨ n = 0xf8 then here .simple
    else if n = 0xf4 ∨ n = 0xf5 then here .bool
    else if n = 0xf6 then here .null
    else if n = 0xf7 then here .undefined
    else if 0xf9 ≤ n ∧ n ≤ 0xfb then here .float
    else if n = 0xff then here .brk
    else here .unknown

/-! ### `Decoder::skip` (feature `alloc`): the counting / stack algorithm, not a validator -/

def satAdd (a b : Nat) : Nat := if a + b > U64MAX then U64MAX else a + b
def satMul2 (a : Nat) : Nat := if 2 * a > U64MAX then U64MAX else 2 * a

/-- chunks of an indefinite byte/text string up to the break (`BytesIter` / `StrIter` in state
    `Indef`): every chunk must be a definite string of the same major type; text chunks are
    UTF-8 checked. -/
def skipChunks (m : Nat) : Nat → Bytes → Res Unit
  | 0, _ => .err
  | _ + 1, [] => .eoi
  | fuel + 1, b :: rest =>
    if b = 0xff then .ok () rest
    else
      (defStr m (b :: rest)).bind fun s r =>
        if m = 3 ∧ ¬ utf8Valid s then .err else skipChunks m fuel r

/-- `for v in self.bytes_iter()? { v?; }` / `str_iter` -/
def skipStr (m : Nat) : Dec Unit
  | [] => .eoi
  | b :: rest =>
    if info b = 31 then skipChunks m (rest.length + 1) rest
    else
      (unsignedArg (info b) rest .err).bind fun n r =>
        (readN n r).bind fun s r' => if m = 3 ∧ ¬ utf8Valid s then .err else .ok () r'

def popZeros : List (Option Nat) → List (Option Nat)
  | some 0 :: st => popZeros st
  | st => st

/-- end of one loop iteration: `none` = leave the loop -/
def skipTail (nr ir : Nat) (st : List (Option Nat)) : Option (Nat × Nat × List (Option Nat)) :=
  if nr = 0 ∧ ir = 0 then
    match popZeros st with
    | some n :: st' => some (0, 0, some (n - 1) :: st')
    | none :: st' => some (0, 0, none :: st')
    | [] => none
  else some (nr - 1, ir, st)

/-- a container head seen by `skip`: `len` is the number of items it announces (`none` = indefinite).
    The stack is kept with its top at the head of the list. -/
def skipOpen (len : Option Nat) (nr ir : Nat) (st : List (Option Nat)) : Nat × Nat × List (Option Nat) :=
  match len with
  | some 0 => (nr, ir, st)
  | some n => if nr = 0 ∧ ir = 0 then (nr, ir, some n :: st) else (satAdd nr n, ir, st)
  | none =>
    if nr = 0 ∧ ir = 0 then (nr, ir, none :: st)
    else if nr < 2 then (nr, satAdd ir 1, st)
    else (0, 0, none :: some (nr - 1) :: (List.replicate ir none ++ st))

def skipLoop : Nat → Nat → Nat → List (Option Nat) → Bytes → Res Unit
  | 0, _, _, _, _ => .err
  | fuel + 1, nr, ir, st, bs =>
    if nr = 0 ∧ ir = 0 ∧ st.isEmpty then .ok () bs
    else
      match bs with
      | [] => .eoi
      | b :: rest =>
        let n := b.toNat
        let next (nr ir : Nat) (st : List (Option Nat)) (r : Bytes) : Res Unit :=
          match skipTail nr ir st with
          | none => .ok () r
          | some (nr', ir', st') => skipLoop fuel nr' ir' st' r
        if n ≤ 0x1b then (u64 (b :: rest)).bind fun _ r => next nr ir st r
        else if 0x20 ≤ n ∧ n ≤ 0x3b then (unsignedArg (info b) rest .err).bind fun _ r => next nr ir st r
        else if 0x40 ≤ n ∧ n ≤ 0x5f then (skipStr 2 (b :: rest)).bind fun _ r => next nr ir st r
        else if 0x60 ≤ n ∧ n ≤ 0x7f then (skipStr 3 (b :: rest)).bind fun _ r => next nr ir st r
        else if 0x80 ≤ n ∧ n ≤ 0x9f then
          (array (b :: rest)).bind fun len r =>
            let (nr', ir', st') := skipOpen len nr ir st
            next nr' ir' st' r
        else if 0xa0 ≤ n ∧ n ≤ 0xbf then
          (map (b :: rest)).bind fun len r =>
            let (nr', ir', st') := skipOpen (len.map satMul2) nr ir st
            next nr' ir' st' r
        else if 0xc0 ≤ n ∧ n ≤ 0xdb then
          -- `continue`: the tag head does not count as an item
          (unsignedArg (info b) rest .err).bind fun _ r => skipLoop fuel nr ir st r
        else if 0xe0 ≤ n ∧ n ≤ 0xfb then (unsignedArg (info b) rest .err).bind fun _ r => next nr ir st r
        else if n = 0xff then
          if nr = 0 ∧ ir = 0 then
            next nr ir (match st with | none :: st' => st' | st => st) rest
          else next nr (ir - 1) st rest
        else .err

/-- `Decoder::skip`: every iteration consumes at least one byte, so `length + 1` rounds of fuel
    are never exhausted. -/
def skip : Dec Unit := fun bs => skipLoop (bs.length + 1) 1 0 [] bs

/-- `AnyCbor::decode`: the bytes `skip` went over, verbatim -/
def anyCbor : Dec Bytes := fun bs =>
  (skip bs).bind fun _ r => .ok (bs.take (bs.length - r.length)) r

/-! ### containers of decodable values -/

/-- `ArrayIter` / `MapIter` in state `Def(n)`: exactly `n` element decodes (stops at the first error) -/
def decN {α : Type} (d : Dec α) : Nat → Dec (List α)
  | 0, bs => .ok [] bs
  | n + 1, bs => (d bs).bind fun a r => (decN d n r).bind fun as r' => .ok (a :: as) r'

/-- state `Indef`: elements until the break byte -/
def decBreak {α : Type} (d : Dec α) : Nat → Dec (List α)
  | 0, _ => .err
  | _ + 1, [] => .eoi
  | fuel + 1, b :: rest =>
    if b = 0xff then .ok [] rest
    else (d (b :: rest)).bind fun a r => (decBreak d fuel r).bind fun as r' => .ok (a :: as) r'

/-- `Vec<T>::decode` = `array_iter().collect()` -/
def vec {α : Type} (d : Dec α) : Dec (List α) := fun bs =>
  (array bs).bind fun len r =>
    match len with
    | some n => decN d n r
    | none => decBreak d (r.length + 1) r

/-- `Option<T>::decode`: only `null` (0xf6) is `None` -/
def option {α : Type} (d : Dec α) : Dec (Option α) := fun bs =>
  (datatype bs).bind fun t _ =>
    if t = .null then
      match bs with
      | _ :: rest => .ok none rest
      | [] => .eoi
    else (d bs).map some

/-- `(A, B)::decode`: a definite array of exactly two -/
def tuple2 {α β : Type} (da : Dec α) (db : Dec β) : Dec (α × β) := fun bs =>
  (array bs).bind fun len r =>
    if len ≠ some 2 then .err
    else (da r).bind fun a r1 => (db r1).bind fun b r2 => .ok (a, b) r2

/-- insertion into a key-sorted association list, replacing an equal key (`BTreeMap::insert`,
    and `HashMap::insert` up to the canonical key order used when printing / re-encoding) -/
def insertKV {β : Type} (k : Nat) (v : β) : List (Nat × β) → List (Nat × β)
  | [] => [(k, v)]
  | (k', v') :: rest =>
    if k < k' then (k, v) :: (k', v') :: rest
    else if k = k' then (k, v) :: rest
    else (k', v') :: insertKV k v rest

/-- strictly increasing keys -/
def sortedKeys {β : Type} : List (Nat × β) → Bool
  | [] => true
  | [_] => true
  | a :: b :: rest => decide (a.1 < b.1) && sortedKeys (b :: rest)

def fromPairs {β : Type} (ps : List (Nat × β)) : List (Nat × β) :=
  ps.foldl (fun m p => insertKV p.1 p.2 m) []

def pair {α β : Type} (da : Dec α) (db : Dec β) : Dec (α × β) := fun bs =>
  (da bs).bind fun a r => (db r).bind fun b r' => .ok (a, b) r'

/-- `BTreeMap<K, V>::decode` = `map_iter()`, definite or indefinite, inserted one by one -/
def btreeMap {β : Type} (dk : Dec Nat) (dv : Dec β) : Dec (List (Nat × β)) := fun bs =>
  (map bs).bind fun len r =>
    (match len with
     | some n => decN (pair dk dv) n r
     | none => decBreak (pair dk dv) (r.length + 1) r).map fromPairs

/-! ## encoder side -/

/-- tree of `minicbor::Encoder` calls -/
inductive E where
  | uint (n : Nat)
  | bool (b : Bool)
  | null
  | bytes (bs : Bytes)
  | text (bs : Bytes)
  /-- `e.array(n)` followed by the encodings `xs` (the code's own `n`, whatever `xs` is) -/
  | arr (n : Nat) (xs : List E)
  /-- `e.begin_array()` … `e.end()` -/
  | arrI (xs : List E)
  /-- `e.map(n)` followed by keys and values alternating -/
  | map (n : Nat) (kvs : List E)
  /-- `e.begin_map()` … `e.end()` -/
  | mapI (kvs : List E)
  | tag (t : Nat) (x : E)
  /-- `AnyCbor::encode`: bytes written verbatim -/
  | raw (bs : Bytes)
  deriving Repr, Inhabited

def boolByte (b : Bool) : UInt8 := if b then 0xf5 else 0xf4

mutual
def E.encode : E → Bytes
  | .uint n => (minHead 0 n).encode
  | .bool b => [boolByte b]
  | .null => [0xf6]
  | .bytes bs => (minHead 2 bs.length).encode ++ bs
  | .text bs => (minHead 3 bs.length).encode ++ bs
  | .arr n xs => (minHead 4 n).encode ++ E.encodeList xs
  | .arrI xs => 0x9f :: (E.encodeList xs ++ [0xff])
  | .map n kvs => (minHead 5 n).encode ++ E.encodeList kvs
  | .mapI kvs => 0xbf :: (E.encodeList kvs ++ [0xff])
  | .tag t x => (minHead 6 t).encode ++ x.encode
  | .raw bs => bs
def E.encodeList : List E → Bytes
  | [] => []
  | x :: xs => x.encode ++ E.encodeList xs
end

/-- the item a verbatim byte string stands for (`null` if it is not exactly one item) -/
def leafItem (bs : Bytes) : Item :=
  match parseItem bs with
  | some (i, []) => i
  | _ => mkNull

mutual
/-- the concrete syntax tree the calls build, with the declared lengths as declared -/
def E.toItem : E → Item
  | .uint n => mkUInt n
  | .bool b => mkBool b
  | .null => mkNull
  | .bytes bs => mkBytes bs
  | .text bs => mkText bs
  | .arr n xs => .seq (minHead 4 n) (E.toItems xs)
  | .arrI xs => .seqIndef 4 (E.toItems xs)
  | .map n kvs => .seq (minHead 5 n) (E.toItems kvs)
  | .mapI kvs => .seqIndef 5 (E.toItems kvs)
  | .tag t x => mkTag t x.toItem
  | .raw bs => leafItem bs
def E.toItems : List E → List Item
  | [] => []
  | x :: xs => x.toItem :: E.toItems xs
end

mutual
/-- everything a strict generic decoder checks: representable heads, **declared lengths equal to
    the number of items that follow**, verbatim leaves that are exactly one item -/
def E.ok : E → Bool
  | .uint n => decide (n < 2 ^ 64)
  | .bool _ => true
  | .null => true
  | .bytes bs => decide (bs.length < 2 ^ 64)
  | .text bs => decide (bs.length < 2 ^ 64)
  | .arr n xs => decide (n < 2 ^ 64) && decide (xs.length = n) && E.okList xs
  | .arrI xs => E.okList xs
  | .map n kvs => decide (n < 2 ^ 64) && decide (kvs.length = 2 * n) && E.okList kvs
  | .mapI kvs => decide (kvs.length % 2 = 0) && E.okList kvs
  | .tag t x => decide (t < 2 ^ 64) && x.ok
  | .raw bs => isSingleItem bs
def E.okList : List E → Bool
  | [] => true
  | x :: xs => x.ok && E.okList xs
end

mutual
/-- only the length clause: every `array(n)` / `map(n)` is followed by exactly `n` (`2n`) items -/
def E.lensOk : E → Bool
  | .arr n xs => decide (xs.length = n) && E.lensOkList xs
  | .arrI xs => E.lensOkList xs
  | .map n kvs => decide (kvs.length = 2 * n) && E.lensOkList kvs
  | .mapI kvs => decide (kvs.length % 2 = 0) && E.lensOkList kvs
  | .tag _ x => x.lensOk
  | _ => true
def E.lensOkList : List E → Bool
  | [] => true
  | x :: xs => x.lensOk && E.lensOkList xs
end

end PallasVerif.NetCodec
