import PallasVerif.Model.Cbor
import PallasVerif.Model.CborFast
import PallasVerif.Model.Utxo
import PallasVerif.Model.Traverse
/-
  Views of ledger CBOR taken directly on the generic concrete syntax tree (`Model/Cbor.lean`),
  with no typed decoder: which items of a transaction / block are the inputs, outputs, collateral,
  validity flag, bodies, witness sets, auxiliary data, invalid list. Used by the streams of
  C31 / C30 / C05 as the model-side reading of the same bytes pallas decodes.
  Import-free (Model only).
-/
namespace PallasVerif.TxView
open PallasVerif.Cbor PallasVerif.Utxo

/-- the four shapes `MultiEraTx` distinguishes -/
inductive EraKind where
  | byron | alonzo | babbage | conway
  deriving DecidableEq, Repr, Inhabited

def EraKind.ofString? : String → Option EraKind
  | "byron" => some .byron
  | "alonzo" => some .alonzo
  | "babbage" => some .babbage
  | "conway" => some .conway
  | _ => none

/-- `Set<T>` / `NonEmptySet<T>`: optional tag 258 around the array -/
def untag258 : Item → Item
  | .tag h i => if h.val = 258 then i else .tag h i
  | i => i

/-- value of the first entry whose key is the unsigned integer `k` -/
def mapGet (k : Nat) : List (Item × Item) → Option Item
  | [] => none
  | (key, v) :: rest => if key.uint? = some k then some v else mapGet k rest

def bool? : Item → Option Bool
  | .atom h => if h.major = 7 ∧ h.ai = 21 then some true else if h.major = 7 ∧ h.ai = 20 then some false else none
  | _ => none

def isNull : Item → Bool
  | .atom h => h.major = 7 ∧ h.ai = 22
  | _ => false

/-- `[tx_id : bytes, index : uint]` -/
def txIn? (i : Item) : Option TxIn :=
  match i.arrayItems? with
  | some [h, ix] =>
    match h.strPayload? 2, ix.uint? with
    | some hb, some n => some ⟨hb, n⟩
    | _, _ => none
  | _ => none

def allSome {α β} (f : α → Option β) : List α → Option (List β)
  | [] => some []
  | x :: xs =>
    match f x, allSome f xs with
    | some y, some ys => some (y :: ys)
    | _, _ => none

def txIns? (set : Bool) (i : Item) : Option (List TxIn) :=
  match (if set then untag258 i else i).arrayItems? with
  | some xs => allSome txIn? xs
  | none => none

/-- what the streams print of an output: raw address bytes and lovelace -/
structure OutId where
  addr : Bytes
  coin : Nat
  deriving DecidableEq, Repr, Inhabited

/-- `Value`: `coin` or `[coin, multiasset]` -/
def coin? (v : Item) : Option Nat :=
  match v.uint? with
  | some c => some c
  | none =>
    match v.arrayItems? with
    | some (c :: _) => c.uint?
    | _ => none

/-- legacy `[address, value, ?datum_hash]` or post-Alonzo `{0: address, 1: value, ..}` -/
def outId? (o : Item) : Option OutId :=
  match o.arrayItems? with
  | some (a :: v :: _) =>
    match a.strPayload? 2, coin? v with
    | some ab, some c => some ⟨ab, c⟩
    | _, _ => none
  | some _ => none
  | none =>
    match o.mapEntries? with
    | some es =>
      match mapGet 0 es, mapGet 1 es with
      | some a, some v =>
        match a.strPayload? 2, coin? v with
        | some ab, some c => some ⟨ab, c⟩
        | _, _ => none
      | _, _ => none
    | none => none

/-- Byron `TxIn::Variant0`: `[0, #6.24(bytes .cbor [txid, u32])]` -/
def byronTxIn? (i : Item) : Option TxIn :=
  match i.arrayItems? with
  | some [v, .tag h w] =>
    if v.uint? = some 0 ∧ h.val = 24 then
      match w.strPayload? 2 with
      | some inner =>
        match parseItem inner with
        | some (p, []) => txIn? p
        | _ => none
      | none => none
    else none
  | _ => none

/-- Byron `TxOut`: `[address, amount]`; the address is not printed (`addr = []`) -/
def byronOutId? (o : Item) : Option OutId :=
  match o.arrayItems? with
  | some [_, c] => (c.uint?).map fun n => ⟨[], n⟩
  | _ => none

/-- The accessors `is_valid / inputs / outputs / collateral / collateral_return` read off the
    bytes of a stand-alone transaction (`MultiEraTx::decode_for_era`). -/
def viewTx (era : EraKind) (bs : Bytes) : Option (Tx OutId) :=
  match parseItem bs with
  | some (top, []) =>
    match era, top.arrayItems? with
    | .byron, some [tx, _wits] =>
      match tx.arrayItems? with
      | some [ins, outs, _attrs] =>
        match ins.arrayItems?, outs.arrayItems? with
        | some is, some os =>
          match allSome byronTxIn? is, allSome byronOutId? os with
          | some is', some os' =>
            some { valid := true, inputs := is', outputs := os', collateral := [], collateralReturn := none }
          | _, _ => none
        | _, _ => none
      | _ => none
    | .byron, _ => none
    | e, some [body, _wits, flag, _aux] =>
      match body.mapEntries?, bool? flag with
      | some es, some v =>
        let set := e = .conway
        match mapGet 0 es, mapGet 1 es with
        | some ins, some outs =>
          match txIns? set ins, outs.arrayItems? with
          | some is', some os =>
            match allSome outId? os with
            | some os' =>
              let col : Option (List TxIn) :=
                match mapGet 13 es with
                | none => some []
                | some c => txIns? set c
              let cr : Option (Option OutId) :=
                if e = .alonzo then some none else
                match mapGet 16 es with
                | none => some none
                | some o => (outId? o).map some
              match col, cr with
              | some col', some cr' =>
                some { valid := v, inputs := is', outputs := os', collateral := col', collateralReturn := cr' }
              | _, _ => none
            | none => none
          | _, _ => none
        | _, _ => none
      | _, _ => none
    | _, _ => none
  | _ => none

/-! ## blocks -/

/-- the parts of `[tag, [header, bodies, wits, aux, ?invalid]]` (post-Byron), of a Byron main block
    `[1, [header, [tx_payload, ..], extra]]` or of an epoch-boundary block `[0, [header, ..]]`,
    each part still a syntax tree (its `encode` is the original byte span) -/
structure BlockView where
  tag : Nat
  header : Item
  bodies : List Item
  wits : List Item
  auxWire : List (Nat × Item)
  invalid : Option (List Nat)
  /-- Byron: the `[tx, witnesses]` items -/
  payloads : List Item
  deriving Inhabited

def auxEntries? : List (Item × Item) → Option (List (Nat × Item))
  | [] => some []
  | (k, v) :: rest =>
    match k.uint?, auxEntries? rest with
    | some n, some r => some ((n, v) :: r)
    | _, _ => none

def viewBlockItem (top : Item) : Option BlockView :=
  match top.arrayItems? with
  | some [t, inner] =>
    match t.uint?, inner.arrayItems? with
    | some tag, some parts =>
      if tag = 0 then
        match parts with
        | header :: _ => some { tag := tag, header := header, bodies := [], wits := [], auxWire := [], invalid := none, payloads := [] }
        | _ => none
      else if tag = 1 then
        match parts with
        | header :: body :: _ =>
          match body.arrayItems? with
          | some (txp :: _) =>
            match txp.arrayItems? with
            | some ps => some { tag := tag, header := header, bodies := [], wits := [], auxWire := [], invalid := none, payloads := ps }
            | none => none
          | _ => none
        | _ => none
      else
        match parts with
        | header :: bodies :: wits :: aux :: rest =>
          match bodies.arrayItems?, wits.arrayItems?, aux.mapEntries? with
          | some bs, some ws, some es =>
            match auxEntries? es with
            | some aw =>
              match rest with
              | [] => some { tag := tag, header := header, bodies := bs, wits := ws, auxWire := aw, invalid := none, payloads := [] }
              | [inv] =>
                match inv.arrayItems? with
                | some xs =>
                  match allSome Item.uint? xs with
                  | some ns => some { tag := tag, header := header, bodies := bs, wits := ws, auxWire := aw, invalid := some ns, payloads := [] }
                  | none => none
                | none => none
              | _ => none
            | none => none
          | _, _, _ => none
        | _ => none
    | _, _ => none
  | _ => none

def viewBlock (bs : Bytes) : Option BlockView :=
  match parseItem bs with
  | some (top, []) => viewBlockItem top
  | _ => none

/-- the block record the traversal (`Model/Traverse.lean`) works on, read off the generic syntax
    tree of the block bytes: every part is kept as its original byte span; the aux map is what
    decoding the wire map into a `BTreeMap` yields -/
def recordOfView (v : BlockView) : Traverse.Block Bytes Bytes Bytes :=
  { bodies := v.bodies.map Item.encode, wits := v.wits.map Item.encode,
    aux := Traverse.auxOfWire (v.auxWire.map fun p => (p.1, p.2.encode)), invalid := v.invalid }

end PallasVerif.TxView
