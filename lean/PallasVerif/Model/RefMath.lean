import PallasVerif.Model.Decimal
/-!
# Model of `pallas-math/src/math_dashu.rs` — `ref_exp`, `ref_ln`, `ref_pow`, `ref_exp_cmp` (C15, C16)

Transcription of the Cardano non-integral fixed-point reference as pallas implements it, on `Int`
with `scale` (floor) and `div` (two-step truncating) from `Model/Decimal.lean`. `while` loops take
fuel equal to their iteration caps (`max_n`), unbounded loops (`find_e`) take a fuel that cannot
be exhausted by any representable input (64 doublings / 128 bisections); running out of it, any
division by zero, the `i64::try_from(..).expect(..)` in `ref_exp`, `ln` of a non-positive value and
`0^negative` are the explicit `none` (= panic) outcome.
-/
namespace PallasVerif.RefMath
open PallasVerif.Decimal

/-- `ONE = 1 * PRECISION` -/
def ONE : Int := P
/-- `EPS = TEN.pow(34 - 24)` -/
def EPS : Int := 10000000000

/-- `(&v).abs() < epsilon.abs()` -/
def absLt (v eps : Int) : Bool := v.natAbs < eps.natAbs

/-- `fn div_round_ceil` -/
def divRoundCeil (x y : Int) : Int :=
  let q := x.tdiv y
  let r := x.tmod y
  if ¬ isNeg q ∧ r ≠ 0 then q + 1 else q

/-- `fn ipow_` (n ≥ 0): square-and-multiply, `scale` after every product -/
def ipowNat (x : Int) (n : Nat) : Int :=
  if n = 0 then ONE
  else if n % 2 = 0 then
    let res := ipowNat x (n / 2)
    scale (res * res)
  else
    let res := ipowNat x (n - 1)
    scale (res * x)
termination_by n
decreasing_by all_goals omega

/-- `fn ipow` (n : i64) -/
def ipow (x : Int) (n : Int) : Option Int :=
  if n < 0 then div ONE (ipowNat x (-n).toNat) else some (ipowNat x n.toNat)

/-- loop of `fn mp_exp_taylor`; state `(n, rop, divisor, last_x)`; returns `(n, rop)` -/
def taylorLoop (x eps : Int) : Nat → Nat → Int → Int → Int → Option (Nat × Int)
  | 0, n, rop, _, _ => some (n, rop)
  | fuel + 1, n, rop, divisor, lastX =>
    match div (scale (x * lastX)) divisor with
    | none => none
    | some nextX =>
      if absLt nextX eps then some (n, rop)
      else taylorLoop x eps fuel (n + 1) (rop + nextX) (divisor + ONE) nextX

/-- `fn mp_exp_taylor(rop, max_n, x, epsilon) -> n` -/
def mpExpTaylor (maxN : Nat) (x eps : Int) : Option (Nat × Int) :=
  taylorLoop x eps maxN 0 ONE ONE ONE

/-- `fn ref_exp` for `x > 0`: scale by `n = ceil(x)`, Taylor on `x / n`, raise to the `n`-th power -/
def refExpPos (x : Int) : Option (Nat × Int) :=
  let nExp := divRoundCeil x P
  let x' := x.tdiv nExp
  match mpExpTaylor 1000 x' EPS with
  | none => none
  | some (it, rop) =>
    -- `i64::try_from(&n_exponent).expect(..)`
    if nExp > 9223372036854775807 then none else
    match ipow rop nExp with
    | none => none
    | some r => some (it, r)

/-- `fn ref_exp(rop, x) -> iterations` -/
def refExp (x : Int) : Option (Nat × Int) :=
  if x = 0 then some (0, ONE)
  else if x < 0 then
    match refExpPos (-x) with
    | none => none
    | some (it, temp) =>
      match div ONE temp with
      | none => none
      | some r => some (it, r)
  else refExpPos x

/-- `static E = ref_exp(ONE)`; the value is pinned by `E_eq` in `Props/C15.lean` -/
def E : Int := 27182818284590452353602874043083282

/-- state of the `mp_ln_n` loop -/
structure LnSt where
  n : Nat
  currA : Int
  b : Int
  anM2 : Int
  bnM2 : Int
  anM1 : Int
  bnM1 : Int
  first : Bool
  last : Int
  convergent : Int

/-- loop of `fn mp_ln_n` (`while n <= max_n + 2`) -/
def lnLoop (x eps : Int) (maxN : Nat) : Nat → LnSt → Option Int
  | 0, s => some s.convergent
  | fuel + 1, s =>
    if ¬ (s.n ≤ maxN + 2) then some s.convergent else
    let currA2 := s.currA * s.currA
    let a := x * currA2
    let currA := if s.n > 1 ∧ s.n % 2 = 1 then s.currA + 1 else s.currA
    let ba := scale (s.b * s.anM1)
    let aa := scale (a * s.anM2)
    let a' := ba + aa
    let bb := scale (s.b * s.bnM1)
    let ab := scale (a * s.bnM2)
    let b' := bb + ab
    match div a' b' with
    | none => none
    | some convergent =>
      if ¬ s.first ∧ absLt (convergent - s.last) eps then some convergent
      else lnLoop x eps maxN fuel
        { n := s.n + 1, currA := currA, b := s.b + ONE, anM2 := s.anM1, bnM2 := s.bnM1,
          anM1 := a', bnM1 := b', first := false, last := convergent, convergent := convergent }

/-- `fn mp_ln_n(rop, max_n, x, epsilon)` -/
def mpLnN (maxN : Nat) (x eps : Int) : Option Int :=
  lnLoop x eps maxN (maxN + 3)
    { n := 1, currA := 1, b := ONE, anM2 := ONE, bnM2 := 0, anM1 := 0, bnM1 := ONE,
      first := true, last := 0, convergent := 0 }

/-- first loop of `fn find_e`: square `1/e` and `e` until they bracket `x` -/
def findELoop1 (x : Int) : Nat → Int → Int → Int → Int → Option (Int × Int)
  | 0, _, _, _, _ => none
  | fuel + 1, xl, xu, l, u =>
    if xl > x ∨ xu < x then
      findELoop1 x fuel (scale (xl * xl)) (scale (xu * xu)) (l * 2) (u * 2)
    else some (l, u)

/-- second loop of `fn find_e`: bisection on the exponent -/
def findELoop2 (x : Int) : Nat → Int → Int → Option Int
  | 0, _, _ => none
  | fuel + 1, l, u =>
    if l + 1 ≠ u then
      let mid := l + (u - l).tdiv 2
      match ipow E mid with
      | none => none
      | some xm => if x < xm then findELoop2 x fuel l mid else findELoop2 x fuel mid u
    else some l

/-- `fn find_e(x) -> i64` -/
def findE (x : Int) : Option Int :=
  match div ONE E with
  | none => none
  | some xl =>
    match findELoop1 x 64 xl E (-1) 1 with
    | none => none
    | some (l, u) => findELoop2 x 128 l u

/-- `fn ref_ln(rop, x) -> bool`; `some none` = returned `false` -/
def refLn (x : Int) : Option (Option Int) :=
  if x ≤ 0 then some none else
  match findE x with
  | none => none
  | some n =>
    let rop := n * P
    match refExp rop with
    | none => none
    | some (_, factor) =>
      match div x factor with
      | none => none
      | some x' =>
        match mpLnN 1000 (x' - ONE) EPS with
        | none => none
        | some l => some (some (rop + l))

/-- `fn ref_pow(rop, base, exponent)` -/
def refPow (base exponent : Int) : Option Int :=
  if exponent = 0 ∨ base = ONE then some ONE
  else if exponent = ONE then some base
  else if base = 0 ∧ exponent > 0 then some (0 * P)
  else if base = 0 ∧ exponent < 0 then none
  else if base < 0 then
    match refLn (-base) with
    | some (some tmp) =>
      match refExp (scale (tmp * exponent)) with
      | none => none
      | some (_, r) =>
        let rem := (exponent.tdiv P).tmod 2
        some (if rem = 0 then r else -r)
    | _ => none
  else
    match refLn base with
    | some (some tmp) =>
      match refExp (scale (tmp * exponent)) with
      | none => none
      | some (_, r) => some r
    | _ => none

/-- `FixedPrecision::exp` -/
def expD (x : Int) : Option Int := (refExp x).map (·.2)
/-- `FixedPrecision::ln` (`panic!("ln of a value in (-inf,0] is undefined")`) -/
def lnD (x : Int) : Option Int :=
  match refLn x with
  | some (some r) => some r
  | _ => none
/-- `FixedPrecision::pow` -/
def powD (x y : Int) : Option Int := refPow x y

inductive Est | gt | lt | unknown
  deriving DecidableEq, Repr

structure CmpRes where
  iterations : Nat
  estimation : Est
  approx : Int
  deriving DecidableEq, Repr

/-- `error_term`: after `fix: ref_exp_cmp …` the magnitude `|error * bound_x|` (as the Haskell
    reference `taylorExpCmp` has it); in the unrepaired tree the signed product, which for negative
    `x` makes `upper < lower` at every other step -/
def errorTermOf (fixed : Bool) (error bound : Int) : Int :=
  if fixed then ((error * bound).natAbs : Int) else error * bound

/-- loop of `fn ref_exp_cmp`; state `(n, rop, divisor, error)` -/
def expCmpLoop (fixed : Bool) (x bound cmp : Int) : Nat → Nat → Int → Int → Int → Option CmpRes
  | 0, n, rop, _, _ => some ⟨n, .unknown, rop⟩
  | fuel + 1, n, rop, divisor, error =>
    let nextX := error
    if absLt nextX EPS then some ⟨n, .unknown, rop⟩ else
    let divisor := divisor + ONE
    match div (scale (error * x)) divisor with
    | none => none
    | some error =>
      let errorTerm := errorTermOf fixed error bound
      let rop := rop + nextX
      let upper := rop + errorTerm
      if cmp > upper then some ⟨n + 1, .gt, rop⟩ else
      let lower := rop - errorTerm
      if cmp < lower then some ⟨n + 1, .lt, rop⟩ else
      expCmpLoop fixed x bound cmp fuel (n + 1) rop divisor error

/-- `fn ref_exp_cmp(rop, max_n, x, bound_x, compare)` (repaired tree) -/
def refExpCmp (maxN : Nat) (x bound cmp : Int) : Option CmpRes :=
  expCmpLoop true x bound cmp maxN 0 ONE ONE x

/-- `fn ref_exp_cmp` of the unrepaired tree (kept to state the recorded deviation) -/
def refExpCmpOrig (maxN : Nat) (x bound cmp : Int) : Option CmpRes :=
  expCmpLoop false x bound cmp maxN 0 ONE ONE x

end PallasVerif.RefMath
