/-
  Model of the transaction-size measure and the fee / size rules of phase-1 validation:
  `pallas-traverse/src/size.rs` (`MultiEraTx::size` = `body_size + witness_set_size + aux_data_size`),
  `pallas-validate/src/utils.rs` (`get_alonzo_comp_tx_size`, `get_babbage_tx_size`, `get_conway_tx_size`,
  which after the `fix:` commit recorded in `known_findings.d/C36.json` all return
  `MultiEraTx::size() as u32`), `check_min_fee` / Shelley `check_fees`, `check_tx_size`, and the order in
  which each era's `validate_*_tx` applies them.

  A transaction is viewed as the byte lengths of its three original CBOR parts
  (`KeepRaw::raw_cbor().len()`); `aux = none` is the `null` placeholder.
  The fee formula is computed in `u64` from `u32` operands (C33 `fix:`; it was `u32` arithmetic with an overflow panic).
-/
namespace PallasVerif.FeeSize

def U32_MAX : Nat := 4294967295

structure Parts where
  body : Nat
  wits : Nat
  aux : Option Nat
  deriving Repr, DecidableEq

/-- `aux_data_size`: `Nullable::Some(x) => x.raw_cbor().len() + 1, _ => 2` -/
def auxDataSize (p : Parts) : Nat :=
  match p.aux with
  | some a => a + 1
  | none => 2

/-- `MultiEraTx::size` for the post-Byron variants -/
def traverseSize (p : Parts) : Nat := p.body + p.wits + auxDataSize p

/-- `get_*_tx_size`: `MultiEraTx::..(mtx).size() as u32` (the cast truncates) -/
def validatorSize (p : Parts) : Nat := traverseSize p % (U32_MAX + 1)

/-- the sizes the unchanged tree computed (kept for the negative examples):
    Alonzo-compatible eras summed the three raw parts only, Babbage/Conway re-encoded the whole
    4-element array including the validity flag -/
def oldAlonzoCompSize (p : Parts) : Nat := p.body + p.wits + p.aux.getD 0
def oldReencodeSize (p : Parts) : Nat := 1 + p.body + p.wits + 1 + p.aux.getD 1

inductive Res where
  | ok | feeBelowMin | maxTxSizeExceeded | panic
  deriving DecidableEq, Repr

def U64_MAX : Nat := 18446744073709551615

/-- `if tx_body.fee < minfee_b as u64 + minfee_a as u64 * *size as u64 { Err(FeeBelowMin) }`: `u64` arithmetic on
    operands that are `u32`s (the `panic` arms are the overflow checks; `Props/C33.lean` shows them dead) -/
def checkMinFee (fee a b size : Nat) : Res :=
  if a * size > U64_MAX then .panic
  else if b + a * size > U64_MAX then .panic
  else if fee < b + a * size then .feeBelowMin else .ok

/-- `if *size > prot_pps.max_transaction_size { Err(MaxTxSizeExceeded) }` -/
def checkTxSize (size maxSize : Nat) : Res :=
  if size > maxSize then .maxTxSizeExceeded else .ok

inductive Era where
  | shelleyMA | alonzo | babbage | conway
  deriving DecidableEq, Repr

/-- the fee and size rules in the order of `validate_<era>_tx` (Shelley-MA: size first, then fees;
    Alonzo/Babbage/Conway: minimum fee first, size later), all other rules passing -/
def feeAndSize (era : Era) (p : Parts) (fee a b maxSize : Nat) : Res :=
  let size := validatorSize p
  match era with
  | .shelleyMA =>
    match checkTxSize size maxSize with
    | .ok => checkMinFee fee a b size
    | r => r
  | _ =>
    match checkMinFee fee a b size with
    | .ok => checkTxSize size maxSize
    | r => r

end PallasVerif.FeeSize
