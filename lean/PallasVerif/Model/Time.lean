/-
  Model of `pallas-traverse/src/time.rs` (slot / epoch / wall-clock arithmetic) over the numeric
  fields of `wellknown.rs::GenesisValues`.

  All Rust values are `u64` (the `u32` lengths are widened with `as u64` before use). The harness
  builds pallas in the `dev` profile, so `+ - *` on `u64` panic on overflow / underflow, `/` and `%`
  panic on a zero divisor and `assert!` panics: every such site is an explicit `none` (= `panic`)
  here. Functions are transcribed arm by arm, including the remainder that is taken modulo the
  epoch length *in seconds* (`era_slot % era_epoch_length`) — that is what the code does.
-/
namespace PallasVerif.Time

/-- `u64` range -/
def U64 : Nat := 2 ^ 64

/-- numeric fields of `GenesisValues` (hashes, magic and network id play no role in time.rs) -/
structure Genesis where
  byronEpochLength : Nat     -- u32, seconds
  byronSlotLength : Nat      -- u32, seconds
  byronKnownSlot : Nat       -- u64
  byronKnownTime : Nat       -- u64
  shelleyEpochLength : Nat   -- u32, seconds
  shelleySlotLength : Nat    -- u32, seconds
  shelleyKnownSlot : Nat     -- u64
  shelleyKnownTime : Nat     -- u64
  deriving Repr, DecidableEq

/-- `compute_linear_timestamp`: `known_time + (query_slot - known_slot) * slot_length` -/
def computeLinearTimestamp (knownSlot knownTime slotLength querySlot : Nat) : Option Nat :=
  if querySlot < knownSlot then none                                   -- `-` underflow
  else if (querySlot - knownSlot) * slotLength ≥ U64 then none         -- `*` overflow
  else if knownTime + (querySlot - knownSlot) * slotLength ≥ U64 then none  -- `+` overflow
  else some (knownTime + (querySlot - knownSlot) * slotLength)

/-- `compute_era_epoch`: `assert!(len > 0)`; `epoch = slot * slot_len / epoch_len`;
    `reminder = slot % epoch_len` (sic: modulo the epoch length in seconds) -/
def computeEraEpoch (eraSlot eraSlotLength eraEpochLength : Nat) : Option (Nat × Nat) :=
  if eraEpochLength = 0 then none                                      -- assert!
  else if eraSlot * eraSlotLength ≥ U64 then none                      -- `*` overflow
  else some ((eraSlot * eraSlotLength) / eraEpochLength, eraSlot % eraEpochLength)

/-- `compute_absolute_slot_within_era`:
    `((sub_era_epoch * era_epoch_length) / era_slot_length) + sub_epoch_slot` -/
def computeAbsoluteSlotWithinEra (subEraEpoch subEpochSlot eraEpochLength eraSlotLength : Nat) :
    Option Nat :=
  if subEraEpoch * eraEpochLength ≥ U64 then none                      -- `*` overflow
  else if eraSlotLength = 0 then none                                  -- `/ 0`
  else if (subEraEpoch * eraEpochLength) / eraSlotLength + subEpochSlot ≥ U64 then none  -- `+`
  else some ((subEraEpoch * eraEpochLength) / eraSlotLength + subEpochSlot)

/-- `GenesisValues::shelley_start_epoch` -/
def shelleyStartEpoch (g : Genesis) : Option Nat :=
  match computeEraEpoch g.shelleyKnownSlot g.byronSlotLength g.byronEpochLength with
  | some (epoch, _) => some epoch
  | none => none

/-- `GenesisValues::slot_to_wallclock` -/
def slotToWallclock (g : Genesis) (slot : Nat) : Option Nat :=
  if slot < g.shelleyKnownSlot then
    computeLinearTimestamp g.byronKnownSlot g.byronKnownTime g.byronSlotLength slot
  else
    computeLinearTimestamp g.shelleyKnownSlot g.shelleyKnownTime g.shelleySlotLength slot

/-- `GenesisValues::absolute_slot_to_relative` -/
def absoluteSlotToRelative (g : Genesis) (slot : Nat) : Option (Nat × Nat) :=
  if slot < g.shelleyKnownSlot then
    computeEraEpoch slot g.byronSlotLength g.byronEpochLength
  else
    -- `slot - shelley_known_slot` cannot underflow in this branch
    match computeEraEpoch (slot - g.shelleyKnownSlot) g.shelleySlotLength g.shelleyEpochLength with
    | none => none
    | some (eraEpoch, reminder) =>
      match shelleyStartEpoch g with
      | none => none
      | some start =>
        if start + eraEpoch ≥ U64 then none                            -- `+` overflow
        else some (start + eraEpoch, reminder)

/-- `GenesisValues::relative_slot_to_absolute` -/
def relativeSlotToAbsolute (g : Genesis) (epoch slot : Nat) : Option Nat :=
  match shelleyStartEpoch g with
  | none => none
  | some start =>
    if epoch < start then
      computeAbsoluteSlotWithinEra epoch slot g.byronEpochLength g.byronSlotLength
    else
      match computeAbsoluteSlotWithinEra start 0 g.byronEpochLength g.byronSlotLength with
      | none => none
      | some byronSlots =>
        -- `epoch - shelley_start_epoch` cannot underflow in this branch
        match computeAbsoluteSlotWithinEra (epoch - start) slot g.shelleyEpochLength
                g.shelleySlotLength with
        | none => none
        | some shelleySlots =>
          if byronSlots + shelleySlots ≥ U64 then none                 -- `+` overflow
          else some (byronSlots + shelleySlots)

end PallasVerif.Time
