/-
  Models of the two handshake negotiation functions (C25; import-free).

  * `negotiate1` — `pallas-network/src/miniprotocols/handshake/server.rs`, `Server::handshake`:
    the server's table is collected into a `Vec`, sorted by `Reverse(version)` (`sort_by_key`, a
    stable merge sort), and for every server entry (highest first) the client's entries are scanned;
    the first equal version number decides: equal version data → `Accept`, else
    `Refuse(Refused(v, ..))`; no common number → `Refuse(VersionMismatch(server versions))` (in the
    sorted order).
  * `negotiate2` — `pallas-network2/src/behavior/responder/handshake.rs`,
    `HandshakeResponder::try_accept_handshake`: the proposed entries whose number is a key of our
    table (`filter` + `contains_key`), `max_by_key` on the number (returns the *last* maximum), our
    data looked up by index (`values[num]`, a panic site if absent); different network magic →
    `Refuse(Refused(v, ..))`, else `Accept(v, our data)`; nothing in common →
    `Refuse(VersionMismatch(our keys))` (hash-map order).

  Numbers: version numbers (`VersionNumber = u64`) and network magics (`NetworkMagic = u64`) are
  natural numbers over the **full 64-bit range** (`U64`); both functions compare them with `==` /
  `!=` on the `u64` values — no narrowing cast, no masking. The model therefore compares `Nat`s by
  equality, and Props/C25 shows at concrete 64-bit witnesses that magics (and version numbers) that agree
  in their low 8/16/32 bits but differ above are *not* treated as equal (`*_high_bits_*`).

  A `HashMap<u64, D>` is an association list whose order is whatever the hash map yields; the
  theorems assume unique keys and prove the result does not depend on the order.
-/
namespace PallasVerif.Negotiate

abbrev Table (D : Type) := List (Nat × D)

/-- the range of `VersionNumber` and `NetworkMagic` (`u64`) -/
def U64 (n : Nat) : Prop := n < 2 ^ 64

instance (n : Nat) : Decidable (U64 n) := by unfold U64; infer_instance

inductive Outcome (D : Type) where
  | accept (v : Nat) (d : D)
  /-- `Refuse(Refused(v, reason))` -/
  | refused (v : Nat)
  /-- `Refuse(VersionMismatch(versions))` -/
  | versionMismatch (ours : List Nat)
  /-- `values[num]` on a missing key -/
  | panic
  deriving DecidableEq, Repr

def keys {D : Type} (t : Table D) : List Nat := t.map (·.1)

/-- `versions.sort_by_key(|v| Reverse(v.0))` -/
def sortDesc {D : Type} (t : Table D) : Table D := t.mergeSort (fun a b => decide (b.1 ≤ a.1))

/-- the two nested `for` loops of `Server::handshake` over the sorted server table -/
def scan1 {D : Type} [DecidableEq D] (theirs : Table D) (all : Table D) : Table D → Outcome D
  | [] => .versionMismatch (keys all)
  | (v, d) :: rest =>
    match theirs.find? (fun c => c.1 = v) with
    | some c => if d = c.2 then .accept v d else .refused v
    | none => scan1 theirs all rest

def negotiate1 {D : Type} [DecidableEq D] (ours theirs : Table D) : Outcome D :=
  scan1 theirs (sortDesc ours) (sortDesc ours)

/-- `Iterator::max_by_key(|(num, _)| *num)`: the last element among the maxima -/
def maxByKey {D : Type} : Table D → Option (Nat × D)
  | [] => none
  | x :: xs => some (xs.foldl (fun best y => if best.1 ≤ y.1 then y else best) x)

def lookup {D : Type} (t : Table D) (v : Nat) : Option D := (t.find? (fun c => c.1 = v)).map (·.2)

/-- `.filter(|(num, _)| supported.contains_key(num))` -/
def common {D : Type} (ours proposed : Table D) : Table D := proposed.filter (fun p => (keys ours).contains p.1)

def negotiate2 {D : Type} (magic : D → Nat) (ours proposed : Table D) : Outcome D :=
  match maxByKey (common ours proposed) with
  | some (v, peerData) =>
    match lookup ours v with
    | some ourData => if magic peerData ≠ magic ourData then .refused v else .accept v ourData
    | none => .panic
  | none => .versionMismatch (keys ours)

end PallasVerif.Negotiate
