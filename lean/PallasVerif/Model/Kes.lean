import PallasVerif.Model.Blake2b
import PallasVerif.Model.Ed25519
/-
  Model of `pallas-crypto/src/kes/{summed_kes,single_kes,common}.rs` — the MMM binary sum
  composition, `sum_kes!` and `sum_compact_kes!`, for an arbitrary depth `d` (pallas instantiates
  `d = 1..7` by nesting the macros; `d = 0` is `Sum0Kes` / `Sum0CompactKes`).

  The key buffer of `SumdKes` is (recursively)

      [ key of the active child (SIZE d-1) | seed of the right child or 32 zero bytes | pk0 | pk1 ]

  followed, at the top level only, by the 4-byte big-endian period; `Sum0Kes` is the 32-byte
  Ed25519 secret key (= its seed). `Key` is that layout as a tree, `keyBytes` writes it out; the
  operations are transcribed on the tree, branch by branch:
    * `keygen`     — `keygen_slice`: `Seed::split_slice`, left child generated in place, the right
                     child generated in a temporary buffer only for its public key, right seed kept;
    * `update`     — `update_slice(key_slice, period)`: error when `period + 1 = 2^d`, else the three
                     `Ordering` branches on `(period + 1).cmp(2^(d-1))` (`Equal`: regenerate the child
                     region from the stored right seed, which `split_slice`/`Sum0::keygen_slice`
                     overwrite with zeros);
    * `sign` / `verify`   — `sum_kes!`: `sign_from_slice`, `KesSig::verify`;
    * `csign` / `recompute` / `cverify` — `sum_compact_kes!`: `sign_from_slice(.., period)`,
                     `KesCompactSig::{recompute, verify}`.
  Everything is parametric in the primitives `Prims` (seed split, leaf key derivation, pair hash,
  base signature), so that the same definitions are run with BLAKE2b-256 + Ed25519 on bytes
  (`conc`, compared byte for byte with pallas) and reasoned about for every depth, including with
  symbolic seeds (`sym`, used for forward security).
-/
namespace PallasVerif.Kes

abbrev Bytes := List UInt8

structure Prims where
  Seed : Type
  Pk : Type
  Sig : Type
  /-- `Seed::split_slice`: (left, right) -/
  split : Seed → Seed × Seed
  /-- Ed25519 public key of the signing key made from a seed -/
  leafPk : Seed → Pk
  /-- `PublicKey::hash_pair` -/
  h2 : Pk → Pk → Pk
  bsign : Seed → Bytes → Sig
  /-- `verify_strict` -/
  bverify : Pk → Bytes → Sig → Bool
  /-- what a zeroed seed slot reads as -/
  zeroSeed : Seed
  pkEq : DecidableEq Pk

variable (P : Prims)

instance : DecidableEq P.Pk := P.pkEq

/-- the key buffer without the trailing period -/
inductive Key (P : Prims) where
  | leaf (sk : P.Seed)
  | node (active : Key P) (seedR : Option P.Seed) (pk0 pk1 : P.Pk)

/-- `keygen_slice`: the key written to the slice and the returned public key -/
def keygen : Nat → P.Seed → Key P × P.Pk
  | 0, s => (.leaf s, P.leafPk s)
  | d + 1, s =>
    let r := P.split s
    let k0 := keygen d r.1
    let k1 := keygen d r.2
    (.node k0.1 (some r.2) k0.2 k1.2, P.h2 k0.2 k1.2)

/-- public key of the depth-`d` tree grown from `s` -/
def pkTree (d : Nat) (s : P.Seed) : P.Pk := (keygen P d s).2

/-- `update_slice(key_slice, period)`; `none` = `Err(KeyCannotBeUpdatedMore)` -/
def update : Nat → Key P → Nat → Option (Key P)
  | 0, _, _ => none
  | d + 1, .node a sr pk0 pk1, t =>
    if t + 1 = 2 ^ (d + 1) then none
    else if t + 1 < 2 ^ d then (update d a t).map (fun a' => .node a' sr pk0 pk1)
    else if t + 1 = 2 ^ d then
      -- `$sk::keygen_slice(&mut key_slice[..$sk::SIZE + 32], None)`: child region regenerated from
      -- the seed slot, seed slot zeroed
      some (.node (keygen P d (sr.getD P.zeroSeed)).1 none pk0 pk1)
    else (update d a (t - 2 ^ d)).map (fun a' => .node a' sr pk0 pk1)
  | _ + 1, .leaf _, _ => none

/-- `to_pk`: hash of the two stored public keys (the Ed25519 key itself at depth 0) -/
def toPk : Key P → P.Pk
  | .leaf s => P.leafPk s
  | .node _ _ pk0 pk1 => P.h2 pk0 pk1

/-- key buffer + period -/
structure SK (P : Prims) where
  depth : Nat
  key : Key P
  period : Nat

/-- `KesSk::keygen` -/
def skKeygen (d : Nat) (s : P.Seed) : SK P × P.Pk :=
  let k := keygen P d s
  ({ depth := d, key := k.1, period := 0 }, k.2)

/-- `KesSk::update` -/
def skUpdate (k : SK P) : Option (SK P) :=
  (update P k.depth k.key k.period).map (fun key => { k with key := key, period := k.period + 1 })

/-! ### plain sum construction -/

inductive SumSig (P : Prims) where
  | leaf (s : P.Sig)
  | node (sigma : SumSig P) (lhs rhs : P.Pk)

/-- `sign_from_slice` -/
def sign : Key P → Bytes → SumSig P
  | .leaf s, m => .leaf (P.bsign s m)
  | .node a _ pk0 pk1, m => .node (sign a m) pk0 pk1

/-- `KesSig::verify` (a signature of the wrong shape cannot be built from bytes of the right length) -/
def verify : Nat → SumSig P → Nat → P.Pk → Bytes → Bool
  | 0, .leaf s, _, pk, m => P.bverify pk m s
  | d + 1, .node sg l r, t, pk, m =>
    if P.h2 l r ≠ pk then false
    else if t < 2 ^ d then verify d sg t l m
    else verify d sg (t - 2 ^ d) r m
  | _, _, _, _, _ => false

/-! ### compact sum construction -/

inductive CSig (P : Prims) where
  | leaf (s : P.Sig) (pk : P.Pk)
  | node (sigma : CSig P) (pk : P.Pk)

/-- `sign_from_slice(sk, m, period)` -/
def csign : Nat → Key P → Bytes → Nat → Option (CSig P)
  | 0, .leaf s, m, _ => some (.leaf (P.bsign s m) (P.leafPk s))
  | d + 1, .node a _ pk0 pk1, m, t =>
    if t < 2 ^ d then (csign d a m t).map (fun sg => .node sg pk1)
    else (csign d a m (t - 2 ^ d)).map (fun sg => .node sg pk0)
  | _, _, _, _ => none

/-- `KesCompactSig::recompute` -/
def recompute : Nat → CSig P → Nat → Bytes → Option P.Pk
  | 0, .leaf s pk, _, m => if P.bverify pk m s then some pk else none
  | d + 1, .node sg pk, t, m =>
    if t < 2 ^ d then (recompute d sg t m).map (fun k => P.h2 k pk)
    else (recompute d sg (t - 2 ^ d) m).map (fun k => P.h2 pk k)
  | _, _, _, _ => none

/-- `KesCompactSig::verify` -/
def cverify (d : Nat) (sg : CSig P) (t : Nat) (pk : P.Pk) (m : Bytes) : Bool :=
  match recompute P d sg t m with
  | some k => decide (k = pk)
  | none => false

/-! ### closed forms used by the theorems -/

/-- seed of the leaf of period `t` -/
def leafSeed : Nat → P.Seed → Nat → P.Seed
  | 0, s, _ => s
  | d + 1, s, t => if t < 2 ^ d then leafSeed d (P.split s).1 t else leafSeed d (P.split s).2 (t - 2 ^ d)

/-- the key a depth-`d` tree grown from `s` holds at period `t` -/
def keyAt : Nat → P.Seed → Nat → Key P
  | 0, s, _ => .leaf s
  | d + 1, s, t =>
    let r := P.split s
    if t < 2 ^ d then .node (keyAt d r.1 t) (some r.2) (pkTree P d r.1) (pkTree P d r.2)
    else .node (keyAt d r.2 (t - 2 ^ d)) none (pkTree P d r.1) (pkTree P d r.2)

/-- secret seeds present in the buffer: leaf signing key (= its seed) and stored right-child seeds -/
def material : Key P → List P.Seed
  | .leaf s => [s]
  | .node a sr _ _ => material a ++ sr.toList

/-! ## symbolic instance: seeds are paths from the root, hashes and keys are free terms -/

inductive Dir | L | R
  deriving DecidableEq, Repr

abbrev Path := List Dir

inductive PkT where
  | leaf (s : Path)
  | h2 (a b : PkT)
  deriving DecidableEq, Repr

/-- free constructors for split / key derivation / pair hash; a base signature verifies only under
    the key of the seed that made it and only for the message signed -/
@[reducible] def sym : Prims :=
  { Seed := Path, Pk := PkT, Sig := Path × Bytes,
    split := fun p => (p ++ [.L], p ++ [.R]),
    leafPk := .leaf, h2 := .h2,
    bsign := fun s m => (s, m),
    bverify := fun pk m sg => decide (pk = .leaf sg.1 ∧ m = sg.2),
    zeroSeed := [], pkEq := inferInstance }

/-! ## concrete instance: BLAKE2b-256 and Ed25519 on bytes -/

open PallasVerif.Blake2b (blake2b256)
open PallasVerif.Ed25519 (leNat leBytes encode decodeLenient smul padd pneg basePt neutral L)

/-- `is_small_order`: `[8]A` is the identity `(0 : y : y : _)` (tested projectively, no inversion) -/
def isSmallOrder (A : PallasVerif.Ed25519.Pt) : Bool :=
  let q := smul 8 A
  q.x % PallasVerif.Ed25519.p == 0 && q.y % PallasVerif.Ed25519.p == q.z % PallasVerif.Ed25519.p

/-- ed25519-dalek 2.x `VerifyingKey::verify_strict` (key and R decompressed leniently, canonical `S`,
    small-order key or R rejected, cofactorless equation compared on the encoding of R) -/
def verifyStrict (pk msg sig : Bytes) : Bool :=
  let sigL := sig.take 32
  match decodeLenient pk, decodeLenient sigL with
  | some A, some R =>
    let S := leNat (sig.drop 32)
    if S ≥ L then false
    else if isSmallOrder R || isSmallOrder A then false
    else
      let h := leNat (PallasVerif.Sha512.sha512 (sigL ++ pk ++ msg)) % L
      encode (padd (smul h (pneg A)) (smul S basePt)) == sigL
  | _, _ => false

@[reducible] def conc : Prims :=
  { Seed := Bytes, Pk := Bytes, Sig := Bytes,
    split := fun s => (blake2b256 (1 :: s), blake2b256 (2 :: s)),
    leafPk := PallasVerif.Ed25519.publicKey,
    h2 := fun a b => blake2b256 (a ++ b),
    bsign := PallasVerif.Ed25519.sign,
    bverify := verifyStrict,
    zeroSeed := List.replicate 32 0, pkEq := inferInstance }

/-- the buffer `as_bytes` shows (without the period) -/
def keyBytes : Key conc → Bytes
  | .leaf s => s
  | .node a sr pk0 pk1 => keyBytes a ++ sr.getD (List.replicate 32 0) ++ pk0 ++ pk1

def be32 (n : Nat) : Bytes := [UInt8.ofNat (n / 16777216), UInt8.ofNat (n / 65536), UInt8.ofNat (n / 256), UInt8.ofNat n]

/-- `KesSk::as_bytes` -/
def skBytes (k : SK conc) : Bytes := keyBytes k.key ++ be32 k.period

/-- `SumdKesSig::to_bytes` -/
def sumSigBytes : SumSig conc → Bytes
  | .leaf s => s
  | .node sg l r => sumSigBytes sg ++ l ++ r

/-- `SumdCompactKesSig::to_bytes` -/
def cSigBytes : CSig conc → Bytes
  | .leaf s pk => s ++ pk
  | .node sg pk => cSigBytes sg ++ pk

/-- `SumdKesSig::from_bytes` (length `64 + 64 d`) -/
def sumSigOfBytes : Nat → Bytes → Option (SumSig conc)
  | 0, bs => if bs.length = 64 then some (.leaf bs) else none
  | d + 1, bs =>
    if bs.length = 64 + 64 * (d + 1) then
      (sumSigOfBytes d (bs.take (64 + 64 * d))).map
        (fun sg => .node sg ((bs.drop (64 + 64 * d)).take 32) (bs.drop (64 + 64 * d + 32)))
    else none

/-- `SumdCompactKesSig::from_bytes` (length `64 + 32 (d + 1)`; the leaf key must decompress) -/
def cSigOfBytes : Nat → Bytes → Option (CSig conc)
  | 0, bs =>
    if bs.length = 96 then
      (if (decodeLenient (bs.drop 64)).isSome then some (.leaf (bs.take 64) (bs.drop 64)) else none)
    else none
  | d + 1, bs =>
    if bs.length = 96 + 32 * (d + 1) then
      (cSigOfBytes d (bs.take (96 + 32 * d))).map (fun sg => .node sg (bs.drop (96 + 32 * d)))
    else none

/-- `SIZE` of the key (without period) and of the two signature kinds -/
def keySize (d : Nat) : Nat := 32 + 96 * d
def sumSigSize (d : Nat) : Nat := 64 + 64 * d
def cSigSize (d : Nat) : Nat := 64 + 32 * (d + 1)

end PallasVerif.Kes
