/-
  `eval_native_script` of `pallas-validate/src/phase1/shelley_ma.rs` (used by `check_native_scripts` in `check_witnesses`)
  with an explicit `none` = panic arm at its one arithmetic site: the n-of-k count
  `scripts.iter().map(eval).fold(0, |x, y| x + y as u32)` (`u32` addition, checked in the dev profile), followed by
  `count >= *val`. `all` / `any` are Rust's short-circuiting iterator adaptors: sub-scripts after the deciding one are not
  evaluated. Key hashes are their hex text.
-/
namespace PallasVerif.NativeScript

def U32_MAX : Nat := 4294967295

inductive NS where
  | pubkey (h : String)
  | all (l : List NS)
  | any (l : List NS)
  | nOfK (n : Nat) (l : List NS)
  | invalidBefore (slot : Nat)
  | invalidHereafter (slot : Nat)
  deriving Repr

mutual
/-- `none` = panic -/
def eval (keys : List String) (low upp : Option Nat) : NS → Option Bool
  | .pubkey h => some (keys.contains h)
  | .all l => evalAll keys low upp l
  | .any l => evalAny keys low upp l
  | .nOfK n l => (count keys low upp 0 l).map (fun c => decide (c ≥ n))
  | .invalidBefore v => some (match low with
      | some t => decide (v ≤ t)
      | none => false)
  | .invalidHereafter v => some (match upp with
      | some t => decide (v ≥ t)
      | none => false)
/-- `Iterator::all` -/
def evalAll (keys : List String) (low upp : Option Nat) : List NS → Option Bool
  | [] => some true
  | s :: rest =>
    match eval keys low upp s with
    | none => none
    | some false => some false
    | some true => evalAll keys low upp rest
/-- `Iterator::any` -/
def evalAny (keys : List String) (low upp : Option Nat) : List NS → Option Bool
  | [] => some false
  | s :: rest =>
    match eval keys low upp s with
    | none => none
    | some true => some true
    | some false => evalAny keys low upp rest
/-- `.map(eval).fold(0, |x, y| x + y as u32)`: every sub-script is evaluated, the sum is a `u32` -/
def count (keys : List String) (low upp : Option Nat) (acc : Nat) : List NS → Option Nat
  | [] => some acc
  | s :: rest =>
    match eval keys low upp s with
    | none => none
    | some b =>
      if acc + (if b then 1 else 0) > U32_MAX then none
      else count keys low upp (acc + (if b then 1 else 0)) rest
end

mutual
/-- every list inside the script has at most `2^32 - 1` elements (any script that fits in memory) -/
def fits : NS → Bool
  | .all l => decide (l.length ≤ U32_MAX) && fitsList l
  | .any l => decide (l.length ≤ U32_MAX) && fitsList l
  | .nOfK _ l => decide (l.length ≤ U32_MAX) && fitsList l
  | _ => true
def fitsList : List NS → Bool
  | [] => true
  | s :: rest => fits s && fitsList rest
end

/-- `check_native_scripts`: every native script of the witness set evaluates to true (`Err(ScriptDenial)` otherwise) -/
def checkNativeScripts (keys : List String) (low upp : Option Nat) : List NS → Option Bool
  | [] => some true
  | s :: rest =>
    match eval keys low upp s with
    | none => none
    | some false => some false
    | some true => checkNativeScripts keys low upp rest

end PallasVerif.NativeScript
