/-
  Mini-protocol state machines of `pallas-network2/src/protocol/*` (`State::apply`), transcribed arm
  by arm for the P2P behaviour models (C27/C28/C29). Payloads are abstracted to what the behaviours
  read: version number / peer-sharing flag / proposed (version, magic) table for the handshake, the
  keep-alive cookie, the shared peer list, opaque numeric ids for ranges, headers, points and bodies.
  `apply` returns `none` where the Rust returns `Err(..)` (the behaviours only test `is_ok`).

  Own namespace `PallasVerif.P2P` (the C24 generator works on the same files; to be unified later).
-/
namespace PallasVerif.P2P

/-! ## handshake (`protocol/handshake/mod.rs`) -/

inductive HsMsg where
  | propose (tbl : List (Nat × Nat))          -- (version, network magic) entries
  | accept (ver : Nat) (ps : Nat)            -- version, `peer_sharing.unwrap_or(0)`
  | refuse
  | queryReply
  deriving DecidableEq, Repr

inductive HsSt where
  | propose
  | confirm (tbl : List (Nat × Nat))
  | accepted (ver : Nat) (ps : Nat)
  | rejected
  | queryReply
  deriving DecidableEq, Repr

def HsSt.apply : HsSt → HsMsg → Option HsSt
  | .propose, .propose t => some (.confirm t)
  | .propose, _ => none
  | .confirm _, .accept v ps => some (.accepted v ps)
  | .confirm _, .refuse => some .rejected
  | .confirm _, .queryReply => some .queryReply
  | .confirm _, _ => none
  | .accepted _ _, _ => none
  | .rejected, _ => none
  | .queryReply, _ => none

/-! ## keepalive -/

inductive KaMsg where
  | keepAlive (c : Nat)
  | response (c : Nat)
  | done
  deriving DecidableEq, Repr

inductive KaSt where
  | client (resp : Option Nat)     -- `Client(Empty)` / `Client(Response(c))`
  | server (c : Nat)
  | done
  deriving DecidableEq, Repr

def KaSt.apply : KaSt → KaMsg → Option KaSt
  | .client _, .keepAlive c => some (.server c)
  | .client _, _ => none
  | .server _, .response c => some (.client (some c))
  | .server _, _ => none
  | .done, _ => none

/-! ## peersharing -/

inductive PsMsg where
  | shareRequest (n : Nat)
  | sharePeers (ps : List Nat)
  | done
  deriving DecidableEq, Repr

inductive PsSt where
  | idle (resp : Option (List Nat))   -- `Idle(Empty)` / `Idle(Response(peers))`
  | busy (n : Nat)
  | done
  deriving DecidableEq, Repr

def PsSt.apply : PsSt → PsMsg → Option PsSt
  | .idle _, .shareRequest n => some (.busy n)
  | .idle _, _ => none
  | .busy _, .sharePeers ps => some (.idle (some ps))
  | .busy _, _ => none
  | .done, _ => none

/-! ## blockfetch -/

inductive BfMsg where
  | requestRange (r : Nat)
  | clientDone
  | startBatch
  | noBlocks
  | block (b : Nat)
  | batchDone
  deriving DecidableEq, Repr

inductive BfSt where
  | idle
  | busy (r : Nat)
  | streaming (b : Option Nat)
  | done
  deriving DecidableEq, Repr

def BfSt.apply : BfSt → BfMsg → Option BfSt
  | .idle, .requestRange r => some (.busy r)
  | .idle, .clientDone => some .done
  | .idle, _ => none
  | .busy _, .noBlocks => some .idle
  | .busy _, .startBatch => some (.streaming none)
  | .busy _, _ => none
  | .streaming _, .block b => some (.streaming (some b))
  | .streaming _, .batchDone => some .idle
  | .streaming _, _ => none
  | .done, _ => none

/-! ## chainsync -/

inductive CsMsg where
  | requestNext
  | awaitReply
  | rollForward (h : Nat)
  | rollBackward (p : Nat)
  | findIntersect
  | intersectFound (p : Nat)
  | intersectNotFound
  | done
  deriving DecidableEq, Repr

inductive CsData where
  | new
  | intersection (p : Nat)
  | noIntersection
  | content (h : Nat)
  | rollback (p : Nat)
  | drained
  deriving DecidableEq, Repr

inductive CsSt where
  | idle (d : CsData)
  | canAwait
  | mustReply
  | intersect
  | done
  deriving DecidableEq, Repr

def CsSt.apply : CsSt → CsMsg → Option CsSt
  | .idle _, .findIntersect => some .intersect
  | .idle _, .requestNext => some .canAwait
  | .idle _, .done => some .done
  | .idle _, _ => none
  | .intersect, .intersectFound p => some (.idle (.intersection p))
  | .intersect, .intersectNotFound => some (.idle .noIntersection)
  | .intersect, _ => none
  | .canAwait, .rollForward h => some (.idle (.content h))
  | .canAwait, .rollBackward p => some (.idle (.rollback p))
  | .canAwait, .awaitReply => some .mustReply
  | .canAwait, _ => none
  | .mustReply, .rollForward h => some (.idle (.content h))
  | .mustReply, .rollBackward p => some (.idle (.rollback p))
  | .mustReply, _ => none
  | .done, _ => none

def CsSt.isNew : CsSt → Bool
  | .idle .new => true
  | _ => false

def CsSt.isIdle : CsSt → Bool
  | .idle _ => true
  | _ => false

/-- `State::drain`: `Idle(data)` becomes `Idle(Drained)` and yields `data` -/
def CsSt.drain : CsSt → Option CsData × CsSt
  | .idle d => (some d, .idle .drained)
  | s => (none, s)

/-! ## txsubmission -/

inductive TxMsg where
  | init
  | requestTxIds
  | replyTxIds
  | requestTxs
  | replyTxs (n : Nat)          -- number of transaction bodies carried
  | done
  deriving DecidableEq, Repr

inductive TxSt where
  | init
  | idle
  | txIdsNonBlocking
  | txIdsBlocking
  | txs (n : Nat)
  | done
  deriving DecidableEq, Repr

def TxSt.apply : TxSt → TxMsg → Option TxSt
  | .init, .init => some .idle
  | .init, _ => none
  | .idle, .requestTxIds => some .txIdsBlocking
  | .idle, .requestTxs => some (.txs 0)
  | .idle, _ => none
  | .txIdsNonBlocking, .replyTxIds => some .txIdsNonBlocking
  | .txIdsNonBlocking, _ => none
  | .txIdsBlocking, .replyTxIds => some .txIdsBlocking
  | .txIdsBlocking, _ => none
  | .txs _, .replyTxs n => some (.txs n)
  | .txs _, _ => none
  | .done, _ => none

/-! ## leios-notify -/

inductive LnMsg where
  | requestNext
  | blockAnnouncement
  | blockOffer
  | blockTxsOffer
  | votes
  | done
  deriving DecidableEq, Repr

inductive LnSt where
  | idle (pending : Bool)     -- `Idle(None)` / `Idle(Some(notification))`
  | busy
  | done
  deriving DecidableEq, Repr

def LnSt.apply : LnSt → LnMsg → Option LnSt
  | .idle _, .requestNext => some .busy
  | .idle _, .done => some .done
  | .idle _, _ => none
  | .busy, .blockAnnouncement => some (.idle true)
  | .busy, .blockOffer => some (.idle true)
  | .busy, .blockTxsOffer => some (.idle true)
  | .busy, .votes => some (.idle true)
  | .busy, _ => none
  | .done, _ => none

/-- `State::drain`: `Idle(n)` yields `n.take()` -/
def LnSt.drain : LnSt → Bool × LnSt
  | .idle true => (true, .idle false)
  | s => (false, s)

/-! ## leios-fetch -/

inductive LfMsg where
  | blockRequest (eb : Nat)
  | block
  | blockTxsRequest (eb : Nat)
  | blockTxs
  | done
  deriving DecidableEq, Repr

inductive LfSt where
  | idle (resp : Option Nat)   -- `Idle(Some((eb, response)))` keeps the EB id of the request
  | awaitingBlock (eb : Nat)
  | awaitingBlockTxs (eb : Nat)
  | done
  deriving DecidableEq, Repr

def LfSt.apply : LfSt → LfMsg → Option LfSt
  | .idle _, .blockRequest e => some (.awaitingBlock e)
  | .idle _, .blockTxsRequest e => some (.awaitingBlockTxs e)
  | .idle _, .done => some .done
  | .idle _, _ => none
  | .awaitingBlock e, .block => some (.idle (some e))
  | .awaitingBlock _, _ => none
  | .awaitingBlockTxs e, .blockTxs => some (.idle (some e))
  | .awaitingBlockTxs _, _ => none
  | .done, _ => none

def LfSt.drain : LfSt → Option Nat × LfSt
  | .idle (some e) => (some e, .idle none)
  | s => (none, s)

/-! ## `AnyMessage` -/

inductive Msg where
  | hs (m : HsMsg)
  | ka (m : KaMsg)
  | cs (m : CsMsg)
  | ps (m : PsMsg)
  | bf (m : BfMsg)
  | tx (m : TxMsg)
  | ln (m : LnMsg)
  | lf (m : LfMsg)
  deriving DecidableEq, Repr

/-- `behavior::ConnectionState` -/
inductive Conn where
  | new | connecting | connected | initialized | disconnected | errored
  deriving DecidableEq, Repr

/-- `LEIOS_MIN_VERSION = PROTOCOL_V15` -/
def leiosMinVersion : Nat := 15

/-- `u32::MAX + 1`: `error_count += 1` panics (dev profile) when it would reach this -/
def u32Bound : Nat := 4294967296

end PallasVerif.P2P
