/-
  Model of `check_tx_ex_units` in `pallas-validate/src/phase1/{alonzo,babbage,conway}.rs`
  (with `presence_of_plutus_scripts` of each era), transcribed arm by arm from the code as it
  stands after the two `fix:` commits recorded in `known_findings.d/C37.json`.

  The witness set is viewed as: number of Plutus scripts per language in the witness set
  (`none` = field absent, `some 0` = present and empty, possible only for the `Option<Vec<_>>`
  fields of Alonzo/Babbage) and the redeemers (`none` = absent). The `u64` accumulators are
  `Nat`s; `checked_add(..).ok_or(TxExUnitsExceeded)` makes a sum past `2^64 - 1` the `exceeded` verdict (it was an
  overflow panic before the C33 `fix:`). `Res.panic` is kept as a constructor and shown unreachable in `Props/C33.lean`.
-/
namespace PallasVerif.ExUnits

def U64_MAX : Nat := 18446744073709551615

/-- `ExUnits { mem, steps }` -/
structure ExU where
  mem : Nat
  steps : Nat
  deriving Repr, DecidableEq

/-- `RedeemersKey { tag, index }` (tag as its number) -/
structure Key where
  tag : Nat
  index : Nat
  deriving Repr, DecidableEq

/-- Conway `Redeemers::List(Vec<Redeemer>) | Redeemers::Map(BTreeMap<RedeemersKey, RedeemersValue>)`;
    Alonzo and Babbage have the list form only. Both are iterated in storage order. -/
inductive Redeemers where
  | list (rs : List (Key × ExU))
  | map (rs : List (Key × ExU))
  deriving Repr

/-- the `ex_units` in iteration order: `x.ex_units` for the list arm, `x.1.ex_units` for the map arm -/
def Redeemers.budgets : Redeemers → List ExU
  | .list rs => rs.map (·.2)
  | .map rs => rs.map (·.2)

inductive Era where
  | alonzo | babbage | conway
  deriving DecidableEq, Repr

structure Wits where
  v1 : Option Nat
  v2 : Option Nat
  v3 : Option Nat
  redeemers : Option Redeemers
  deriving Repr

inductive Res where
  | ok | exceeded | redeemerMissing | panic
  deriving DecidableEq, Repr

/-- `presence_of_plutus_scripts` of each era -/
def presence : Era → Wits → Bool
  | .alonzo, w => match w.v1 with
    | some n => n != 0        -- `Some(s) => !s.is_empty()`
    | none => false
  | .babbage, w => (w.v1.getD 0 != 0) || (w.v2.getD 0 != 0)      -- `.clone().unwrap_or_default()`, `!is_empty() || !is_empty()`
  | .conway, w => (w.v1.getD 0 != 0) || (w.v2.getD 0 != 0) || (w.v3.getD 0 != 0)

/-- the `for` loop: `mem = mem.checked_add(..).ok_or(TxExUnitsExceeded)?; steps = ..` on `u64`; `none` = a sum left `u64` -/
def accumulate : Nat → Nat → List ExU → Option (Nat × Nat)
  | m, s, [] => some (m, s)
  | m, s, x :: xs =>
    if m + x.mem > U64_MAX then none
    else if s + x.steps > U64_MAX then none
    else accumulate (m + x.mem) (s + x.steps) xs

/-- sums, then `if mem > max.mem || steps > max.steps { Err(TxExUnitsExceeded) }` -/
def sumAndCompare (bs : List ExU) (maxMem maxSteps : Nat) : Res :=
  match accumulate 0 0 bs with
  | none => .exceeded
  | some (m, s) => if m > maxMem || s > maxSteps then .exceeded else .ok

def checkTxExUnits : Era → Wits → Nat → Nat → Res
  | .alonzo, w, maxMem, maxSteps =>
    -- `if presence_of_plutus_scripts(mtx) { match &tx_wits.redeemer { Some(..) => .., None => Err(RedeemerMissing) } } Ok(())`
    if presence .alonzo w then
      match w.redeemers with
      | some rs => sumAndCompare rs.budgets maxMem maxSteps
      | none => .redeemerMissing
    else .ok
  | era, w, maxMem, maxSteps =>
    -- Babbage / Conway: `match &tx_wits.redeemer { Some(..) => sum + compare, None => if presence { Err(RedeemerMissing) } } Ok(())`
    match w.redeemers with
    | some rs => sumAndCompare rs.budgets maxMem maxSteps
    | none => if presence era w then .redeemerMissing else .ok

end PallasVerif.ExUnits
