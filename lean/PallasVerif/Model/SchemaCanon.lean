import PallasVerif.Model.Schema
/-
  Canonical items of a schema: a decidable, purely syntactic description of the items that the
  typed encoder can produce *as far as the parts outside `KeepRaw` are concerned* — minimal heads,
  definite containers where the Rust type does not remember the form, map entries in field /
  key order, no surplus elements, `null` exactly where the encoder writes it.  Under `KeepRaw`
  and `AnyCbor` everything is canonical.  `Proofs/SchemaIso.lean` proves
  `canon → dec it = some v → enc v = some it`, the chain half of C06 at model level.
  Import-free apart from the schema model.
-/
namespace PallasVerif.Schema
open PallasVerif.Cbor

def headMin (h : Head) : Bool := h == minHead h.major h.val && decide (h.val < 2 ^ 64)

def canonUInt : Item → Bool
  | .atom h => decide (h.major = 0) && headMin h
  | _ => false

def canonInt : Item → Bool
  | .atom h => (decide (h.major = 0) || decide (h.major = 1)) && headMin h
  | _ => false

def canonStr (m : Nat) : Item → Bool
  | .str h bs => decide (h.major = m) && headMin h && decide (bs.length = h.val)
  | _ => false

def canonBool : Item → Bool
  | .atom h => h == ⟨7, 20, []⟩ || h == ⟨7, 21, []⟩
  | _ => false

def isNullItem : Item → Bool
  | .atom h => h == ⟨7, 22, []⟩
  | _ => false

def isUndefItem : Item → Bool
  | .atom h => h == ⟨7, 23, []⟩
  | _ => false

/-- definite array with the minimal head for its length -/
def canonArr (c : Item → Bool) : Item → Bool
  | .seq h xs => h == minHead 4 xs.length && decide (xs.length < 2 ^ 64) && xs.all c
  | _ => false

def zipAll {α β} (c : α → β → Bool) : List α → List β → Bool
  | [], [] => true
  | a :: as, b :: bs => c a b && zipAll c as bs
  | _, _ => false

def canonTuple (c : Schema → Item → Bool) (fs : List Schema) : Item → Bool
  | .seq h xs => h == minHead 4 xs.length && decide (xs.length < 2 ^ 64) && zipAll c fs xs
  | _ => false

def pairsAll (ck cv : Item → Bool) : List Item → Bool
  | [] => true
  | k :: v :: r => ck k && cv v && pairsAll ck cv r
  | [_] => false

/-- definite map with the minimal head, every key and value canonical -/
def canonMap (ck cv : Item → Bool) : Item → Bool
  | .seq h xs => h == minHead 5 (xs.length / 2) && decide (xs.length / 2 < 2 ^ 64) && decide (xs.length % 2 = 0) && pairsAll ck cv xs
  | _ => false

/-- the keys decode to strictly increasing values (what a `BTreeMap` writes) -/
def keysSorted (dk : Item → Option Value) (it : Item) : Bool :=
  match it.mapEntries? with
  | some es =>
    match mapOpt (fun e : Item × Item => dk e.1) es with
    | some ks => strictSorted ks
    | none => true
  | none => true

def canonTag (t : Nat) (c : Item → Bool) : Item → Bool
  | .tag h inner => h == minHead 6 t && decide (t < 2 ^ 64) && c inner
  | _ => false

def canonOptTag (t : Option Nat) (c : Item → Bool) (it : Item) : Bool :=
  match t with
  | some n => canonTag n c it
  | none => c it

/-- the items of an array layout are exactly what `encArr` writes for the values they decode to -/
def canonArrFields (c : Schema → Item → Bool) (d : Schema → Item → Option Value) (trunc : Bool) :
    Nat → List (Nat × Schema) → List Item → Bool
  | _, [], xs => xs.isEmpty
  | pos, (idx, s) :: fs, xs =>
    match decArr d pos ((idx, s) :: fs) xs with
    | none => true
    | some vs =>
      if trunc && allNil ((idx, s) :: fs) vs then xs.isEmpty
      else
        decide (pos ≤ idx) && decide ((xs.take (idx - pos)).length = idx - pos) && (xs.take (idx - pos)).all isNullItem &&
        (match xs.drop (idx - pos) with
         | it :: rest => c s it && canonArrFields c d trunc (idx + 1) fs rest
         | [] => false)

def isKey (idx : Nat) : Item → Bool
  | .atom h => decide (h.major = 0) && decide (h.val = idx) && headMin h
  | _ => false

/-- the entries of a map layout are exactly the non-nil fields, in index order, keyed minimally;
    fields without an entry are optional -/
def canonMapFields (c : Schema → Item → Bool) (d : Schema → Item → Option Value) :
    List (Nat × Schema) → List (Item × Item) → Bool
  | fs, [] => fs.all (fun p => p.2.isOpt)
  | [], _ :: _ => false
  | (idx, s) :: fs, (k, v) :: es =>
    if isKey idx k then
      c s v && (match d s v with | some x => !isNilField s x | none => true) && canonMapFields c d fs es
    else s.isOpt && canonMapFields c d fs ((k, v) :: es)

def canonBody (c : Schema → Item → Bool) (d : Schema → Item → Option Value) (l : Layout) (fs : List (Nat × Schema)) (body : Item) : Bool :=
  match l with
  | .array =>
    (match body with
     | .seq h xs => h == minHead 4 xs.length && decide (xs.length < 2 ^ 64) && canonArrFields c d true 0 fs xs
     | _ => false)
  | .map =>
    (match body with
     | .seq h xs => h == minHead 5 (xs.length / 2) && decide (xs.length / 2 < 2 ^ 64) && decide (xs.length % 2 = 0) &&
        canonMapFields c d fs (pairUp xs)
     | _ => false)

def canonStruct (c : Schema → Item → Bool) (d : Schema → Item → Option Value) (l : Layout) (t : Option Nat)
    (fs : List (Nat × Schema)) (it : Item) : Bool :=
  canonOptTag t (canonBody c d l fs) it

def canonEnumFlat (c : Schema → Item → Bool) (d : Schema → Item → Option Value) (vs : List (Nat × List (Nat × Schema))) : Item → Bool
  | .seq h (x :: xs) =>
    h == minHead 4 (xs.length + 1) && decide (xs.length + 1 < 2 ^ 64) && canonUInt x &&
    (match x.int? with
     | some i =>
       match findVariant i 0 vs with
       | some (_, fs) => canonArrFields c d false 0 fs xs
       | none => true
     | none => true)
  | _ => false

def canonByType (c : Schema → Item → Bool) (alts : List (Nat × List Ty × Schema)) (many : Option (Nat × List Schema)) (it : Item) : Bool :=
  match many with
  | some (_, ms) =>
    if typeOf it = .array then canonTuple c ms it
    else match findAltByTy (typeOf it) alts with | some (_, s) => c s it | none => true
  | none => match findAltByTy (typeOf it) alts with | some (_, s) => c s it | none => true

def canonSum (c : Schema → Item → Bool) (vs : List (Nat × List Schema)) (other : Option (List Schema)) : Item → Bool
  | .seq h (x :: xs) =>
    h == minHead 4 (xs.length + 1) && decide (xs.length + 1 < 2 ^ 64) && canonUInt x &&
    (match x.uint? with
     | some i =>
       match findVariant (i : Int) 0 vs with
       | some (_, fs) => zipAll c fs xs
       | none => match other with | some o => zipAll c o xs | none => true
     | none => true)
  | _ => false

def canonMaybeIndef (c : Item → Bool) : Item → Bool
  | .seq h xs => h == minHead 4 xs.length && decide (xs.length < 2 ^ 64) && xs.all c
  | .seqIndef m xs => decide (m = 4) && xs.all c
  | _ => false

def canonKvPairs (ck cv : Item → Bool) : Item → Bool
  | .seq h xs => h == minHead 5 (xs.length / 2) && decide (xs.length / 2 < 2 ^ 64) && decide (xs.length % 2 = 0) && pairsAll ck cv xs
  | .seqIndef m xs => decide (m = 5) && decide (xs.length % 2 = 0) && pairsAll ck cv xs
  | _ => false

def canonCborWrap (c : Item → Bool) : Item → Bool
  | .tag h (.str h2 bs) =>
    h == minHead 6 24 && decide (h2.major = 2) && headMin h2 && decide (bs.length = h2.val) &&
    (match parseItem bs with
     | some (inner, []) => c inner
     | _ => false)
  | _ => false

def canonEmptyMap : Item → Bool
  | .seq h [] => h == minHead 5 0
  | _ => false

def canonZeroOrOne (c : Item → Bool) : Item → Bool
  | .seq h [] => h == minHead 4 0
  | .seq h [x] => h == minHead 4 1 && c x
  | _ => false

def canon (env : Env) : Nat → Schema → Item → Bool
  | 0, _, _ => false
  | f + 1, s, it =>
    match s with
    | .uint _ => canonUInt it
    | .posCoin => canonUInt it
    | .enumIdx _ => canonUInt it
    | .sint _ => canonInt it
    | .int => canonInt it
    | .nzint => canonInt it
    | .bytes => canonStr 2 it
    | .hash _ => canonStr 2 it
    | .text => canonStr 3 it
    | .bool => canonBool it
    | .vec s => canonArr (canon env f s) it
    | .tuple fs => canonTuple (canon env f) fs it
    | .btmap k v => canonMap (canon env f k) (canon env f v) it && keysSorted (dec env f k) it
    | .opt s => isNullItem it || (typeOf it != .null && canon env f s it)
    | .struct l t fs => canonStruct (canon env f) (dec env f) l t fs it
    | .enumFlat vs => canonEnumFlat (canon env f) (dec env f) vs it
    | .byType alts many => canonByType (canon env f) alts many it
    | .sumFixed _ vs => canonSum (canon env f) vs none it
    | .sumOther _ vs o => canonSum (canon env f) vs (some o) it
    | .keepRaw _ => true
    | .nullable s => isNullItem it || isUndefItem it || (typeOf it != .null && typeOf it != .undefined && canon env f s it)
    | .set s => canonTag 258 (canonArr (canon env f s)) it
    | .maybeIndef s => canonMaybeIndef (canon env f s) it
    | .kvPairs k v => canonKvPairs (canon env f k) (canon env f v) it
    | .cborWrap s => canonCborWrap (canon env f s) it
    | .tagWrap t s => canonTag t (canon env f s) it
    | .emptyMap => canonEmptyMap it
    | .zeroOrOne s => canonZeroOrOne (canon env f s) it
    | .any => it.wf
    | .ref i =>
      match env.types[i]? with
      | some en => canon env f en.schema it
      | none => false
    | .custom i =>
      match env.customs[i]? with
      | some cu => cu.canon it
      | none => false

end PallasVerif.Schema
