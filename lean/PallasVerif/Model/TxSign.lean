/-
  Model of `pallas-txbuilder/src/transaction/model.rs`:
  `BuiltTransaction::{sign, add_signature, remove_signature}` (Conway arm), as the code stands
  after `fix: txbuilder keeps one witness per key ...`.

  What is transcribed: the `HashMap<PublicKey, Signature>` (`signatures`) as an association
  list, the decoded `transaction_witness_set.vkeywitness : Option<NonEmptySet<VKeyWitness>>` as
  `Option (List (K × S))` in wire order, `NonEmptySet::from_vec` (`None` on empty), the
  `.unwrap()` after `from_vec` in `sign`/`add_signature` as an explicit `panic` outcome.
  What is a parameter: the body bytes `B` and the id `H` (the code never assigns `tx_hash`,
  and the body is a `KeepRaw` slice that `encode_fragment` writes back verbatim), the key and
  signature types, the signer (`pubOf`, `sgn`). Decoding `tx_bytes` and re-encoding it is taken
  to be the identity on (body, witness list, rest) — that is what the correspondence stream
  `txsign` samples.
-/
namespace PallasVerif.TxSign

inductive Res (α : Type) where
  | ok (a : α)
  | panic
  deriving Repr

/-- `NonEmptySet::from_vec` -/
def fromVec {α : Type} (v : List α) : Option (List α) :=
  if v.isEmpty then none else some v

variable {K S B H SK : Type} [DecidableEq K]

/-- `HashMap::insert` on an association list (at most one entry per key) -/
def mapInsert (m : List (K × S)) (k : K) (s : S) : List (K × S) :=
  (k, s) :: m.filter (fun e => decide (e.1 ≠ k))

/-- `HashMap::remove` -/
def mapRemove (m : List (K × S)) (k : K) : List (K × S) :=
  m.filter (fun e => decide (e.1 ≠ k))

structure Built (K S B H : Type) where
  /-- bytes of the transaction body inside `tx_bytes` -/
  body : B
  /-- `tx_hash` -/
  id : H
  /-- `signatures` -/
  sigs : Option (List (K × S))
  /-- `vkeywitness` of the witness set inside `tx_bytes`, wire order -/
  wits : Option (List (K × S))

/-- what `build_conway_raw` returns: `signatures: None`, `vkeywitness: None` -/
def fresh (body : B) (id : H) : Built K S B H := { body, id, sigs := none, wits := none }

/-- common tail of `sign` and `add_signature`:
    `new_sigs.insert(pk, sig)`; `vkey_witnesses.retain(|x| x.vkey != pk)`; `push`;
    `Some(NonEmptySet::from_vec(v).unwrap())` -/
def addWitness (t : Built K S B H) (pk : K) (sig : S) : Res (Built K S B H) :=
  let newSigs := mapInsert (t.sigs.getD []) pk sig
  let v := (t.wits.getD []).filter (fun w => decide (w.1 ≠ pk)) ++ [(pk, sig)]
  match fromVec v with
  | some w => .ok { t with sigs := some newSigs, wits := some w }
  | none => .panic

/-- `sign`: public key and signature of `tx_hash` come from the signer -/
def sign (pubOf : SK → K) (sgn : SK → H → S) (t : Built K S B H) (sk : SK) : Res (Built K S B H) :=
  addWitness t (pubOf sk) (sgn sk t.id)

/-- `add_signature` -/
def addSignature (t : Built K S B H) (pk : K) (sig : S) : Res (Built K S B H) :=
  addWitness t pk sig

/-- `remove_signature`: `new_sigs.remove(&pk)`; `retain(|x| x.vkey != pk)`;
    `vkeywitness = NonEmptySet::from_vec(v)` -/
def removeSignature (t : Built K S B H) (pk : K) : Res (Built K S B H) :=
  let newSigs := mapRemove (t.sigs.getD []) pk
  let v := (t.wits.getD []).filter (fun w => decide (w.1 ≠ pk))
  .ok { t with sigs := some newSigs, wits := fromVec v }

inductive Op (SK K S : Type) where
  | sign (sk : SK)
  | add (pk : K) (sig : S)
  | remove (pk : K)
  deriving Repr

def step (pubOf : SK → K) (sgn : SK → H → S) (t : Built K S B H) : Op SK K S → Res (Built K S B H)
  | .sign sk => sign pubOf sgn t sk
  | .add pk sig => addSignature t pk sig
  | .remove pk => removeSignature t pk

/-- a history; the first panic ends it -/
def run (pubOf : SK → K) (sgn : SK → H → S) (t : Built K S B H) : List (Op SK K S) → Res (Built K S B H)
  | [] => .ok t
  | op :: ops =>
    match step pubOf sgn t op with
    | .ok t' => run pubOf sgn t' ops
    | .panic => .panic

end PallasVerif.TxSign
