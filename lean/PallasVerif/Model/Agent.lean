import PallasVerif.Model.Fsm
/-
  Model of a pallas-network (original stack) mini-protocol agent — `Client(State, ChannelBuffer)` /
  `Server(..)` — as far as C23 is concerned (import-free).

  What `lib/translate_fsm.py` extracts per `client.rs` / `server.rs` (`Agent`):
  * `agency`   — the `has_agency` match, one entry per state class;
  * `outbound` — the (state, message) pairs for which `assert_outbound_state` returns `Ok(())`;
  * `inbound`  — the same for `assert_inbound_state`;
  * `sends`    — one `Step` per place where a method builds `Message::V`, passes it to
                 `send_message` and then assigns `self.0 = State::S` (or assigns nothing);
  * `recvs`    — one `Step` per `Message::V(..) => { .. self.0 = State::S .. }` arm of a method that
                 matches on `recv_message().await?` (arms of one method form its accept list; the
                 `_ => Err(..)` arm refuses the rest).
  `send_message` = `assert_agency_is_ours`, `assert_outbound_state`, write; `recv_message` =
  `assert_agency_is_theirs`, read, `assert_inbound_state` (shape checked by the translator). Neither
  touches the state; only the high-level methods assign it, after the low-level call succeeded.
-/
namespace PallasVerif.Agent
open PallasVerif.Fsm

structure Step where
  method : String
  msg : String
  /-- state class assigned after the exchange (`none`: the method leaves the state as it is) -/
  next : Option String
  /-- the assignment sits under a payload check (keep-alive cookie); failing it is an error that
      leaves the state -/
  cond : Bool := false
  /-- a sending method wrapped in `if let State::G(..) = self.state() { .. }`: in any other state it
      returns `Ok(())` without sending anything (`NoOp`); a receiving method that starts with
      `if self.0 != State::G { return Err(E) }`: in any other state it fails with `guardErr` before reading -/
  guard : Option String := none
  guardErr : String := "NoOp"
  deriving DecidableEq, Repr

structure Agent where
  proto : String
  role : Agency
  states : List String
  msgs : List String
  init : String
  agency : List (String × Bool)
  outbound : List (String × String)
  inbound : List (String × String)
  sends : List Step
  recvs : List Step
  /-- error variant of the `_ =>` arm of `assert_outbound_state` / `assert_inbound_state` -/
  outboundErr : String := "InvalidOutbound"
  inboundErr : String := "InvalidInbound"
  deriving Repr

/-- error kinds are the Rust variant names (`Payload` = a payload check of a receiving arm failed,
    `NoOp` = the method returned `Ok(())` without doing anything) -/
abbrev Err := String

def Agent.hasAgency (a : Agent) (s : String) : Bool :=
  match a.agency.find? (fun x => x.1 = s) with
  | some x => x.2
  | none => false

/-- `send_message(&msg)` in state `s`: the checks before the write -/
def Agent.sendMessage (a : Agent) (s m : String) : Except Err Unit :=
  if !a.hasAgency s then .error "AgencyIsTheirs"
  else if a.outbound.contains (s, m) then .ok ()
  else .error a.outboundErr

/-- `recv_message()` in state `s` when the peer's next message is `m` -/
def Agent.recvMessage (a : Agent) (s m : String) : Except Err Unit :=
  if a.hasAgency s then .error "AgencyIsOurs"
  else if a.inbound.contains (s, m) then .ok ()
  else .error a.inboundErr

/-- a sending method: the state after it, or the error (state unchanged) -/
def Step.guardOk (st : Step) (s : String) : Bool :=
  match st.guard with
  | none => true
  | some g => g == s

def Agent.callSend (a : Agent) (s : String) (st : Step) : Except Err String :=
  if !st.guardOk s then .error st.guardErr else
  match a.sendMessage s st.msg with
  | .ok () => .ok (st.next.getD s)
  | .error e => .error e

/-- the arm of receiving method `f` that takes message `m` (`*`: a method that does not look at the
    message it got through `recv_message`) -/
def Agent.handles (a : Agent) (f m : String) : Option Step :=
  a.recvs.find? (fun st => st.method = f ∧ (st.msg = m ∨ st.msg = "*"))

/-- `if self.0 != State::G { return Err(E) }` at the top of receiving method `f`: the error, if it fires in `s` -/
def Agent.methodGuard (a : Agent) (f s : String) : Option String :=
  (a.recvs.find? (fun st => st.method = f ∧ !st.guardOk s)).map (·.guardErr)

/-- a receiving method `f` when the peer's next message is `m`; `payloadOk` = the arm's payload
    check (if it has one) succeeds -/
def Agent.callRecv (a : Agent) (s f m : String) (payloadOk : Bool := true) : Except Err String :=
  match a.methodGuard f s with
  | some e => .error e
  | none =>
  match a.recvMessage s m with
  | .error e => .error e
  | .ok () =>
    match a.handles f m with
    | some st => if st.cond ∧ !payloadOk then .error "Payload" else .ok (st.next.getD s)
    | none => .error "InvalidInbound"

/-- what can be done to an agent -/
inductive Ev where
  /-- low-level `send_message` of a message class -/
  | rawSend (m : String)
  /-- low-level `recv_message` while the peer's next message is `m` -/
  | rawRecv (m : String)
  /-- a sending method (by its step) -/
  | send (st : Step)
  /-- a receiving method `f` while the peer's next message is `m` -/
  | recv (f m : String) (payloadOk : Bool)
  deriving Repr

/-- one event: new state and whether it was accepted; every refusal leaves the state -/
def Agent.step (a : Agent) (s : String) : Ev → String × Bool
  | .rawSend m => (s, (a.sendMessage s m).toBool)
  | .rawRecv m => (s, (a.recvMessage s m).toBool)
  | .send st => match a.callSend s st with | .ok s' => (s', true) | .error _ => (s, false)
  | .recv f m ok => match a.callRecv s f m ok with | .ok s' => (s', true) | .error _ => (s, false)

def Agent.run (a : Agent) : String → List Ev → String × List Bool
  | s, [] => (s, [])
  | s, e :: es => let r := a.step s e; let r' := Agent.run a r.1 es; (r'.1, r.2 :: r'.2)

end PallasVerif.Agent
