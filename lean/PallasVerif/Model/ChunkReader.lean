/-
  Model of the three file readers of `pallas-hardano/src/storage/immutable/`:
  `primary::Reader` (`open`, `read_offset`, `next`, `next_occupied`), `secondary::Reader::next`,
  `chunk::Reader::{open, next, read_middle_block, read_last_block}`, as the code stands after
  `fix: hardano chunk reader rejects decreasing offsets and reads no more than the file holds`
  and `fix: hardano secondary index reader rejects an entry offset behind the read position`.

  A file is the list of its bytes; a `BufReader<File>` is the file plus a position. The only I/O
  failure the model knows is end of file (which is what truncation produces); OS-level read errors
  are outside. `u32`/`u64` values are `Nat`s with the subtraction sites written as `checkedSub`
  (`none` = the unchecked `a - b` of the unrepaired code would underflow). The chunk file's byte
  type is a parameter: the readers only slice it.
-/
namespace PallasVerif.ChunkReader

abbrev Bytes := List Nat

/-- big-endian value of a byte group -/
def beNat (b : Bytes) : Nat := b.foldl (fun acc x => acc * 256 + x) 0

def checkedSub (a b : Nat) : Option Nat := if b ≤ a then some (a - b) else none

/-! ## primary index -/

/-- the complete 4-byte groups of the file body: `read_offset` returns `None` on `UnexpectedEof`,
    which is also what a trailing partial group gives -/
def offsets : (fuel : Nat) → Bytes → List Nat
  | 0, _ => []
  | fuel + 1, b => if b.length < 4 then [] else beNat (b.take 4) :: offsets fuel (b.drop 4)

/-- `Reader::open` fails with `VersionMissing` on an empty file; otherwise all offsets -/
def primaryOffsets (p : Bytes) : Option (List Nat) :=
  match p with
  | [] => none
  | _version :: body => some (offsets body.length body)

/-- `next` + `next_occupied`: a relative slot is occupied when the following offset is larger;
    the entry carries the *earlier* offset -/
def occupied : List Nat → List Nat
  | last :: next :: rest => if next > last then last :: occupied (next :: rest) else occupied (next :: rest)
  | _ => []

/-! ## secondary index -/

inductive SecItem where
  | entry (blockOffset : Nat)
  /-- `Error::InconsistentState` -/
  | inconsistent
  deriving DecidableEq, Repr

/-- `secondary::Reader::next`, iterated: `pos` is the stream position, `occ` what
    `next_occupied` will still deliver. An error ends the iteration (`self.current = None`). -/
def secondaryItems (s : Bytes) : (pos : Nat) → (occ : List Nat) → List SecItem
  | _, [] => []
  | pos, cur :: rest =>
    match checkedSub cur pos with
    | none => [.inconsistent]
    | some _delta =>
      -- `seek_relative(delta)` then `read_exact` of the 56-byte entry
      if cur + 56 ≤ s.length then .entry (beNat ((s.drop cur).take 8)) :: secondaryItems s (cur + 56) rest
      else [.inconsistent]

/-- `secondary::read_entries` + iteration -/
def secondaryEntries (p s : Bytes) : Option (List SecItem) :=
  (primaryOffsets p).map (fun offs => secondaryItems s 0 (occupied offs))

/-! ## chunk file -/

inductive BlockItem (β : Type) where
  | block (bytes : List β)
  /-- `Error::CannotReadBlock` -/
  | readErr
  /-- `Error::SecondaryIndexError` -/
  | indexErr
  deriving DecidableEq, Repr

section
variable {β : Type}

/-- `read_middle_block`: `checked_sub`, then `take(delta).read_to_end`, then the length check.
    Returns the item and the new position (a short read leaves the position at end of file). -/
def readMiddle (c : List β) (pos nextOffset : Nat) : BlockItem β × Nat :=
  match checkedSub nextOffset pos with
  | none => (.readErr, pos)
  | some delta =>
    let got := (c.drop pos).take delta
    if got.length = delta then (.block got, pos + delta) else (.readErr, pos + got.length)

/-- `read_last_block`: everything up to the end of the file -/
def readLast (c : List β) (pos : Nat) : BlockItem β := .block (c.drop pos)

/-- `chunk::Reader::next`, iterated. `cur` = `self.current` is present; `rest` = the secondary items
    not yet pulled (its head is `self.next`). -/
def chunkItems (c : List β) : (pos : Nat) → (rest : List SecItem) → List (BlockItem β)
  | pos, [] => [readLast c pos]                       -- `(Some(_), None)`
  | _, .inconsistent :: _ => [.indexErr]              -- `(_, Some(Err(next)))`
  | pos, .entry off :: rest =>                        -- `(Some(_), Some(Ok(next)))`
    let r := readMiddle c pos off
    r.1 :: chunkItems c r.2 rest

/-- `Reader::open` pulls `current` and `next`; `(None, _) => None` when the index is empty.
    (`current` is only tested for presence, so an index whose *first* item is an error and which
    therefore has no second item yields the whole file as one block.) -/
def chunkBlocksOf (c : List β) (sec : List SecItem) : List (BlockItem β) :=
  match sec with
  | [] => []
  | _ :: rest => chunkItems c 0 rest

/-- `chunk::read_blocks(dir, name)` and collecting the iterator; `none` = the open failed -/
def readChunk (p s : Bytes) (c : List β) : Option (List (BlockItem β)) :=
  (secondaryEntries p s).map (chunkBlocksOf c)
end

end PallasVerif.ChunkReader
