/-
  Model of `validate_txs` (`pallas-validate/src/phase1/mod.rs`, ledger rule LEDGERS):

      let mut delta_state: CertState = cert_state.clone();
      for (txix, metx) in metxs.iter().enumerate() {
          validate_tx(metx, txix.try_into().unwrap(), env, utxos, &mut delta_state)?;
      }
      *cert_state = delta_state;
      Ok(())

  The two variables (`*cert_state` of the caller and the local `delta_state`) are explicit, so that
  "validate against `cert_state` directly" is a different program. `validate_tx` is a parameter
  `step`: it receives `&mut delta_state`, and the state it leaves behind is returned whatever the
  verdict (Shelley-MA `check_certificates` runs before the value, fee and witness rules, so a failing
  call does leave a mutated state). `txix.try_into().unwrap()` (`usize → u32`) is the one panic site.
-/
namespace PallasVerif.ValidateTxs

def U32_MAX : Nat := 4294967295

/-- one `validate_tx(tx, txix, .., &mut state)`: state after the call, and the error if it failed -/
abbrev Step (S T E : Type) := S → Nat → T → S × Option E

inductive Res (E : Type) where
  | ok
  | err (e : E)
  | panic
  deriving Repr, DecidableEq

/-- the two pieces of memory the function touches -/
structure Mem (S : Type) where
  caller : S
  delta : S
  deriving Repr

variable {S T E : Type}

/-- the `for` loop with its `?` early return -/
def loopMem (step : Step S T E) : Mem S → Nat → List T → Mem S × Res E
  | m, _, [] => (m, .ok)
  | m, i, tx :: rest =>
    if i > U32_MAX then (m, .panic)            -- `txix.try_into().unwrap()`
    else
      match step m.delta i tx with
      | (d', none) => loopMem step { m with delta := d' } (i + 1) rest
      | (d', some e) => ({ m with delta := d' }, .err e)

/-- what the caller observes: its certificate state after the call, and the result -/
def validateTxs (step : Step S T E) (caller : S) (txs : List T) : S × Res E :=
  match loopMem step { caller := caller, delta := caller } 0 txs with   -- `cert_state.clone()`
  | (m, .ok) => (m.delta, .ok)                                          -- `*cert_state = delta_state`
  | (m, r) => (m.caller, r)

/-- the same loop run on the caller's state itself (no copy): the mutation the property rules out -/
def validateTxsDirect (step : Step S T E) (caller : S) (txs : List T) : S × Res E :=
  match loopMem step { caller := caller, delta := caller } 0 txs with
  | (m, r) => (m.delta, r)

end PallasVerif.ValidateTxs
