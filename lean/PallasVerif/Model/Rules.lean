/-
  Model of the rule structure of phase-1 validation (`pallas-validate/src/phase1/*.rs`) for C38: the era validators
  `validate_byron_tx`, `validate_shelley_ma_tx`, `validate_alonzo_tx`, `validate_babbage_tx`, `validate_conway_tx` as the
  ordered list of their `check_*` calls with first-failure semantics (`?` after every call), and the rules whose
  predicate is stated here over a `View` of plain observations of the transaction, the UTxO set and the parameters:

    non-empty inputs · inputs / collateral / reference inputs present in the UTxO · validity interval (TTL) ·
    transaction size · minimum lovelace per output · output value size · network ids · minimum fee together with the
    collateral rules (count, kind, amount, annotation) · auxiliary-data hash.

  The remaining rules of the validators (value preservation, execution units, witnesses — subjects of C34, C37, C35 —
  and certificates, minting policies, script / datum / redeemer witnesses, languages, script-integrity hash,
  well-formedness, the Byron output and witness rules) take part in the composition through their verdict
  (`View.external`), their predicates are NOT stated here.
-/
namespace PallasVerif.Rules

inductive Era where
  | byron | shelleyMA | alonzo | babbage | conway
  deriving DecidableEq, Repr

inductive Rule where
  | insNotEmpty | outsNotEmpty | insInUtxo | outsHaveLovelace | validity | txSize | minLovelace | certificates
  | preservation | fee | networkId | auxData | witnesses | minting | valSize | exUnits | languages | scriptDataHash
  | wellFormed
  deriving DecidableEq, Repr

/-- the `check_*` calls of each `validate_<era>_tx`, in source order -/
def order : Era → List Rule
  | .byron => [.insNotEmpty, .outsNotEmpty, .insInUtxo, .outsHaveLovelace, .fee, .txSize, .witnesses]
  | .shelleyMA => [.insNotEmpty, .insInUtxo, .validity, .txSize, .minLovelace, .certificates, .preservation, .fee,
                   .networkId, .auxData, .witnesses, .minting]
  | .alonzo => [.insNotEmpty, .insInUtxo, .validity, .fee, .preservation, .minLovelace, .valSize, .networkId, .txSize,
                .exUnits, .witnesses, .languages, .auxData, .scriptDataHash, .minting]
  | .babbage => [.insNotEmpty, .insInUtxo, .validity, .fee, .preservation, .minLovelace, .valSize, .networkId, .txSize,
                 .exUnits, .minting, .wellFormed, .witnesses, .languages, .auxData, .scriptDataHash]
  | .conway => [.insNotEmpty, .insInUtxo, .validity, .fee, .preservation, .minLovelace, .valSize, .networkId, .txSize,
                .exUnits, .minting, .wellFormed, .witnesses, .languages, .auxData, .scriptDataHash]

/-- what the validator sees of one output -/
structure OutView where
  lovelace : Nat
  /-- `get_val_size_in_words` of the value -/
  words : Nat
  /-- the `Multiasset` variant (Shelley-MA minimum differs) -/
  multi : Bool
  /-- Alonzo: the output has a datum hash -/
  datumHash : Bool
  /-- network id of the (Shelley) address, `none` = the address does not decode as a Shelley address -/
  network : Option Nat
  deriving Repr

/-- what the collateral rules see of one collateral input -/
structure CollView where
  inUtxo : Bool
  /-- the UTxO entry is of an output variant this era's `check_collaterals_address` inspects -/
  lookedAt : Bool
  /-- payment part: `some true` = script, `some false` = key, `none` = not a Shelley address -/
  script : Option Bool
  coin : Nat
  hasAssets : Bool
  deriving Repr

structure View where
  nInputs : Nat
  nOutputs : Nat
  inputsIn : List Bool
  /-- `none` = no collateral field -/
  collateral : Option (List CollView)
  refInputsIn : List Bool
  validityStart : Option Nat
  ttl : Option Nat
  slot : Nat
  size : Nat
  maxSize : Nat
  fee : Nat
  minfeeA : Nat
  minfeeB : Nat
  outputs : List OutView
  /-- `ada_per_utxo_byte` (Alonzo+) / `min_utxo_value` (Shelley-MA) -/
  coinsParam : Nat
  maxValueSize : Nat
  envNetwork : Nat
  txNetwork : Option Nat
  /-- Plutus scripts in the witness set (`presence_of_plutus_scripts`) -/
  plutusInWitnesses : Bool
  /-- the witness set has redeemers (so some Plutus script runs, from the witness set or from a reference input) -/
  redeemersPresent : Bool
  maxCollateralInputs : Nat
  collateralPercentage : Nat
  /-- Babbage / Conway: `lovelace_diff_or_fail(collateral inputs, collateral return)`; `none` = it failed (non-lovelace balance) -/
  paidCollateral : Option Nat
  totalCollateral : Option Nat
  auxHashPresent : Bool
  auxPresent : Bool
  auxHashMatches : Bool
  /-- verdicts of the rules whose predicate is not stated in this model -/
  external : Rule → Bool

/-! ## The stated rules (each `if x < y { Err }` of the code is written as the condition for passing, `y ≤ x`) -/

def eraHasCollateral : Era → Bool
  | .alonzo | .babbage | .conway => true
  | _ => false
def eraHasRefInputs : Era → Bool
  | .babbage | .conway => true
  | _ => false

def insNotEmpty (v : View) : Bool := decide (v.nInputs ≠ 0)

/-- `check_ins_in_utxos` / `check_ins_and_collateral_in_utxos` / `check_all_ins_in_utxos` -/
def insInUtxo (era : Era) (v : View) : Bool :=
  v.inputsIn.all id &&
  (!eraHasCollateral era || (v.collateral.getD []).all (fun c => c.inUtxo)) &&
  (!eraHasRefInputs era || v.refInputsIn.all id)

def lowerOk (v : View) : Bool :=
  match v.validityStart with
  | some s => decide (s ≤ v.slot)
  | none => true
def upperOk (v : View) : Bool :=
  match v.ttl with
  | some t => decide (v.slot ≤ t)
  | none => true

/-- Shelley-MA `check_ttl` (the TTL is mandatory); later eras `check_lower_bound` + `check_upper_bound` -/
def validity (era : Era) (v : View) : Bool :=
  if era = .shelleyMA then v.ttl.isSome && upperOk v else lowerOk v && upperOk v

def txSize (v : View) : Bool := decide (v.size ≤ v.maxSize)

/-- `compute_min_lovelace` of each era -/
def minRequired (era : Era) (v : View) (o : OutView) : Nat :=
  match era with
  | .shelleyMA => if o.multi then max o.lovelace ((27 + o.words) * (v.coinsParam / 27)) else v.coinsParam
  | .alonzo => v.coinsParam * (o.words + (if o.datumHash then 37 else 27))
  | _ => v.coinsParam * (o.words + 160)

def minLovelace (era : Era) (v : View) : Bool := v.outputs.all (fun o => decide (minRequired era v o ≤ o.lovelace))

def valSize (v : View) : Bool := v.outputs.all (fun o => decide (o.words ≤ v.maxValueSize))

def txNetworkOk (v : View) : Bool :=
  match v.txNetwork with
  | some n => decide (n = v.envNetwork)
  | none => true

/-- every output address is a Shelley address of the environment's network; the body's network id, if any, too (Alonzo+) -/
def networkId (era : Era) (v : View) : Bool :=
  v.outputs.all (fun o => decide (o.network = some v.envNetwork)) && (decide (era = .shelleyMA) || txNetworkOk v)

def minFee (v : View) : Bool := decide (v.minfeeB + v.minfeeA * v.size ≤ v.fee)

/-- Alonzo: every inspected collateral input covers the percentage of the fee by itself and carries no assets -/
def alonzoAmounts (v : View) (cs : List CollView) : Bool :=
  cs.all (fun c => !c.lookedAt || (decide (v.fee * v.collateralPercentage ≤ c.coin * 100) && !c.hasAssets))

/-- Babbage / Conway: the lovelace-only balance covers the percentage of the fee and equals the annotation, if any -/
def balanceAmounts (v : View) : Bool :=
  match v.paidCollateral with
  | none => false
  | some paid =>
    decide (v.fee * v.collateralPercentage ≤ paid * 100) &&
    (match v.totalCollateral with
     | some t => decide (paid = t)
     | none => true)

/-- `check_collaterals`: present, `0 < count ≤ max`, every one in the UTxO and not script-locked (nor undecodable),
    then the amount rules of the era -/
def collateralOk (era : Era) (v : View) : Bool :=
  match v.collateral with
  | none => false
  | some cs =>
    !cs.isEmpty && decide (cs.length ≤ v.maxCollateralInputs) &&
    cs.all (fun c => c.inUtxo && (!c.lookedAt || decide (c.script = some false))) &&
    (if era = .alonzo then alonzoAmounts v cs else balanceAmounts v)

/-- `check_fee` (Alonzo+): minimum fee, and the collateral rules when the witness set has Plutus scripts;
    Shelley-MA `check_fees`: the minimum fee -/
def fee (era : Era) (v : View) : Bool :=
  if era = .shelleyMA then minFee v else minFee v && (!v.plutusInWitnesses || collateralOk era v)

/-- `check_auxiliary_data` / `check_metadata`: hash and data both present and matching, or both absent -/
def auxData (v : View) : Bool :=
  if v.auxHashPresent && v.auxPresent then v.auxHashMatches
  else !v.auxHashPresent && !v.auxPresent

/-- is the predicate of `r` stated in this model for `era`? -/
def stated (era : Era) (r : Rule) : Bool :=
  match era, r with
  | .byron, .insNotEmpty => true
  | .byron, .txSize => true
  | .byron, _ => false
  | _, .insNotEmpty | _, .insInUtxo | _, .validity | _, .txSize | _, .minLovelace | _, .networkId | _, .fee | _, .auxData => true
  | .shelleyMA, .valSize => false
  | _, .valSize => true
  | _, _ => false

/-- verdict of rule `r`: its stated predicate, or the verdict observed on the implementation -/
def verdict (era : Era) (v : View) (r : Rule) : Bool :=
  if stated era r then
    match r with
    | .insNotEmpty => insNotEmpty v
    | .insInUtxo => insInUtxo era v
    | .validity => validity era v
    | .txSize => txSize v
    | .minLovelace => minLovelace era v
    | .valSize => valSize v
    | .networkId => networkId era v
    | .fee => fee era v
    | .auxData => auxData v
    | r => v.external r
  else v.external r

/-- `validate_<era>_tx`: the first rule of the era's list that fails (`none` = accepted) -/
def validate (era : Era) (v : View) : Option Rule := (order era).find? (fun r => !verdict era v r)

end PallasVerif.Rules
